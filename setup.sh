#!/bin/sh
# Offline build of the framework after a fresh restore: full .vo build of the Coq development of every
# property claimed in MANIFEST.json (each through its own coq_makefile project) and a warm-up build of
# its harness against /repo.
set -e
cd "$(dirname "$0")"
export GOFLAGS=-mod=mod GOPROXY=off GOSUMDB=off GOTOOLCHAIN=local
mkdir -p bin work evidence replays
python3 - <<'PY'
import json, os, subprocess, sys
sys.path.insert(0, "lib")
import vcheck
man = json.load(open("MANIFEST.json"))
props = [c["property_id"] for c in man["checks"]]
bad = []
for p in props:
    cfg = json.load(open(os.path.join("props", p + ".json")))
    d = cfg.get("coq_dir", p)
    rc, out = vcheck.coq_make(["%s/Properties.vo" % d, "%s/Corr.vo" % d, "Lib/Lit.vo"], dirs=vcheck.prop_dirs(d))
    if rc != 0:
        print(out[-3000:])
        bad.append(p + " (coq)")
        continue
    print("[setup] coq %s ok" % p, flush=True)
vcheck.write_go_sum()
names = sorted({json.load(open(os.path.join("props", p + ".json"))).get("harness", p) for p in props})
for n in names:
    r = subprocess.run(["go", "build", "-tags", "verif", "-o", os.path.join("..", "bin", n), "./cmd/" + n], cwd="harness", env=vcheck.GOENV)
    if r.returncode != 0:
        bad.append(n + " (go build)")
    else:
        print("[setup] harness %s ok" % n, flush=True)
# Warm the Go build cache for the race-detector fragment that the C10 check runs in every tier (non-fatal:
# without it the first quick run builds cold, or reports the fragment as skipped if the race build is impossible).
for n in ["C10"]:
    if n in names:
        r = subprocess.run(["go", "build", "-race", "-tags", "verif", "-o", os.devnull, "./cmd/" + n], cwd="harness", env=vcheck.GOENV)
        print("[setup] race build %s %s" % (n, "ok" if r.returncode == 0 else "FAILED (the race-detector fragment will be skipped)"), flush=True)
if bad:
    # A property whose build fails here is reported by its own check (which rebuilds); it must not keep the
    # other properties' checks from running.
    print("[setup] WARNING: build failed for: " + ", ".join(bad), flush=True)
PY
# C16: warm the Go build cache for the -race child that the quick tier runs (same env as vcheck; non-fatal)
( cd harness && CGO_ENABLED=1 timeout 1200 go build -race -tags verif -o /dev/null ./cmd/C16 ) >/dev/null 2>&1 || echo "[setup] note: C16 -race warm-up build did not complete (the check builds it itself, or reports the race fragment as not run)"
echo "setup ok"
