#!/bin/sh
# Offline build of the framework after a fresh restore: full .vo build of the Coq development of every
# property claimed in MANIFEST.json (each through its own coq_makefile project) and a warm-up build of
# its harness against /repo.
set -e
cd "$(dirname "$0")"
export GOFLAGS=-mod=mod GOPROXY=off GOSUMDB=off GOTOOLCHAIN=local
mkdir -p bin work evidence replays
python3 - <<'PY'
import json, os, subprocess, sys
sys.path.insert(0, "lib")
import vcheck
man = json.load(open("MANIFEST.json"))
props = [c["property_id"] for c in man["checks"]]
bad = []
for p in props:
    cfg = json.load(open(os.path.join("props", p + ".json")))
    d = cfg.get("coq_dir", p)
    rc, out = vcheck.coq_make(["%s/Properties.vo" % d, "%s/Corr.vo" % d, "Lib/Lit.vo"], dirs=vcheck.prop_dirs(d))
    if rc != 0:
        print(out[-3000:])
        bad.append(p + " (coq)")
        continue
    print("[setup] coq %s ok" % p, flush=True)
vcheck.write_go_sum()
names = sorted({json.load(open(os.path.join("props", p + ".json"))).get("harness", p) for p in props})
for n in names:
    r = subprocess.run(["go", "build", "-tags", "verif", "-o", os.path.join("..", "bin", n), "./cmd/" + n], cwd="harness", env=vcheck.GOENV)
    if r.returncode != 0:
        bad.append(n + " (go build)")
    else:
        print("[setup] harness %s ok" % n, flush=True)
if bad:
    # A property whose build fails here is reported by its own check (which rebuilds); it must not keep the
    # other properties' checks from running.
    print("[setup] WARNING: build failed for: " + ", ".join(bad), flush=True)
PY
echo "setup ok"
