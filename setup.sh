#!/bin/sh
# Offline build of the framework: full .vo build of the Coq development and a
# warm-up build of every harness against /repo. Run once after a fresh restore.
set -e
cd "$(dirname "$0")"
export GOFLAGS=-mod=mod GOPROXY=off GOSUMDB=off GOTOOLCHAIN=local
python3 - <<'PY'
import sys
sys.path.insert(0, "lib")
import vcheck
rc, out = vcheck.coq_make([])
print(out[-3000:])
if rc != 0:
    sys.exit("coq build failed")
vcheck.write_go_sum()
PY
mkdir -p bin work evidence replays
(cd harness && go build -tags verif -o ../bin/ ./cmd/... )
echo "setup ok"
