#!/usr/bin/env python3
"""lib/claim.py <Cxx> <level_text> <level_note>  - mark a property as claimed and regenerate MANIFEST.json"""
import json, os, subprocess, sys
ROOT = os.path.dirname(os.path.dirname(os.path.abspath(__file__)))
p = os.path.join(ROOT, "props", sys.argv[1] + ".json")
d = json.load(open(p))
d["claimed"] = True
d["manifest"] = {"level_text": sys.argv[2], "level_note": sys.argv[3], "design_ref": "DESIGN.md section 7, " + sys.argv[1]}
json.dump(d, open(p, "w"), indent=1)
subprocess.check_call([sys.executable, os.path.join(ROOT, "lib", "mkmanifest.py")])
