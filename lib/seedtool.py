#!/usr/bin/env python3
"""Seeded-change bookkeeping (never run by a check).

  lib/seedtool.py import  <Cxx> <k> [srcdir]   copy /tmp/brk-out/Cxx/k -> seeded/Cxx-k/
  lib/seedtool.py validate <Cxx-k>             confirm in a scratch worktree: builds, existing tests of the affected
                                               modules pass, demo fails with the change and passes without it
  lib/seedtool.py detect   <Cxx-k> [tier]      run ./check Cxx against a scratch worktree carrying the change
Results are recorded in seeded/<Cxx-k>/meta.json under "confirmed" / "detection".
"""
import json, os, re, shutil, subprocess, sys, time

ROOT = os.path.dirname(os.path.dirname(os.path.abspath(__file__)))
ENV = dict(os.environ, GOFLAGS="-mod=mod", GOPROXY="off", GOSUMDB="off", GOTOOLCHAIN="local")

# modules that wrap a changed module closely enough that their suites are part of "the existing tests still pass"
DEPENDENTS = {
    ".": ["sdk", "sdk/metric", "sdk/log", "bridge/opentracing"],
    "trace": [".", "sdk"],
    "metric": [".", "sdk/metric"],
    "log": ["sdk/log"],
    "sdk": ["sdk/metric", "sdk/log", "exporters/otlp/otlptrace", "exporters/stdout/stdouttrace", "exporters/zipkin"],
    "sdk/metric": ["exporters/prometheus", "exporters/stdout/stdoutmetric", "exporters/otlp/otlpmetric/otlpmetrichttp"],
    "sdk/log": ["exporters/stdout/stdoutlog", "exporters/otlp/otlplog/otlploghttp"],
}


def sh(cmd, cwd=None, timeout=3000, env=ENV):
    p = subprocess.run(cmd, cwd=cwd, env=env, shell=isinstance(cmd, str), stdout=subprocess.PIPE, stderr=subprocess.STDOUT,
                       text=True, errors="replace", timeout=timeout)
    return p.returncode, p.stdout


def module_of(wt, f):
    d = os.path.dirname(f)
    while True:
        if os.path.exists(os.path.join(wt, d, "go.mod")):
            return d or "."
        if not d:
            return "."
        d = os.path.dirname(d)


def worktree(tag):
    wt = "/tmp/sv-" + tag
    sh(["git", "-C", "/repo", "worktree", "remove", "--force", wt])
    rc, out = sh(["git", "-C", "/repo", "worktree", "add", "--detach", wt, "HEAD"])
    if rc != 0:
        sys.exit(out)
    return wt


def drop(wt):
    sh(["git", "-C", "/repo", "worktree", "remove", "--force", wt])
    sh(["git", "-C", "/repo", "worktree", "prune"])


def load(tag):
    d = os.path.join(ROOT, "seeded", tag)
    return d, json.load(open(os.path.join(d, "meta.json")))


def save(d, meta):
    json.dump(meta, open(os.path.join(d, "meta.json"), "w"), indent=1)


def changed_files(d):
    return re.findall(r"^\+\+\+ b/(\S+)", open(os.path.join(d, "patch.diff")).read(), re.M)


def untracked(wt):
    return set(sh(["git", "ls-files", "--others", "--exclude-standard"], cwd=wt)[1].split("\n")) - {""}


def run_demo(d, wt):
    """Run the demonstration and remove whatever files it copied into the tree (some run.sh do not clean up)."""
    rs = os.path.join(d, "demo", "run.sh")
    before = untracked(wt)
    first = open(rs).readline()
    res = sh(["bash" if "bash" in first else "sh", rs, wt], timeout=1800)
    for f in untracked(wt) - before:
        try:
            os.remove(os.path.join(wt, f))
        except OSError:
            pass
    return res


def cmd_import(prop, k, src=None):
    src = src or "/tmp/brk-out/%s/%s" % (prop, k)
    dst = os.path.join(ROOT, "seeded", "%s-%s" % (prop, k))
    if os.path.exists(dst):
        shutil.rmtree(dst)
    shutil.copytree(src, dst)
    print("imported", dst)


def cmd_validate(tag):
    d, meta = load(tag)
    wt = worktree(tag)
    res = {"repo_head": sh(["git", "-C", "/repo", "rev-parse", "--short", "HEAD"])[1].strip()}
    try:
        rc, out = run_demo(d, wt)
        res["demo_without_change"] = "PASS" if rc == 0 else "FAIL"
        rc, out = sh(["git", "apply", os.path.join(d, "patch.diff")], cwd=wt)
        if rc != 0:
            res["apply"] = "FAILED: " + out[-300:]
            return res
        files = changed_files(d)
        mods = []
        for f in files:
            m = module_of(wt, f)
            if m not in mods:
                mods.append(m)
        for m in list(mods):
            for dep in DEPENDENTS.get(m, []):
                if dep not in mods:
                    mods.append(dep)
        tests = {}
        for m in mods:
            rc, out = sh("go build ./... && go test -vet=off -count=1 -timeout 20m ./... 2>&1 | grep -v 'no test files'", cwd=os.path.join(wt, m))
            bad = [l for l in out.split("\n") if l.startswith("FAIL") or l.startswith("--- FAIL") or "build failed" in l]
            if bad:  # re-run once: the suite has a few timing-sensitive tests
                rc, out = sh("go test -vet=off -count=1 -timeout 20m ./... 2>&1 | grep -v 'no test files'", cwd=os.path.join(wt, m))
                bad = [l for l in out.split("\n") if l.startswith("FAIL") or l.startswith("--- FAIL") or "build failed" in l]
            tests[m] = "ok" if not bad else "FAIL: " + "; ".join(bad[:4])
        res["existing_tests"] = tests
        rc, out = run_demo(d, wt)
        res["demo_with_change"] = "FAIL (as intended)" if rc != 0 else "PASS (change does not manifest)"
        res["demo_output_tail"] = out[-600:]
        res["acceptable"] = (res["demo_without_change"] == "PASS" and rc != 0 and all(v == "ok" for v in tests.values()))
    finally:
        drop(wt)
        meta["confirmed"] = res
        save(d, meta)
    print(tag, json.dumps(res, indent=1))
    return res


def cmd_detect(tag, tier="quick"):
    d, meta = load(tag)
    prop = meta["property"]
    wt = worktree(tag + "-d")
    try:
        rc, out = sh(["git", "apply", os.path.join(d, "patch.diff")], cwd=wt)
        if rc != 0:
            sys.exit("patch does not apply: " + out)
        t0 = time.time()
        rc, out = sh(["./check", prop, "--tier", tier], cwd=ROOT, env=dict(os.environ, VERIF_REPO=wt), timeout=7200)
        lines = [l for l in out.split("\n") if l.startswith("VIOLATION") or l.startswith("KNOWN-FINDING") or "PASS" in l or "machinery" in l]
        det = {"tier": tier, "exit": rc, "detected": rc == 1 and any(l.startswith("VIOLATION") for l in lines),
               "no_failing_input_found": any("no-failing-input-found" in l for l in lines), "wall_s": round(time.time() - t0, 1),
               "lines": lines[:6], "verif_head": sh(["git", "-C", ROOT, "rev-parse", "--short", "HEAD"])[1].strip()}
        m = re.search(r"replay=(\S+)", out)
        if m and os.path.exists(m.group(1)):
            rep = json.load(open(m.group(1)))
            det["replay_kind"] = rep.get("kind")
            det["replay_what"] = rep.get("what")
            f = (rep.get("failing") or rep.get("diverging") or rep.get("direct") or [None])[0]
            det["replay_first_case"] = json.dumps(f)[:800] if f else None
        meta.setdefault("detection", {})[tier] = det
        save(d, meta)
        print(tag, json.dumps(det, indent=1))
    finally:
        drop(wt)
        shutil.rmtree(os.path.join(ROOT, "work", "alt", re.sub(r"[^A-Za-z0-9]+", "_", wt).strip("_")), ignore_errors=True)


def cmd_report():
    """Markdown table of every seeded change: what it breaks, what it needs, confirmed?, caught by which tier."""
    rows = []
    for tag in sorted(os.listdir(os.path.join(ROOT, "seeded"))):
        mp = os.path.join(ROOT, "seeded", tag, "meta.json")
        if not os.path.exists(mp):
            continue
        m = json.load(open(mp))
        c = m.get("confirmed", {})
        det = m.get("detection", {})
        def cell(t):
            d = det.get(t)
            if not d:
                return "not run"
            if d.get("detected"):
                return "caught (%s%s)" % (d.get("replay_kind") or "violation", ", no-failing-input-found" if d.get("no_failing_input_found") else "")
            return "MISSED" if d.get("exit") == 0 else "exit %s" % d.get("exit")
        mech = (m.get("mechanism") or "").replace("|", "/").replace("\n", " ")
        needs = (m.get("needs") or "").replace("|", "/").replace("\n", " ")
        rows.append("| %s | %s | %s | %s | %s | %s |" % (tag, ", ".join(m.get("files", []))[:80], mech[:230], needs[:200],
                                                       "yes" if c.get("acceptable") else "NO", cell("quick") + (" / thorough: " + cell("thorough") if "thorough" in det else "")))
    print("| id | files | mechanism | needs to manifest | confirmed | check result (quick) |")
    print("|---|---|---|---|---|---|")
    print("\n".join(rows))


if __name__ == "__main__":
    a = sys.argv[1:]
    if a[0] == "report":
        cmd_report()
        sys.exit(0)
    if a[0] == "import":
        cmd_import(*a[1:])
    elif a[0] == "validate":
        cmd_validate(a[1])
    elif a[0] == "detect":
        cmd_detect(*a[1:])
    else:
        sys.exit(__doc__)
