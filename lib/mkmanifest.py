#!/usr/bin/env python3
"""Regenerate MANIFEST.json from props/*.json (one file per property; a property is claimed when its file has
"claimed": true). Hand-run after a property is integrated; never run by a check."""
import json, os, sys
ROOT = os.path.dirname(os.path.dirname(os.path.abspath(__file__)))
ids = [json.loads(l)["id"] for l in open(os.path.join(ROOT, "properties.jsonl"))]
old = json.load(open(os.path.join(ROOT, "MANIFEST.json")))
checks, na, served = [], [], []
for i in ids:
    p = os.path.join(ROOT, "props", i + ".json")
    cfg = json.load(open(p)) if os.path.exists(p) else {}
    m = cfg.get("manifest")
    if cfg.get("claimed") and m:
        served.append(i)
        checks.append({
            "property_id": i,
            "quick_cmd": "./check %s --tier quick" % i,
            "thorough_cmd": "./check %s --tier thorough" % i,
            "evidence_file": "evidence/%s.json" % i,
            "replay_cmd_template": "./check replay {path}",
            "engine": "rocq-proof+correspondence",
            "level_claimed": {"category": "proof", "text": m["level_text"], "design_ref": m.get("design_ref", "DESIGN.md section 7, %s" % i)},
            "level_note": m["level_note"],
            "technique": m.get("technique", "Rocq proof of Gallina model + differential correspondence with the Go implementation"),
        })
    else:
        na.append({"property_id": i, "reason": cfg.get("not_claimed_reason",
                   "check not finished in this session (model, theorems or harness incomplete); not a claim that the technique cannot apply")})
old["engines"] = [{"name": "rocq-proof+correspondence", "path": "check", "serves_properties": served,
                   "kind_free_text": old["engines"][0]["kind_free_text"]}]
old["checks"] = checks
old["not_applicable"] = na
json.dump(old, open(os.path.join(ROOT, "MANIFEST.json"), "w"), indent=1)
print("claimed:", " ".join(served)); print("not claimed:", " ".join(x["property_id"] for x in na))
