#!/usr/bin/env python3
"""Refresh the generated tables of DESIGN.md (findings, seeded changes)."""
import json, os, re, subprocess, sys
ROOT = os.path.dirname(os.path.dirname(os.path.abspath(__file__)))
p = os.path.join(ROOT, "DESIGN.md")
s = open(p).read()
f = json.load(open(os.path.join(ROOT, "known_findings.json")))["findings"]
rows = ["| id | property | status | what fails |", "|---|---|---|---|"]
for x in f:
    st = x["status"] + (" " + x.get("commit", "") if x["status"] == "fixed" else " (code %s)" % x.get("code"))
    rows.append("| %s | %s | %s | %s |" % (x["id"], x["property"], st, x["what"].replace("|", "/").replace("\n", " ")[:420]))
s = re.sub(r"(<!-- BEGIN FINDINGS TABLE[^>]*-->\n).*?(<!-- END FINDINGS TABLE -->)", lambda m: m.group(1) + "\n".join(rows) + "\n" + m.group(2), s, flags=re.S)
rep = subprocess.run([sys.executable, os.path.join(ROOT, "lib", "seedtool.py"), "report"], stdout=subprocess.PIPE, text=True).stdout
s = re.sub(r"(<!-- BEGIN SEEDED TABLE[^>]*-->\n).*?(<!-- END SEEDED TABLE -->)", lambda m: m.group(1) + rep + m.group(2), s, flags=re.S)
open(p, "w").write(s)
print("DESIGN.md tables refreshed")
