#!/usr/bin/env python3
"""Refresh the generated tables of DESIGN.md (findings, seeded changes)."""
import json, os, re, subprocess, sys
ROOT = os.path.dirname(os.path.dirname(os.path.abspath(__file__)))
p = os.path.join(ROOT, "DESIGN.md")
s = open(p).read()
f = json.load(open(os.path.join(ROOT, "known_findings.json")))["findings"]
rows = ["| id | property | status | what fails |", "|---|---|---|---|"]
for x in f:
    st = x["status"] + (" " + x.get("commit", "") if x["status"] == "fixed" else " (code %s)" % x.get("code"))
    rows.append("| %s | %s | %s | %s |" % (x["id"], x["property"], st, x["what"].replace("|", "/").replace("\n", " ")[:420]))
s = re.sub(r"(<!-- BEGIN FINDINGS TABLE[^>]*-->\n).*?(<!-- END FINDINGS TABLE -->)", lambda m: m.group(1) + "\n".join(rows) + "\n" + m.group(2), s, flags=re.S)
rep = subprocess.run([sys.executable, os.path.join(ROOT, "lib", "seedtool.py"), "report"], stdout=subprocess.PIPE, text=True).stdout
s = re.sub(r"(<!-- BEGIN SEEDED TABLE[^>]*-->\n).*?(<!-- END SEEDED TABLE -->)", lambda m: m.group(1) + rep + m.group(2), s, flags=re.S)
import glob
rows = []
for pf in sorted(glob.glob(os.path.join(ROOT, "props", "*.json"))):
    d = json.load(open(pf))
    pid = d["id"]
    kn = [x["id"] for x in f if x["property"] == pid and x["status"] == "known"]
    fx = [x["id"] for x in f if x["property"] == pid and x["status"] == "fixed"]
    rows.append("### %s as built\n" % pid)
    rows.append("* Theorems (%d, all closed under the global context): %s." % (len(d.get("required_theorems", [])), ", ".join("`%s`" % t for t in d.get("required_theorems", []))))
    rows.append("* Guards / assumptions of the statements: " + ("; ".join(a.replace("\n", " ") for a in d.get("assumptions", [])) or "none") + ".")
    rows.append("* Partial clauses: " + ("; ".join(d.get("partial_clauses", [])) or "none") + ".")
    rows.append("* Tested only (runtime residue): " + ("; ".join(d.get("tested_only_clauses", [])) or "none") + ".")
    rows.append("* Modelled, not verified (additions to the trusted base): " + ("; ".join(d.get("trusted_base", [])) or "none") + ".")
    rows.append("* Findings: known %s; fixed %s. Details, model/code correspondence table and mutation trials: `notes/%s.md`.\n" % (", ".join(kn) or "none", ", ".join(fx) or "none", pid))
s = re.sub(r"(<!-- BEGIN ASBUILT[^>]*-->\n).*?(<!-- END ASBUILT -->)", lambda m: m.group(1) + "\n".join(rows) + "\n" + m.group(2), s, flags=re.S)
open(p, "w").write(s)
print("DESIGN.md tables refreshed")
