#!/usr/bin/env python3
"""Merge known_findings.d/*.json into known_findings.json (one committed list of every finding: known and fixed)."""
import glob, json, os
ROOT = os.path.dirname(os.path.dirname(os.path.abspath(__file__)))
p = os.path.join(ROOT, "known_findings.json")
d = json.load(open(p))
by = {f["id"]: f for f in d["findings"]}
for frag in sorted(glob.glob(os.path.join(ROOT, "known_findings.d", "*.json"))):
    for f in json.load(open(frag)).get("findings", []):
        by[f["id"]] = f
d["findings"] = sorted(by.values(), key=lambda f: (f["property"], f["id"]))
json.dump(d, open(p, "w"), indent=1)
print(len(d["findings"]), "findings:", sum(1 for f in d["findings"] if f["status"] == "known"), "known,",
      sum(1 for f in d["findings"] if f["status"] == "fixed"), "fixed")
