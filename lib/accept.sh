#!/bin/sh
# lib/accept.sh Cxx : unchanged tree with two seeds, then every seeded change of that property
cd "$(dirname "$0")/.." || exit 2
p=$1
for s in 1 2; do ./check $p --seed $s 2>&1 | grep -E "PASS|VIOLATION|machinery|KNOWN" | cut -c1-160; done
for d in seeded/$p-*; do
  [ -d "$d" ] || continue
  t=$(basename $d)
  python3 lib/seedtool.py detect $t quick 2>&1 | python3 -c "
import sys,re
s=sys.stdin.read()
m=re.search(r'\"detected\": (\w+)',s); k=re.search(r'\"replay_kind\": \"([^\"]*)\"',s); n='no-failing-input-found' if '\"no_failing_input_found\": true' in s else ''
print('$t', 'detected='+(m.group(1) if m else '?'), k.group(1) if k else '', n)"
done
