#!/usr/bin/env python3
"""Driver shared by every property check (see DESIGN.md section 2 and 4).

   ./check <Cxx> [--tier quick|thorough] [--seed N]
   ./check replay <replay-file>

Exit 0: property held on everything explored (KNOWN-FINDING lines allowed).
Exit 1: a line  VIOLATION property=<id> replay=<path>[ no-failing-input-found]  was printed.
Exit 2: the machinery itself broke (timeout, missing tool); nothing is claimed.
"""
import concurrent.futures as cf
import fcntl
import glob
import json
import os
import re
import shutil
import subprocess
import sys
import time

ROOT = os.path.dirname(os.path.dirname(os.path.abspath(__file__)))
COQ = os.path.join(ROOT, "coq")
HARNESS = os.path.join(ROOT, "harness")
REPO = os.environ.get("VERIF_REPO", "/repo")

GOENV = dict(os.environ, GOFLAGS="-mod=mod", GOPROXY="off", GOSUMDB="off", GOTOOLCHAIN="local",
             CGO_ENABLED=os.environ.get("CGO_ENABLED", "1"))

FORBIDDEN = re.compile(
    r"\b(Admitted|admit|Axiom|Axioms|Parameter|Parameters|Conjecture|Conjectures)\b"
    r"|Admit\s+Obligations|Unset\s+Guard\s+Checking|Unset\s+Positivity\s+Checking|Unset\s+Universe\s+Checking"
    r"|bypass_check|type-in-type|impredicative-set|native_compute")
SECTION_VARS = re.compile(r"^\s*(Variable|Variables|Hypothesis|Hypotheses|Context)\b")

BASE_TRUSTED = [
    "Coq 8.16.1 kernel (coqc), including the vm_compute bytecode VM used by finite-domain lemmas and to evaluate generated case files; native_compute is not used",
    "axioms: none declared by the development; Print Assumptions of every property theorem is checked on each run (allowed list per property, empty unless stated)",
    "primitive 63-bit integers (Coq.Numbers.Cyclic.Int63.Uint63) only as literals in generated case files (Lib/Lit.v), never in a model, spec or theorem",
    "the hand-written Gallina model is tied to /repo by the correspondence run (Go harness rebuilt against /repo's working tree via replace directives, observations evaluated by coqc); harness, canonicaliser, Coq emitter and this driver are trusted not to hide a divergence",
]


def log(*a):
    print(*a, flush=True)


def run(cmd, cwd=None, env=None, timeout=None, stdin=None):
    """Run a command, return (rc, output); rc = -9 on timeout."""
    try:
        p = subprocess.run(cmd, cwd=cwd, env=env, timeout=timeout, stdout=subprocess.PIPE,
                           stderr=subprocess.STDOUT, stdin=stdin, text=True, errors="replace")
        return p.returncode, p.stdout
    except subprocess.TimeoutExpired as e:
        out = e.stdout or ""
        if isinstance(out, bytes):
            out = out.decode("utf-8", "replace")
        return -9, out + "\n[timeout after %ss]" % timeout


# --------------------------------------------------------------------------
# Coq side
# --------------------------------------------------------------------------

def strip_comments(src):
    out, depth, i, n = [], 0, 0, len(src)
    in_str = False
    while i < n:
        if depth == 0 and src[i] == '"':
            in_str = not in_str
            out.append(src[i]); i += 1; continue
        if not in_str and src.startswith("(*", i):
            depth += 1; i += 2; continue
        if not in_str and depth > 0 and src.startswith("*)", i):
            depth -= 1; i += 2; continue
        if depth == 0:
            out.append(src[i])
        elif src[i] == "\n":
            out.append("\n")
        i += 1
    return "".join(out)


def static_scan(files):
    """Forbidden constructs; Variable/Hypothesis only inside a Section."""
    bad = []
    for f in files:
        src = strip_comments(open(f, encoding="utf-8").read())
        depth = 0
        for ln, line in enumerate(src.split("\n"), 1):
            if re.match(r"^\s*Section\b", line):
                depth += 1
            elif re.match(r"^\s*End\b", line) and depth > 0:
                depth -= 1
            m = FORBIDDEN.search(line)
            if m:
                bad.append("%s:%d: forbidden construct %r" % (os.path.relpath(f, ROOT), ln, m.group(0)))
            if depth == 0 and SECTION_VARS.match(line):
                bad.append("%s:%d: Variable/Hypothesis/Context outside a Section" % (os.path.relpath(f, ROOT), ln))
    return bad


def coq_files(dirs=None):
    fs = []
    for d, _, names in os.walk(COQ):
        for n in names:
            if n.endswith(".v"):
                rel = os.path.relpath(os.path.join(d, n), COQ)
                if dirs is None or rel.split(os.sep)[0] in dirs:
                    fs.append(rel)
    return sorted(fs)


def prop_dirs(d):
    """Coq directories a property's build depends on: Lib, its own, and props/<id>.json coq_deps (transitively)."""
    seen, todo = {"Lib"}, [d]
    while todo:
        x = todo.pop()
        if x in seen:
            continue
        seen.add(x)
        for pj in glob.glob(os.path.join(ROOT, "props", "*.json")):
            try:
                c = json.load(open(pj))
            except ValueError:
                continue
            if c.get("coq_dir", c.get("id")) == x:
                todo += c.get("coq_deps", [])
    return sorted(seen)


def ensure_makefile(dirs=None):
    """(Re)generate the coq_makefile project for the given directories (all when None) when its file set changed.
    One project per property keeps a half-written file of another property from breaking this one's build."""
    tag = "" if dirs is None else "." + "_".join(d for d in dirs if d != "Lib")
    proj = os.path.join(COQ, "_CoqProject" + tag)
    head = ["-R . Verif",
            "-arg -w -arg -notation-overridden,-deprecated-hint-without-locality,-deprecated-instance-without-locality,-deprecated-hint-rewrite-without-locality"]
    want = "\n".join(head + coq_files(dirs)) + "\n"
    have = open(proj).read() if os.path.exists(proj) else ""
    mkname = "Makefile" + tag
    mk = os.path.join(COQ, mkname)
    if want != have or not os.path.exists(mk) or not os.path.exists(mk + ".conf"):
        with open(proj, "w") as f:
            f.write(want)
        rc, out = run(["coq_makefile", "-f", "_CoqProject" + tag, "-o", mkname], cwd=COQ, timeout=120)
        if rc != 0:
            raise RuntimeError("coq_makefile failed:\n" + out)
    return mkname


def coq_make(targets, timeout=1500, dirs=None):
    """Full .vo build of the given targets (never -vos).  Concurrent checks are serialised per Coq directory: the
    shared Lib files are built first under a global lock (seconds), then the property's own directories under their
    own locks, so a slow or hung build of one property cannot hold up the checks of the others."""
    os.makedirs(os.path.join(ROOT, "work"), exist_ok=True)
    with open(os.path.join(ROOT, "work", ".coq.lock"), "w") as lk:
        fcntl.flock(lk, fcntl.LOCK_EX)
        mk = ensure_makefile(dirs)
        libs = [f + "o" for f in coq_files(["Lib"])]
        rc, out = run(["make", "-f", mk, "-j16"] + libs, cwd=COQ, timeout=600)
        if rc != 0 or dirs is None:
            if dirs is None and rc == 0:
                return run(["make", "-f", mk, "-j16"] + targets, cwd=COQ, timeout=timeout)
            return rc, out
    held = []
    try:
        for d in sorted(x for x in dirs if x != "Lib"):
            f = open(os.path.join(ROOT, "work", ".coq.%s.lock" % d), "w")
            fcntl.flock(f, fcntl.LOCK_EX)
            held.append(f)
        return run(["make", "-f", mk, "-j16"] + targets, cwd=COQ, timeout=timeout)
    finally:
        for f in held:
            f.close()


def parse_assumptions(out):
    """Split coqc output of a Properties file into one block per Print Assumptions."""
    blocks, cur = [], None
    for line in out.split("\n"):
        if line.startswith("Closed under the global context"):
            if cur is not None:
                blocks.append(cur)
            blocks.append([])
            cur = None
        elif line.startswith("Axioms:"):
            if cur is not None:
                blocks.append(cur)
            cur = []
        elif cur is not None:
            m = re.match(r"^([A-Za-z_][\w.']*)\s*:", line)
            if m:
                cur.append(m.group(1))
            elif line.strip() == "" or not line.startswith(" "):
                if line.strip() and not line.startswith(" "):
                    # a new top-level message ends the block
                    blocks.append(cur); cur = None
    if cur is not None:
        blocks.append(cur)
    return blocks


def proof_gate(prop, cfg, work):
    """Returns dict(ok, obligations, discharged, theorems, axioms, problems, log)."""
    d = cfg.get("coq_dir", prop)
    res = dict(ok=False, obligations=0, discharged=0, theorems=[], axioms=[], problems=[], log="")
    targets = ["%s/Properties.vo" % d, "%s/Corr.vo" % d, "Lib/Lit.vo"]  # Lit is imported by the generated case files only
    rc, out = coq_make(targets, dirs=prop_dirs(d))
    res["log"] = out[-6000:]
    if rc == -9:
        raise RuntimeError("coq build timed out")
    prop_v = os.path.join(COQ, d, "Properties.v")
    src = strip_comments(open(prop_v, encoding="utf-8").read())
    theorems = re.findall(r"^\s*Theorem\s+([\w']+)", src, re.M)
    printed = re.findall(r"^\s*Print\s+Assumptions\s+([\w']+)", src, re.M)
    res["theorems"] = theorems
    res["obligations"] = len(theorems)
    if rc != 0:
        m = re.search(r'File "\./([^"]+)", line (\d+)', out)
        res["problems"].append("coq build failed" + (" at %s:%s" % m.groups() if m else ""))
        # which theorems still check is unknown: none counted as discharged
        return res
    missing = [t for t in theorems if t not in printed]
    if missing:
        res["problems"].append("theorems without Print Assumptions: " + ", ".join(missing))
    rc, out = run(["coqc", "-R", COQ, "Verif", "-o", os.path.join(work, "Properties.vo"), prop_v],
                  cwd=work, timeout=1200)
    if rc != 0:
        res["problems"].append("coqc Properties.v failed")
        res["log"] = out[-6000:]
        return res
    blocks = parse_assumptions(out)
    allowed = set(cfg.get("allowed_axioms", []))
    ok = 0
    for name, blk in zip(printed, blocks):
        extra = [a for a in blk if a.split(".")[-1] not in allowed and a not in allowed]
        res["axioms"] += [a for a in blk if a not in res["axioms"]]
        if extra:
            res["problems"].append("theorem %s depends on axioms not in the allowed list: %s" % (name, ", ".join(extra)))
        elif name in theorems:
            ok += 1
    if len(blocks) != len(printed):
        res["problems"].append("Print Assumptions output blocks (%d) != commands (%d)" % (len(blocks), len(printed)))
    res["discharged"] = ok
    files = glob.glob(os.path.join(COQ, "Lib", "*.v")) + glob.glob(os.path.join(COQ, d, "*.v"))
    for extra_dir in cfg.get("coq_deps", []):
        files += glob.glob(os.path.join(COQ, extra_dir, "*.v"))
    res["problems"] += static_scan(files)
    required = cfg.get("required_theorems", [])
    for t in required:
        if t not in theorems:
            res["problems"].append("required theorem %s is missing from Properties.v" % t)
    res["ok"] = not res["problems"] and ok == len(theorems) and ok > 0
    return res


def coqchk_audit(prop, cfg):
    """Thorough tier: re-check the compiled closure of the property's theorems with the independent checker and
    return (ok, axioms listed by -o, log tail)."""
    d = cfg.get("coq_dir", prop)
    with open(os.path.join(ROOT, "work", ".coq.lock"), "w") as lk:
        fcntl.flock(lk, fcntl.LOCK_SH)
        rc, out = run(["coqchk", "-silent", "-o", "-R", COQ, "Verif", "Verif.%s.Properties" % d], cwd=COQ, timeout=3000)
    axioms = []
    m = re.search(r"\* Axioms:\s*(.*?)(?:\n\s*\n|\n\* |\Z)", out, re.S)
    if m:
        axioms = [a.strip() for a in m.group(1).split("\n") if a.strip() and a.strip() != "<none>"]
    return rc == 0, axioms, out[-3000:]


class CoqSlot:
    """One of a machine-wide pool of evaluation slots (file locks under work/): however many checks run at the same
    time, at most VERIF_COQ_SLOTS (default: number of CPUs) coqc evaluations of generated case files are alive, which
    bounds their memory (each needs 0.3-0.6 GB) as well as the load."""

    def __init__(self):
        self.n = int(os.environ.get("VERIF_COQ_SLOTS") or os.cpu_count() or 16)
        self.f = None

    def __enter__(self):
        d = os.path.join(ROOT, "work")
        os.makedirs(d, exist_ok=True)
        k = os.getpid()
        while True:
            for i in range(self.n):
                f = open(os.path.join(d, ".coqslot.%d.lock" % ((k + i) % self.n)), "w")
                try:
                    fcntl.flock(f, fcntl.LOCK_EX | fcntl.LOCK_NB)
                    self.f = f
                    return self
                except OSError:
                    f.close()
            time.sleep(0.2)

    def __exit__(self, *a):
        self.f.close()


def eval_shard(work, fname, timeout):
    t0 = time.time()
    out = ""
    for attempt in range(3):
        with CoqSlot():
            rc, out = run(["coqc", "-R", COQ, "Verif", "-o", os.path.join(work, fname[:-2] + ".vo"), fname], cwd=work, timeout=timeout)
        if rc == 0:
            break
        # killed from outside (out-of-memory killer on a crowded machine) or no diagnostic at all: try again, alone
        if rc in (-9, 137, -15) and "[timeout after" not in out or not out.strip():
            time.sleep(2 + 5 * attempt)
            continue
        break
    dt = time.time() - t0
    if rc != 0:
        return fname, None, out[-3000:], dt
    m = re.search(r"R\s*=\s*(.*?)\s*:\s*list", out, re.S)
    if not m:
        return fname, None, out[-3000:], dt
    pairs = [(int(a), int(b)) for a, b in re.findall(r"\((\d+)(?:%N)?,\s*(\d+)(?:%N)?\)", m.group(1))]
    return fname, pairs, "", dt


# --------------------------------------------------------------------------
# Go side
# --------------------------------------------------------------------------

def alt_repo():
    """True when the checks are pointed at a scratch copy of the repository (VERIF_REPO), e.g. to try a seeded change."""
    return os.path.realpath(REPO) != "/repo"


def write_modfile(work):
    """go.mod/go.sum for a harness build against VERIF_REPO: harness/go.mod with every replace target re-rooted."""
    src = open(os.path.join(HARNESS, "go.mod")).read()
    src = re.sub(r"=> /repo(?=[/\s])", "=> " + os.path.realpath(REPO), src)
    mod = os.path.join(work, "alt.mod")
    with open(mod, "w") as f:
        f.write(src)
    shutil.copyfile(os.path.join(HARNESS, "go.sum"), os.path.join(work, "alt.sum"))
    return mod


def write_go_sum():
    sums = set()
    for d, dirs, names in os.walk(REPO):
        if ".git" in dirs:
            dirs.remove(".git")
        if "go.sum" in names:
            with open(os.path.join(d, "go.sum")) as f:
                sums.update(l for l in f.read().split("\n") if l.strip())
    extra = os.path.join(HARNESS, "go.sum.extra")
    if os.path.exists(extra):
        sums.update(l for l in open(extra).read().split("\n") if l.strip())
    want = "\n".join(sorted(sums)) + "\n"
    p = os.path.join(HARNESS, "go.sum")
    if not os.path.exists(p) or open(p).read() != want:
        with open(p, "w") as f:
            f.write(want)


def build_harness(name, work, race=False):
    os.makedirs(os.path.join(ROOT, "work"), exist_ok=True)
    with open(os.path.join(ROOT, "work", ".go.lock"), "w") as lk:
        fcntl.flock(lk, fcntl.LOCK_EX)
        write_go_sum()
        binp = os.path.join(work, "harness" + ("-race" if race else ""))
        cmd = ["go", "build", "-tags", "verif", "-o", binp]
        if alt_repo():
            cmd.append("-modfile=" + write_modfile(work))
        if race:
            cmd.append("-race")
        cmd.append("./cmd/" + name)
        rc, out = run(cmd, cwd=HARNESS, env=GOENV, timeout=1500)
    return rc, out, binp


# --------------------------------------------------------------------------
# Verdict
# --------------------------------------------------------------------------

CODE_NAMES = {1: "model/implementation mismatch", 2: "spec violated by the implementation's observation",
              3: "spec violated by the model's own output"}


def load_known():
    p = os.path.join(ROOT, "known_findings.json")
    if not os.path.exists(p):
        return []
    out = json.load(open(p)).get("findings", [])
    for frag in sorted(glob.glob(os.path.join(ROOT, "known_findings.d", "*.json"))):
        out += json.load(open(frag)).get("findings", [])
    # known_findings.json is the merged list (lib/mkknown.py); the per-property fragments are its sources and win
    seen, uniq = set(), []
    for f in reversed(out):
        if f.get("id") not in seen:
            seen.add(f.get("id"))
            uniq.append(f)
    return list(reversed(uniq))


def one_round(prop, cfg, work, tier, seed, scale):
    """Build + run harness, evaluate shards. Returns dict with verdict material."""
    r = dict(build_failed=False, harness_failed=False, machinery=None, meta=None, fails={}, log="",
             shard_errors=[], coq_s=0.0, harness_s=0.0)
    race = tier == "thorough" and bool(cfg.get("race_thorough"))
    rc, out, binp = build_harness(cfg.get("harness", prop), work, race=race)
    if rc != 0:
        if rc == -9:
            r["machinery"] = "go build timed out"
        r["build_failed"] = True
        r["log"] = out[-8000:]
        return r
    for f in glob.glob(os.path.join(work, "cases_*")) + glob.glob(os.path.join(work, "meta.json")):
        os.remove(f)
    t0 = time.time()
    env = dict(GOENV, VERIF_WORK=work, VERIF_ROOT=ROOT, VERIF_REPO=REPO)
    if race:
        env["GORACE"] = "halt_on_error=1 exitcode=66"
    tmo = cfg.get("harness_timeout_s", {}).get(tier, 600 if tier == "quick" else 3000)
    rc, out = run([binp, "-seed", str(seed), "-tier", tier, "-out", work, "-scale", str(scale)], cwd=work, env=env, timeout=tmo * max(1, scale))
    r["harness_s"] = time.time() - t0
    r["log"] = out[-12000:]
    if rc != 0 or not os.path.exists(os.path.join(work, "meta.json")):
        if rc == -9:
            r["machinery"] = "harness timed out"
        r["harness_failed"] = True
        return r
    meta = json.load(open(os.path.join(work, "meta.json")))
    r["meta"] = meta
    t0 = time.time()
    ctmo = cfg.get("coqc_timeout_s", 900 if tier == "quick" else 3600)
    with cf.ThreadPoolExecutor(max_workers=int(os.environ.get("VERIF_JOBS", "16"))) as ex:
        futs = [ex.submit(eval_shard, work, sh["file"], ctmo) for sh in meta["shards"]]
        idx = {sh["file"]: sh["indices"] for sh in meta["shards"]}
        for fu in futs:
            fname, pairs, err, dt = fu.result()
            if pairs is None:
                r["shard_errors"].append((fname, err))
                continue
            for i, code in pairs:
                r["fails"].setdefault(idx[fname][i], []).append(code)
    r["coq_s"] = time.time() - t0
    return r


def case_records(work, indices):
    want = set(indices)
    out = {}
    p = os.path.join(work, "cases.jsonl")
    if not os.path.exists(p):
        return out
    with open(p) as f:
        for line in f:
            m = re.match(r'\{"index":(\d+),', line)
            if m and int(m.group(1)) in want:
                out[int(m.group(1))] = json.loads(line)
    return out


def check(prop, tier, seed):
    t_start = time.time()
    cfg = json.load(open(os.path.join(ROOT, "props", prop + ".json")))
    work = os.path.join(ROOT, "work", prop)
    evdir, repdir = os.path.join(ROOT, "evidence"), os.path.join(ROOT, "replays")
    if alt_repo():
        # pointed at a scratch copy of the repository: keep everything (evidence too) out of the committed places
        tag = re.sub(r"[^A-Za-z0-9]+", "_", os.path.realpath(REPO)).strip("_")
        work = os.path.join(ROOT, "work", "alt", tag, prop)
        evdir = repdir = work
    os.makedirs(work, exist_ok=True)
    os.makedirs(evdir, exist_ok=True)
    os.makedirs(repdir, exist_ok=True)
    known = [k for k in load_known() if k.get("property") == prop]
    known_codes = {k["code"]: k for k in known if k.get("status") == "known" and "code" in k}

    gate = proof_gate(prop, cfg, work)
    log("[%s] proof gate: %d/%d theorems closed%s" % (prop, gate["discharged"], gate["obligations"],
                                                     "" if gate["ok"] else " -- PROBLEMS: " + "; ".join(gate["problems"])))

    chk = None
    if tier == "thorough" and gate["ok"] and not os.environ.get("VERIF_NO_COQCHK"):
        ok, ax, clog = coqchk_audit(prop, cfg)
        chk = dict(ok=ok, axioms=ax)
        log("[%s] coqchk: %s; axioms of the loaded closure: %s" % (prop, "ok" if ok else "FAILED", ", ".join(ax) or "none"))
        if not ok:
            gate["ok"] = False
            gate["problems"].append("coqchk rejected the compiled closure of %s/Properties.vo" % cfg.get("coq_dir", prop))
            gate["log"] = clog

    scale = 1
    if not gate["ok"]:
        scale = 3  # the proof no longer stands: search harder for a concrete failing input
    r = one_round(prop, cfg, work, tier, seed, scale)
    if r["machinery"]:
        log("[%s] machinery failure: %s\n%s" % (prop, r["machinery"], r["log"][-2000:]))
        return 2
    if r["shard_errors"] and gate["ok"]:
        # Corr compiled (gate ok) but a generated file failed to evaluate: machinery problem, not a verdict.
        log("[%s] machinery failure: cases file did not evaluate:\n%s" % (prop, r["shard_errors"][0][1]))
        return 2

    violations = []   # (kind, text, cases)
    known_hit = {}
    meta = r["meta"] or {}
    direct = meta.get("direct_violations") or []

    def split_fails(fails):
        spec, mism, kn = {}, {}, {}
        for i, codes in fails.items():
            for c in codes:
                if c >= 100:
                    k = c - 100
                    if k in known_codes:
                        kn.setdefault(k, []).append(i)
                    else:
                        spec.setdefault(i, []).append(c)   # classified as a finding that is not (or no longer) listed as known
                elif c == 1:
                    mism.setdefault(i, []).append(c)
                else:
                    spec.setdefault(i, []).append(c)
        return spec, mism, kn

    spec, mism, kn = split_fails(r["fails"])
    for k, idxs in kn.items():
        known_hit[k] = len(idxs)

    replay = os.path.join(repdir, "%s-%s-seed%d.json" % (prop, tier, seed))
    rep = dict(property=prop, tier=tier, seed=seed, replay_cmd="./check %s --tier %s --seed %d" % (prop, tier, seed))
    no_input = False
    if r["build_failed"]:
        rep.update(kind="broken-correspondence", what="the harness no longer builds against /repo (the API the correspondence Corr.%s relies on changed)" % prop,
                   correspondence="Corr.%s (harness/cmd/%s)" % (prop, cfg.get("harness", prop)), log=r["log"])
        violations.append("harness build failed")
        no_input = True
    elif r["harness_failed"]:
        crashed = re.search(r"^(panic:|fatal error:|SIGSEGV|goroutine \d+ \[|WARNING: DATA RACE)", r["log"], re.M) is not None
        if not crashed:
            log("[%s] machinery failure: harness exited abnormally without a Go panic:\n%s" % (prop, r["log"][-3000:]))
            return 2
        rep.update(kind="implementation-crash", what="the harness process running the implementation died (panic / fatal error)", log=r["log"])
        violations.append("implementation crashed under the harness")
    else:
        if direct:
            rep.update(kind="failing-input", what="observed directly by the harness: " + direct[0]["what"], direct=direct[:10])
            violations.append("direct: " + direct[0]["what"])
        if spec:
            recs = case_records(work, list(spec)[:2000])
            best = sorted(spec, key=lambda i: len(recs.get(i, {}).get("term", "")) or 10**9)[:10]
            rep.update(kind="failing-input", what="the implementation's observation violates the specification",
                       failing=[dict(index=i, codes=spec[i], meaning=[CODE_NAMES.get(c, "finding class %d (not listed as known)" % (c - 100)) for c in spec[i]],
                                     **{k: recs.get(i, {}).get(k) for k in ("case", "term")}) for i in best],
                       failing_total=len(spec))
            violations.append("%d case(s) violate the spec" % len(spec))
        if mism and not spec and not direct:
            # escalate: search for a concrete failing input before reporting
            log("[%s] %d model/implementation mismatches and no spec failure: escalating search" % (prop, len(mism)))
            found = None
            for k in range(1, 3):
                work2 = os.path.join(work, "esc%d" % k)
                os.makedirs(work2, exist_ok=True)
                r2 = one_round(prop, cfg, work2, tier, seed + 1000 * k, 4)
                if r2["meta"] is None:
                    break
                spec2, _, _ = split_fails(r2["fails"])
                d2 = (r2["meta"] or {}).get("direct_violations") or []
                if spec2 or d2:
                    found = (work2, spec2, d2, seed + 1000 * k)
                    break
            recs = case_records(work, list(mism)[:2000])
            best = sorted(mism, key=lambda i: len(recs.get(i, {}).get("term", "")) or 10**9)[:10]
            rep.update(diverging=[dict(index=i, **{k: recs.get(i, {}).get(k) for k in ("case", "term")}) for i in best],
                       diverging_total=len(mism), correspondence="Corr.%s.check_case (model vs implementation observation)" % prop)
            if found:
                work2, spec2, d2, s2 = found
                recs2 = case_records(work2, list(spec2)[:2000])
                best2 = sorted(spec2, key=lambda i: len(recs2.get(i, {}).get("term", "")) or 10**9)[:10]
                rep.update(kind="failing-input", what="model and implementation diverge, and the escalated search found an observation that violates the specification",
                           seed_of_failing=s2, direct=d2[:10],
                           failing=[dict(index=i, codes=spec2[i], **{k: recs2.get(i, {}).get(k) for k in ("case", "term")}) for i in best2])
            else:
                rep.update(kind="broken-correspondence", what="model and implementation diverge; the property is no longer shown to hold for the code; no input violating the specification was found")
                no_input = True
            violations.append("%d model/implementation mismatches" % len(mism))
        elif mism:
            recs = case_records(work, list(mism)[:2000])
            best = sorted(mism, key=lambda i: len(recs.get(i, {}).get("term", "")) or 10**9)[:5]
            rep["diverging"] = [dict(index=i, **{k: recs.get(i, {}).get(k) for k in ("case", "term")}) for i in best]
            rep["diverging_total"] = len(mism)

    if not gate["ok"]:
        rep.setdefault("kind", "broken-proof")
        rep["proof_gate"] = dict(problems=gate["problems"], theorems=gate["theorems"], discharged=gate["discharged"], log=gate["log"][-3000:])
        rep.setdefault("what", "a proof obligation no longer checks: " + "; ".join(gate["problems"]))
        if not violations or no_input:
            no_input = not (spec or direct)
        violations.append("proof gate: " + "; ".join(gate["problems"]))

    # ---- evidence ----
    wall = time.time() - t_start
    cov = dict(
        obligations=gate["obligations"], discharged=gate["discharged"],
        checker_cmd="make -C coq %s/Properties.vo %s/Corr.vo && coqc -R coq Verif coq/%s/Properties.v  (then one coqc per generated work/%s/cases_*.v)" % ((cfg.get("coq_dir", prop),) * 3 + (prop,)),
        trusted_base=BASE_TRUSTED + cfg.get("trusted_base", []),
        theorems=gate["theorems"], axioms_reported=gate["axioms"],
        evaluations=int(meta.get("evaluations", 0)), distinct_nontrivial=int(meta.get("distinct_nontrivial", 0)),
        distinct=int(meta.get("distinct", 0)),
        traces_validated_against_impl=int(meta.get("evaluations", 0)),
        rule=meta.get("rule", ""), samples=meta.get("samples", [])[:8] or [{"note": "no cases produced"}],
        kinds=meta.get("kinds", {}), distribution=meta.get("distribution", {}), extra=meta.get("extra", {}),
        model_impl_mismatches=len(mism) if r["meta"] else None, spec_failures=len(spec) if r["meta"] else None,
        known_findings_hit={str(k): v for k, v in known_hit.items()},
        partial_clauses=cfg.get("partial_clauses", []), tested_only_clauses=cfg.get("tested_only_clauses", []),
        coqchk=chk, harness_s=round(r["harness_s"], 2), coq_eval_s=round(r["coq_s"], 2), escalated=scale != 1,
    )
    ev = dict(property_id=prop, tier=tier, seed=seed, level="proof", coverage=cov,
              assumptions=cfg.get("assumptions", []), wall_s=round(wall, 2), violations=len(violations))
    with open(os.path.join(evdir, prop + ".json"), "w") as f:
        json.dump(ev, f, indent=1, sort_keys=True)

    for k, n in sorted(known_hit.items()):
        log("KNOWN-FINDING: property=%s %s (%d case(s) this run; %s)" % (prop, known_codes[k]["what"], n, known_codes[k]["id"]))
    if violations:
        rep["violations"] = violations
        with open(replay, "w") as f:
            json.dump(rep, f, indent=1)
        log("[%s] %s" % (prop, "; ".join(violations)))
        log("VIOLATION property=%s replay=%s%s" % (prop, replay, " no-failing-input-found" if no_input else ""))
        return 1
    log("[%s] PASS tier=%s seed=%d: %d theorems closed, %d cases (%d distinct non-trivial), %.1fs" %
        (prop, tier, seed, gate["discharged"], cov["evaluations"], cov["distinct_nontrivial"], wall))
    return 0


def main(argv):
    if len(argv) >= 2 and argv[0] == "replay":
        rep = json.load(open(argv[1]))
        log("replaying %s (kind=%s): %s" % (argv[1], rep.get("kind"), rep.get("what")))
        return check(rep["property"], rep["tier"], int(rep["seed"]))
    if not argv:
        print(__doc__)
        return 2
    prop = argv[0]
    tier = os.environ.get("VERIF_TIER") or "quick"
    seed = int(os.environ.get("VERIF_SEED") or 1)
    i = 1
    while i < len(argv):
        if argv[i] == "--tier":
            if not os.environ.get("VERIF_TIER"):
                tier = argv[i + 1]
            i += 2
        elif argv[i] == "--seed":
            if not os.environ.get("VERIF_SEED"):
                seed = int(argv[i + 1])
            i += 2
        else:
            i += 1
    if tier not in ("quick", "thorough"):
        tier = "quick"
    try:
        return check(prop, tier, seed)
    except RuntimeError as e:
        log("[%s] machinery failure: %s" % (prop, e))
        return 2


if __name__ == "__main__":
    sys.exit(main(sys.argv[1:]))
