module verif/harness

go 1.23.0

require (
	github.com/go-logr/logr v1.4.2
	github.com/prometheus/client_golang v1.22.0
	github.com/prometheus/client_model v0.6.2
	github.com/prometheus/common v0.63.0
	go.opentelemetry.io/otel v1.35.0
	go.opentelemetry.io/otel/exporters/otlp/otlplog/otlploggrpc v0.0.0
	go.opentelemetry.io/otel/exporters/otlp/otlplog/otlploghttp v0.0.0
	go.opentelemetry.io/otel/exporters/otlp/otlpmetric/otlpmetricgrpc v0.0.0
	go.opentelemetry.io/otel/exporters/otlp/otlpmetric/otlpmetrichttp v0.0.0
	go.opentelemetry.io/otel/exporters/otlp/otlptrace v1.35.0
	go.opentelemetry.io/otel/exporters/otlp/otlptrace/otlptracegrpc v0.0.0
	go.opentelemetry.io/otel/exporters/otlp/otlptrace/otlptracehttp v0.0.0
	go.opentelemetry.io/otel/exporters/prometheus v0.0.0
	go.opentelemetry.io/otel/exporters/stdout/stdoutlog v0.0.0
	go.opentelemetry.io/otel/exporters/stdout/stdoutmetric v0.0.0
	go.opentelemetry.io/otel/exporters/stdout/stdouttrace v0.0.0
	go.opentelemetry.io/otel/exporters/zipkin v0.0.0
	go.opentelemetry.io/otel/log v0.11.0
	go.opentelemetry.io/otel/metric v1.35.0
	go.opentelemetry.io/otel/sdk v1.35.0
	go.opentelemetry.io/otel/sdk/log v0.11.0
	go.opentelemetry.io/otel/sdk/metric v1.35.0
	go.opentelemetry.io/otel/trace v1.35.0
	go.opentelemetry.io/proto/otlp v1.5.0
	google.golang.org/genproto/googleapis/rpc v0.0.0-20250414145226-207652e42e2e
	google.golang.org/grpc v1.71.1
	google.golang.org/protobuf v1.36.6
)

require (
	github.com/beorn7/perks v1.0.1 // indirect
	github.com/cenkalti/backoff/v5 v5.0.2 // indirect
	github.com/cespare/xxhash/v2 v2.3.0 // indirect
	github.com/go-logr/stdr v1.2.2 // indirect
	github.com/google/uuid v1.6.0 // indirect
	github.com/grpc-ecosystem/grpc-gateway/v2 v2.26.1 // indirect
	github.com/munnerz/goautoneg v0.0.0-20191010083416-a7dc8b61c822 // indirect
	github.com/openzipkin/zipkin-go v0.4.3 // indirect
	github.com/prometheus/procfs v0.16.0 // indirect
	go.opentelemetry.io/auto/sdk v1.1.0 // indirect
	golang.org/x/net v0.39.0 // indirect
	golang.org/x/sys v0.32.0 // indirect
	golang.org/x/text v0.24.0 // indirect
	google.golang.org/genproto/googleapis/api v0.0.0-20250414145226-207652e42e2e // indirect
)

replace (
	go.opentelemetry.io/otel => /repo
	go.opentelemetry.io/otel/exporters/otlp/otlplog/otlploggrpc => /repo/exporters/otlp/otlplog/otlploggrpc
	go.opentelemetry.io/otel/exporters/otlp/otlplog/otlploghttp => /repo/exporters/otlp/otlplog/otlploghttp
	go.opentelemetry.io/otel/exporters/otlp/otlpmetric/otlpmetricgrpc => /repo/exporters/otlp/otlpmetric/otlpmetricgrpc
	go.opentelemetry.io/otel/exporters/otlp/otlpmetric/otlpmetrichttp => /repo/exporters/otlp/otlpmetric/otlpmetrichttp
	go.opentelemetry.io/otel/exporters/otlp/otlptrace => /repo/exporters/otlp/otlptrace
	go.opentelemetry.io/otel/exporters/otlp/otlptrace/otlptracegrpc => /repo/exporters/otlp/otlptrace/otlptracegrpc
	go.opentelemetry.io/otel/exporters/otlp/otlptrace/otlptracehttp => /repo/exporters/otlp/otlptrace/otlptracehttp
	go.opentelemetry.io/otel/exporters/prometheus => /repo/exporters/prometheus
	go.opentelemetry.io/otel/exporters/stdout/stdoutlog => /repo/exporters/stdout/stdoutlog
	go.opentelemetry.io/otel/exporters/stdout/stdoutmetric => /repo/exporters/stdout/stdoutmetric
	go.opentelemetry.io/otel/exporters/stdout/stdouttrace => /repo/exporters/stdout/stdouttrace
	go.opentelemetry.io/otel/exporters/zipkin => /repo/exporters/zipkin
	go.opentelemetry.io/otel/log => /repo/log
	go.opentelemetry.io/otel/metric => /repo/metric
	go.opentelemetry.io/otel/sdk => /repo/sdk
	go.opentelemetry.io/otel/sdk/log => /repo/sdk/log
	go.opentelemetry.io/otel/sdk/metric => /repo/sdk/metric
	go.opentelemetry.io/otel/trace => /repo/trace
)
