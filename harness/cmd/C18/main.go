// C18 harness: Prometheus exporter scrapes vs the Coq model.
//
// The parent generates scenarios (exporter options, one instrument, attribute
// sets, measurements, a resource), runs them in re-exec'd child processes (a
// panic during Registry.Gather happens in a goroutine of client_golang and kills
// the process; model.NameValidationScheme is a process global: one scheme per
// child), and turns what the children observed into Coq cases.
package main

import (
	"bufio"
	"context"
	"encoding/hex"
	"errors"
	"encoding/json"
	"flag"
	"fmt"
	"math"
	"os"
	"os/exec"
	"sort"
	"strings"
	"sync"
	"sync/atomic"
	"time"
	"unicode/utf8"

	"github.com/prometheus/client_golang/prometheus"
	dto "github.com/prometheus/client_model/go"
	"github.com/prometheus/common/model"
	"google.golang.org/protobuf/proto"

	"go.opentelemetry.io/otel"
	"go.opentelemetry.io/otel/attribute"
	otelprom "go.opentelemetry.io/otel/exporters/prometheus"
	"go.opentelemetry.io/otel/metric"
	sdk "go.opentelemetry.io/otel/sdk/metric"
	"go.opentelemetry.io/otel/sdk/metric/metricdata"
	"go.opentelemetry.io/otel/sdk/resource"
	"go.opentelemetry.io/otel/trace"

	"verif/harness/vgen"
)

// ---------------------------------------------------------------------------
// scenario / observation wire format (parent <-> child)
// ---------------------------------------------------------------------------

type AttrJ struct {
	K string `json:"k"`
	T string `json:"t"` // s, i, b, f, ss
	S string `json:"s,omitempty"`
	I int64  `json:"i,omitempty"`
	B bool   `json:"b,omitempty"`
	F float64 `json:"f,omitempty"`
	L []string `json:"l,omitempty"`
}

func (a AttrJ) kv() attribute.KeyValue {
	switch a.T {
	case "i":
		return attribute.Int64(a.K, a.I)
	case "b":
		return attribute.Bool(a.K, a.B)
	case "f":
		return attribute.Float64(a.K, a.F)
	case "ss":
		return attribute.StringSlice(a.K, a.L)
	}
	return attribute.String(a.K, a.S)
}

type PointJ struct {
	Attrs  []AttrJ   `json:"attrs"`
	Values []float64 `json:"values"` // multiples of 1/8; integers for int64 instruments
}

type Scenario struct {
	ID       int      `json:"id"`
	UTF8     bool     `json:"utf8"`
	NoUnits  bool     `json:"no_units"`
	NoTotal  bool     `json:"no_total"`
	NS       *string  `json:"ns"`
	NoScope  bool     `json:"no_scope"`
	NoTarget bool     `json:"no_target"`
	Name     string   `json:"name"`
	Unit     string   `json:"unit"`
	Desc     string   `json:"desc"`
	Inst     string   `json:"inst"` // e.g. i64counter, f64hist, i64obsgauge
	Bounds   []float64 `json:"bounds,omitempty"`
	HasBounds bool    `json:"has_bounds"`
	ScopeName string  `json:"scope_name"`
	ScopeVer  string  `json:"scope_ver"`
	Points   []PointJ `json:"points"`
	Res      []AttrJ  `json:"res"`
	ScopeAttrs []AttrJ `json:"scope_attrs,omitempty"`
	MaxScale int32 `json:"max_scale,omitempty"` // exponential histograms: the view's MaxScale
	// exemplars: measurements are recorded inside a sampled span and a view keeps only AllowKeys as data-point
	// attributes, so every other attribute becomes a filtered attribute of the exemplar
	ExtraScopes [][]AttrJ `json:"extra_scopes,omitempty"` // further meters: same name / version, these instrumentation attributes
	ExtraValues []float64 `json:"extra_values,omitempty"`
	ExtraDescs  []string  `json:"extra_descs,omitempty"` // descriptions of the instrument on the further meters (default: the same)
	FailingCallback bool  `json:"failing_callback,omitempty"`
	ConstLabels     bool  `json:"const_labels,omitempty"`     // WithResourceAsConstantLabels(keys starting with "rz")
	CompanionInst   string `json:"companion_inst,omitempty"`  // a second instrument with the SAME name and unit but this kind ...
	CompanionSameScope bool `json:"companion_same_scope,omitempty"` // ... on the same meter (else on a meter of its own)
	Exemplars bool     `json:"exemplars,omitempty"`
	TraceID   string   `json:"trace_id,omitempty"`
	SpanID    string   `json:"span_id,omitempty"`
	AllowKeys []string `json:"allow_keys,omitempty"`
	Kind     string   `json:"kind"` // generator label
}

type KV struct {
	K string `json:"k"`
	V string `json:"v"`
}

type ValJ struct {
	Hist    bool      `json:"hist"`
	Num     float64   `json:"num"`
	Bounds  []float64 `json:"bounds,omitempty"`
	Counts  []uint64  `json:"counts,omitempty"`  // SDK: per bucket; exposition: cumulative
	Count   uint64    `json:"count"`
	Sum     float64   `json:"sum"`
	// exponential histograms: SDK side offset + counts; exposition side decoded (index, count) pairs
	Expo      bool     `json:"expo,omitempty"`
	Scale     int32    `json:"scale,omitempty"`
	ZeroCount uint64   `json:"zero_count,omitempty"`
	PosOff    int32    `json:"pos_off,omitempty"`
	PosCounts []uint64 `json:"pos_counts,omitempty"`
	NegOff    int32    `json:"neg_off,omitempty"`
	NegCounts []uint64 `json:"neg_counts,omitempty"`
	PosIdx    []int64  `json:"pos_idx,omitempty"`
	NegIdx    []int64  `json:"neg_idx,omitempty"`
	BadNative string   `json:"bad_native,omitempty"`
}

type ExJ struct {
	Labels []KV    `json:"labels"` // SDK: filtered attributes; exposition: exemplar label pairs
	Value  float64 `json:"value"`
	IDsOK  bool    `json:"ids_ok,omitempty"` // SDK: trace / span id are those of the recording span
}

type SeriesJ struct {
	Const  []KV  `json:"const_labels,omitempty"` // exposition: labels whose name starts with "rz" (constant resource labels)
	Ex     []ExJ `json:"exemplars,omitempty"`
	Labels []KV  `json:"labels"`
	Scope  *KV   `json:"scope"` // otel_scope_name / otel_scope_version values
	Val    ValJ  `json:"val"`
}

type FamilyJ struct {
	Help   string    `json:"help"`
	Name   string    `json:"name"`
	Type   int32     `json:"type"`
	Series []SeriesJ `json:"series"`
}

type Obs struct {
	ID        int       `json:"id"`
	Start     bool      `json:"start,omitempty"`
	Panic     string    `json:"panic,omitempty"`
	InstErr   string    `json:"inst_err,omitempty"`
	GatherErr string    `json:"gather_err,omitempty"`
	Handled   []string  `json:"handled"`
	Target    bool      `json:"target"`
	TargetLabels []KV   `json:"target_labels"`
	ScopeInfo bool      `json:"scope_info"`
	Families  []FamilyJ `json:"families"` // everything except target_info / otel_scope_info
	SDK       []SeriesJ `json:"sdk"`      // data points of the instrument as a ManualReader sees them
	SDKErr    string    `json:"sdk_err,omitempty"`
	ResAttrs  []KV      `json:"res_attrs"` // resource attributes in set order
	ScopeAttrs []KV     `json:"scope_attrs"` // scope attributes + otel_scope_name / otel_scope_version in set order
	ScopeInfoLabels []KV `json:"scope_info_labels"`
	ConstIn     []KV      `json:"const_in"`   // resource attributes kept by the WithResourceAsConstantLabels filter, set order
	Companion   []FamilyJ `json:"companion"`  // families made only of the companion instrument's series (label zco)
	ScopeInputs [][]KV `json:"scope_inputs"`          // per meter: its attributes + name + version, in set order
	ScopeInfoSeries [][]KV `json:"scope_info_series"` // label pairs of every otel_scope_info series
	SecondFamilies int  `json:"second_scrape_families"`
	HelpTrials int      `json:"help_trials"` // description-mix scenarios: fresh exporters scraped once each ...
	HelpOK     int      `json:"help_ok"`     // ... and how many of them gathered without error with a single help text
	Unstable  bool      `json:"unstable"`  // two consecutive scrapes differed
}

// ---------------------------------------------------------------------------
// child: run scenarios against the real exporter
// ---------------------------------------------------------------------------

var handledMu sync.Mutex
var handled []string

func runScenario(sc Scenario) (ob Obs) {
	ob.ID = sc.ID
	defer func() {
		if e := recover(); e != nil {
			ob.Panic = fmt.Sprint(e)
		}
	}()
	handledMu.Lock()
	handled = nil
	handledMu.Unlock()

	ctx := context.Background()
	reg := prometheus.NewRegistry()
	opts := []otelprom.Option{otelprom.WithRegisterer(reg)}
	if sc.NoUnits {
		opts = append(opts, otelprom.WithoutUnits())
	}
	if sc.NoTotal {
		opts = append(opts, otelprom.WithoutCounterSuffixes())
	}
	if sc.NS != nil {
		opts = append(opts, otelprom.WithNamespace(*sc.NS))
	}
	if sc.NoScope {
		opts = append(opts, otelprom.WithoutScopeInfo())
	}
	if sc.NoTarget {
		opts = append(opts, otelprom.WithoutTargetInfo())
	}
	constFilter := func(kv attribute.KeyValue) bool { return strings.HasPrefix(string(kv.Key), "rz") }
	if sc.ConstLabels {
		opts = append(opts, otelprom.WithResourceAsConstantLabels(constFilter))
	}
	exp, err := otelprom.New(opts...)
	if err != nil {
		ob.InstErr = "New: " + err.Error()
		return
	}
	rd := sdk.NewManualReader()
	var rkvs []attribute.KeyValue
	for _, a := range sc.Res {
		rkvs = append(rkvs, a.kv())
	}
	res := resource.NewSchemaless(rkvs...)
	mpOpts := []sdk.Option{sdk.WithReader(exp), sdk.WithReader(rd), sdk.WithResource(res)}
	if strings.HasSuffix(sc.Inst, "expohist") {
		mpOpts = append(mpOpts, sdk.WithView(sdk.NewView(sdk.Instrument{Name: "*"},
			sdk.Stream{Aggregation: sdk.AggregationBase2ExponentialHistogram{MaxSize: 160, MaxScale: sc.MaxScale}})))
	}
	// Description mix (some meter without, some with a description): which meter the exporter sees first is the SDK's map
	// order, re-drawn for every reader, and the exporter caches the first help it saw.  helpTrials further exporters on the
	// same provider, each scraped once, separate "fails for some orders" (F-C18-4) from "fails for every order".
	var trialRegs []*prometheus.Registry
	if descMix(sc) {
		for i := 0; i < helpTrials; i++ {
			treg := prometheus.NewRegistry()
			topts := append([]otelprom.Option{otelprom.WithRegisterer(treg)}, opts[1:]...)
			texp, terr := otelprom.New(topts...)
			if terr != nil {
				ob.InstErr = "New (trial): " + terr.Error()
				return
			}
			mpOpts = append(mpOpts, sdk.WithReader(texp))
			trialRegs = append(trialRegs, treg)
		}
	}
	rctx := ctx
	if sc.Exemplars {
		keys := make([]attribute.Key, len(sc.AllowKeys))
		for i, k := range sc.AllowKeys {
			keys[i] = attribute.Key(k)
		}
		mpOpts = append(mpOpts, sdk.WithView(sdk.NewView(sdk.Instrument{Name: "*"}, sdk.Stream{AttributeFilter: attribute.NewAllowKeysFilter(keys...)})))
		tid, _ := trace.TraceIDFromHex(sc.TraceID)
		sid, _ := trace.SpanIDFromHex(sc.SpanID)
		rctx = trace.ContextWithSpanContext(ctx, trace.NewSpanContext(trace.SpanContextConfig{TraceID: tid, SpanID: sid, TraceFlags: trace.FlagsSampled}))
	}
	mp := sdk.NewMeterProvider(mpOpts...)
	defer mp.Shutdown(ctx)
	var skvs []attribute.KeyValue
	for _, a := range sc.ScopeAttrs {
		skvs = append(skvs, a.kv())
	}
	mOpts := []metric.MeterOption{metric.WithInstrumentationVersion(sc.ScopeVer)}
	if len(skvs) > 0 {
		mOpts = append(mOpts, metric.WithInstrumentationAttributes(skvs...))
	}
	m := mp.Meter(sc.ScopeName, mOpts...)
	// expected input of otel_scope_info: the scope attributes, with the meter's REAL name and version under the reserved keys
	// (an attribute that uses a reserved key itself must lose)
	var nonReserved []attribute.KeyValue
	for _, kv := range skvs {
		if kv.Key != "otel_scope_name" && kv.Key != "otel_scope_version" {
			nonReserved = append(nonReserved, kv)
		}
	}
	ob.ScopeAttrs = attrKVs(attribute.NewSet(append(nonReserved,
		attribute.String("otel_scope_name", sc.ScopeName), attribute.String("otel_scope_version", sc.ScopeVer))...))

	// drive creates the scenario's instrument on a meter and records the points through it
	drive := func(m metric.Meter, points []PointJ, desc string, inst string) error {
		var ierr error
		sets := make([]attribute.Set, len(points))
		for i, p := range points {
			var kvs []attribute.KeyValue
			for _, a := range p.Attrs {
				kvs = append(kvs, a.kv())
			}
			sets[i] = attribute.NewSet(kvs...)
		}
		switch inst {
		case "i64counter":
			c, e := m.Int64Counter(sc.Name, metric.WithUnit(sc.Unit), metric.WithDescription(desc))
			ierr = e
			for i, p := range points {
				for _, v := range p.Values {
					c.Add(rctx, int64(v), metric.WithAttributeSet(sets[i]))
				}
			}
		case "f64counter":
			c, e := m.Float64Counter(sc.Name, metric.WithUnit(sc.Unit), metric.WithDescription(desc))
			ierr = e
			for i, p := range points {
				for _, v := range p.Values {
					c.Add(rctx, v, metric.WithAttributeSet(sets[i]))
				}
			}
		case "i64updown":
			c, e := m.Int64UpDownCounter(sc.Name, metric.WithUnit(sc.Unit), metric.WithDescription(desc))
			ierr = e
			for i, p := range points {
				for _, v := range p.Values {
					c.Add(rctx, int64(v), metric.WithAttributeSet(sets[i]))
				}
			}
		case "f64updown":
			c, e := m.Float64UpDownCounter(sc.Name, metric.WithUnit(sc.Unit), metric.WithDescription(desc))
			ierr = e
			for i, p := range points {
				for _, v := range p.Values {
					c.Add(rctx, v, metric.WithAttributeSet(sets[i]))
				}
			}
		case "i64gauge":
			c, e := m.Int64Gauge(sc.Name, metric.WithUnit(sc.Unit), metric.WithDescription(desc))
			ierr = e
			for i, p := range points {
				for _, v := range p.Values {
					c.Record(rctx, int64(v), metric.WithAttributeSet(sets[i]))
				}
			}
		case "f64gauge":
			c, e := m.Float64Gauge(sc.Name, metric.WithUnit(sc.Unit), metric.WithDescription(desc))
			ierr = e
			for i, p := range points {
				for _, v := range p.Values {
					c.Record(rctx, v, metric.WithAttributeSet(sets[i]))
				}
			}
		case "i64hist", "i64expohist":
			o := []metric.Int64HistogramOption{metric.WithUnit(sc.Unit), metric.WithDescription(desc)}
			if sc.HasBounds {
				o = append(o, metric.WithExplicitBucketBoundaries(sc.Bounds...))
			}
			c, e := m.Int64Histogram(sc.Name, o...)
			ierr = e
			for i, p := range points {
				for _, v := range p.Values {
					c.Record(rctx, int64(v), metric.WithAttributeSet(sets[i]))
				}
			}
		case "f64hist", "f64expohist":
			o := []metric.Float64HistogramOption{metric.WithUnit(sc.Unit), metric.WithDescription(desc)}
			if sc.HasBounds {
				o = append(o, metric.WithExplicitBucketBoundaries(sc.Bounds...))
			}
			c, e := m.Float64Histogram(sc.Name, o...)
			ierr = e
			for i, p := range points {
				for _, v := range p.Values {
					c.Record(rctx, v, metric.WithAttributeSet(sets[i]))
				}
			}
		case "i64obscounter", "i64obsupdown", "i64obsgauge":
			cb := func(_ context.Context, o metric.Int64Observer) error {
				for i, p := range points {
					if len(p.Values) > 0 {
						o.Observe(int64(p.Values[len(p.Values)-1]), metric.WithAttributeSet(sets[i]))
					}
				}
				return nil
			}
			switch inst {
			case "i64obscounter":
				_, ierr = m.Int64ObservableCounter(sc.Name, metric.WithUnit(sc.Unit), metric.WithDescription(desc), metric.WithInt64Callback(cb))
			case "i64obsupdown":
				_, ierr = m.Int64ObservableUpDownCounter(sc.Name, metric.WithUnit(sc.Unit), metric.WithDescription(desc), metric.WithInt64Callback(cb))
			default:
				_, ierr = m.Int64ObservableGauge(sc.Name, metric.WithUnit(sc.Unit), metric.WithDescription(desc), metric.WithInt64Callback(cb))
			}
		case "f64obscounter", "f64obsupdown", "f64obsgauge":
			cb := func(_ context.Context, o metric.Float64Observer) error {
				for i, p := range points {
					if len(p.Values) > 0 {
						o.Observe(p.Values[len(p.Values)-1], metric.WithAttributeSet(sets[i]))
					}
				}
				return nil
			}
			switch inst {
			case "f64obscounter":
				_, ierr = m.Float64ObservableCounter(sc.Name, metric.WithUnit(sc.Unit), metric.WithDescription(desc), metric.WithFloat64Callback(cb))
			case "f64obsupdown":
				_, ierr = m.Float64ObservableUpDownCounter(sc.Name, metric.WithUnit(sc.Unit), metric.WithDescription(desc), metric.WithFloat64Callback(cb))
			default:
				_, ierr = m.Float64ObservableGauge(sc.Name, metric.WithUnit(sc.Unit), metric.WithDescription(desc), metric.WithFloat64Callback(cb))
			}
		default:
			return errors.New("unknown instrument " + inst)
		}
		return ierr
	}
	ierr := drive(m, sc.Points, sc.Desc, sc.Inst)
	if sc.CompanionInst != "" {
		cm := m
		if !sc.CompanionSameScope {
			cm = mp.Meter(sc.ScopeName+"/companion", metric.WithInstrumentationVersion(sc.ScopeVer))
		}
		if !sc.CompanionSameScope {
			ob.ScopeInputs = append(ob.ScopeInputs, attrKVs(attribute.NewSet(attribute.String("otel_scope_name", sc.ScopeName+"/companion"), attribute.String("otel_scope_version", sc.ScopeVer))))
		}
		if e := drive(cm, []PointJ{{Attrs: []AttrJ{{K: "zco", T: "i", I: 1}}, Values: []float64{3}}}, sc.Desc, sc.CompanionInst); e != nil && ierr == nil {
			ierr = e
		}
	}
	// further meters with the SAME name, version and schema URL that differ only in their instrumentation attributes:
	// each is a scope of its own (own otel_scope_info series); their points carry a distinguishing attribute
	ob.ScopeInputs = append(ob.ScopeInputs, ob.ScopeAttrs)
	for j, extra := range sc.ExtraScopes {
		var ekvs []attribute.KeyValue
		for _, a := range extra {
			ekvs = append(ekvs, a.kv())
		}
		em := mp.Meter(sc.ScopeName, metric.WithInstrumentationVersion(sc.ScopeVer), metric.WithInstrumentationAttributes(ekvs...))
		ob.ScopeInputs = append(ob.ScopeInputs, attrKVs(attribute.NewSet(append(append([]attribute.KeyValue{}, ekvs...),
			attribute.String("otel_scope_name", sc.ScopeName), attribute.String("otel_scope_version", sc.ScopeVer))...)))
		pts := []PointJ{{Attrs: []AttrJ{{K: "zsc", T: "i", I: int64(j + 1)}}, Values: sc.ExtraValues}}
		desc := sc.Desc
		if j < len(sc.ExtraDescs) {
			desc = sc.ExtraDescs[j]
		}
		if e := drive(em, pts, desc, sc.Inst); e != nil && ierr == nil {
			ierr = e
		}
	}
	// an observable instrument whose callback fails (and observes nothing) while the others hold data
	if sc.FailingCallback {
		_, e := m.Int64ObservableGauge("zz.failing.callback", metric.WithInt64Callback(func(context.Context, metric.Int64Observer) error {
			return errors.New("scripted callback failure " + sc.Name)
		}))
		if e != nil && ierr == nil {
			ierr = e
		}
	}
	if ierr != nil {
		ob.InstErr = ierr.Error()
	}

	// the scrape
	mfs, gerr := reg.Gather()
	if gerr != nil {
		ob.GatherErr = gerr.Error()
	}
	handledMu.Lock()
	ob.Handled = append([]string{}, handled...)
	handledMu.Unlock()
	for _, mf := range mfs {
		switch mf.GetName() {
		case "target_info":
			ob.Target = true
			if len(mf.GetMetric()) == 1 {
				for _, lp := range mf.GetMetric()[0].GetLabel() {
					ob.TargetLabels = append(ob.TargetLabels, KV{lp.GetName(), lp.GetValue()})
				}
			}
		case "otel_scope_info":
			ob.ScopeInfo = true
			for _, mm := range mf.GetMetric() {
				var l []KV
				for _, lp := range mm.GetLabel() {
					l = append(l, KV{lp.GetName(), lp.GetValue()})
				}
				ob.ScopeInfoSeries = append(ob.ScopeInfoSeries, l)
			}
			if len(mf.GetMetric()) == 1 {
				for _, lp := range mf.GetMetric()[0].GetLabel() {
					ob.ScopeInfoLabels = append(ob.ScopeInfoLabels, KV{lp.GetName(), lp.GetValue()})
				}
			}
		default:
			ob.Families = append(ob.Families, familyJ(mf))
		}
	}
	// the companion instrument (same name + unit, other kind) is judged on its own: its families are those whose series all carry zco
	if sc.CompanionInst != "" {
		var own []FamilyJ
		for _, f := range ob.Families {
			all := len(f.Series) > 0
			for _, srs := range f.Series {
				has := false
				for _, l := range srs.Labels {
					has = has || l.K == "zco"
				}
				all = all && has
			}
			if all {
				ob.Companion = append(ob.Companion, f)
			} else {
				own = append(own, f)
			}
		}
		ob.Families = own
	}
	// a second scrape with nothing recorded in between must expose the same families
	mfs2, gerr2 := reg.Gather()
	ob.SecondFamilies = len(mfs2)
	if (gerr == nil) != (gerr2 == nil) || len(mfs) != len(mfs2) {
		ob.Unstable = true
	} else {
		// Gather orders the series of a family by label values only (not a total order): compare as multisets
		for i := range mfs {
			if canonFamily(mfs[i]) != canonFamily(mfs2[i]) {
				ob.Unstable = true
			}
		}
	}

	for _, treg := range trialRegs {
		ob.HelpTrials++
		if _, terr := treg.Gather(); terr == nil { // two help texts in one family make Gather fail: no error = one help text per family
			ob.HelpOK++
		}
	}
	// the SDK's own view of the same instrument
	var rm metricdata.ResourceMetrics
	if err := rd.Collect(ctx, &rm); err != nil {
		ob.SDKErr = err.Error()
	}
	if rm.Resource != nil {
		it := rm.Resource.Iter()
		for it.Next() {
			kv := it.Attribute()
			ob.ResAttrs = append(ob.ResAttrs, KV{string(kv.Key), kv.Value.Emit()})
		}
	}
	for _, sm := range rm.ScopeMetrics {
		for _, mm := range sm.Metrics {
			for _, srs := range sdkSeries(mm.Data, sc.TraceID, sc.SpanID) {
				companion := false
				for _, l := range srs.Labels {
					companion = companion || l.K == "zco"
				}
				if !companion {
					ob.SDK = append(ob.SDK, srs)
				}
			}
		}
	}
	if rm.Resource != nil && sc.ConstLabels {
		kept, _ := rm.Resource.Set().Filter(constFilter)
		ob.ConstIn = attrKVs(kept)
	}
	return
}

func canonFamily(mf *dto.MetricFamily) string {
	var ms []string
	sortEx := func(e *dto.Exemplar) {
		if e != nil { // exemplar labels come out of a Go map: their order is not an observable
			sort.Slice(e.Label, func(i, j int) bool { return e.Label[i].GetName() < e.Label[j].GetName() })
		}
	}
	for _, m0 := range mf.GetMetric() {
		m := proto.Clone(m0).(*dto.Metric)
		sortEx(m.GetCounter().GetExemplar())
		for _, bk := range m.GetHistogram().GetBucket() {
			sortEx(bk.GetExemplar())
		}
		b, _ := proto.MarshalOptions{Deterministic: true}.Marshal(m)
		ms = append(ms, string(b))
	}
	sort.Strings(ms)
	return mf.GetName() + "\x00" + mf.GetHelp() + "\x00" + mf.GetType().String() + "\x00" + strings.Join(ms, "\x00")
}

func attrKVs(s attribute.Set) []KV {
	var out []KV
	it := s.Iter()
	for it.Next() {
		kv := it.Attribute()
		out = append(out, KV{string(kv.Key), kv.Value.Emit()})
	}
	return out
}

func sdkEx[N int64 | float64](exs []metricdata.Exemplar[N], tid, sid string) []ExJ {
	var out []ExJ
	for _, e := range exs {
		x := ExJ{Value: float64(e.Value), IDsOK: hex.EncodeToString(e.TraceID) == tid && hex.EncodeToString(e.SpanID) == sid}
		for _, kv := range e.FilteredAttributes {
			x.Labels = append(x.Labels, KV{string(kv.Key), kv.Value.Emit()})
		}
		out = append(out, x)
	}
	return out
}

func sdkSeries(d metricdata.Aggregation, tid, sid string) []SeriesJ {
	var out []SeriesJ
	switch v := d.(type) {
	case metricdata.Sum[int64]:
		for _, dp := range v.DataPoints {
			out = append(out, SeriesJ{Labels: attrKVs(dp.Attributes), Val: ValJ{Num: float64(dp.Value)}, Ex: sdkEx(dp.Exemplars, tid, sid)})
		}
	case metricdata.Sum[float64]:
		for _, dp := range v.DataPoints {
			out = append(out, SeriesJ{Labels: attrKVs(dp.Attributes), Val: ValJ{Num: dp.Value}, Ex: sdkEx(dp.Exemplars, tid, sid)})
		}
	case metricdata.Gauge[int64]:
		for _, dp := range v.DataPoints {
			out = append(out, SeriesJ{Labels: attrKVs(dp.Attributes), Val: ValJ{Num: float64(dp.Value)}})
		}
	case metricdata.Gauge[float64]:
		for _, dp := range v.DataPoints {
			out = append(out, SeriesJ{Labels: attrKVs(dp.Attributes), Val: ValJ{Num: dp.Value}})
		}
	case metricdata.ExponentialHistogram[int64]:
		for _, dp := range v.DataPoints {
			out = append(out, SeriesJ{Labels: attrKVs(dp.Attributes), Val: ValJ{Expo: true, Scale: dp.Scale, ZeroCount: dp.ZeroCount,
				PosOff: dp.PositiveBucket.Offset, PosCounts: dp.PositiveBucket.Counts, NegOff: dp.NegativeBucket.Offset, NegCounts: dp.NegativeBucket.Counts,
				Count: dp.Count, Sum: float64(dp.Sum)}})
		}
	case metricdata.ExponentialHistogram[float64]:
		for _, dp := range v.DataPoints {
			out = append(out, SeriesJ{Labels: attrKVs(dp.Attributes), Val: ValJ{Expo: true, Scale: dp.Scale, ZeroCount: dp.ZeroCount,
				PosOff: dp.PositiveBucket.Offset, PosCounts: dp.PositiveBucket.Counts, NegOff: dp.NegativeBucket.Offset, NegCounts: dp.NegativeBucket.Counts,
				Count: dp.Count, Sum: dp.Sum}})
		}
	case metricdata.Histogram[int64]:
		for _, dp := range v.DataPoints {
			out = append(out, SeriesJ{Labels: attrKVs(dp.Attributes), Val: ValJ{Hist: true, Bounds: dp.Bounds, Counts: dp.BucketCounts, Count: dp.Count, Sum: float64(dp.Sum)}, Ex: sdkEx(dp.Exemplars, tid, sid)})
		}
	case metricdata.Histogram[float64]:
		for _, dp := range v.DataPoints {
			out = append(out, SeriesJ{Labels: attrKVs(dp.Attributes), Val: ValJ{Hist: true, Bounds: dp.Bounds, Counts: dp.BucketCounts, Count: dp.Count, Sum: dp.Sum}, Ex: sdkEx(dp.Exemplars, tid, sid)})
		}
	}
	return out
}

func familyJ(mf *dto.MetricFamily) FamilyJ {
	f := FamilyJ{Name: mf.GetName(), Type: int32(mf.GetType()), Help: mf.GetHelp()}
	for _, m := range mf.GetMetric() {
		s := SeriesJ{}
		var sn, sv *string
		for _, lp := range m.GetLabel() {
			switch lp.GetName() {
			case "otel_scope_name":
				v := lp.GetValue()
				sn = &v
			case "otel_scope_version":
				v := lp.GetValue()
				sv = &v
			default:
				if strings.HasPrefix(lp.GetName(), "rz") {
					s.Const = append(s.Const, KV{lp.GetName(), lp.GetValue()})
				} else {
					s.Labels = append(s.Labels, KV{lp.GetName(), lp.GetValue()})
				}
			}
		}
		if sn != nil && sv != nil {
			s.Scope = &KV{*sn, *sv}
		} else if sn != nil || sv != nil {
			// only one of the two scope labels: keep it visible as an ordinary label so the comparison fails
			if sn != nil {
				s.Labels = append(s.Labels, KV{"otel_scope_name", *sn})
			} else {
				s.Labels = append(s.Labels, KV{"otel_scope_version", *sv})
			}
		}
		switch {
		case m.Counter != nil:
			s.Val.Num = m.GetCounter().GetValue()
			if e := m.GetCounter().GetExemplar(); e != nil {
				s.Ex = append(s.Ex, dtoEx(e))
			}
		case m.Gauge != nil:
			s.Val.Num = m.GetGauge().GetValue()
		case m.Histogram != nil:
			h := m.GetHistogram()
			s.Val.Count = h.GetSampleCount()
			s.Val.Sum = h.GetSampleSum()
			if h.Schema != nil { // native (exponential) histogram: decode spans + deltas into (index, count)
				s.Val.Expo = true
				s.Val.Scale = h.GetSchema()
				s.Val.ZeroCount = h.GetZeroCount()
				if h.GetZeroThreshold() != 0 {
					s.Val.BadNative = "zero threshold is not 0"
				}
				if len(h.GetBucket()) != 0 || len(h.GetPositiveCount()) != 0 || len(h.GetNegativeCount()) != 0 {
					s.Val.BadNative = "classic buckets or float counts on a native histogram"
				}
				var bad bool
				s.Val.PosIdx, s.Val.PosCounts, bad = decodeSpans(h.GetPositiveSpan(), h.GetPositiveDelta())
				if bad {
					s.Val.BadNative = "positive spans and deltas are inconsistent"
				}
				s.Val.NegIdx, s.Val.NegCounts, bad = decodeSpans(h.GetNegativeSpan(), h.GetNegativeDelta())
				if bad {
					s.Val.BadNative = "negative spans and deltas are inconsistent"
				}
				break
			}
			s.Val.Hist = true
			for _, b := range h.GetBucket() {
				if e := b.GetExemplar(); e != nil {
					s.Ex = append(s.Ex, dtoEx(e))
				}
				if math.IsInf(b.GetUpperBound(), 1) && b.GetCumulativeCount() == h.GetSampleCount() {
					continue // the +Inf bucket client_golang materialises to carry an exemplar beyond the last bound
				}
				s.Val.Bounds = append(s.Val.Bounds, b.GetUpperBound())
				s.Val.Counts = append(s.Val.Counts, b.GetCumulativeCount())
			}
		default:
			s.Val.Num = math.NaN()
		}
		f.Series = append(f.Series, s)
	}
	return f
}

// decodeSpans turns the span / delta encoding of a native histogram into bucket indices and absolute counts.
func decodeSpans(spans []*dto.BucketSpan, deltas []int64) (idx []int64, counts []uint64, bad bool) {
	var cur, cnt int64
	k := 0
	for i, sp := range spans {
		if i == 0 {
			cur = int64(sp.GetOffset())
		} else {
			cur += int64(sp.GetOffset())
		}
		for j := uint32(0); j < sp.GetLength(); j++ {
			if k >= len(deltas) {
				return idx, counts, true
			}
			cnt += deltas[k]
			k++
			if cnt < 0 {
				return idx, counts, true
			}
			idx = append(idx, cur)
			counts = append(counts, uint64(cnt))
			cur++
		}
	}
	return idx, counts, k != len(deltas)
}

func dtoEx(e *dto.Exemplar) ExJ {
	x := ExJ{Value: e.GetValue()}
	for _, lp := range e.GetLabel() {
		x.Labels = append(x.Labels, KV{lp.GetName(), lp.GetValue()})
	}
	return x
}

// helpTrials: with Go's map iteration the meter created first is seen first with probability >= 7/8 per reader, any other
// one with probability 1/8; (7/8)^200 = 2.5e-12 bounds the chance that no trial sees a described meter first.
const helpTrials = 200

func descMix(sc Scenario) bool {
	if len(sc.ExtraDescs) == 0 {
		return false
	}
	empty, nonEmpty := sc.Desc == "", sc.Desc != ""
	for _, d := range sc.ExtraDescs {
		empty = empty || d == ""
		nonEmpty = nonEmpty || d != ""
	}
	return empty && nonEmpty
}


// ---------------------------------------------------------------------------
// Concurrent scrapes and measurements.  A child runs n scenarios: one exporter + registry + provider each, four
// goroutines recording (counter, histogram, up-down counter, over three attribute sets; an observable gauge is registered
// as well) while three goroutines call Registry.Gather 15 times each; afterwards one more scrape must expose exactly
// what was recorded.  In the thorough tier the child is a -race build: a DATA RACE report (exit code 66) is a violation.
// ---------------------------------------------------------------------------

type ConcObs struct {
	ID         int    `json:"id"`
	Start      bool   `json:"start,omitempty"`
	GatherErrs int    `json:"gather_errors"`
	FirstErr   string `json:"first_error,omitempty"`
	Expected   int64  `json:"expected_total"`
	Exposed    int64  `json:"exposed_total"`
	HistCount  uint64 `json:"exposed_histogram_count"`
	ScopeMismatches int    `json:"series_with_another_scopes_labels"`
	FirstMismatch   string `json:"first_mismatch,omitempty"`
	Panic      string `json:"panic,omitempty"`
}

func concurrentScenario(id int, r *vgen.Rand) (ob ConcObs) {
	ob.ID = id
	defer func() {
		if e := recover(); e != nil {
			ob.Panic = fmt.Sprint(e)
		}
	}()
	ctx := context.Background()
	reg := prometheus.NewRegistry()
	opts := []otelprom.Option{otelprom.WithRegisterer(reg)}
	scopeLabels := !r.Chance(1, 4)
	if !scopeLabels {
		opts = append(opts, otelprom.WithoutScopeInfo())
	}
	if r.Bool() {
		opts = append(opts, otelprom.WithoutTargetInfo())
	}
	if r.Bool() {
		opts = append(opts, otelprom.WithNamespace("ns"))
	}
	if r.Bool() {
		opts = append(opts, otelprom.WithResourceAsConstantLabels(func(kv attribute.KeyValue) bool { return kv.Key == "rz.host" }))
	}
	exp, err := otelprom.New(opts...)
	if err != nil {
		ob.Panic = "New: " + err.Error()
		return
	}
	mp := sdk.NewMeterProvider(sdk.WithReader(exp), sdk.WithResource(resource.NewSchemaless(attribute.String("service.name", "svc"), attribute.String("a.b", "x"), attribute.String("a_b", "y"), attribute.String("rz.host", "h1"))))
	defer mp.Shutdown(ctx)
	// two or three scopes with different names AND versions; every instrument name says which scope it belongs to
	nScopes := 2 + r.Intn(2)
	type scopeInst struct {
		c metric.Int64Counter
		h metric.Float64Histogram
		u metric.Int64UpDownCounter
	}
	var obsv atomic.Int64
	insts := make([]scopeInst, nScopes)
	for k := 0; k < nScopes; k++ {
		m := mp.Meter(fmt.Sprintf("conc-%d", k), metric.WithInstrumentationVersion(fmt.Sprintf("v%d", k)), metric.WithInstrumentationAttributes(attribute.Int("shard", k)))
		insts[k].c, _ = m.Int64Counter(fmt.Sprintf("conc.s%d.requests", k), metric.WithUnit("1"))
		insts[k].h, _ = m.Float64Histogram(fmt.Sprintf("conc.s%d.latency", k), metric.WithUnit("ms"))
		insts[k].u, _ = m.Int64UpDownCounter(fmt.Sprintf("conc.s%d.inflight", k))
		m.Int64ObservableGauge(fmt.Sprintf("conc.s%d.gauge", k), metric.WithInt64Callback(func(_ context.Context, o metric.Int64Observer) error {
			o.Observe(obsv.Load(), metric.WithAttributes(attribute.String("k", "v")))
			return nil
		}))
	}
	sets := []attribute.Set{attribute.NewSet(), attribute.NewSet(attribute.String("a.b", "1"), attribute.String("a_b", "2")), attribute.NewSet(attribute.Int("zid", 1))}
	var mu sync.Mutex
	// every series of a family named after scope k must carry scope k's labels
	checkScopes := func(mfs []*dto.MetricFamily) {
		if !scopeLabels {
			return
		}
		for _, mf := range mfs {
			for k := 0; k < nScopes; k++ {
				if !strings.Contains(mf.GetName(), fmt.Sprintf("conc.s%d.", k)) && !strings.Contains(mf.GetName(), fmt.Sprintf("conc_s%d_", k)) {
					continue
				}
				for _, mm := range mf.GetMetric() {
					var sn, sv string
					for _, lp := range mm.GetLabel() {
						switch lp.GetName() {
						case "otel_scope_name":
							sn = lp.GetValue()
						case "otel_scope_version":
							sv = lp.GetValue()
						}
					}
					if sn != fmt.Sprintf("conc-%d", k) || sv != fmt.Sprintf("v%d", k) {
						mu.Lock()
						ob.ScopeMismatches++
						if ob.FirstMismatch == "" {
							ob.FirstMismatch = fmt.Sprintf("family %s (scope conc-%d v%d) has a series labelled otel_scope_name=%q otel_scope_version=%q", mf.GetName(), k, k, sn, sv)
						}
						mu.Unlock()
					}
				}
			}
		}
	}
	gather := func() []*dto.MetricFamily {
		mfs, gerr := reg.Gather()
		if gerr != nil {
			mu.Lock()
			ob.GatherErrs++
			if ob.FirstErr == "" {
				ob.FirstErr = gerr.Error()
			}
			mu.Unlock()
		}
		checkScopes(mfs)
		return mfs
	}
	for k := range insts { // something to expose, then a warm-up scrape (the exporter fills its caches on the first one)
		insts[k].c.Add(ctx, 0)
	}
	gather()
	const writers, iters, scrapers, scrapes = 4, 300, 4, 15
	var wg sync.WaitGroup
	for g := 0; g < writers; g++ {
		wg.Add(1)
		go func(g int) {
			defer wg.Done()
			for i := 0; i < iters; i++ {
				set := sets[(g+i)%len(sets)]
				for k := range insts {
					insts[k].c.Add(ctx, 1, metric.WithAttributeSet(set))
					insts[k].h.Record(ctx, float64(i%7), metric.WithAttributeSet(set))
					insts[k].u.Add(ctx, int64(1-2*(i%2)), metric.WithAttributeSet(set))
				}
				obsv.Add(1)
			}
		}(g)
	}
	start := make(chan struct{})
	for g := 0; g < scrapers; g++ {
		wg.Add(1)
		go func() {
			defer wg.Done()
			<-start // the scrapes overlap each other (and the measurements)
			for i := 0; i < scrapes; i++ {
				gather()
			}
		}()
	}
	close(start)
	wg.Wait()
	ob.Expected = int64(writers * iters * nScopes)
	for _, mf := range gather() {
		for _, mm := range mf.GetMetric() {
			if mm.Counter != nil && strings.Contains(mf.GetName(), "conc") {
				ob.Exposed += int64(mm.GetCounter().GetValue())
			}
			if mm.Histogram != nil {
				ob.HistCount += mm.GetHistogram().GetSampleCount()
			}
		}
	}
	return
}

func concurrentChild(scheme string, n int, seed uint64, out string) {
	if scheme == "legacy" {
		model.NameValidationScheme = model.LegacyValidation //nolint:staticcheck // the scheme under test
	} else {
		model.NameValidationScheme = model.UTF8Validation //nolint:staticcheck
	}
	otel.SetErrorHandler(otel.ErrorHandlerFunc(func(error) {}))
	f, err := os.Create(out)
	if err != nil {
		fmt.Fprintln(os.Stderr, err)
		os.Exit(3)
	}
	enc := json.NewEncoder(f)
	r := vgen.NewRand(seed)
	for i := 0; i < n; i++ {
		enc.Encode(ConcObs{ID: i, Start: true})
		f.Sync()
		enc.Encode(concurrentScenario(i, r))
	}
	f.Close()
}

// buildRaceChild builds this harness with -race against the repository under test (thorough tier).  A failing build
// (no race runtime, no cgo, ...) is not a verdict about /repo: the race pass is then skipped and counted as inconclusive.
func buildRaceChild(work string) (string, string) {
	root := os.Getenv("VERIF_ROOT")
	if root == "" || work == "" {
		return "", "VERIF_ROOT / work directory unknown"
	}
	bin := work + "/harness-race-child"
	args := []string{"build", "-race", "-tags", "verif", "-o", bin}
	if _, err := os.Stat(work + "/alt.mod"); err == nil {
		args = append(args, "-modfile="+work+"/alt.mod")
	}
	args = append(args, "./cmd/C18")
	ctx, cancel := context.WithTimeout(context.Background(), 25*time.Minute)
	defer cancel()
	cmd := exec.CommandContext(ctx, "go", args...)
	cmd.Dir = root + "/harness"
	cmd.Env = append(os.Environ(), "CGO_ENABLED=1")
	if outb, err := cmd.CombinedOutput(); err != nil {
		return "", tail(string(outb), 600) + " " + err.Error()
	}
	return bin, ""
}

// runConcurrent runs the concurrent scenarios in children of exe (one per scheme) and reports what they observed.
func runConcurrent(w *vgen.Writer, exe, dir string, n int, seed uint64, race bool) {
	for si, scheme := range []string{"legacy", "utf8"} {
		out := fmt.Sprintf("%s/conc_%s.jsonl", dir, scheme)
		ctx, cancel := context.WithTimeout(context.Background(), 30*time.Minute)
		cmd := exec.CommandContext(ctx, exe, "-child", "-concurrent", fmt.Sprint(n), "-cseed", fmt.Sprint(seed+uint64(si)), "-scheme", scheme, "-outfile", out)
		cmd.Env = append(os.Environ(), "GORACE=halt_on_error=1 exitcode=66")
		outb, err := cmd.CombinedOutput()
		timedOut := ctx.Err() != nil
		cancel()
		started, results := -1, 0
		if f, e := os.Open(out); e == nil {
			sc := bufio.NewScanner(f)
			sc.Buffer(make([]byte, 1<<20), 16<<20)
			for sc.Scan() {
				var ob ConcObs
				if json.Unmarshal(sc.Bytes(), &ob) != nil {
					continue
				}
				if ob.Start {
					started = ob.ID
					continue
				}
				results++
				desc := map[string]any{"concurrent_scenario": ob, "scheme": scheme, "race_build": race}
				switch {
				case ob.Panic != "":
					w.Violation("panic during concurrent scrapes and measurements: "+ob.Panic, desc)
				case ob.GatherErrs > 0:
					w.Violation("Registry.Gather failed while measurements were being recorded: "+ob.FirstErr, desc)
				case ob.ScopeMismatches > 0:
					w.Violation("during concurrent scrapes a series carried another scope's labels: "+ob.FirstMismatch, desc)
				case ob.Exposed != ob.Expected || ob.HistCount != uint64(ob.Expected):
					w.Violation("after concurrent scrapes the exposed totals differ from what was recorded", desc)
				}
				w.Tally(fmt.Sprintf("concurrent-scrape+measure:race-build=%v", race))
			}
			f.Close()
		}
		os.Remove(out)
		if err != nil {
			desc := map[string]any{"scheme": scheme, "scenario_started": started, "race_build": race, "output": tail(string(outb), 3000)}
			switch {
			case strings.Contains(string(outb), "DATA RACE"):
				w.Violation("DATA RACE reported by the race detector during concurrent scrapes and measurements", desc)
			case timedOut:
				w.Tally("inconclusive:concurrent-child-watchdog")
			default:
				w.Violation("the process died during concurrent scrapes and measurements: "+err.Error(), desc)
			}
		}
		_ = results
	}
}

func childMain(scheme, in, out string) {
	if scheme == "legacy" {
		model.NameValidationScheme = model.LegacyValidation //nolint:staticcheck // the scheme under test
	} else {
		model.NameValidationScheme = model.UTF8Validation //nolint:staticcheck
	}
	otel.SetErrorHandler(otel.ErrorHandlerFunc(func(e error) {
		handledMu.Lock()
		handled = append(handled, e.Error())
		handledMu.Unlock()
	}))
	data, err := os.ReadFile(in)
	if err != nil {
		fmt.Fprintln(os.Stderr, err)
		os.Exit(3)
	}
	var scs []Scenario
	if err := json.Unmarshal(data, &scs); err != nil {
		fmt.Fprintln(os.Stderr, err)
		os.Exit(3)
	}
	f, err := os.Create(out)
	if err != nil {
		fmt.Fprintln(os.Stderr, err)
		os.Exit(3)
	}
	w := bufio.NewWriter(f)
	enc := json.NewEncoder(w)
	for _, sc := range scs {
		enc.Encode(Obs{ID: sc.ID, Start: true})
		w.Flush()
		f.Sync()
		ob := runScenario(sc)
		enc.Encode(ob)
		w.Flush()
	}
	f.Close()
}

// ---------------------------------------------------------------------------
// parent: generators
// ---------------------------------------------------------------------------

var unitTable = []string{"d", "h", "min", "s", "ms", "us", "ns", "By", "KiBy", "MiBy", "GiBy", "TiBy", "KBy", "MBy", "GBy", "TBy",
	"m", "V", "A", "J", "W", "g", "Cel", "Hz", "1", "%"}
var unitWords = []string{"days", "hours", "minutes", "seconds", "milliseconds", "microseconds", "nanoseconds", "bytes", "kibibytes",
	"mebibytes", "gibibytes", "tibibytes", "kilobytes", "megabytes", "gigabytes", "terabytes", "meters", "volts", "amperes", "joules",
	"watts", "grams", "celsius", "hertz", "ratio", "percent"}
var unknownUnits = []string{"", "{request}", "S", "seconds", "by", "ms/s", "1/s", "kg", "mS", " s", "total", "B"}
var plainWords = []string{"foo", "http", "x", "request", "duration", "sub", "Total", "TOTAL", "totals", "tot", "otal", "a", "Z9", "latency", "size", "q"}
var seps = []string{"_", ".", "-", "/", "", "__", "._", "-.", "_.", "//"}
var insts = []string{"i64expohist", "f64expohist", "i64counter", "f64counter", "i64updown", "f64updown", "i64gauge", "f64gauge", "i64hist", "f64hist",
	"i64obscounter", "f64obscounter", "i64obsupdown", "f64obsupdown", "i64obsgauge", "f64obsgauge"}

const restChars = "abcdefghijklmnopqrstuvwxyzABCDEFGHIJKLMNOPQRSTUVWXYZ0123456789_.-/"

func sanitizeAPI(s string) string {
	// force the metrics API grammar: first character a letter, at most 255 characters
	if s == "" {
		return "a"
	}
	b := []byte(s)
	if !((b[0] >= 'a' && b[0] <= 'z') || (b[0] >= 'A' && b[0] <= 'Z')) {
		b = append([]byte{'n'}, b...)
	}
	if len(b) > 255 {
		b = b[:255]
	}
	return string(b)
}

func genName(r *vgen.Rand, unit string) string {
	uw := vgen.Pick(r, unitWords)
	for i, u := range unitTable {
		if u == unit && r.Chance(3, 4) {
			uw = unitWords[i] // the word of this instrument's own unit, most of the time
		}
	}
	w := func() string {
		switch r.Intn(6) {
		case 0:
			return "total"
		case 1:
			return uw
		case 2:
			return vgen.Pick(r, unitWords)
		default:
			return vgen.Pick(r, plainWords)
		}
	}
	sep := func() string { return vgen.Pick(r, seps) }
	var s string
	switch r.Intn(16) {
	case 0:
		s = vgen.Pick(r, []string{"total", uw, "Total", "totaltotal", "total_total", "t", "T"})
	case 1:
		s = w() + sep() + "total"
	case 2:
		s = w() + sep() + uw
	case 3:
		s = w() + sep() + uw + sep() + "total"
	case 4:
		s = w() + sep() + "total" + sep() + uw
	case 5:
		s = "total" + sep() + w()
	case 6:
		s = uw + sep() + w()
	case 7:
		s = w() + sep() + w() + vgen.Pick(r, []string{"_", ".", "-", "/", "__", "_.", "._"})
	case 8:
		s = w() + sep() + "total" + vgen.Pick(r, []string{"_", ".", "-", "/", "s", "_"})
	case 9:
		s = w() + uw // unit word glued on
	case 10:
		s = w() + "total" // "subtotal"
	case 11:
		n := vgen.Pick(r, []int{1, 2, 254, 255, 255})
		b := make([]byte, n)
		b[0] = restChars[r.Intn(52)]
		for i := 1; i < n; i++ {
			b[i] = restChars[r.Intn(len(restChars))]
		}
		if n > 20 && r.Bool() {
			tail := vgen.Pick(r, []string{"_total", ".total", "_" + uw, "_" + uw + "_total", "total"})
			copy(b[n-len(tail):], tail)
		}
		s = string(b)
	case 12:
		s = w() + sep() + w() + sep() + uw + sep() + "total" + sep() + "total"
	case 13:
		s = w() + sep() + uw + sep() + uw
	default:
		s = w() + sep() + w()
		if r.Chance(1, 3) {
			s += sep() + w()
		}
	}
	if r.Chance(1, 12) {
		s = strings.ToUpper(s[:1]) + s[1:]
	}
	return sanitizeAPI(s)
}

var keyPool = []string{"a.b", "a_b", "a-b", "a/b", "a b", "k", "key", "http.method", "http_method", "x.y.z", "x_y_z", "x.y_z",
	"1a", "9", "A", "Zz", "dash-ed", "sl/ash", "sp ace", "é1", "xключ", "x日本", "a.b.", ".a", "a..b", "a__b", "le", "quantile", "job", "instance", "m@n", "q?"}

// keys of the known class F-C18-2 (':' or a sanitised form starting with "__"); drawn rarely and never for resources
var knownKeys = []string{"a:b", ":", "x:y:z", "_.b", "..c", "__d", "-_e", "_-", "ключ", "日本"}

func genAttrVal(r *vgen.Rand, key string) AttrJ {
	switch r.Intn(10) {
	case 0:
		return AttrJ{K: key, T: "i", I: int64(r.Intn(2000) - 1000)}
	case 1:
		return AttrJ{K: key, T: "b", B: r.Bool()}
	case 2:
		return AttrJ{K: key, T: "f", F: float64(r.Intn(64)-32) / 8}
	case 3:
		n := r.Intn(3)
		l := make([]string, n)
		for i := range l {
			l[i] = vgen.Pick(r, []string{"a", "b", "", "x;y"})
		}
		return AttrJ{K: key, T: "ss", L: l}
	default:
		return AttrJ{K: key, T: "s", S: vgen.Pick(r, []string{"x", "y", "w", "", "a;b", ";", "z;", "Z", "10", "9", "é", "a b", "\"q\"", "line\nbreak", "b", "a", "aa", "B"})}
	}
}

// genAttrs draws n distinct keys; colliding groups are likely because the pool is built from them.
func genAttrs(r *vgen.Rand, n int, known bool) []AttrJ {
	seen := map[string]bool{}
	var out []AttrJ
	if known {
		k := vgen.Pick(r, knownKeys)
		seen[k] = true
		out = append(out, genAttrVal(r, k))
	}
	for len(out) < n {
		k := vgen.Pick(r, keyPool)
		if seen[k] {
			continue
		}
		seen[k] = true
		out = append(out, genAttrVal(r, k))
	}
	// attribute.NewSet sorts; shuffle so that construction order is not set order
	for i := len(out) - 1; i > 0; i-- {
		j := r.Intn(i + 1)
		out[i], out[j] = out[j], out[i]
	}
	return out
}

func genValues(r *vgen.Rand, inst string) []float64 {
	n := r.Intn(5) + 1
	vs := make([]float64, n)
	isInt := strings.HasPrefix(inst, "i64")
	mono := strings.Contains(inst, "counter") || (strings.Contains(inst, "hist") && !strings.Contains(inst, "expo"))
	for i := range vs {
		var v float64
		if isInt {
			v = float64(r.Intn(3000) - 1000)
		} else {
			v = float64(r.Intn(24000)-8000) / 8
		}
		if r.Chance(1, 8) {
			v = 0
		}
		if mono && v < 0 {
			v = -v
		}
		vs[i] = v
	}
	return vs
}

func genScenario(r *vgen.Rand, id int, utf8 bool) Scenario {
	sc := Scenario{ID: id, UTF8: utf8, Kind: "generated"}
	sc.NoUnits = r.Chance(1, 4)
	sc.NoTotal = r.Chance(1, 4)
	sc.NoScope = r.Chance(1, 4)
	sc.NoTarget = r.Chance(1, 4)
	if r.Chance(1, 3) {
		ns := vgen.Pick(r, []string{"", "ns", "ns_", "my.ns", "my-ns.", "9ns", "_", "__", "total", "seconds", "ns_seconds", "a b", "N:S", "x_total_"})
		sc.NS = &ns
	}
	if r.Chance(4, 5) {
		sc.Unit = vgen.Pick(r, unitTable)
	} else {
		sc.Unit = vgen.Pick(r, unknownUnits)
	}
	sc.Inst = vgen.Pick(r, insts)
	if r.Chance(1, 3) {
		sc.Inst = vgen.Pick(r, []string{"i64counter", "f64counter", "i64obscounter", "f64obscounter"})
	}
	// exponential histograms: mostly a MaxScale Prometheus can represent (<= 8), sometimes the SDK default 20 (known finding F-C18-3)
	sc.MaxScale = vgen.Pick(r, []int32{8, 8, 5, 3, 0, -2, 20})
	sc.Name = genName(r, sc.Unit)
	sc.Desc = vgen.Pick(r, []string{"", "a description", "help \"quoted\" \\ and\nnewline"})
	sc.ScopeName = vgen.Pick(r, []string{"scope", "", "github.com/x/y", "sc ope"})
	sc.ScopeVer = vgen.Pick(r, []string{"", "v1.2.3", "0"})
	if strings.HasSuffix(sc.Inst, "hist") && !strings.HasSuffix(sc.Inst, "expohist") && r.Chance(2, 3) {
		sc.HasBounds = true
		n := r.Intn(6)
		set := map[float64]bool{}
		for len(set) < n {
			var b float64
			if strings.HasPrefix(sc.Inst, "i64") || r.Bool() {
				b = float64(r.Intn(2200) - 100)
			} else {
				b = float64(r.Intn(16000)-800) / 8
			}
			set[b] = true
		}
		for b := range set {
			sc.Bounds = append(sc.Bounds, b)
		}
		sort.Float64s(sc.Bounds)
	}
	npts := vgen.Pick(r, []int{1, 1, 2, 3})
	known := r.Chance(1, 30)
	for i := 0; i < npts; i++ {
		var p PointJ
		switch {
		case i == 0 && r.Chance(1, 3):
			// no attributes at all
		default:
			p.Attrs = genAttrs(r, r.Intn(5)+1, known && i == npts-1)
		}
		if i > 0 {
			// a distinguishing attribute so that two points cannot collapse into one series
			p.Attrs = append(p.Attrs, AttrJ{K: "zid", T: "i", I: int64(i)})
		}
		p.Values = genValues(r, sc.Inst)
		sc.Points = append(sc.Points, p)
	}
	// scope attributes: colliding keys; rarely a key that cannot become a label (known class F-C18-2: the whole scope is skipped)
	if r.Chance(1, 4) {
		sc.ScopeAttrs = genAttrs(r, r.Intn(4)+1, r.Chance(1, 6))
		if r.Chance(1, 3) { // keys that are, or sanitise to, the reserved scope labels must not override the real name / version
			sc.ScopeAttrs = append(sc.ScopeAttrs, AttrJ{K: vgen.Pick(r, []string{"otel_scope_name", "otel_scope_version", "otel.scope.name", "otel.scope.version", "otel-scope-name"}),
				T: "s", S: vgen.Pick(r, []string{"fake", "", "zz"})})
		}
	}
	// WithResourceAsConstantLabels (keys starting with "rz"), with every combination of the other options drawn above;
	// the "rz" attributes are sometimes on the resource WITHOUT the option (then no series may carry them)
	if r.Chance(1, 3) {
		sc.ConstLabels = r.Chance(3, 4)
		sc.Res = append(sc.Res, AttrJ{K: "rz.host", T: "s", S: vgen.Pick(r, []string{"h1", "", "a;b"})})
		if r.Bool() {
			sc.Res = append(sc.Res, AttrJ{K: "rz_host", T: "s", S: "h0"}, AttrJ{K: "rz.zone", T: "i", I: 3})
		}
	}
	// several meters with the same name and version that differ only in their instrumentation attributes
	if r.Chance(1, 6) {
		n := 1 + r.Intn(2)
		// (the first meter keeps benign attributes here: a scope that is skipped because of its attributes is a scenario of its own)
		sc.ScopeAttrs = []AttrJ{{K: "shard", T: "i", I: 0}}
		if r.Bool() {
			sc.ScopeAttrs = append(sc.ScopeAttrs, genAttrs(r, 1+r.Intn(2), false)...)
		}
		for j := 1; j <= n; j++ {
			extra := []AttrJ{{K: "shard", T: "i", I: int64(j)}}
			if r.Bool() {
				extra = append(extra, genAttrs(r, 1+r.Intn(2), false)...)
			}
			sc.ExtraScopes = append(sc.ExtraScopes, extra)
		}
		sc.ExtraValues = genValues(r, sc.Inst)
		if r.Bool() { // the same instrument name with other descriptions on the further meters
			for range sc.ExtraScopes {
				sc.ExtraDescs = append(sc.ExtraDescs, vgen.Pick(r, []string{"", "a description", "another description"}))
			}
		}
	}
	// an observable callback that fails during the scrape while the scenario's instrument holds data
	sc.FailingCallback = r.Chance(1, 6)
	// exemplars: a sampled span around the measurements and a view that filters attributes out of the data point
	if r.Chance(1, 7) {
		sc.Inst = vgen.Pick(r, []string{"i64counter", "f64counter", "i64hist", "f64hist", "i64hist", "i64updown"})
		sc.Bounds, sc.HasBounds = nil, false
		makeExemplarScenario(r, &sc)
	}
	// a second instrument with the same name and unit but another kind (counter + non-counter), same or another scope; the
	// counter suffix must be on and the name plain (no "total", letter / digit at the end) so that the two exposed names differ
	if r.Chance(1, 8) && !sc.NoTotal && !strings.HasSuffix(sc.Inst, "expohist") { // (the exponential view would turn the counter into a histogram)
		sc.Name = vgen.Pick(r, []string{"disk.io", "http.requests", "queue_size", "x", "mem.used/bytes9", "A.b-c"}) + vgen.Pick(r, []string{"", "2", ".n"})
		if strings.Contains(sc.Inst, "counter") {
			sc.CompanionInst = vgen.Pick(r, []string{"i64updown", "f64gauge", "f64hist", "i64obsgauge"})
		} else {
			sc.CompanionInst = vgen.Pick(r, []string{"i64counter", "f64obscounter"})
		}
		sc.CompanionSameScope = r.Bool()
		// (a scope that is skipped because of its attributes is a scenario of its own: keep this one's scope attributes benign)
		var benign []AttrJ
		for _, at := range sc.ScopeAttrs {
			known := false
			for _, k := range knownKeys {
				known = known || at.K == k
			}
			if !known {
				benign = append(benign, at)
			}
		}
		sc.ScopeAttrs = benign
	}
	// resource: sometimes the default-looking one, sometimes colliding keys, rarely keys that cannot become labels
	// (reserved "__" prefix, ':', only non-ASCII runes: target_info cannot be built)
	switch r.Intn(4) {
	case 3:
		sc.Res = genAttrs(r, r.Intn(4)+1, r.Chance(1, 2))
	case 0:
		sc.Res = []AttrJ{{K: "service.name", T: "s", S: "svc"}, {K: "telemetry.sdk.language", T: "s", S: "go"}}
	case 1:
		sc.Res = genAttrs(r, r.Intn(5)+1, false)
	default:
		sc.Res = []AttrJ{{K: "service.name", T: "s", S: "b"}, {K: "service_name", T: "s", S: "a"}, {K: "service-name", T: "s", S: "c"}, {K: "host", T: "i", I: 7}}
	}
	return sc
}

var droppedPool = []AttrJ{
	{K: "drop.me", T: "s", S: "x"}, {K: "http.route", T: "s", S: "/a/b"}, {K: "dash-key", T: "i", I: 7}, {K: "9lead", T: "b", B: true},
	{K: "é", T: "s", S: "acute"}, {K: "x", T: "s", S: ""}, {K: "sp ace", T: "f", F: 1.5},
	{K: "long", T: "s", S: strings.Repeat("v", 120)}, // alone beyond the 128-rune limit (63 + 4 + 120)
	{K: "k", T: "s", S: strings.Repeat("a", 64)},     // exactly at the limit: 63 + 1 + 64 = 128
	{K: "k", T: "s", S: strings.Repeat("a", 65)},     // one beyond
	{K: "mid", T: "s", S: strings.Repeat("m", 50)},
}

// makeExemplarScenario rewrites the points: kept attribute "keep" (+ "zid"), everything else is filtered into the exemplar.
func makeExemplarScenario(r *vgen.Rand, sc *Scenario) {
	sc.Exemplars = true
	sc.AllowKeys = []string{"keep", "zid", "zsc", "zco"}
	sc.TraceID = fmt.Sprintf("%032x", r.U64()|1)
	sc.SpanID = fmt.Sprintf("%016x", r.U64()|1)
	for i := range sc.Points {
		attrs := []AttrJ{{K: "keep", T: "s", S: vgen.Pick(r, []string{"a", "b"})}}
		if i > 0 {
			attrs = append(attrs, AttrJ{K: "zid", T: "i", I: int64(i)})
		}
		seen := map[string]bool{}
		for n := r.Intn(4); n > 0; n-- {
			a := vgen.Pick(r, droppedPool)
			if !seen[a.K] {
				seen[a.K] = true
				attrs = append(attrs, a)
			}
		}
		sc.Points[i].Attrs = attrs
	}
}

func fixedCorpus(utf8 bool) []Scenario {
	var out []Scenario
	mk := func(name, unit, inst string, edit func(*Scenario)) {
		sc := Scenario{UTF8: utf8, Name: name, Unit: unit, Inst: inst, ScopeName: "corpus", ScopeVer: "v0", Kind: "corpus", MaxScale: 8,
			Points: []PointJ{{Values: []float64{1, 2}}}, Res: []AttrJ{{K: "service.name", T: "s", S: "svc"}}}
		if edit != nil {
			edit(&sc)
		}
		out = append(out, sc)
	}
	// F-C18-1 (repaired by 92e3033): counters whose name is, or trims to, the counter suffix
	for _, n := range []string{"total", "_total", "x_total", "Total", "totaltotal", "total_total", "t", "total_", ".total"} {
		for _, inst := range []string{"i64counter", "f64obscounter"} {
			mk(n, "", inst, nil)
			mk(n, "s", inst, nil)
			ns := ""
			mk(n, "s", inst, func(s *Scenario) { s.NS = &ns })
			mk(n, "By", inst, func(s *Scenario) { s.NoUnits = true; s.NoScope = true; s.NoTarget = true })
			mk(n, "ms", inst, func(s *Scenario) { s.NoTotal = true })
		}
	}
	// names that are / start with / end with unit words
	for i, u := range unitTable {
		w := unitWords[i]
		mk(w, u, "i64counter", nil)
		mk(w, u, "f64gauge", nil)
		mk("x_"+w, u, "i64counter", nil)
		mk("x."+w+".total", u, "f64counter", nil)
		mk(w+"_x", u, "i64updown", nil)
		mk("x"+w, u, "f64hist", nil)
		mk("x_"+w+"_total", u, "i64hist", nil)
	}
	mk("subtotal", "By", "i64gauge", nil)
	mk("subtotal", "By", "i64counter", nil)
	// colliding attribute keys
	mk("req", "1", "i64counter", func(s *Scenario) {
		s.Points = []PointJ{{Attrs: []AttrJ{{K: "a.b", T: "s", S: "x"}, {K: "a_b", T: "s", S: "w"}, {K: "a-b", T: "s", S: "y"}}, Values: []float64{3}}}
	})
	mk("req2", "%", "f64gauge", func(s *Scenario) {
		s.Points = []PointJ{{Attrs: []AttrJ{{K: "a-b", T: "s", S: "10"}, {K: "a.b", T: "s", S: "9"}, {K: "a_b", T: "i", I: 100}, {K: "a/b", T: "s", S: ""}}, Values: []float64{1.5}}}
	})
	// F-C18-2 (known): ':' in an attribute key, reserved "__" prefix after sanitisation
	mk("colon", "s", "i64counter", func(s *Scenario) {
		s.Points = []PointJ{{Attrs: []AttrJ{{K: "a:b", T: "s", S: "x"}}, Values: []float64{4}}, {Attrs: []AttrJ{{K: "ok", T: "s", S: "x"}}, Values: []float64{5}}}
	})
	mk("reserved", "s", "i64counter", func(s *Scenario) {
		s.Points = []PointJ{{Attrs: []AttrJ{{K: "__b", T: "s", S: "x"}}, Values: []float64{5}}}
	})
	// resources / scopes whose attributes cannot become labels: target_info cannot be built / the scope is skipped;
	// both scrapes must survive and still return the other families
	for _, k := range []string{"__replica", "a:b", "_.b", "日本"} {
		k := k
		mk("res.bad", "s", "i64counter", func(s *Scenario) { s.Res = []AttrJ{{K: k, T: "s", S: "r"}, {K: "service.name", T: "s", S: "svc"}} })
		mk("res.bad.noscope", "s", "f64gauge", func(s *Scenario) { s.Res = []AttrJ{{K: k, T: "s", S: "r"}}; s.NoScope = true })
		mk("scope.bad", "s", "i64counter", func(s *Scenario) { s.ScopeAttrs = []AttrJ{{K: k, T: "s", S: "r"}} })
		mk("scope.bad.notarget", "By", "i64hist", func(s *Scenario) { s.ScopeAttrs = []AttrJ{{K: k, T: "s", S: "r"}}; s.NoTarget = true })
		mk("scope.bad.noscopeinfo", "By", "i64updown", func(s *Scenario) { s.ScopeAttrs = []AttrJ{{K: k, T: "s", S: "r"}}; s.NoScope = true })
		mk("both.bad", "1", "f64counter", func(s *Scenario) {
			s.Res = []AttrJ{{K: k, T: "s", S: "r"}}
			s.ScopeAttrs = []AttrJ{{K: k, T: "s", S: "r"}}
		})
	}
	mk("scope.collide", "s", "i64counter", func(s *Scenario) {
		s.ScopeAttrs = []AttrJ{{K: "a.b", T: "s", S: "x"}, {K: "a_b", T: "s", S: "w"}, {K: " ", T: "s", S: "sp"}, {K: ".", T: "s", S: "dot"}}
	})
	// exponential histograms (through a view) with negative and positive measurements whose bucket offsets differ
	for _, inst := range []string{"i64expohist", "f64expohist"} {
		// F-C18-3 (known): the SDK's default MaxScale 20 is beyond the native-histogram schemas (-4..8)
		mk("expo.default.scale", "s", inst, func(s *Scenario) { s.MaxScale = 20; s.Points = []PointJ{{Values: []float64{-1, 100}}, {Attrs: []AttrJ{{K: "zid", T: "i", I: 1}}, Values: []float64{7}}} })
		mk("expo", "s", inst, func(s *Scenario) { s.Points = []PointJ{{Values: []float64{-1, -2, -2, 0, 0, 100, 200, 1000}}} })
		mk("expo.neg.only", "ms", inst, func(s *Scenario) { s.Points = []PointJ{{Values: []float64{-5, -6, -700}}} })
		mk("expo.pos.only", "By", inst, func(s *Scenario) { s.Points = []PointJ{{Values: []float64{3, 4, 4, 512}}} })
		mk("expo.zero.only", "1", inst, func(s *Scenario) { s.Points = []PointJ{{Values: []float64{0, 0}}} })
		mk("expo.two.points", "s", inst, func(s *Scenario) {
			s.Points = []PointJ{{Values: []float64{-1000, 1}}, {Attrs: []AttrJ{{K: "zid", T: "i", I: 1}}, Values: []float64{-1, 1000, 2}}}
		})
	}
	// same name + unit, different kinds (the seeded "name cache without the type" shape), same and different scopes, both creation orders
	for _, pair := range [][2]string{{"i64counter", "f64gauge"}, {"f64gauge", "i64counter"}, {"i64obscounter", "i64updown"}, {"f64hist", "i64counter"}} {
		for _, same := range []bool{true, false} {
			pair, same := pair, same
			mk("disk.io", "By", pair[0], func(s *Scenario) { s.CompanionInst = pair[1]; s.CompanionSameScope = same })
			mk("http.requests", "1", pair[0], func(s *Scenario) { s.CompanionInst = pair[1]; s.CompanionSameScope = same; s.NoScope = true; s.NoTarget = true })
		}
	}
	// WithResourceAsConstantLabels with every combination of WithoutTargetInfo / WithoutScopeInfo / WithNamespace
	for mask := 0; mask < 8; mask++ {
		mask := mask
		for _, inst := range []string{"i64counter", "f64hist"} {
			mk("const.labels", "s", inst, func(s *Scenario) {
				s.ConstLabels = true
				s.NoTarget = mask&1 != 0
				s.NoScope = mask&2 != 0
				if mask&4 != 0 {
					ns := "ns"
					s.NS = &ns
				}
				s.Res = []AttrJ{{K: "service.name", T: "s", S: "svc"}, {K: "rz.host", T: "s", S: "h1"}, {K: "rz_host", T: "s", S: "h0"}, {K: "rz.zone", T: "i", I: 3}}
				s.Points = []PointJ{{Values: []float64{1}}, {Attrs: []AttrJ{{K: "zid", T: "i", I: 1}, {K: "a.b", T: "s", S: "x"}}, Values: []float64{2}}}
			})
		}
	}
	mk("const.labels.absent", "s", "i64counter", func(s *Scenario) { s.Res = []AttrJ{{K: "rz.host", T: "s", S: "h1"}} })
	// reserved scope labels as attribute keys
	for _, k := range []string{"otel_scope_name", "otel_scope_version", "otel.scope.name", "otel.scope.version"} {
		k := k
		mk("scope.reserved", "s", "i64counter", func(s *Scenario) { s.ScopeName = "real"; s.ScopeVer = "v1"; s.ScopeAttrs = []AttrJ{{K: k, T: "s", S: "fake"}, {K: "other", T: "s", S: "x"}} })
	}
	// one instrument name on two meters with different descriptions, in both orders
	for _, ds := range [][2]string{{"", "described"}, {"described", ""}, {"one", "two"}, {"same", "same"}, {"", ""}} {
		ds := ds
		name := "help.pair"
		if ds[0] == "" && ds[1] != "" {
			name = "help.empty.first"
		}
		mk(name, "s", "i64counter", func(s *Scenario) {
			s.Desc = ds[0]
			s.ScopeAttrs = []AttrJ{{K: "shard", T: "i", I: 0}}
			s.ExtraScopes = [][]AttrJ{{{K: "shard", T: "i", I: 1}}}
			s.ExtraValues = []float64{2}
			s.ExtraDescs = []string{ds[1]}
		})
	}
	// meters that differ only in their attributes (pairs and triples); a failing callback beside data
	for _, inst := range []string{"i64counter", "f64hist", "i64obsgauge"} {
		mk("two.scopes", "s", inst, func(s *Scenario) {
			s.ScopeAttrs = []AttrJ{{K: "shard", T: "i", I: 0}}
			s.ExtraScopes = [][]AttrJ{{{K: "shard", T: "i", I: 1}}}
			s.ExtraValues = []float64{5}
		})
		mk("three.scopes", "By", inst, func(s *Scenario) {
			s.ScopeAttrs = []AttrJ{{K: "shard", T: "i", I: 0}, {K: "a.b", T: "s", S: "x"}}
			s.ExtraScopes = [][]AttrJ{{{K: "shard", T: "i", I: 1}, {K: "a.b", T: "s", S: "x"}}, {{K: "shard", T: "i", I: 2}, {K: "a_b", T: "s", S: "y"}, {K: "a.b", T: "s", S: "x"}}}
			s.ExtraValues = []float64{1, 2}
		})
		mk("two.scopes.noscopeinfo", "s", inst, func(s *Scenario) {
			s.NoScope = true
			s.ScopeAttrs = []AttrJ{{K: "shard", T: "i", I: 0}}
			s.ExtraScopes = [][]AttrJ{{{K: "shard", T: "i", I: 1}}}
			s.ExtraValues = []float64{5}
		})
		mk("failing.callback", "s", inst, func(s *Scenario) { s.FailingCallback = true })
		mk("failing.callback.bare", "1", inst, func(s *Scenario) { s.FailingCallback = true; s.NoScope = true; s.NoTarget = true })
		mk("failing.callback.scopes", "s", inst, func(s *Scenario) {
			s.FailingCallback = true
			s.ScopeAttrs = []AttrJ{{K: "shard", T: "i", I: 0}}
			s.ExtraScopes = [][]AttrJ{{{K: "shard", T: "i", I: 1}}}
			s.ExtraValues = []float64{5}
		})
	}
	// exemplars: accepted, at the 128-rune limit, one beyond it, far beyond it, keys that need sanitising; counters and histograms
	for _, inst := range []string{"i64counter", "f64hist"} {
		for _, dropped := range [][]AttrJ{
			{{K: "drop.me", T: "s", S: "x"}},
			{{K: "k", T: "s", S: strings.Repeat("a", 64)}},
			{{K: "k", T: "s", S: strings.Repeat("a", 65)}},
			{{K: "long", T: "s", S: strings.Repeat("v", 120)}},
			{{K: "http.route", T: "s", S: "/a/b"}, {K: "9lead", T: "b", B: true}, {K: "é", T: "s", S: "acute"}},
			{{K: "mid", T: "s", S: strings.Repeat("m", 50)}, {K: "dash-key", T: "i", I: 7}, {K: "sp ace", T: "f", F: 1.5}},
			{},
		} {
			dropped := dropped
			mk("exemplar", "s", inst, func(s *Scenario) {
				s.Exemplars = true
				s.AllowKeys = []string{"keep"}
				s.TraceID = "0102030405060708090a0b0c0d0e0f10"
				s.SpanID = "a1a2a3a4a5a6a7a8"
				s.Points = []PointJ{{Attrs: append([]AttrJ{{K: "keep", T: "s", S: "a"}}, dropped...), Values: []float64{1, 20000, 7}}}
			})
		}
	}
	// histogram with the default boundaries and values on the boundaries
	mk("lat", "ms", "f64hist", func(s *Scenario) {
		s.Points = []PointJ{{Values: []float64{0, 5, 5.125, 10, 10000, 10000.125, 75}}}
	})
	mk("lat.empty.bounds", "s", "i64hist", func(s *Scenario) {
		s.HasBounds = true
		s.Points = []PointJ{{Values: []float64{1, 2, 3}}}
	})
	return out
}

// ---------------------------------------------------------------------------
// parent: run children, emit Coq
// ---------------------------------------------------------------------------

func runBatch(exe, dir string, idx int, scheme string, scs []Scenario, w *vgen.Writer, mu *sync.Mutex) map[int]Obs {
	res := map[int]Obs{}
	attempt := 0
	watchdog := 120 * time.Second // an unloaded batch needs well under a second
	retriedAfterTimeout := false
	for len(scs) > 0 {
		attempt++
		in := fmt.Sprintf("%s/child_%s_%d_%d.in.json", dir, scheme, idx, attempt)
		out := fmt.Sprintf("%s/child_%s_%d_%d.out.jsonl", dir, scheme, idx, attempt)
		b, _ := json.Marshal(scs)
		os.WriteFile(in, b, 0o644)
		ctx, cancel := context.WithTimeout(context.Background(), watchdog)
		cmd := exec.CommandContext(ctx, exe, "-child", "-scheme", scheme, "-in", in, "-outfile", out)
		outb, err := cmd.CombinedOutput()
		timedOut := ctx.Err() != nil
		cancel()
		started := -1
		done := map[int]bool{}
		if f, e := os.Open(out); e == nil {
			s := bufio.NewScanner(f)
			s.Buffer(make([]byte, 1<<20), 64<<20)
			for s.Scan() {
				var ob Obs
				if json.Unmarshal(s.Bytes(), &ob) != nil {
					continue
				}
				if ob.Start {
					started = ob.ID
					continue
				}
				res[ob.ID] = ob
				done[ob.ID] = true
			}
			f.Close()
		}
		os.Remove(in)
		os.Remove(out)
		if err == nil {
			break
		}
		// the child died (or hung): the scenario it had started and not finished is the culprit
		if started < 0 || done[started] {
			mu.Lock()
			w.Violation("child process failed outside any scenario: "+err.Error(), map[string]any{"output": tail(string(outb), 1500)})
			mu.Unlock()
			break
		}
		if timedOut && !retriedAfterTimeout {
			// the machine may simply be slow: everything that is not done runs once more under a watchdog 7 times longer;
			// only a scenario that does not finish then is reported as a hang
			retriedAfterTimeout = true
			watchdog = 900 * time.Second
			var again []Scenario
			for _, sc := range scs {
				if !done[sc.ID] {
					again = append(again, sc)
				}
			}
			mu.Lock()
			w.Tally("inconclusive:batch-rerun-after-watchdog")
			mu.Unlock()
			scs = again
			continue
		}
		var culprit Scenario
		var rest []Scenario
		for _, sc := range scs {
			if sc.ID == started {
				culprit = sc
			} else if !done[sc.ID] {
				rest = append(rest, sc)
			}
		}
		what := "the process died during a scrape (Registry.Gather)"
		if timedOut {
			what = "a scrape did not finish under the watchdog"
		}
		mu.Lock()
		w.Violation(what, map[string]any{"scenario": culprit, "scheme": scheme, "output": tail(string(outb), 1500)})
		mu.Unlock()
		scs = rest
	}
	return res
}

func tail(s string, n int) string {
	if len(s) > n {
		return s[len(s)-n:]
	}
	return s
}

// scaled renders v*8 as an exact integer, or reports that it is not one.
func scaled(v float64) (string, bool) {
	x := v * 8
	if math.IsNaN(x) || math.IsInf(x, 0) || x != math.Trunc(x) || math.Abs(x) > 1<<52 {
		return "0%Z", false
	}
	return vgen.Z(int64(x)), true
}

// runes renders a key as code points (legacy scheme: EscapeName ranges over runes).
func runes(s string, asRunes bool) string {
	ascii := true
	for i := 0; i < len(s); i++ {
		if s[i] >= 0x80 {
			ascii = false
		}
	}
	if ascii || !asRunes {
		return vgen.HxS(s)
	}
	var items []string
	for _, c := range s {
		items = append(items, vgen.N(uint64(c)))
	}
	return vgen.List(items)
}

func attrsCoq(kvs []KV, asRunes bool) string {
	var items []string
	for _, kv := range kvs {
		items = append(items, vgen.Pair(runes(kv.K, asRunes), vgen.HxS(kv.V)))
	}
	return vgen.List(items)
}

func main() {
	child := flag.Bool("child", false, "run as a scenario child")
	scheme := flag.String("scheme", "legacy", "legacy|utf8 (child)")
	concurrent := flag.Int("concurrent", 0, "child: run this many concurrent scrape + measure scenarios instead of a scenario file")
	cseed := flag.Uint64("cseed", 1, "child: seed of the concurrent scenarios")
	in := flag.String("in", "", "scenario file (child)")
	outfile := flag.String("outfile", "", "observation file (child)")
	// flags are parsed by vgen.ParseFlags for the parent; the child needs no -out
	for _, a := range os.Args[1:] {
		if a == "-child" {
			flag.Parse()
			if *concurrent > 0 {
				concurrentChild(*scheme, *concurrent, *cseed, *outfile)
				return
			}
			childMain(*scheme, *in, *outfile)
			return
		}
	}
	_ = child
	o := vgen.ParseFlags()
	r := vgen.NewRand(o.Seed)
	w := vgen.NewWriter(o.Out, "C18.Model C18.Spec C18.Proofs C18.Corr", "case", 160)
	w.Rule = "one exporter + registry + provider per scenario, run in re-exec'd children (one name-validation scheme per child): fixed corpus " +
		"(counter-suffix-only names, every unit word as / at the start / at the end of a name, colliding keys, known ':' / '__' keys, boundary histograms) " +
		"then names from a grammar biased to 'total' / unit words / delimiters, every unit of the table + unknown units, 14 instrument kinds, " +
		"attribute keys from a colliding pool, the option matrix; a case is non-trivial when a family was exposed; distinct = distinct Coq case terms"

	var all []Scenario
	for _, u8 := range []bool{false, true} {
		all = append(all, fixedCorpus(u8)...)
	}
	n := o.Count(1500, 30000)
	for i := 0; i < n; i++ {
		all = append(all, genScenario(r, 0, r.Chance(1, 3)))
	}
	for i := range all {
		all[i].ID = i
	}
	exe, err := os.Executable()
	if err != nil {
		fmt.Fprintln(os.Stderr, err)
		os.Exit(2)
	}
	// batches per scheme
	type batch struct {
		scheme string
		scs    []Scenario
	}
	var batches []batch
	for _, sch := range []string{"legacy", "utf8"} {
		var cur []Scenario
		for _, sc := range all {
			if sc.UTF8 != (sch == "utf8") {
				continue
			}
			cur = append(cur, sc)
			if len(cur) == 60 {
				batches = append(batches, batch{sch, cur})
				cur = nil
			}
		}
		if len(cur) > 0 {
			batches = append(batches, batch{sch, cur})
		}
	}
	results := make([]map[int]Obs, len(batches))
	var mu sync.Mutex
	var wg sync.WaitGroup
	sem := make(chan struct{}, 12)
	for i, b := range batches {
		wg.Add(1)
		go func(i int, b batch) {
			defer wg.Done()
			sem <- struct{}{}
			defer func() { <-sem }()
			results[i] = runBatch(exe, o.Out, i, b.scheme, b.scs, w, &mu)
		}(i, b)
	}
	wg.Wait()
	obs := map[int]Obs{}
	for _, m := range results {
		for k, v := range m {
			obs[k] = v
		}
	}

	for _, sc := range all {
		ob, ok := obs[sc.ID]
		if !ok {
			continue // reported as a crash / hang above
		}
		emit(w, sc, ob)
	}
	// concurrent scrape + measure: always (crash freedom, consistent totals); in the thorough tier through a -race child
	concExe, raceBuilt := exe, false
	if o.Tier == "thorough" {
		if bin, why := buildRaceChild(o.Out); bin != "" {
			concExe, raceBuilt = bin, true
		} else {
			w.Tally("inconclusive:race-build-failed")
			w.Extra["race_build_failure"] = why
		}
	}
	runConcurrent(w, concExe, o.Out, o.Count(6, 40), o.Seed, raceBuilt)
	w.Extra["race_pass"] = raceBuilt
	if err := w.Flush(); err != nil {
		fmt.Fprintln(os.Stderr, err)
		os.Exit(2)
	}
}

var kindCode = map[string]int{"counter": 0, "updown": 1, "gauge": 2, "hist": 3}

func instKind(inst string) int {
	for k, v := range kindCode {
		if strings.HasSuffix(inst, k) {
			return v
		}
	}
	return 2
}

func emit(w *vgen.Writer, sc Scenario, ob Obs) {
	desc := map[string]any{"scenario": sc, "families": ob.Families, "gather_err": ob.GatherErr, "handled": ob.Handled, "sdk": ob.SDK}
	if ob.Panic != "" {
		w.Violation("panic while driving the exporter: "+ob.Panic, desc)
		return
	}
	if sc.FailingCallback && strings.Contains(ob.SDKErr, "scripted callback failure") {
		ob.SDKErr = "" // the reference reader reports the failing callback as well: expected
	}
	if ob.SDKErr != "" || (ob.InstErr != "" && !strings.Contains(ob.InstErr, "invalid instrument name")) {
		w.Violation("unexpected SDK error: "+ob.SDKErr+" "+ob.InstErr, desc)
		return
	}
	descsVary := false
	for _, d := range sc.ExtraDescs {
		descsVary = descsVary || d != sc.Desc
	}
	if ob.Unstable && !(descsVary && ob.GatherErr != "") { // (after a Gather error the partial result is not stable: judged by CHelp)
		w.Violation("two consecutive scrapes with no measurement in between exposed different families", desc)
		return
	}
	if len(ob.Families) > 1 {
		w.Violation("one instrument was exposed as more than one metric family", desc)
		return
	}
	asRunes := !sc.UTF8
	exact := true
	badNative := ""
	valCoq := func(v ValJ, sdk bool) string {
		if v.Expo {
			sum, ok := scaled(v.Sum)
			exact = exact && ok
			cs := func(l []uint64) string {
				var items []string
				for _, c := range l {
					items = append(items, vgen.N(c))
				}
				return vgen.List(items)
			}
			if sdk {
				return vgen.App("VExpo", vgen.Z(int64(v.Scale)), vgen.N(v.ZeroCount), vgen.Z(int64(v.PosOff)), cs(v.PosCounts),
					vgen.Z(int64(v.NegOff)), cs(v.NegCounts), vgen.N(v.Count), sum)
			}
			if v.BadNative != "" {
				badNative = v.BadNative
			}
			pairs := func(idx []int64, l []uint64) string {
				var items []string
				for i := range idx {
					items = append(items, vgen.Pair(vgen.Z(idx[i]), vgen.N(l[i])))
				}
				return vgen.List(items)
			}
			return vgen.App("OExpo", vgen.Z(int64(v.Scale)), vgen.N(v.ZeroCount), pairs(v.PosIdx, v.PosCounts), pairs(v.NegIdx, v.NegCounts), vgen.N(v.Count), sum)
		}
		if !v.Hist {
			z, ok := scaled(v.Num)
			exact = exact && ok
			if sdk {
				return vgen.App("VNum", z)
			}
			return vgen.App("ONum", z)
		}
		var bs, cs []string
		for _, b := range v.Bounds {
			z, ok := scaled(b)
			exact = exact && ok
			bs = append(bs, z)
		}
		for _, c := range v.Counts {
			cs = append(cs, vgen.N(c))
		}
		sum, ok := scaled(v.Sum)
		exact = exact && ok
		if sdk {
			return vgen.App("VHist", vgen.List(bs), vgen.List(cs), vgen.N(v.Count), sum)
		}
		var pairs []string
		for i := range bs {
			pairs = append(pairs, vgen.Pair(bs[i], cs[i]))
		}
		return vgen.App("OHist", vgen.List(pairs), vgen.N(v.Count), sum)
	}
	exCoq := func(exs []ExJ, runesKeys bool) string {
		var items []string
		for _, e := range exs {
			z, ok := scaled(e.Value)
			exact = exact && ok
			items = append(items, vgen.Pair(attrsCoq(e.Labels, runesKeys), z))
		}
		return vgen.List(items)
	}
	var pts, pexs, oexs, oconst []string
	idsOK := true
	for _, s := range ob.SDK {
		pts = append(pts, vgen.Pair(attrsCoq(s.Labels, asRunes), valCoq(s.Val, true)))
		pexs = append(pexs, exCoq(s.Ex, true))
		for _, e := range s.Ex {
			idsOK = idsOK && e.IDsOK
		}
	}
	if !idsOK {
		w.Violation("an SDK exemplar does not carry the ids of the span the measurement was recorded in (harness precondition)", desc)
		return
	}
	fam := vgen.None
	if len(ob.Families) == 1 {
		f := ob.Families[0]
		var ss []string
		for _, s := range f.Series {
			sc := vgen.None
			if s.Scope != nil {
				sc = vgen.Some(vgen.Pair(vgen.HxS(s.Scope.K), vgen.HxS(s.Scope.V)))
			}
			ss = append(ss, "("+attrsCoq(s.Labels, false)+", "+sc+", "+valCoq(s.Val, false)+")")
			oexs = append(oexs, exCoq(s.Ex, false))
			oconst = append(oconst, attrsCoq(s.Const, false))
		}
		fam = vgen.Some("(" + vgen.HxS(f.Name) + ", " + vgen.N(uint64(f.Type)) + ", " + vgen.List(ss) + ")")
	}
	if badNative != "" {
		w.Violation("malformed native histogram exposed: "+badNative, desc)
		return
	}
	if !exact {
		w.Violation("a value that is not an exact multiple of 1/8 reached the comparison (harness precondition broken)", desc)
		return
	}
	ns := vgen.None
	if sc.NS != nil {
		ns = vgen.Some(runes(*sc.NS, asRunes))
	}
	if !utf8.ValidString(sc.Name) {
		return
	}
	scheme := "legacy"
	if sc.UTF8 {
		scheme = "utf8"
	}
	descsDiffer := false
	for _, d := range sc.ExtraDescs {
		descsDiffer = descsDiffer || d != sc.Desc
	}
	if len(sc.ExtraDescs) > 0 {
		ds := []string{vgen.HxS(sc.Desc)}
		for _, d := range sc.ExtraDescs {
			ds = append(ds, vgen.HxS(d))
		}
		help := ""
		if len(ob.Families) == 1 {
			help = ob.Families[0].Help
		}
		t := vgen.App("CHelp", vgen.List(ds), vgen.Bool(ob.GatherErr != ""), vgen.Nat(len(ob.Families)), vgen.HxS(help), vgen.Nat(ob.HelpTrials), vgen.Nat(ob.HelpOK))
		if ob.HelpTrials > 0 {
			w.Tally(fmt.Sprintf("description-mix:trials-ok=%d/%d", ob.HelpOK/20*20, ob.HelpTrials))
		}
		w.Tally("descriptions-differ-across-meters")
		w.Add(t, map[string]any{"descriptions": append([]string{sc.Desc}, sc.ExtraDescs...), "gather_err": ob.GatherErr, "families": ob.Families, "utf8": sc.UTF8,
			"fresh_exporters_scraped_once": ob.HelpTrials, "of_which_without_error": ob.HelpOK}, "help-"+scheme, true)
		if descsDiffer && ob.GatherErr != "" {
			return // the family is incomplete after a Gather error: CHelp carries the verdict
		}
	}
	if !sc.NoScope && ob.ScopeInfo && len(sc.ScopeAttrs) > 0 && len(sc.ExtraScopes) == 0 && (sc.CompanionInst == "" || sc.CompanionSameScope) && len(ob.Families) == 1 {
		var keys, scopes []string
		for _, a := range sc.ScopeAttrs {
			keys = append(keys, runes(a.K, true))
		}
		for _, srs := range ob.Families[0].Series {
			if srs.Scope != nil {
				scopes = append(scopes, vgen.Some(vgen.Pair(vgen.HxS(srs.Scope.K), vgen.HxS(srs.Scope.V))))
			} else {
				scopes = append(scopes, vgen.None)
			}
		}
		t := vgen.App("CScopeName", vgen.Bool(sc.UTF8), vgen.HxS(sc.ScopeName), vgen.HxS(sc.ScopeVer), vgen.List(keys), attrsCoq(ob.ScopeInfoLabels, false), vgen.List(scopes))
		w.Add(t, map[string]any{"scope": sc.ScopeName, "version": sc.ScopeVer, "scope_attributes": sc.ScopeAttrs, "otel_scope_info_labels": ob.ScopeInfoLabels, "utf8": sc.UTF8}, "scope-name-"+scheme, true)
	}
	cbErrors := uint64(0)
	if sc.FailingCallback {
		cbErrors = 1
	}
	term := vgen.App("CScrape", vgen.Bool(sc.UTF8), vgen.Bool(sc.NoUnits), vgen.Bool(sc.NoTotal), ns, vgen.Bool(sc.NoScope), vgen.Bool(sc.NoTarget),
		vgen.HxS(sc.Name), vgen.HxS(sc.Unit), vgen.N(uint64(instKind(sc.Inst))), vgen.HxS(sc.ScopeName), vgen.HxS(sc.ScopeVer),
		attrsCoq(ob.ResAttrs, asRunes), attrsCoq(ob.ScopeAttrs, asRunes), vgen.List(pts),
		vgen.Bool(ob.GatherErr != ""), vgen.N(uint64(len(ob.Handled))), vgen.Bool(ob.Target), vgen.Bool(ob.ScopeInfo), fam,
		vgen.HxS(sc.TraceID), vgen.HxS(sc.SpanID), vgen.List(pexs), vgen.List(oexs),
		attrsCoq(ob.ConstIn, asRunes), vgen.List(oconst), vgen.N(cbErrors))
	if sc.ConstLabels {
		w.Tally(fmt.Sprintf("resource-as-constant-labels:target=%v,scope=%v,ns=%v,labels=%d", !sc.NoTarget, !sc.NoScope, sc.NS != nil, len(ob.ConstIn)))
	}
	if sc.CompanionInst != "" {
		var fs []string
		for _, f := range ob.Companion {
			fs = append(fs, "("+vgen.HxS(f.Name)+", "+vgen.N(uint64(f.Type))+", "+vgen.Nat(len(f.Series))+")")
		}
		t := vgen.App("CCompanion", vgen.Bool(sc.UTF8), vgen.Bool(sc.NoUnits), vgen.Bool(sc.NoTotal), ns, vgen.HxS(sc.Name), vgen.HxS(sc.Unit),
			vgen.N(uint64(instKind(sc.CompanionInst))), vgen.List(fs))
		w.Tally(fmt.Sprintf("same-name-other-kind:%s+%s,same-scope=%v", sc.Inst, sc.CompanionInst, sc.CompanionSameScope))
		w.Add(t, map[string]any{"name": sc.Name, "unit": sc.Unit, "instrument": sc.Inst, "companion": sc.CompanionInst, "same_scope": sc.CompanionSameScope,
			"companion_families": ob.Companion, "families": ob.Families, "utf8": sc.UTF8}, "same-name-other-kind-"+scheme, true)
	}
	if sc.FailingCallback {
		w.Tally("failing-callback")
	}
	if len(sc.ExtraScopes) > 0 {
		w.Tally(fmt.Sprintf("meters-differing-only-in-attributes:%d", len(sc.ExtraScopes)+1))
		if !sc.NoScope {
			var ins, outs []string
			for _, in := range ob.ScopeInputs {
				ins = append(ins, attrsCoq(in, asRunes))
			}
			for _, out := range ob.ScopeInfoSeries {
				outs = append(outs, attrsCoq(out, false))
			}
			t := vgen.App("CScopeInfos", vgen.Bool(sc.UTF8), vgen.List(ins), vgen.List(outs))
			w.Add(t, map[string]any{"scopes": ob.ScopeInputs, "otel_scope_info_series": ob.ScopeInfoSeries, "utf8": sc.UTF8, "gather_err": ob.GatherErr}, "scope-infos-"+scheme, true)
		}
	}
	if sc.Exemplars {
		w.Tally("exemplar-scenarios")
		for _, s := range ob.SDK {
			if len(s.Ex) > 0 {
				w.Tally("sdk-points-with-exemplars")
			}
		}
		for _, f := range ob.Families {
			for _, s := range f.Series {
				if len(s.Ex) > 0 {
					w.Tally("series-with-exposed-exemplars")
				}
			}
		}
	}
	w.Tally("scheme:" + scheme)
	w.Tally("inst:" + sc.Inst)
	w.Tally(fmt.Sprintf("opts:units=%v,total=%v,ns=%v,scope=%v,target=%v", !sc.NoUnits, !sc.NoTotal, sc.NS != nil, !sc.NoScope, !sc.NoTarget))
	w.Tally(fmt.Sprintf("points:%d", len(ob.SDK)))
	if len(ob.Handled) > 0 {
		w.Tally("handled-errors")
	}
	w.Add(term, desc, "scrape-"+sc.Kind+"-"+scheme, len(ob.Families) == 1)
	if ob.Target && len(ob.ResAttrs) > 0 {
		t := vgen.App("CAttrs", vgen.Bool(sc.UTF8), attrsCoq(ob.ResAttrs, asRunes), attrsCoq(ob.TargetLabels, false))
		w.Add(t, map[string]any{"resource": ob.ResAttrs, "target_info_labels": ob.TargetLabels, "utf8": sc.UTF8}, "target-info-labels-"+scheme, true)
	}
	oneScope := len(sc.ExtraScopes) == 0 && (sc.CompanionInst == "" || sc.CompanionSameScope)
	if ob.ScopeInfo && len(sc.ScopeAttrs) > 0 && oneScope {
		t := vgen.App("CAttrs", vgen.Bool(sc.UTF8), attrsCoq(ob.ScopeAttrs, asRunes), attrsCoq(ob.ScopeInfoLabels, false))
		w.Add(t, map[string]any{"scope_attributes": ob.ScopeAttrs, "otel_scope_info_labels": ob.ScopeInfoLabels, "utf8": sc.UTF8}, "scope-info-labels-"+scheme, true)
	}
	if len(sc.ScopeAttrs) > 0 {
		w.Tally("scope-attrs")
	}
}
