// C08 harness: one MeterProvider with a delta and a cumulative ManualReader,
// driven by the same history of measurements, callback registrations and
// collections; every reported point is compared with the Coq model and judged
// by the Coq specification.
package main

import (
	"context"
	"errors"
	"fmt"
	"math"
	"os"
	"runtime"
	"sort"
	"strings"
	"sync"
	"sync/atomic"
	"time"

	"github.com/go-logr/logr"
	"go.opentelemetry.io/otel"
	"go.opentelemetry.io/otel/attribute"
	"go.opentelemetry.io/otel/metric"
	sdk "go.opentelemetry.io/otel/sdk/metric"
	"go.opentelemetry.io/otel/sdk/metric/metricdata"

	"verif/harness/vgen"
)

// ---- attribute sets as canonical keys ----

type kv struct {
	k string
	v any // string | int64 | bool
}

var attrPool = []kv{{"a", int64(1)}, {"a", int64(2)}, {"b", "x"}, {"b", "y"}, {"c", true}, {"a", "1"}}

// canon: the canonical encoding of a list of key/values as an attribute set:
// last value wins for a repeated key, sorted by key (computed independently of the SDK).
func canon(kvs []kv) string {
	m := map[string]any{}
	for _, e := range kvs {
		m[e.k] = e.v
	}
	ks := make([]string, 0, len(m))
	for k := range m {
		ks = append(ks, k)
	}
	sort.Strings(ks)
	var sb strings.Builder
	for _, k := range ks {
		fmt.Fprintf(&sb, "%s=%T:%v;", k, m[k], m[k])
	}
	return sb.String()
}

func toAttr(kvs []kv) []attribute.KeyValue {
	out := make([]attribute.KeyValue, 0, len(kvs))
	for _, e := range kvs {
		switch v := e.v.(type) {
		case string:
			out = append(out, attribute.String(e.k, v))
		case int64:
			out = append(out, attribute.Int64(e.k, v))
		case bool:
			out = append(out, attribute.Bool(e.k, v))
		}
	}
	return out
}

// canonSet encodes a reported attribute.Set the same way.
func canonSet(s attribute.Set) string {
	var sb strings.Builder
	it := s.Iter()
	for it.Next() {
		a := it.Attribute()
		var v any
		switch a.Value.Type() {
		case attribute.STRING:
			v = a.Value.AsString()
		case attribute.INT64:
			v = a.Value.AsInt64()
		case attribute.BOOL:
			v = a.Value.AsBool()
		default:
			v = a.Value.Emit()
		}
		fmt.Fprintf(&sb, "%s=%T:%v;", string(a.Key), v, v)
	}
	return sb.String()
}

// keyTable assigns key numbers to canonical encodings (stable: sorted).
type keyTable struct {
	idx map[string]uint64
}

func (t *keyTable) of(c string) uint64 {
	if v, ok := t.idx[c]; ok {
		return v
	}
	return 9999 // an attribute set the history never used
}

// ---- instruments ----

type ikind int

const (
	kCounter ikind = iota
	kUpDown
	kHist
	kGauge
	kObsCounter
	kObsUpDown
	kObsGauge
	kExpo   // Histogram instrument with a base-2 exponential view (MaxScale 0)
	kHistNS // up-down counter with an explicit-bucket histogram view: the sum is not kept
)

var kindNames = []string{"KCounter", "KUpDown", "KH", "KGauge", "KObsCounter", "KObsUpDown", "KObsGauge", "KE", "KHN"}

func (k ikind) async() bool { return k >= kObsCounter && k <= kObsGauge }

type instr struct {
	kind   ikind
	float  bool
	bounds []int64 // histogram bounds (in units: int instrument = 1, float instrument = 1/1024 after scaling by 1024)
	name   string

	ic  metric.Int64Counter
	iu  metric.Int64UpDownCounter
	ih  metric.Int64Histogram
	ig  metric.Int64Gauge
	fc  metric.Float64Counter
	fu  metric.Float64UpDownCounter
	fh  metric.Float64Histogram
	fg  metric.Float64Gauge
	io  metric.Int64Observable
	fo  metric.Float64Observable
	obs metric.Observable
}

const scale = 1024

func zig(v int64) string {
	if v >= 0 {
		return vgen.N(uint64(v) * 2)
	}
	return vgen.N(uint64(-v)*2 - 1)
}

func (in *instr) coqKind() string {
	if in.kind == kHist || in.kind == kHistNS {
		bs := make([]string, len(in.bounds))
		for i, b := range in.bounds {
			bs[i] = zig(b)
		}
		return vgen.App(kindNames[in.kind], vgen.List(bs))
	}
	if in.kind == kExpo {
		if in.float {
			return "(KE 1024)"
		}
		return "(KE 1)"
	}
	return kindNames[in.kind]
}

// record performs a synchronous measurement; v is in model units (scaled by 1024 for float instruments).
func (in *instr) record(ctx context.Context, v int64, attrs []attribute.KeyValue) {
	opt := metric.WithAttributes(attrs...)
	if (v+int64(len(attrs)))%2 == 0 { // the other spelling of the same attributes
		opt = metric.WithAttributeSet(attribute.NewSet(attrs...))
	}
	fv := float64(v) / scale
	switch in.kind {
	case kCounter:
		if in.float {
			in.fc.Add(ctx, fv, opt)
		} else {
			in.ic.Add(ctx, v, opt)
		}
	case kUpDown, kHistNS:
		if in.float {
			in.fu.Add(ctx, fv, opt)
		} else {
			in.iu.Add(ctx, v, opt)
		}
	case kHist, kExpo:
		if in.float {
			in.fh.Record(ctx, fv, opt)
		} else {
			in.ih.Record(ctx, v, opt)
		}
	case kGauge:
		if in.float {
			in.fg.Record(ctx, fv, opt)
		} else {
			in.ig.Record(ctx, v, opt)
		}
	}
}

// ---- history ----

type attempt struct {
	cb, inst int
	kvs      []kv
	v        int64
}

type op struct {
	typ    string // measure | register | unregister | collect
	inst   int
	kvs    []kv
	v      int64
	cb     int
	insts  []int
	script []attempt
}

type streamObs struct {
	start, time time.Time
	reported    bool
	points      map[uint64][]int64 // key -> vector (model units)
}

// scaled converts a reported float to model units, insisting on exactness.
func scaled(f float64) (int64, bool) {
	x := f * scale
	if x != math.Trunc(x) || math.Abs(x) > 1<<53 {
		return 0, false
	}
	return int64(x), true
}

type runner struct {
	w     *vgen.Writer
	r     *vgen.Rand
	insts []*instr
	keys  *keyTable
}

// extract pulls every stream out of one reader's collection.
func (rn *runner) extract(rm *metricdata.ResourceMetrics, want metricdata.Temporality, desc any) []streamObs {
	out := make([]streamObs, len(rn.insts))
	for i := range out {
		out[i].points = map[uint64][]int64{}
	}
	byName := map[string]int{}
	for i, in := range rn.insts {
		byName[in.name] = i
	}
	bad := func(what string) { rn.w.Violation(what, desc) }
	for _, sm := range rm.ScopeMetrics {
		for _, m := range sm.Metrics {
			i, ok := byName[m.Name]
			if !ok {
				bad("unknown metric name " + m.Name)
				continue
			}
			so := &out[i]
			if so.reported {
				bad("stream reported twice in one collection: " + m.Name)
			}
			so.reported = true
			first := true
			stamp := func(st, t time.Time) {
				if first {
					so.start, so.time, first = st, t, false
				} else if !st.Equal(so.start) || !t.Equal(so.time) {
					bad("points of one stream carry different start/time in one collection")
				}
			}
			put := func(set attribute.Set, vec []int64) {
				k := rn.keys.of(canonSet(set))
				if _, dup := so.points[k]; dup {
					bad("attribute set reported twice in one stream")
				}
				so.points[k] = vec
			}
			fl := func(f float64) int64 {
				v, ok := scaled(f)
				if !ok {
					bad(fmt.Sprintf("inexact float value %v reported", f))
				}
				return v
			}
			temp := want
			switch d := m.Data.(type) {
			case metricdata.Sum[int64]:
				temp = d.Temporality
				for _, p := range d.DataPoints {
					stamp(p.StartTime, p.Time)
					put(p.Attributes, []int64{p.Value})
				}
			case metricdata.Sum[float64]:
				temp = d.Temporality
				for _, p := range d.DataPoints {
					stamp(p.StartTime, p.Time)
					put(p.Attributes, []int64{fl(p.Value)})
				}
			case metricdata.Gauge[int64]:
				for _, p := range d.DataPoints {
					stamp(p.StartTime, p.Time)
					put(p.Attributes, []int64{p.Value})
				}
			case metricdata.Gauge[float64]:
				for _, p := range d.DataPoints {
					stamp(p.StartTime, p.Time)
					put(p.Attributes, []int64{fl(p.Value)})
				}
			case metricdata.Histogram[int64]:
				temp = d.Temporality
				for _, p := range d.DataPoints {
					stamp(p.StartTime, p.Time)
					vec := []int64{p.Sum, int64(p.Count)}
					for _, c := range p.BucketCounts {
						vec = append(vec, int64(c))
					}
					put(p.Attributes, vec)
				}
			case metricdata.Histogram[float64]:
				temp = d.Temporality
				for _, p := range d.DataPoints {
					stamp(p.StartTime, p.Time)
					vec := []int64{fl(p.Sum), int64(p.Count)}
					for _, c := range p.BucketCounts {
						vec = append(vec, int64(c))
					}
					put(p.Attributes, vec)
				}
			case metricdata.ExponentialHistogram[int64]:
				temp = d.Temporality
				for _, p := range d.DataPoints {
					stamp(p.StartTime, p.Time)
					put(p.Attributes, expoVec(p.Sum, p.Count, p.ZeroCount, p.Scale, p.PositiveBucket, p.NegativeBucket, bad))
				}
			case metricdata.ExponentialHistogram[float64]:
				temp = d.Temporality
				for _, p := range d.DataPoints {
					stamp(p.StartTime, p.Time)
					put(p.Attributes, expoVec(fl(p.Sum), p.Count, p.ZeroCount, p.Scale, p.PositiveBucket, p.NegativeBucket, bad))
				}
			default:
				bad(fmt.Sprintf("unexpected aggregation %T", m.Data))
			}
			if temp != want {
				bad(fmt.Sprintf("stream %s reported with temporality %v by the %v reader", m.Name, temp, want))
			}
			if len(so.points) == 0 {
				bad("a stream without data points was reported")
			}
		}
	}
	return out
}

// expoVec renders an exponential data point as [sum; count; zero count; negative count; bucket 0..23].
// The harness keeps every magnitude within 2..2^23 with MaxSize 160, so the scale must stay 0.
func expoVec(sum int64, count, zero uint64, scale int32, pos, neg metricdata.ExponentialBucket, bad func(string)) []int64 {
	if scale != 0 {
		bad(fmt.Sprintf("exponential histogram scale moved to %d although all values fit at scale 0", scale))
	}
	var negTotal int64
	for _, c := range neg.Counts {
		negTotal += int64(c)
	}
	vec := []int64{sum, int64(count), int64(zero), negTotal}
	dense := make([]int64, 24)
	for j, c := range pos.Counts {
		idx := int(pos.Offset) + j
		if c == 0 {
			continue
		}
		if idx < 0 || idx >= 24 {
			bad(fmt.Sprintf("exponential bucket index %d outside the range of the recorded values", idx))
			continue
		}
		dense[idx] = int64(c)
	}
	return append(vec, dense...)
}

var errCallback = errors.New("verif: callback failed")

func kvsDesc(kvs []kv) string { return canon(kvs) }

// sameStreams: two extractions of a collection agree (points, values, start and time).
func sameStreams(a, b []streamObs) bool {
	if len(a) != len(b) {
		return false
	}
	for i := range a {
		if a[i].reported != b[i].reported || len(a[i].points) != len(b[i].points) {
			return false
		}
		if a[i].reported && (!a[i].start.Equal(b[i].start) || !a[i].time.Equal(b[i].time)) {
			return false
		}
		for k, va := range a[i].points {
			vb, ok := b[i].points[k]
			if !ok || len(va) != len(vb) {
				return false
			}
			for j := range va {
				if va[j] != vb[j] {
					return false
				}
			}
		}
	}
	return true
}

func allDelta(sdk.InstrumentKind) metricdata.Temporality { return metricdata.DeltaTemporality }
func allCum(sdk.InstrumentKind) metricdata.Temporality   { return metricdata.CumulativeTemporality }

// genKVs draws an attribute list (possibly with a repeated key, in random order).
func genKVs(r *vgen.Rand, sets [][]kv) []kv {
	base := sets[r.Intn(len(sets))]
	out := append([]kv(nil), base...)
	r2 := r
	for i := len(out) - 1; i > 0; i-- { // shuffle
		j := r2.Intn(i + 1)
		out[i], out[j] = out[j], out[i]
	}
	if len(out) > 0 && r.Chance(1, 5) { // a shadowed duplicate in front: last value wins
		d := out[r.Intn(len(out))]
		alt := vgen.Pick(r, attrPool)
		for alt.k != d.k {
			alt = vgen.Pick(r, attrPool)
		}
		out = append([]kv{alt}, out...)
	}
	return out
}

func genValue(r *vgen.Rand, in *instr) int64 {
	var v int64
	switch in.kind {
	case kHist, kHistNS:
		// around the bounds, on them, and far away
		switch r.Intn(4) {
		case 0:
			v = vgen.Pick(r, in.bounds)
		case 1:
			v = vgen.Pick(r, in.bounds) + int64(r.Range(-2, 2))
		default:
			lo, hi := in.bounds[0], in.bounds[len(in.bounds)-1]
			span := hi - lo + 1
			v = lo - span/2 + int64(r.Intn(int(2*span)))
		}
		return v
	case kExpo:
		// whole numbers: 0, exact powers of two, neighbours of powers of two, arbitrary; sometimes negative
		switch r.Intn(6) {
		case 0:
			v = 0
		case 1, 2:
			v = int64(1) << uint(r.Range(1, 22))
		case 3:
			v = int64(1)<<uint(r.Range(2, 22)) + int64(r.Range(-1, 1))
		default:
			v = int64(r.Range(2, 1<<20))
		}
		if r.Chance(1, 6) {
			v = -v
		}
		if in.float {
			v *= scale
		}
		return v
	case kCounter, kObsCounter:
		v = int64(r.Intn(50))
	default:
		v = int64(r.Range(-40, 60))
	}
	if in.float {
		switch r.Intn(4) {
		case 0:
			v = v * scale // whole numbers
		case 1:
			v = v*scale + int64(r.Intn(scale)) // with a fraction
		case 2:
			v = v * 1 // tiny: multiples of 2^-10
		default:
			v = v * (1 << 28) // large, still exact when summed (< 2^40 * 2^10)
		}
	} else if r.Chance(1, 8) {
		v = v * (1 << 40)
	}
	return v
}

func (rn *runner) history(seedDesc string, nOps int) {
	r := rn.r
	w := rn.w
	// ---- configuration ----
	nInst := r.Range(1, 7)
	kinds := make([]ikind, nInst)
	for i := range kinds {
		kinds[i] = ikind(r.Intn(9))
	}
	if r.Chance(1, 3) { // make sure every kind shows up regularly
		kinds = []ikind{kCounter, kUpDown, kHist, kGauge, kObsCounter, kObsUpDown, kObsGauge, kExpo, kHistNS}
		nInst = 9
	}
	// attribute sets of this history: 0-6 sets out of the pool (the empty set included)
	nSets := r.Range(1, 6)
	var sets [][]kv
	seen := map[string]bool{}
	for len(sets) < nSets {
		var s []kv
		for _, e := range attrPool {
			if r.Chance(1, 3) {
				s = append(s, e)
			}
		}
		c := canon(s)
		if !seen[c] {
			seen[c] = true
			// keep only the effective (last-wins) members so that shuffling cannot change the set
			m := map[string]kv{}
			for _, e := range s {
				m[e.k] = e
			}
			var eff []kv
			for _, e := range m {
				eff = append(eff, e)
			}
			sort.Slice(eff, func(a, b int) bool { return eff[a].k < eff[b].k })
			sets = append(sets, eff)
		}
		if len(seen) >= 40 {
			break
		}
	}
	var canons []string
	for _, s := range sets {
		canons = append(canons, canon(s))
	}
	sort.Strings(canons)
	kt := &keyTable{idx: map[string]uint64{}}
	for i, c := range canons {
		kt.idx[c] = uint64(i)
	}
	rn.keys = kt

	deltaR := sdk.NewManualReader(sdk.WithTemporalitySelector(allDelta))
	cumR := sdk.NewManualReader(sdk.WithTemporalitySelector(allCum))
	if r.Bool() { // the default selector is cumulative for every kind
		cumR = sdk.NewManualReader()
	}
	deltaFirst := r.Bool()
	var mp *sdk.MeterProvider
	popts := []sdk.Option{sdk.WithReader(deltaR), sdk.WithReader(cumR)}
	if !deltaFirst {
		popts = []sdk.Option{sdk.WithReader(cumR), sdk.WithReader(deltaR)}
	}
	// in half of the histories a third reader whose aggregation selector DROPS every observable kind:
	// it has no aggregator for those instruments but still runs the registered callbacks when it
	// collects; its collections (at random points, not part of the history given to Coq) must leave the
	// other readers' streams alone
	var dropR *sdk.ManualReader
	if r.Bool() {
		dropR = sdk.NewManualReader(sdk.WithAggregationSelector(func(k sdk.InstrumentKind) sdk.Aggregation {
			switch k {
			case sdk.InstrumentKindObservableCounter, sdk.InstrumentKindObservableUpDownCounter, sdk.InstrumentKindObservableGauge:
				return sdk.AggregationDrop{}
			}
			return sdk.DefaultAggregationSelector(k)
		}))
		popts = append(popts, sdk.WithReader(dropR))
		if r.Bool() { // registered first, in the middle or last
			popts[0], popts[len(popts)-1] = popts[len(popts)-1], popts[0]
		}
	}
	for i, k := range kinds {
		if k == kHistNS {
			popts = append(popts, sdk.WithView(sdk.NewView(
				sdk.Instrument{Name: fmt.Sprintf("i%d", i)},
				sdk.Stream{Aggregation: sdk.AggregationExplicitBucketHistogram{Boundaries: []float64{0, 10, 100}}})))
		}
		if k == kExpo {
			popts = append(popts, sdk.WithView(sdk.NewView(
				sdk.Instrument{Name: fmt.Sprintf("i%d", i)},
				sdk.Stream{Aggregation: sdk.AggregationBase2ExponentialHistogram{MaxSize: 160, MaxScale: 0}})))
		}
	}
	mp = sdk.NewMeterProvider(popts...)
	ctx := context.Background()
	defer mp.Shutdown(ctx)
	meter := mp.Meter("verif/c08")

	rn.insts = nil
	var asyncIdx []int
	var script []attempt
	failing := map[int]bool{} // callbacks that return an error in the current cycle (after observing)
	type regState struct {
		reg   metric.Registration // nil: a callback attached when the instrument was created (cannot be unregistered)
		insts []int
	}
	regs := map[int]*regState{}
	var live, multi []int
	nextCb := 0
	var terms, descOps []string
	// callbacks attached at creation (metric.WithInt64Callback / WithFloat64Callback): 0-2 per observable
	// instrument; they run before the RegisterCallback ones and can observe only their own instrument
	creationCbs := func(i int, float bool) (ics []metric.Int64ObservableOption, fcs []metric.Float64ObservableOption) {
		n := vgen.Pick(r, []int{0, 0, 1, 1, 2})
		for j := 0; j < n; j++ {
			id := nextCb
			nextCb++
			regs[id] = &regState{insts: []int{i}}
			terms = append(terms, vgen.App("Rg", vgen.N(uint64(id)), vgen.List([]string{vgen.N(uint64(i))})))
			descOps = append(descOps, fmt.Sprintf("instrument i%d created with callback cb%d", i, id))
			w.Tally("creation-time callback")
			if float {
				fcs = append(fcs, metric.WithFloat64Callback(func(_ context.Context, o metric.Float64Observer) error {
					for _, a := range script {
						if a.cb == id && a.inst == i {
							o.Observe(float64(a.v)/scale, metric.WithAttributes(toAttr(a.kvs)...))
						}
					}
					if failing[id] {
						return errCallback
					}
					return nil
				}))
			} else {
				ics = append(ics, metric.WithInt64Callback(func(_ context.Context, o metric.Int64Observer) error {
					for _, a := range script {
						if a.cb == id && a.inst == i {
							o.Observe(a.v, metric.WithAttributes(toAttr(a.kvs)...))
						}
					}
					if failing[id] {
						return errCallback
					}
					return nil
				}))
			}
		}
		return
	}
	optsI := func(cs []metric.Int64ObservableOption) (a []metric.Int64ObservableCounterOption, b []metric.Int64ObservableUpDownCounterOption, c []metric.Int64ObservableGaugeOption) {
		for _, x := range cs {
			a, b, c = append(a, x), append(b, x), append(c, x)
		}
		return
	}
	optsF := func(cs []metric.Float64ObservableOption) (a []metric.Float64ObservableCounterOption, b []metric.Float64ObservableUpDownCounterOption, c []metric.Float64ObservableGaugeOption) {
		for _, x := range cs {
			a, b, c = append(a, x), append(b, x), append(c, x)
		}
		return
	}
	for i, k := range kinds {
		in := &instr{kind: k, float: r.Bool(), name: fmt.Sprintf("i%d", i)}
		var err error
		var ic1 []metric.Int64ObservableCounterOption
		var ic2 []metric.Int64ObservableUpDownCounterOption
		var ic3 []metric.Int64ObservableGaugeOption
		var fc1 []metric.Float64ObservableCounterOption
		var fc2 []metric.Float64ObservableUpDownCounterOption
		var fc3 []metric.Float64ObservableGaugeOption
		if k.async() {
			ics, fcs := creationCbs(i, in.float)
			ic1, ic2, ic3 = optsI(ics)
			fc1, fc2, fc3 = optsF(fcs)
		}
		switch k {
		case kCounter:
			if in.float {
				in.fc, err = meter.Float64Counter(in.name)
			} else {
				in.ic, err = meter.Int64Counter(in.name)
			}
		case kUpDown, kHistNS:
			if in.float {
				in.fu, err = meter.Float64UpDownCounter(in.name)
			} else {
				in.iu, err = meter.Int64UpDownCounter(in.name)
			}
			if k == kHistNS {
				in.bounds = []int64{0, 10, 100}
				if in.float {
					in.bounds = []int64{0, 10 * scale, 100 * scale}
				}
			}
		case kHist:
			if hv := r.Intn(4); hv < 2 {
				// the default boundaries: no option at all, or an invalid (not increasing) list, which
				// is reported by an error at creation and ignored
				def := []int64{0, 5, 10, 25, 50, 75, 100, 250, 500, 750, 1000, 2500, 5000, 7500, 10000}
				for _, b := range def {
					if in.float {
						in.bounds = append(in.bounds, b*scale)
					} else {
						in.bounds = append(in.bounds, b)
					}
				}
				var e2 error
				switch {
				case in.float && hv == 0:
					in.fh, e2 = meter.Float64Histogram(in.name)
				case in.float:
					in.fh, e2 = meter.Float64Histogram(in.name, metric.WithExplicitBucketBoundaries(5, 1))
				case hv == 0:
					in.ih, e2 = meter.Int64Histogram(in.name)
				default:
					in.ih, e2 = meter.Int64Histogram(in.name, metric.WithExplicitBucketBoundaries(5, 1))
				}
				if (e2 != nil) != (hv == 1) {
					w.Violation(fmt.Sprintf("histogram creation: boundaries option invalid=%v, error %v", hv == 1, e2), seedDesc)
				}
				w.Tally("histogram with the default boundaries")
				break
			}
			nb := r.Range(1, 4)
			b := int64(r.Range(-5, 5))
			var fb []float64
			for j := 0; j < nb; j++ {
				if in.float {
					in.bounds = append(in.bounds, b*scale/4) // quarter units
					fb = append(fb, float64(b)/4)
				} else {
					in.bounds = append(in.bounds, b)
					fb = append(fb, float64(b))
				}
				b += int64(r.Range(1, 6))
			}
			if in.float {
				in.fh, err = meter.Float64Histogram(in.name, metric.WithExplicitBucketBoundaries(fb...))
			} else {
				in.ih, err = meter.Int64Histogram(in.name, metric.WithExplicitBucketBoundaries(fb...))
			}
		case kExpo:
			if in.float {
				in.fh, err = meter.Float64Histogram(in.name)
			} else {
				in.ih, err = meter.Int64Histogram(in.name)
			}
		case kGauge:
			if in.float {
				in.fg, err = meter.Float64Gauge(in.name)
			} else {
				in.ig, err = meter.Int64Gauge(in.name)
			}
		case kObsCounter:
			if in.float {
				var o metric.Float64ObservableCounter
				o, err = meter.Float64ObservableCounter(in.name, fc1...)
				in.fo, in.obs = o, o
			} else {
				var o metric.Int64ObservableCounter
				o, err = meter.Int64ObservableCounter(in.name, ic1...)
				in.io, in.obs = o, o
			}
		case kObsUpDown:
			if in.float {
				var o metric.Float64ObservableUpDownCounter
				o, err = meter.Float64ObservableUpDownCounter(in.name, fc2...)
				in.fo, in.obs = o, o
			} else {
				var o metric.Int64ObservableUpDownCounter
				o, err = meter.Int64ObservableUpDownCounter(in.name, ic2...)
				in.io, in.obs = o, o
			}
		case kObsGauge:
			if in.float {
				var o metric.Float64ObservableGauge
				o, err = meter.Float64ObservableGauge(in.name, fc3...)
				in.fo, in.obs = o, o
			} else {
				var o metric.Int64ObservableGauge
				o, err = meter.Int64ObservableGauge(in.name, ic3...)
				in.io, in.obs = o, o
			}
		}
		if err != nil {
			w.Violation("instrument creation failed: "+err.Error(), seedDesc)
			return
		}
		if k.async() {
			asyncIdx = append(asyncIdx, i)
		}
		rn.insts = append(rn.insts, in)
	}

	// ---- run ----
	mkCallback := func(id int) metric.Callback {
		return func(_ context.Context, o metric.Observer) error {
			for _, a := range script {
				if a.cb != id {
					continue
				}
				in := rn.insts[a.inst]
				opt := metric.WithAttributes(toAttr(a.kvs)...)
				if (a.v+int64(len(a.kvs)))%2 == 0 {
					opt = metric.WithAttributeSet(attribute.NewSet(toAttr(a.kvs)...))
				}
				if in.float {
					o.ObserveFloat64(in.fo, float64(a.v)/scale, opt)
				} else {
					o.ObserveInt64(in.io, a.v, opt)
				}
			}
			if failing[id] {
				return errCallback
			}
			return nil
		}
	}

	var ops []op
	// one entry per collection of that reader (the readers also collect on their own)
	type readerObs struct {
		streams []streamObs
		err     bool
	}
	var dObs, cObs []readerObs
	type retainedRM struct {
		rm   *metricdata.ResourceMetrics
		temp metricdata.Temporality
		snap []streamObs
	}
	var retained []retainedRM
	reuse := r.Bool()
	var reusedD, reusedC metricdata.ResourceMetrics
	var dErrs, cErrs []bool // one entry per Collect call of that reader (also the ones that returned no data)
	var syncIdx []int
	for i, k := range kinds {
		if !k.async() {
			syncIdx = append(syncIdx, i)
		}
	}
	nCollect := 0
	for step := 0; step < nOps; step++ {
		c := r.Intn(100)
		last := step == nOps-1
		switch {
		case !last && c < 50 && len(syncIdx) > 0:
			i := vgen.Pick(r, syncIdx)
			in := rn.insts[i]
			kvs := genKVs(r, sets)
			v := genValue(r, in)
			in.record(ctx, v, toAttr(kvs))
			ops = append(ops, op{typ: "measure"})
			terms = append(terms, vgen.App("M", vgen.N(uint64(i)), vgen.N(kt.of(canon(kvs))), zig(v)))
			descOps = append(descOps, fmt.Sprintf("measure %s{%s} %d", in.name, kvsDesc(kvs), v))
		case !last && c < 62 && len(asyncIdx) > 0:
			id := nextCb
			nextCb++
			var is []int
			for _, i := range asyncIdx {
				if r.Chance(2, 3) {
					is = append(is, i)
				}
			}
			if len(is) == 0 {
				is = []int{vgen.Pick(r, asyncIdx)}
			}
			var os_ []metric.Observable
			var isT []string
			for _, i := range is {
				os_ = append(os_, rn.insts[i].obs)
				isT = append(isT, vgen.N(uint64(i)))
			}
			reg, err := meter.RegisterCallback(mkCallback(id), os_...)
			if err != nil {
				w.Violation("RegisterCallback failed: "+err.Error(), seedDesc)
				return
			}
			regs[id] = &regState{reg: reg, insts: is}
			live = append(live, id)
			multi = append(multi, id)
			terms = append(terms, vgen.App("Rg", vgen.N(uint64(id)), vgen.List(isT)))
			descOps = append(descOps, fmt.Sprintf("register cb%d %v", id, is))
		case !last && c < 70 && nextCb > 0:
			// unregister: mostly a live one, sometimes one already unregistered (a no-op)
			if len(multi) == 0 {
				continue
			}
			id := vgen.Pick(r, multi)
			if len(live) > 0 && r.Chance(3, 4) {
				id = vgen.Pick(r, live)
			}
			if err := regs[id].reg.Unregister(); err != nil {
				w.Violation("Unregister failed: "+err.Error(), seedDesc)
			}
			for j, l := range live {
				if l == id {
					live = append(live[:j], live[j+1:]...)
					break
				}
			}
			terms = append(terms, vgen.App("Un", vgen.N(uint64(id))))
			descOps = append(descOps, fmt.Sprintf("unregister cb%d", id))
		case !last && c >= 94 && dropR != nil:
			// the reader that drops the observable kinds collects (callbacks run with the last cycle's script)
			var rm metricdata.ResourceMetrics
			_ = dropR.Collect(ctx, &rm)
			for _, sm := range rm.ScopeMetrics {
				for _, m := range sm.Metrics {
					for _, i := range asyncIdx {
						if m.Name == rn.insts[i].name {
							w.Violation("a reader whose aggregation selector drops observable instruments reported one", seedDesc)
						}
					}
				}
			}
			w.Tally("collect:by the reader that drops observables")
		case last || c >= 70:
			// a cycle: what every callback ever created would observe now
			script = nil
			failing = map[int]bool{}
			var at, failT []string
			if len(asyncIdx) > 0 {
				for id := 0; id < nextCb; id++ {
					if r.Chance(1, 6) { // this callback reports an error in this cycle
						failing[id] = true
						failT = append(failT, vgen.N(uint64(id)))
					}
					n := r.Intn(5)
					for j := 0; j < n; j++ {
						i := vgen.Pick(r, asyncIdx) // may be an instrument the callback was not registered with
						if r.Chance(3, 4) || regs[id].reg == nil {
							i = vgen.Pick(r, regs[id].insts)
						}
						kvs := genKVs(r, sets)
						v := genValue(r, rn.insts[i])
						script = append(script, attempt{cb: id, inst: i, kvs: kvs, v: v})
						at = append(at, vgen.App("A", vgen.N(uint64(id)), vgen.N(uint64(i)), vgen.N(kt.of(canon(kvs))), zig(v)))
					}
				}
			}
			// who collects: both readers (in either order), only the delta reader, only the cumulative one
			who := vgen.Pick(r, []uint64{0, 0, 0, 1, 2})
			cancelledCtx := r.Chance(1, 7) // Collect with a context that is already cancelled
			cctx := ctx
			if cancelledCtx {
				var cancel context.CancelFunc
				cctx, cancel = context.WithCancel(ctx)
				cancel()
				who += 3
				w.Tally("collect:cancelled-context")
			}
			d := map[string]any{"history": seedDesc, "collection": nCollect}
			collectOne := func(delta bool) bool {
				var fresh metricdata.ResourceMetrics
				rmp := &fresh
				if reuse { // the same destination object again and again
					rmp = &reusedC
					if delta {
						rmp = &reusedD
					}
				}
				var e error
				if delta {
					e = deltaR.Collect(cctx, rmp)
				} else {
					e = cumR.Collect(cctx, rmp)
				}
				if errors.Is(e, context.Canceled) {
					// no data: nothing is added to this reader's trace, only the error is recorded
					if len(rmp.ScopeMetrics) != 0 {
						w.Violation("Collect returned the context's error together with data", seedDesc)
					}
					if !cancelledCtx {
						w.Violation("Collect returned context.Canceled although its context was live", seedDesc)
					}
					if delta {
						dErrs = append(dErrs, true)
					} else {
						cErrs = append(cErrs, true)
					}
					w.Tally("collect:cancelled-with-error")
					return true
				}
				if e != nil && !errors.Is(e, errCallback) {
					w.Violation(fmt.Sprintf("Collect failed with an error other than the callback's: %v", e), seedDesc)
					return false
				}
				if e != nil {
					w.Tally("collect:callback-error")
				}
				if delta {
					dErrs = append(dErrs, e != nil)
				} else {
					cErrs = append(cErrs, e != nil)
				}
				if delta {
					dObs = append(dObs, readerObs{streams: rn.extract(rmp, metricdata.DeltaTemporality, d), err: e != nil})
					if !reuse {
						retained = append(retained, retainedRM{rm: rmp, temp: metricdata.DeltaTemporality, snap: dObs[len(dObs)-1].streams})
					}
				} else {
					cObs = append(cObs, readerObs{streams: rn.extract(rmp, metricdata.CumulativeTemporality, d), err: e != nil})
					if !reuse {
						retained = append(retained, retainedRM{rm: rmp, temp: metricdata.CumulativeTemporality, snap: cObs[len(cObs)-1].streams})
					}
				}
				return true
			}
			order := []bool{true, false}
			if r.Bool() {
				order = []bool{false, true}
			}
			for _, delta := range order {
				if who%3 == 0 || (who%3 == 1) == delta {
					if !collectOne(delta) {
						return
					}
				}
			}
			nCollect++
			w.Tally(fmt.Sprintf("collect:who=%d", who))
			terms = append(terms, vgen.App("Co", vgen.N(who), vgen.List(at), vgen.List(failT)))
			descOps = append(descOps, fmt.Sprintf("collect who=%d (%d attempts, failing callbacks %v)", who, len(script), failT))
			w.Tally(fmt.Sprintf("collect:attempts=%d", min(len(script), 12)/4*4))
		default:
			continue
		}
	}

	// ---- collected data must not change afterwards: every ResourceMetrics handed out (fresh destinations)
	// was kept; re-read them now, after all later measurements and collections, and compare with the
	// copy taken right after their Collect ----
	for _, rt := range retained {
		again := rn.extract(rt.rm, rt.temp, map[string]any{"history": seedDesc, "recheck": true})
		if !sameStreams(again, rt.snap) {
			w.Violation("a collected data point changed after a later measurement/collection", seedDesc)
			break
		}
	}
	w.Tally(fmt.Sprintf("retained collections re-checked=%d", min(len(retained), 40)/10*10))

	// ---- time ranks: instants are only compared by order and equality ----
	var instants []time.Time
	for _, obs := range [][]readerObs{dObs, cObs} {
		for _, co := range obs {
			for _, so := range co.streams {
				if so.reported {
					instants = append(instants, so.start, so.time)
				}
			}
		}
	}
	sort.Slice(instants, func(a, b int) bool { return instants[a].Before(instants[b]) })
	rank := func(t time.Time) uint64 {
		// dense rank, starting at 1
		rk := uint64(0)
		var prev time.Time
		for i, x := range instants {
			if i == 0 || !x.Equal(prev) {
				rk++
				prev = x
			}
			if x.Equal(t) {
				return rk
			}
		}
		return 0
	}
	// precompute ranks (the list is short)
	obsTerm := func(so streamObs) string {
		if !so.reported {
			return "(O 0 0 [])"
		}
		ks := make([]uint64, 0, len(so.points))
		for k := range so.points {
			ks = append(ks, k)
		}
		sort.Slice(ks, func(a, b int) bool { return ks[a] < ks[b] })
		var ps []string
		for _, k := range ks {
			var vs []string
			for _, x := range so.points[k] {
				vs = append(vs, zig(x))
			}
			ps = append(ps, vgen.App("P", vgen.N(k), vgen.List(vs)))
		}
		return vgen.App("O", vgen.N(rank(so.start)), vgen.N(rank(so.time)), vgen.List(ps))
	}
	var perInst []string
	nPoints := 0
	for i := range rn.insts {
		var dtr, ctr []string
		for _, co := range dObs {
			dtr = append(dtr, obsTerm(co.streams[i]))
			nPoints += len(co.streams[i].points)
		}
		for _, co := range cObs {
			ctr = append(ctr, obsTerm(co.streams[i]))
			nPoints += len(co.streams[i].points)
		}
		perInst = append(perInst, vgen.Pair(vgen.List(dtr), vgen.List(ctr)))
	}
	var kindT []string
	var kindD []string
	for _, in := range rn.insts {
		kindT = append(kindT, in.coqKind())
		fl := "int64"
		if in.float {
			fl = "float64"
		}
		kindD = append(kindD, kindNames[in.kind]+"/"+fl)
		w.Tally("kind:" + kindNames[in.kind] + "/" + fl)
	}
	var errDT, errCT []string
	for _, e := range dErrs {
		errDT = append(errDT, vgen.Bool(e))
	}
	for _, e := range cErrs {
		errCT = append(errCT, vgen.Bool(e))
	}
	term := vgen.App("CHist", vgen.List(kindT), vgen.List(terms), vgen.List(perInst), vgen.Pair(vgen.List(errDT), vgen.List(errCT)))
	desc := map[string]any{"history": seedDesc, "instruments": kindD, "attribute_sets": canons, "ops": descOps, "delta_reader_first": deltaFirst}
	w.Tally(fmt.Sprintf("history:ops=%d", len(terms)/20*20))
	w.Tally(fmt.Sprintf("history:collections=%d", min(nCollect, 24)/4*4))
	w.Tally(fmt.Sprintf("history:sets=%d", len(sets)))
	w.Add(term, desc, "history", nPoints > 0 && nCollect >= 2)
	_ = ops
}

// ---- exponential histograms that rescale ----

type ePoint struct {
	key         uint64
	scale       int64
	sum         int64
	count, zero uint64
	pos, neg    [][2]int64
}

func bucketsOf(b metricdata.ExponentialBucket) [][2]int64 {
	var out [][2]int64
	for j, c := range b.Counts {
		if c != 0 {
			out = append(out, [2]int64{int64(b.Offset) + int64(j), int64(c)})
		}
	}
	return out
}

func (p ePoint) coq() string {
	bs := func(b [][2]int64) string {
		var xs []string
		for _, e := range b {
			xs = append(xs, vgen.App("B", zig(e[0]), vgen.N(uint64(e[1]))))
		}
		return vgen.List(xs)
	}
	return vgen.App("EP", vgen.N(p.key), zig(p.scale), zig(p.sum), vgen.N(p.count), vgen.N(p.zero), bs(p.pos), bs(p.neg))
}

// expoHistory: one Histogram instrument with a base-2 exponential view of small MaxSize and low
// MaxScale, fed values whose dynamic range grows across cycles (both signs, zeros), read by the delta
// and the cumulative reader; judged by the scale-independent clauses of C08/Spec.v (expo_ok).
// Values are m * 2^e with m in {1.125 .. 1.875}: never on (or within 3 % of) a bucket boundary at
// scale <= 3, so down-shifting a finer index gives exactly the coarser index.
func (rn *runner) expoHistory(desc string) {
	r, w := rn.r, rn.w
	maxSize := int32(vgen.Pick(r, []int{1, 1, 2, 2, 3, 4, 5, 6}))
	maxScale := int32(vgen.Pick(r, []int{-10, -4, -1, 0, 0, 1, 2, 3, 3}))
	float := r.Bool()
	sets, canons := [][]kv{}, []string{}
	for _, s := range [][]kv{{}, {{"a", int64(1)}}, {{"b", "x"}}}[:r.Range(1, 3)] {
		sets = append(sets, s)
		canons = append(canons, canon(s))
	}
	sort.Strings(canons)
	kt := &keyTable{idx: map[string]uint64{}}
	for i, c := range canons {
		kt.idx[c] = uint64(i)
	}
	deltaR := sdk.NewManualReader(sdk.WithTemporalitySelector(allDelta))
	cumR := sdk.NewManualReader(sdk.WithTemporalitySelector(allCum))
	mp := sdk.NewMeterProvider(sdk.WithReader(deltaR), sdk.WithReader(cumR),
		sdk.WithView(sdk.NewView(sdk.Instrument{Name: "e0"},
			sdk.Stream{Aggregation: sdk.AggregationBase2ExponentialHistogram{MaxSize: maxSize, MaxScale: maxScale}})))
	ctx := context.Background()
	defer mp.Shutdown(ctx)
	meter := mp.Meter("verif/c08/expo")
	var ih metric.Int64Histogram
	var fh metric.Float64Histogram
	var err error
	if float {
		fh, err = meter.Float64Histogram("e0")
	} else {
		ih, err = meter.Int64Histogram("e0")
	}
	if err != nil {
		w.Violation("instrument creation failed: "+err.Error(), desc)
		return
	}
	bad := func(what string) { w.Violation(what, desc) }
	extract := func(rm *metricdata.ResourceMetrics, want metricdata.Temporality) []ePoint {
		var out []ePoint
		add := func(set attribute.Set, scale int32, sum int64, count, zero uint64, pos, neg metricdata.ExponentialBucket) {
			out = append(out, ePoint{key: kt.of(canonSet(set)), scale: int64(scale), sum: sum, count: count, zero: zero, pos: bucketsOf(pos), neg: bucketsOf(neg)})
		}
		for _, sm := range rm.ScopeMetrics {
			for _, m := range sm.Metrics {
				switch d := m.Data.(type) {
				case metricdata.ExponentialHistogram[int64]:
					if d.Temporality != want {
						bad("wrong temporality reported")
					}
					for _, p := range d.DataPoints {
						add(p.Attributes, p.Scale, p.Sum, p.Count, p.ZeroCount, p.PositiveBucket, p.NegativeBucket)
					}
				case metricdata.ExponentialHistogram[float64]:
					if d.Temporality != want {
						bad("wrong temporality reported")
					}
					for _, p := range d.DataPoints {
						sv, ok := scaled(p.Sum)
						if !ok {
							bad(fmt.Sprintf("inexact float sum %v", p.Sum))
						}
						add(p.Attributes, p.Scale, sv, p.Count, p.ZeroCount, p.PositiveBucket, p.NegativeBucket)
					}
				default:
					bad(fmt.Sprintf("unexpected aggregation %T", m.Data))
				}
			}
		}
		sort.Slice(out, func(a, b int) bool { return out[a].key < out[b].key })
		return out
	}
	mant := []int64{9, 10, 11, 12, 13, 14, 15} // eighths: 1.125 .. 1.875
	loE, hiE := 3, 24
	if float {
		loE, hiE = -7, 20
	}
	e0 := r.Range(loE, hiE-6)
	span := r.Range(0, 2) // the exponent window [e0, e0+span] widens as the cycles go by
	nCycles := r.Range(3, 10)
	var measT, obsT, descC []string
	type keptExpo struct {
		rm   *metricdata.ResourceMetrics
		temp metricdata.Temporality
		snap []ePoint
	}
	var kept []keptExpo
	for c := 0; c < nCycles; c++ {
		counts := map[uint64]uint64{}
		flags := map[uint64]uint64{}
		n := r.Range(0, 6)
		var vals []string
		for j := 0; j < n; j++ {
			s := sets[r.Intn(len(sets))]
			e := e0 + r.Intn(span+1)
			if r.Chance(1, 10) { // an outlier far above / below everything so far
				e = vgen.Pick(r, []int{loE, hiE})
			}
			// value = m/8 * 2^e in model units (scaled by 2^10 for float instruments)
			var v int64
			m := vgen.Pick(r, mant)
			if float {
				v = m << uint(e+7) // m/8 * 2^e * 2^10
			} else {
				v = m << uint(e-3)
			}
			if r.Chance(1, 8) {
				v = 0
			}
			if float && r.Chance(1, 6) { // magnitudes on both sides of 1 (0.5, 2): the two buckets of the minimum scale
				v = vgen.Pick(r, []int64{3 * scale / 4, 3 * scale / 2}) // 0.75, 1.5
				if maxScale <= 0 {                                      // exact powers of two only where the index needs no logarithm
					v = vgen.Pick(r, []int64{scale / 2, 2 * scale, 3 * scale / 4, 3 * scale / 2})
				}
			}
			if r.Chance(1, 4) {
				v = -v
			}
			// which side of 1 the magnitude is on (model units: 1 = scale for float instruments)
			one := int64(1)
			if float {
				one = scale
			}
			switch {
			case v > 0 && v <= one:
				flags[kt.of(canon(s))] |= 1
			case v > one:
				flags[kt.of(canon(s))] |= 2
			case v < 0 && -v <= one:
				flags[kt.of(canon(s))] |= 4
			case v < -one:
				flags[kt.of(canon(s))] |= 8
			}
			opt := metric.WithAttributes(toAttr(s)...)
			if float && r.Chance(1, 12) {
				// NaN and the infinities are ignored by the exponential aggregator: not counted anywhere
				fh.Record(ctx, vgen.Pick(r, []float64{math.NaN(), math.Inf(1), math.Inf(-1)}), opt)
				w.Tally("expo:non-finite value recorded")
			}
			if float {
				fh.Record(ctx, float64(v)/scale, opt)
			} else {
				ih.Record(ctx, v, opt)
			}
			counts[kt.of(canon(s))]++
			vals = append(vals, fmt.Sprint(v))
		}
		if r.Chance(2, 3) {
			span += r.Range(0, 3)
			if e0+span > hiE {
				span = hiE - e0
			}
		}
		if r.Chance(1, 3) && e0 > loE {
			e0--
			span++
		}
		var rmD, rmC metricdata.ResourceMetrics
		var errD, errC error
		if r.Bool() {
			errD, errC = deltaR.Collect(ctx, &rmD), cumR.Collect(ctx, &rmC)
		} else {
			errC = cumR.Collect(ctx, &rmC)
			errD = deltaR.Collect(ctx, &rmD)
		}
		if errD != nil || errC != nil {
			w.Violation(fmt.Sprintf("Collect failed: %v / %v", errD, errC), desc)
			return
		}
		dp, cp := extract(&rmD, metricdata.DeltaTemporality), extract(&rmC, metricdata.CumulativeTemporality)
		kept = append(kept, keptExpo{&rmD, metricdata.DeltaTemporality, dp}, keptExpo{&rmC, metricdata.CumulativeTemporality, cp})
		var ks []uint64
		for k := range counts {
			ks = append(ks, k)
		}
		sort.Slice(ks, func(a, b int) bool { return ks[a] < ks[b] })
		var mc, dT, cT []string
		for _, k := range ks {
			mc = append(mc, vgen.App("MC", vgen.N(k), vgen.N(counts[k]), vgen.N(flags[k])))
		}
		for _, p := range dp {
			dT = append(dT, p.coq())
		}
		minScale := int64(maxScale)
		for _, p := range cp {
			cT = append(cT, p.coq())
			if p.scale < minScale {
				minScale = p.scale
			}
		}
		measT = append(measT, vgen.List(mc))
		obsT = append(obsT, vgen.Pair(vgen.List(dT), vgen.List(cT)))
		descC = append(descC, fmt.Sprintf("record %v; collect -> lowest cumulative scale %d", vals, minScale))
		if c == nCycles-1 {
			w.Tally(fmt.Sprintf("expo:rescaled-by=%d", int64(maxScale)-minScale))
		}
	}
	w.Tally(fmt.Sprintf("expo:maxsize=%d", maxSize))
	// the points handed out in earlier cycles must still be what they were
	for _, kp := range kept {
		again := extract(kp.rm, kp.temp)
		same := len(again) == len(kp.snap)
		for i := 0; same && i < len(again); i++ {
			same = again[i].coq() == kp.snap[i].coq()
		}
		if !same {
			w.Violation("a collected data point changed after a later measurement/collection (exponential histogram)", desc)
			break
		}
	}
	w.Add(vgen.App("CExpo", vgen.N(uint64(maxSize)), vgen.List(measT), vgen.List(obsT)),
		map[string]any{"history": desc, "max_size": maxSize, "max_scale": maxScale, "float": float, "cycles": descC}, "expo-rescaling", nCycles >= 2)
}

// ---- overlapping Collect calls on the SAME reader while a callback is in flight ----

// overlappingCollects: the pipeline lock is held while the callbacks of a collection run, so a second
// Collect on the same reader waits; each collection reports exactly what ITS callbacks observed.  The
// callback of the first collection waits (with a timeout that simply elapses on correct code) for a
// second collection's callback to show up, and lets it observe too before the first one aggregates.
func overlappingCollects(w *vgen.Writer, r *vgen.Rand, desc string, delta, creation bool) {
	sel := allCum
	if delta {
		sel = allDelta
	}
	rd := sdk.NewManualReader(sdk.WithTemporalitySelector(sel))
	other := sdk.NewManualReader()
	mp := sdk.NewMeterProvider(sdk.WithReader(rd), sdk.WithReader(other))
	ctx := context.Background()
	defer mp.Shutdown(ctx)
	meter := mp.Meter("verif/c08/overlap")
	const wait = 250 * time.Millisecond
	V := int64(r.Range(1, 50))
	var armed atomic.Bool
	var entered atomic.Int32
	firstIn, secondIn := make(chan struct{}), make(chan struct{})
	firstDone, secondDone := make(chan struct{}), make(chan struct{})
	body := func(observe func(int64)) {
		if armed.Load() {
			switch entered.Add(1) {
			case 1:
				close(firstIn)
				select {
				case <-secondIn: // only possible if the callbacks of two collections of this reader overlap
				case <-time.After(wait):
				}
				observe(V)
				close(firstDone)
				select {
				case <-secondDone:
				case <-time.After(wait):
				}
				return
			case 2:
				close(secondIn)
				select {
				case <-firstDone:
				case <-time.After(wait):
				}
				observe(V)
				close(secondDone)
				return
			}
		}
		observe(V)
	}
	var err error
	if creation {
		_, err = meter.Int64ObservableCounter("oc", metric.WithInt64Callback(func(_ context.Context, o metric.Int64Observer) error {
			body(func(v int64) { o.Observe(v) })
			return nil
		}))
	} else {
		var oc metric.Int64ObservableCounter
		oc, err = meter.Int64ObservableCounter("oc")
		if err == nil {
			_, err = meter.RegisterCallback(func(_ context.Context, o metric.Observer) error {
				body(func(v int64) { o.ObserveInt64(oc, v) })
				return nil
			}, oc)
		}
	}
	if err != nil {
		w.Violation("setup failed: "+err.Error(), desc)
		return
	}
	val := func(rm *metricdata.ResourceMetrics) (int64, int) {
		n, v := 0, int64(0)
		for _, sm := range rm.ScopeMetrics {
			for _, m := range sm.Metrics {
				if s, ok := m.Data.(metricdata.Sum[int64]); ok {
					for _, p := range s.DataPoints {
						n++
						v += p.Value
					}
				}
			}
		}
		return v, n
	}
	var a, b metricdata.ResourceMetrics
	armed.Store(true)
	var wg sync.WaitGroup
	wg.Add(2)
	go func() { defer wg.Done(); _ = rd.Collect(ctx, &a) }()
	select {
	case <-firstIn:
	case <-time.After(60 * time.Second):
		return // inconclusive
	}
	go func() { defer wg.Done(); _ = rd.Collect(ctx, &b) }()
	done := make(chan struct{})
	go func() { wg.Wait(); close(done) }()
	select {
	case <-done:
	case <-time.After(120 * time.Second):
		w.Violation("two Collect calls on one reader did not return within 120 s", desc)
		return
	}
	armed.Store(false)
	va, na := val(&a)
	vb, nb := val(&b)
	w.Tally("overlapping Collect calls on one reader")
	// every cycle's callbacks observed V once: cumulative view V and V; delta view V then 0
	ok := na == 1 && nb == 1
	if delta {
		ok = ok && va+vb == V && (va == V || vb == V)
	} else {
		ok = ok && va == V && vb == V
	}
	if !ok {
		w.Violation(fmt.Sprintf("overlapping Collect calls on one reader (delta=%v, creation-time callback=%v): each cycle's callback observed %d once, "+
			"the two collections reported %d (%d points) and %d (%d points)", delta, creation, V, va, na, vb, nb), desc)
	}
}

// ---- concurrent Adds on the SAME attribute set ----

// concurrentSameSet: G goroutines add known values to one attribute set (and a second, shared one) of a
// synchronous counter / up-down counter, int64 or float64, while the delta reader collects now and then;
// after all of them have returned both readers collect once more.  Clause, judged here: the cumulative
// value is the exact sum of everything added, and so is the sum of all delta values.
func concurrentSameSet(w *vgen.Writer, r *vgen.Rand, desc string) {
	deltaR := sdk.NewManualReader(sdk.WithTemporalitySelector(allDelta))
	cumR := sdk.NewManualReader()
	mp := sdk.NewMeterProvider(sdk.WithReader(deltaR), sdk.WithReader(cumR))
	ctx := context.Background()
	defer mp.Shutdown(ctx)
	meter := mp.Meter("verif/c08/same-set")
	float, updown := r.Bool(), r.Bool()
	var add func(v int64, opt metric.AddOption)
	var err error
	switch {
	case float && updown:
		var c metric.Float64UpDownCounter
		c, err = meter.Float64UpDownCounter("s")
		add = func(v int64, opt metric.AddOption) { c.Add(ctx, float64(v)/4, opt) }
	case float:
		var c metric.Float64Counter
		c, err = meter.Float64Counter("s")
		add = func(v int64, opt metric.AddOption) { c.Add(ctx, float64(v)/4, opt) }
	case updown:
		var c metric.Int64UpDownCounter
		c, err = meter.Int64UpDownCounter("s")
		add = func(v int64, opt metric.AddOption) { c.Add(ctx, v, opt) }
	default:
		var c metric.Int64Counter
		c, err = meter.Int64Counter("s")
		add = func(v int64, opt metric.AddOption) { c.Add(ctx, v, opt) }
	}
	if err != nil {
		w.Violation("setup failed: "+err.Error(), desc)
		return
	}
	nG, perG := r.Range(3, 8), r.Range(3000, 12000)
	opts := []metric.AddOption{metric.WithAttributes(attribute.String("k", "shared")), metric.WithAttributes()}
	want := make([]int64, 2) // per set, in quarter units for float instruments
	plans := make([][]int64, nG)
	for g := range plans {
		gr := r.Fork()
		plans[g] = make([]int64, perG)
		for j := range plans[g] {
			v := int64(gr.Range(1, 5))
			if updown && gr.Chance(1, 3) {
				v = -v
			}
			plans[g][j] = v
			want[j%8/7] += v // seven of eight adds go to the shared set "k=shared", one to the empty set
		}
	}
	read := func(rm *metricdata.ResourceMetrics, into []int64) {
		for _, sm := range rm.ScopeMetrics {
			for _, m := range sm.Metrics {
				put := func(set attribute.Set, v int64) {
					i := 1
					if set.Len() == 1 {
						i = 0
					}
					into[i] += v
				}
				switch d := m.Data.(type) {
				case metricdata.Sum[int64]:
					for _, p := range d.DataPoints {
						put(p.Attributes, p.Value)
					}
				case metricdata.Sum[float64]:
					for _, p := range d.DataPoints {
						put(p.Attributes, int64(p.Value*4))
					}
				}
			}
		}
	}
	deltas := make([]int64, 2)
	var wg sync.WaitGroup
	for g := range plans {
		wg.Add(1)
		go func(g int) {
			defer wg.Done()
			for j, v := range plans[g] {
				add(v, opts[j%8/7])
			}
		}(g)
	}
	stop := make(chan struct{})
	collected := make(chan struct{})
	go func() { // the delta reader collects while the adders run
		defer close(collected)
		for {
			select {
			case <-stop:
				return
			default:
			}
			var rm metricdata.ResourceMetrics
			_ = deltaR.Collect(ctx, &rm)
			read(&rm, deltas)
			runtime.Gosched()
		}
	}()
	done := make(chan struct{})
	go func() { wg.Wait(); close(done) }()
	select {
	case <-done:
	case <-time.After(120 * time.Second):
		w.Violation("concurrent Adds did not return within 120 s", desc)
		close(stop)
		return
	}
	close(stop)
	<-collected
	var rmD, rmC metricdata.ResourceMetrics
	_ = deltaR.Collect(ctx, &rmD)
	read(&rmD, deltas)
	cum := make([]int64, 2)
	_ = cumR.Collect(ctx, &rmC)
	read(&rmC, cum)
	w.Tally("concurrent Adds on one attribute set")
	for i, name := range []string{"k=shared", "the empty set"} {
		if cum[i] != want[i] || deltas[i] != want[i] {
			w.Violation(fmt.Sprintf("%d goroutines x %d Adds on the same attribute sets (float=%v, updown=%v), %s: added %d in total, cumulative value %d, sum of the deltas %d",
				nG, perG, float, updown, name, want[i], cum[i], deltas[i]), desc)
		}
	}
}

// ---- many distinct attribute sets over an instrument's lifetime, no cardinality limit configured ----

// largeCardinality: cycles of fresh attribute sets (value 1 each, some sets recorded again) on one
// counter and one histogram, read by the delta and the cumulative reader; judged here, without
// shipping thousands of points to Coq: no "otel.metric.overflow" set may appear (no limit is
// configured), the cumulative view has exactly one point per distinct set seen so far, and each
// set's cumulative value (histogram count) equals the sum of its deltas.
func largeCardinality(w *vgen.Writer, r *vgen.Rand, desc string, nCycles, perCycle int) {
	if os.Getenv("OTEL_GO_X_CARDINALITY_LIMIT") != "" {
		return // a limit was configured on purpose: this scenario is about the unconfigured default
	}
	deltaR := sdk.NewManualReader(sdk.WithTemporalitySelector(allDelta))
	cumR := sdk.NewManualReader(sdk.WithTemporalitySelector(allCum))
	mp := sdk.NewMeterProvider(sdk.WithReader(deltaR), sdk.WithReader(cumR))
	ctx := context.Background()
	defer mp.Shutdown(ctx)
	meter := mp.Meter("verif/c08/cardinality")
	float := r.Bool()
	var ic metric.Int64Counter
	var fc metric.Float64Counter
	var err error
	if float {
		fc, err = meter.Float64Counter("big")
	} else {
		ic, err = meter.Int64Counter("big")
	}
	ih, err2 := meter.Int64Histogram("bigh", metric.WithExplicitBucketBoundaries(0, 10))
	if err != nil || err2 != nil {
		w.Violation("instrument creation failed", desc)
		return
	}
	bad := func(what string) { w.Violation("large cardinality: "+what, desc) }
	sumDelta := map[int64]int64{}  // set id -> sum of the counter deltas reported so far
	sumDeltaH := map[int64]int64{} // set id -> sum of the histogram delta counts
	recorded := map[int64]int64{}
	next := int64(0)
	setOf := func(s attribute.Set) (int64, bool) {
		if v, ok := s.Value("id"); ok && s.Len() == 1 {
			return v.AsInt64(), true
		}
		return 0, false
	}
	for c := 0; c < nCycles; c++ {
		for j := 0; j < perCycle; j++ {
			id := next
			next++
			if r.Chance(1, 10) && id > 0 {
				id = int64(r.Intn(int(id))) // an old set again
			}
			opt := metric.WithAttributes(attribute.Int64("id", id))
			if float {
				fc.Add(ctx, 1, opt)
			} else {
				ic.Add(ctx, 1, opt)
			}
			ih.Record(ctx, id%20, opt)
			recorded[id]++
		}
		var rmD, rmC metricdata.ResourceMetrics
		if e := deltaR.Collect(ctx, &rmD); e != nil {
			bad("delta Collect: " + e.Error())
		}
		if e := cumR.Collect(ctx, &rmC); e != nil {
			bad("cumulative Collect: " + e.Error())
		}
		read := func(rm *metricdata.ResourceMetrics) (cnt, hist map[int64]int64) {
			cnt, hist = map[int64]int64{}, map[int64]int64{}
			put := func(m map[int64]int64, set attribute.Set, v int64) {
				id, ok := setOf(set)
				if !ok {
					bad(fmt.Sprintf("cycle %d: a point with attribute set %q although no cardinality limit is configured", c, set.Encoded(attribute.DefaultEncoder())))
					return
				}
				if _, dup := m[id]; dup {
					bad("attribute set reported twice")
				}
				m[id] = v
			}
			for _, sm := range rm.ScopeMetrics {
				for _, m := range sm.Metrics {
					switch d := m.Data.(type) {
					case metricdata.Sum[int64]:
						for _, p := range d.DataPoints {
							put(cnt, p.Attributes, p.Value)
						}
					case metricdata.Sum[float64]:
						for _, p := range d.DataPoints {
							put(cnt, p.Attributes, int64(p.Value))
						}
					case metricdata.Histogram[int64]:
						for _, p := range d.DataPoints {
							put(hist, p.Attributes, int64(p.Count))
						}
					}
				}
			}
			return
		}
		dC, dH := read(&rmD)
		cC, cH := read(&rmC)
		for id, v := range dC {
			sumDelta[id] += v
		}
		for id, v := range dH {
			sumDeltaH[id] += v
		}
		for name, pair := range map[string][2]map[int64]int64{"counter": {cC, sumDelta}, "histogram": {cH, sumDeltaH}} {
			cum, run := pair[0], pair[1]
			if len(cum) != len(recorded) {
				bad(fmt.Sprintf("cycle %d: the cumulative %s has %d points for %d distinct attribute sets recorded so far", c, name, len(cum), len(recorded)))
			}
			n := 0
			for id, want := range recorded {
				if cum[id] != want || run[id] != want {
					if n < 3 {
						bad(fmt.Sprintf("cycle %d, %s, set id=%d: recorded %d, cumulative %d, sum of deltas %d", c, name, id, want, cum[id], run[id]))
					}
					n++
				}
			}
		}
	}
	w.Tally(fmt.Sprintf("large-cardinality history: %d distinct sets", len(recorded)))
	w.Extra["large_cardinality"] = map[string]any{"cycles": nCycles, "per_cycle": perCycle, "distinct_sets": len(recorded)}
}

func main() {
	o := vgen.ParseFlags()
	otel.SetLogger(logr.Discard())
	otel.SetErrorHandler(otel.ErrorHandlerFunc(func(error) {}))
	r := vgen.NewRand(o.Seed)
	w := vgen.NewWriter(o.Out, "Lib.MetricsModel C08.Spec C08.Model C08.Corr", "case", 64)
	w.Rule = "random histories (measure / register callback / unregister / collect-with-script) over 1-8 instruments of the 8 kinds (counter, up-down counter, explicit histogram, gauge, the three observables, histogram with a base-2 exponential view at scale 0) (int64 and float64, float values multiples of 2^-10), 1-6 attribute sets, observed through a delta and a cumulative ManualReader on one provider; " +
		"a case is non-trivial when at least two collections happened and at least one data point was reported; distinct = distinct Coq case terms; timestamps enter only as dense ranks (order/equality)"
	rn := &runner{w: w, r: r}
	n := o.Count(360, 6000)
	for i := 0; i < n; i++ {
		nOps := r.Range(2, 80)
		if r.Chance(1, 6) {
			nOps = r.Range(2, 12)
		}
		desc := fmt.Sprintf("seed=%d history=%d", o.Seed, i)
		func() {
			defer func() {
				if e := recover(); e != nil {
					w.Violation(fmt.Sprintf("panic: %v", e), desc)
				}
			}()
			rn.history(desc, nOps)
		}()
	}
	for i := 0; i < o.Count(2, 8); i++ {
		desc := fmt.Sprintf("seed=%d overlapping-collects=%d", o.Seed, i)
		func() {
			defer func() {
				if e := recover(); e != nil {
					w.Violation(fmt.Sprintf("panic: %v", e), desc)
				}
			}()
			overlappingCollects(w, r.Fork(), desc, i%2 == 0, (i/2)%2 == 0 != (o.Seed%2 == 0))
		}()
	}
	for i := 0; i < o.Count(3, 20); i++ {
		desc := fmt.Sprintf("seed=%d concurrent-same-set=%d", o.Seed, i)
		func() {
			defer func() {
				if e := recover(); e != nil {
					w.Violation(fmt.Sprintf("panic: %v", e), desc)
				}
			}()
			concurrentSameSet(w, r.Fork(), desc)
		}()
	}
	nBig := o.Count(1, 4)
	for i := 0; i < nBig; i++ {
		desc := fmt.Sprintf("seed=%d large-cardinality=%d", o.Seed, i)
		func() {
			defer func() {
				if e := recover(); e != nil {
					w.Violation(fmt.Sprintf("panic: %v", e), desc)
				}
			}()
			largeCardinality(w, r.Fork(), desc, 4, 700+100*i)
		}()
	}
	nExpo := o.Count(120, 2000)
	for i := 0; i < nExpo; i++ {
		desc := fmt.Sprintf("seed=%d expo=%d", o.Seed, i)
		func() {
			defer func() {
				if e := recover(); e != nil {
					w.Violation(fmt.Sprintf("panic: %v", e), desc)
				}
			}()
			rn.expoHistory(desc)
		}()
	}
	if err := w.Flush(); err != nil {
		fmt.Fprintln(os.Stderr, err)
		os.Exit(2)
	}
}
