package main

import (
	"context"
	"fmt"
	"runtime"
	"strconv"
	"strings"
	"sync"
	"sync/atomic"
	"time"

	sdktrace "go.opentelemetry.io/otel/sdk/trace"
	"go.opentelemetry.io/otel/sdk/trace/tracetest"
	"go.opentelemetry.io/otel/trace"

	"verif/harness/vgen"
)

// ---------------------------------------------------------------------------
// Free-running fragment: producers x flushers x shutdown callers on one processor,
// exporter latency / failures / export timeouts and scheduling perturbation drawn from
// the seed.  Only the recorded history is emitted; it is judged by Spec.spec_ok.
// Histories are complete (every call returned, the exporter's Shutdown was called and
// no export is in progress) before they are taken; a scenario that does not complete
// within the watchdog (>= 200x the expected time) is reported as a hang.
// ---------------------------------------------------------------------------

// shortened after the first scenario that hangs, so that a broken implementation is
// reported within the run's budget
var freeWatchdog = 20 * time.Second

type freeParams struct {
	c             cfg
	batchTimeout  time.Duration
	exportTimeout time.Duration
	maxLatency    time.Duration
	failPct       int
	producers     int
	perProducer   int
	flushers      int
	sdCallers     int
	sdConcurrent  bool
	sdShortCtx    bool
	afterShutdown int // Ends issued after the first Shutdown returned
	failEvery     int  // > 0: every n-th ExportSpans call fails (besides failPct)
	failDeadline  bool // failures are reported as context.DeadlineExceeded
	ignoreCtx     bool // the exporter sleeps through its latency ignoring ctx (overrunning the export timeout)
	literalOpts   bool
	sdViaProvider bool // the first Shutdown caller goes through TracerProvider.Shutdown
}

func (p freeParams) desc() map[string]any {
	return map[string]any{"fragment": "free-running", "qcap": p.c.qcap, "maxBatch": p.c.maxb, "blocking": p.c.blocking,
		"batchTimeout": p.batchTimeout.String(), "exportTimeout": p.exportTimeout.String(), "maxLatency": p.maxLatency.String(),
		"failPct": p.failPct, "producers": p.producers, "perProducer": p.perProducer, "flushers": p.flushers,
		"shutdownCallers": p.sdCallers, "shutdownConcurrent": p.sdConcurrent, "shutdownShortCtx": p.sdShortCtx,
		"failEvery": p.failEvery, "failDeadline": p.failDeadline, "exporterIgnoresCtx": p.ignoreCtx,
		"literalOptionFunc": p.literalOpts, "shutdownViaProvider": p.sdViaProvider}
}

func genFree(r *vgen.Rand) freeParams {
	var p freeParams
	qc := r.Range(1, 8)
	if r.Chance(1, 5) {
		qc = vgen.Pick(r, []int{16, 32, 64})
	}
	p.c = cfg{qcap: qc, maxb: r.Range(1, qc+2), blocking: r.Chance(2, 5)}
	if qc > 8 {
		p.c.maxb = r.Range(1, 12)
	}
	p.batchTimeout = vgen.Pick(r, []time.Duration{200 * time.Microsecond, time.Millisecond, 5 * time.Millisecond, time.Hour})
	p.exportTimeout = vgen.Pick(r, []time.Duration{time.Hour, time.Hour, 0, 2 * time.Millisecond, 300 * time.Microsecond})
	p.maxLatency = vgen.Pick(r, []time.Duration{0, 100 * time.Microsecond, 100 * time.Microsecond, time.Millisecond, 3 * time.Millisecond})
	p.failPct = vgen.Pick(r, []int{0, 0, 10, 50})
	p.producers = r.Range(2, 16)
	p.perProducer = r.Range(2, max(2, 160/p.producers))
	if p.perProducer > 20 {
		p.perProducer = 20
	}
	p.flushers = r.Range(0, 3)
	p.sdCallers = 1
	if r.Chance(1, 3) {
		p.sdCallers = 2
	}
	// In blocking mode an End that passed the stopped check can wait for a queue slot
	// forever once the worker has exited (liveness, outside this property; see notes):
	// Shutdown is then only called after the producers have returned.
	p.sdConcurrent = !p.c.blocking && r.Chance(1, 2)
	p.sdShortCtx = r.Chance(1, 5)
	if r.Chance(1, 3) {
		p.afterShutdown = r.Range(1, 3)
	}
	if r.Chance(1, 4) {
		p.failEvery = r.Range(2, 5)
	}
	p.failDeadline = r.Chance(1, 3)
	p.ignoreCtx = r.Chance(1, 3)
	p.literalOpts = r.Chance(1, 4)
	// Only ONE caller may use the provider while Shutdowns overlap: a second TracerProvider.Shutdown
	// returns nil at once (isShutdown) without waiting for the first, which is the provider's own
	// lifecycle (C15), not the processor's.
	p.sdViaProvider = r.Chance(1, 2)
	return p
}

type lockedRand struct {
	mu sync.Mutex
	r  *vgen.Rand
}

func (l *lockedRand) intn(n int) int {
	l.mu.Lock()
	defer l.mu.Unlock()
	return l.r.Intn(n)
}

func perturb(r *vgen.Rand) {
	switch r.Intn(6) {
	case 0, 1:
		runtime.Gosched()
	case 2:
		time.Sleep(time.Duration(r.Intn(200)) * time.Microsecond)
	}
}

func runScenario(p freeParams, r *vgen.Rand) (evs []event, problem string) {
	rg := newRigOpts(p.c, p.batchTimeout, p.exportTimeout, rigOpts{literalOpts: p.literalOpts})
	var calls atomic.Int64
	er := &lockedRand{r: r.Fork()}
	rg.g.behave = func(ctx context.Context, n int) error {
		var lat time.Duration
		if p.maxLatency > 0 {
			lat = time.Duration(er.intn(int(p.maxLatency)))
		}
		fail := er.intn(100) < p.failPct
		if p.failEvery > 0 && calls.Add(1)%int64(p.failEvery) == 0 {
			fail = true
		}
		if lat > 0 && p.ignoreCtx {
			time.Sleep(lat)
		} else if lat > 0 {
			tm := time.NewTimer(lat)
			select {
			case <-tm.C:
			case <-ctx.Done():
				tm.Stop()
				return ctx.Err()
			}
		} else if er.intn(3) == 0 {
			runtime.Gosched()
		}
		if fail {
			if p.failDeadline {
				return context.DeadlineExceeded
			}
			return errGate
		}
		return nil
	}

	var producers, others sync.WaitGroup
	nextID := 0
	for i := 0; i < p.producers; i++ {
		base := nextID
		nextID += p.perProducer
		pr := r.Fork()
		producers.Add(1)
		go func() {
			defer producers.Done()
			for k := 0; k < p.perProducer; k++ {
				perturb(pr)
				rg.end(base+k, !pr.Chance(1, 10), pr.Intn(8))
			}
		}()
	}
	for i := 0; i < p.flushers; i++ {
		fr := r.Fork()
		others.Add(1)
		go func() {
			defer others.Done()
			for k := fr.Range(1, 3); k > 0; k-- {
				time.Sleep(time.Duration(fr.Intn(2000)) * time.Microsecond)
				d := time.Second
				if fr.Chance(3, 10) {
					d = time.Duration(50+fr.Intn(3000)) * time.Microsecond
				}
				ctx, cancel := context.WithTimeout(context.Background(), d)
				rg.flush(ctx, fr.Chance(1, 3))
				cancel()
			}
		}()
	}
	sdr := r.Fork()
	startShutdowns := func() {
		for i := 0; i < p.sdCallers; i++ {
			short := p.sdShortCtx && (i == 0 || sdr.Bool())
			delay := time.Duration(sdr.Intn(500)) * time.Microsecond
			seq := i > 0 && sdr.Bool()
			via := i == 0 && p.sdViaProvider
			d := 8 * time.Second
			if short {
				d = time.Duration(100+sdr.Intn(2000)) * time.Microsecond
			}
			others.Add(1)
			f := func() {
				defer others.Done()
				time.Sleep(delay)
				ctx, cancel := context.WithTimeout(context.Background(), d)
				rg.shutdown(ctx, via)
				cancel()
			}
			if seq {
				f()
			} else {
				go f()
			}
		}
	}
	done := make(chan struct{})
	go func() {
		if p.sdConcurrent {
			time.Sleep(time.Duration(sdr.Intn(3000)) * time.Microsecond)
			startShutdowns()
			producers.Wait()
		} else {
			producers.Wait()
			startShutdowns()
		}
		others.Wait()
		for k := 0; k < p.afterShutdown; k++ {
			rg.end(nextID+k, true, k+1)
		}
		if p.afterShutdown > 0 {
			ctx, cancel := context.WithTimeout(context.Background(), time.Second)
			rg.flush(ctx)
			cancel()
		}
		close(done)
	}()
	select {
	case <-done:
	case <-time.After(freeWatchdog):
		buf := make([]byte, 1<<16)
		buf = buf[:runtime.Stack(buf, true)]
		return rg.rec.take(), "calls did not return within the watchdog (" + freeWatchdog.String() + "); goroutines:\n" + string(buf)
	}
	g := rg.g
	if !g.waitFor(func() bool { return g.sdCalls >= 1 && g.inside == 0 }, freeWatchdog) {
		return rg.rec.take(), "the drain did not finish (exporter Shutdown not called) within the watchdog"
	}
	time.Sleep(300 * time.Microsecond)
	evs = rg.rec.take()
	time.Sleep(500 * time.Microsecond)
	rg.rec.mu.Lock()
	late := rg.rec.late
	rg.rec.mu.Unlock()
	if late >= 1000 {
		return evs, "ExportSpans was entered after the exporter's Shutdown had been called and every call had returned"
	}
	return evs, ""
}

func runFree(w *vgen.Writer, r *vgen.Rand, n int) {
	for i := 0; i < n; i++ {
		p := genFree(r)
		sr := r.Fork()
		desc := p.desc()
		func() {
			defer func() {
				if e := recover(); e != nil {
					w.Violation(fmt.Sprintf("panic: %v", e), desc)
				}
			}()
			evs, problem := runScenario(p, sr)
			if problem != "" {
				desc["history"] = descHistory(evs)
				w.Violation("free-running scenario: "+problem, desc)
				w.Tally("free:stuck")
				freeWatchdog = 2 * time.Second
				return
			}
			evs = withDrops(p.c, evs)
			dobs := dropsObserved(evs)
			nexp, ndrop, nilFlush, nilSd, ctxRet := 0, 0, 0, 0, 0
			for _, e := range evs {
				switch {
				case e.kind == evBegin:
					nexp++
				case e.kind == evDrop:
					ndrop++
				case e.kind == evRet && e.op == opFlush && e.ret == rNil && !e.expired:
					nilFlush++
				case e.kind == evRet && e.op == opShutdown && e.ret == rNil:
					nilSd++
				case e.kind == evRet && e.ret == rCtx:
					ctxRet++
				}
			}
			w.Tally(fmt.Sprintf("free:blocking=%v", p.c.blocking))
			w.Tally(fmt.Sprintf("free:producers=%d-%d", p.producers/4*4, p.producers/4*4+3))
			w.Tally(fmt.Sprintf("free:events=%d00+", len(evs)/100))
			if ndrop > 0 {
				w.Tally("free:with-drops")
			}
			if nilFlush > 0 {
				w.Tally("free:nil-flush")
			}
			if ctxRet > 0 {
				w.Tally("free:ctx-returns")
			}
			if p.sdConcurrent {
				w.Tally("free:shutdown-concurrent")
			}
			term := vgen.App("CFree", coqCfg(p.c), vgen.Bool(dobs), coqHistory(evs))
			desc["events"] = len(evs)
			desc["exports"] = nexp
			desc["drops_inferred"] = ndrop
			w.Add(term, desc, "free", nexp > 0 && (nilFlush > 0 || nilSd > 0))
		}()
	}
}

// ---------------------------------------------------------------------------
// Drop storms: many goroutines end sampled spans at the same instant on a full non-blocking queue
// (the worker is inside a blocked export), so the drop counter is bumped concurrently.  Afterwards the
// gate is released, everything is flushed and one more span is exported: the counter read for that
// last export is final, and exported + counted = ended must hold exactly (no timing involved: every
// End has returned before the counter is read).  Ends go straight to OnEnd with prepared snapshots and
// are not logged one by one, so that nothing serialises the goroutines.
// ---------------------------------------------------------------------------

func runStorms(w *vgen.Writer, r *vgen.Rand, n int) {
	for i := 0; i < n; i++ {
		qc := r.Range(1, 4)
		c := cfg{qcap: qc, maxb: r.Range(1, qc+2), blocking: false}
		G, K := r.Range(8, 16), r.Range(300, 700)
		desc := map[string]any{"fragment": "drop storm", "qcap": c.qcap, "maxBatch": c.maxb, "goroutines": G, "perGoroutine": K}
		func() {
			defer func() {
				if e := recover(); e != nil {
					w.Violation(fmt.Sprintf("panic: %v", e), desc)
				}
			}()
			rg := newRigOpts(c, time.Hour, time.Hour, rigOpts{})
			g := rg.g
			snaps := make([][]sdktrace.ReadOnlySpan, G)
			id := 0
			for a := range snaps {
				for k := 0; k < K; k++ {
					snaps[a] = append(snaps[a], sampledSnapshot(id, k))
					id++
				}
			}
			total := id
			g.setMode(modeBlock)
			ok := within(freeWatchdog, func() {
				var wg sync.WaitGroup
				start := make(chan struct{})
				for a := range snaps {
					wg.Add(1)
					go func(ss []sdktrace.ReadOnlySpan) {
						defer wg.Done()
						<-start
						for _, s := range ss {
							rg.bsp.OnEnd(s)
						}
					}(snaps[a])
				}
				close(start)
				wg.Wait()
				g.unblock()
				rg.bsp.ForceFlush(context.Background())
				rg.bsp.OnEnd(sampledSnapshot(total, 0)) // the probe: its export reads the final counter
				total++
				rg.bsp.ForceFlush(context.Background())
				rg.bsp.Shutdown(context.Background())
			})
			if !ok {
				w.Tally("storm:inconclusive-timeout")
				return
			}
			evs := rg.rec.take()
			var bs []string
			nexp, last := 0, -1
			for _, e := range evs {
				if e.kind == evBegin {
					bs = append(bs, "bD "+coqIDs(e.batch)+" "+strconv.Itoa(dOr0(e.d)))
					nexp += len(e.batch)
					last = e.d
				}
			}
			if last < 0 {
				w.Tally("storm:counter-not-observed")
				return
			}
			desc["ended"], desc["exported"], desc["counted_dropped"] = total, nexp, last
			w.Tally("storm:run")
			w.Add(vgen.App("CStorm", coqCfg(c), strconv.Itoa(total), "["+strings.Join(bs, "; ")+"]"), desc, "storm", last > 0)
		}()
	}
}

func sampledSnapshot(id, k int) sdktrace.ReadOnlySpan {
	sc := trace.NewSpanContext(trace.SpanContextConfig{
		TraceID:    trace.TraceID{0xc0, 0x02, byte(id >> 16), byte(id >> 8), byte(id), 1},
		SpanID:     trace.SpanID{0xc0, 0x02, byte(id >> 16), byte(id >> 8), byte(id), 2},
		TraceFlags: flagsFor(true, k),
	})
	return tracetest.SpanStub{Name: "s" + strconv.Itoa(id), SpanContext: sc}.Snapshot()
}
