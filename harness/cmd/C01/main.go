// C01 harness: the real batch span processor (sdk/trace) driven through its public
// API against a gate exporter; observations are written as Coq cases for C01/Corr.v.
//
// main.go  recorder, gate exporter, drop-counter sink, span source, Coq emitter, main
// det.go   deterministic fragment (single driver goroutine, op lists)
// free.go  free-running fragment (many goroutines, recorded histories)
package main

import (
	"bytes"
	"context"
	"errors"
	"fmt"
	"os"
	"runtime"
	"sort"
	"strconv"
	"strings"
	"sync"
	"sync/atomic"
	"time"

	"github.com/go-logr/logr"

	"go.opentelemetry.io/otel"
	sdktrace "go.opentelemetry.io/otel/sdk/trace"
	"go.opentelemetry.io/otel/sdk/trace/tracetest"
	"go.opentelemetry.io/otel/trace"

	"verif/harness/vgen"
)

// ---------------------------------------------------------------------------
// events and recorder
// ---------------------------------------------------------------------------

const (
	opEnd = iota
	opFlush
	opShutdown
)

const (
	rNil = iota
	rCtx
	rOther
)

const (
	evCall = iota
	evRet
	evBegin
	evEnd
	evExpShutdown
	evDrop
)

type event struct {
	kind    int
	t       int   // call id
	op      int   // opEnd / opFlush / opShutdown
	id      int   // span id (opEnd)
	smp     bool  // sampled (opEnd)
	ret     int   // rNil / rCtx / rOther
	expired bool  // the call's context was done at return
	batch   []int // evBegin
	d       int   // evBegin: drop counter read for the debug line (-1: not observed)
	ok      bool  // evEnd
}

// recorder assigns the global sequence number and stores the event under one lock,
// so the recorded order is the order of the sequence numbers.  Call events are
// recorded before the call is issued, Ret events after it returned.
type recorder struct {
	mu     sync.Mutex
	evs    []event
	nextT  int
	closed bool
	late   int // events that arrived after the history was taken
}

func (r *recorder) add(e event) {
	r.mu.Lock()
	if r.closed {
		r.late++
		if e.kind == evBegin {
			r.late += 1000
		}
	} else {
		r.evs = append(r.evs, e)
	}
	r.mu.Unlock()
}

func (r *recorder) newCall() int {
	r.mu.Lock()
	t := r.nextT
	r.nextT++
	r.mu.Unlock()
	return t
}

func (r *recorder) take() []event {
	r.mu.Lock()
	defer r.mu.Unlock()
	r.closed = true
	return append([]event(nil), r.evs...)
}

func classify(err error) int {
	switch {
	case err == nil:
		return rNil
	case errors.Is(err, context.Canceled) || errors.Is(err, context.DeadlineExceeded):
		return rCtx
	default:
		return rOther
	}
}

// ---------------------------------------------------------------------------
// drop counter: the "exporting spans" debug line of exportSpans carries
// total_dropped; it is emitted by the goroutine that calls ExportSpans right before
// the call, so it is paired with the export through the goroutine id.
// ---------------------------------------------------------------------------

func goid() uint64 {
	var b [64]byte
	n := runtime.Stack(b[:], false)
	s := b[:n]
	s = bytes.TrimPrefix(s, []byte("goroutine "))
	if i := bytes.IndexByte(s, ' '); i > 0 {
		id, _ := strconv.ParseUint(string(s[:i]), 10, 64)
		return id
	}
	return 0
}

type dropSink struct {
	m    sync.Map // goid -> int
	seen atomic.Int64
}

var sink = &dropSink{}

func (s *dropSink) Init(logr.RuntimeInfo)                  {}
func (s *dropSink) Enabled(level int) bool                 { return true }
func (s *dropSink) Error(error, string, ...interface{})    {}
func (s *dropSink) WithValues(...interface{}) logr.LogSink { return s }
func (s *dropSink) WithName(string) logr.LogSink           { return s }
func (s *dropSink) Info(level int, msg string, kv ...interface{}) {
	if msg != "exporting spans" {
		return
	}
	for i := 0; i+1 < len(kv); i += 2 {
		if k, ok := kv[i].(string); ok && k == "total_dropped" {
			v := -1
			switch x := kv[i+1].(type) {
			case uint32:
				v = int(x)
			case uint64:
				v = int(x)
			case int:
				v = x
			case int64:
				v = int(x)
			case uint:
				v = int(x)
			case int32:
				v = int(x)
			}
			if v >= 0 {
				s.m.Store(goid(), v)
				s.seen.Add(1)
			}
		}
	}
}

func (s *dropSink) takeForThisGoroutine() int {
	if v, ok := s.m.LoadAndDelete(goid()); ok {
		return v.(int)
	}
	return -1
}

// ---------------------------------------------------------------------------
// gate exporter
// ---------------------------------------------------------------------------

const (
	modeOK = iota
	modeErr
	modeBlock
)

var errGate = errors.New("gate: export failed")

type gate struct {
	rec *recorder

	mu       sync.Mutex
	cond     *sync.Cond
	mode     int
	release  chan struct{}
	entries  int
	exits    int
	inside   int
	maxIn    int
	sdCalls  int
	behave   func(ctx context.Context, n int) error // free-running: latency / failure / timeout
	okKind   int           // deterministic fragment, mode ok: 0 return nil; 1 sleep `slow` ignoring ctx (beyond the export timeout), then nil
	errKind  int           // mode err: 0 plain error; 1 context.DeadlineExceeded at once; 2 honour ctx: wait for ctx.Done(), return ctx.Err()
	slow     time.Duration
	nSpans   int // spans handed over so far
	perturb  func()
}

func newGate(rec *recorder) *gate {
	g := &gate{rec: rec, release: make(chan struct{})}
	g.cond = sync.NewCond(&g.mu)
	return g
}

func spanID(name string) int {
	if len(name) < 2 {
		return 999998
	}
	n, err := strconv.Atoi(name[1:])
	if err != nil || n < 0 {
		return 999998
	}
	return n
}

func (g *gate) ExportSpans(ctx context.Context, spans []sdktrace.ReadOnlySpan) error {
	d := sink.takeForThisGoroutine()
	b := make([]int, len(spans))
	for i, s := range spans {
		if s == nil {
			b[i] = 999999 // a cleared slot seen by the exporter: the batch was modified during the call
			continue
		}
		b[i] = spanID(s.Name())
	}
	g.mu.Lock()
	g.entries++
	g.inside++
	if g.inside > g.maxIn {
		g.maxIn = g.inside
	}
	mode, rel, okKind, errKind, slow := g.mode, g.release, g.okKind, g.errKind, g.slow
	g.nSpans += len(spans)
	g.rec.add(event{kind: evBegin, batch: b, d: d})
	g.cond.Broadcast()
	g.mu.Unlock()

	var err error
	switch {
	case g.behave != nil:
		err = g.behave(ctx, len(spans))
	case mode == modeErr:
		switch errKind {
		case 1:
			err = context.DeadlineExceeded
		case 2:
			if _, has := ctx.Deadline(); has {
				<-ctx.Done()
				err = ctx.Err()
			} else {
				err = errGate // no export timeout configured: do not wait forever
			}
		default:
			err = errGate
		}
	case mode == modeOK && okKind == 1:
		time.Sleep(slow) // ignores ctx and overruns the export timeout; the export still counts
	case mode == modeBlock:
		<-rel // ignores ctx on purpose: only the harness releases it
	}

	g.mu.Lock()
	g.inside--
	g.exits++
	g.rec.add(event{kind: evEnd, ok: err == nil})
	g.cond.Broadcast()
	g.mu.Unlock()
	return err
}

func (g *gate) Shutdown(ctx context.Context) error {
	g.mu.Lock()
	g.sdCalls++
	g.rec.add(event{kind: evExpShutdown})
	g.cond.Broadcast()
	g.mu.Unlock()
	return nil
}

func (g *gate) setMode(m int) {
	g.mu.Lock()
	g.mode = m
	g.mu.Unlock()
}

func (g *gate) setKinds(okKind, errKind int) {
	g.mu.Lock()
	g.okKind, g.errKind = okKind, errKind
	g.mu.Unlock()
}

// unblock releases a blocked export and makes following exports succeed.
func (g *gate) unblock() {
	g.mu.Lock()
	g.mode = modeOK
	close(g.release)
	g.release = make(chan struct{})
	g.mu.Unlock()
}

// waitFor waits until pred (evaluated under the gate lock) holds; false on timeout.
func (g *gate) waitFor(pred func() bool, d time.Duration) bool {
	deadline := time.Now().Add(d)
	stop := time.AfterFunc(d+10*time.Millisecond, func() { g.mu.Lock(); g.cond.Broadcast(); g.mu.Unlock() })
	defer stop.Stop()
	g.mu.Lock()
	defer g.mu.Unlock()
	for !pred() {
		if time.Now().After(deadline) {
			return false
		}
		g.cond.Wait()
	}
	return true
}

// ---------------------------------------------------------------------------
// span source: a TracerProvider whose sampler decides by span name
// ("s<k>" recorded and sampled, "u<k>" recorded only: reaches OnEnd, not sampled)
// ---------------------------------------------------------------------------

type nameSampler struct{}

func (nameSampler) ShouldSample(p sdktrace.SamplingParameters) sdktrace.SamplingResult {
	d := sdktrace.RecordAndSample
	if strings.HasPrefix(p.Name, "u") {
		d = sdktrace.RecordOnly
	}
	return sdktrace.SamplingResult{Decision: d, Tracestate: trace.SpanContextFromContext(p.ParentContext).TraceState()}
}
func (nameSampler) Description() string { return "by-name" }

type rig struct {
	rec    *recorder
	g      *gate
	bsp    sdktrace.SpanProcessor
	tp     *sdktrace.TracerProvider
	tracer trace.Tracer
}

type cfg struct {
	qcap, maxb int
	blocking   bool
}

type rigOpts struct {
	literalOpts bool // spell the options as a literal BatchSpanProcessorOption func setting the struct fields
	nilExporter bool // NewBatchSpanProcessor(nil)
}

func newRig(c cfg, batchTimeout, exportTimeout time.Duration) *rig {
	return newRigOpts(c, batchTimeout, exportTimeout, rigOpts{})
}

func newRigOpts(c cfg, batchTimeout, exportTimeout time.Duration, ro rigOpts) *rig {
	rec := &recorder{}
	g := newGate(rec)
	var opts []sdktrace.BatchSpanProcessorOption
	if ro.literalOpts {
		opts = append(opts, func(o *sdktrace.BatchSpanProcessorOptions) {
			o.MaxQueueSize, o.MaxExportBatchSize = c.qcap, c.maxb
			o.BatchTimeout, o.ExportTimeout = batchTimeout, exportTimeout
			o.BlockOnQueueFull = c.blocking
		})
	} else {
		opts = []sdktrace.BatchSpanProcessorOption{
			sdktrace.WithMaxQueueSize(c.qcap), sdktrace.WithMaxExportBatchSize(c.maxb),
			sdktrace.WithBatchTimeout(batchTimeout), sdktrace.WithExportTimeout(exportTimeout),
		}
		if c.blocking {
			opts = append(opts, sdktrace.WithBlocking())
		}
	}
	var exp sdktrace.SpanExporter = g
	if ro.nilExporter {
		exp = nil
	}
	bsp := sdktrace.NewBatchSpanProcessor(exp, opts...)
	tp := sdktrace.NewTracerProvider(sdktrace.WithSampler(nameSampler{}), sdktrace.WithSpanProcessor(bsp))
	return &rig{rec: rec, g: g, bsp: bsp, tp: tp, tracer: tp.Tracer("c01")}
}

// Flag bytes beyond the plain 0x01 / 0x00: "sampled" is the sampled BIT of the trace flags,
// whatever the other bits are (a child of a remote parent that carried W3C flags 0x03 keeps
// the parent's other bits).
var extraBits = []byte{0x00, 0x02, 0x80, 0xfe}

// flagsFor returns the flag byte a span gets for (sampled, variant): 0x01/0x03/0x81/0xff when
// sampled, 0x00/0x02/0x80/0xfe when not.
func flagsFor(smp bool, variant int) trace.TraceFlags {
	b := extraBits[variant%len(extraBits)]
	if smp {
		b |= 0x01
	}
	return trace.TraceFlags(b)
}

// end ends span id, logging Call before End/OnEnd is issued and Ret after it returned.
// variant chooses the flag byte (see flagsFor) and the path: variants 0..3 go through the
// TracerProvider (variant 0: a root span; 1..3: the child of a remote parent carrying the other
// flag bits, which the SDK copies), variants 4..7 hand a tracetest snapshot with that flag
// byte directly to OnEnd.
func (r *rig) end(id int, smp bool, variant int) {
	name := "s" + strconv.Itoa(id)
	if !smp {
		name = "u" + strconv.Itoa(id)
	}
	variant %= 8
	fl := flagsFor(smp, variant)
	tid := trace.TraceID{0xc0, 0x01, byte(id >> 8), byte(id), 1}
	sid := trace.SpanID{0xc0, 0x01, byte(id >> 8), byte(id), 2}
	if variant >= 4 {
		sc := trace.NewSpanContext(trace.SpanContextConfig{TraceID: tid, SpanID: sid, TraceFlags: fl})
		snap := tracetest.SpanStub{Name: name, SpanContext: sc}.Snapshot()
		t := r.rec.newCall()
		r.rec.add(event{kind: evCall, t: t, op: opEnd, id: id, smp: smp})
		r.bsp.OnStart(context.Background(), nil) // documented no-op
		r.bsp.OnEnd(snap)
		r.rec.add(event{kind: evRet, t: t, op: opEnd, id: id, smp: smp, ret: rNil})
		return
	}
	ctx := context.Background()
	if variant > 0 {
		// the sampler (by name) sets or clears the sampled bit; the other bits come from the parent
		parent := trace.NewSpanContext(trace.SpanContextConfig{TraceID: tid, SpanID: sid,
			TraceFlags: trace.TraceFlags(extraBits[variant]), Remote: true})
		ctx = trace.ContextWithRemoteSpanContext(ctx, parent)
	}
	_, sp := r.tracer.Start(ctx, name)
	if got := sp.SpanContext().TraceFlags(); got != fl {
		panic(fmt.Sprintf("harness: span %s has trace flags %#x, wanted %#x", name, byte(got), byte(fl)))
	}
	t := r.rec.newCall()
	r.rec.add(event{kind: evCall, t: t, op: opEnd, id: id, smp: smp})
	sp.End()
	r.rec.add(event{kind: evRet, t: t, op: opEnd, id: id, smp: smp, ret: rNil})
}

// callRet maps the returned error to the enum.  RCtx means "the caller's context ended": a
// context error handed back while the caller's context is still alive comes from the exporter
// (export timeout, or an exporter returning context.DeadlineExceeded) and is ROther.
func callRet(ctx context.Context, err error) (int, bool) {
	x := ctx.Err() != nil
	rv := classify(err)
	if rv == rCtx && !x {
		rv = rOther
	}
	return rv, x
}

// flush / shutdown: directly on the processor, or (via) through the TracerProvider.
func (r *rig) flush(ctx context.Context, via ...bool) int {
	t := r.rec.newCall()
	r.rec.add(event{kind: evCall, t: t, op: opFlush})
	var err error
	if len(via) > 0 && via[0] {
		err = r.tp.ForceFlush(ctx)
	} else {
		err = r.bsp.ForceFlush(ctx)
	}
	rv, x := callRet(ctx, err)
	r.rec.add(event{kind: evRet, t: t, op: opFlush, ret: rv, expired: x})
	return rv
}

func (r *rig) shutdown(ctx context.Context, via ...bool) int {
	t := r.rec.newCall()
	r.rec.add(event{kind: evCall, t: t, op: opShutdown})
	var err error
	if len(via) > 0 && via[0] {
		err = r.tp.Shutdown(ctx)
	} else {
		err = r.bsp.Shutdown(ctx)
	}
	rv, x := callRet(ctx, err)
	r.rec.add(event{kind: evRet, t: t, op: opShutdown, ret: rv, expired: x})
	return rv
}

// ---------------------------------------------------------------------------
// history -> Coq
// ---------------------------------------------------------------------------

// withDrops inserts the drop events the implementation does not expose: in
// non-blocking mode a sampled span whose End returned and that is in no exported batch
// of the completed history is recorded as dropped right before its Ret (the counter
// is incremented before OnEnd returns).  This is an inference of the harness: a span
// that was lost is indistinguishable from a dropped one here, and is caught by the
// drop-count clauses (the counter read at later exports), by blocking-mode runs and
// by the deterministic fragment instead.
func withDrops(c cfg, evs []event) []event {
	if c.blocking {
		return evs
	}
	exported := map[int]bool{}
	for _, e := range evs {
		if e.kind == evBegin {
			for _, i := range e.batch {
				exported[i] = true
			}
		}
	}
	out := make([]event, 0, len(evs)+8)
	for _, e := range evs {
		if e.kind == evRet && e.op == opEnd && e.smp && !exported[e.id] {
			out = append(out, event{kind: evDrop, id: e.id})
		}
		out = append(out, e)
	}
	return out
}

func coqRet(r int) string { return [...]string{"RNil", "RCtx", "ROther"}[r] }

func coqOp(e event) string {
	switch e.op {
	case opEnd:
		return "(oE " + strconv.Itoa(e.id) + " " + vgen.Bool(e.smp) + ")"
	case opFlush:
		return "OpFlush"
	}
	return "OpShutdown"
}

func coqIDs(b []int) string {
	s := make([]string, len(b))
	for i, x := range b {
		s[i] = strconv.Itoa(x)
	}
	return "[" + strings.Join(s, ";") + "]"
}

func dOr0(d int) int {
	if d < 0 {
		return 0
	}
	return d
}

func coqEvent(e event) string {
	switch e.kind {
	case evCall:
		return "eC " + strconv.Itoa(e.t) + " " + coqOp(e)
	case evRet:
		return "eR " + strconv.Itoa(e.t) + " " + coqOp(e) + " " + coqRet(e.ret) + " " + vgen.Bool(e.expired)
	case evBegin:
		return "eB " + coqIDs(e.batch) + " " + strconv.Itoa(dOr0(e.d))
	case evEnd:
		return "eE " + vgen.Bool(e.ok)
	case evExpShutdown:
		return "eS"
	}
	return "eD " + strconv.Itoa(e.id)
}

func coqHistory(evs []event) string {
	s := make([]string, len(evs))
	for i, e := range evs {
		s[i] = coqEvent(e)
	}
	return "[" + strings.Join(s, "; ") + "]"
}

func coqCfg(c cfg) string {
	return "(mkc " + strconv.Itoa(c.qcap) + " " + strconv.Itoa(c.maxb) + " " + vgen.Bool(c.blocking) + ")"
}

// dropsObserved: every export of the history was paired with a debug line.
func dropsObserved(evs []event) bool {
	for _, e := range evs {
		if e.kind == evBegin && e.d < 0 {
			return false
		}
	}
	return true
}

func descHistory(evs []event) []string {
	out := make([]string, 0, len(evs))
	for _, e := range evs {
		out = append(out, coqEvent(e))
	}
	return out
}

// ---------------------------------------------------------------------------

func main() {
	o := vgen.ParseFlags()
	r := vgen.NewRand(o.Seed)
	w := vgen.NewWriter(o.Out, "C01.Types C01.Model C01.Spec C01.Corr", "case", 96)
	w.Rule = "deterministic fragment: op lists (End sampled/unsampled, ForceFlush/Shutdown with live, cancelled and expiring contexts, gate exporter ok/err/block/unblock) over qcap 1..8, maxBatch 1..qcap+2, both queue modes, " +
		"run on the real processor by one driver goroutine and compared with the model under the eager-worker schedule (returns, exported batches, drop counter); " +
		"every program varies what the model does not see: span flag bytes (0x01/0x03/0x81/0xff vs 0x00/0x02/0x80/0xfe), End through the TracerProvider (root / child of a remote parent) or a tracetest snapshot handed to OnStart+OnEnd, ForceFlush/Shutdown on the processor or through the provider, options as With* or a literal option func, ExportTimeout 1h / 0 / 3ms with exporter flavours (plain error, context.DeadlineExceeded, honours ctx until the export timeout fires, sleeps through it); " +
		"timer programs (BatchTimeout 1-2 ms, DWait) and flush-without-marker programs (helper goroutine left behind) are judged one-sidedly (CDetT: concatenation of batches, returns, spec_ok); NewBatchSpanProcessor(nil) scenarios are judged directly; " +
		"free-running fragment: 2-16 producers x flushers x shutdown with random latency/failures/timeouts, recorded history judged by spec_ok; " +
		"non-trivial = at least one export happened and (deterministic) the program contains a flush, a block or a drop, (free-running) a flush or shutdown returned nil under the guards"

	otel.SetLogger(logr.New(sink))
	otel.SetErrorHandler(otel.ErrorHandlerFunc(func(error) {}))

	nDet := o.Count(300, 5000)
	nFree := o.Count(60, 2000)
	t0 := time.Now()
	runDet(w, r.Fork(), nDet)
	t1 := time.Now()
	runFree(w, r.Fork(), nFree)
	runStorms(w, r.Fork(), o.Count(8, 200))
	runMulti(w, r.Fork(), o.Count(8, 200))
	t2 := time.Now()
	w.Extra["det_s"] = t1.Sub(t0).Seconds()
	w.Extra["free_s"] = t2.Sub(t1).Seconds()
	w.Extra["drop_counter_lines_seen"] = sink.seen.Load()
	if err := w.Flush(); err != nil {
		fmt.Fprintln(os.Stderr, err)
		os.Exit(2)
	}
}

var _ = sort.Ints
