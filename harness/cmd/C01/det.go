package main

import (
	"context"
	"fmt"
	"strconv"
	"strings"
	"sync/atomic"
	"time"

	"verif/harness/vgen"
)

// ---------------------------------------------------------------------------
// Deterministic fragment.
//
// One driver goroutine, timers disabled (BatchTimeout = ExportTimeout = 1h), the gate
// exporter ok / failing / blocking.  The sequence of exported batches is then a
// function of the op list as long as no End can race the worker for the last queue
// slot; the generator below keeps an upper bound of the queue occupancy ("unk": items
// enqueued after the last item the worker is known to have consumed) and lets the queue
// overflow only while the worker is known to be inside a blocked ExportSpans call
// (then the occupancy is exact).  The small simulation here only steers generation and
// tells the driver how many export entries to wait for; the verdict is the Coq
// model's (Corr.run_det) and spec_ok's.
// ---------------------------------------------------------------------------

const (
	dEnd = iota
	dFlush
	dFlushX
	dFlushT
	dShutdown
	dShutdownX
	dMode
	dBlock
	dUnblock
	dWait
	dSleep  // (not an op of the model) the driver pauses well beyond ExportTimeout while an export is blocked
	// in an exporter that ignores its context: the export must still be the only one in progress
	dFlushH // ForceFlush whose context ends while its helper is inside a blocked ExportSpans: the call
	// returns, the export stays in flight holding batchMutex, the worker is free to receive spans
	dFlushF // ForceFlush whose marker cannot be queued (queue full, worker stuck) before its context ends:
	// it goes on to export without a marker; its helper goroutine outlives the call and exports later
)

type dop struct {
	kind int
	id   int
	smp  bool
	ok   bool // dMode
	var_ int  // dEnd: flag byte / path variant (see rig.end); not visible to the model
	via  bool // flush / shutdown through the TracerProvider instead of directly on the processor
	kind2 int // dMode: exporter flavour (ok: 1 = slow, ignores ctx beyond the export timeout; err: 1 = returns context.DeadlineExceeded, 2 = honours ctx until the export timeout fires)
	// filled by the simulation
	wantEntries int  // exporter entries expected to have begun after this op
	wantSpans   int  // timer programs: spans that must have been handed over once the batch timer has fired
	realTimeout bool // dShutdownX / dFlushT: use a real short timeout instead of a cancelled / lazily cancelled context
}

func (o dop) coq() string {
	switch o.kind {
	case dEnd:
		return "DEnd " + strconv.Itoa(o.id) + " " + vgen.Bool(o.smp)
	case dFlush:
		return "DFlush"
	case dFlushX:
		return "DFlushX"
	case dFlushF:
		return "DFlushF" // same call in the model; the queue is full, so the marker cannot be queued
	case dFlushT, dFlushH:
		return "DFlushT" // the marker is queued; the context ends at a later select
	case dShutdown:
		return "DShutdown"
	case dShutdownX:
		return "DShutdownX"
	case dMode:
		return "DMode " + vgen.Bool(o.ok)
	case dBlock:
		return "DBlock"
	case dWait:
		return "DWait"
	case dSleep:
		return ""
	}
	return "DUnblock"
}

const (
	kRun = iota
	kDrain
	kFin
)

type sim struct {
	c        cfg
	q        []int // span id, or -1 for a flush marker
	batch    int
	mode     int
	stuck    bool // worker inside a blocked ExportSpans
	cont     int
	drain    bool
	fin      bool
	stopped  bool // sync.Once entered (stopped flag set, stopCh closed)
	onceDone bool
	entries  int
	unk      int // items enqueued after the last item known to be consumed
	drops    int
	nid      int
	hstuck   bool // a flush helper is inside a blocked ExportSpans (holds batchMutex); the worker can receive one span and then waits
	loose    bool // a flush helper is left behind: batches may be cut earlier than predicted (judged as CDetT)
}

func (s *sim) export(k int) {
	if s.batch == 0 {
		return
	}
	s.entries++
	s.batch = 0
	if !s.loose {
		s.unk = len(s.q)
	}
	if s.mode == modeBlock {
		s.stuck = true
		s.cont = k
	}
}

func (s *sim) settle() {
	for !s.fin && !s.stuck && !s.hstuck {
		if !s.drain && s.stopped {
			s.drain = true
			continue
		}
		if len(s.q) > 0 {
			x := s.q[0]
			s.q = s.q[1:]
			if x < 0 {
				continue
			}
			s.batch++
			if s.batch >= s.c.maxb {
				if s.drain {
					s.export(kDrain)
				} else {
					s.export(kRun)
				}
			}
			continue
		}
		if s.drain {
			s.export(kFin)
			if !s.stuck {
				s.fin = true
			}
		}
		return
	}
}

func (s *sim) unblock() {
	s.mode = modeOK
	s.hstuck = false
	if s.stuck {
		s.stuck = false
		if s.cont == kFin {
			s.fin = true
		}
	}
	s.settle()
}

func (s *sim) enqueue(x int) bool {
	if len(s.q) < s.c.qcap {
		s.q = append(s.q, x)
		s.unk++
		return true
	}
	return false
}

// allowed says whether op kind k is deterministic (and cannot hang) in the current state.
func (s *sim) allowed(k int, smp bool) bool {
	switch k {
	case dEnd:
		if s.stopped || !smp {
			return true
		}
		if s.hstuck {
			// the worker may or may not have taken one span out of the queue yet: never fill it
			return len(s.q) < s.c.qcap && s.unk < s.c.qcap
		}
		if s.c.blocking {
			return !s.stuck || len(s.q) < s.c.qcap
		}
		return s.stuck || s.unk < s.c.qcap
	case dFlush:
		return s.stopped || (!s.stuck && s.mode != modeBlock)
	case dFlushX:
		return true
	case dFlushT:
		return s.stopped || (s.stuck && len(s.q) < s.c.qcap)
	case dFlushF:
		return !s.stopped && s.stuck && len(s.q) >= s.c.qcap
	case dSleep:
		return s.stuck || s.hstuck
	case dFlushH:
		// worker free, everything consumed, a non-empty batch below maxBatch, gate set to block
		return !s.stopped && !s.stuck && !s.hstuck && s.mode == modeBlock && s.batch > 0 && len(s.q) == 0
	case dShutdown:
		return s.onceDone || (!s.stuck && s.mode != modeBlock)
	case dShutdownX:
		return s.onceDone || (s.stuck && !s.hstuck)
	case dMode:
		return s.mode != modeBlock
	case dBlock:
		return s.mode != modeBlock && !s.fin && !s.loose
	case dUnblock:
		return s.mode == modeBlock
	}
	return false
}

func (s *sim) apply(o *dop) {
	switch o.kind {
	case dEnd:
		if !s.stopped && o.smp {
			s.settle()
			if !s.enqueue(o.id) {
				s.drops++
			}
			s.settle()
		}
	case dFlush:
		if !s.stopped {
			s.settle()
			s.enqueue(-1)
			s.settle()
			if s.batch > 0 {
				s.entries++
				s.batch = 0
			}
			s.unk = 0
		}
	case dFlushT:
		if !s.stopped {
			s.enqueue(-1)
		}
	case dFlushF:
		s.loose = true
	case dFlushH:
		// marker queued and consumed, helper exports the batch and blocks in the gate
		s.entries++
		s.batch = 0
		s.unk = 0
		s.hstuck = true
	case dShutdown:
		if !s.onceDone {
			s.stopped = true
			s.settle()
			s.onceDone = true
			s.unk = 0
		}
	case dShutdownX:
		if !s.onceDone {
			s.stopped = true
			s.onceDone = true
		}
	case dMode:
		if o.ok {
			s.mode = modeOK
		} else {
			s.mode = modeErr
		}
	case dBlock:
		s.mode = modeBlock
	case dUnblock:
		s.unblock()
	}
	o.wantEntries = s.entries
}

// genProgram draws an op list; every program ends with the gate released and a
// Shutdown(Background), so that the history is complete when the exporter's Shutdown
// has been called.
func genProgram(r *vgen.Rand, c cfg, n int) ([]dop, *sim) {
	s := &sim{c: c}
	var ops []dop
	push := func(o dop) {
		s.apply(&o)
		ops = append(ops, o)
	}
	blockBias := r.Intn(3) // 0: rarely block, 2: often
	for len(ops) < n {
		var o dop
		switch x := r.Intn(100); {
		case x < 58:
			o = dop{kind: dEnd, smp: !r.Chance(1, 8)}
		case x < 68:
			o = dop{kind: dFlush}
		case x < 71:
			o = dop{kind: dFlushX}
		case x < 77:
			o = dop{kind: dFlushT} // always the lazily cancelled context: whether the marker is queued must not depend on timing
		case x < 80:
			o = dop{kind: dShutdown}
		case x < 84:
			o = dop{kind: dShutdownX, realTimeout: r.Chance(1, 4)}
		case x < 88:
			o = dop{kind: dMode, ok: r.Bool()}
		case x < 90+4*blockBias:
			o = dop{kind: dBlock}
		default:
			o = dop{kind: dUnblock}
		}
		if (o.kind == dFlushT || o.kind == dFlush) && s.allowed(dFlushH, false) && r.Chance(2, 3) {
			o = dop{kind: dFlushH}
		}
		if o.kind == dFlushT && s.allowed(dFlushF, false) && r.Chance(2, 3) {
			o = dop{kind: dFlushF}
		}
		if s.loose && o.kind == dMode && !o.ok {
			continue // whether a later flush's own export is empty depends on when the left-behind helper ran
		}
		if !s.allowed(o.kind, o.smp) {
			// prefer an op that moves the state on rather than giving up
			if o.kind == dEnd && !s.stuck && s.allowed(dFlush, false) && r.Chance(1, 2) {
				o = dop{kind: dFlush}
			} else {
				continue
			}
		}
		if o.kind == dEnd {
			o.id = s.nid
			s.nid++
			if !r.Chance(1, 3) {
				o.var_ = r.Intn(8)
			}
		}
		// a burst while the worker is stuck: fill the queue to the brim and beyond
		push(o)
		if o.kind == dBlock && s.allowed(dFlushH, false) && r.Chance(1, 2) {
			// an export started by a flush helper stays in flight; spans keep arriving meanwhile
			push(dop{kind: dFlushH})
			for k := r.Range(1, c.qcap); k > 0 && s.allowed(dEnd, true); k-- {
				e := dop{kind: dEnd, smp: true, id: s.nid, var_: r.Intn(8)}
				s.nid++
				push(e)
			}
			continue
		}
		if o.kind == dBlock && r.Chance(2, 3) {
			// make the worker enter the blocked export now: End until a batch is cut
			for k := 0; k < c.maxb+c.qcap+2 && !s.stuck && len(ops) < n+12; k++ {
				e := dop{kind: dEnd, smp: true}
				if !s.allowed(dEnd, true) {
					break
				}
				e.id = s.nid
				e.var_ = r.Intn(8)
				s.nid++
				push(e)
			}
			if s.stuck && r.Chance(3, 4) {
				for k := r.Range(0, c.qcap+2); k > 0; k-- {
					e := dop{kind: dEnd, smp: !r.Chance(1, 10)}
					if !s.allowed(dEnd, e.smp) {
						break
					}
					e.id = s.nid
					e.var_ = r.Intn(8)
					s.nid++
					push(e)
				}
				if s.allowed(dFlushF, false) && r.Chance(1, 3) {
					push(dop{kind: dFlushF})
				}
			}
		}
	}
	if s.mode == modeBlock {
		push(dop{kind: dUnblock})
	}
	if !s.onceDone {
		push(dop{kind: dShutdown})
	}
	return ops, s
}

// lazyCtx is alive when the call starts and ends while the call waits: it is cancelled
// when Done() has been asked for the second time (the select after the marker was
// queued), with a timer as a fallback should the code ask differently.
type lazyCtx struct {
	context.Context
	cancel context.CancelFunc
	n      atomic.Int32
	at     int32 // cancelled when Done() is asked for the at-th time
}

func (c *lazyCtx) Done() <-chan struct{} {
	if c.n.Add(1) == c.at {
		c.cancel()
	}
	return c.Context.Done()
}

func newLazyCtx() *lazyCtx { return newLazyCtxAt(2) }

func newLazyCtxAt(at int32) *lazyCtx {
	ctx, cancel := context.WithTimeout(context.Background(), 300*time.Millisecond)
	return &lazyCtx{Context: ctx, cancel: cancel, at: at}
}

// Watchdog of one deterministic op (expected: well under a millisecond).  A mutated or
// broken implementation can make any call hang; the program is then abandoned and the
// case reported through the comparison with the model.  After several abandoned
// programs the watchdog is shortened so that the run stays within its budget.
var detWatchdog = 8 * time.Second

// timer programs: a 1-2 ms BatchTimeout is awaited for up to 5000x its value; not seeing the export is
// "inconclusive" (machine overloaded, or the timer path is broken - no clause of C01 is about timer liveness)
var timerWatchdog = 10 * time.Second
var timerMisses = 0
var detDesyncs = 0

type detResult struct {
	rets   []int
	evs    []event
	desync string
	inconclusive string // a timer-driven export was not seen within the (generous) watchdog: the program is cut there
	ops          []dop  // the ops actually executed (a timer program is cut at an unseen timer export and closed with a Shutdown)
}

// within runs f and reports whether it returned before the watchdog.
func within(d time.Duration, f func()) bool {
	done := make(chan struct{})
	go func() { f(); close(done) }()
	select {
	case <-done:
		return true
	case <-time.After(d):
		return false
	}
}

// detSetup: per-program settings outside the model's view.
type detSetup struct {
	batchTimeout  time.Duration // 1h (timers off) or a short real one (timer programs, judged loosely)
	exportTimeout time.Duration // 1h, 0 (no export deadline) or 3ms (fires against a slow / ctx-honouring exporter)
	literalOpts   bool
}

func (d detSetup) desc() string {
	return fmt.Sprintf("batchTimeout=%s exportTimeout=%s literalOptionFunc=%v", d.batchTimeout, d.exportTimeout, d.literalOpts)
}

func execProgram(c cfg, ops []dop, su detSetup) (res detResult) {
	rg := newRigOpts(c, su.batchTimeout, su.exportTimeout, rigOpts{literalOpts: su.literalOpts})
	g := rg.g
	g.slow = 2*su.exportTimeout + time.Millisecond
	wantSpans := 0
	for i := range ops {
		o := &ops[i]
		ret := -1
		wd := detWatchdog
		if o.kind == dWait {
			wd = timerWatchdog + 2*time.Second
		}
		returned := within(wd, func() {
			switch o.kind {
			case dEnd:
				rg.end(o.id, o.smp, o.var_)
			case dFlush:
				ret = rg.flush(context.Background(), o.via)
			case dFlushX:
				ctx, cancel := context.WithCancel(context.Background())
				cancel()
				ret = rg.flush(ctx, o.via)
			case dFlushT:
				ctx := newLazyCtx()
				ret = rg.flush(ctx)
				ctx.cancel()
			case dSleep:
				// One-sided: on a correct processor the blocked export pins the worker (or the helper)
				// however long this lasts; only a processor that gives up on the exporter moves on.
				time.Sleep(su.exportTimeout + 200*time.Millisecond)
			case dFlushH:
				// alive until the third select (wait for the helper): the helper is then in, or on its
				// way into, the blocked ExportSpans; its result cannot arrive before the context ends
				ctx := newLazyCtxAt(3)
				ret = rg.flush(ctx)
				ctx.cancel()
			case dFlushF:
				// alive at the entry check, done at the first select (the send cannot proceed: queue full, worker stuck)
				ctx := newLazyCtxAt(1)
				ret = rg.flush(ctx)
				ctx.cancel()
			case dShutdown:
				ret = rg.shutdown(context.Background(), o.via)
			case dShutdownX:
				if o.realTimeout {
					ctx, cancel := context.WithTimeout(context.Background(), 50*time.Millisecond)
					ret = rg.shutdown(ctx, o.via)
					cancel()
				} else {
					ctx, cancel := context.WithCancel(context.Background())
					cancel()
					ret = rg.shutdown(ctx, o.via)
				}
			case dMode:
				if o.ok {
					g.setKinds(o.kind2, 0)
					g.setMode(modeOK)
				} else {
					g.setKinds(0, o.kind2)
					g.setMode(modeErr)
				}
			case dWait:
				// one-sided: wait until the timer-driven exports have happened; never judged by time
				want := wantSpans
				if !g.waitFor(func() bool { return g.nSpans >= want }, timerWatchdog) {
					res.inconclusive = fmt.Sprintf("op %d (DWait): %d spans expected from timer-driven exports, %d seen within %s", i, want, g.nSpans, timerWatchdog)
				}
			case dBlock:
				g.setMode(modeBlock)
			case dUnblock:
				g.unblock()
			}
		})
		if !returned {
			res.desync = fmt.Sprintf("op %d (%s) did not return within %s", i, o.coq(), detWatchdog)
			break
		}
		if res.inconclusive != "" {
			timerMisses++
			if timerMisses >= 2 {
				timerWatchdog = 200 * time.Millisecond
			}
			cutOps := append([]dop(nil), ops[:i+1]...)
			stopped := false
			for _, q := range cutOps {
				if q.kind == dShutdown {
					stopped = true
				}
			}
			if !stopped {
				fin := dop{kind: dShutdown}
				var rv int
				if !within(detWatchdog, func() { rv = rg.shutdown(context.Background()) }) {
					res.desync = "the closing Shutdown of a cut timer program did not return"
				} else {
					res.rets = append(res.rets, rv)
				}
				cutOps = append(cutOps, fin)
			}
			ops = cutOps
			break
		}
		wantSpans = o.wantSpans
		if ret >= 0 {
			res.rets = append(res.rets, ret)
		}
		want := o.wantEntries
		if !g.waitFor(func() bool { return g.entries >= want }, detWatchdog) {
			res.desync = fmt.Sprintf("after op %d (%s): %d export entries expected, %d seen", i, o.coq(), want, g.entries)
			break
		}
	}
	// Nothing is claimed about WHEN the timer fires: a timer program whose timer export was not seen is cut
	// there and closed by a Shutdown (above); the executed ops are what the model is run on.
	res.ops = ops
	if res.desync != "" {
		// get the processor out of the way; the case is reported through the comparison
		g.unblock()
		within(detWatchdog, func() {
			ctx, cancel := context.WithTimeout(context.Background(), 300*time.Millisecond)
			rg.bsp.Shutdown(ctx)
			cancel()
		})
		g.unblock()
	}
	wd := detWatchdog
	if res.desync != "" {
		wd = 300 * time.Millisecond
	}
	if !g.waitFor(func() bool { return g.sdCalls >= 1 && g.inside == 0 }, wd) && res.desync == "" {
		res.desync = "the exporter's Shutdown was not called after the final Shutdown"
	}
	if res.desync != "" {
		detDesyncs++
		if detDesyncs >= 6 {
			detWatchdog = 300 * time.Millisecond
		}
	}
	time.Sleep(200 * time.Microsecond)
	res.evs = rg.rec.take()
	return res
}

func emitDet(w *vgen.Writer, c cfg, ops []dop, su detSetup, res detResult, kind string) {
	if res.inconclusive != "" {
		w.Tally("det:timer-export-not-seen(program cut)")
	}
	if res.ops != nil {
		ops = res.ops
	}
	evs := withDrops(c, res.evs)
	dobs := dropsObserved(evs)
	var opsS, retsS, bs []string
	nsd, nexp, ndrop := 0, 0, 0
	var flagsS []string
	for _, o := range ops {
		if o.kind == dSleep {
			w.Tally("det:pause-beyond-export-timeout")
			continue
		}
		opsS = append(opsS, o.coq())
		if o.kind == dEnd {
			path := "provider"
			if o.var_%8 >= 4 {
				path = "OnEnd(snapshot)"
			}
			flagsS = append(flagsS, fmt.Sprintf("%d:%#02x:%s", o.id, byte(flagsFor(o.smp, o.var_)), path))
			w.Tally(fmt.Sprintf("det:flags=%#02x", byte(flagsFor(o.smp, o.var_))))
		}
	}
	for _, r := range res.rets {
		retsS = append(retsS, coqRet(r))
	}
	for _, e := range evs {
		switch e.kind {
		case evBegin:
			bs = append(bs, "bD "+coqIDs(e.batch)+" "+strconv.Itoa(dOr0(e.d)))
			nexp++
		case evExpShutdown:
			nsd++
		case evDrop:
			ndrop++
		}
	}
	term := vgen.App("CDet", coqCfg(c), vgen.Bool(dobs), "["+strings.Join(opsS, "; ")+"]",
		"["+strings.Join(retsS, "; ")+"]", "["+strings.Join(bs, "; ")+"]", strconv.Itoa(nsd), coqHistory(evs))
	hasF := false
	for _, o := range ops {
		if o.kind == dFlushH {
			w.Tally("det:arrival-during-helper-export")
		}
		if o.kind == dFlushF {
			hasF = true
			w.Tally("det:flush-without-marker")
		}
	}
	if su.batchTimeout < time.Second || hasF {
		var all []int
		for _, e := range evs {
			if e.kind == evBegin {
				all = append(all, e.batch...)
			}
		}
		term = vgen.App("CDetT", coqCfg(c), vgen.Bool(dobs), "["+strings.Join(opsS, "; ")+"]",
			"["+strings.Join(retsS, "; ")+"]", coqIDs(all), strconv.Itoa(nsd), coqHistory(evs))
	}
	var details []string
	for i, o := range ops {
		if o.via {
			details = append(details, fmt.Sprintf("op%d:via-provider", i))
			w.Tally("det:via-provider")
		}
		if o.kind == dMode && o.kind2 != 0 {
			details = append(details, fmt.Sprintf("op%d:exporter-flavour-%v-%d", i, o.ok, o.kind2))
			w.Tally(fmt.Sprintf("det:exporter-flavour ok=%v kind=%d", o.ok, o.kind2))
		}
	}
	w.Tally("det:exportTimeout=" + su.exportTimeout.String())
	desc := map[string]any{"fragment": "deterministic", "qcap": c.qcap, "maxBatch": c.maxb, "blocking": c.blocking,
		"setup": su.desc(), "details": details,
		"ops": opsS, "span_flags": flagsS, "returns": retsS, "batches": bs, "history": descHistory(evs)}
	if res.desync != "" {
		desc["desync"] = res.desync
		w.Tally("det:desync")
	}
	interesting := false
	for _, o := range ops {
		switch o.kind {
		case dFlush, dFlushT, dBlock, dShutdownX:
			interesting = true
		}
	}
	w.Tally(fmt.Sprintf("det:qcap=%d", c.qcap))
	w.Tally(fmt.Sprintf("det:blocking=%v", c.blocking))
	w.Tally(fmt.Sprintf("det:exports=%d", min(nexp, 8)))
	if ndrop > 0 {
		w.Tally("det:with-drops")
	}
	w.Add(term, desc, kind, nexp > 0 && (interesting || ndrop > 0))
}

func runDet(w *vgen.Writer, r *vgen.Rand, n int) {
	guard := func(desc any, f func()) {
		defer func() {
			if e := recover(); e != nil {
				w.Violation(fmt.Sprintf("panic: %v", e), desc)
			}
		}()
		f()
	}
	runOne := func(c cfg, ops []dop, su detSetup, kind string) {
		desc := map[string]any{"fragment": "deterministic", "cfg": fmt.Sprint(c), "setup": su.desc()}
		guard(desc, func() {
			res := execProgram(c, ops, su)
			emitDet(w, c, ops, su, res, kind)
		})
	}
	plain := detSetup{batchTimeout: time.Hour, exportTimeout: time.Hour}
	// fixed corpus, run first on every run
	for k, p := range corpusPrograms() {
		s := &sim{c: p.c}
		ops := append([]dop(nil), p.ops...)
		for i := range ops {
			if ops[i].kind == dEnd {
				ops[i].id = s.nid
				ops[i].var_ = (s.nid*3 + len(p.ops)) % 8
				s.nid++
			}
			if ops[i].kind == dFlush || ops[i].kind == dShutdown || ops[i].kind == dShutdownX {
				ops[i].via = (i+k)%3 == 0
			}
			if !s.allowed(ops[i].kind, ops[i].smp) {
				panic("corpus program is not deterministic: " + p.name)
			}
			s.apply(&ops[i])
		}
		su := plain
		su.literalOpts = k%2 == 1
		if p.et > 0 {
			su.exportTimeout = p.et
		}
		runOne(p.c, ops, su, "det-corpus")
	}
	for i := 0; i < n; i++ {
		qc := r.Range(1, 8)
		c := cfg{qcap: qc, maxb: r.Range(1, qc+2), blocking: r.Chance(2, 5)}
		su := plain
		switch r.Intn(20) {
		case 0, 1, 2:
			su.exportTimeout = 0 // no deadline on the export context
		case 3, 4, 5, 6, 7:
			su.exportTimeout = 3 * time.Millisecond // fires against slow / ctx-honouring exporter flavours
		}
		su.literalOpts = r.Chance(1, 4)
		ops, _ := genProgram(r, c, r.Range(4, 26))
		decorate(r, ops, su)
		runOne(c, ops, su, "det")
	}
	// short real BatchTimeout: the timer path of processQueue, judged one-sidedly (CDetT)
	nT := n / 6
	for i := 0; i < nT; i++ {
		qc := r.Range(1, 8)
		c := cfg{qcap: qc, maxb: r.Range(1, qc+2), blocking: r.Chance(2, 5)}
		su := detSetup{batchTimeout: time.Duration(r.Range(1, 2)) * time.Millisecond, exportTimeout: time.Hour, literalOpts: r.Chance(1, 4)}
		if r.Chance(1, 4) {
			su.exportTimeout = 3 * time.Millisecond
		}
		ops := genTimerProgram(r, c, r.Range(4, 18), su)
		runOne(c, ops, su, "det-timer")
	}
	runNilExporter(w, r, max(3, n/60))
}

// decorate adds what the model does not see: which entry point a ForceFlush / Shutdown uses and the
// flavour of the exporter's ok / err answers.
func decorate(r *vgen.Rand, ops []dop, su detSetup) {
	short := su.exportTimeout > 0 && su.exportTimeout < time.Second
	// Once the PROVIDER has been shut down it has no processors left and its ForceFlush returns nil
	// without looking at the context, where the processor's own ForceFlush reports the cancelled
	// context; C01 does not constrain that return, so such calls stay on the processor.
	provDown := false
	for i := range ops {
		o := &ops[i]
		switch o.kind {
		case dFlush, dFlushX, dShutdown, dShutdownX:
			o.via = r.Chance(1, 3)
			if o.kind == dFlushX && provDown {
				o.via = false
			}
			if o.via && (o.kind == dShutdown || o.kind == dShutdownX) {
				provDown = true
			}
		case dMode:
			if o.ok {
				if short && r.Chance(1, 2) {
					o.kind2 = 1
				}
			} else {
				switch x := r.Intn(4); {
				case x == 0:
					o.kind2 = 1
				case x == 1 && short:
					o.kind2 = 2
				}
			}
		}
	}
}

// genTimerProgram: no blocking gate and no failing exporter (whether a flush's own export is empty
// depends on where the timer cut), bursts bounded so that no End can find the queue full.
func genTimerProgram(r *vgen.Rand, c cfg, n int, su detSetup) []dop {
	var ops []dop
	nid, unk, want := 0, 0, 0
	stopped, provDown := false, false
	add := func(o dop) {
		o.wantSpans = want
		ops = append(ops, o)
	}
	if su.exportTimeout < time.Second && r.Bool() {
		add(dop{kind: dMode, ok: true, kind2: 1})
	}
	for len(ops) < n {
		switch x := r.Intn(100); {
		case x < 55:
			smp := !r.Chance(1, 8)
			if !stopped && smp {
				if !c.blocking && unk >= c.qcap {
					continue
				}
				unk++
				want++
			}
			add(dop{kind: dEnd, id: nid, smp: smp, var_: r.Intn(8)})
			nid++
		case x < 80:
			if stopped {
				continue
			}
			unk = 0
			add(dop{kind: dWait})
		case x < 90:
			unk = 0
			add(dop{kind: dFlush, via: r.Chance(1, 3)})
		case x < 94:
			add(dop{kind: dFlushX, via: !provDown && r.Chance(1, 3)})
		default:
			stopped = true
			unk = 0
			via := r.Chance(1, 3)
			provDown = provDown || via
			add(dop{kind: dShutdown, via: via})
		}
	}
	if !stopped {
		add(dop{kind: dShutdown})
	}
	return ops
}

// runNilExporter: NewBatchSpanProcessor(nil) "performs no action": Ends, ForceFlush and Shutdown return
// (nil) without panicking.  Judged directly (there is no exporter to observe and no model of this mode).
func runNilExporter(w *vgen.Writer, r *vgen.Rand, n int) {
	for i := 0; i < n; i++ {
		qc := r.Range(1, 4)
		c := cfg{qcap: qc, maxb: r.Range(1, qc+1), blocking: r.Bool()}
		desc := map[string]any{"fragment": "nil exporter", "cfg": fmt.Sprint(c)}
		func() {
			defer func() {
				if e := recover(); e != nil {
					w.Violation(fmt.Sprintf("nil exporter: panic: %v", e), desc)
				}
			}()
			rg := newRigOpts(c, time.Millisecond, time.Hour, rigOpts{nilExporter: true, literalOpts: r.Bool()})
			bad := ""
			ok := within(timerWatchdog, func() {
				for k := 0; k < qc+3; k++ { // more Ends than the queue holds: nothing may be queued (or block)
					rg.end(k, true, r.Intn(8))
				}
				if rv := rg.flush(context.Background(), r.Bool()); rv != rNil {
					bad = "ForceFlush returned an error"
				}
				rg.end(100, true, 4)
				if rv := rg.shutdown(context.Background(), r.Bool()); rv != rNil {
					bad = "Shutdown returned an error"
				}
				rg.end(101, true, 5)
				if rv := rg.flush(context.Background()); rv != rNil {
					bad = "ForceFlush after Shutdown returned an error"
				}
				if rv := rg.shutdown(context.Background()); rv != rNil {
					bad = "second Shutdown returned an error"
				}
			})
			switch {
			case !ok:
				w.Tally("nilexp:inconclusive-timeout")
			case bad != "":
				w.Violation("nil exporter: "+bad, desc)
			default:
				w.Tally("nilexp:ok")
			}
		}()
	}
}

type corpusProgram struct {
	name string
	c    cfg
	ops  []dop
	et   time.Duration // ExportTimeout (0: the default 1h of the deterministic fragment)
}

func corpusPrograms() []corpusProgram {
	E := dop{kind: dEnd, smp: true}
	U := dop{kind: dEnd, smp: false}
	return []corpusProgram{
		// F-C01-1 (a)+(b): the exporter blocks, Shutdown gives up on its context, a second
		// Shutdown(Background) and a ForceFlush(Background) return nil with a span still queued
		{"F-C01-1 cancelled", cfg{4, 1, false}, []dop{{kind: dBlock}, E, E, {kind: dShutdownX}, {kind: dShutdown}, {kind: dFlush}, {kind: dUnblock}}, 0},
		{"F-C01-1 50ms", cfg{4, 1, false}, []dop{{kind: dBlock}, E, E, {kind: dShutdownX, realTimeout: true}, {kind: dShutdown}, {kind: dUnblock}}, 0},
		{"F-C01-1 flush only", cfg{2, 2, true}, []dop{{kind: dBlock}, E, E, E, {kind: dShutdownX}, {kind: dFlush}, {kind: dUnblock}}, 0},
		// overflow while the worker is stuck: drops are counted, later batches carry the counter
		{"drops", cfg{2, 1, false}, []dop{{kind: dBlock}, E, E, E, E, E, {kind: dUnblock}, E, {kind: dFlush}, {kind: dShutdown}}, 0},
		// failed exports still clear the batch
		{"failed export", cfg{4, 2, false}, []dop{{kind: dMode, ok: false}, E, E, E, {kind: dFlush}, {kind: dMode, ok: true}, E, {kind: dFlush}, {kind: dShutdown}}, 0},
		// batch cut exactly at maxBatch, remainder on flush, unsampled spans skipped
		{"cut", cfg{8, 3, false}, []dop{E, E, U, E, E, {kind: dFlush}, E, {kind: dShutdown}}, 0},
		// marker left in the queue by a flush whose context ended, drained later
		{"stale marker", cfg{3, 2, false}, []dop{{kind: dBlock}, E, E, E, {kind: dFlushT}, E, {kind: dUnblock}, {kind: dFlush}, {kind: dShutdown}}, 0},
		// nothing after shutdown
		{"after shutdown", cfg{2, 2, false}, []dop{E, {kind: dShutdown}, E, {kind: dFlush}, {kind: dShutdown}}, 0},
		// a span arrives while an export started by a ForceFlush helper is still in flight (the caller's
		// context ended, the exporter is slow): the worker receives it and must wait for batchMutex;
		// it is exported afterwards, exactly once
		{"arrival during a flush helper's export", cfg{2, 3, false}, []dop{E, {kind: dBlock}, {kind: dFlushH}, E, {kind: dUnblock}, {kind: dFlush}, {kind: dShutdown}}, 0},
		{"arrivals during a flush helper's export, blocking queue", cfg{3, 4, true}, []dop{E, E, {kind: dBlock}, {kind: dFlushH}, E, E, {kind: dUnblock}, E, {kind: dShutdown}}, 0},
		// the exporter ignores its context and overruns a 3 ms ExportTimeout by far while the next batch is
		// already due (queue holds a full batch): the processor must not start a second ExportSpans
		{name: "exporter overruns the export timeout, next batch due", c: cfg{4, 2, false}, et: 3 * time.Millisecond,
			ops: []dop{{kind: dBlock}, E, E, E, E, {kind: dSleep}, E, {kind: dUnblock}, {kind: dFlush}, {kind: dShutdown}}},
		{name: "flush helper's export overruns the export timeout", c: cfg{3, 3, true}, et: 3 * time.Millisecond,
			ops: []dop{E, {kind: dBlock}, {kind: dFlushH}, E, E, {kind: dSleep}, {kind: dUnblock}, E, {kind: dShutdown}}},
		// drain cuts at maxBatch and makes the final export
		{"drain", cfg{5, 2, true}, []dop{{kind: dBlock}, E, E, E, E, E, E, E, {kind: dShutdownX}, {kind: dUnblock}}, 0},
	}
}
