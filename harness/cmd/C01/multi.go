package main

import (
	"context"
	"fmt"
	"strconv"
	"sync"
	"time"

	sdktrace "go.opentelemetry.io/otel/sdk/trace"

	"verif/harness/vgen"
)

// ---------------------------------------------------------------------------
// Several registered processors: span.End snapshots once and calls OnEnd of EVERY registered
// processor.  A user processor whose OnEnd can be held is registered beside two batch processors; while
// one End is held inside it, a processor registered before the batch processors is unregistered, then
// the End is released.  Each batch processor must still have been handed every sampled span exactly
// once: each one's history (the shared End calls + its own ForceFlush / Shutdown / exporter events) is
// judged by spec_ok on its own (blocking queue: nothing may be dropped, so no drop inference).
// Orchestrated with channels only; a step that does not happen within the watchdog makes the scenario
// inconclusive.
// ---------------------------------------------------------------------------

type holdProcessor struct {
	mu      sync.Mutex
	armed   bool
	entered chan struct{}
	release chan struct{}
}

func (h *holdProcessor) OnStart(context.Context, sdktrace.ReadWriteSpan) {}
func (h *holdProcessor) OnEnd(sdktrace.ReadOnlySpan) {
	h.mu.Lock()
	armed := h.armed
	h.armed = false
	h.mu.Unlock()
	if armed {
		close(h.entered)
		<-h.release
	}
}
func (h *holdProcessor) Shutdown(context.Context) error   { return nil }
func (h *holdProcessor) ForceFlush(context.Context) error { return nil }

func runMulti(w *vgen.Writer, r *vgen.Rand, n int) {
	for i := 0; i < n; i++ {
		qc := r.Range(4, 8)
		c := cfg{qcap: qc, maxb: r.Range(1, qc), blocking: true}
		holdPos := r.Intn(2)     // 0: [hold, b1, b2]   1: [b1, hold, b2]
		extra := r.Intn(2) == 0  // a second user processor in front: [x, hold, b1, b2] / [x, b1, hold, b2]
		unregFirst := extra && r.Bool() // unregister x (in front of everything) instead of the holder
		before, after := r.Range(0, 3), r.Range(0, 3)
		desc := map[string]any{"fragment": "several processors", "qcap": c.qcap, "maxBatch": c.maxb,
			"holderPosition": holdPos, "extraUserProcessor": extra, "unregisterTheExtraOne": unregFirst}
		func() {
			defer func() {
				if e := recover(); e != nil {
					w.Violation(fmt.Sprintf("panic: %v", e), desc)
				}
			}()
			rec := [2]*recorder{{}, {}}
			var g [2]*gate
			var bsp [2]sdktrace.SpanProcessor
			for k := range g {
				g[k] = newGate(rec[k])
				bsp[k] = sdktrace.NewBatchSpanProcessor(g[k], sdktrace.WithMaxQueueSize(c.qcap), sdktrace.WithMaxExportBatchSize(c.maxb),
					sdktrace.WithBatchTimeout(time.Hour), sdktrace.WithExportTimeout(time.Hour), sdktrace.WithBlocking())
			}
			hold := &holdProcessor{entered: make(chan struct{}), release: make(chan struct{})}
			x := &holdProcessor{}
			var procs []sdktrace.SpanProcessor
			if extra {
				procs = append(procs, x)
			}
			if holdPos == 0 {
				procs = append(procs, hold, bsp[0], bsp[1])
			} else {
				procs = append(procs, bsp[0], hold, bsp[1])
			}
			opts := []sdktrace.TracerProviderOption{sdktrace.WithSampler(nameSampler{})}
			for _, p := range procs {
				opts = append(opts, sdktrace.WithSpanProcessor(p))
			}
			tp := sdktrace.NewTracerProvider(opts...)
			tracer := tp.Tracer("c01-multi")
			nextT := 0
			both := func(e event) {
				rec[0].add(e)
				rec[1].add(e)
			}
			end := func(id int) {
				_, sp := tracer.Start(context.Background(), "s"+strconv.Itoa(id))
				t := nextT
				nextT++
				both(event{kind: evCall, t: t, op: opEnd, id: id, smp: true})
				sp.End()
				both(event{kind: evRet, t: t, op: opEnd, id: id, smp: true, ret: rNil})
			}
			id := 0
			inconclusive := ""
			ok := within(freeWatchdog, func() {
				for k := 0; k < before; k++ {
					end(id)
					id++
				}
				hold.mu.Lock()
				hold.armed = true
				hold.mu.Unlock()
				held := id
				id++
				done := make(chan struct{})
				_, sp := tracer.Start(context.Background(), "s"+strconv.Itoa(held))
				tHeld := nextT
				nextT++
				both(event{kind: evCall, t: tHeld, op: opEnd, id: held, smp: true})
				go func() { sp.End(); close(done) }()
				select {
				case <-hold.entered:
				case <-time.After(freeWatchdog / 2):
					inconclusive = "the held End did not reach the holding processor"
					close(hold.release)
					return
				}
				// the End is inside the holder's OnEnd, i.e. in the middle of its loop over the processors
				if unregFirst {
					tp.UnregisterSpanProcessor(x)
				} else {
					tp.UnregisterSpanProcessor(hold)
				}
				close(hold.release)
				<-done
				both(event{kind: evRet, t: tHeld, op: opEnd, id: held, smp: true, ret: rNil})
				for k := 0; k < after; k++ {
					end(id)
					id++
				}
				for k := range bsp {
					t := nextT
					nextT++
					rec[k].add(event{kind: evCall, t: t, op: opFlush})
					rv, xp := callRet(context.Background(), bsp[k].ForceFlush(context.Background()))
					rec[k].add(event{kind: evRet, t: t, op: opFlush, ret: rv, expired: xp})
				}
				for k := range bsp {
					t := nextT
					nextT++
					rec[k].add(event{kind: evCall, t: t, op: opShutdown})
					rv, xp := callRet(context.Background(), bsp[k].Shutdown(context.Background()))
					rec[k].add(event{kind: evRet, t: t, op: opShutdown, ret: rv, expired: xp})
				}
			})
			if !ok || inconclusive != "" {
				w.Tally("multi:inconclusive")
				return
			}
			for k := range bsp {
				if !g[k].waitFor(func() bool { return g[k].sdCalls >= 1 && g[k].inside == 0 }, freeWatchdog) {
					w.Tally("multi:inconclusive")
					return
				}
			}
			for k := range bsp {
				evs := rec[k].take()
				d := map[string]any{}
				for a, b := range desc {
					d[a] = b
				}
				d["batchProcessor"] = k
				d["history"] = descHistory(evs)
				w.Tally("multi:run")
				w.Add(vgen.App("CFree", coqCfg(c), vgen.Bool(dropsObserved(evs)), coqHistory(evs)), d, "multi", true)
			}
		}()
	}
}
