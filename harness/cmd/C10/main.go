// C10 harness: one sdk/trace span shared by goroutines racing End, mutators,
// IsRecording and child Start; recorded histories are judged by the Coq
// specification, sequential programs are also compared with the Coq model.
package main

import (
	"bytes"
	"context"
	"errors"
	"flag"
	"fmt"
	"io"
	"os"
	"os/exec"
	"path/filepath"
	"runtime"
	rtrace "runtime/trace"
	"sort"
	"strconv"
	"strings"
	"sync"
	"sync/atomic"
	"time"

	"go.opentelemetry.io/otel/attribute"
	"github.com/go-logr/logr"
	"go.opentelemetry.io/otel"
	"go.opentelemetry.io/otel/codes"
	sdktrace "go.opentelemetry.io/otel/sdk/trace"
	"go.opentelemetry.io/otel/trace"

	"verif/harness/vgen"
)

// ---- operations ----

type opKind int

const (
	opEnd opKind = iota
	opAttr
	opEvent
	opRecErr
	opLink
	opName
	opStatus
	opChild
	opIsRec
	opEndPanic // defer span.End(); panic(v): End runs its recover() path (N=1: v.String() itself panics)
	opRecErrPanic // RecordError(err) where err.Error() panics; the caller recovers and goes on
	opNoop // a call that must leave nothing behind (V: which one, see noopNames)
)

type op struct {
	Kind opKind
	N    int // number of attributes for opAttr
	V    int // variant (spelling / options) of the same abstract operation, see doOpCI
}

var noopNames = []string{"SetAttributes()", "AddLink(Link{})", "RecordError(nil)", "SetStatus(Unset)", "all accessors", "SpanContext+TracerProvider"}

func (o op) coq() string {
	switch o.Kind {
	case opEnd, opEndPanic:
		return "OEnd"
	case opAttr:
		return "(MA " + strconv.Itoa(o.N) + ")"
	case opRecErrPanic, opNoop:
		return "(MA 0)" // leaves nothing behind
	case opEvent, opRecErr:
		return "ME"
	case opLink:
		return "ML"
	case opName:
		return "MN"
	case opStatus:
		return "MS"
	case opChild:
		return "OChild"
	}
	return "OIsRec"
}

func (o op) String() string {
	names := []string{"End", "SetAttributes", "AddEvent", "RecordError", "AddLink", "SetName", "SetStatus", "ChildStart", "IsRecording", "End(while panicking)", "RecordError(err whose Error() panics)"}
	switch {
	case o.Kind == opAttr:
		return fmt.Sprintf("SetAttributes(%d keys, variant %d)", o.N, o.V)
	case o.Kind == opNoop:
		return noopNames[o.V]
	case o.Kind == opStatus && o.V == 1:
		return "SetStatus(Ok)"
	case o.V != 0:
		return fmt.Sprintf("%s[variant %d]", names[o.Kind], o.V)
	}
	return names[o.Kind]
}

// ---- recording ----

var seq atomic.Int64

type snapObs struct {
	Parts    [][2]int // attributes sorted, then events in order, then links in order
	Name     int      // 0 = original, id+1
	Status   int
	ET       time.Time
	Children int
	Bad      string // anything that could not be attributed to a call
	Drop     [3]int // DroppedAttributes, DroppedEvents, DroppedLinks
}

type rec struct {
	Seq  int64
	Kind byte // 'C', 'R', 'O'
	T    int  // call id, or processor index for 'O'
	Op   op
	Ret  bool
	Snap *snapObs
}

// spanTrack is everything recorded about one tracked span.
type spanTrack struct {
	mu        sync.Mutex
	recs      []rec // OnEnd deliveries (processors append under mu)
	delivered []sdktrace.ReadOnlySpan
	live      sdktrace.ReadWriteSpan
}

type registry struct {
	mu    sync.RWMutex
	spans map[trace.SpanID]*spanTrack
}

func (r *registry) get(id trace.SpanID) *spanTrack {
	r.mu.RLock()
	defer r.mu.RUnlock()
	return r.spans[id]
}

type recProc struct {
	idx int
	reg *registry
}

// childInfo travels in the context of a child Start: the first processor to be told about the child
// stamps the announcement, then dawdles so that other goroutines run inside the child's Start.
type childKey struct{}
type childInfo struct {
	ann   atomic.Int64
	delay int          // 0 none, 1..3 yields, >3 sleep that many microseconds
	flag  *atomic.Bool // optional gate: set at the announcement
}

func (p *recProc) OnStart(ctx context.Context, _ sdktrace.ReadWriteSpan) {
	ci, _ := ctx.Value(childKey{}).(*childInfo)
	if ci == nil {
		return
	}
	if ci.ann.CompareAndSwap(0, seq.Add(1)) {
		if ci.flag != nil {
			ci.flag.Store(true)
		}
		switch {
		case ci.delay == 0:
		case ci.delay <= 3:
			for i := 0; i < ci.delay; i++ {
				runtime.Gosched()
			}
		default:
			time.Sleep(time.Duration(ci.delay) * time.Microsecond)
		}
	}
}

func (p *recProc) OnEnd(s sdktrace.ReadOnlySpan) {
	n := seq.Add(1)
	st := p.reg.get(s.SpanContext().SpanID())
	if st == nil {
		return // a child span
	}
	ob := observe(s)
	st.mu.Lock()
	st.recs = append(st.recs, rec{Seq: n, Kind: 'O', T: p.idx, Snap: ob})
	st.delivered = append(st.delivered, s)
	st.mu.Unlock()
}
func (p *recProc) Shutdown(context.Context) error   { return nil }
func (p *recProc) ForceFlush(context.Context) error { return nil }

func parseID(s, prefix string) (int, bool) {
	if !strings.HasPrefix(s, prefix) {
		return 0, false
	}
	v, err := strconv.Atoi(s[len(prefix):])
	return v, err == nil
}

// observe reads everything the property talks about from a ReadOnlySpan.
func observe(s sdktrace.ReadOnlySpan) *snapObs {
	ob := &snapObs{ET: s.EndTime(), Children: s.ChildSpanCount(), Drop: [3]int{s.DroppedAttributes(), s.DroppedEvents(), s.DroppedLinks()}}
	if !s.SpanContext().IsValid() || s.Parent().IsValid() || s.SpanKind() != trace.SpanKindInternal || s.InstrumentationScope().Name != "c10" ||
		s.StartTime().IsZero() || s.Resource() == nil {
		ob.Bad += "identity accessors (SpanContext/Parent/SpanKind/InstrumentationScope/StartTime/Resource);"
	}
	var attrs [][2]int
	for _, kv := range s.Attributes() {
		k := string(kv.Key) // "a<m>_<k>"
		i := strings.IndexByte(k, '_')
		m, ok1 := 0, false
		kk, ok2 := 0, false
		if i > 0 {
			m, ok1 = parseID(k[:i], "a")
			kk, ok2 = parseID(k[i:], "_")
		}
		if !ok1 || !ok2 || kv.Value.AsInt64() != int64(m) {
			ob.Bad += "attr:" + k + ";"
			continue
		}
		attrs = append(attrs, [2]int{m, kk})
	}
	sort.Slice(attrs, func(i, j int) bool {
		if attrs[i][0] != attrs[j][0] {
			return attrs[i][0] < attrs[j][0]
		}
		return attrs[i][1] < attrs[j][1]
	})
	ob.Parts = attrs
	for _, e := range s.Events() {
		if e.Time.IsZero() {
			ob.Bad += "event without a time:" + e.Name + ";"
		}
		if m, ok := parseID(e.Name, "e"); ok {
			ob.Parts = append(ob.Parts, [2]int{m, 0})
			continue
		}
		found := false
		if e.Name == "exception" {
			for _, kv := range e.Attributes {
				if kv.Key == "exception.message" {
					if m, ok := parseID(kv.Value.AsString(), "x"); ok {
						ob.Parts = append(ob.Parts, [2]int{m, 0})
						found = true
					} else if m, ok := parsePanicMsg(kv.Value.AsString()); ok {
						// recorded by End itself while panicking: the pseudo call panicBase+m
						ob.Parts = append(ob.Parts, [2]int{panicBase + m, 0})
						found = true
					}
				}
			}
		}
		if !found {
			ob.Bad += "event:" + e.Name + ";"
		}
	}
	for _, l := range s.Links() {
		if len(l.Attributes) == 1 && l.Attributes[0].Key == "l" {
			ob.Parts = append(ob.Parts, [2]int{int(l.Attributes[0].Value.AsInt64()), 0})
		} else {
			ob.Bad += "link;"
		}
	}
	if s.Name() != "root" {
		if m, ok := parseID(s.Name(), "n"); ok {
			ob.Name = m + 1
		} else {
			ob.Bad += "name:" + s.Name() + ";"
		}
	}
	if st := s.Status(); st.Code != codes.Unset || st.Description != "" {
		if m, ok := parseID(st.Description, "s"); ok && st.Code == codes.Error {
			ob.Status = m + 1
		} else if st.Code == codes.Ok && st.Description == "" {
			ob.Status = statusOk // which call: resolved in finish
		} else {
			ob.Bad += "status:" + st.Description + ";"
		}
	}
	return ob
}

// parsePanicMsg: "p<id>", or what fmt makes of a String method that panicked with "q<id>".
func parsePanicMsg(s string) (int, bool) {
	if m, ok := parseID(s, "p"); ok {
		return m, true
	}
	const pre = "%!v(PANIC=String method: q"
	if strings.HasPrefix(s, pre) && strings.HasSuffix(s, ")") {
		v, err := strconv.Atoi(s[len(pre) : len(s)-1])
		return v, err == nil
	}
	return 0, false
}

var endBase = time.Unix(1_900_000_000, 0)

// zeroInstant: January 1, year 1, 00:00:00 UTC in three spellings, none of them the zero VALUE time.Time{}.
func zeroInstant(k int) time.Time {
	switch k % 3 {
	case 0:
		return time.Time{}.In(time.FixedZone("x", 3600))
	case 1:
		return time.Unix(-62135596800, 0)
	}
	return time.Time{}.UTC().Local()
}

var linkSC = trace.NewSpanContext(trace.SpanContextConfig{TraceID: trace.TraceID{1}, SpanID: trace.SpanID{2}})

// doOp issues one call on the span and returns IsRecording's answer (false otherwise).
func doOp(tr trace.Tracer, sp trace.Span, id int, o op) bool { return doOpCI(tr, sp, id, o, nil) }

// doOpCI: ci (child Start only) receives the announcement stamp and carries the OnStart delay.
func doOpCI(tr trace.Tracer, sp trace.Span, id int, o op, ci *childInfo) bool {
	switch o.Kind {
	case opEnd:
		switch o.V {
		case 1: // explicit end time, different for every caller
			sp.End(trace.WithTimestamp(endBase.Add(time.Duration(id+1) * time.Microsecond)))
		case 2:
			sp.End(trace.WithStackTrace(true))
		case 3: // the zero INSTANT spelled as a value other than time.Time{}: IsZero() holds, == time.Time{} does not
			sp.End(trace.WithTimestamp(zeroInstant(id)))
		case 4: // an end time before the start time: taken as given
			sp.End(trace.WithTimestamp(time.Unix(1, int64(id))))
		default:
			sp.End()
		}
	case opAttr:
		kvs := make([]attribute.KeyValue, o.N)
		for k := range kvs {
			kvs[k] = attribute.Int(fmt.Sprintf("a%d_%d", id, k), id)
		}
		if o.V == 1 { // the same keys again inside one call: deduplicated, not counted, not dropped
			kvs = append(kvs, kvs[0], kvs[len(kvs)-1])
		}
		sp.SetAttributes(kvs...)
	case opEvent:
		if o.V == 1 {
			sp.AddEvent("e"+strconv.Itoa(id), trace.WithTimestamp(endBase), trace.WithStackTrace(true))
		} else if o.V == 2 { // zero-instant timestamp = not given: the event carries the call time
			sp.AddEvent("e"+strconv.Itoa(id), trace.WithTimestamp(zeroInstant(id)))
		} else {
			sp.AddEvent("e"+strconv.Itoa(id), trace.WithAttributes(attribute.Int("id", id)))
		}
	case opRecErr:
		if o.V == 1 {
			sp.RecordError(errors.New("x"+strconv.Itoa(id)), trace.WithStackTrace(true), trace.WithTimestamp(endBase), trace.WithAttributes(attribute.Int("id", id)))
		} else {
			sp.RecordError(errors.New("x" + strconv.Itoa(id)))
		}
	case opNoop:
		switch o.V {
		case 0:
			sp.SetAttributes()
		case 1:
			sp.AddLink(trace.Link{})
		case 2:
			sp.RecordError(nil)
		case 3:
			sp.SetStatus(codes.Unset, "ignored")
		case 4:
			if ro, ok := sp.(sdktrace.ReadOnlySpan); ok {
				if !skipLiveAttrs {
					_ = ro.Attributes()
				}
				_, _, _ = ro.Name(), ro.Events(), ro.Links()
				_, _, _, _ = ro.Status(), ro.EndTime(), ro.StartTime(), ro.ChildSpanCount()
				_, _, _ = ro.DroppedAttributes(), ro.DroppedEvents(), ro.DroppedLinks()
				_, _, _, _ = ro.Parent(), ro.SpanKind(), ro.InstrumentationScope(), ro.Resource()
			}
		default:
			_, _ = sp.SpanContext(), sp.TracerProvider()
		}
	case opLink:
		sp.AddLink(trace.Link{SpanContext: linkSC, Attributes: []attribute.KeyValue{attribute.Int("l", id)}})
	case opName:
		sp.SetName("n" + strconv.Itoa(id))
	case opStatus:
		if o.V == 1 { // Ok: wins over Error for good, and drops the description
			sp.SetStatus(codes.Ok, "s"+strconv.Itoa(id))
		} else {
			sp.SetStatus(codes.Error, "s"+strconv.Itoa(id))
		}
	case opChild:
		ctx := trace.ContextWithSpan(context.Background(), sp)
		if ci != nil {
			ctx = context.WithValue(ctx, childKey{}, ci)
		}
		var ch trace.Span
		switch o.V {
		case 1: // started through another tracer (other scope) of the parent's provider
			_, ch = sp.TracerProvider().Tracer("other", trace.WithInstrumentationVersion("v2")).Start(ctx, "child", trace.WithSpanKind(trace.SpanKindClient))
		case 2:
			_, ch = tr.Start(ctx, "child", trace.WithAttributes(attribute.Int("c", id)), trace.WithLinks(trace.Link{SpanContext: linkSC}), trace.WithTimestamp(endBase))
		case 3: // the sampler drops this child (a non-recording span): its recording parent counts it all the same
			_, ch = tr.Start(ctx, "dropped-child")
		default:
			_, ch = tr.Start(ctx, "child")
		}
		ch.End()
	case opRecErrPanic:
		func() {
			defer func() { _ = recover() }()
			sp.RecordError(panicErr{id})
		}()
	case opIsRec:
		return sp.IsRecording()
	case opEndPanic:
		endPanicking(sp, id, o.N == 1)
	}
	return false
}

const panicBase = 1000

// skipLiveAttrs: see raceTier (F-C10-2).
var skipLiveAttrs bool
const statusOk = -1

// slowValue is the panic value: formatting it (which End does under the span lock, to record the
// exception event) yields and sleeps, so that the other callers pile up behind it.
type slowValue struct {
	id  int
	bad bool
}

func (v slowValue) String() string {
	runtime.Gosched()
	time.Sleep(20 * time.Microsecond)
	if v.bad {
		panic("q" + strconv.Itoa(v.id)) // user code panicking inside End's formatting
	}
	return "p" + strconv.Itoa(v.id)
}

// panicErr is an error whose Error method panics (RecordError calls it under the span lock).
type panicErr struct{ id int }

func (e panicErr) Error() string { panic("user Error() method panics") }

// endPanicking runs `defer span.End(); panic(v)` and survives it.
func endPanicking(sp trace.Span, id int, bad bool) {
	defer func() { _ = recover() }()
	func() {
		defer sp.End()
		panic(slowValue{id, bad})
	}()
}

type env struct {
	tp   *sdktrace.TracerProvider
	tr   trace.Tracer
	reg  *registry
	P    int
	lims [3]int // attribute / event / link count limits (-1 unlimited)
	late *recProc // processor P-1, registered only AFTER the tracked spans were started: must still get their OnEnd
	gone *recProc // an extra processor (index P) registered at Start and unregistered before any End: must get nothing
}

// afterStart: called once the tracked spans exist (and before any of them is ended).
func (e *env) afterStart() {
	if e.late != nil {
		e.tp.RegisterSpanProcessor(e.late)
	}
	if e.gone != nil {
		e.tp.UnregisterSpanProcessor(e.gone)
	}
}

var unlimited = [3]int{-1, -1, -1}

func newEnv(P int) *env { return newEnvLim(P, unlimited) }

// genLimits: half of the runs unlimited, otherwise each limit from {0, 1, 2, 5, 128, -1}.
func genLimits(r *vgen.Rand) [3]int {
	if r.Bool() {
		return unlimited
	}
	pick := []int{0, 1, 2, 5, 128, -1}
	return [3]int{vgen.Pick(r, pick), vgen.Pick(r, pick), vgen.Pick(r, pick)}
}

// recordOnly: spans that record (and reach OnEnd) without being sampled.
type recordOnly struct{}

func (recordOnly) ShouldSample(p sdktrace.SamplingParameters) sdktrace.SamplingResult {
	return sdktrace.SamplingResult{Decision: sdktrace.RecordOnly, Tracestate: trace.SpanContextFromContext(p.ParentContext).TraceState()}
}
func (recordOnly) Description() string { return "recordOnly" }

// dropNamed drops every span called "dropped-child" and asks inner about the rest: a recording parent still has to
// count the children its sampler drops.
type dropNamed struct{ inner sdktrace.Sampler }

func (d dropNamed) ShouldSample(p sdktrace.SamplingParameters) sdktrace.SamplingResult {
	if p.Name == "dropped-child" {
		return sdktrace.SamplingResult{Decision: sdktrace.Drop, Tracestate: trace.SpanContextFromContext(p.ParentContext).TraceState()}
	}
	return d.inner.ShouldSample(p)
}
func (d dropNamed) Description() string { return "dropNamed(" + d.inner.Description() + ")" }

var envCount, spanCount atomic.Int64

func newEnvLim(P int, lims [3]int) *env {
	reg := &registry{spans: map[trace.SpanID]*spanTrack{}}
	var sampler sdktrace.Sampler = sdktrace.AlwaysSample()
	if envCount.Add(1)%4 == 0 {
		sampler = recordOnly{} // recording but not sampled: everything in the property applies all the same
	}
	opts := []sdktrace.TracerProviderOption{
		sdktrace.WithSampler(dropNamed{sampler}),
		sdktrace.WithRawSpanLimits(sdktrace.SpanLimits{AttributeValueLengthLimit: -1, AttributeCountLimit: lims[0], EventCountLimit: lims[1],
			LinkCountLimit: lims[2], AttributePerEventCountLimit: -1, AttributePerLinkCountLimit: -1}),
	}
	// "registered processors" = those registered when the span ENDS: in every other environment the last
	// processor joins after the spans were started and an extra one leaves before they end
	var late, gone *recProc
	churn := P >= 1 && envCount.Load()%4 < 2
	for i := 0; i < P; i++ {
		rp := &recProc{idx: i, reg: reg}
		if churn && i == P-1 {
			late = rp
			continue
		}
		opts = append(opts, sdktrace.WithSpanProcessor(rp))
	}
	if churn {
		gone = &recProc{idx: P, reg: reg}
		opts = append(opts, sdktrace.WithSpanProcessor(gone))
	}
	tp := sdktrace.NewTracerProvider(opts...)
	return &env{tp: tp, tr: tp.Tracer("c10"), reg: reg, P: P, lims: lims, late: late, gone: gone}
}

// startSpan starts a tracked root span.
func (e *env) startSpan() (trace.Span, *spanTrack) {
	st := &spanTrack{}
	var sp trace.Span
	if n := spanCount.Add(1); n%3 == 0 {
		_, sp = e.tr.Start(nil, "root") //nolint:staticcheck // a nil context is tolerated by Start
	} else if n%3 == 1 { // zero-instant start time = not given (observe requires a non-zero StartTime)
		_, sp = e.tr.Start(context.Background(), "root", trace.WithNewRoot(), trace.WithTimestamp(zeroInstant(int(n))))
	} else {
		_, sp = e.tr.Start(context.Background(), "root", trace.WithNewRoot())
	}
	e.reg.mu.Lock()
	e.reg.spans[sp.SpanContext().SpanID()] = st
	e.reg.mu.Unlock()
	if rw, ok := sp.(sdktrace.ReadWriteSpan); ok {
		st.live = rw
	}
	return sp, st
}

// ---- Coq emission ----

type snapTable struct {
	keys  map[string]int
	terms []string
	drops []string
	ets   map[time.Time]int
	anyDrop bool
}

func newSnapTable() *snapTable { return &snapTable{keys: map[string]int{}, ets: map[time.Time]int{}} }

func (t *snapTable) add(o *snapObs) int {
	et := 0
	if !o.ET.IsZero() {
		k := o.ET.Round(0) // strip the monotonic reading: compare wall instants only
		if v, ok := t.ets[k]; ok {
			et = v
		} else {
			et = len(t.ets) + 1
			t.ets[k] = et
		}
	}
	var ps []string
	for _, p := range o.Parts {
		ps = append(ps, fmt.Sprintf("(%d,%d)", p[0], p[1]))
	}
	term := fmt.Sprintf("SN [%s] %d %d %d %d", strings.Join(ps, ";"), o.Name, o.Status, et, o.Children)
	drop := fmt.Sprintf("DR %d %d %d", o.Drop[0], o.Drop[1], o.Drop[2])
	if o.Drop != [3]int{} {
		t.anyDrop = true
	}
	key := term + "|" + drop
	if i, ok := t.keys[key]; ok {
		return i
	}
	t.keys[key] = len(t.terms)
	t.terms = append(t.terms, term)
	t.drops = append(t.drops, drop)
	return len(t.terms) - 1
}

func (t *snapTable) dropsCoq() string { return "[" + strings.Join(t.drops, "; ") + "]" }

func limCoq(l [3]int) string { return fmt.Sprintf("(LM %d %d %d)", l[0]+1, l[1]+1, l[2]+1) }

// histTerm renders one span's case: CHist for unlimited spans (nothing may be dropped), CLim otherwise.
func histTerm(P int, tracing bool, lims [3]int, tbl *snapTable, hist, rereads []string) (term string, bad string) {
	if lims == unlimited {
		if tbl.anyDrop {
			bad = "dropped count non-zero on a span without limits;"
		}
		return fmt.Sprintf("CHist %d %v %s [%s] [%s]", P, tracing, tbl.coq(), strings.Join(hist, "; "), strings.Join(rereads, "; ")), bad
	}
	return fmt.Sprintf("CLim %d %v %s %s %s [%s] [%s]", P, tracing, limCoq(lims), tbl.coq(), tbl.dropsCoq(), strings.Join(hist, "; "), strings.Join(rereads, "; ")), ""
}

// issue performs one call with its history records. End-while-panicking is recorded as the End call
// wrapped in a pseudo AddEvent call (id panicBase+id) standing for the exception event End records.
const probeBase = 2000

// probeAfterEnd: in the racing fragments every End caller (winner or not) asks IsRecording right after ITS
// OWN End returned; recorded as call probeBase+id.
var probeAfterEnd = true

func issue(tr trace.Tracer, sp trace.Span, id int, o op, gate *atomic.Bool) []rec {
	rs := issue1(tr, sp, id, o, gate)
	if probeAfterEnd && id < panicBase && (o.Kind == opEnd || o.Kind == opEndPanic) {
		q := op{Kind: opIsRec}
		c := rec{Seq: seq.Add(1), Kind: 'C', T: probeBase + id, Op: q}
		ret := sp.IsRecording()
		rs = append(rs, c, rec{Seq: seq.Add(1), Kind: 'R', T: probeBase + id, Op: q, Ret: ret})
	}
	return rs
}

func issue1(tr trace.Tracer, sp trace.Span, id int, o op, gate *atomic.Bool) []rec {
	if o.Kind == opEndPanic {
		ev := op{Kind: opEvent}
		a := rec{Seq: seq.Add(1), Kind: 'C', T: panicBase + id, Op: ev}
		b := rec{Seq: seq.Add(1), Kind: 'C', T: id, Op: o}
		doOp(tr, sp, id, o)
		c := rec{Seq: seq.Add(1), Kind: 'R', T: id, Op: o}
		d := rec{Seq: seq.Add(1), Kind: 'R', T: panicBase + id, Op: ev}
		return []rec{a, b, c, d}
	}
	c := rec{Seq: seq.Add(1), Kind: 'C', T: id, Op: o}
	if o.Kind == opChild {
		// the child's "return" is stamped when the first processor is told about it (OnStart), or at the
		// real return without processors: from then on the child must be counted by its parent
		ci := &childInfo{delay: o.N, flag: gate}
		doOpCI(tr, sp, id, o, ci)
		end := seq.Add(1)
		if a := ci.ann.Load(); a != 0 {
			end = a
		}
		return []rec{c, {Seq: end, Kind: 'R', T: id, Op: o}}
	}
	ret := doOp(tr, sp, id, o)
	return []rec{c, {Seq: seq.Add(1), Kind: 'R', T: id, Op: o, Ret: ret}}
}


func (t *snapTable) coq() string { return "[" + strings.Join(t.terms, "; ") + "]" }

func evCoq(r rec, tbl *snapTable) string {
	switch r.Kind {
	case 'C':
		return fmt.Sprintf("C %d %s", r.T, r.Op.coq())
	case 'R':
		return fmt.Sprintf("R %d %s %v", r.T, r.Op.coq(), r.Ret)
	}
	return fmt.Sprintf("O %d %d", r.T, tbl.add(r.Snap))
}

// finish builds the case pieces for one span: history (sorted by sequence number),
// snapshot table and the re-reads (delivered snapshots read again, and the live span).
func finish(st *spanTrack, calls []rec, lims [3]int) (hist []string, tbl *snapTable, rereads []string, desc []string, bad string) {
	st.mu.Lock()
	all := append(append([]rec(nil), calls...), st.recs...)
	delivered := append([]sdktrace.ReadOnlySpan(nil), st.delivered...)
	st.mu.Unlock()
	sort.Slice(all, func(i, j int) bool { return all[i].Seq < all[j].Seq })
	tbl = newSnapTable()
	// SetStatus(Ok) leaves no description: a visible Ok is attributed to the Ok call invoked first (if any
	// Ok call took effect before the end was visible, that one was invoked before it too). Ok is final:
	// once an Ok call returned before the first End call, every snapshot must show Ok (judged here).
	okCall, okFirm, ended := -1, false, false
	for _, r := range all {
		isOk := r.Op.Kind == opStatus && r.Op.V == 1
		switch {
		case r.Kind == 'C' && isOk && okCall < 0:
			okCall = r.T
		case r.Kind == 'R' && isOk && !ended:
			okFirm = true
		case r.Kind == 'C' && (r.Op.Kind == opEnd || r.Op.Kind == opEndPanic):
			ended = true
		}
	}
	fix := func(ob *snapObs) *snapObs {
		c := *ob
		switch {
		case c.Status == statusOk && okCall >= 0:
			c.Status = okCall + 1
		case c.Status == statusOk:
			c.Status = 0
			c.Bad += "status Ok without any SetStatus(Ok) call;"
		case okFirm:
			c.Bad += fmt.Sprintf("SetStatus(Ok) returned before End was called, yet the status shown is %d;", c.Status)
		}
		return &c
	}
	for i := range all {
		if all[i].Kind == 'O' {
			all[i].Snap = fix(all[i].Snap)
		}
	}
	for _, r := range all {
		hist = append(hist, evCoq(r, tbl))
		switch r.Kind {
		case 'C':
			desc = append(desc, fmt.Sprintf("%d call#%d %s", r.Seq, r.T, r.Op))
		case 'R':
			desc = append(desc, fmt.Sprintf("%d ret#%d %s -> %v", r.Seq, r.T, r.Op, r.Ret))
		default:
			desc = append(desc, fmt.Sprintf("%d OnEnd proc%d parts=%v name=%d status=%d children=%d dropped=%v end=%s", r.Seq, r.T, r.Snap.Parts, r.Snap.Name, r.Snap.Status, r.Snap.Children, r.Snap.Drop, r.Snap.ET.Format("15:04:05.000000000")))
			bad += r.Snap.Bad
		}
	}
	if len(delivered) > 0 {
		for _, d := range delivered {
			ob := fix(observe(d))
			bad += ob.Bad
			rereads = append(rereads, strconv.Itoa(tbl.add(ob)))
		}
		if st.live != nil {
			ob := fix(observe(st.live))
			bad += ob.Bad
			rereads = append(rereads, strconv.Itoa(tbl.add(ob)))
		}
	}
	return
}

// statusCase: SetStatus calls (Unset / Error / Ok, any order) on one recording span, the status read back after each.
func statusCase(w *vgen.Writer, r *vgen.Rand) {
	e := newEnv(1)
	sp, st := e.startSpan()
	n := r.Range(1, 12)
	var ws, reads, desc []string
	bad := ""
	coq := func(s sdktrace.Status) string {
		switch s.Code {
		case codes.Ok:
			if s.Description != "" {
				bad = "Ok status with a description"
			}
			return "SOk"
		case codes.Error:
			m, ok := parseID(s.Description, "s")
			if !ok {
				bad = "Error status with description " + s.Description
			}
			return fmt.Sprintf("XE %d", m)
		}
		if s.Description != "" {
			bad = "Unset status with a description"
		}
		return "SUnset"
	}
	for i := 0; i < n; i++ {
		c := vgen.Pick(r, []codes.Code{codes.Unset, codes.Error, codes.Error, codes.Ok})
		sp.SetStatus(c, "s"+strconv.Itoa(i))
		ws = append(ws, coq(sdktrace.Status{Code: c, Description: map[bool]string{true: "s" + strconv.Itoa(i)}[c == codes.Error]}))
		got := st.live.Status()
		reads = append(reads, coq(got))
		desc = append(desc, fmt.Sprintf("SetStatus(%v, s%d) -> %v %q", c, i, got.Code, got.Description))
	}
	sp.End()
	d := map[string]any{"fragment": "status", "calls": desc}
	if bad != "" {
		w.Violation("status register: "+bad, d)
		return
	}
	w.Tally("status")
	w.Add(fmt.Sprintf("CStatus [%s] [%s]", strings.Join(ws, "; "), strings.Join(reads, "; ")), d, "status", n > 1)
}

// statusStorm: n spans; for each, one goroutine calls SetStatus(Ok) and another SetStatus(Error), released
// together (a two-party rendezvous per span: each announces its arrival and waits for the other, yielding
// now and then). Both calls have returned before End is invoked, so every span must end with status Ok.
// Judged directly; returns the number of anomalies.
func statusStorm(w *vgen.Writer, n int) int {
	anomalies := 0
	const batch = 20000
	for done := 0; done < n && !stuck.Load(); done += batch {
		m := min(batch, n-done)
		desc := map[string]any{"fragment": "status-storm", "spans": m}
		watchdog(w, "SetStatus storm", desc, 30*time.Second, func(w *proxy) {
			e := newEnv(0)
			spans := make([]trace.Span, m)
			for i := range spans {
				_, spans[i] = e.tr.Start(context.Background(), "root", trace.WithNewRoot())
			}
			var at [2]atomic.Int64
			var wg sync.WaitGroup
			for g := 0; g < 2; g++ {
				wg.Add(1)
				go func(g int) {
					defer wg.Done()
					for i := 0; i < m; i++ {
						at[g].Store(int64(i + 1))
						for k := 0; at[1-g].Load() < int64(i+1); k++ {
							if k&63 == 63 {
								runtime.Gosched()
							}
						}
						if (g == 0) == (i&1 == 0) { // alternate who brings which code
							spans[i].SetStatus(codes.Ok, "")
						} else {
							spans[i].SetStatus(codes.Error, "e")
						}
					}
				}(g)
			}
			wg.Wait()
			bad := 0
			for i, sp := range spans {
				sp.End()
				if st := sp.(sdktrace.ReadOnlySpan).Status(); st.Code != codes.Ok {
					bad++
					if bad == 1 {
						w.Violation(fmt.Sprintf("SetStatus(Ok) and SetStatus(Error) raced on a span, both returned before End, yet the status is %v %q (Ok must win)", st.Code, st.Description),
							map[string]any{"fragment": "status-storm", "span_in_batch": i})
					}
				}
			}
			anomalies += bad
			w.Tally("status-storm:batch")
		})
	}
	return anomalies
}

// attrProc checks, in OnEnd, that the delivered attributes are exactly a, b, c (de-duplicated, last value wins).
type attrProc struct{ bad atomic.Int64 }

func attrsOK(kvs []attribute.KeyValue) bool {
	if len(kvs) != 3 {
		return false
	}
	seen := map[attribute.Key]int64{}
	for _, kv := range kvs {
		seen[kv.Key] = kv.Value.AsInt64()
	}
	return len(seen) == 3 && seen["a"] == 2 && seen["b"] == 2 && seen["c"] == 1
}
func (p *attrProc) OnStart(context.Context, sdktrace.ReadWriteSpan) {}
func (p *attrProc) OnEnd(s sdktrace.ReadOnlySpan) {
	if !attrsOK(s.Attributes()) {
		p.bad.Add(1)
	}
}
func (p *attrProc) Shutdown(context.Context) error   { return nil }
func (p *attrProc) ForceFlush(context.Context) error { return nil }

// dedupeStorm: n spans carrying repeated keys (not yet compacted); for each, released together by a rendezvous,
// one goroutine Ends it (snapshot() compacts the attributes in place) while another reads Attributes() on the
// live span (compacts in place too). Both must see exactly the three distinct keys, nobody may panic.
func dedupeStorm(w *vgen.Writer, n int) int {
	anomalies := 0
	const batch = 10000
	for done := 0; done < n && !stuck.Load(); done += batch {
		m := min(batch, n-done)
		desc := map[string]any{"fragment": "dedupe-storm", "spans": m}
		watchdog(w, "dedupe storm", desc, 30*time.Second, func(w *proxy) {
			ap := &attrProc{}
			tp := sdktrace.NewTracerProvider(sdktrace.WithSpanProcessor(ap))
			tr := tp.Tracer("c10")
			spans := make([]trace.Span, m)
			for i := range spans {
				_, spans[i] = tr.Start(context.Background(), "root", trace.WithNewRoot())
				spans[i].SetAttributes(attribute.Int("a", 1), attribute.Int("b", 1), attribute.Int("a", 2), attribute.Int("c", 1), attribute.Int("b", 2))
			}
			var at [2]atomic.Int64
			var live, panics atomic.Int64
			var firstPanic atomic.Value
			var wg sync.WaitGroup
			for g := 0; g < 2; g++ {
				wg.Add(1)
				go func(g int) {
					defer wg.Done()
					for i := 0; i < m; i++ {
						at[g].Store(int64(i + 1))
						for k := 0; at[1-g].Load() < int64(i+1); k++ {
							if k&63 == 63 {
								runtime.Gosched()
							}
						}
						func() {
							defer func() {
								if p := recover(); p != nil {
									panics.Add(1)
									firstPanic.CompareAndSwap(nil, fmt.Sprint(p))
								}
							}()
							if (g == 0) == (i&1 == 0) {
								spans[i].End()
							} else if !attrsOK(spans[i].(sdktrace.ReadOnlySpan).Attributes()) {
								live.Add(1)
							}
						}()
					}
				}(g)
			}
			wg.Wait()
			if p := panics.Load(); p > 0 {
				w.Violation(fmt.Sprintf("panic in End / Attributes() racing on a span with repeated attribute keys (%d times): %v", p, firstPanic.Load()), desc)
			}
			if b, l := ap.bad.Load(), live.Load(); b+l > 0 {
				w.Violation(fmt.Sprintf("End racing Attributes() on a span with repeated keys: %d delivered snapshots and %d live reads did not show exactly the de-duplicated attributes", b, l), desc)
			}
			anomalies += int(panics.Load() + ap.bad.Load() + live.Load())
			w.Tally("dedupe-storm:batch")
		})
	}
	return anomalies
}

// slowSink: a logr sink that takes its time (the SDK logs "dropping attributes" etc. while holding the span lock).
type slowSink struct{}

func (slowSink) Init(logr.RuntimeInfo)  {}
func (slowSink) Enabled(level int) bool { return true }
func (slowSink) Info(level int, msg string, kv ...any) {
	runtime.Gosched()
	time.Sleep(time.Duration(50+len(msg)*7%450) * time.Microsecond)
}
func (slowSink) Error(err error, msg string, kv ...any) { runtime.Gosched() }
func (s slowSink) WithValues(...any) logr.LogSink        { return s }
func (s slowSink) WithName(string) logr.LogSink          { return s }

// slowLogger installs the slow sink as the SDK's logger until the returned function is called.
func slowLogger(on bool) func() {
	if !on {
		return func() {}
	}
	otel.SetLogger(logr.New(slowSink{}))
	return func() { otel.SetLogger(logr.Discard()) }
}

// wantSlowLog: attribute limit small enough that the first drop happens inside a multi-key call.
func wantSlowLog(lims [3]int, r *vgen.Rand) bool { return lims[0] >= 1 && lims[0] <= 5 && r.Chance(2, 3) }

// dropView: number of attributes, dropped count, value of attribute "a".
func dropView(s sdktrace.ReadOnlySpan) [3]int {
	v := [3]int{0, s.DroppedAttributes(), 0}
	for _, kv := range s.Attributes() {
		v[0]++
		if kv.Key == "a" {
			v[2] = int(kv.Value.AsInt64())
		}
	}
	return v
}

type dropObs struct {
	mu   sync.Mutex
	seen map[trace.SpanID][3]int
}

func (p *dropObs) OnStart(context.Context, sdktrace.ReadWriteSpan) {}
func (p *dropObs) OnEnd(s sdktrace.ReadOnlySpan) {
	p.mu.Lock()
	p.seen[s.SpanContext().SpanID()] = dropView(s)
	p.mu.Unlock()
}
func (p *dropObs) Shutdown(context.Context) error   { return nil }
func (p *dropObs) ForceFlush(context.Context) error { return nil }

// dropStorm: AttributeCountLimit 2, a slow logger; per span one goroutine calls SetAttributes with three new keys
// (the second one is the span's first drop: the warning is logged, slowly, inside that call), the other Ends the
// span, released together. The delivered snapshot shows the call entirely (2 attributes, 1 dropped) or not at all
// (0, 0), and the live span read afterwards shows the same.
func dropStorm(w *vgen.Writer, n int) int {
	anomalies := 0
	const batch = 1000
	for done := 0; done < n && !stuck.Load(); done += batch {
		m := min(batch, n-done)
		desc := map[string]any{"fragment": "drop-storm", "spans": m}
		watchdog(w, "drop storm", desc, 30*time.Second, func(w *proxy) {
			defer slowLogger(true)()
			obs := &dropObs{seen: map[trace.SpanID][3]int{}}
			tp := sdktrace.NewTracerProvider(sdktrace.WithSpanProcessor(obs),
				sdktrace.WithRawSpanLimits(sdktrace.SpanLimits{AttributeValueLengthLimit: -1, AttributeCountLimit: 2, EventCountLimit: -1, LinkCountLimit: -1, AttributePerEventCountLimit: -1, AttributePerLinkCountLimit: -1}))
			tr := tp.Tracer("c10")
			spans := make([]trace.Span, m)
			for i := range spans {
				_, spans[i] = tr.Start(context.Background(), "root", trace.WithNewRoot())
			}
			var at [2]atomic.Int64
			var wg sync.WaitGroup
			for g := 0; g < 2; g++ {
				wg.Add(1)
				go func(g int) {
					defer wg.Done()
					for i := 0; i < m; i++ {
						at[g].Store(int64(i + 1))
						for k := 0; at[1-g].Load() < int64(i+1); k++ {
							if k&63 == 63 {
								runtime.Gosched()
							}
						}
						if (g == 0) == (i&1 == 0) {
							spans[i].SetAttributes(attribute.Int("a", 1), attribute.Int("b", 1), attribute.Int("c", 1), attribute.Int("a", 2))
						} else {
							if i%3 == 0 {
								time.Sleep(30 * time.Microsecond) // let the other call get into its log message
							}
							spans[i].End()
						}
					}
				}(g)
			}
			wg.Wait()
			bad := 0
			for i, sp := range spans {
				ro := sp.(sdktrace.ReadOnlySpan)
				got := obs.seen[sp.SpanContext().SpanID()]
				live := dropView(ro)
				if (got != [3]int{0, 0, 0} && got != [3]int{2, 1, 2}) || live != got {
					bad++
					if bad == 1 {
						w.Violation(fmt.Sprintf("SetAttributes (3 new keys, limit 2) racing End: delivered snapshot shows [attributes, dropped, value of a] = %v, the ended span read afterwards %v (must be [0 0 0] or [2 1 2], and the same)", got, live),
							map[string]any{"fragment": "drop-storm", "span_in_batch": i})
					}
				}
			}
			anomalies += bad
			w.Tally("drop-storm:batch")
		})
	}
	return anomalies
}

// contentView: everything a retained snapshot shows, as one string (event names and times, link attributes,
// attributes, dropped counts, end time, name, status, child count).
func contentView(s sdktrace.ReadOnlySpan) string {
	var b strings.Builder
	for _, e := range s.Events() {
		fmt.Fprintf(&b, "E%s@%d%v;", e.Name, e.Time.UnixNano(), e.Attributes)
	}
	for _, l := range s.Links() {
		fmt.Fprintf(&b, "L%v;", l.Attributes)
	}
	for _, kv := range s.Attributes() {
		fmt.Fprintf(&b, "A%s=%v;", kv.Key, kv.Value.AsInterface())
	}
	fmt.Fprintf(&b, "D%d/%d/%d;T%d;N%s;S%v;C%d", s.DroppedAttributes(), s.DroppedEvents(), s.DroppedLinks(), s.EndTime().UnixNano(), s.Name(), s.Status(), s.ChildSpanCount())
	return b.String()
}

type keepProc struct {
	mu    sync.Mutex
	snaps []sdktrace.ReadOnlySpan
	seen  []string
}

func (p *keepProc) OnStart(context.Context, sdktrace.ReadWriteSpan) {}
func (p *keepProc) OnEnd(s sdktrace.ReadOnlySpan) {
	v := contentView(s)
	p.mu.Lock()
	p.snaps = append(p.snaps, s)
	p.seen = append(p.seen, v)
	p.mu.Unlock()
}
func (p *keepProc) Shutdown(context.Context) error   { return nil }
func (p *keepProc) ForceFlush(context.Context) error { return nil }

// evictStorm: spans whose event and link queues are exactly at their limits (EventCountLimit = LinkCountLimit = 2,
// two of each recorded); per span, released together by a rendezvous, one goroutine calls AddEvent + AddLink +
// SetAttributes (each would evict / append) while the other Ends the span. Every snapshot handed to OnEnd is
// retained and read again after the whole batch: it must show exactly what it showed inside OnEnd, and each
// span is delivered exactly once.
func evictStorm(w *vgen.Writer, n int) int {
	anomalies := 0
	const batch = 10000
	for done := 0; done < n && !stuck.Load(); done += batch {
		m := min(batch, n-done)
		desc := map[string]any{"fragment": "evict-storm", "spans": m}
		watchdog(w, "evict storm", desc, 30*time.Second, func(w *proxy) {
			kp := &keepProc{}
			tp := sdktrace.NewTracerProvider(sdktrace.WithSpanProcessor(kp),
				sdktrace.WithRawSpanLimits(sdktrace.SpanLimits{AttributeValueLengthLimit: -1, AttributeCountLimit: 2, EventCountLimit: 2, LinkCountLimit: 2, AttributePerEventCountLimit: -1, AttributePerLinkCountLimit: -1}))
			tr := tp.Tracer("c10")
			spans := make([]trace.Span, m)
			for i := range spans {
				_, spans[i] = tr.Start(context.Background(), "root", trace.WithNewRoot())
				spans[i].AddEvent("e0")
				spans[i].AddEvent("e1")
				spans[i].AddLink(trace.Link{SpanContext: linkSC, Attributes: []attribute.KeyValue{attribute.Int("l", 0)}})
				spans[i].AddLink(trace.Link{SpanContext: linkSC, Attributes: []attribute.KeyValue{attribute.Int("l", 1)}})
				spans[i].SetAttributes(attribute.Int("a", 0), attribute.Int("b", 0))
			}
			var at [2]atomic.Int64
			var wg sync.WaitGroup
			for g := 0; g < 2; g++ {
				wg.Add(1)
				go func(g int) {
					defer wg.Done()
					for i := 0; i < m; i++ {
						at[g].Store(int64(i + 1))
						for k := 0; at[1-g].Load() < int64(i+1); k++ {
							if k&63 == 63 {
								runtime.Gosched()
							}
						}
						if (g == 0) == (i&1 == 0) {
							switch i % 3 {
							case 0:
								spans[i].AddEvent("late")
							case 1:
								spans[i].AddLink(trace.Link{SpanContext: linkSC, Attributes: []attribute.KeyValue{attribute.Int("l", 9)}})
							default:
								spans[i].RecordError(errors.New("late"))
							}
							spans[i].AddEvent("late2")
							spans[i].AddLink(trace.Link{SpanContext: linkSC, Attributes: []attribute.KeyValue{attribute.Int("l", 8)}})
							spans[i].SetAttributes(attribute.Int("a", 7), attribute.Int("c", 7))
						} else {
							spans[i].End()
						}
					}
				}(g)
			}
			wg.Wait()
			changed := 0
			for i, sn := range kp.snaps {
				if now := contentView(sn); now != kp.seen[i] {
					changed++
					if changed == 1 {
						w.Violation("a snapshot delivered to OnEnd changed afterwards (AddEvent / AddLink / SetAttributes racing End on a span whose queues are at their limits)",
							map[string]any{"fragment": "evict-storm", "read_inside_OnEnd": kp.seen[i], "read_after_the_storm": now})
					}
				}
			}
			if len(kp.snaps) != m {
				w.Violation(fmt.Sprintf("evict storm: %d spans ended, %d OnEnd deliveries", m, len(kp.snaps)), desc)
				changed++
			}
			anomalies += changed
			w.Tally("evict-storm:batch")
		})
	}
	return anomalies
}

// tracingSink: logging code that is itself instrumented with tracing: every message (outermost only) asks the
// provider for an existing and for a new tracer and starts and ends a span.
type tracingSink struct {
	tp    *sdktrace.TracerProvider
	depth *atomic.Int64
	n     *atomic.Int64
}

func (tracingSink) Init(logr.RuntimeInfo)  {}
func (tracingSink) Enabled(level int) bool { return true }
func (t tracingSink) Info(level int, msg string, kv ...any) {
	if t.depth.Add(1) == 1 {
		_ = t.tp.Tracer("logging")
		_, sp := t.tp.Tracer(fmt.Sprintf("logging-%d", t.n.Add(1))).Start(context.Background(), "log")
		sp.SetAttributes(attribute.String("msg", msg))
		sp.End()
	}
	t.depth.Add(-1)
}
func (t tracingSink) Error(err error, msg string, kv ...any) { t.Info(0, msg) }
func (t tracingSink) WithValues(...any) logr.LogSink         { return t }
func (t tracingSink) WithName(string) logr.LogSink           { return t }

// loggerReent: with such a logger installed, requesting tracers for new scopes (the SDK logs "Tracer created"),
// dropping attributes and shutting down must all return.
func loggerReent(w *vgen.Writer) {
	desc := map[string]any{"fragment": "re-entrant logger"}
	watchdog(w, "provider calls under a logger that calls Tracer()", desc, 20*time.Second, func(w *proxy) {
		tp := sdktrace.NewTracerProvider(sdktrace.WithRawSpanLimits(sdktrace.SpanLimits{AttributeValueLengthLimit: -1, AttributeCountLimit: 1, EventCountLimit: -1, LinkCountLimit: -1, AttributePerEventCountLimit: -1, AttributePerLinkCountLimit: -1}),
			sdktrace.WithSpanProcessor(&attrProc{}))
		otel.SetLogger(logr.New(tracingSink{tp: tp, depth: &atomic.Int64{}, n: &atomic.Int64{}}))
		defer otel.SetLogger(logr.Discard())
		for i := 0; i < 5; i++ {
			tr := tp.Tracer(fmt.Sprintf("scope-%d", i), trace.WithInstrumentationVersion("v1")) // new scope: "Tracer created"
			_ = tp.Tracer(fmt.Sprintf("scope-%d", i), trace.WithInstrumentationVersion("v1")) // existing scope
			_, sp := tr.Start(context.Background(), "s")
			sp.SetAttributes(attribute.Int("a", 1), attribute.Int("b", 2)) // "dropping attributes" under the span lock
			sp.End()
		}
		_ = tp.ForceFlush(context.Background())
		_ = tp.Shutdown(context.Background())
		_ = tp.Tracer("after-shutdown")
		w.Tally("logger-reent")
	})
}

// ---- generators ----

func genOp(r *vgen.Rand, endWeight int) op {
	x := r.Intn(20 + endWeight)
	switch {
	case x < 4:
		return op{Kind: opAttr, N: r.Range(1, 4), V: r.Intn(3) / 2}
	case x < 6:
		return op{Kind: opEvent, V: vgen.Pick(r, []int{0, 0, 1, 2})}
	case x < 8:
		return op{Kind: opRecErr, V: r.Intn(3) / 2}
	case x < 10:
		return op{Kind: opLink}
	case x < 12:
		return op{Kind: opName}
	case x < 14:
		return op{Kind: opStatus, V: r.Intn(3) / 2} // 1/3 Ok (racing fragments only, see seqSafe)
	case x < 16:
		return op{Kind: opChild, N: vgen.Pick(r, []int{0, 0, 1, 3, 20, 60, 200}), V: vgen.Pick(r, []int{0, 0, 1, 2, 3, 3})} // N: how long OnStart dawdles
	case x < 17:
		if r.Chance(1, 2) {
			return op{Kind: opNoop, V: r.Intn(len(noopNames))}
		}
		return op{Kind: opRecErrPanic}
	case x < 20:
		return op{Kind: opIsRec}
	}
	return op{Kind: opEnd, V: vgen.Pick(r, []int{0, 0, 1, 2, 3, 3, 4})}
}

// limSafe: with an attribute limit the dropped count also counts repeated keys, which the model's
// accounting (distinct keys offered) does not describe: repeated keys only on spans without that limit.
func limSafe(o op, lims [3]int) op {
	if o.Kind == opAttr && lims[0] != -1 {
		o.V = 0
	}
	return o
}

// seqSafe: the sequential tie compares with the model, whose status register has no Ok priority.
func seqSafe(o op) op {
	if o.Kind == opStatus {
		o.V = 0
	}
	return o
}

func opsCoq(ops []op) string {
	s := make([]string, len(ops))
	for i, o := range ops {
		s[i] = o.coq()
	}
	return "[" + strings.Join(s, "; ") + "]"
}

// proxy collects what a scenario wants to tell the writer; it is applied only if the attempt finished
// within its watchdog (an abandoned attempt may still be running and must not touch the writer).
type proxy struct{ ops []func(w *vgen.Writer) }

func (p *proxy) Add(term string, desc any, kind string, nontrivial bool) {
	p.ops = append(p.ops, func(w *vgen.Writer) { w.Add(term, desc, kind, nontrivial) })
}
func (p *proxy) Tally(label string) { p.ops = append(p.ops, func(w *vgen.Writer) { w.Tally(label) }) }
func (p *proxy) Violation(what string, desc any) {
	p.ops = append(p.ops, func(w *vgen.Writer) { w.Violation(what, desc) })
}

// stuck is raised by a genuine hang: the goroutines of a stuck scenario stay around, so the remaining
// scenarios are skipped (the verdict is a VIOLATION already).
var stuck atomic.Bool
var inconclusiveRuns atomic.Int64

// calibrate runs a trivial reference task (a few goroutines handing a mutex around, then pure arithmetic) over
// and over until stop is closed and returns how many units it completed. One unit costs about a millisecond
// of CPU. It measures whether THIS process was given CPU and its goroutines were scheduled during a watchdog
// window, independently of what else runs on the machine.
func calibrate(stop <-chan struct{}) int {
	units := 0
	var mu sync.Mutex
	x := uint32(1)
	for {
		select {
		case <-stop:
			calSink.Store(x)
			return units
		default:
		}
		var wg sync.WaitGroup
		for g := 0; g < 3; g++ {
			wg.Add(1)
			go func() {
				defer wg.Done()
				for i := 0; i < 50; i++ {
					mu.Lock()
					x++
					mu.Unlock()
				}
			}()
		}
		wg.Wait()
		for i := 0; i < 400000; i++ {
			x = x*1664525 + 1013904223
		}
		units++
		runtime.Gosched()
	}
}

var calSink atomic.Uint32

// harnessDeadline bounds the whole run (set in main): scenarios that would start after it are skipped and counted.
var harnessDeadline time.Time

// watchdog runs scenario f and never blocks forever. A scenario that exceeds its watchdog (expected:
// milliseconds) is re-run ONCE, alone, next to the calibration task. If the re-run exceeds the watchdog too
// although the calibration task completed `need` units in the meantime (this process had CPU, its goroutines
// ran, only the scenario's made no progress), a span call never returned: "Stuck", a VIOLATION; the remaining
// scenarios are skipped. If the process itself was starved the scenario is inconclusive: dropped and counted.
func watchdog(w *vgen.Writer, what string, desc any, d time.Duration, f func(w *proxy)) bool {
	need := 300 // units of calibration work (each ~1 ms of CPU): far more than a sequential or racing scenario costs
	if what == "End storm" {
		need = 3000 // 10 000 spans per batch
	}
	for attempt := 0; attempt < 2; attempt++ {
		if stuck.Load() {
			return false
		}
		if !harnessDeadline.IsZero() && time.Now().After(harnessDeadline) {
			w.Tally("skipped:harness time budget used up")
			return false
		}
		px := &proxy{}
		done := make(chan any, 1)
		go func() {
			defer func() { done <- recover() }()
			f(px)
		}()
		stop := make(chan struct{})
		units := make(chan int, 1)
		if attempt == 1 {
			go func() { units <- calibrate(stop) }()
		}
		select {
		case pan := <-done:
			close(stop)
			if pan != nil {
				w.Violation(fmt.Sprintf("panic in %s: %v", what, pan), desc)
				return false
			}
			for _, op := range px.ops {
				op(w)
			}
			return true
		case <-time.After(d):
		}
		close(stop)
		if attempt == 0 {
			w.Tally("watchdog expired once, re-run alone:" + what)
			continue
		}
		if n := <-units; n >= need {
			stuck.Store(true)
			buf := make([]byte, 1<<16)
			k := runtime.Stack(buf, true)
			w.Violation(fmt.Sprintf("Stuck: %s did not finish within %s, twice, the second time alone while a reference task in this process completed %d units of work (a span call never returned: deadlock / lock left held)", what, d, n),
				map[string]any{"case": desc, "goroutines": string(buf[:k])})
			return false
		}
	}
	inconclusiveRuns.Add(1)
	w.Tally("inconclusive:watchdog while this process was starved:" + what)
	return false
}

// seqCase: the deterministic fragment.
func seqCase(w *vgen.Writer, r *vgen.Rand, tracing bool, P int, ops []op, kind string, lims [3]int) {
	desc := map[string]any{"fragment": "sequential", "processors": P, "runtime_trace": tracing, "limits": lims}
	var names []string
	for _, o := range ops {
		names = append(names, o.String())
	}
	desc["ops"] = names
	watchdog(w, "sequential program", desc, 20*time.Second, func(w *proxy) {
		e := newEnvLim(P, lims)
		sp, st := e.startSpan()
		e.afterStart()
		var calls []rec
		for i, o := range ops {
			calls = append(calls, issue1(e.tr, sp, i, o, nil)...)
		}
		hist, tbl, rereads, hdesc, bad := finish(st, calls, lims)
		desc["history"] = hdesc
		if bad != "" {
			w.Violation("snapshot content that no call produced: "+bad, desc)
		}
		term := fmt.Sprintf("CSeq %d %v %s %s %s %s [%s] [%s]", P, tracing, limCoq(lims), opsCoq(ops), tbl.coq(), tbl.dropsCoq(), strings.Join(hist, "; "), strings.Join(rereads, "; "))
		ended := false
		for _, o := range ops {
			if o.Kind == opEnd {
				ended = true
			}
		}
		w.Tally(fmt.Sprintf("seq:P=%d:trace=%v:ended=%v:limits=%v", P, tracing, ended, lims != unlimited))
		w.Add(term, desc, kind, ended && P > 0)
	})
}

type gprog struct {
	span int
	id   int
	o    op
}

// raceCase: the free-running fragment. G goroutines each run their own list of calls on
// K shared spans; every span's history becomes one case.
func raceCase(w *vgen.Writer, r *vgen.Rand, tracing bool, kind string, storm bool) (anomalous int) {
	P := r.Range(1, 3)
	K := r.Range(1, 3)
	G := r.Range(2, 16)
	perG := r.Range(1, 6)
	if storm { // many End callers on one span, little else
		K, perG = 1, 1
		G = r.Range(2, 8)
		P = r.Range(1, 2)
	}
	nextID := make([]int, K)
	progs := make([][]gprog, G)
	for g := range progs {
		for j := 0; j < perG; j++ {
			s := r.Intn(K)
			o := genOp(r, 5)
			if storm && (g < 2 || r.Chance(2, 3)) {
				o = op{Kind: opEnd}
			}
			progs[g] = append(progs[g], gprog{span: s, id: nextID[s], o: o})
			nextID[s]++
		}
	}
	yields := make([]int, G)
	for g := range yields {
		yields[g] = r.Intn(4)
	}
	lims := genLimits(r)
	for g := range progs { // some End calls come from a deferred call in a panicking goroutine
		for j := range progs[g] {
			progs[g][j].o = limSafe(progs[g][j].o, lims)
			if progs[g][j].o.Kind == opEnd && r.Chance(1, 4) {
				progs[g][j].o = op{Kind: opEndPanic, N: r.Intn(2)}
			}
		}
	}
	desc := map[string]any{"fragment": "racing", "processors": P, "spans": K, "goroutines": G, "runtime_trace": tracing, "storm": storm, "limits": lims}
	slow := wantSlowLog(lims, r)
	desc["slow_logger"] = slow
	ok := watchdog(w, "racing goroutines", desc, 30*time.Second, func(w *proxy) {
		defer slowLogger(slow)()
		e := newEnvLim(P, lims)
		spans := make([]trace.Span, K)
		tracks := make([]*spanTrack, K)
		for i := range spans {
			spans[i], tracks[i] = e.startSpan()
		}
		e.afterStart()
		calls := make([][][]rec, G) // per goroutine, per span
		var start atomic.Bool
		var wg sync.WaitGroup
		for g := 0; g < G; g++ {
			calls[g] = make([][]rec, K)
			wg.Add(1)
			go func(g int) {
				defer wg.Done()
				for !start.Load() {
				}
				for y := 0; y < yields[g]; y++ {
					runtime.Gosched()
				}
				for _, p := range progs[g] {
					calls[g][p.span] = append(calls[g][p.span], issue(e.tr, spans[p.span], p.id, p.o, nil)...)
				}
			}(g)
		}
		start.Store(true)
		wg.Wait()
		for k := 0; k < K; k++ {
			var cs []rec
			ends := 0
			for g := 0; g < G; g++ {
				cs = append(cs, calls[g][k]...)
			}
			for _, c := range cs {
				if c.Kind == 'C' && (c.Op.Kind == opEnd || c.Op.Kind == opEndPanic) {
					ends++
				}
			}
			hist, tbl, rereads, hdesc, bad := finish(tracks[k], cs, lims)
			tracks[k].mu.Lock()
			nd := len(tracks[k].recs)
			tracks[k].mu.Unlock()
			d := map[string]any{"fragment": "racing", "processors": P, "goroutines": G, "runtime_trace": tracing, "limits": lims, "end_calls": ends, "onend_deliveries": nd, "history": hdesc}
			term, bad2 := histTerm(P, tracing, lims, tbl, hist, rereads)
			bad += bad2
			if bad != "" {
				w.Violation("snapshot content that no call produced: "+bad, d)
			}
			want := 0
			if ends > 0 {
				want = P
			}
			odd := nd != want || len(tbl.terms) > 1
			if odd {
				anomalous++
			}
			if storm && !odd && !r.Chance(1, stormSample) {
				continue // unremarkable storm trial: only a sample goes to Coq
			}
			w.Tally(fmt.Sprintf("race:trace=%v:ends=%d:limits=%v", tracing, min(ends, 3), lims != unlimited))
			w.Add(term, d, kind, ends > 0)
		}
	})
	_ = ok
	return
}

// stormLoop: the End storm. G workers walk the same array of fresh spans, each issuing its
// call on every span in order; contention on the span mutex keeps them in near lock-step, so
// their calls on one span collide within nanoseconds without any barrier (no spinning, so a
// loaded machine only makes it slower). Every span whose delivery count differs from P, or
// that produced more than one distinct snapshot, is sent to Coq, plus a sample of the others.
func stormLoop(w *vgen.Writer, r *vgen.Rand, tracing bool, trials int, kind string) (anomalous int) {
	const batch = 10000
	for done := 0; done < trials; done += batch {
		n := min(batch, trials-done)
		P := 1 + (done/batch)&1
		G := r.Range(3, 8)
		mixed := r.Chance(1, 3)
		lims := unlimited
		if mixed {
			lims = genLimits(r)
		}
		panicking := r.Chance(1, 4) // a batch where worker 0 ends every span from a panicking goroutine
		gated := !panicking && r.Chance(1, 4) // worker 0 starts a child whose OnStart dawdles; the others End once it is announced
		if panicking || gated {
			n = min(n, 400) // these batches sleep per span: keep them short
		}
		desc := map[string]any{"fragment": "end-storm", "runtime_trace": tracing, "spans": n, "goroutines": G, "processors": P, "limits": lims, "end_while_panicking": panicking, "gated_child": gated}
		slow := wantSlowLog(lims, r)
		desc["slow_logger"] = slow
		if slow {
			n = min(n, 1500) // one slow message per span
		}
		watchdog(w, "End storm", desc, 60*time.Second, func(w *proxy) {
			defer slowLogger(slow)()
			e := newEnvLim(P, lims)
			spans := make([]trace.Span, n)
			tracks := make([]*spanTrack, n)
			for i := range spans {
				spans[i], tracks[i] = e.startSpan()
			}
			e.afterStart()
			ops := make([][]op, G)
			for g := range ops {
				ops[g] = make([]op, n)
				for i := range ops[g] {
					o := op{Kind: opEnd, V: vgen.Pick(r, []int{0, 0, 0, 1, 2, 3, 3, 4})}
					if mixed && g >= 2 && r.Bool() {
						o = limSafe(genOp(r, 0), lims)
					}
					if panicking && g == 0 {
						o = op{Kind: opEndPanic, N: r.Intn(2)}
					}
					if gated && g == 0 {
						o = op{Kind: opChild, N: vgen.Pick(r, []int{3, 30, 100})}
					}
					if gated && g == 1 {
						o = op{Kind: opEnd}
					}
					ops[g][i] = o
				}
			}
			gates := make([]atomic.Bool, n)
			recs := make([][][]rec, G)
			var wg sync.WaitGroup
			var start sync.WaitGroup
			start.Add(1)
			for g := 0; g < G; g++ {
				recs[g] = make([][]rec, n)
				wg.Add(1)
				go func(g int) {
					defer wg.Done()
					start.Wait()
					my, mo := recs[g], ops[g]
					for i := 0; i < n; i++ {
						var gate *atomic.Bool
						if gated {
							gate = &gates[i]
							if g > 0 { // run inside the child's Start: wait for its announcement
								for k := 0; !gate.Load() && k < 2000000; k++ {
									runtime.Gosched()
								}
							}
						}
						my[i] = issue(e.tr, spans[i], g, mo[i], gate)
					}
				}(g)
			}
			start.Done()
			wg.Wait()
			for i := 0; i < n; i++ {
				st := tracks[i]
				nd := len(st.recs)
				distinct := 0
				for a := 0; a < nd; a++ {
					same := false
					for b := 0; b < a; b++ {
						x, y := st.recs[a].Snap, st.recs[b].Snap
						if x.ET.Equal(y.ET) && fmt.Sprint(x.Parts) == fmt.Sprint(y.Parts) && x.Children == y.Children && x.Name == y.Name && x.Status == y.Status && x.Drop == y.Drop {
							same = true
						}
					}
					if !same {
						distinct++
					}
				}
				odd := nd != P || distinct > 1
				for g := 0; g < G && !odd; g++ {
					for _, rc := range recs[g][i] {
						if rc.Kind == 'R' && rc.T >= probeBase && rc.Ret {
							odd = true // IsRecording answered true right after this caller's own End returned
						}
					}
				}
				if odd {
					anomalous++
				}
				rate := stormSample
				if mixed || panicking {
					rate = stormSample / 4
				}
				if gated {
					rate = 8
				}
				if !odd && !r.Chance(1, rate) {
					continue
				}
				var cs []rec
				ends := 0
				for g := 0; g < G; g++ {
					cs = append(cs, recs[g][i]...)
					if ops[g][i].Kind == opEnd || ops[g][i].Kind == opEndPanic {
						ends++
					}
				}
				hist, tbl, rereads, hdesc, bad := finish(st, cs, lims)
				d := map[string]any{"fragment": "end-storm", "processors": P, "goroutines": G, "runtime_trace": tracing, "limits": lims, "end_calls": ends, "onend_deliveries": nd, "history": hdesc}
				term, bad2 := histTerm(P, tracing, lims, tbl, hist, rereads)
				bad += bad2
				if bad != "" {
					w.Violation("snapshot content that no call produced: "+bad, d)
				}
				w.Tally(fmt.Sprintf("storm:trace=%v:mixed=%v:panicking=%v:gated=%v", tracing, mixed, panicking, gated))
				w.Add(term, d, kind, true)
			}
		})
	}
	return
}

var stormSample = 300

func withTracing(on bool, f func()) {
	if on {
		if err := rtrace.Start(io.Discard); err != nil {
			fmt.Fprintln(os.Stderr, "runtime/trace.Start:", err)
			os.Exit(2)
		}
		defer rtrace.Stop()
	}
	f()
}

func main() {
	raceChild := flag.Bool("race-child", false, "run only the free-running fragment (used under go build -race)")
	reduced := flag.Bool("reduced", false, "race child in the quick tier: a small fragment")
	flag.BoolVar(&skipLiveAttrs, "skip-live-attrs", false, "race child: leave Attributes() on the live span out of the accessor calls (F-C10-2)")
	o := vgen.ParseFlags()
	r := vgen.NewRand(o.Seed)
	harnessDeadline = time.Now().Add(time.Duration(o.Count(170, 2400)) * time.Second)
	w := vgen.NewWriter(o.Out, "C10.Spec C10.Model C10.Corr", "case", 96)
	w.Rule = "sequential programs of End/SetAttributes/AddEvent/RecordError/AddLink/SetName/SetStatus/IsRecording/child Start on one span (compared with the model and judged by the spec), " +
		"and histories of 2-16 goroutines racing the same calls on 1-3 shared spans plus End storms, with and without runtime/trace, judged by the spec; " +
		"non-trivial = the span was ended and at least one processor is registered; distinct = distinct Coq case terms"

	// fixed corpus (runs first): F-C10-1 schedule shape (racing End under runtime/trace), and boundary programs
	corpus := [][]op{
		{{Kind: opEnd}, {Kind: opEnd}},
		{{Kind: opAttr, N: 2}, {Kind: opEnd}, {Kind: opAttr, N: 2}, {Kind: opIsRec}, {Kind: opEnd}},
		{{Kind: opChild}, {Kind: opEnd}, {Kind: opChild}},
		{{Kind: opName}, {Kind: opStatus}, {Kind: opName}, {Kind: opEnd}, {Kind: opName}, {Kind: opStatus}},
		{{Kind: opIsRec}},
		// user code panicking inside a span call (recovered by the caller), then the span is used on
		{{Kind: opRecErrPanic}, {Kind: opEvent}, {Kind: opStatus}, {Kind: opRecErrPanic}, {Kind: opChild}, {Kind: opIsRec}, {Kind: opEnd}, {Kind: opRecErrPanic}, {Kind: opIsRec}},
		{{Kind: opRecErr}, {Kind: opEvent}, {Kind: opLink}, {Kind: opEnd}, {Kind: opRecErr}, {Kind: opEvent}, {Kind: opLink}},
	}
	if !*raceChild {
		for _, tracing := range []bool{false, true} {
			withTracing(tracing, func() {
				for _, c := range corpus {
					for P := 0; P <= 2; P++ {
						seqCase(w, r, tracing, P, c, "seq-corpus", unlimited)
					}
				}
			})
		}
	}
	if !*raceChild { // boundary limits on a program with more than one of everything
		lp := []op{{Kind: opAttr, N: 3}, {Kind: opEvent}, {Kind: opLink}, {Kind: opAttr, N: 2}, {Kind: opRecErr}, {Kind: opLink}, {Kind: opEvent}, {Kind: opEnd}, {Kind: opAttr, N: 1}, {Kind: opEvent}}
		for _, l := range [][3]int{{0, 0, 0}, {1, 1, 1}, {2, 2, 2}, {5, 1, 0}, {128, 2, 1}, {4, -1, 2}} {
			seqCase(w, r, false, 2, lp, "seq-corpus", l)
		}
	}
	nStormCorpus := o.Count(30000, 300000)
	nSeq := o.Count(160, 3000)
	nRace := o.Count(150, 3000)
	nStorm := o.Count(90000, 900000)
	if *reduced { // racing programs (child Start, accessors, End) and End storms, small
		nStormCorpus, nRace, nStorm = 4000, 80, 16000
	}
	anomalies := 0
	for _, tracing := range []bool{true, false} {
		withTracing(tracing, func() {
			if tracing { // F-C10-1: racing End calls with execution tracing on
				anomalies += stormLoop(w, r, true, nStormCorpus, "storm-corpus")
			}
			if !*raceChild {
				for i := 0; i < nSeq; i++ {
					n := r.Range(1, 14)
					ops := make([]op, n)
					lims := genLimits(r)
					for j := range ops {
						ops[j] = limSafe(seqSafe(genOp(r, 3)), lims)
						if j > 0 && ops[j-1].Kind == opEnd && r.Chance(2, 3) {
							ops[j] = op{Kind: opIsRec} // ask right after an End returned
						}
					}
					seqCase(w, r, tracing, r.Intn(4), ops, "seq", lims)
				}
			}
			if !*raceChild && tracing {
				for i := 0; i < o.Count(150, 2500); i++ {
					statusCase(w, r)
				}
			}
			for i := 0; i < nRace; i++ {
				anomalies += raceCase(w, r, tracing, "race", false)
			}
			anomalies += stormLoop(w, r, tracing, nStorm/2, "storm")
		})
	}
	if !*raceChild {
		t0 := time.Now()
		nStatus := o.Count(300000, 3000000)
		sa := statusStorm(w, nStatus)
		loggerReent(w)
		nev := o.Count(100000, 1000000)
		w.Extra["evict_storm"] = fmt.Sprintf("%d spans with full event/link queues, AddEvent/AddLink/SetAttributes racing End, retained snapshots re-read: %d anomalies", nev, evictStorm(w, nev))
		ndr := o.Count(4000, 40000)
		w.Extra["drop_storm"] = fmt.Sprintf("%d spans, SetAttributes over the limit racing End under a slow logger, %d anomalies", ndr, dropStorm(w, ndr))
		nd := o.Count(100000, 1000000)
		da := dedupeStorm(w, nd)
		w.Extra["dedupe_storm"] = fmt.Sprintf("%d spans with repeated keys, End racing Attributes() on the live span, %d anomalies", nd, da)
		w.Extra["status_storm"] = fmt.Sprintf("%d spans with racing SetStatus(Ok)/SetStatus(Error), %d anomalies, %s", nStatus, sa, time.Since(t0).Round(time.Millisecond))
	}
	w.Extra["storm_trials"] = nStormCorpus + nStorm/2*2
	w.Extra["storm_sample_rate"] = fmt.Sprintf("1/%d of unremarkable storm trials are sent to Coq; every trial with a delivery count other than P or more than one snapshot is sent", stormSample)
	w.Extra["anomalous_trials"] = anomalies
	w.Extra["inconclusive"] = inconclusiveRuns.Load()

	if !*raceChild {
		raceTier(w, o, o.Tier != "thorough")
	}
	if err := w.Flush(); err != nil {
		fmt.Fprintln(os.Stderr, err)
		os.Exit(2)
	}
}

// raceTier rebuilds this harness with the race detector and runs the free-running
// fragment under it; a reported data race is a direct violation.
func raceTier(w *vgen.Writer, o vgen.Opts, reduced bool) {
	root := os.Getenv("VERIF_ROOT")
	if root == "" {
		w.Extra["race_detector"] = "skipped: VERIF_ROOT not set"
		return
	}
	bin := filepath.Join(o.Out, "harness-c10-race")
	args := []string{"build", "-race", "-tags", "verif", "-o", bin}
	if _, err := os.Stat(filepath.Join(o.Out, "alt.mod")); err == nil {
		args = append(args, "-modfile="+filepath.Join(o.Out, "alt.mod"))
	}
	args = append(args, "./cmd/C10")
	budget := 20 * time.Minute
	if reduced {
		budget = 100 * time.Second // quick tier: build (warm cache) + two small passes; running out of time is inconclusive
	}
	ctx, cancel := context.WithTimeout(context.Background(), budget)
	defer cancel()
	t0 := time.Now()
	defer func() {
		if s, ok := w.Extra["race_detector"].(string); ok {
			w.Extra["race_detector"] = s + fmt.Sprintf(" [%s fragment, %s incl. build]", map[bool]string{true: "reduced (quick tier: 80 racing programs and 16 000+4 000 storm spans per runtime/trace setting, two passes)", false: "full"}[reduced], time.Since(t0).Round(time.Second))
		}
	}()
	cmd := exec.CommandContext(ctx, "go", args...)
	cmd.Dir = filepath.Join(root, "harness")
	if out, err := cmd.CombinedOutput(); err != nil {
		w.Extra["race_detector"] = "skipped: go build -race failed: " + err.Error() + " " + string(out)
		return
	}
	sub := filepath.Join(o.Out, "race-child")
	os.MkdirAll(sub, 0o755)
	// Two passes, each stopping at the first report. Pass 1 leaves Attributes() on the LIVE span out of the
	// accessor calls: any race is a violation. Pass 2 includes it: a race whose writer is that accessor
	// (recordingSpan.Attributes -> dedupeAttrs rewriting, in place, the backing array the delivered snapshot
	// shares) is finding F-C10-2, rendered as a case with that code; any other race is a violation.
	// Pass 1 stops at the first report. Pass 2 runs to the end and EVERY report is classified, so that the
	// known race cannot hide another one in the same code (e.g. two in-place de-duplications racing).
	knownReports := 0
	var knownDesc map[string]any
	for pass, extra := range [][]string{{"-skip-live-attrs"}, {}} {
		args := append([]string{"-race-child", "-seed", strconv.FormatUint(o.Seed, 10), "-tier", "quick", "-out", sub}, extra...)
		if reduced {
			args = append(args, "-reduced")
		}
		run := exec.CommandContext(ctx, bin, args...)
		run.Env = append(os.Environ(), "GORACE=halt_on_error="+strconv.Itoa(1-pass)+" exitcode=66")
		var buf bytes.Buffer
		run.Stdout, run.Stderr = &buf, &buf
		err := run.Run()
		out := buf.String()
		if ctx.Err() != nil && !strings.Contains(out, "WARNING: DATA RACE") {
			w.Extra["race_detector"] = fmt.Sprintf("inconclusive: pass %d did not finish within the time budget", pass+1)
			return
		}
		reports := strings.Split(out, "WARNING: DATA RACE\n")[1:]
		for _, rep := range reports {
			// the two conflicting accesses are the first two blocks of a report
			blocks := strings.SplitN(rep, "\n\n", 3)
			desc := map[string]any{"report": "WARNING: DATA RACE\n" + tail(rep, 6000), "pass": pass + 1, "reports_in_this_pass": len(reports)}
			known := false
			if pass == 1 && len(blocks) >= 2 {
				for k := 0; k < 2; k++ {
					wr, rd := blocks[k], blocks[1-k]
					if (strings.HasPrefix(wr, "Write at") || strings.HasPrefix(wr, "Previous write at")) &&
						strings.Contains(wr, "(*recordingSpan).dedupeAttrsFromRecord()") && strings.Contains(wr, "(*recordingSpan).Attributes()") &&
						(strings.HasPrefix(rd, "Read at") || strings.HasPrefix(rd, "Previous read at")) && !strings.Contains(topFrame(rd), "(*recordingSpan)") {
						known = true // the reader reads the delivered snapshot's slice outside the span's lock
					}
				}
			}
			if !known {
				w.Violation("data race reported by the race detector in the free-running fragment", desc)
				return
			}
			knownReports++
			knownDesc = desc
		}
		if len(reports) == 0 && err != nil {
			w.Extra["race_detector"] = "inconclusive: " + err.Error() + " " + tail(out, 2000)
			return
		}
		if strings.Contains(out, "panic:") || strings.Contains(out, "fatal error:") {
			w.Violation("the free-running fragment crashed under the race detector", map[string]any{"output": tail(out, 6000), "pass": pass + 1})
			return
		}
	}
	if knownReports > 0 {
		w.Add("CRace 2", knownDesc, "race-detector", true)
		w.Extra["race_detector"] = fmt.Sprintf("pass 1 (without Attributes() on the live span) clean; pass 2: %d report(s), all of them the F-C10-2 race", knownReports)
		return
	}
	w.Extra["race_detector"] = "free-running fragment re-run under go build -race (with and without Attributes() on the live span): no data race reported"
}

// topFrame: the innermost frame of one access of a race report.
func topFrame(block string) string {
	l := strings.SplitN(block, "\n", 3)
	if len(l) < 2 {
		return ""
	}
	return l[1]
}

func tail(s string, n int) string {
	if len(s) > n {
		return s[len(s)-n:]
	}
	return s
}
