// C12 harness: cardinality limit, attribute filters and views of the metric SDK vs the Coq model.
//
// The cardinality limit is read from OTEL_GO_X_CARDINALITY_LIMIT when an aggregator is
// created, so every limit value runs in re-exec'd child processes (-child): the parent
// generates scenarios, hands each child a batch that shares one environment value on
// stdin, and reads the observations (points per metric per collection) as JSON.
package main

import (
	"bytes"
	"context"
	"encoding/json"
	"flag"
	"fmt"
	"io"
	"math"
	"os"
	"os/exec"
	"sort"
	"strconv"
	"runtime"
	"strings"
	"sync"
	"sync/atomic"
	"time"

	"github.com/go-logr/logr"

	"go.opentelemetry.io/otel"
	"go.opentelemetry.io/otel/attribute"
	"go.opentelemetry.io/otel/metric"
	"go.opentelemetry.io/otel/sdk/instrumentation"
	sdkmetric "go.opentelemetry.io/otel/sdk/metric"
	"go.opentelemetry.io/otel/sdk/metric/metricdata"

	"verif/harness/vgen"
)

// ---- scenario description (JSON between parent and child, and in replays) ----

type KV struct {
	K string `json:"k"`
	T string `json:"t"` // b, i, s
	V string `json:"v"`
}

type ViewSpec struct {
	CName  string   `json:"cn,omitempty"`
	CDesc  string   `json:"cd,omitempty"`
	CKind  int      `json:"ck,omitempty"` // 0 = any, else instrument kind tag 1..7
	CUnit  string   `json:"cu,omitempty"`
	CSName string   `json:"csn,omitempty"` // scope criteria: name, version, schema URL
	CSVer  string   `json:"csv,omitempty"`
	CSURL  string   `json:"csu,omitempty"`
	MName  string   `json:"mn,omitempty"`
	MDesc  string   `json:"md,omitempty"`
	MUnit  string   `json:"mu,omitempty"`
	Agg    int      `json:"agg,omitempty"` // 0 nil, 1 default, 2 drop, 3 sum, 4 last value, 5 histogram, 6 exponential histogram
	Filter bool     `json:"flt,omitempty"`
	Deny   bool     `json:"deny,omitempty"` // Keys is a deny-list (NewDenyKeysFilter) instead of an allow-list
	FKind  int      `json:"fk,omitempty"`   // 0 = by key (Keys), 1 = by value (Vals: encoded values such as "s", "i2", "b0"), 2 = by (key, value) pair (Pairs)
	Vals   []string `json:"vals,omitempty"`
	Pairs  []KV     `json:"pairs,omitempty"`
	Keys   []string `json:"keys,omitempty"`
}

type InstSpec struct {
	Name  string `json:"n"`
	Desc  string `json:"d,omitempty"`
	Unit  string `json:"u,omitempty"`
	Kind  int    `json:"k"` // 1 counter 2 updown 3 histogram 4 obs counter 5 obs updown 6 obs gauge 7 gauge
	Float bool   `json:"f,omitempty"`
	SName string `json:"sn,omitempty"` // instrumentation scope of the meter that creates it
	SVer  string `json:"sv,omitempty"`
	SURL  string `json:"su,omitempty"`
	OwnCB  bool  `json:"cb,omitempty"`  // observable: observations are made by a callback given at creation (else by the meter's RegisterCallback)
	Dup    bool  `json:"dup,omitempty"` // created twice; measurements alternate between the two handles
	Bounds int   `json:"bnd,omitempty"` // histogram: 1 = WithExplicitBucketBoundaries(1, 10), 2 = invalid boundaries (5, 1)
}

type Event struct {
	Collect bool  `json:"c,omitempty"`
	I       int   `json:"i,omitempty"`
	A       int   `json:"a,omitempty"`
	V       int64 `json:"v,omitempty"`
	NF      int   `json:"nf,omitempty"` // float64 instruments only: 1 = +Inf, 2 = -Inf, 3 = NaN recorded instead of V
}

type Scenario struct {
	L      int        `json:"L"`   // effective limit, 0 = unlimited
	Env    string     `json:"env"` // value of OTEL_GO_X_CARDINALITY_LIMIT ("" = unset)
	TMask  uint64     `json:"tmask"`
	Views  []ViewSpec `json:"views"`
	Insts  []InstSpec `json:"insts"`
	Pool   [][]KV     `json:"pool"`
	Events []Event    `json:"events"`
	Reuse  bool       `json:"reuse,omitempty"` // reuse one ResourceMetrics across collections
	RSel     []int  `json:"rsel,omitempty"`  // reader's aggregation selector: aggregation code per instrument kind (index 1..7); nil = none
	RSel2    []int  `json:"rsel2,omitempty"` // the same for the second reader
	R2       bool   `json:"r2,omitempty"`     // a second ManualReader (pipeline) with temporality mask TMask2
	TMask2   uint64 `json:"tmask2,omitempty"`
	EnvAfter string `json:"envafter,omitempty"` // value the environment variable is changed to after the instruments exist
	Unreg    int    `json:"unreg,omitempty"`    // the registered callbacks are unregistered before this collection (1-based)
	Note   string     `json:"note,omitempty"`
}

type PointObs struct {
	Attrs []KV  `json:"a"`
	Val   int64 `json:"v"`
	Cnt   uint64 `json:"c"`
	NF    bool   `json:"nf,omitempty"` // the reported value (sum / last value) is NaN or an infinity
	BC    []uint64 `json:"bc,omitempty"`  // explicit-bucket histograms: bucket counts, boundaries, min, max
	Bnd   []int64  `json:"bnd,omitempty"`
	Min   int64    `json:"min,omitempty"`
	Max   int64    `json:"max,omitempty"`
}

type MetricObs struct {
	Name   string     `json:"n"`
	Meta   int        `json:"m"`
	Points []PointObs `json:"p"`
}

type Result struct {
	Obs   [][]MetricObs `json:"obs"`
	Obs2  [][]MetricObs `json:"obs2,omitempty"` // what the second reader collected
	Pool  [][]KV        `json:"pool"` // canonical form of the scenario's attribute sets
	Panic string        `json:"panic,omitempty"`
	Odd   string        `json:"odd,omitempty"` // something the canonicaliser cannot express (inexact float, unknown data type)
}

// ---- running one scenario against the real SDK (child side) ----

func mkKV(x KV) attribute.KeyValue {
	switch x.T {
	case "b":
		return attribute.Bool(x.K, x.V == "1")
	case "i":
		n, _ := strconv.ParseInt(x.V, 10, 64)
		return attribute.Int64(x.K, n)
	default:
		return attribute.String(x.K, x.V)
	}
}

// encVal is the model's encoding of an attribute value: a type tag (b, i, s) followed by the value.
func encVal(kv attribute.KeyValue) string {
	switch kv.Value.Type() {
	case attribute.BOOL:
		if kv.Value.AsBool() {
			return "b1"
		}
		return "b0"
	case attribute.INT64:
		return "i" + strconv.FormatInt(kv.Value.AsInt64(), 10)
	case attribute.STRING:
		return "s" + kv.Value.AsString()
	}
	return "?" + kv.Value.Emit()
}

func canonSet(s attribute.Set) []KV {
	out := []KV{}
	it := s.Iter()
	for it.Next() {
		kv := it.Attribute()
		switch kv.Value.Type() {
		case attribute.BOOL:
			v := "0"
			if kv.Value.AsBool() {
				v = "1"
			}
			out = append(out, KV{string(kv.Key), "b", v})
		case attribute.INT64:
			out = append(out, KV{string(kv.Key), "i", strconv.FormatInt(kv.Value.AsInt64(), 10)})
		case attribute.STRING:
			out = append(out, KV{string(kv.Key), "s", kv.Value.AsString()})
		default:
			out = append(out, KV{string(kv.Key), "?", kv.Value.Emit()})
		}
	}
	return out
}

func aggregationOf(n int) sdkmetric.Aggregation {
	switch n {
	case 1:
		return sdkmetric.AggregationDefault{}
	case 2:
		return sdkmetric.AggregationDrop{}
	case 3:
		return sdkmetric.AggregationSum{}
	case 4:
		return sdkmetric.AggregationLastValue{}
	case 5:
		return sdkmetric.AggregationExplicitBucketHistogram{Boundaries: []float64{0, 5, 10, 25, 50, 100}}
	case 6:
		return sdkmetric.AggregationBase2ExponentialHistogram{MaxSize: 160, MaxScale: 20}
	case 7:
		return sdkmetric.AggregationExplicitBucketHistogram{Boundaries: []float64{5, 1}} // rejected by NewView: not used
	case 8:
		return sdkmetric.AggregationBase2ExponentialHistogram{MaxSize: 160, MaxScale: 21} // rejected by NewView: not used
	}
	return nil
}

// mval is one measurement value: the integer, and what a float64 instrument records for it
// (the same integer, or a non-finite value).
type mval struct {
	i int64
	f float64
}

func mkval(v int64, nf int) mval {
	switch nf {
	case 1:
		return mval{v, math.Inf(1)}
	case 2:
		return mval{v, math.Inf(-1)}
	case 3:
		return mval{v, math.NaN()}
	}
	return mval{v, float64(v)}
}

type staged struct {
	inst int
	v    int64
	set  attribute.Set
	mode int
}

const limitEnv = "OTEL_GO_X_CARDINALITY_LIMIT"

func setLimitEnv(v string) {
	if v == "" {
		os.Unsetenv(limitEnv)
	} else {
		os.Setenv(limitEnv, v)
	}
}

// attribute entry points: WithAttributeSet, WithAttributes, or no option at all for the empty set
func attrMode(evIdx int, s attribute.Set) int {
	m := evIdx % 3
	if m == 2 && s.Len() > 0 {
		m = 1
	}
	return m
}

func addOpts(mode int, s attribute.Set) []metric.AddOption {
	switch mode {
	case 0:
		return []metric.AddOption{metric.WithAttributeSet(s)}
	case 1:
		return []metric.AddOption{metric.WithAttributes(s.ToSlice()...)}
	}
	return nil
}

func recOpts(mode int, s attribute.Set) []metric.RecordOption {
	switch mode {
	case 0:
		return []metric.RecordOption{metric.WithAttributeSet(s)}
	case 1:
		return []metric.RecordOption{metric.WithAttributes(s.ToSlice()...)}
	}
	return nil
}

func obsOpts(mode int, s attribute.Set) []metric.ObserveOption {
	switch mode {
	case 0:
		return []metric.ObserveOption{metric.WithAttributeSet(s)}
	case 1:
		return []metric.ObserveOption{metric.WithAttributes(s.ToSlice()...)}
	}
	return nil
}

type syncRec func(ctx context.Context, v mval, mode int, s attribute.Set)

// makeSync creates (or, on a repeated call, looks up) a synchronous instrument and returns how to record on it.
func makeSync(m metric.Meter, is InstSpec) syncRec {
	d, u := metric.WithDescription(is.Desc), metric.WithUnit(is.Unit)
	switch {
	case is.Kind == 1 && !is.Float:
		c, _ := m.Int64Counter(is.Name, d, u)
		return func(ctx context.Context, v mval, mode int, s attribute.Set) { c.Add(ctx, v.i, addOpts(mode, s)...) }
	case is.Kind == 1:
		c, _ := m.Float64Counter(is.Name, d, u)
		return func(ctx context.Context, v mval, mode int, s attribute.Set) { c.Add(ctx, v.f, addOpts(mode, s)...) }
	case is.Kind == 2 && !is.Float:
		c, _ := m.Int64UpDownCounter(is.Name, d, u)
		return func(ctx context.Context, v mval, mode int, s attribute.Set) { c.Add(ctx, v.i, addOpts(mode, s)...) }
	case is.Kind == 2:
		c, _ := m.Float64UpDownCounter(is.Name, d, u)
		return func(ctx context.Context, v mval, mode int, s attribute.Set) { c.Add(ctx, v.f, addOpts(mode, s)...) }
	case is.Kind == 3 && !is.Float:
		ho := []metric.Int64HistogramOption{d, u}
		switch is.Bounds {
		case 1:
			ho = append(ho, metric.WithExplicitBucketBoundaries(1, 10))
		case 2:
			ho = append(ho, metric.WithExplicitBucketBoundaries(5, 1)) // not sorted: ignored with an error
		}
		c, _ := m.Int64Histogram(is.Name, ho...)
		return func(ctx context.Context, v mval, mode int, s attribute.Set) { c.Record(ctx, v.i, recOpts(mode, s)...) }
	case is.Kind == 3:
		ho := []metric.Float64HistogramOption{d, u}
		switch is.Bounds {
		case 1:
			ho = append(ho, metric.WithExplicitBucketBoundaries(1, 10))
		case 2:
			ho = append(ho, metric.WithExplicitBucketBoundaries(5, 1))
		}
		c, _ := m.Float64Histogram(is.Name, ho...)
		return func(ctx context.Context, v mval, mode int, s attribute.Set) { c.Record(ctx, v.f, recOpts(mode, s)...) }
	case is.Kind == 7 && !is.Float:
		c, _ := m.Int64Gauge(is.Name, d, u)
		return func(ctx context.Context, v mval, mode int, s attribute.Set) { c.Record(ctx, v.i, recOpts(mode, s)...) }
	case is.Kind == 7:
		c, _ := m.Float64Gauge(is.Name, d, u)
		return func(ctx context.Context, v mval, mode int, s attribute.Set) { c.Record(ctx, v.f, recOpts(mode, s)...) }
	}
	panic("harness: bad synchronous instrument kind")
}

func runScenario(sc Scenario) (res Result) {
	defer func() {
		if e := recover(); e != nil {
			res.Panic = fmt.Sprint(e)
		}
	}()
	ctx := context.Background()
	setLimitEnv(sc.Env) // read when an aggregator is created, not at process start
	mkReader := func(mask uint64, rsel []int) *sdkmetric.ManualReader {
		ro := []sdkmetric.ManualReaderOption{sdkmetric.WithTemporalitySelector(func(k sdkmetric.InstrumentKind) metricdata.Temporality {
			if mask>>uint(k)&1 == 1 {
				return metricdata.DeltaTemporality
			}
			return metricdata.CumulativeTemporality
		})}
		if rsel != nil {
			ro = append(ro, sdkmetric.WithAggregationSelector(func(k sdkmetric.InstrumentKind) sdkmetric.Aggregation {
				if int(k) < len(rsel) {
					return aggregationOf(rsel[k]) // may be nil, Default, or an aggregation that fails validation
				}
				return nil
			}))
		}
		return sdkmetric.NewManualReader(ro...)
	}
	readers := []*sdkmetric.ManualReader{mkReader(sc.TMask, sc.RSel)}
	if sc.R2 {
		readers = append(readers, mkReader(sc.TMask2, sc.RSel2)) // a second pipeline: every measurement reaches both, once each
	}
	var views []sdkmetric.View
	for _, v := range sc.Views {
		st := sdkmetric.Stream{Name: v.MName, Description: v.MDesc, Unit: v.MUnit, Aggregation: aggregationOf(v.Agg)}
		if v.Filter {
			keys := make([]attribute.Key, len(v.Keys))
			for i, k := range v.Keys {
				keys[i] = attribute.Key(k)
			}
			v := v
			switch {
			case v.FKind == 1: // a hand-written filter that looks at the VALUE
				st.AttributeFilter = func(kv attribute.KeyValue) bool {
					in := false
					for _, x := range v.Vals {
						in = in || x == encVal(kv)
					}
					return in != v.Deny
				}
			case v.FKind == 2: // ... or at the (key, value) pair
				st.AttributeFilter = func(kv attribute.KeyValue) bool {
					in := false
					for _, x := range v.Pairs {
						in = in || (x.K == string(kv.Key) && x.T+x.V == encVal(kv))
					}
					return in != v.Deny
				}
			case v.Deny:
				st.AttributeFilter = attribute.NewDenyKeysFilter(keys...)
			default:
				st.AttributeFilter = attribute.NewAllowKeysFilter(keys...)
			}
		}
		views = append(views, sdkmetric.NewView(sdkmetric.Instrument{Name: v.CName, Description: v.CDesc, Kind: sdkmetric.InstrumentKind(v.CKind), Unit: v.CUnit,
			Scope: instrumentation.Scope{Name: v.CSName, Version: v.CSVer, SchemaURL: v.CSURL}}, st))
	}
	opts := []sdkmetric.Option{sdkmetric.WithView(views...)}
	for _, r := range readers {
		opts = append(opts, sdkmetric.WithReader(r))
	}
	mp := sdkmetric.NewMeterProvider(opts...)
	defer mp.Shutdown(ctx)
	// one meter per instrumentation scope used by the scenario
	type scopeKey struct{ n, v, u string }
	meters := map[scopeKey]metric.Meter{}
	var meterOrder []scopeKey
	meterOf := func(is InstSpec) (metric.Meter, scopeKey) {
		k := scopeKey{is.SName, is.SVer, is.SURL}
		if m, ok := meters[k]; ok {
			return m, k
		}
		m := mp.Meter(is.SName, metric.WithInstrumentationVersion(is.SVer), metric.WithSchemaURL(is.SURL))
		meters[k] = m
		meterOrder = append(meterOrder, k)
		return m, k
	}

	sets := make([]attribute.Set, len(sc.Pool))
	for i, kvs := range sc.Pool {
		a := make([]attribute.KeyValue, len(kvs))
		for j, x := range kvs {
			a[j] = mkKV(x)
		}
		sets[i] = attribute.NewSet(a...)
		res.Pool = append(res.Pool, canonSet(sets[i]))
	}

	// instruments; creation errors (incompatible aggregation in a view) are part of the scenario
	recs := make([][]syncRec, len(sc.Insts)) // one handle, or two for an instrument created twice
	obsI := map[int]metric.Int64Observable{}
	obsF := map[int]metric.Float64Observable{}
	observables := map[scopeKey][]metric.Observable{}
	var pending []staged
	for idx, is := range sc.Insts {
		idx, is := idx, is
		m, mk := meterOf(is)
		d, u := metric.WithDescription(is.Desc), metric.WithUnit(is.Unit)
		if is.Kind <= 3 || is.Kind == 7 {
			recs[idx] = []syncRec{makeSync(m, is)}
			if is.Dup {
				recs[idx] = append(recs[idx], makeSync(m, is)) // same identity: the meter hands out the same instrument
			}
			continue
		}
		// observable instruments: either their own creation-time callback or the meter's registered callback
		ownI := func(_ context.Context, o metric.Int64Observer) error {
			for _, p := range pending {
				if p.inst == idx {
					o.Observe(p.v, obsOpts(p.mode, p.set)...)
				}
			}
			return nil
		}
		ownF := func(_ context.Context, o metric.Float64Observer) error {
			for _, p := range pending {
				if p.inst == idx {
					o.Observe(float64(p.v), obsOpts(p.mode, p.set)...)
				}
			}
			return nil
		}
		for rep := 0; rep < 1 || (is.Dup && rep < 2); rep++ {
			withCB := is.OwnCB && rep == 0
			switch {
			case is.Kind == 4 && !is.Float:
				o := []metric.Int64ObservableCounterOption{d, u}
				if withCB {
					o = append(o, metric.WithInt64Callback(ownI))
				}
				obsI[idx], _ = m.Int64ObservableCounter(is.Name, o...)
			case is.Kind == 4:
				o := []metric.Float64ObservableCounterOption{d, u}
				if withCB {
					o = append(o, metric.WithFloat64Callback(ownF))
				}
				obsF[idx], _ = m.Float64ObservableCounter(is.Name, o...)
			case is.Kind == 5 && !is.Float:
				o := []metric.Int64ObservableUpDownCounterOption{d, u}
				if withCB {
					o = append(o, metric.WithInt64Callback(ownI))
				}
				obsI[idx], _ = m.Int64ObservableUpDownCounter(is.Name, o...)
			case is.Kind == 5:
				o := []metric.Float64ObservableUpDownCounterOption{d, u}
				if withCB {
					o = append(o, metric.WithFloat64Callback(ownF))
				}
				obsF[idx], _ = m.Float64ObservableUpDownCounter(is.Name, o...)
			case is.Kind == 6 && !is.Float:
				o := []metric.Int64ObservableGaugeOption{d, u}
				if withCB {
					o = append(o, metric.WithInt64Callback(ownI))
				}
				obsI[idx], _ = m.Int64ObservableGauge(is.Name, o...)
			case is.Kind == 6:
				o := []metric.Float64ObservableGaugeOption{d, u}
				if withCB {
					o = append(o, metric.WithFloat64Callback(ownF))
				}
				obsF[idx], _ = m.Float64ObservableGauge(is.Name, o...)
			default:
				panic("harness: bad instrument kind")
			}
		}
		if is.OwnCB {
			continue
		}
		if o, ok := obsI[idx]; ok && o != nil {
			observables[mk] = append(observables[mk], o)
		}
		if o, ok := obsF[idx]; ok && o != nil {
			observables[mk] = append(observables[mk], o)
		}
	}
	// One registered callback per meter replays, in history order, the observations staged since the last collection
	// (aggregators are never shared between meters, so the order of the meters' callbacks does not matter).
	var regs []metric.Registration
	for _, mk := range meterOrder {
		if len(observables[mk]) == 0 {
			continue
		}
		mk := mk
		reg, err := meters[mk].RegisterCallback(func(_ context.Context, o metric.Observer) error {
			for _, p := range pending {
				if is := sc.Insts[p.inst]; is.OwnCB || (scopeKey{is.SName, is.SVer, is.SURL}) != mk {
					continue
				}
				if oi, ok := obsI[p.inst]; ok {
					o.ObserveInt64(oi, p.v, obsOpts(p.mode, p.set)...)
				} else if of, ok := obsF[p.inst]; ok {
					o.ObserveFloat64(of, float64(p.v), obsOpts(p.mode, p.set)...)
				}
			}
			return nil
		}, observables[mk]...)
		if err != nil {
			res.Odd = "RegisterCallback: " + err.Error()
		} else {
			regs = append(regs, reg)
		}
	}
	if sc.EnvAfter != "" {
		setLimitEnv(sc.EnvAfter) // the aggregators exist: a later change of the variable must not matter
	}

	shared := make([]*metricdata.ResourceMetrics, len(readers))
	for i := range shared {
		shared[i] = &metricdata.ResourceMetrics{}
	}
	res.Obs2 = nil
	collects := 0
	for evIdx, ev := range sc.Events {
		if !ev.Collect {
			mode := attrMode(evIdx, sets[ev.A])
			if hs := recs[ev.I]; hs != nil {
				hs[evIdx%len(hs)](ctx, mkval(ev.V, ev.NF), mode, sets[ev.A])
			} else {
				pending = append(pending, staged{ev.I, ev.V, sets[ev.A], mode})
			}
			continue
		}
		collects++
		if sc.Unreg > 0 && collects == sc.Unreg {
			for _, reg := range regs {
				if err := reg.Unregister(); err != nil {
					res.Odd = "Unregister: " + err.Error()
				}
				reg.Unregister() // a second Unregister is a no-op
			}
		}
		for ri, reader := range readers {
			rm := shared[ri]
			if !sc.Reuse {
				rm = &metricdata.ResourceMetrics{}
			}
			if err := reader.Collect(ctx, rm); err != nil {
				res.Odd = "Collect: " + err.Error()
			}
			if ri == 0 {
				res.Obs = append(res.Obs, extract(rm, &res))
			} else {
				res.Obs2 = append(res.Obs2, extract(rm, &res))
			}
		}
		pending = pending[:0]
	}
	return res
}

func nonFinite(f float64) bool { return math.IsNaN(f) || math.IsInf(f, 0) }

func f2i(f float64, res *Result) int64 {
	if nonFinite(f) {
		return 0 // flagged through PointObs.NF by the caller
	}
	n := int64(f)
	if float64(n) != f {
		res.Odd = fmt.Sprintf("inexact float value %v", f)
	}
	return n
}

func deltaFlag(t metricdata.Temporality) int {
	if t == metricdata.DeltaTemporality {
		return 100
	}
	return 0
}

func monoFlag(b bool) int {
	if b {
		return 10
	}
	return 0
}

func extract(rm *metricdata.ResourceMetrics, res *Result) []MetricObs {
	out := []MetricObs{}
	for _, sm := range rm.ScopeMetrics {
		for _, md := range sm.Metrics {
			mo := MetricObs{Name: sm.Scope.Name + "\x00" + sm.Scope.Version + "\x00" + sm.Scope.SchemaURL + "\x00" + md.Name, Points: []PointObs{}}
			switch d := md.Data.(type) {
			case metricdata.Sum[int64]:
				mo.Meta = monoFlag(d.IsMonotonic) + deltaFlag(d.Temporality)
				for _, p := range d.DataPoints {
					mo.Points = append(mo.Points, PointObs{Attrs: canonSet(p.Attributes), Val: p.Value, Cnt: 0, NF: false})
				}
			case metricdata.Sum[float64]:
				mo.Meta = monoFlag(d.IsMonotonic) + deltaFlag(d.Temporality)
				for _, p := range d.DataPoints {
					mo.Points = append(mo.Points, PointObs{Attrs: canonSet(p.Attributes), Val: f2i(p.Value, res), Cnt: 0, NF: nonFinite(p.Value)})
				}
			case metricdata.Gauge[int64]:
				mo.Meta = 1
				for _, p := range d.DataPoints {
					mo.Points = append(mo.Points, PointObs{Attrs: canonSet(p.Attributes), Val: p.Value, Cnt: 0, NF: false})
				}
			case metricdata.Gauge[float64]:
				mo.Meta = 1
				for _, p := range d.DataPoints {
					mo.Points = append(mo.Points, PointObs{Attrs: canonSet(p.Attributes), Val: f2i(p.Value, res), Cnt: 0, NF: nonFinite(p.Value)})
				}
			case metricdata.Histogram[int64]:
				mo.Meta = 2 + deltaFlag(d.Temporality)
				for _, p := range d.DataPoints {
					var bc uint64
					for _, c := range p.BucketCounts {
						bc += c
					}
					if bc != p.Count {
						res.Odd = fmt.Sprintf("histogram bucket counts add up to %d, Count is %d", bc, p.Count)
					}
					po := PointObs{Attrs: canonSet(p.Attributes), Val: p.Sum, Cnt: p.Count, BC: append([]uint64{}, p.BucketCounts...)}
					for _, b := range p.Bounds {
						po.Bnd = append(po.Bnd, f2i(b, res))
					}
					if mn, ok := p.Min.Value(); ok {
						po.Min = mn
					}
					if mx, ok := p.Max.Value(); ok {
						po.Max = mx
					}
					mo.Points = append(mo.Points, po)
				}
			case metricdata.Histogram[float64]:
				mo.Meta = 2 + deltaFlag(d.Temporality)
				for _, p := range d.DataPoints {
					var bc uint64
					for _, c := range p.BucketCounts {
						bc += c
					}
					if bc != p.Count {
						res.Odd = fmt.Sprintf("histogram bucket counts add up to %d, Count is %d", bc, p.Count)
					}
					po := PointObs{Attrs: canonSet(p.Attributes), Val: f2i(p.Sum, res), Cnt: p.Count, NF: nonFinite(p.Sum), BC: append([]uint64{}, p.BucketCounts...)}
					for _, b := range p.Bounds {
						po.Bnd = append(po.Bnd, f2i(b, res))
					}
					if mn, ok := p.Min.Value(); ok {
						po.Min = f2i(mn, res) // a non-finite min / max only occurs on points judged at count level
					}
					if mx, ok := p.Max.Value(); ok {
						po.Max = f2i(mx, res)
					}
					mo.Points = append(mo.Points, po)
				}
			case metricdata.ExponentialHistogram[int64]:
				mo.Meta = 3 + deltaFlag(d.Temporality)
				for _, p := range d.DataPoints {
					mo.Points = append(mo.Points, PointObs{Attrs: canonSet(p.Attributes), Val: p.Sum, Cnt: p.Count, NF: false})
				}
			case metricdata.ExponentialHistogram[float64]:
				mo.Meta = 3 + deltaFlag(d.Temporality)
				for _, p := range d.DataPoints {
					mo.Points = append(mo.Points, PointObs{Attrs: canonSet(p.Attributes), Val: f2i(p.Sum, res), Cnt: p.Count, NF: nonFinite(p.Sum)})
				}
			default:
				res.Odd = fmt.Sprintf("unknown metric data type %T", md.Data)
			}
			sort.SliceStable(mo.Points, func(i, j int) bool { return setKey(mo.Points[i].Attrs) < setKey(mo.Points[j].Attrs) })
			out = append(out, mo)
		}
	}
	return out
}

func setKey(a []KV) string {
	var sb strings.Builder
	for _, x := range a {
		sb.WriteString(x.K)
		sb.WriteByte(0)
		sb.WriteString(x.T)
		sb.WriteString(x.V)
		sb.WriteByte(1)
	}
	return sb.String()
}

func childMain() {
	otel.SetLogger(logr.Discard())
	otel.SetErrorHandler(otel.ErrorHandlerFunc(func(error) {}))
	in, err := io.ReadAll(os.Stdin)
	if err != nil {
		os.Exit(3)
	}
	var job childJob
	if err := json.Unmarshal(in, &job); err != nil {
		fmt.Fprintln(os.Stderr, "child: bad input:", err)
		os.Exit(3)
	}
	var out childOut
	out.Res = make([]Result, len(job.Scs))
	for i, sc := range job.Scs {
		out.Res[i] = runScenario(sc)
	}
	out.Conc = make([]ConcResult, len(job.Conc))
	for i, cr := range job.Conc {
		out.Conc[i] = runConc(cr)
	}
	b, _ := json.Marshal(out)
	os.Stdout.Write(b)
}

type childJob struct {
	Scs  []Scenario  `json:"scs"`
	Conc []ConcRound `json:"conc"`
}

type childOut struct {
	Res  []Result     `json:"res"`
	Conc []ConcResult `json:"conc"`
}

// ---- concurrent recording under a limit (free-running fragment) ----
//
// One round: a fresh provider, one instrument; the main goroutine records Prefill distinct sets (the
// aggregator is then one slot from the limit), G goroutines are released together and each records its
// list, starting with a set nobody has recorded yet; one Collect follows.  The points are judged by
// order-independent clauses only (Spec.order_free_b), so the unchanged code can never fail a round.

type ConcRec struct {
	A int   `json:"a"`
	V int64 `json:"v"`
}

type ConcRound struct {
	L       int         `json:"L"`
	Env     string      `json:"env"`
	Kind    int         `json:"k"`   // 1 counter, 2 up-down counter, 3 histogram, 7 gauge
	Agg     int         `json:"agg"` // 0 default, 3 sum, 5 explicit histogram, 6 exponential histogram
	Delta   bool        `json:"delta"`
	Float   bool        `json:"f,omitempty"`
	NSets   int         `json:"nsets"`
	Prefill []ConcRec   `json:"prefill"`
	Recs    [][]ConcRec `json:"recs"` // per goroutine
	Reps    int         `json:"reps"` // the round is repeated on fresh providers; the most suspicious observation is the one reported
}

type ConcResult struct {
	Metrics int        `json:"metrics"`
	Meta    int        `json:"m"`
	Points  []PointObs `json:"p"`
	Panic   string     `json:"panic,omitempty"`
	Odd     string     `json:"odd,omitempty"`
}

// runConc repeats the round and returns the observation to be judged: the first one that looks wrong to a
// cheap pre-check (more than L points, totals or counts off), else the last one.  The pre-check only selects;
// the verdict on the selected observation is Spec.order_free_b's.
func runConc(cr ConcRound) (res ConcResult) {
	setLimitEnv(cr.Env)
	var total int64
	var n uint64
	for _, p := range cr.Prefill {
		total += p.V
		n++
	}
	for _, l := range cr.Recs {
		for _, x := range l {
			total += x.V
			n++
		}
	}
	for i := 0; i < max(1, cr.Reps); i++ {
		res = runConcOnce(cr)
		if res.Panic != "" || res.Odd != "" || res.Metrics != 1 || len(res.Points) > cr.L {
			return res
		}
		var sv int64
		var sc uint64
		for _, p := range res.Points {
			sv += p.Val
			sc += p.Cnt
		}
		tag := res.Meta % 10
		nosum := cr.Kind == 2 || cr.Kind == 7
		if (tag == 0 && sv != total) || ((tag == 2 || tag == 3) && (sc != n || (!nosum && sv != total))) {
			return res
		}
	}
	return res
}

func runConcOnce(cr ConcRound) (res ConcResult) {
	defer func() {
		if e := recover(); e != nil {
			res.Panic = fmt.Sprint(e)
		}
	}()
	ctx := context.Background()
	reader := sdkmetric.NewManualReader(sdkmetric.WithTemporalitySelector(func(sdkmetric.InstrumentKind) metricdata.Temporality {
		if cr.Delta {
			return metricdata.DeltaTemporality
		}
		return metricdata.CumulativeTemporality
	}))
	opts := []sdkmetric.Option{sdkmetric.WithReader(reader)}
	if cr.Agg != 0 {
		opts = append(opts, sdkmetric.WithView(sdkmetric.NewView(sdkmetric.Instrument{Name: "c"}, sdkmetric.Stream{Aggregation: aggregationOf(cr.Agg)})))
	}
	mp := sdkmetric.NewMeterProvider(opts...)
	defer mp.Shutdown(ctx)
	m := mp.Meter("conc")
	sets := make([]attribute.Set, cr.NSets)
	for i := range sets {
		sets[i] = attribute.NewSet(attribute.Int("id", i))
	}
	var rec func(v int64, s attribute.Set)
	switch {
	case cr.Kind == 1 && !cr.Float:
		c, _ := m.Int64Counter("c")
		rec = func(v int64, s attribute.Set) { c.Add(ctx, v, metric.WithAttributeSet(s)) }
	case cr.Kind == 1:
		c, _ := m.Float64Counter("c")
		rec = func(v int64, s attribute.Set) { c.Add(ctx, float64(v), metric.WithAttributeSet(s)) }
	case cr.Kind == 2 && !cr.Float:
		c, _ := m.Int64UpDownCounter("c")
		rec = func(v int64, s attribute.Set) { c.Add(ctx, v, metric.WithAttributeSet(s)) }
	case cr.Kind == 2:
		c, _ := m.Float64UpDownCounter("c")
		rec = func(v int64, s attribute.Set) { c.Add(ctx, float64(v), metric.WithAttributeSet(s)) }
	case cr.Kind == 3 && !cr.Float:
		c, _ := m.Int64Histogram("c")
		rec = func(v int64, s attribute.Set) { c.Record(ctx, v, metric.WithAttributeSet(s)) }
	case cr.Kind == 3:
		c, _ := m.Float64Histogram("c")
		rec = func(v int64, s attribute.Set) { c.Record(ctx, float64(v), metric.WithAttributeSet(s)) }
	case cr.Kind == 7 && !cr.Float:
		c, _ := m.Int64Gauge("c")
		rec = func(v int64, s attribute.Set) { c.Record(ctx, v, metric.WithAttributeSet(s)) }
	default:
		c, _ := m.Float64Gauge("c")
		rec = func(v int64, s attribute.Set) { c.Record(ctx, float64(v), metric.WithAttributeSet(s)) }
	}
	for _, p := range cr.Prefill {
		rec(p.V, sets[p.A])
	}
	// spin barrier: every goroutine is running before any of them records
	var ready, goFlag atomic.Int32
	var wg sync.WaitGroup
	for g := range cr.Recs {
		wg.Add(1)
		go func(list []ConcRec) {
			defer wg.Done()
			ready.Add(1)
			for goFlag.Load() == 0 {
				runtime.Gosched()
			}
			for _, x := range list {
				rec(x.V, sets[x.A])
			}
		}(cr.Recs[g])
	}
	for int(ready.Load()) < len(cr.Recs) {
		runtime.Gosched()
	}
	goFlag.Store(1)
	wg.Wait()
	var rm metricdata.ResourceMetrics
	if err := reader.Collect(ctx, &rm); err != nil {
		res.Odd = "Collect: " + err.Error()
	}
	var tmp Result
	for _, mo := range extract(&rm, &tmp) {
		res.Metrics++
		res.Meta = mo.Meta
		res.Points = mo.Points
	}
	if tmp.Odd != "" {
		res.Odd = tmp.Odd
	}
	return res
}

func genConc(r *vgen.Rand, combo int) ConcRound {
	L := 2 + r.Intn(4)
	cr := ConcRound{L: L, Env: strconv.Itoa(L), Delta: combo%2 == 1, Float: r.Chance(1, 4)}
	switch combo / 2 % 6 {
	case 0:
		cr.Kind = 1 // sum
	case 1:
		cr.Kind = 7 // last value
	case 2:
		cr.Kind = 3 // explicit bucket histogram
	case 3:
		cr.Kind, cr.Agg = 3, 6 // exponential histogram
	case 4:
		cr.Kind, cr.Agg = 2, 5 // histogram without a sum
	case 5:
		cr.Kind, cr.Agg = 1, 6 // counter as exponential histogram
	}
	G := 4 + r.Intn(5)
	val := func() int64 {
		if cr.Kind == 2 || cr.Kind == 7 {
			return int64(r.Intn(41)) - 20
		}
		return int64(1 + r.Intn(40))
	}
	// prefill so that exactly one more new set fits under the limit (sometimes none, sometimes two)
	pre := max(0, L-2-r.Intn(2)+r.Intn(2))
	if pre > L-1 {
		pre = L - 1
	}
	next := 0
	for i := 0; i < pre; i++ {
		cr.Prefill = append(cr.Prefill, ConcRec{next, val()})
		next++
	}
	shared := next // one set every goroutine also records (new to the aggregator as well)
	next++
	for g := 0; g < G; g++ {
		list := []ConcRec{{next, val()}} // first measurement: a set nobody has recorded yet
		next++
		for k := r.Intn(4); k > 0; k-- {
			switch r.Intn(3) {
			case 0:
				list = append(list, ConcRec{shared, val()})
			case 1:
				list = append(list, ConcRec{r.Intn(next), val()})
			default:
				list = append(list, ConcRec{next, val()})
				next++
			}
		}
		cr.Recs = append(cr.Recs, list)
	}
	cr.NSets = next
	cr.Reps = 30
	return cr
}

func concTerm(cr ConcRound, res ConcResult) string {
	var sets, vals, pts []string
	for i := 0; i < cr.NSets; i++ {
		sets = append(sets, setCoq([]KV{{"id", "i", strconv.Itoa(i)}}))
	}
	for _, p := range cr.Prefill {
		vals = append(vals, vgen.Z(p.V))
	}
	for _, l := range cr.Recs {
		for _, x := range l {
			vals = append(vals, vgen.Z(x.V))
		}
	}
	for _, p := range res.Points {
		pts = append(pts, vgen.Pair(setCoq(p.Attrs), vgen.Pair(vgen.Z(p.Val), vgen.N(p.Cnt))))
	}
	tag := res.Meta % 10
	hist := tag == 2 || tag == 3
	nosum := cr.Kind == 2 || cr.Kind == 7
	sums := (tag == 0 || hist) && !(hist && nosum)
	return vgen.App("CConc", vgen.N(uint64(cr.L)), vgen.Bool(sums), vgen.Bool(hist), vgen.Bool(tag == 1),
		vgen.List(sets), vgen.List(vals), vgen.List(pts))
}

// ---- generator (parent side) ----

var keyPool = []string{"a", "b", "c", "k", "otel.metric.overflow"}

func genValue(r *vgen.Rand) (string, string) {
	switch r.Intn(6) {
	case 0:
		return "b", vgen.Pick(r, []string{"0", "1"})
	case 1, 2:
		return "i", strconv.Itoa(r.Intn(4))
	default:
		return "s", vgen.Pick(r, []string{"x", "y", "z", "", "true"})
	}
}

var overflowKV = KV{"otel.metric.overflow", "b", "1"}

// genSet draws one attribute set (possibly unsorted, possibly with a repeated key).
func genSet(r *vgen.Rand, serial int) []KV {
	switch r.Intn(40) {
	case 0:
		return []KV{overflowKV} // a user set equal to the overflow set
	case 1:
		return []KV{{"otel.metric.overflow", "s", "true"}}
	case 2:
		return []KV{overflowKV, {"a", "i", strconv.Itoa(serial % 3)}}
	case 3:
		return []KV{}
	}
	if r.Chance(1, 20) { // 11..14 attributes
		var out []KV
		for j := 0; j < 11+r.Intn(4); j++ {
			t, v := genValue(r)
			out = append(out, KV{fmt.Sprintf("w%02d", j), t, v})
		}
		out[r.Intn(len(out))].K = keyPool[r.Intn(4)]
		if r.Bool() {
			out = append(out, KV{"id", "i", strconv.Itoa(serial)})
		}
		return out
	}
	n := 1 + r.Intn(3)
	var out []KV
	for j := 0; j < n; j++ {
		k := keyPool[r.Intn(4)]
		t, v := genValue(r)
		out = append(out, KV{k, t, v})
	}
	if r.Chance(1, 2) { // make the set distinct from its predecessors through one key while others collide under filters
		out = append(out, KV{"id", "i", strconv.Itoa(serial)})
	}
	return out
}

func genPool(r *vgen.Rand, n int) [][]KV {
	seen := map[string]bool{}
	var pool [][]KV
	for tries := 0; len(pool) < n && tries < 40*n; tries++ {
		s := genSet(r, len(pool))
		a := make([]attribute.KeyValue, len(s))
		for j, x := range s {
			a[j] = mkKV(x)
		}
		key := setKey(canonSet(attribute.NewSet(a...)))
		if seen[key] {
			continue
		}
		seen[key] = true
		pool = append(pool, s)
	}
	for len(pool) < n { // fall back to serial-numbered sets
		pool = append(pool, []KV{{"id", "i", strconv.Itoa(1000 + len(pool))}})
	}
	return pool
}

// "qxlen" is the near miss of "q.len" for patterns whose "." must stay literal; "9z" and "_x" are names the API reports as
// invalid while still handing out a working instrument
var instNames = []string{"req", "lat", "Req", "q.len", "qxlen", "rx", "ab", "abc", "9z", "_x"}

type scopeSpec struct{ n, v, u string }

var scopePool = []scopeSpec{{"lib-a", "", ""}, {"lib-b", "", ""}, {"lib-a", "1.0", ""}, {"lib-a", "2.0", ""},
	{"lib-a", "1.0", "https://s/1"}, {"lib-b", "1.0", "https://s/2"}, {"lib-a", "", "https://s/1"}}

func genInsts(r *vgen.Rand) []InstSpec {
	n := vgen.Pick(r, []int{1, 1, 1, 2, 2, 3, 4})
	// scopes (meters) of the scenario: one, or (about 45%) two or three; with several scopes the
	// same instrument name tends to be created on more than one of them
	scopes := []scopeSpec{scopePool[r.Intn(len(scopePool))]}
	if r.Chance(9, 20) {
		n = max(n, 2)
		for k := 1 + r.Intn(2); k > 0; k-- {
			scopes = append(scopes, scopePool[r.Intn(len(scopePool))])
		}
	}
	seen := map[string]bool{}
	var out []InstSpec
	for len(out) < n {
		is := InstSpec{Name: vgen.Pick(r, instNames), Kind: 1 + r.Intn(7), Float: r.Chance(1, 4)}
		sc := scopes[r.Intn(len(scopes))]
		if len(out) > 0 && len(scopes) > 1 && r.Chance(1, 2) { // same instrument, other meter
			is = out[r.Intn(len(out))]
		}
		is.SName, is.SVer, is.SURL = sc.n, sc.v, sc.u
		if len(out) == 0 && r.Chance(1, 2) {
			is.Kind = vgen.Pick(r, []int{1, 1, 2, 3})
		}
		if r.Chance(1, 5) {
			is.Desc = vgen.Pick(r, []string{"d1", "d2"})
		}
		if r.Chance(1, 5) {
			is.Unit = vgen.Pick(r, []string{"ms", "By"})
		}
		is.OwnCB, is.Dup, is.Bounds = false, false, 0
		if is.Kind >= 4 && is.Kind <= 6 {
			is.OwnCB = r.Chance(1, 3)
		}
		is.Dup = r.Chance(1, 6)
		if is.Kind == 3 && r.Chance(1, 3) {
			is.Bounds = 1 + r.Intn(2)
		}
		key := fmt.Sprintf("%s|%s|%s|%d|%v|%s|%s|%s", is.Name, is.Desc, is.Unit, is.Kind, is.Float, is.SName, is.SVer, is.SURL)
		if seen[key] {
			continue
		}
		seen[key] = true
		out = append(out, is)
	}
	return out
}

func genKeys(r *vgen.Rand) []string {
	switch r.Intn(8) {
	case 0:
		return []string{} // allow nothing: every set collapses to the empty set
	case 1:
		return []string{"a", "b", "c", "k", "id", "otel.metric.overflow"}
	case 4:
		return []string{"w00", "w03", "w10", "w12", "a", "id"}
	case 2:
		return []string{"id"}
	case 3:
		return []string{"otel.metric.overflow"}
	}
	var ks []string
	for _, k := range []string{"a", "b", "c", "k"} {
		if r.Bool() {
			ks = append(ks, k)
		}
	}
	if ks == nil {
		ks = []string{"a"}
	}
	return ks
}

func genViews(r *vgen.Rand, insts []InstSpec) []ViewSpec {
	n := vgen.Pick(r, []int{0, 1, 1, 2, 2, 2, 3, 4})
	var out []ViewSpec
	for j := 0; j < n; j++ {
		target := insts[r.Intn(len(insts))]
		v := ViewSpec{CName: target.Name}
		switch r.Intn(12) {
		case 0, 5:
			v.CName = vgen.Pick(r, []string{"*", "r*", "?eq", "*e*", "a?", "ab*", "l?t", "R*", "??", "a*c", "?e?", "*q", "q.l*", "q.?en", "q?len", "*.len", "q.*"})
		case 1:
			v.CName = ""
			v.CKind = target.Kind
		case 2:
			v.CKind = target.Kind
		case 3:
			v.CName = ""
			v.CUnit = vgen.Pick(r, []string{"ms", "By"})
		case 4:
			v.CName = "" // empty criteria (unless a kind/unit is added below): refused by NewView
		}
		// scope and description criteria: the target's own (so the view applies to it only), or a near miss
		if r.Chance(2, 5) {
			other := scopePool[r.Intn(len(scopePool))]
			switch r.Intn(7) {
			case 0, 1:
				v.CSName = target.SName
			case 2:
				v.CSName, v.CSVer = target.SName, target.SVer
			case 3:
				v.CSName, v.CSVer, v.CSURL = target.SName, target.SVer, target.SURL
			case 4:
				v.CSVer = vgen.Pick(r, []string{"1.0", "2.0", target.SVer})
			case 5:
				v.CSURL = vgen.Pick(r, []string{"https://s/1", "https://s/2", target.SURL})
			case 6:
				v.CSName, v.CSVer, v.CSURL = other.n, other.v, other.u
			}
			if r.Chance(1, 3) && v.MName == "" { // scope-only or scope + wildcard
				v.CName = vgen.Pick(r, []string{"", "*", "r*", "?eq", "a*"})
			}
		}
		if r.Chance(1, 8) {
			v.CDesc = vgen.Pick(r, []string{"d1", "d2", target.Desc})
		}
		switch r.Intn(10) {
		case 0, 1, 2: // rename
			v.MName = vgen.Pick(r, []string{"out", "Out", "z", "req", "lat"})
		case 3:
			v.MDesc = "D"
		case 4:
			v.MUnit = "u"
		}
		switch r.Intn(10) {
		case 0:
			v.Agg = 1
		case 1, 2:
			v.Agg = 2
		case 3:
			v.Agg = 3
		case 4:
			v.Agg = 4
		case 5:
			v.Agg = 5
		case 6:
			v.Agg = 6
		case 7:
			v.Agg = vgen.Pick(r, []int{7, 8, 7, 8, 0}) // an aggregation NewView rejects
		}
		if r.Chance(1, 2) {
			v.Filter = true
			v.Keys = genKeys(r)
			v.Deny = r.Chance(1, 3)
			switch r.Intn(6) {
			case 0: // by value: e.g. drop empty strings, keep only small ints, keep only true
				v.FKind = 1
				v.Vals = vgen.Pick(r, [][]string{{"s"}, {"i0", "i1", "i2"}, {"b1"}, {"sx", "sy"}, {"i3", "strue", "b0"}, {}})
			case 1: // by (key, value) pair
				v.FKind = 2
				for n := 1 + r.Intn(3); n > 0; n-- {
					t, val := genValue(r)
					v.Pairs = append(v.Pairs, KV{keyPool[r.Intn(4)], t, val})
				}
			}
		}
		if strings.ContainsAny(v.CName, "*?") && r.Chance(3, 4) {
			v.MName = "" // keep most wildcard views usable (a wildcard view with a name is refused)
		}
		out = append(out, v)
	}
	return out
}

// Spellings of the environment variable and the limit strconv.Atoi makes of them (0 = no limit: unset, not a number, <= 0).
var limits = []struct {
	L   int
	Env string
}{{1, "1"}, {2, "2"}, {3, "3"}, {5, "5"}, {10, "10"}, {0, ""}, {0, "0"}, {0, "-4"}, {0, "many"}, {4, "4"}, {7, "7"},
	{3, "+3"}, {7, "007"}, {0, " 2"}, {0, "2 "}, {0, "1e1"}, {0, "0x3"}, {0, "3.0"}, {2, "2"}, {3, "3"}, {1, "1"}}

func genHistory(r *vgen.Rand, sc *Scenario, maxPerCycle int) {
	n := len(sc.Pool)
	cycles := 1 + r.Intn(6)
	perm := make([]int, n)
	for i := range perm {
		perm[i] = i
	}
	lastCycle := map[int]bool{}
	for c := 0; c < cycles; c++ {
		var order []int
		switch r.Intn(8) {
		case 0: // every set once, ascending
			order = append(order, perm...)
		case 1: // descending
			for i := n - 1; i >= 0; i-- {
				order = append(order, i)
			}
		case 2: // a fresh shuffle
			p := append([]int(nil), perm...)
			for i := n - 1; i > 0; i-- {
				j := r.Intn(i + 1)
				p[i], p[j] = p[j], p[i]
			}
			order = p
		case 3: // a few sets over and over, then the rest
			k := 1 + r.Intn(3)
			for i := 0; i < 6; i++ {
				order = append(order, r.Intn(min(k, n)))
			}
			order = append(order, perm...)
		case 4: // only sets that did not appear in the previous cycle, then one that did
			for _, i := range perm {
				if !lastCycle[i] {
					order = append(order, i)
				}
			}
			order = append(order, r.Intn(n))
		case 5: // empty cycle
		default: // random draws with repeats
			m := 1 + r.Intn(maxPerCycle)
			for i := 0; i < m; i++ {
				order = append(order, r.Intn(n))
			}
		}
		if len(order) > maxPerCycle {
			start := r.Intn(len(order) - maxPerCycle + 1)
			order = order[start : start+maxPerCycle]
		}
		lastCycle = map[int]bool{}
		for _, a := range order {
			lastCycle[a] = true
			i := 0
			if len(sc.Insts) > 1 && r.Chance(1, 2) {
				i = r.Intn(len(sc.Insts))
			}
			var v int64
			switch sc.Insts[i].Kind {
			case 1, 3, 4:
				v = int64(r.Intn(60))
			default:
				v = int64(r.Intn(101)) - 50
			}
			if r.Chance(1, 25) {
				v = v * (1 << 33)
			}
			nf := 0
			if is := sc.Insts[i]; is.Float && (is.Kind <= 3 || is.Kind == 7) && r.Chance(1, 9) {
				nf = 1 + r.Intn(3)
			}
			sc.Events = append(sc.Events, Event{I: i, A: a, V: v, NF: nf})
		}
		sc.Events = append(sc.Events, Event{Collect: true})
	}
}

func genScenario(r *vgen.Rand, thorough bool) Scenario {
	lim := limits[r.Intn(len(limits))]
	sc := Scenario{L: lim.L, Env: lim.Env, Reuse: r.Bool()}
	sc.TMask = vgen.Pick(r, []uint64{0, 0xfe, 0xfe, 1<<1 | 1<<3 | 1<<4 | 1<<6 | 1<<7, r.U64() & 0xfe})
	genSel := func() []int {
		sel := make([]int, 8)
		for k := 1; k <= 7; k++ {
			sel[k] = vgen.Pick(r, []int{0, 1, 2, 2, 3, 4, 5, 6, 7, 8, 0, 1})
		}
		return sel
	}
	if r.Chance(1, 3) { // the reader prefers other aggregations than the default ones
		sc.RSel = genSel()
	}
	if r.Chance(1, 5) { // a second reader with its own temporality
		sc.R2 = true
		sc.TMask2 = vgen.Pick(r, []uint64{0, 0xfe, 1<<1 | 1<<3 | 1<<4 | 1<<6 | 1<<7, r.U64() & 0xfe})
		if r.Bool() {
			sc.RSel2 = genSel()
		}
		// meter.int64ObservableInstrument stops at the first pipeline that returns an error, so an observable instrument
		// the first reader cannot aggregate is never inserted into the second pipeline; the model treats readers
		// independently, therefore both readers get the same preference for the observable kinds.
		if sc.RSel != nil || sc.RSel2 != nil {
			if sc.RSel2 == nil {
				sc.RSel2 = make([]int, 8)
			}
			for k := 4; k <= 6; k++ {
				sc.RSel2[k] = selOf(sc.RSel, k)
			}
		}
	}
	if r.Chance(1, 6) { // the variable changes after the instruments exist
		sc.EnvAfter = vgen.Pick(r, []string{"1", "2", "100", "0", "x"})
	}
	if r.Chance(1, 8) {
		sc.Unreg = 1 + r.Intn(3)
	}
	sc.Insts = genInsts(r)
	sc.Views = genViews(r, sc.Insts)
	if sc.RSel != nil || sc.RSel2 != nil { // under such a reader, views asking for AggregationDefault{} / nothing / something explicit
		for j := range sc.Views {
			if r.Chance(1, 3) {
				sc.Views[j].Agg = vgen.Pick(r, []int{1, 1, 0, 3, 5})
			}
		}
	}
	// number of distinct attribute sets: around the limit, or anything in 1..30
	n := 1 + r.Intn(12)
	if lim.L > 0 && r.Chance(1, 2) {
		n = max(1, lim.L-2+r.Intn(5))
	}
	if r.Chance(1, 8) {
		n = 1 + r.Intn(30)
	}
	sc.Pool = genPool(r, n)
	mpc := 14
	if thorough {
		mpc = 40
	}
	genHistory(r, &sc, mpc)
	return sc
}

// fixed corpus: boundary shapes derived from the case splits of the proofs (run first, every run)
func corpus() []Scenario {
	id := func(n int) []KV { return []KV{{"id", "i", strconv.Itoa(n)}} }
	ab := func(a, b int) []KV { return []KV{{"a", "i", strconv.Itoa(a)}, {"b", "i", strconv.Itoa(b)}} }
	meas := func(xs ...int) []Event {
		var out []Event
		for _, x := range xs {
			if x < 0 {
				out = append(out, Event{Collect: true})
			} else {
				out = append(out, Event{A: x, V: int64(x + 1)})
			}
		}
		return out
	}
	counter := []InstSpec{{Name: "req", Kind: 1}}
	var out []Scenario
	for _, tm := range []uint64{0, 0xfe} {
		// L = 1: everything overflows; L = 2/3: boundary at L-1; re-admission after a delta reset in another order
		for _, L := range []int{1, 2, 3} {
			out = append(out, Scenario{L: L, Env: strconv.Itoa(L), TMask: tm, Insts: counter,
				Pool: [][]KV{id(0), id(1), id(2), id(3)}, Events: meas(0, 1, 2, 3, 0, -1, 3, 2, 1, 0, -1, -1, 1, -1),
				Note: "boundary at L-1 and re-admission after reset"})
		}
		// a user set equal to the overflow set: first, in the middle, after the limit was reached
		for _, ord := range [][]int{{0, 1, 2, 3, -1, 1, 2, -1}, {1, 0, 2, 3, -1, 0, -1}, {1, 2, 3, 0, -1, 0, 1, -1}} {
			out = append(out, Scenario{L: 3, Env: "3", TMask: tm, Insts: counter,
				Pool: [][]KV{{overflowKV}, id(1), id(2), id(3)}, Events: meas(ord...), Note: "user set equals the overflow set"})
		}
		// filter merges and limit on the filtered sets
		out = append(out, Scenario{L: 2, Env: "2", TMask: tm, Insts: counter,
			Views: []ViewSpec{{CName: "req", Filter: true, Keys: []string{"a"}}},
			Pool:  [][]KV{ab(0, 0), ab(0, 1), ab(1, 0), ab(1, 1), ab(2, 0)}, Events: meas(0, 1, 2, 3, 4, -1, 4, 3, 2, -1),
			Note: "filtered sets coincide; limit counts filtered sets"})
		// two views, distinct names; two views, same identity (different filters); drop first then same name; rename collision in casing
		out = append(out, Scenario{L: 0, Env: "", TMask: tm, Insts: counter,
			Views: []ViewSpec{{CName: "req", MName: "x"}, {CName: "req", MName: "y", Agg: 5}, {CName: "r*", Filter: true, Keys: []string{}}},
			Pool:  [][]KV{ab(0, 0), ab(0, 1)}, Events: meas(0, 1, 0, -1, 1, -1), Note: "three matching views, three streams"})
		out = append(out, Scenario{L: 0, Env: "0", TMask: tm, Insts: counter,
			Views: []ViewSpec{{CName: "req", MName: "x", Filter: true, Keys: []string{"a"}}, {CName: "req", MName: "X", Filter: true, Keys: []string{"b"}}},
			Pool:  [][]KV{ab(0, 0), ab(0, 1), ab(1, 1)}, Events: meas(0, 1, 2, -1, 2, -1), Note: "two views, one identity: merged, not doubled"})
		out = append(out, Scenario{L: 0, Env: "", TMask: tm, Insts: counter,
			Views: []ViewSpec{{CName: "req", Agg: 2}, {CName: "req"}},
			Pool:  [][]KV{ab(0, 0)}, Events: meas(0, 0, -1, 0, -1), Note: "drop first, same identity second"})
		out = append(out, Scenario{L: 0, Env: "", TMask: tm, Insts: counter,
			Views: []ViewSpec{{CName: "req", Agg: 2}, {CName: "req", MName: "kept"}},
			Pool:  [][]KV{ab(0, 0)}, Events: meas(0, 0, -1, 0, -1), Note: "drop and a renamed second stream"})
		out = append(out, Scenario{L: 3, Env: "3", TMask: tm, Insts: []InstSpec{{Name: "a1", Kind: 1}, {Name: "a2", Kind: 1}},
			Views: []ViewSpec{{CName: "a1", MName: "z"}, {CName: "a2", MName: "Z"}},
			Pool:  [][]KV{id(0), id(1), id(2)}, Events: []Event{{I: 0, A: 0, V: 1}, {I: 1, A: 1, V: 2}, {I: 0, A: 2, V: 4}, {I: 1, A: 0, V: 8}, {Collect: true}, {I: 1, A: 2, V: 16}, {Collect: true}},
			Note: "two instruments renamed into one stream"})
		// observable instruments: limit applies per collection, sets forgotten every cycle
		out = append(out, Scenario{L: 2, Env: "2", TMask: tm, Insts: []InstSpec{{Name: "oc", Kind: 4}, {Name: "og", Kind: 6}},
			Pool: [][]KV{id(0), id(1), id(2)}, Events: []Event{{I: 0, A: 0, V: 5}, {I: 0, A: 1, V: 6}, {I: 1, A: 2, V: 7}, {I: 1, A: 1, V: 8}, {Collect: true},
				{I: 0, A: 1, V: 9}, {I: 0, A: 0, V: 9}, {I: 0, A: 1, V: 1}, {Collect: true}, {Collect: true}, {I: 0, A: 2, V: 3}, {Collect: true}},
			Note: "observable counter and gauge under a limit"})
		// every synchronous kind re-aggregated
		out = append(out, Scenario{L: 2, Env: "2", TMask: tm, Insts: []InstSpec{{Name: "h", Kind: 3}, {Name: "g", Kind: 7}, {Name: "u", Kind: 2, Float: true}},
			Views: []ViewSpec{{CName: "h", Agg: 3}, {CName: "h", MName: "h2", Agg: 6}, {CName: "g", Agg: 5}, {CName: "u", Agg: 4}},
			Pool:  [][]KV{id(0), id(1), id(2)}, Events: []Event{{I: 0, A: 0, V: 5}, {I: 1, A: 1, V: -6}, {I: 2, A: 2, V: 7}, {I: 0, A: 1, V: 8}, {I: 0, A: 2, V: 1}, {I: 1, A: 0, V: 2}, {I: 1, A: 2, V: 3}, {Collect: true},
				{I: 2, A: 1, V: -9}, {I: 0, A: 2, V: 9}, {Collect: true}},
			Note: "histogram as sum and exponential histogram, gauge as histogram, incompatible last-value on an up-down counter"})
	}
	// F-C12-2 (fixed by 34e0642): a no-sum histogram must not inherit the Sum of the metric that used its slot before
	out = append(out, Scenario{L: 0, Env: "", TMask: 8, Reuse: true, Insts: []InstSpec{{Name: "h", Kind: 3}, {Name: "g", Kind: 7}},
		Views: []ViewSpec{{CName: "g", Agg: 5}}, Pool: [][]KV{id(0)},
		Events: []Event{{I: 0, A: 0, V: 44}, {I: 1, A: 0, V: 3}, {Collect: true}, {I: 1, A: 0, V: 5}, {Collect: true}},
		Note:   "F-C12-2: stale Sum through a reused ResourceMetrics"})
	// non-finite float64 measurements: counted by the explicit histogram (NaN/+Inf in the last bucket, -Inf in the first),
	// discarded by the exponential histogram (the set is not even admitted), added by sums, stored by gauges
	nfIn := []InstSpec{{Name: "h", Kind: 3, Float: true}, {Name: "g", Kind: 7, Float: true}, {Name: "c", Kind: 1, Float: true}, {Name: "u", Kind: 2, Float: true}}
	nfEv := []Event{{I: 0, A: 0, V: 5}, {I: 0, A: 1, V: 1, NF: 3}, {I: 0, A: 2, V: 1, NF: 1}, {I: 0, A: 0, V: 1, NF: 2}, {I: 0, A: 1, V: 7},
		{I: 1, A: 0, V: 3}, {I: 1, A: 1, V: 1, NF: 3}, {I: 2, A: 2, V: 1, NF: 1}, {I: 2, A: 0, V: 4}, {I: 3, A: 1, V: 1, NF: 2}, {I: 3, A: 1, V: -2}, {Collect: true},
		{I: 0, A: 2, V: 1, NF: 3}, {I: 0, A: 1, V: 2}, {I: 2, A: 0, V: 6}, {I: 1, A: 2, V: 9}, {Collect: true}}
	for _, tm := range []uint64{0, 0xfe} {
		for _, L := range []int{0, 2} {
			env := ""
			if L > 0 {
				env = strconv.Itoa(L)
			}
			out = append(out, Scenario{L: L, Env: env, TMask: tm, Insts: nfIn, Pool: [][]KV{ab(0, 0), ab(0, 1), ab(1, 0)}, Events: nfEv,
				Views: []ViewSpec{{CName: "h"}, {CName: "h", MName: "h.exp", Agg: 6}, {CName: "h", MName: "h.flt", Filter: true, Keys: []string{"a"}},
					{CName: "c", Agg: 5}, {CName: "u", Agg: 6}, {CName: "g", Agg: 5}},
				Note: "NaN and infinities on float64 histogram / gauge / counter streams under a limit, a filter and re-aggregating views"})
			out = append(out, Scenario{L: L, Env: env, TMask: tm, Insts: nfIn, Pool: [][]KV{ab(0, 0), ab(0, 1), ab(1, 0)}, Events: nfEv,
				Note: "NaN and infinities, default views"})
		}
	}
	// a reader with its own aggregation selector: a view without aggregation (and the default view) follow the reader,
	// a view asking for AggregationDefault{} gets DefaultAggregationSelector(kind), an explicit aggregation is used as it is
	selEv := []Event{{I: 0, A: 0, V: 1}, {I: 1, A: 1, V: 2}, {I: 0, A: 1, V: 4}, {I: 2, A: 0, V: 8}, {I: 1, A: 0, V: 16}, {I: 3, A: 1, V: 3}, {Collect: true},
		{I: 0, A: 0, V: 32}, {I: 2, A: 1, V: 64}, {I: 3, A: 0, V: 5}, {Collect: true}}
	selIn := []InstSpec{{Name: "c", Kind: 1}, {Name: "h", Kind: 3}, {Name: "g", Kind: 7}, {Name: "oc", Kind: 4}}
	for _, sel := range [][]int{{0, 2, 2, 2, 2, 2, 2, 2}, {0, 4, 3, 3, 6, 5, 5, 5}, {0, 5, 6, 1, 0, 7, 8, 3}, {0, 6, 0, 2, 3, 1, 4, 4}} {
		for _, tm := range []uint64{0, 0xfe} {
			out = append(out, Scenario{L: 2, Env: "2", TMask: tm, RSel: sel, Insts: selIn, Pool: [][]KV{ab(0, 0), ab(0, 1)}, Events: selEv,
				Views: []ViewSpec{{CName: "c", MName: "c.nil"}, {CName: "c", MName: "c.default", Agg: 1}, {CName: "c", MName: "c.sum", Agg: 3},
					{CName: "h", Agg: 1}, {CName: "g", MName: "g.default", Agg: 1}, {CName: "g", MName: "g.nil"}, {CName: "oc", Agg: 1, MName: "oc.default"}, {CName: "oc"}},
				Note: "reader aggregation selector vs views with no aggregation / AggregationDefault{} / an explicit one"})
			out = append(out, Scenario{L: 0, Env: "", TMask: tm, RSel: sel, R2: true, TMask2: 0xfe, Insts: selIn, Pool: [][]KV{ab(0, 0), ab(0, 1)}, Events: selEv,
				Note: "reader aggregation selector, default views only; a second reader with the default selector"})
		}
	}
	// value-dependent attribute filters: the same key with values the filter classifies differently, in both orders
	valPool := [][]KV{{{"t", "s", ""}, {"a", "i", "1"}}, {{"t", "s", "x"}, {"a", "i", "1"}}, {{"t", "s", "x"}, {"a", "i", "5"}}, {{"t", "s", ""}, {"a", "i", "5"}}}
	for _, ord := range [][]int{{0, 1, 2, 3, -1, 3, 2, 1, 0, -1}, {1, 0, 3, 2, -1, 2, 0, -1}} {
		for _, vw := range []ViewSpec{
			{CName: "req", Filter: true, FKind: 1, Deny: true, Vals: []string{"s"}},
			{CName: "req", Filter: true, FKind: 1, Vals: []string{"i1", "sx"}},
			{CName: "req", Filter: true, FKind: 2, Pairs: []KV{{"t", "s", "x"}, {"a", "i", "5"}}},
			{CName: "req", Filter: true, FKind: 2, Deny: true, Pairs: []KV{{"t", "s", ""}}},
		} {
			out = append(out, Scenario{L: 3, Env: "3", TMask: 0xfe, Insts: counter, Views: []ViewSpec{vw}, Pool: valPool, Events: meas(ord...),
				Note: "attribute filter that depends on the attribute value"})
		}
	}
	// audit round: other spellings / entry points of the same operations
	base := []Event{{I: 0, A: 0, V: 1}, {I: 1, A: 1, V: 2}, {I: 0, A: 2, V: 4}, {I: 1, A: 0, V: 8}, {I: 0, A: 3, V: 16}, {Collect: true},
		{I: 1, A: 3, V: 32}, {I: 0, A: 1, V: 64}, {Collect: true}, {I: 1, A: 2, V: 3}, {Collect: true}}
	pool4 := [][]KV{ab(0, 0), ab(0, 1), ab(1, 0), ab(1, 1)}
	out = append(out,
		Scenario{L: 3, Env: "+3", TMask: 0xfe, Insts: []InstSpec{{Name: "req", Kind: 1}, {Name: "lat", Kind: 3, Bounds: 2}}, Pool: pool4, Events: base,
			EnvAfter: "1", Note: "limit spelled +3, changed to 1 after the instruments exist; invalid histogram boundaries on the instrument"},
		Scenario{L: 7, Env: "007", TMask: 0, Insts: []InstSpec{{Name: "req", Kind: 1, Dup: true}, {Name: "lat", Kind: 3, Bounds: 1, Dup: true}}, Pool: pool4, Events: base,
			Views: []ViewSpec{{CName: "req", Filter: true, Deny: true, Keys: []string{"b"}}, {CName: "lat", Filter: true, Deny: true, Keys: []string{}}},
			Note: "deny-list filters; instruments created twice; instrument-level boundaries"},
		Scenario{L: 0, Env: " 2", TMask: 0xfe, Insts: []InstSpec{{Name: "req", Kind: 1}, {Name: "lat", Kind: 3}}, Pool: pool4, Events: base,
			Views: []ViewSpec{{CName: "req", Agg: 7}, {CName: "lat", Agg: 8, MName: "l2"}}, Note: "aggregations NewView rejects; limit with a leading blank is no limit"},
		Scenario{L: 2, Env: "2", TMask: 0xfe, R2: true, TMask2: 0, Reuse: true, Insts: []InstSpec{{Name: "req", Kind: 1}, {Name: "oc", Kind: 4}}, Pool: pool4, Events: base,
			Note: "two readers: delta and cumulative pipelines see every measurement once each"},
		Scenario{L: 2, Env: "2", TMask: 0xfe, Insts: []InstSpec{{Name: "o1", Kind: 4}, {Name: "o2", Kind: 4, OwnCB: true}}, Pool: pool4, Events: base,
			Views: []ViewSpec{{CName: "o1", MName: "z"}, {CName: "o2", MName: "Z"}},
			Note: "two observable counters renamed into one stream: the creation-time callback observes before the registered one"},
		Scenario{L: 3, Env: "3", TMask: 0, Unreg: 2, Insts: []InstSpec{{Name: "og", Kind: 6}, {Name: "oc", Kind: 4, OwnCB: true, Dup: true}}, Pool: pool4, Events: base,
			Note: "registered callback unregistered (twice) before the second collection; creation-time callback keeps observing"},
		Scenario{L: 2, Env: "2", TMask: 0xfe, Insts: []InstSpec{{Name: "q.len", Kind: 1}, {Name: "qxlen", Kind: 1}, {Name: "9z", Kind: 1}}, Pool: pool4,
			Events: append(append([]Event{}, base...), Event{I: 2, A: 0, V: 5}, Event{I: 2, A: 1, V: 6}, Event{Collect: true}),
			Views:  []ViewSpec{{CName: "q.l*", Agg: 2}, {CName: "q?len", MDesc: "D"}}, Note: "a literal dot in a wildcard pattern; an invalid instrument name"})
	// scopes: the same instrument on two meters; views restricted to one scope must leave the other alone
	two := []InstSpec{{Name: "req", Kind: 1, SName: "lib-a", SVer: "1.0"}, {Name: "req", Kind: 1, SName: "lib-b", SVer: "1.0"},
		{Name: "req", Kind: 1, SName: "lib-a", SVer: "2.0", SURL: "https://s/1"}}
	ev3 := []Event{{I: 0, A: 0, V: 1}, {I: 1, A: 1, V: 2}, {I: 2, A: 2, V: 4}, {I: 0, A: 1, V: 8}, {I: 1, A: 0, V: 16}, {Collect: true}, {I: 2, A: 0, V: 32}, {Collect: true}}
	for _, vs := range [][]ViewSpec{
		{{CName: "req", CSName: "lib-a", Agg: 2}},
		{{CName: "*", CSName: "lib-b", Agg: 2}},
		{{CName: "r*", CSName: "lib-a", CSVer: "2.0", Filter: true, Keys: []string{}}},
		{{CName: "req", CSName: "lib-a", MName: "renamed"}, {CSURL: "https://s/1", Agg: 5}},
		{{CSVer: "1.0", Agg: 2}, {CName: "?eq", CSName: "lib-a", CSVer: "1.0", Filter: true, Keys: []string{"a"}}},
		{{CName: "req", CDesc: "d1", Agg: 2}, {CName: "req", CKind: 2, Agg: 2}, {CName: "req", CUnit: "ms", Agg: 2}},
	} {
		out = append(out, Scenario{L: 3, Env: "3", TMask: 0xfe, Insts: two, Views: vs, Pool: [][]KV{ab(0, 0), ab(0, 1), ab(1, 0)}, Events: ev3,
			Note: "same instrument on several meters; scope / description / kind / unit criteria with near misses"})
	}
	return out
}

// ---- Coq emitters ----

func kvCoq(x KV) string   { return vgen.Pair(vgen.HxS(x.K), vgen.HxS(x.T+x.V)) }
func setCoq(a []KV) string {
	items := make([]string, len(a))
	for i, x := range a {
		items[i] = kvCoq(x)
	}
	return vgen.List(items)
}

func strList(xs []string) string {
	items := make([]string, len(xs))
	for i, x := range xs {
		items[i] = vgen.HxS(x)
	}
	return vgen.List(items)
}

// Non-finite values as the integers Defs.is_nf recognises: +Inf = 2^70, -Inf = 2^80, NaN = 2^90; every
// non-finite reported value is written as 2^70 (only its being non-finite is compared).
func valCoq(v int64, nf int) string {
	switch nf {
	case 1:
		return vgen.ZBig("1180591620717411303424")
	case 2:
		return vgen.ZBig("1208925819614629174706176")
	case 3:
		return vgen.ZBig("1237940039285380274899124224")
	}
	return vgen.Z(v)
}

func obsValCoq(p PointObs) string {
	if p.NF {
		return vgen.ZBig("1180591620717411303424")
	}
	return vgen.Z(p.Val)
}

// effectiveEvents is the history as the aggregators see it: observations reach them during the collection, first those of
// instruments with their own creation-time callback (in creation order), then those replayed by the registered callbacks;
// after the registered callbacks were unregistered their instruments' observations are no longer made.
func effectiveEvents(sc Scenario) []Event {
	var out, cycle []Event
	collects := 0
	for _, e := range sc.Events {
		if !e.Collect {
			cycle = append(cycle, e)
			continue
		}
		collects++
		unregistered := sc.Unreg > 0 && collects >= sc.Unreg
		var own, reg []Event
		for _, x := range cycle {
			is := sc.Insts[x.I]
			switch {
			case is.Kind <= 3 || is.Kind == 7:
				out = append(out, x)
			case is.OwnCB:
				own = append(own, x)
			case !unregistered:
				reg = append(reg, x)
			}
		}
		sort.SliceStable(own, func(a, b int) bool { return own[a].I < own[b].I })
		out = append(out, own...)
		out = append(out, reg...)
		out = append(out, e)
		cycle = cycle[:0]
	}
	return out
}

func selOf(rsel []int, kind int) int {
	if kind < len(rsel) {
		return rsel[kind]
	}
	return 0
}

func caseTerm(sc Scenario, res Result, tmask uint64, rsel []int, observed [][]MetricObs) string {
	var views, insts, pool, evs, obs, hobs []string
	for _, ms := range observed { // explicit-bucket histograms in detail
		var hms []string
		for _, m := range ms {
			if m.Meta%10 != 2 || len(m.Points) == 0 {
				continue
			}
			var bnd, pts []string
			for _, b := range m.Points[0].Bnd {
				bnd = append(bnd, vgen.Z(b))
			}
			for _, p := range m.Points {
				var bc []string
				for _, c := range p.BC {
					bc = append(bc, vgen.N(c))
				}
				pts = append(pts, vgen.Pair(setCoq(p.Attrs), vgen.Pair(vgen.Pair(vgen.List(bc), vgen.Z(p.Min)), vgen.Z(p.Max))))
			}
			hms = append(hms, vgen.Pair(vgen.Pair(vgen.Pair(vgen.HxS(m.Name), vgen.N(uint64(m.Meta))), vgen.List(bnd)), vgen.List(pts)))
		}
		hobs = append(hobs, vgen.List(hms))
	}
	for _, v := range sc.Views {
		f := vgen.None
		if v.Filter {
			switch v.FKind {
			case 1:
				f = vgen.Some(vgen.App("fvals", vgen.Bool(v.Deny), strList(v.Vals)))
			case 2:
				var ps []string
				for _, x := range v.Pairs {
					ps = append(ps, kvCoq(x))
				}
				f = vgen.Some(vgen.App("fpairs", vgen.Bool(v.Deny), vgen.List(ps)))
			default:
				f = vgen.Some(vgen.App("fkeys", vgen.Bool(v.Deny), strList(v.Keys)))
			}
		}
		views = append(views, vgen.App("mkview", vgen.HxS(v.CName), vgen.HxS(v.CDesc), vgen.N(uint64(v.CKind)), vgen.HxS(v.CUnit),
			vgen.HxS(v.CSName), vgen.HxS(v.CSVer), vgen.HxS(v.CSURL), vgen.HxS(v.MName), vgen.HxS(v.MDesc), vgen.HxS(v.MUnit), vgen.N(uint64(v.Agg)), f))
	}
	for _, i := range sc.Insts {
		insts = append(insts, vgen.App("mkinst", vgen.HxS(i.Name), vgen.HxS(i.Desc), vgen.HxS(i.Unit), vgen.N(uint64(i.Kind)), vgen.Bool(i.Float),
			vgen.HxS(i.SName), vgen.HxS(i.SVer), vgen.HxS(i.SURL), vgen.N(uint64(selOf(rsel, i.Kind)))))
	}
	for _, s := range res.Pool {
		pool = append(pool, setCoq(s))
	}
	for _, e := range effectiveEvents(sc) {
		if e.Collect {
			evs = append(evs, "C")
		} else {
			evs = append(evs, vgen.App("M", vgen.N(uint64(e.I)), vgen.N(uint64(e.A)), valCoq(e.V, e.NF)))
		}
	}
	for _, ms := range observed {
		var mts []string
		for _, m := range ms {
			var pts []string
			for _, p := range m.Points {
				pts = append(pts, vgen.Pair(setCoq(p.Attrs), vgen.Pair(obsValCoq(p), vgen.N(p.Cnt))))
			}
			mts = append(mts, vgen.Pair(vgen.Pair(vgen.HxS(m.Name), vgen.N(uint64(m.Meta))), vgen.List(pts)))
		}
		obs = append(obs, vgen.List(mts))
	}
	return vgen.App("CScen", vgen.N(uint64(sc.L)), vgen.N(tmask), vgen.List(views), vgen.List(insts),
		vgen.List(pool), vgen.List(evs), vgen.List(obs), vgen.List(hobs))
}

// ---- parent ----

func runBatch(env string, scs []Scenario) ([]Result, error) {
	out, err := runJob(env, childJob{Scs: scs})
	if err != nil {
		return nil, err
	}
	return out.Res, nil
}

func runJob(env string, job childJob) (*childOut, error) {
	in, _ := json.Marshal(job)
	ctx, cancel := context.WithTimeout(context.Background(), 400*time.Second)
	defer cancel()
	cmd := exec.CommandContext(ctx, os.Args[0], "-child")
	cmd.Stdin = bytes.NewReader(in)
	var envv []string
	for _, e := range os.Environ() {
		if !strings.HasPrefix(e, "OTEL_") {
			envv = append(envv, e)
		}
	}
	if env != "" {
		envv = append(envv, "OTEL_GO_X_CARDINALITY_LIMIT="+env)
	}
	cmd.Env = envv
	var stderr bytes.Buffer
	cmd.Stderr = &stderr
	out, err := cmd.Output()
	if ctx.Err() != nil {
		// an overloaded machine, not an observation about the implementation: nothing is claimed (driver exit code 2)
		fmt.Fprintln(os.Stderr, "C12 harness: a child process did not finish within 400 s; giving up without a verdict")
		os.Exit(2)
	}
	if err != nil {
		return nil, fmt.Errorf("child (limit %q) failed: %v: %s", env, err, tail(stderr.String(), 2000))
	}
	var res childOut
	if err := json.Unmarshal(out, &res); err != nil || len(res.Res) != len(job.Scs) || len(res.Conc) != len(job.Conc) {
		return nil, fmt.Errorf("child (limit %q): unreadable result (%v)", env, err)
	}
	return &res, nil
}

func tail(s string, n int) string {
	if len(s) > n {
		return s[len(s)-n:]
	}
	return s
}

func main() {
	child := flag.Bool("child", false, "run scenarios from stdin against the SDK (internal)")
	if len(os.Args) > 1 && os.Args[1] == "-child" {
		flag.Parse()
		_ = child
		childMain()
		return
	}
	o := vgen.ParseFlags()
	// vgen.NewRand(seed) and vgen.NewRand(seed+1) produce the same stream shifted by one draw; fork once so that
	// different seeds give unrelated scenario sets.
	r := vgen.NewRand(o.Seed).Fork()
	w := vgen.NewWriter(o.Out, "C12.Defs C12.Model C12.Spec C12.Corr", "case", 96)
	w.Rule = "deterministic fragment: scenarios = (cardinality limit via OTEL_GO_X_CARDINALITY_LIMIT in a child process, temporality selector, views, instruments, history of measurements over 1-30 attribute sets and 1-6 collections); " +
		"observed: points per metric per ManualReader.Collect, sorted by attribute set; a case is non-trivial when the limit redirected a measurement to the overflow set, " +
		"a filter merged distinct sets, more than one view matched an instrument, or a view dropped/renamed/re-aggregated a stream; distinct = distinct Coq case terms; " +
		"free-running fragment: rounds of 4-8 goroutines released by a barrier, each recording first a not yet recorded attribute set, on an aggregator one slot from its limit (2..5), " +
		"every aggregator kind and temporality; one collection judged by order-independent clauses (at most L sets, only offered sets or the overflow set, totals and counts conserved); non-trivial when exactly L sets were reported"

	scs := corpus()
	nGen := o.Count(650, 8000)
	for i := 0; i < nGen; i++ {
		scs = append(scs, genScenario(r.Fork(), o.Tier == "thorough"))
	}

	// batches: same environment value, at most 40 scenarios per child
	type batch struct {
		env string
		idx []int
	}
	// A child inherits the value of its first scenario and sets the variable anew for every scenario it runs, so
	// one process sees many different limits one after the other (the limit is read when an aggregator is created).
	var batches []batch
	for i := 0; i < len(scs); i += 40 {
		var idx []int
		for j := i; j < min(i+40, len(scs)); j++ {
			idx = append(idx, j)
		}
		batches = append(batches, batch{scs[i].Env, idx})
	}
	results := make([]Result, len(scs))
	failed := make([]error, len(batches))
	var wg sync.WaitGroup
	sem := make(chan struct{}, 12)
	for bi, b := range batches {
		wg.Add(1)
		go func(bi int, b batch) {
			defer wg.Done()
			sem <- struct{}{}
			defer func() { <-sem }()
			in := make([]Scenario, len(b.idx))
			for j, i := range b.idx {
				in[j] = scs[i]
			}
			res, err := runBatch(b.env, in)
			if err != nil {
				failed[bi] = err
				return
			}
			for j, i := range b.idx {
				results[i] = res[j]
			}
		}(bi, b)
	}
	wg.Wait()
	for bi, err := range failed {
		if err != nil {
			// a crashed child is an observation about the implementation: find the scenario by running the batch one by one
			for _, i := range batches[bi].idx {
				res, e1 := runBatch(scs[i].Env, []Scenario{scs[i]})
				if e1 != nil {
					w.Violation("child process running the scenario died: "+e1.Error(), scs[i])
					results[i] = Result{Panic: "child died"}
					continue
				}
				results[i] = res[0]
			}
		}
	}

	for i, sc := range scs {
		res := results[i]
		if res.Panic != "" {
			if res.Panic != "child died" {
				w.Violation("panic: "+res.Panic, sc)
			}
			continue
		}
		if res.Odd != "" {
			w.Violation("observation outside the canonical form: "+res.Odd, sc)
			continue
		}
		kind := "generated"
		if i < len(corpus()) {
			kind = "corpus"
		}
		overflowed, merged := false, false
		for _, ms := range res.Obs {
			for _, m := range ms {
				for _, p := range m.Points {
					if len(p.Attrs) == 1 && p.Attrs[0] == overflowKV {
						overflowed = true
					}
				}
			}
		}
		for _, v := range sc.Views {
			if v.Filter {
				merged = true
			}
		}
		w.Tally(fmt.Sprintf("limit:%d", sc.L))
		w.Tally(fmt.Sprintf("env:%q", sc.Env))
		w.Tally(fmt.Sprintf("sets:%02d-%02d", len(sc.Pool)/5*5, len(sc.Pool)/5*5+4))
		w.Tally(fmt.Sprintf("views:%d", len(sc.Views)))
		w.Tally(fmt.Sprintf("instruments:%d", len(sc.Insts)))
		scopesSeen := map[string]bool{}
		for _, is := range sc.Insts {
			scopesSeen[is.SName+"|"+is.SVer+"|"+is.SURL] = true
		}
		w.Tally(fmt.Sprintf("scopes:%d", len(scopesSeen)))
		for _, v := range sc.Views {
			if v.CSName != "" || v.CSVer != "" || v.CSURL != "" {
				w.Tally("view:scope-criteria")
				if v.Agg == 2 {
					w.Tally("view:scope-criteria+drop")
				}
			}
			if v.CDesc != "" {
				w.Tally("view:description-criteria")
			}
		}
		w.Tally(fmt.Sprintf("collections:%d", len(res.Obs)))
		for _, is := range sc.Insts {
			w.Tally(fmt.Sprintf("kind:%d float:%v", is.Kind, is.Float))
		}
		if overflowed {
			w.Tally("overflow-set-reported")
		}
		switch sc.TMask {
		case 0:
			w.Tally("temporality:cumulative")
		case 0xfe:
			w.Tally("temporality:delta")
		default:
			w.Tally("temporality:mixed")
		}
		for _, v := range sc.Views {
			w.Tally(fmt.Sprintf("view-agg:%d", v.Agg))
			if v.MName != "" {
				w.Tally("view:rename")
			}
			if strings.ContainsAny(v.CName, "*?") {
				w.Tally("view:wildcard")
			}
			if v.Filter {
				w.Tally("view:filter")
			}
		}
		w.Add(caseTerm(sc, res, sc.TMask, sc.RSel, res.Obs), sc, kind, overflowed || merged || len(sc.Views) > 0)
		if sc.R2 {
			w.Tally("second-reader")
			w.Add(caseTerm(sc, res, sc.TMask2, sc.RSel2, res.Obs2), sc, kind+"-reader2", true)
		}
	}
	// ---- concurrent recording under a limit ----
	nConc := o.Count(420, 6000)
	rc := r.Fork()
	concs := make([]ConcRound, nConc)
	concByEnv := map[string][]int{}
	var concEnvs []string
	for i := range concs {
		concs[i] = genConc(rc.Fork(), i)
		if _, ok := concByEnv[concs[i].Env]; !ok {
			concEnvs = append(concEnvs, concs[i].Env)
		}
		concByEnv[concs[i].Env] = append(concByEnv[concs[i].Env], i)
	}
	type cbatch struct {
		env string
		idx []int
	}
	var cbatches []cbatch
	for _, e := range concEnvs {
		idx := concByEnv[e]
		for len(idx) > 0 {
			n := min(60, len(idx))
			cbatches = append(cbatches, cbatch{e, idx[:n]})
			idx = idx[n:]
		}
	}
	concRes := make([]*ConcResult, nConc)
	var cmu sync.Mutex
	var cwg sync.WaitGroup
	csem := make(chan struct{}, 4) // few children at a time: the goroutines of a round need cores to really run in parallel
	for _, b := range cbatches {
		cwg.Add(1)
		go func(b cbatch) {
			defer cwg.Done()
			csem <- struct{}{}
			defer func() { <-csem }()
			job := childJob{}
			for _, i := range b.idx {
				job.Conc = append(job.Conc, concs[i])
			}
			out, err := runJob(b.env, job)
			cmu.Lock()
			defer cmu.Unlock()
			if err != nil {
				// the runtime killed the child (e.g. "fatal error: concurrent map read and map write") or it hung
				w.Violation("child process recording concurrently under a cardinality limit died: "+err.Error(),
					map[string]any{"limit": b.env, "rounds": len(b.idx), "first_round": concs[b.idx[0]]})
				return
			}
			for j, i := range b.idx {
				concRes[i] = &out.Conc[j]
			}
		}(b)
	}
	cwg.Wait()
	for i, cr := range concs {
		res := concRes[i]
		if res == nil {
			continue
		}
		if res.Panic != "" {
			w.Violation("panic while recording concurrently: "+res.Panic, cr)
			continue
		}
		if res.Odd != "" || res.Metrics != 1 {
			w.Violation(fmt.Sprintf("concurrent round: %d metrics reported (1 expected) %s", res.Metrics, res.Odd), cr)
			continue
		}
		w.Tally(fmt.Sprintf("concurrent:kind=%d agg=%d delta=%v", cr.Kind, cr.Agg, cr.Delta))
		w.Tally(fmt.Sprintf("concurrent:goroutines=%d", len(cr.Recs)))
		w.Tally(fmt.Sprintf("concurrent:points-minus-limit=%d", len(res.Points)-cr.L))
		w.Add(concTerm(cr, *res), cr, "concurrent", len(res.Points) == cr.L)
	}
	if err := w.Flush(); err != nil {
		fmt.Fprintln(os.Stderr, err)
		os.Exit(2)
	}
}
