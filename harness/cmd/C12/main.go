// C12 harness: cardinality limit, attribute filters and views of the metric SDK vs the Coq model.
//
// The cardinality limit is read from OTEL_GO_X_CARDINALITY_LIMIT when an aggregator is
// created, so every limit value runs in re-exec'd child processes (-child): the parent
// generates scenarios, hands each child a batch that shares one environment value on
// stdin, and reads the observations (points per metric per collection) as JSON.
package main

import (
	"bytes"
	"context"
	"encoding/json"
	"flag"
	"fmt"
	"io"
	"os"
	"os/exec"
	"sort"
	"strconv"
	"strings"
	"sync"
	"time"

	"github.com/go-logr/logr"

	"go.opentelemetry.io/otel"
	"go.opentelemetry.io/otel/attribute"
	"go.opentelemetry.io/otel/metric"
	sdkmetric "go.opentelemetry.io/otel/sdk/metric"
	"go.opentelemetry.io/otel/sdk/metric/metricdata"

	"verif/harness/vgen"
)

// ---- scenario description (JSON between parent and child, and in replays) ----

type KV struct {
	K string `json:"k"`
	T string `json:"t"` // b, i, s
	V string `json:"v"`
}

type ViewSpec struct {
	CName  string   `json:"cn,omitempty"`
	CKind  int      `json:"ck,omitempty"` // 0 = any, else instrument kind tag 1..7
	CUnit  string   `json:"cu,omitempty"`
	MName  string   `json:"mn,omitempty"`
	MDesc  string   `json:"md,omitempty"`
	MUnit  string   `json:"mu,omitempty"`
	Agg    int      `json:"agg,omitempty"` // 0 nil, 1 default, 2 drop, 3 sum, 4 last value, 5 histogram, 6 exponential histogram
	Filter bool     `json:"flt,omitempty"`
	Keys   []string `json:"keys,omitempty"`
}

type InstSpec struct {
	Name  string `json:"n"`
	Desc  string `json:"d,omitempty"`
	Unit  string `json:"u,omitempty"`
	Kind  int    `json:"k"` // 1 counter 2 updown 3 histogram 4 obs counter 5 obs updown 6 obs gauge 7 gauge
	Float bool   `json:"f,omitempty"`
}

type Event struct {
	Collect bool  `json:"c,omitempty"`
	I       int   `json:"i,omitempty"`
	A       int   `json:"a,omitempty"`
	V       int64 `json:"v,omitempty"`
}

type Scenario struct {
	L      int        `json:"L"`   // effective limit, 0 = unlimited
	Env    string     `json:"env"` // value of OTEL_GO_X_CARDINALITY_LIMIT ("" = unset)
	TMask  uint64     `json:"tmask"`
	Views  []ViewSpec `json:"views"`
	Insts  []InstSpec `json:"insts"`
	Pool   [][]KV     `json:"pool"`
	Events []Event    `json:"events"`
	Reuse  bool       `json:"reuse,omitempty"` // reuse one ResourceMetrics across collections
	Note   string     `json:"note,omitempty"`
}

type PointObs struct {
	Attrs []KV  `json:"a"`
	Val   int64 `json:"v"`
	Cnt   uint64 `json:"c"`
}

type MetricObs struct {
	Name   string     `json:"n"`
	Meta   int        `json:"m"`
	Points []PointObs `json:"p"`
}

type Result struct {
	Obs   [][]MetricObs `json:"obs"`
	Pool  [][]KV        `json:"pool"` // canonical form of the scenario's attribute sets
	Panic string        `json:"panic,omitempty"`
	Odd   string        `json:"odd,omitempty"` // something the canonicaliser cannot express (inexact float, unknown data type)
}

// ---- running one scenario against the real SDK (child side) ----

func mkKV(x KV) attribute.KeyValue {
	switch x.T {
	case "b":
		return attribute.Bool(x.K, x.V == "1")
	case "i":
		n, _ := strconv.ParseInt(x.V, 10, 64)
		return attribute.Int64(x.K, n)
	default:
		return attribute.String(x.K, x.V)
	}
}

func canonSet(s attribute.Set) []KV {
	out := []KV{}
	it := s.Iter()
	for it.Next() {
		kv := it.Attribute()
		switch kv.Value.Type() {
		case attribute.BOOL:
			v := "0"
			if kv.Value.AsBool() {
				v = "1"
			}
			out = append(out, KV{string(kv.Key), "b", v})
		case attribute.INT64:
			out = append(out, KV{string(kv.Key), "i", strconv.FormatInt(kv.Value.AsInt64(), 10)})
		case attribute.STRING:
			out = append(out, KV{string(kv.Key), "s", kv.Value.AsString()})
		default:
			out = append(out, KV{string(kv.Key), "?", kv.Value.Emit()})
		}
	}
	return out
}

func aggregationOf(n int) sdkmetric.Aggregation {
	switch n {
	case 1:
		return sdkmetric.AggregationDefault{}
	case 2:
		return sdkmetric.AggregationDrop{}
	case 3:
		return sdkmetric.AggregationSum{}
	case 4:
		return sdkmetric.AggregationLastValue{}
	case 5:
		return sdkmetric.AggregationExplicitBucketHistogram{Boundaries: []float64{0, 5, 10, 25, 50, 100}}
	case 6:
		return sdkmetric.AggregationBase2ExponentialHistogram{MaxSize: 160, MaxScale: 20}
	}
	return nil
}

type recorder interface {
	record(ctx context.Context, v int64, s attribute.Set)
}

type recFn func(ctx context.Context, v int64, s attribute.Set)

func (f recFn) record(ctx context.Context, v int64, s attribute.Set) { f(ctx, v, s) }

type staged struct {
	inst int
	v    int64
	set  attribute.Set
}

func runScenario(sc Scenario) (res Result) {
	defer func() {
		if e := recover(); e != nil {
			res.Panic = fmt.Sprint(e)
		}
	}()
	ctx := context.Background()
	reader := sdkmetric.NewManualReader(sdkmetric.WithTemporalitySelector(func(k sdkmetric.InstrumentKind) metricdata.Temporality {
		if sc.TMask>>uint(k)&1 == 1 {
			return metricdata.DeltaTemporality
		}
		return metricdata.CumulativeTemporality
	}))
	var views []sdkmetric.View
	for _, v := range sc.Views {
		st := sdkmetric.Stream{Name: v.MName, Description: v.MDesc, Unit: v.MUnit, Aggregation: aggregationOf(v.Agg)}
		if v.Filter {
			keys := make([]attribute.Key, len(v.Keys))
			for i, k := range v.Keys {
				keys[i] = attribute.Key(k)
			}
			st.AttributeFilter = attribute.NewAllowKeysFilter(keys...)
		}
		views = append(views, sdkmetric.NewView(sdkmetric.Instrument{Name: v.CName, Kind: sdkmetric.InstrumentKind(v.CKind), Unit: v.CUnit}, st))
	}
	mp := sdkmetric.NewMeterProvider(sdkmetric.WithReader(reader), sdkmetric.WithView(views...))
	defer mp.Shutdown(ctx)
	m := mp.Meter("c12")

	sets := make([]attribute.Set, len(sc.Pool))
	for i, kvs := range sc.Pool {
		a := make([]attribute.KeyValue, len(kvs))
		for j, x := range kvs {
			a[j] = mkKV(x)
		}
		sets[i] = attribute.NewSet(a...)
		res.Pool = append(res.Pool, canonSet(sets[i]))
	}

	// instruments; creation errors (incompatible aggregation in a view) are part of the scenario
	recs := make([]recorder, len(sc.Insts))
	obsI := map[int]metric.Int64Observable{}
	obsF := map[int]metric.Float64Observable{}
	var observables []metric.Observable
	for idx, is := range sc.Insts {
		d, u := is.Desc, is.Unit
		switch {
		case is.Kind == 1 && !is.Float:
			c, _ := m.Int64Counter(is.Name, metric.WithDescription(d), metric.WithUnit(u))
			recs[idx] = recFn(func(ctx context.Context, v int64, s attribute.Set) { c.Add(ctx, v, metric.WithAttributeSet(s)) })
		case is.Kind == 1:
			c, _ := m.Float64Counter(is.Name, metric.WithDescription(d), metric.WithUnit(u))
			recs[idx] = recFn(func(ctx context.Context, v int64, s attribute.Set) { c.Add(ctx, float64(v), metric.WithAttributeSet(s)) })
		case is.Kind == 2 && !is.Float:
			c, _ := m.Int64UpDownCounter(is.Name, metric.WithDescription(d), metric.WithUnit(u))
			recs[idx] = recFn(func(ctx context.Context, v int64, s attribute.Set) { c.Add(ctx, v, metric.WithAttributeSet(s)) })
		case is.Kind == 2:
			c, _ := m.Float64UpDownCounter(is.Name, metric.WithDescription(d), metric.WithUnit(u))
			recs[idx] = recFn(func(ctx context.Context, v int64, s attribute.Set) { c.Add(ctx, float64(v), metric.WithAttributeSet(s)) })
		case is.Kind == 3 && !is.Float:
			c, _ := m.Int64Histogram(is.Name, metric.WithDescription(d), metric.WithUnit(u))
			recs[idx] = recFn(func(ctx context.Context, v int64, s attribute.Set) { c.Record(ctx, v, metric.WithAttributeSet(s)) })
		case is.Kind == 3:
			c, _ := m.Float64Histogram(is.Name, metric.WithDescription(d), metric.WithUnit(u))
			recs[idx] = recFn(func(ctx context.Context, v int64, s attribute.Set) { c.Record(ctx, float64(v), metric.WithAttributeSet(s)) })
		case is.Kind == 7 && !is.Float:
			c, _ := m.Int64Gauge(is.Name, metric.WithDescription(d), metric.WithUnit(u))
			recs[idx] = recFn(func(ctx context.Context, v int64, s attribute.Set) { c.Record(ctx, v, metric.WithAttributeSet(s)) })
		case is.Kind == 7:
			c, _ := m.Float64Gauge(is.Name, metric.WithDescription(d), metric.WithUnit(u))
			recs[idx] = recFn(func(ctx context.Context, v int64, s attribute.Set) { c.Record(ctx, float64(v), metric.WithAttributeSet(s)) })
		case is.Kind == 4 && !is.Float:
			o, _ := m.Int64ObservableCounter(is.Name, metric.WithDescription(d), metric.WithUnit(u))
			obsI[idx] = o
		case is.Kind == 4:
			o, _ := m.Float64ObservableCounter(is.Name, metric.WithDescription(d), metric.WithUnit(u))
			obsF[idx] = o
		case is.Kind == 5 && !is.Float:
			o, _ := m.Int64ObservableUpDownCounter(is.Name, metric.WithDescription(d), metric.WithUnit(u))
			obsI[idx] = o
		case is.Kind == 5:
			o, _ := m.Float64ObservableUpDownCounter(is.Name, metric.WithDescription(d), metric.WithUnit(u))
			obsF[idx] = o
		case is.Kind == 6 && !is.Float:
			o, _ := m.Int64ObservableGauge(is.Name, metric.WithDescription(d), metric.WithUnit(u))
			obsI[idx] = o
		case is.Kind == 6:
			o, _ := m.Float64ObservableGauge(is.Name, metric.WithDescription(d), metric.WithUnit(u))
			obsF[idx] = o
		default:
			panic("harness: bad instrument kind")
		}
		if o, ok := obsI[idx]; ok && o != nil {
			observables = append(observables, o)
		}
		if o, ok := obsF[idx]; ok && o != nil {
			observables = append(observables, o)
		}
	}
	// One callback replays, in history order, the observations staged since the last collection.
	var pending []staged
	if len(observables) > 0 {
		_, err := m.RegisterCallback(func(_ context.Context, o metric.Observer) error {
			for _, p := range pending {
				if oi, ok := obsI[p.inst]; ok {
					o.ObserveInt64(oi, p.v, metric.WithAttributeSet(p.set))
				} else if of, ok := obsF[p.inst]; ok {
					o.ObserveFloat64(of, float64(p.v), metric.WithAttributeSet(p.set))
				}
			}
			return nil
		}, observables...)
		if err != nil {
			res.Odd = "RegisterCallback: " + err.Error()
		}
	}

	shared := &metricdata.ResourceMetrics{}
	for _, ev := range sc.Events {
		if !ev.Collect {
			if recs[ev.I] != nil {
				recs[ev.I].record(ctx, ev.V, sets[ev.A])
			} else {
				pending = append(pending, staged{ev.I, ev.V, sets[ev.A]})
			}
			continue
		}
		rm := shared
		if !sc.Reuse {
			rm = &metricdata.ResourceMetrics{}
		}
		if err := reader.Collect(ctx, rm); err != nil {
			res.Odd = "Collect: " + err.Error()
		}
		pending = pending[:0]
		res.Obs = append(res.Obs, extract(rm, &res))
	}
	return res
}

func f2i(f float64, res *Result) int64 {
	n := int64(f)
	if float64(n) != f {
		res.Odd = fmt.Sprintf("inexact float value %v", f)
	}
	return n
}

func deltaFlag(t metricdata.Temporality) int {
	if t == metricdata.DeltaTemporality {
		return 100
	}
	return 0
}

func monoFlag(b bool) int {
	if b {
		return 10
	}
	return 0
}

func extract(rm *metricdata.ResourceMetrics, res *Result) []MetricObs {
	out := []MetricObs{}
	for _, sm := range rm.ScopeMetrics {
		for _, md := range sm.Metrics {
			mo := MetricObs{Name: md.Name, Points: []PointObs{}}
			switch d := md.Data.(type) {
			case metricdata.Sum[int64]:
				mo.Meta = monoFlag(d.IsMonotonic) + deltaFlag(d.Temporality)
				for _, p := range d.DataPoints {
					mo.Points = append(mo.Points, PointObs{canonSet(p.Attributes), p.Value, 0})
				}
			case metricdata.Sum[float64]:
				mo.Meta = monoFlag(d.IsMonotonic) + deltaFlag(d.Temporality)
				for _, p := range d.DataPoints {
					mo.Points = append(mo.Points, PointObs{canonSet(p.Attributes), f2i(p.Value, res), 0})
				}
			case metricdata.Gauge[int64]:
				mo.Meta = 1
				for _, p := range d.DataPoints {
					mo.Points = append(mo.Points, PointObs{canonSet(p.Attributes), p.Value, 0})
				}
			case metricdata.Gauge[float64]:
				mo.Meta = 1
				for _, p := range d.DataPoints {
					mo.Points = append(mo.Points, PointObs{canonSet(p.Attributes), f2i(p.Value, res), 0})
				}
			case metricdata.Histogram[int64]:
				mo.Meta = 2 + deltaFlag(d.Temporality)
				for _, p := range d.DataPoints {
					var bc uint64
					for _, c := range p.BucketCounts {
						bc += c
					}
					if bc != p.Count {
						res.Odd = fmt.Sprintf("histogram bucket counts add up to %d, Count is %d", bc, p.Count)
					}
					mo.Points = append(mo.Points, PointObs{canonSet(p.Attributes), p.Sum, p.Count})
				}
			case metricdata.Histogram[float64]:
				mo.Meta = 2 + deltaFlag(d.Temporality)
				for _, p := range d.DataPoints {
					var bc uint64
					for _, c := range p.BucketCounts {
						bc += c
					}
					if bc != p.Count {
						res.Odd = fmt.Sprintf("histogram bucket counts add up to %d, Count is %d", bc, p.Count)
					}
					mo.Points = append(mo.Points, PointObs{canonSet(p.Attributes), f2i(p.Sum, res), p.Count})
				}
			case metricdata.ExponentialHistogram[int64]:
				mo.Meta = 3 + deltaFlag(d.Temporality)
				for _, p := range d.DataPoints {
					mo.Points = append(mo.Points, PointObs{canonSet(p.Attributes), p.Sum, p.Count})
				}
			case metricdata.ExponentialHistogram[float64]:
				mo.Meta = 3 + deltaFlag(d.Temporality)
				for _, p := range d.DataPoints {
					mo.Points = append(mo.Points, PointObs{canonSet(p.Attributes), f2i(p.Sum, res), p.Count})
				}
			default:
				res.Odd = fmt.Sprintf("unknown metric data type %T", md.Data)
			}
			sort.SliceStable(mo.Points, func(i, j int) bool { return setKey(mo.Points[i].Attrs) < setKey(mo.Points[j].Attrs) })
			out = append(out, mo)
		}
	}
	return out
}

func setKey(a []KV) string {
	var sb strings.Builder
	for _, x := range a {
		sb.WriteString(x.K)
		sb.WriteByte(0)
		sb.WriteString(x.T)
		sb.WriteString(x.V)
		sb.WriteByte(1)
	}
	return sb.String()
}

func childMain() {
	otel.SetLogger(logr.Discard())
	otel.SetErrorHandler(otel.ErrorHandlerFunc(func(error) {}))
	in, err := io.ReadAll(os.Stdin)
	if err != nil {
		os.Exit(3)
	}
	var scs []Scenario
	if err := json.Unmarshal(in, &scs); err != nil {
		fmt.Fprintln(os.Stderr, "child: bad input:", err)
		os.Exit(3)
	}
	out := make([]Result, len(scs))
	for i, sc := range scs {
		out[i] = runScenario(sc)
	}
	b, _ := json.Marshal(out)
	os.Stdout.Write(b)
}

// ---- generator (parent side) ----

var keyPool = []string{"a", "b", "c", "k", "otel.metric.overflow"}

func genValue(r *vgen.Rand) (string, string) {
	switch r.Intn(6) {
	case 0:
		return "b", vgen.Pick(r, []string{"0", "1"})
	case 1, 2:
		return "i", strconv.Itoa(r.Intn(4))
	default:
		return "s", vgen.Pick(r, []string{"x", "y", "z", "", "true"})
	}
}

var overflowKV = KV{"otel.metric.overflow", "b", "1"}

// genSet draws one attribute set (possibly unsorted, possibly with a repeated key).
func genSet(r *vgen.Rand, serial int) []KV {
	switch r.Intn(40) {
	case 0:
		return []KV{overflowKV} // a user set equal to the overflow set
	case 1:
		return []KV{{"otel.metric.overflow", "s", "true"}}
	case 2:
		return []KV{overflowKV, {"a", "i", strconv.Itoa(serial % 3)}}
	case 3:
		return []KV{}
	}
	n := 1 + r.Intn(3)
	var out []KV
	for j := 0; j < n; j++ {
		k := keyPool[r.Intn(4)]
		t, v := genValue(r)
		out = append(out, KV{k, t, v})
	}
	if r.Chance(1, 2) { // make the set distinct from its predecessors through one key while others collide under filters
		out = append(out, KV{"id", "i", strconv.Itoa(serial)})
	}
	return out
}

func genPool(r *vgen.Rand, n int) [][]KV {
	seen := map[string]bool{}
	var pool [][]KV
	for tries := 0; len(pool) < n && tries < 40*n; tries++ {
		s := genSet(r, len(pool))
		a := make([]attribute.KeyValue, len(s))
		for j, x := range s {
			a[j] = mkKV(x)
		}
		key := setKey(canonSet(attribute.NewSet(a...)))
		if seen[key] {
			continue
		}
		seen[key] = true
		pool = append(pool, s)
	}
	for len(pool) < n { // fall back to serial-numbered sets
		pool = append(pool, []KV{{"id", "i", strconv.Itoa(1000 + len(pool))}})
	}
	return pool
}

var instNames = []string{"req", "lat", "Req", "q.len", "rx", "ab", "abc"}

func genInsts(r *vgen.Rand) []InstSpec {
	n := vgen.Pick(r, []int{1, 1, 1, 2, 2, 3, 4})
	seen := map[string]bool{}
	var out []InstSpec
	for len(out) < n {
		is := InstSpec{Name: vgen.Pick(r, instNames), Kind: 1 + r.Intn(7), Float: r.Chance(1, 4)}
		if len(out) == 0 && r.Chance(1, 2) {
			is.Kind = vgen.Pick(r, []int{1, 1, 2, 3})
		}
		if r.Chance(1, 5) {
			is.Desc = vgen.Pick(r, []string{"d1", "d2"})
		}
		if r.Chance(1, 5) {
			is.Unit = vgen.Pick(r, []string{"ms", "By"})
		}
		key := fmt.Sprintf("%s|%s|%s|%d|%v", is.Name, is.Desc, is.Unit, is.Kind, is.Float)
		if seen[key] {
			continue
		}
		seen[key] = true
		out = append(out, is)
	}
	return out
}

func genKeys(r *vgen.Rand) []string {
	switch r.Intn(8) {
	case 0:
		return []string{} // allow nothing: every set collapses to the empty set
	case 1:
		return []string{"a", "b", "c", "k", "id", "otel.metric.overflow"}
	case 2:
		return []string{"id"}
	case 3:
		return []string{"otel.metric.overflow"}
	}
	var ks []string
	for _, k := range []string{"a", "b", "c", "k"} {
		if r.Bool() {
			ks = append(ks, k)
		}
	}
	if ks == nil {
		ks = []string{"a"}
	}
	return ks
}

func genViews(r *vgen.Rand, insts []InstSpec) []ViewSpec {
	n := vgen.Pick(r, []int{0, 1, 1, 2, 2, 2, 3, 4})
	var out []ViewSpec
	for j := 0; j < n; j++ {
		target := insts[r.Intn(len(insts))]
		v := ViewSpec{CName: target.Name}
		switch r.Intn(12) {
		case 0, 5:
			v.CName = vgen.Pick(r, []string{"*", "r*", "?eq", "*e*", "a?", "ab*", "l?t", "R*", "??", "a*c", "?e?", "*q"})
		case 1:
			v.CName = ""
			v.CKind = target.Kind
		case 2:
			v.CKind = target.Kind
		case 3:
			v.CName = ""
			v.CUnit = vgen.Pick(r, []string{"ms", "By"})
		case 4:
			v.CName = "" // empty criteria (unless a kind/unit is added below): refused by NewView
		}
		switch r.Intn(10) {
		case 0, 1, 2: // rename
			v.MName = vgen.Pick(r, []string{"out", "Out", "z", "req", "lat"})
		case 3:
			v.MDesc = "D"
		case 4:
			v.MUnit = "u"
		}
		switch r.Intn(10) {
		case 0:
			v.Agg = 1
		case 1, 2:
			v.Agg = 2
		case 3:
			v.Agg = 3
		case 4:
			v.Agg = 4
		case 5:
			v.Agg = 5
		case 6:
			v.Agg = 6
		}
		if r.Chance(1, 2) {
			v.Filter = true
			v.Keys = genKeys(r)
		}
		out = append(out, v)
	}
	return out
}

var limits = []struct {
	L   int
	Env string
}{{1, "1"}, {2, "2"}, {3, "3"}, {5, "5"}, {10, "10"}, {0, ""}, {0, "0"}, {0, "-4"}, {0, "many"}, {4, "4"}, {7, "7"}}

func genHistory(r *vgen.Rand, sc *Scenario, maxPerCycle int) {
	n := len(sc.Pool)
	cycles := 1 + r.Intn(6)
	perm := make([]int, n)
	for i := range perm {
		perm[i] = i
	}
	lastCycle := map[int]bool{}
	for c := 0; c < cycles; c++ {
		var order []int
		switch r.Intn(8) {
		case 0: // every set once, ascending
			order = append(order, perm...)
		case 1: // descending
			for i := n - 1; i >= 0; i-- {
				order = append(order, i)
			}
		case 2: // a fresh shuffle
			p := append([]int(nil), perm...)
			for i := n - 1; i > 0; i-- {
				j := r.Intn(i + 1)
				p[i], p[j] = p[j], p[i]
			}
			order = p
		case 3: // a few sets over and over, then the rest
			k := 1 + r.Intn(3)
			for i := 0; i < 6; i++ {
				order = append(order, r.Intn(min(k, n)))
			}
			order = append(order, perm...)
		case 4: // only sets that did not appear in the previous cycle, then one that did
			for _, i := range perm {
				if !lastCycle[i] {
					order = append(order, i)
				}
			}
			order = append(order, r.Intn(n))
		case 5: // empty cycle
		default: // random draws with repeats
			m := 1 + r.Intn(maxPerCycle)
			for i := 0; i < m; i++ {
				order = append(order, r.Intn(n))
			}
		}
		if len(order) > maxPerCycle {
			start := r.Intn(len(order) - maxPerCycle + 1)
			order = order[start : start+maxPerCycle]
		}
		lastCycle = map[int]bool{}
		for _, a := range order {
			lastCycle[a] = true
			i := 0
			if len(sc.Insts) > 1 && r.Chance(1, 2) {
				i = r.Intn(len(sc.Insts))
			}
			var v int64
			switch sc.Insts[i].Kind {
			case 1, 3, 4:
				v = int64(r.Intn(60))
			default:
				v = int64(r.Intn(101)) - 50
			}
			if r.Chance(1, 25) {
				v = v * (1 << 33)
			}
			sc.Events = append(sc.Events, Event{I: i, A: a, V: v})
		}
		sc.Events = append(sc.Events, Event{Collect: true})
	}
}

func genScenario(r *vgen.Rand, thorough bool) Scenario {
	lim := limits[r.Intn(len(limits))]
	sc := Scenario{L: lim.L, Env: lim.Env, Reuse: r.Bool()}
	sc.TMask = vgen.Pick(r, []uint64{0, 0xfe, 0xfe, 1<<1 | 1<<3 | 1<<4 | 1<<6 | 1<<7, r.U64() & 0xfe})
	sc.Insts = genInsts(r)
	sc.Views = genViews(r, sc.Insts)
	// number of distinct attribute sets: around the limit, or anything in 1..30
	n := 1 + r.Intn(12)
	if lim.L > 0 && r.Chance(1, 2) {
		n = max(1, lim.L-2+r.Intn(5))
	}
	if r.Chance(1, 8) {
		n = 1 + r.Intn(30)
	}
	sc.Pool = genPool(r, n)
	mpc := 14
	if thorough {
		mpc = 40
	}
	genHistory(r, &sc, mpc)
	return sc
}

// fixed corpus: boundary shapes derived from the case splits of the proofs (run first, every run)
func corpus() []Scenario {
	id := func(n int) []KV { return []KV{{"id", "i", strconv.Itoa(n)}} }
	ab := func(a, b int) []KV { return []KV{{"a", "i", strconv.Itoa(a)}, {"b", "i", strconv.Itoa(b)}} }
	meas := func(xs ...int) []Event {
		var out []Event
		for _, x := range xs {
			if x < 0 {
				out = append(out, Event{Collect: true})
			} else {
				out = append(out, Event{A: x, V: int64(x + 1)})
			}
		}
		return out
	}
	counter := []InstSpec{{Name: "req", Kind: 1}}
	var out []Scenario
	for _, tm := range []uint64{0, 0xfe} {
		// L = 1: everything overflows; L = 2/3: boundary at L-1; re-admission after a delta reset in another order
		for _, L := range []int{1, 2, 3} {
			out = append(out, Scenario{L: L, Env: strconv.Itoa(L), TMask: tm, Insts: counter,
				Pool: [][]KV{id(0), id(1), id(2), id(3)}, Events: meas(0, 1, 2, 3, 0, -1, 3, 2, 1, 0, -1, -1, 1, -1),
				Note: "boundary at L-1 and re-admission after reset"})
		}
		// a user set equal to the overflow set: first, in the middle, after the limit was reached
		for _, ord := range [][]int{{0, 1, 2, 3, -1, 1, 2, -1}, {1, 0, 2, 3, -1, 0, -1}, {1, 2, 3, 0, -1, 0, 1, -1}} {
			out = append(out, Scenario{L: 3, Env: "3", TMask: tm, Insts: counter,
				Pool: [][]KV{{overflowKV}, id(1), id(2), id(3)}, Events: meas(ord...), Note: "user set equals the overflow set"})
		}
		// filter merges and limit on the filtered sets
		out = append(out, Scenario{L: 2, Env: "2", TMask: tm, Insts: counter,
			Views: []ViewSpec{{CName: "req", Filter: true, Keys: []string{"a"}}},
			Pool:  [][]KV{ab(0, 0), ab(0, 1), ab(1, 0), ab(1, 1), ab(2, 0)}, Events: meas(0, 1, 2, 3, 4, -1, 4, 3, 2, -1),
			Note: "filtered sets coincide; limit counts filtered sets"})
		// two views, distinct names; two views, same identity (different filters); drop first then same name; rename collision in casing
		out = append(out, Scenario{L: 0, Env: "", TMask: tm, Insts: counter,
			Views: []ViewSpec{{CName: "req", MName: "x"}, {CName: "req", MName: "y", Agg: 5}, {CName: "r*", Filter: true, Keys: []string{}}},
			Pool:  [][]KV{ab(0, 0), ab(0, 1)}, Events: meas(0, 1, 0, -1, 1, -1), Note: "three matching views, three streams"})
		out = append(out, Scenario{L: 0, Env: "0", TMask: tm, Insts: counter,
			Views: []ViewSpec{{CName: "req", MName: "x", Filter: true, Keys: []string{"a"}}, {CName: "req", MName: "X", Filter: true, Keys: []string{"b"}}},
			Pool:  [][]KV{ab(0, 0), ab(0, 1), ab(1, 1)}, Events: meas(0, 1, 2, -1, 2, -1), Note: "two views, one identity: merged, not doubled"})
		out = append(out, Scenario{L: 0, Env: "", TMask: tm, Insts: counter,
			Views: []ViewSpec{{CName: "req", Agg: 2}, {CName: "req"}},
			Pool:  [][]KV{ab(0, 0)}, Events: meas(0, 0, -1, 0, -1), Note: "drop first, same identity second"})
		out = append(out, Scenario{L: 0, Env: "", TMask: tm, Insts: counter,
			Views: []ViewSpec{{CName: "req", Agg: 2}, {CName: "req", MName: "kept"}},
			Pool:  [][]KV{ab(0, 0)}, Events: meas(0, 0, -1, 0, -1), Note: "drop and a renamed second stream"})
		out = append(out, Scenario{L: 3, Env: "3", TMask: tm, Insts: []InstSpec{{Name: "a1", Kind: 1}, {Name: "a2", Kind: 1}},
			Views: []ViewSpec{{CName: "a1", MName: "z"}, {CName: "a2", MName: "Z"}},
			Pool:  [][]KV{id(0), id(1), id(2)}, Events: []Event{{I: 0, A: 0, V: 1}, {I: 1, A: 1, V: 2}, {I: 0, A: 2, V: 4}, {I: 1, A: 0, V: 8}, {Collect: true}, {I: 1, A: 2, V: 16}, {Collect: true}},
			Note: "two instruments renamed into one stream"})
		// observable instruments: limit applies per collection, sets forgotten every cycle
		out = append(out, Scenario{L: 2, Env: "2", TMask: tm, Insts: []InstSpec{{Name: "oc", Kind: 4}, {Name: "og", Kind: 6}},
			Pool: [][]KV{id(0), id(1), id(2)}, Events: []Event{{I: 0, A: 0, V: 5}, {I: 0, A: 1, V: 6}, {I: 1, A: 2, V: 7}, {I: 1, A: 1, V: 8}, {Collect: true},
				{I: 0, A: 1, V: 9}, {I: 0, A: 0, V: 9}, {I: 0, A: 1, V: 1}, {Collect: true}, {Collect: true}, {I: 0, A: 2, V: 3}, {Collect: true}},
			Note: "observable counter and gauge under a limit"})
		// every synchronous kind re-aggregated
		out = append(out, Scenario{L: 2, Env: "2", TMask: tm, Insts: []InstSpec{{Name: "h", Kind: 3}, {Name: "g", Kind: 7}, {Name: "u", Kind: 2, Float: true}},
			Views: []ViewSpec{{CName: "h", Agg: 3}, {CName: "h", MName: "h2", Agg: 6}, {CName: "g", Agg: 5}, {CName: "u", Agg: 4}},
			Pool:  [][]KV{id(0), id(1), id(2)}, Events: []Event{{I: 0, A: 0, V: 5}, {I: 1, A: 1, V: -6}, {I: 2, A: 2, V: 7}, {I: 0, A: 1, V: 8}, {I: 0, A: 2, V: 1}, {I: 1, A: 0, V: 2}, {I: 1, A: 2, V: 3}, {Collect: true},
				{I: 2, A: 1, V: -9}, {I: 0, A: 2, V: 9}, {Collect: true}},
			Note: "histogram as sum and exponential histogram, gauge as histogram, incompatible last-value on an up-down counter"})
	}
	return out
}

// ---- Coq emitters ----

func kvCoq(x KV) string   { return vgen.Pair(vgen.HxS(x.K), vgen.HxS(x.T+x.V)) }
func setCoq(a []KV) string {
	items := make([]string, len(a))
	for i, x := range a {
		items[i] = kvCoq(x)
	}
	return vgen.List(items)
}

func strList(xs []string) string {
	items := make([]string, len(xs))
	for i, x := range xs {
		items[i] = vgen.HxS(x)
	}
	return vgen.List(items)
}

func caseTerm(sc Scenario, res Result) string {
	var views, insts, pool, evs, obs []string
	for _, v := range sc.Views {
		f := vgen.None
		if v.Filter {
			f = vgen.Some(strList(v.Keys))
		}
		views = append(views, vgen.App("mkview", vgen.HxS(v.CName), vgen.N(uint64(v.CKind)), vgen.HxS(v.CUnit),
			vgen.HxS(v.MName), vgen.HxS(v.MDesc), vgen.HxS(v.MUnit), vgen.N(uint64(v.Agg)), f))
	}
	for _, i := range sc.Insts {
		insts = append(insts, vgen.App("mkinst", vgen.HxS(i.Name), vgen.HxS(i.Desc), vgen.HxS(i.Unit), vgen.N(uint64(i.Kind)), vgen.Bool(i.Float)))
	}
	for _, s := range res.Pool {
		pool = append(pool, setCoq(s))
	}
	for _, e := range sc.Events {
		if e.Collect {
			evs = append(evs, "C")
		} else {
			evs = append(evs, vgen.App("M", vgen.N(uint64(e.I)), vgen.N(uint64(e.A)), vgen.Z(e.V)))
		}
	}
	for _, ms := range res.Obs {
		var mts []string
		for _, m := range ms {
			var pts []string
			for _, p := range m.Points {
				pts = append(pts, vgen.Pair(setCoq(p.Attrs), vgen.Pair(vgen.Z(p.Val), vgen.N(p.Cnt))))
			}
			mts = append(mts, vgen.Pair(vgen.Pair(vgen.HxS(m.Name), vgen.N(uint64(m.Meta))), vgen.List(pts)))
		}
		obs = append(obs, vgen.List(mts))
	}
	return vgen.App("CScen", vgen.N(uint64(sc.L)), vgen.N(sc.TMask), vgen.List(views), vgen.List(insts),
		vgen.List(pool), vgen.List(evs), vgen.List(obs))
}

// ---- parent ----

func runBatch(env string, scs []Scenario) ([]Result, error) {
	in, _ := json.Marshal(scs)
	ctx, cancel := context.WithTimeout(context.Background(), 120*time.Second)
	defer cancel()
	cmd := exec.CommandContext(ctx, os.Args[0], "-child")
	cmd.Stdin = bytes.NewReader(in)
	var envv []string
	for _, e := range os.Environ() {
		if !strings.HasPrefix(e, "OTEL_") {
			envv = append(envv, e)
		}
	}
	if env != "" {
		envv = append(envv, "OTEL_GO_X_CARDINALITY_LIMIT="+env)
	}
	cmd.Env = envv
	var stderr bytes.Buffer
	cmd.Stderr = &stderr
	out, err := cmd.Output()
	if err != nil {
		return nil, fmt.Errorf("child (limit %q) failed: %v: %s", env, err, tail(stderr.String(), 2000))
	}
	var res []Result
	if err := json.Unmarshal(out, &res); err != nil || len(res) != len(scs) {
		return nil, fmt.Errorf("child (limit %q): unreadable result (%v)", env, err)
	}
	return res, nil
}

func tail(s string, n int) string {
	if len(s) > n {
		return s[len(s)-n:]
	}
	return s
}

func main() {
	child := flag.Bool("child", false, "run scenarios from stdin against the SDK (internal)")
	if len(os.Args) > 1 && os.Args[1] == "-child" {
		flag.Parse()
		_ = child
		childMain()
		return
	}
	o := vgen.ParseFlags()
	// vgen.NewRand(seed) and vgen.NewRand(seed+1) produce the same stream shifted by one draw; fork once so that
	// different seeds give unrelated scenario sets.
	r := vgen.NewRand(o.Seed).Fork()
	w := vgen.NewWriter(o.Out, "C12.Defs C12.Model C12.Spec C12.Corr", "case", 96)
	w.Rule = "scenarios = (cardinality limit via OTEL_GO_X_CARDINALITY_LIMIT in a child process, temporality selector, views, instruments, history of measurements over 1-30 attribute sets and 1-6 collections); " +
		"observed: points per metric per ManualReader.Collect, sorted by attribute set; a case is non-trivial when the limit redirected a measurement to the overflow set, " +
		"a filter merged distinct sets, more than one view matched an instrument, or a view dropped/renamed/re-aggregated a stream; distinct = distinct Coq case terms"

	scs := corpus()
	nGen := o.Count(900, 8000)
	for i := 0; i < nGen; i++ {
		scs = append(scs, genScenario(r.Fork(), o.Tier == "thorough"))
	}

	// batches: same environment value, at most 40 scenarios per child
	type batch struct {
		env string
		idx []int
	}
	byEnv := map[string][]int{}
	var envs []string
	for i, sc := range scs {
		if _, ok := byEnv[sc.Env]; !ok {
			envs = append(envs, sc.Env)
		}
		byEnv[sc.Env] = append(byEnv[sc.Env], i)
	}
	var batches []batch
	for _, e := range envs {
		idx := byEnv[e]
		for len(idx) > 0 {
			n := min(40, len(idx))
			batches = append(batches, batch{e, idx[:n]})
			idx = idx[n:]
		}
	}
	results := make([]Result, len(scs))
	failed := make([]error, len(batches))
	var wg sync.WaitGroup
	sem := make(chan struct{}, 12)
	for bi, b := range batches {
		wg.Add(1)
		go func(bi int, b batch) {
			defer wg.Done()
			sem <- struct{}{}
			defer func() { <-sem }()
			in := make([]Scenario, len(b.idx))
			for j, i := range b.idx {
				in[j] = scs[i]
			}
			res, err := runBatch(b.env, in)
			if err != nil {
				failed[bi] = err
				return
			}
			for j, i := range b.idx {
				results[i] = res[j]
			}
		}(bi, b)
	}
	wg.Wait()
	for bi, err := range failed {
		if err != nil {
			// a crashed child is an observation about the implementation: find the scenario by running the batch one by one
			for _, i := range batches[bi].idx {
				res, e1 := runBatch(batches[bi].env, []Scenario{scs[i]})
				if e1 != nil {
					w.Violation("child process running the scenario died: "+e1.Error(), scs[i])
					results[i] = Result{Panic: "child died"}
					continue
				}
				results[i] = res[0]
			}
		}
	}

	for i, sc := range scs {
		res := results[i]
		if res.Panic != "" {
			if res.Panic != "child died" {
				w.Violation("panic: "+res.Panic, sc)
			}
			continue
		}
		if res.Odd != "" {
			w.Violation("observation outside the canonical form: "+res.Odd, sc)
			continue
		}
		kind := "generated"
		if i < len(corpus()) {
			kind = "corpus"
		}
		overflowed, merged := false, false
		for _, ms := range res.Obs {
			for _, m := range ms {
				for _, p := range m.Points {
					if len(p.Attrs) == 1 && p.Attrs[0] == overflowKV {
						overflowed = true
					}
				}
			}
		}
		for _, v := range sc.Views {
			if v.Filter {
				merged = true
			}
		}
		w.Tally(fmt.Sprintf("limit:%d", sc.L))
		w.Tally(fmt.Sprintf("env:%q", sc.Env))
		w.Tally(fmt.Sprintf("sets:%02d-%02d", len(sc.Pool)/5*5, len(sc.Pool)/5*5+4))
		w.Tally(fmt.Sprintf("views:%d", len(sc.Views)))
		w.Tally(fmt.Sprintf("instruments:%d", len(sc.Insts)))
		w.Tally(fmt.Sprintf("collections:%d", len(res.Obs)))
		for _, is := range sc.Insts {
			w.Tally(fmt.Sprintf("kind:%d float:%v", is.Kind, is.Float))
		}
		if overflowed {
			w.Tally("overflow-set-reported")
		}
		switch sc.TMask {
		case 0:
			w.Tally("temporality:cumulative")
		case 0xfe:
			w.Tally("temporality:delta")
		default:
			w.Tally("temporality:mixed")
		}
		for _, v := range sc.Views {
			w.Tally(fmt.Sprintf("view-agg:%d", v.Agg))
			if v.MName != "" {
				w.Tally("view:rename")
			}
			if strings.ContainsAny(v.CName, "*?") {
				w.Tally("view:wildcard")
			}
			if v.Filter {
				w.Tally("view:filter")
			}
		}
		w.Add(caseTerm(sc, res), sc, kind, overflowed || merged || len(sc.Views) > 0)
	}
	if err := w.Flush(); err != nil {
		fmt.Fprintln(os.Stderr, err)
		os.Exit(2)
	}
}
