// C02 harness: counters and up-down counters observed by 1-3 readers (manual and
// periodic, delta and cumulative).
//
// Sequential fragment: one driver goroutine issues Add / Collect / ForceFlush /
// Shutdown (and switches an observable callback between succeeding and failing);
// every delivery (to the caller of Collect, to the recording exporter) is compared
// with the Coq model and judged by the Coq specification.
//
// Concurrent fragment: many goroutines add known totals while collectors run, a
// PeriodicReader with a short interval exports, ForceFlush and Shutdown are called;
// the completed history (all deliveries of every reader, last one made after every
// adder returned) is judged by the Coq specification only.
package main

import (
	"context"
	"errors"
	"fmt"
	"math"
	"os"
	"runtime"
	"sort"
	"strings"
	"sync"
	"sync/atomic"
	"time"

	"github.com/go-logr/logr"
	"go.opentelemetry.io/otel"
	"go.opentelemetry.io/otel/attribute"
	"go.opentelemetry.io/otel/metric"
	sdk "go.opentelemetry.io/otel/sdk/metric"
	"go.opentelemetry.io/otel/sdk/metric/exemplar"
	"go.opentelemetry.io/otel/sdk/metric/metricdata"

	"verif/harness/vgen"
)

const scale = 1024

func zig(v int64) string {
	if v >= 0 {
		return vgen.N(uint64(v) * 2)
	}
	return vgen.N(uint64(-v)*2 - 1)
}

// ---- attribute sets as canonical keys ----

type kv struct {
	k string
	v any
}

var attrPool = []kv{{"a", int64(1)}, {"a", int64(2)}, {"b", "x"}, {"b", "y"}, {"c", true}}

func canon(kvs []kv) string {
	m := map[string]any{}
	for _, e := range kvs {
		m[e.k] = e.v
	}
	ks := make([]string, 0, len(m))
	for k := range m {
		ks = append(ks, k)
	}
	sort.Strings(ks)
	var sb strings.Builder
	for _, k := range ks {
		fmt.Fprintf(&sb, "%s=%T:%v;", k, m[k], m[k])
	}
	return sb.String()
}

func toAttr(kvs []kv) []attribute.KeyValue {
	out := make([]attribute.KeyValue, 0, len(kvs))
	for _, e := range kvs {
		switch v := e.v.(type) {
		case string:
			out = append(out, attribute.String(e.k, v))
		case int64:
			out = append(out, attribute.Int64(e.k, v))
		case bool:
			out = append(out, attribute.Bool(e.k, v))
		}
	}
	return out
}

func canonSet(s attribute.Set) string {
	var sb strings.Builder
	it := s.Iter()
	for it.Next() {
		a := it.Attribute()
		var v any
		switch a.Value.Type() {
		case attribute.STRING:
			v = a.Value.AsString()
		case attribute.INT64:
			v = a.Value.AsInt64()
		case attribute.BOOL:
			v = a.Value.AsBool()
		default:
			v = a.Value.Emit()
		}
		fmt.Fprintf(&sb, "%s=%T:%v;", string(a.Key), v, v)
	}
	return sb.String()
}

// genSets draws n distinct attribute sets (effective members only) and their key numbers.
func genSets(r *vgen.Rand, n int) ([][]kv, map[string]uint64) {
	var sets [][]kv
	seen := map[string]bool{}
	for tries := 0; len(sets) < n && tries < 200; tries++ {
		m := map[string]kv{}
		for _, e := range attrPool {
			if r.Chance(1, 3) {
				m[e.k] = e
			}
		}
		var s []kv
		for _, e := range m {
			s = append(s, e)
		}
		sort.Slice(s, func(a, b int) bool { return s[a].k < s[b].k })
		c := canon(s)
		if !seen[c] {
			seen[c] = true
			sets = append(sets, s)
		}
	}
	var cs []string
	for _, s := range sets {
		cs = append(cs, canon(s))
	}
	sort.Strings(cs)
	idx := map[string]uint64{}
	for i, c := range cs {
		idx[c] = uint64(i)
	}
	return sets, idx
}

// ---- recording exporter ----

type delivery map[string]map[uint64]int64 // metric name -> key -> value (model units)

type recExporter struct {
	entered chan struct{} // non-nil: signalled (without blocking) whenever an Export call has begun
	honour  bool          // with a gate: the payload counts as delivered only if the gate opens before the context ends
	aggMode int
	gate    chan struct{} // non-nil: Export hands the data over, then stalls until the gate is closed or its context ends
	temp    metricdata.Temporality
	mu      sync.Mutex
	exps    []delivery
	ext     func(*metricdata.ResourceMetrics) delivery
	down    bool
}

func (e *recExporter) Temporality(sdk.InstrumentKind) metricdata.Temporality { return e.temp }
func (e *recExporter) Aggregation(k sdk.InstrumentKind) sdk.Aggregation      { return aggSel(e.aggMode)(k) }

// aggSel: four spellings of "the default aggregation" a reader may answer with.
func aggSel(mode int) sdk.AggregationSelector {
	return func(k sdk.InstrumentKind) sdk.Aggregation {
		switch mode % 4 {
		case 1:
			return nil
		case 2:
			return sdk.AggregationDefault{}
		case 3: // a mis-configured aggregation (boundaries not increasing): reported, and the default is used instead
			return sdk.AggregationExplicitBucketHistogram{Boundaries: []float64{10, 5}}
		default:
			return sdk.DefaultAggregationSelector(k)
		}
	}
}
func (e *recExporter) Export(ctx context.Context, rm *metricdata.ResourceMetrics) error {
	d := e.ext(rm)
	if e.entered != nil {
		select {
		case e.entered <- struct{}{}:
		default:
		}
	}
	if e.gate != nil && e.honour { // a slow backend that honours its context: nothing is delivered if the context ends first
		select {
		case <-e.gate:
		case <-ctx.Done():
			return ctx.Err()
		}
		e.mu.Lock()
		e.exps = append(e.exps, d)
		e.mu.Unlock()
		return nil
	}
	e.mu.Lock()
	e.exps = append(e.exps, d)
	e.mu.Unlock()
	if e.gate != nil {
		select {
		case <-e.gate:
		case <-ctx.Done():
			return ctx.Err()
		}
	}
	return nil
}
func (e *recExporter) ForceFlush(context.Context) error { return nil }
func (e *recExporter) Shutdown(context.Context) error {
	e.mu.Lock()
	e.down = true
	e.mu.Unlock()
	return nil
}
func (e *recExporter) count() int {
	e.mu.Lock()
	defer e.mu.Unlock()
	return len(e.exps)
}
func (e *recExporter) since(n int) []delivery {
	e.mu.Lock()
	defer e.mu.Unlock()
	return append([]delivery(nil), e.exps[n:]...)
}

// ---- scenario plumbing ----

type readerCfg struct {
	periodic bool
	delta    bool
}

// coq renders the reader; cb = an observable callback is registered with the meter.
func (c readerCfg) coq(cb bool) string {
	f := "Rm"
	if c.periodic {
		f = "Rp"
	}
	return vgen.App(f, vgen.Bool(c.delta), vgen.Bool(cb))
}

// handle: one value returned by a Meter.*Counter call; an instrument may have been obtained several
// times (same name again, a name differing only in case, through a second Meter() call for the
// same scope): every handle must feed the same stream(s), each measurement exactly once.
type handle struct {
	ic metric.Int64Counter
	iu metric.Int64UpDownCounter
	fc metric.Float64Counter
	fu metric.Float64UpDownCounter
}

type instr struct {
	name    string
	streams []int // indices (into world.streams) of the stream identities this instrument feeds
	float   bool
	updown  bool
	hs      []handle
}

// addOpts spells the attributes of one measurement in one of three ways.
func addOpts(kvs []kv, mode int) []metric.AddOption {
	as := toAttr(kvs)
	switch mode % 3 {
	case 1:
		return []metric.AddOption{metric.WithAttributeSet(attribute.NewSet(as...))}
	case 2: // two options whose sets are merged
		h := len(as) / 2
		return []metric.AddOption{metric.WithAttributes(as[:h]...), metric.WithAttributes(as[h:]...)}
	default:
		return []metric.AddOption{metric.WithAttributes(as...)}
	}
}

// add records v through handle number hi (mod the number of handles), attributes spelled per mode.
func (in *instr) add(ctx context.Context, v int64, kvs []kv, mode, hi int) {
	opts := addOpts(kvs, mode)
	h := in.hs[hi%len(in.hs)]
	switch {
	case in.float && in.updown:
		h.fu.Add(ctx, float64(v)/scale, opts...)
	case in.float:
		h.fc.Add(ctx, float64(v)/scale, opts...)
	case in.updown:
		h.iu.Add(ctx, v, opts...)
	default:
		h.ic.Add(ctx, v, opts...)
	}
}

type world struct {
	w       *vgen.Writer
	desc    any
	cfgs    []readerCfg
	manual  []*sdk.ManualReader
	period  []*sdk.PeriodicReader
	exps    []*recExporter
	insts   []*instr
	streams []string // stream identities: metric names compared case-insensitively (lower-cased)
	viewsD  []string
	keyIdx  map[string]uint64
	mp      *sdk.MeterProvider
	cbFail  atomic.Bool
	wantT   []metricdata.Temporality
	errSeen error
}

var errCallback = errors.New("verif: callback failed")

var violMu sync.Mutex

func (wd *world) bad(what string) {
	violMu.Lock()
	defer violMu.Unlock()
	wd.w.Violation(what, wd.desc)
}

func (wd *world) extractor(want metricdata.Temporality) func(*metricdata.ResourceMetrics) delivery {
	return func(rm *metricdata.ResourceMetrics) delivery {
		d := delivery{}
		for _, sm := range rm.ScopeMetrics {
			for _, m := range sm.Metrics {
				if m.Name == "errcb" {
					wd.bad("the silent observable instrument reported data")
					continue
				}
				ident := strings.ToLower(m.Name)
				if _, dup := d[ident]; dup {
					wd.bad("two streams with the same (case-insensitive) identity in one collection: " + m.Name)
				}
				known := false
				for _, sname := range wd.streams {
					known = known || sname == ident
				}
				if !known {
					wd.bad("unexpected stream " + m.Name)
				}
				pts := map[uint64]int64{}
				put := func(set attribute.Set, v int64) {
					k, ok := wd.keyIdx[canonSet(set)]
					if !ok {
						k = 9999
					}
					if _, dup := pts[k]; dup {
						wd.bad("attribute set reported twice in one stream")
					}
					pts[k] = v
				}
				switch s := m.Data.(type) {
				case metricdata.Sum[int64]:
					if s.Temporality != want {
						wd.bad("wrong temporality reported")
					}
					for _, p := range s.DataPoints {
						put(p.Attributes, p.Value)
					}
				case metricdata.Sum[float64]:
					if s.Temporality != want {
						wd.bad("wrong temporality reported")
					}
					for _, p := range s.DataPoints {
						x := p.Value * scale
						if x != math.Trunc(x) || math.Abs(x) > 1<<53 {
							wd.bad(fmt.Sprintf("inexact float sum %v", p.Value))
						}
						put(p.Attributes, int64(x))
					}
				default:
					wd.bad(fmt.Sprintf("unexpected aggregation %T", m.Data))
				}
				d[ident] = pts
			}
		}
		return d
	}
}

func allDelta(sdk.InstrumentKind) metricdata.Temporality { return metricdata.DeltaTemporality }
func allCum(sdk.InstrumentKind) metricdata.Temporality   { return metricdata.CumulativeTemporality }

// build creates provider, readers, instruments and the observable callback.
func build(w *vgen.Writer, r *vgen.Rand, desc any, cfgs []readerCfg, nInst int, interval time.Duration, keyIdx map[string]uint64, forceKind int, views bool, errcb bool) (*world, error) {
	wd := &world{w: w, desc: desc, cfgs: cfgs, keyIdx: keyIdx}
	var opts []sdk.Option
	for _, c := range cfgs {
		t := metricdata.CumulativeTemporality
		if c.delta {
			t = metricdata.DeltaTemporality
		}
		wd.wantT = append(wd.wantT, t)
		if c.periodic {
			e := &recExporter{temp: t, aggMode: r.Intn(4)}
			e.ext = wd.extractor(t)
			popts := []sdk.PeriodicReaderOption{sdk.WithInterval(interval), sdk.WithTimeout(60 * time.Second)}
			if periodicExtra != nil {
				popts = append(popts, periodicExtra(len(wd.period))...)
			}
			pr := sdk.NewPeriodicReader(e, popts...)
			wd.period = append(wd.period, pr)
			wd.manual = append(wd.manual, nil)
			wd.exps = append(wd.exps, e)
			opts = append(opts, sdk.WithReader(pr))
		} else {
			sel := allCum
			if c.delta {
				sel = allDelta
			}
			mr := sdk.NewManualReader(sdk.WithTemporalitySelector(sel), sdk.WithAggregationSelector(aggSel(r.Intn(3))))
			wd.manual = append(wd.manual, mr)
			wd.period = append(wd.period, nil)
			wd.exps = append(wd.exps, nil)
			opts = append(opts, sdk.WithReader(mr))
		}
	}
	// views: 0-2 views per instrument renaming its stream (same name twice, names differing only in
	// letter case, distinct names).  Stream identity = lower-cased name; every identity must carry
	// every measurement of the instrument exactly once.
	names := make([][]string, nInst)
	invalid := make([]bool, nInst)
	viewed := make([]bool, nInst)
	for i := 0; i < nInst; i++ {
		base := fmt.Sprintf("c%d", i)
		names[i] = []string{base}
		if views {
			switch r.Intn(10) {
			case 0:
				names[i] = []string{base + "x"}
			case 1:
				names[i] = []string{base + "x", base + "x"}
			case 2:
				names[i] = []string{base + "x", strings.ToUpper(base) + "X"}
			case 3:
				names[i] = []string{base + "x", base + "y"}
			case 4:
				names[i] = []string{strings.ToUpper(base) + "Y", base + "y"}
			case 5: // a view that asks for the default aggregation in so many words, criteria with a wildcard
				opts = append(opts, sdk.WithView(sdk.NewView(sdk.Instrument{Name: base + "*"}, sdk.Stream{Aggregation: sdk.AggregationDefault{}})))
				viewed[i] = true
				wd.viewsD = append(wd.viewsD, base+"* -> default aggregation")
			case 6: // dropped: the instrument has no stream at all, nothing may be reported for it
				if nInst > 1 {
					opts = append(opts, sdk.WithView(sdk.NewView(sdk.Instrument{Name: base}, sdk.Stream{Aggregation: sdk.AggregationDrop{}})))
					names[i] = nil
					viewed[i] = true
					wd.viewsD = append(wd.viewsD, base+" -> drop")
				}
			}
			if len(names[i]) > 1 || (len(names[i]) == 1 && names[i][0] != base) {
				viewed[i] = true
				for _, n := range names[i] {
					st := sdk.Stream{Name: n}
					if r.Chance(1, 4) {
						st.Aggregation = sdk.AggregationDefault{}
					}
					opts = append(opts, sdk.WithView(sdk.NewView(sdk.Instrument{Name: base}, st)))
				}
				wd.viewsD = append(wd.viewsD, fmt.Sprintf("%s -> %v", base, names[i]))
				// next to the valid view(s), sometimes one whose aggregation the instrument kind cannot use
				// (LastValue on a counter): creating the instrument then reports an error (documented), and
				// the valid streams must still see every measurement exactly once
				if r.Chance(1, 3) {
					bad := sdk.WithView(sdk.NewView(sdk.Instrument{Name: base}, sdk.Stream{Name: base + "bad", Aggregation: sdk.AggregationLastValue{}}))
					if r.Bool() { // before or after the valid ones
						opts = append([]sdk.Option{bad}, opts...)
					} else {
						opts = append(opts, bad)
					}
					invalid[i] = true
					wd.viewsD = append(wd.viewsD, base+" -> incompatible LastValue view")
				}
			}
		}
	}
	wd.mp = sdk.NewMeterProvider(opts...)
	meter := wd.mp.Meter("verif/c02")
	for i := 0; i < nInst; i++ {
		in := &instr{name: fmt.Sprintf("c%d", i), float: r.Bool(), updown: r.Bool()}
		for _, n := range names[i] {
			ident := strings.ToLower(n)
			found := false
			for _, si := range in.streams {
				found = found || wd.streams[si] == ident
			}
			if !found {
				in.streams = append(in.streams, len(wd.streams))
				wd.streams = append(wd.streams, ident)
			}
		}
		if forceKind == 1 {
			in.updown = false
		}
		mk := func(mt metric.Meter, name string) (handle, error) {
			var h handle
			var err error
			switch {
			case in.float && in.updown:
				h.fu, err = mt.Float64UpDownCounter(name)
			case in.float:
				h.fc, err = mt.Float64Counter(name)
			case in.updown:
				h.iu, err = mt.Int64UpDownCounter(name)
			default:
				h.ic, err = mt.Int64Counter(name)
			}
			return h, err
		}
		h0, err := mk(meter, in.name)
		in.hs = []handle{h0}
		if views && err == nil { // the same instrument obtained again: every handle feeds the same stream(s)
			for j, n := 0, r.Intn(3); j < n; j++ {
				mt := meter
				if r.Bool() {
					mt = wd.mp.Meter("verif/c02") // the provider hands out the same meter for the same scope
				}
				name := in.name
				if !viewed[i] && r.Bool() {
					name = strings.ToUpper(name) // instrument names are case-insensitive
				}
				if h, e := mk(mt, name); e == nil {
					in.hs = append(in.hs, h)
					w.Tally("instrument obtained again (" + map[bool]string{true: "same name", false: "other letter case"}[name == in.name] + ")")
				} else {
					wd.bad("obtaining an existing instrument again failed: " + e.Error())
				}
			}
		}
		for _, h := range in.hs {
			for _, x := range []any{h.ic, h.iu, h.fc, h.fu} {
				if en, ok := x.(interface{ Enabled(context.Context) bool }); ok && x != nil {
					if en.Enabled(context.Background()) != (len(in.streams) > 0) {
						wd.bad("Enabled() does not say whether the instrument has a stream")
					}
				}
			}
		}
		if err != nil && !invalid[i] {
			return nil, err
		}
		if invalid[i] {
			if err == nil {
				wd.bad("creating an instrument matched by an incompatible view reported no error")
			}
			w.Tally("instrument with an incompatible view next to valid ones")
		}
		wd.insts = append(wd.insts, in)
	}
	if !errcb {
		return wd, nil
	}
	g, err := meter.Int64ObservableGauge("errcb")
	if err != nil {
		return nil, err
	}
	_, err = meter.RegisterCallback(func(context.Context, metric.Observer) error {
		if wd.cbFail.Load() {
			return errCallback
		}
		return nil
	}, g)
	return wd, err
}

func code(err error) uint64 {
	switch {
	case err == nil:
		return 0
	case errors.Is(err, sdk.ErrReaderShutdown):
		return 1
	case errors.Is(err, errCallback):
		return 2
	case errors.Is(err, context.Canceled):
		return 4
	default:
		return 9
	}
}

// pointsTerm renders the points of instrument name in a delivery, sorted by key.
func pointsTerm(d delivery, name string) string {
	pts := d[name]
	ks := make([]uint64, 0, len(pts))
	for k := range pts {
		ks = append(ks, k)
	}
	sort.Slice(ks, func(a, b int) bool { return ks[a] < ks[b] })
	var ps []string
	for _, k := range ks {
		ps = append(ps, vgen.App("P", vgen.N(k), zig(pts[k])))
	}
	return vgen.List(ps)
}

func obsTerm(wd *world, dels [][]delivery) string {
	var perReader []string
	for r := range wd.cfgs {
		var perInst []string
		for _, sname := range wd.streams {
			var ds []string
			for _, d := range dels[r] {
				ds = append(ds, pointsTerm(d, sname))
			}
			perInst = append(perInst, vgen.List(ds))
		}
		perReader = append(perReader, vgen.List(perInst))
	}
	return vgen.List(perReader)
}

func genCfgs(r *vgen.Rand) []readerCfg {
	n := r.Range(1, 3)
	cfgs := make([]readerCfg, n)
	for i := range cfgs {
		cfgs[i] = readerCfg{periodic: r.Bool(), delta: r.Bool()}
	}
	return cfgs
}

func genValue(r *vgen.Rand, in *instr) int64 {
	v := int64(r.Range(0, 40))
	if in.updown {
		v = int64(r.Range(-40, 40))
	}
	if in.float {
		switch r.Intn(3) {
		case 0:
			v *= scale
		case 1:
			v = v*scale + int64(r.Intn(scale))
		default:
			v *= 1 << 26
		}
	} else if r.Chance(1, 8) {
		v *= 1 << 40
	}
	return v
}

// ---- sequential fragment ----

type seqOp struct {
	typ  string // add | collect | flush | shutdown | err
	mode int    // how the attributes of an add are spelled
	h    int    // which handle of the instrument records an add
	r, i int
	set  int
	v    int64
	b    bool
}

func runSequential(w *vgen.Writer, r *vgen.Rand, desc string, cfgs []readerCfg, nInst, nSets int, ops []seqOp, gen bool, nOps int, kind string) {
	sets, keyIdx := genSets(r, nSets)
	// the observable callback is always there when callback faults are played, otherwise in half of the histories
	hasCb := !gen || kind == "seq-fault" || r.Bool()
	wd, err := build(w, r, desc, cfgs, nInst, time.Hour, keyIdx, 0, gen, hasCb)
	if err != nil {
		w.Violation("setup failed: "+err.Error(), desc)
		return
	}
	ctx := context.Background()
	dels := make([][]delivery, len(cfgs))
	codes := make([][]string, len(cfgs))
	var terms, descOps []string
	down := make([]bool, len(cfgs))
	pdown := false
	// destination objects: a fresh ResourceMetrics per Collect, or one per reader that is used again and again
	reuse := gen && r.Bool()
	rms := make([]metricdata.ResourceMetrics, len(cfgs))
	step := func(o seqOp) {
		switch o.typ {
		case "add":
			in := wd.insts[o.i]
			s := sets[o.set%len(sets)]
			in.add(ctx, o.v, s, o.mode, o.h)
			for _, si := range in.streams { // one measurement, seen once by every stream identity of the instrument
				terms = append(terms, vgen.App("Ad", vgen.N(uint64(si)), vgen.N(keyIdx[canon(s)]), zig(o.v)))
			}
			descOps = append(descOps, fmt.Sprintf("add %s{%s} %d", in.name, canon(s), o.v))
		case "err":
			wd.cbFail.Store(o.b)
			terms = append(terms, vgen.App("Er", vgen.Bool(o.b)))
			descOps = append(descOps, fmt.Sprintf("callback fails=%v", o.b))
		case "collect", "collectc":
			var fresh metricdata.ResourceMetrics
			rmp := &fresh
			if reuse {
				rmp = &rms[o.r]
			}
			if o.v == 1 { // a nil destination first: an error, and nothing may be consumed by it
				var e0 error
				if cfgs[o.r].periodic {
					e0 = wd.period[o.r].Collect(ctx, nil)
				} else {
					e0 = wd.manual[o.r].Collect(ctx, nil)
				}
				if e0 == nil {
					w.Violation("Collect with a nil destination returned no error", desc)
				}
			}
			var e error
			cctx := ctx
			if o.typ == "collectc" { // a context that is already cancelled
				var cancel context.CancelFunc
				cctx, cancel = context.WithCancel(ctx)
				cancel()
				w.Tally("seq:collect with a cancelled context")
			}
			if cfgs[o.r].periodic {
				e = wd.period[o.r].Collect(cctx, rmp)
			} else {
				e = wd.manual[o.r].Collect(cctx, rmp)
			}
			c := code(e)
			if c == 0 || c == 2 {
				dels[o.r] = append(dels[o.r], wd.extractor(wd.wantT[o.r])(rmp))
			} else if len(rmp.ScopeMetrics) != 0 && c != 1 {
				w.Violation("Collect returned an error other than the callback's together with data", desc)
			}
			codes[o.r] = append(codes[o.r], vgen.N(c))
			if o.typ == "collectc" {
				terms = append(terms, vgen.App("Cc", vgen.N(uint64(o.r))))
			} else {
				terms = append(terms, vgen.App("Cl", vgen.N(uint64(o.r))))
			}
			descOps = append(descOps, fmt.Sprintf("%s r%d -> %d", o.typ, o.r, c))
		case "flush":
			n0 := wd.exps[o.r].count()
			e := wd.period[o.r].ForceFlush(ctx)
			dels[o.r] = append(dels[o.r], wd.exps[o.r].since(n0)...)
			codes[o.r] = append(codes[o.r], vgen.N(code(e)))
			terms = append(terms, vgen.App("Fl", vgen.N(uint64(o.r))))
			descOps = append(descOps, fmt.Sprintf("flush r%d -> %d", o.r, code(e)))
		case "shutdown":
			var e error
			if cfgs[o.r].periodic {
				n0 := wd.exps[o.r].count()
				e = wd.period[o.r].Shutdown(ctx)
				dels[o.r] = append(dels[o.r], wd.exps[o.r].since(n0)...)
			} else {
				e = wd.manual[o.r].Shutdown(ctx)
			}
			down[o.r] = true
			codes[o.r] = append(codes[o.r], vgen.N(code(e)))
			terms = append(terms, vgen.App("Sd", vgen.N(uint64(o.r))))
			descOps = append(descOps, fmt.Sprintf("shutdown r%d -> %d", o.r, code(e)))
		case "pflush":
			// MeterProvider.ForceFlush = ForceFlush of every reader that has one (the periodic ones), in
			// registration order; the joined result does not reveal the individual ones (code 7)
			n0 := make([]int, len(cfgs))
			for rd, c := range cfgs {
				if c.periodic {
					n0[rd] = wd.exps[rd].count()
				}
			}
			e := wd.mp.ForceFlush(ctx)
			for rd, c := range cfgs {
				if c.periodic {
					dels[rd] = append(dels[rd], wd.exps[rd].since(n0[rd])...)
					codes[rd] = append(codes[rd], "7")
					terms = append(terms, vgen.App("Fl", vgen.N(uint64(rd))))
				}
			}
			descOps = append(descOps, fmt.Sprintf("MeterProvider.ForceFlush -> %d", code(e)))
			w.Tally("seq:provider ForceFlush")
		case "pshutdown":
			if pdown { // the provider shuts its readers down once
				if e := wd.mp.Shutdown(ctx); !errors.Is(e, sdk.ErrReaderShutdown) {
					w.Violation(fmt.Sprintf("second MeterProvider.Shutdown returned %v", e), desc)
				}
				return
			}
			pdown = true
			n0 := make([]int, len(cfgs))
			for rd, c := range cfgs {
				if c.periodic {
					n0[rd] = wd.exps[rd].count()
				}
			}
			e := wd.mp.Shutdown(ctx)
			for rd, c := range cfgs {
				if c.periodic {
					dels[rd] = append(dels[rd], wd.exps[rd].since(n0[rd])...)
				}
				down[rd] = true
				codes[rd] = append(codes[rd], "7")
				terms = append(terms, vgen.App("Sd", vgen.N(uint64(rd))))
			}
			descOps = append(descOps, fmt.Sprintf("MeterProvider.Shutdown -> %d", code(e)))
			w.Tally("seq:provider Shutdown")
		}
	}
	if gen {
		failing := false
		for n := 0; n < nOps; n++ {
			c := r.Intn(100)
			rd := r.Intn(len(cfgs))
			switch {
			case c < 55:
				i := r.Intn(nInst)
				step(seqOp{typ: "add", i: i, set: r.Intn(len(sets)), v: genValue(r, wd.insts[i]), mode: r.Intn(3), h: r.Intn(4)})
			case c < 66:
				step(seqOp{typ: "collect", r: rd, v: int64(r.Intn(6))})
			case c < 72:
				step(seqOp{typ: "collectc", r: rd})
			case c < 75:
				step(seqOp{typ: "pflush"})
			case c < 88:
				if cfgs[rd].periodic {
					step(seqOp{typ: "flush", r: rd})
				} else {
					step(seqOp{typ: "collect", r: rd})
				}
			case c < 93:
				if kind == "seq-fault" || failing {
					failing = !failing
					step(seqOp{typ: "err", b: failing})
				}
			case c < 96 && n > nOps/2:
				step(seqOp{typ: "shutdown", r: rd})
			case c < 98 && n > nOps/2:
				step(seqOp{typ: "pshutdown"})
			}
		}
		// close every reader so that the final collection of periodic readers is part of the history
		for rd := range cfgs {
			if r.Chance(2, 3) {
				step(seqOp{typ: "shutdown", r: rd})
			}
		}
	} else {
		for _, o := range ops {
			step(o)
		}
	}
	for rd, c := range cfgs {
		if !down[rd] {
			if c.periodic {
				wd.period[rd].Shutdown(ctx)
			} else {
				wd.manual[rd].Shutdown(ctx)
			}
		}
	}
	var cfgT, codeT []string
	var cfgD []string
	for rd, c := range cfgs {
		cfgT = append(cfgT, c.coq(hasCb))
		codeT = append(codeT, vgen.List(codes[rd]))
		cfgD = append(cfgD, fmt.Sprintf("periodic=%v delta=%v", c.periodic, c.delta))
		w.Tally(fmt.Sprintf("seq:reader periodic=%v delta=%v", c.periodic, c.delta))
	}
	nDel := 0
	for _, d := range dels {
		nDel += len(d)
	}
	w.Tally(fmt.Sprintf("seq:ops=%d", len(terms)/20*20))
	w.Tally(fmt.Sprintf("seq:deliveries=%d", min(nDel, 40)/8*8))
	if len(wd.viewsD) > 0 {
		w.Tally("seq:with-views")
	}
	term := vgen.App("CSeq", vgen.List(cfgT), vgen.N(uint64(len(wd.streams))), vgen.List(terms), obsTerm(wd, dels), vgen.List(codeT))
	w.Add(term, map[string]any{"history": desc, "readers": cfgD, "views": wd.viewsD, "ops": descOps}, kind, nDel >= 2)
}

// ---- concurrent fragment ----

func runConcurrent(w *vgen.Writer, r *vgen.Rand, desc string) {
	cfgs := genCfgs(r)
	if r.Chance(1, 2) { // make sure a periodic delta reader is there often
		cfgs[0] = readerCfg{periodic: true, delta: true}
	}
	nInst := r.Range(1, 2)
	nonneg := r.Bool()
	sets, keyIdx := genSets(r, r.Range(1, 4))
	interval := time.Duration(r.Range(1, 4)) * time.Millisecond
	fk := 0
	if nonneg {
		fk = 1
	}
	wd, err := build(w, r, desc, cfgs, nInst, interval, keyIdx, fk, true, true)
	if err != nil {
		w.Violation("setup failed: "+err.Error(), desc)
		return
	}
	ctx := context.Background()
	nG := r.Range(2, 8)
	perG := r.Range(2000, 30000)
	// plan: every goroutine gets its own deterministic stream of (inst, set, value)
	type addPlan struct {
		inst, set int
		v         int64
	}
	plans := make([][]addPlan, nG)
	totals := make([]map[uint64]int64, nInst)
	for i := range totals {
		totals[i] = map[uint64]int64{}
	}
	for g := range plans {
		gr := r.Fork()
		for j := 0; j < perG; j++ {
			i := gr.Intn(nInst)
			s := gr.Intn(len(sets))
			in := wd.insts[i]
			var v int64
			if nonneg {
				v = int64(gr.Range(0, 3))
			} else {
				v = int64(gr.Range(-3, 3))
			}
			if in.float {
				v *= scale / 4
			}
			plans[g] = append(plans[g], addPlan{i, s, v})
			totals[i][keyIdx[canon(sets[s])]] += v
		}
	}
	yields := make([]int, nG)
	for g := range yields {
		yields[g] = r.Intn(8)
	}
	dels := make([][]delivery, len(cfgs))
	var delMu sync.Mutex
	stop := make(chan struct{})
	var collectors sync.WaitGroup
	var problems []string
	var probMu sync.Mutex
	problem := func(s string) {
		probMu.Lock()
		problems = append(problems, s)
		probMu.Unlock()
	}
	for rd, c := range cfgs {
		rd, c := rd, c
		pause := time.Duration(r.Range(20, 600)) * time.Microsecond
		maxCollects := r.Range(3, 60)
		collectors.Add(1)
		go func() {
			defer collectors.Done()
			for n := 0; n < maxCollects; n++ {
				select {
				case <-stop:
					return
				case <-time.After(pause):
				}
				if c.periodic {
					if e := wd.period[rd].ForceFlush(ctx); e != nil {
						problem(fmt.Sprintf("ForceFlush returned %v", e))
					}
				} else {
					var rm metricdata.ResourceMetrics
					if e := wd.manual[rd].Collect(ctx, &rm); e != nil {
						problem(fmt.Sprintf("Collect returned %v", e))
					}
					d := wd.extractor(wd.wantT[rd])(&rm)
					delMu.Lock()
					dels[rd] = append(dels[rd], d)
					delMu.Unlock()
				}
			}
		}()
	}
	var adders sync.WaitGroup
	for g := range plans {
		g := g
		adders.Add(1)
		go func() {
			defer adders.Done()
			for j, p := range plans[g] {
				wd.insts[p.inst].add(ctx, p.v, sets[p.set], j, j/3)
				if yields[g] > 0 && j%yields[g] == 0 {
					runtime.Gosched()
				}
			}
		}()
	}
	finished := make(chan struct{})
	go func() {
		adders.Wait()
		close(stop)
		collectors.Wait()
		// every Add has returned: the final collection of every reader
		for rd, c := range cfgs {
			if c.periodic {
				if e := wd.period[rd].Shutdown(ctx); e != nil {
					problem(fmt.Sprintf("Shutdown returned %v", e))
				}
				dels[rd] = wd.exps[rd].since(0)
			} else {
				var rm metricdata.ResourceMetrics
				if e := wd.manual[rd].Collect(ctx, &rm); e != nil {
					problem(fmt.Sprintf("final Collect returned %v", e))
				}
				dels[rd] = append(dels[rd], wd.extractor(wd.wantT[rd])(&rm))
				wd.manual[rd].Shutdown(ctx)
			}
		}
		close(finished)
	}()
	select {
	case <-finished:
	case <-time.After(120 * time.Second):
		w.Violation("concurrent scenario did not finish within 120 s (adders, collectors or Shutdown hang)", desc)
		return
	}
	for _, p := range problems {
		w.Violation("concurrent scenario: "+p, desc)
	}
	// quiet after shutdown: no export may arrive later
	counts := make([]int, len(cfgs))
	for rd, c := range cfgs {
		if c.periodic {
			counts[rd] = wd.exps[rd].count()
		}
	}
	time.Sleep(2 * interval)
	for rd, c := range cfgs {
		if c.periodic && wd.exps[rd].count() != counts[rd] {
			w.Violation("a periodic reader exported after Shutdown returned", desc)
		}
	}
	var cfgT, cfgD []string
	for _, c := range cfgs {
		cfgT = append(cfgT, c.coq(true))
		cfgD = append(cfgD, fmt.Sprintf("periodic=%v delta=%v", c.periodic, c.delta))
		w.Tally(fmt.Sprintf("conc:reader periodic=%v delta=%v", c.periodic, c.delta))
	}
	var addT []string
	streamInst := make([]int, len(wd.streams))
	for i, in := range wd.insts {
		for _, si := range in.streams {
			streamInst[si] = i
		}
	}
	for _, i := range streamInst {
		ks := make([]uint64, 0, len(totals[i]))
		for k := range totals[i] {
			ks = append(ks, k)
		}
		sort.Slice(ks, func(a, b int) bool { return ks[a] < ks[b] })
		var ts []string
		for _, k := range ks {
			ts = append(ts, vgen.App("T", vgen.N(k), zig(totals[i][k])))
		}
		addT = append(addT, vgen.List(ts))
	}
	nDel := 0
	for _, d := range dels {
		nDel += len(d)
	}
	// how many deliveries carried data before the final one (collections that raced with the adders)
	racing := 0
	for _, ds := range dels {
		for j, d := range ds {
			if j+1 < len(ds) {
				for _, pts := range d {
					if len(pts) > 0 {
						racing++
						break
					}
				}
			}
		}
	}
	w.Tally(fmt.Sprintf("conc:racing-deliveries=%d", min(racing, 100)/10*10))
	w.Tally(fmt.Sprintf("conc:deliveries=%d", min(nDel, 200)/20*20))
	w.Tally(fmt.Sprintf("conc:goroutines=%d", nG))
	term := vgen.App("CConc", vgen.List(cfgT), vgen.Bool(nonneg), vgen.List(addT), obsTerm(wd, dels))
	w.Add(term, map[string]any{"history": desc, "readers": cfgD, "goroutines": nG, "adds_per_goroutine": perG, "interval": interval.String(), "nonneg": nonneg, "deliveries": nDel},
		"concurrent", nDel >= 2)
}

// runPiledFlush (fixed program, seeded change C02-8): ForceFlush #2 is issued while ForceFlush #1 is still
// inside a slow Export and after one more measurement was recorded.  When #2 returns nil, that
// measurement must have been collected and exported by a collection of its own: the history is
// equivalent to Add a; ForceFlush; Add b; ForceFlush and is judged like a sequential one.
func runPiledFlush(w *vgen.Writer, r *vgen.Rand, desc string, delta bool) {
	cfgs := []readerCfg{{periodic: true, delta: delta}}
	sets, keyIdx := genSets(r, 1)
	wd, err := build(w, r, desc, cfgs, 1, time.Hour, keyIdx, 0, false, false)
	if err != nil {
		w.Violation("setup failed: "+err.Error(), desc)
		return
	}
	ex := wd.exps[0]
	gate := make(chan struct{})
	ex.gate = gate
	ex.entered = make(chan struct{}, 8)
	ctx := context.Background()
	k := keyIdx[canon(sets[0])]
	a, b := int64(r.Range(1, 40)), int64(r.Range(1, 40))
	if wd.insts[0].float {
		a, b = a*scale, b*scale
	}
	wd.insts[0].add(ctx, a, sets[0], 0, 0)
	res := make(chan error, 2)
	go func() { res <- wd.period[0].ForceFlush(ctx) }()
	select {
	case <-ex.entered: // #1 has collected and is inside Export
	case <-time.After(60 * time.Second):
		close(gate)
		return // inconclusive: the machine is too busy to set the shape up
	}
	wd.insts[0].add(ctx, b, sets[0], 1, 0)
	go func() { res <- wd.period[0].ForceFlush(ctx) }() // #2 waits for the run loop
	time.Sleep(30 * time.Millisecond)                   // let #2 reach the flush channel (not needed for correctness)
	close(gate)
	codes := []string{}
	for i := 0; i < 2; i++ {
		select {
		case e := <-res:
			codes = append(codes, vgen.N(code(e)))
		case <-time.After(120 * time.Second):
			w.Violation("ForceFlush issued during an export did not return within 120 s", desc)
			return
		}
	}
	n0 := ex.count()
	dels := [][]delivery{ex.since(0)}
	e := wd.period[0].Shutdown(ctx)
	dels[0] = append(dels[0], ex.since(n0)...)
	codes = append(codes, vgen.N(code(e)))
	terms := []string{
		vgen.App("Ad", "0", vgen.N(k), zig(a)), vgen.App("Fl", "0"),
		vgen.App("Ad", "0", vgen.N(k), zig(b)), vgen.App("Fl", "0"), vgen.App("Sd", "0"),
	}
	w.Tally("piled-up ForceFlush (fixed program)")
	term := vgen.App("CSeq", vgen.List([]string{cfgs[0].coq(false)}), "1", vgen.List(terms), obsTerm(wd, dels), vgen.List([]string{vgen.List(codes)}))
	w.Add(term, map[string]any{"history": desc, "program": "Add a; ForceFlush #1 (inside a slow Export); Add b; ForceFlush #2 issued meanwhile; release; Shutdown", "delta": delta}, "seq-corpus-piled-flush", true)
}

// runFlushCallerGivesUp (seeded change C02-15): the caller of ForceFlush gives up (its context is cancelled)
// while the export is in flight at a slow backend that honours ITS context.  The collection has
// already drained the delta sums; the run loop must finish the export under the reader's own context.
// After the final Shutdown every reader has delivered everything exactly once.
func runFlushCallerGivesUp(w *vgen.Writer, r *vgen.Rand, desc string, viaProvider bool) {
	n := r.Range(1, 2)
	cfgs := make([]readerCfg, n)
	for i := range cfgs {
		cfgs[i] = readerCfg{periodic: true, delta: i == 0 || r.Bool()}
	}
	nInst := r.Range(1, 2)
	sets, keyIdx := genSets(r, r.Range(1, 3))
	wd, err := build(w, r, desc, cfgs, nInst, time.Hour, keyIdx, 0, true, false)
	if err != nil {
		w.Violation("setup failed: "+err.Error(), desc)
		return
	}
	ex := wd.exps[0]
	gate := make(chan struct{})
	ex.gate, ex.honour, ex.entered = gate, true, make(chan struct{}, 8)
	ctx := context.Background()
	totals := make([]map[uint64]int64, nInst)
	for i := range totals {
		totals[i] = map[uint64]int64{}
	}
	addSome := func() {
		for j, m := 0, r.Range(3, 20); j < m; j++ {
			i := r.Intn(nInst)
			s := sets[r.Intn(len(sets))]
			v := genValue(r, wd.insts[i])
			wd.insts[i].add(ctx, v, s, j, j/2)
			totals[i][keyIdx[canon(s)]] += v
		}
	}
	addSome()
	cctx, cancel := context.WithCancel(ctx)
	flushed := make(chan error, 1)
	go func() {
		if viaProvider {
			flushed <- wd.mp.ForceFlush(cctx)
		} else {
			flushed <- wd.period[0].ForceFlush(cctx)
		}
	}()
	select {
	case <-ex.entered: // the collection is done, the export is in flight
	case <-time.After(60 * time.Second):
		cancel()
		close(gate)
		return // inconclusive
	}
	cancel() // the caller gives up
	select {
	case <-flushed:
	case <-time.After(120 * time.Second):
		w.Violation("ForceFlush did not return after its context was cancelled", desc)
		close(gate)
		return
	}
	close(gate) // the backend answers
	// wait until the in-flight export is over: the next ForceFlush is served only after it
	if e := wd.period[0].ForceFlush(ctx); e != nil {
		w.Violation(fmt.Sprintf("ForceFlush after the backend recovered returned %v", e), desc)
	}
	addSome()
	if e := wd.mp.Shutdown(ctx); e != nil {
		w.Violation(fmt.Sprintf("MeterProvider.Shutdown returned %v", e), desc)
	}
	dels := make([][]delivery, n)
	for rd := range cfgs {
		dels[rd] = wd.exps[rd].since(0)
	}
	var cfgT, cfgD, addT []string
	for _, c := range cfgs {
		cfgT = append(cfgT, c.coq(false))
		cfgD = append(cfgD, fmt.Sprintf("periodic=%v delta=%v", c.periodic, c.delta))
	}
	streamInst := make([]int, len(wd.streams))
	for i, in := range wd.insts {
		for _, si := range in.streams {
			streamInst[si] = i
		}
	}
	for _, i := range streamInst {
		ks := make([]uint64, 0, len(totals[i]))
		for k := range totals[i] {
			ks = append(ks, k)
		}
		sort.Slice(ks, func(a, b int) bool { return ks[a] < ks[b] })
		var ts []string
		for _, k := range ks {
			ts = append(ts, vgen.App("T", vgen.N(k), zig(totals[i][k])))
		}
		addT = append(addT, vgen.List(ts))
	}
	w.Tally("ForceFlush caller gives up during the export")
	term := vgen.App("CConc", vgen.List(cfgT), "false", vgen.List(addT), obsTerm(wd, dels))
	w.Add(term, map[string]any{"history": desc, "readers": cfgD, "via_provider": viaProvider, "views": wd.viewsD}, "flush-caller-gives-up", true)
}

// rendezvous lets two goroutines meet: the first waits for the second, but not longer than a grace period
// (which simply elapses when the code serialises them).
type rendezvous struct {
	mu   sync.Mutex
	n    int
	both chan struct{}
}

func newRendezvous() *rendezvous { return &rendezvous{both: make(chan struct{})} }
func (rv *rendezvous) arrive() {
	rv.mu.Lock()
	rv.n++
	if rv.n == 2 {
		close(rv.both)
	}
	rv.mu.Unlock()
	select {
	case <-rv.both:
	case <-time.After(250 * time.Millisecond):
	}
}

// concurrentCreation (seeded change C02-16): several goroutines obtain the SAME counter at the same time
// (user code that runs during creation - a View function and an exemplar-reservoir selector - holds the
// window open) and add to it: every reader must report ONE stream with the total of all measurements.
func concurrentCreation(w *vgen.Writer, r *vgen.Rand, desc string) {
	inView, inSel := newRendezvous(), newRendezvous()
	view := func(i sdk.Instrument) (sdk.Stream, bool) {
		if i.Name != "reqs" {
			return sdk.Stream{}, false
		}
		inView.arrive()
		return sdk.Stream{Name: i.Name, Description: i.Description, Unit: i.Unit,
			ExemplarReservoirProviderSelector: func(a sdk.Aggregation) exemplar.ReservoirProvider {
				inSel.arrive()
				return sdk.DefaultExemplarReservoirProviderSelector(a)
			}}, true
	}
	dR := sdk.NewManualReader(sdk.WithTemporalitySelector(allDelta))
	cR := sdk.NewManualReader()
	mp := sdk.NewMeterProvider(sdk.WithReader(dR), sdk.WithReader(cR), sdk.WithView(view))
	ctx := context.Background()
	defer mp.Shutdown(ctx)
	float := r.Bool()
	nG := r.Range(2, 3)
	vals := make([]int64, nG)
	total := int64(0)
	for i := range vals {
		vals[i] = int64(r.Range(1, 40))
		total += vals[i]
	}
	var wg sync.WaitGroup
	var errMu sync.Mutex
	var errs []string
	for _, v := range vals {
		wg.Add(1)
		go func(v int64) {
			defer wg.Done()
			meter := mp.Meter("verif/c02/creation")
			var e error
			if float {
				var c metric.Float64Counter
				if c, e = meter.Float64Counter("reqs"); e == nil {
					c.Add(ctx, float64(v))
				}
			} else {
				var c metric.Int64Counter
				if c, e = meter.Int64Counter("reqs"); e == nil {
					c.Add(ctx, v)
				}
			}
			if e != nil {
				errMu.Lock()
				errs = append(errs, e.Error())
				errMu.Unlock()
			}
		}(v)
	}
	done := make(chan struct{})
	go func() { wg.Wait(); close(done) }()
	select {
	case <-done:
	case <-time.After(120 * time.Second):
		w.Violation("concurrent creation of one counter did not finish within 120 s", desc)
		return
	}
	for _, e := range errs {
		w.Violation("concurrent creation of one counter failed: "+e, desc)
	}
	for name, rd := range map[string]*sdk.ManualReader{"delta": dR, "cumulative": cR} {
		var rm metricdata.ResourceMetrics
		if e := rd.Collect(ctx, &rm); e != nil {
			w.Violation("Collect failed: "+e.Error(), desc)
		}
		streams, sum, points := 0, int64(0), 0
		for _, sm := range rm.ScopeMetrics {
			for _, m := range sm.Metrics {
				if strings.EqualFold(m.Name, "reqs") {
					streams++
					switch d := m.Data.(type) {
					case metricdata.Sum[int64]:
						for _, p := range d.DataPoints {
							points++
							sum += p.Value
						}
					case metricdata.Sum[float64]:
						for _, p := range d.DataPoints {
							points++
							sum += int64(p.Value)
						}
					}
				}
			}
		}
		if streams != 1 || points != 1 || sum != total {
			w.Violation(fmt.Sprintf("one counter obtained by %d goroutines at the same time: the %s reader reports %d stream(s), %d point(s), sum %d; recorded %d in one attribute set",
				nG, name, streams, points, sum, total), desc)
		}
	}
	w.Tally("concurrent creation of one counter")
}

// strictExporter refuses (and does not deliver) a payload whose context is already done when Export is
// entered, and remembers when that context was created (deadline - timeout).
type strictExporter struct {
	timeout time.Duration
	mu      sync.Mutex
	sum     int64
	refused []time.Time // creation instants of the contexts of refused exports
	exports int
}

func (e *strictExporter) Temporality(sdk.InstrumentKind) metricdata.Temporality {
	return metricdata.DeltaTemporality
}
func (e *strictExporter) Aggregation(k sdk.InstrumentKind) sdk.Aggregation {
	return sdk.DefaultAggregationSelector(k)
}
func (e *strictExporter) Export(ctx context.Context, rm *metricdata.ResourceMetrics) error {
	e.mu.Lock()
	defer e.mu.Unlock()
	if err := ctx.Err(); err != nil {
		created := time.Time{}
		if dl, ok := ctx.Deadline(); ok {
			created = dl.Add(-e.timeout)
		}
		e.refused = append(e.refused, created)
		return err
	}
	e.exports++
	for _, sm := range rm.ScopeMetrics {
		for _, m := range sm.Metrics {
			if d, ok := m.Data.(metricdata.Sum[int64]); ok {
				for _, p := range d.DataPoints {
					e.sum += p.Value
				}
			}
		}
	}
	return nil
}
func (e *strictExporter) ForceFlush(context.Context) error { return nil }
func (e *strictExporter) Shutdown(context.Context) error   { return nil }

// oldReaderFlush (seeded change C02-17): a periodic reader that has been running for longer than its
// export timeout flushes; every collection must get a context of its own, so a backend that refuses a
// payload whose context is done still receives it.  If a refusal happens although the context was
// created after ForceFlush was called (the machine stalled for longer than the timeout between the
// collection and the export), the scenario is dropped as inconclusive.
func oldReaderFlush(w *vgen.Writer, r *vgen.Rand, desc string) {
	timeout := time.Duration(r.Range(150, 250)) * time.Millisecond
	ex := &strictExporter{timeout: timeout}
	pr := sdk.NewPeriodicReader(ex, sdk.WithInterval(time.Hour), sdk.WithTimeout(timeout))
	mp := sdk.NewMeterProvider(sdk.WithReader(pr))
	ctx := context.Background()
	c, err := mp.Meter("verif/c02/old-reader").Int64Counter("c")
	if err != nil {
		w.Violation("setup failed: "+err.Error(), desc)
		return
	}
	total := int64(0)
	add := func() {
		for j, m := 0, r.Range(2, 9); j < m; j++ {
			v := int64(r.Range(1, 30))
			c.Add(ctx, v)
			total += v
		}
	}
	add()
	time.Sleep(timeout + 30*time.Millisecond) // the reader is now older than its timeout
	tCall := time.Now()
	_ = pr.ForceFlush(ctx)
	add()
	_ = pr.ForceFlush(ctx)
	add()
	_ = mp.Shutdown(ctx)
	ex.mu.Lock()
	defer ex.mu.Unlock()
	for _, created := range ex.refused {
		if !created.Before(tCall) {
			w.Tally("old periodic reader: inconclusive (machine stalled longer than the export timeout)")
			return
		}
	}
	w.Tally("old periodic reader flushes")
	if ex.sum != total {
		w.Violation(fmt.Sprintf("periodic reader older than its export timeout (%v): %d export(s) refused because their context was created before ForceFlush was called; "+
			"exported deltas add up to %d, recorded %d", timeout, len(ex.refused), ex.sum, total), desc)
	}
}

// periodicExtra, when set, adds options to the periodic readers that build creates (by reader index).
var periodicExtra func(reader int) []sdk.PeriodicReaderOption

// waitProducer is an external Producer that returns (nothing, no error) only once its context is done.
type waitProducer struct{ calls atomic.Int64 }

func (p *waitProducer) Produce(ctx context.Context) ([]metricdata.ScopeMetrics, error) {
	p.calls.Add(1)
	<-ctx.Done()
	return nil, nil
}

// runExportAfterDone: a periodic reader's collection succeeds (the SDK part has been drained) while its
// context ends before the export - an external producer returns only when the context of the collection
// is done (the reader's short timeout, or the cancellation of the run loop by Shutdown racing an
// in-flight ForceFlush).  What was drained must still be exported: after the final Shutdown every
// reader has delivered everything exactly once.  No timing is asserted; the producer only waits on
// the context it is given.
func runExportAfterDone(w *vgen.Writer, r *vgen.Rand, desc string, race bool) {
	n := r.Range(1, 2)
	cfgs := make([]readerCfg, n)
	for i := range cfgs {
		cfgs[i] = readerCfg{periodic: true, delta: i == 0 || r.Bool()}
	}
	nInst := r.Range(1, 2)
	sets, keyIdx := genSets(r, r.Range(1, 3))
	prod := &waitProducer{}
	rto := time.Duration(r.Range(20, 60)) * time.Millisecond
	periodicExtra = func(reader int) []sdk.PeriodicReaderOption {
		if reader == 0 {
			return []sdk.PeriodicReaderOption{sdk.WithProducer(prod), sdk.WithTimeout(rto)}
		}
		return nil
	}
	wd, err := build(w, r, desc, cfgs, nInst, time.Hour, keyIdx, 0, true, false)
	periodicExtra = nil
	if err != nil {
		w.Violation("setup failed: "+err.Error(), desc)
		return
	}
	ctx := context.Background()
	totals := make([]map[uint64]int64, nInst)
	for i := range totals {
		totals[i] = map[uint64]int64{}
	}
	addSome := func() {
		for j, m := 0, r.Range(3, 20); j < m; j++ {
			i := r.Intn(nInst)
			s := sets[r.Intn(len(sets))]
			v := genValue(r, wd.insts[i])
			wd.insts[i].add(ctx, v, s, j, j/2)
			totals[i][keyIdx[canon(s)]] += v
		}
	}
	finished := make(chan struct{})
	go func() {
		defer close(finished)
		addSome()
		if race {
			// Shutdown racing an in-flight ForceFlush: the run loop is inside the collection (blocked in the
			// producer) or has not started it yet; either way nothing that was drained may be dropped
			started := prod.calls.Load()
			flushed := make(chan struct{})
			go func() { defer close(flushed); _ = wd.period[0].ForceFlush(ctx) }()
			for i := 0; i < 2000 && prod.calls.Load() == started; i++ { // give the run loop a chance to be in flight
				time.Sleep(50 * time.Microsecond)
			}
			_ = wd.mp.Shutdown(ctx)
			<-flushed
		} else {
			_ = wd.period[0].ForceFlush(ctx) // the collection's context (reader timeout) ends inside the producer
			addSome()
			_ = wd.period[0].ForceFlush(ctx)
			addSome()
			_ = wd.mp.Shutdown(ctx)
		}
	}()
	select {
	case <-finished:
	case <-time.After(120 * time.Second):
		w.Violation("ForceFlush / Shutdown with a producer waiting for its context did not return within 120 s", desc)
		return
	}
	dels := make([][]delivery, n)
	for rd := range cfgs {
		dels[rd] = wd.exps[rd].since(0)
	}
	var cfgT, cfgD, addT []string
	for _, c := range cfgs {
		cfgT = append(cfgT, c.coq(false))
		cfgD = append(cfgD, fmt.Sprintf("periodic=%v delta=%v", c.periodic, c.delta))
	}
	streamInst := make([]int, len(wd.streams))
	for i, in := range wd.insts {
		for _, si := range in.streams {
			streamInst[si] = i
		}
	}
	for _, i := range streamInst {
		ks := make([]uint64, 0, len(totals[i]))
		for k := range totals[i] {
			ks = append(ks, k)
		}
		sort.Slice(ks, func(a, b int) bool { return ks[a] < ks[b] })
		var ts []string
		for _, k := range ks {
			ts = append(ts, vgen.App("T", vgen.N(k), zig(totals[i][k])))
		}
		addT = append(addT, vgen.List(ts))
	}
	kind := "export-after-context-done"
	if race {
		kind = "export-after-context-done (Shutdown racing ForceFlush)"
	}
	w.Tally(kind)
	term := vgen.App("CConc", vgen.List(cfgT), "false", vgen.List(addT), obsTerm(wd, dels))
	w.Add(term, map[string]any{"history": desc, "readers": cfgD, "reader_timeout": rto.String(), "producer_calls": prod.calls.Load(), "views": wd.viewsD}, kind, true)
}

// ---- provider-level Shutdown / ForceFlush whose context expires while an earlier reader is stalled ----

// runCtxExpiry: reader 0 is a periodic reader whose exporter stalls; MeterProvider.Shutdown(ctx) (variant A)
// or MeterProvider.ForceFlush(ctx) (variant B) is called with a context that expires during that stall.
// A: every other (periodic) reader must still have made its final collection and exported everything
//
//	recorded before the call by the time Shutdown returns (the stalled reader is outside the claim).
//
// B: after the stall is released and the provider is shut down with a live context, every reader
//
//	(the stalled one included) has delivered everything exactly once.
func runCtxExpiry(w *vgen.Writer, r *vgen.Rand, desc string, variantA bool) {
	n := r.Range(2, 3)
	cfgs := make([]readerCfg, n)
	for i := range cfgs {
		cfgs[i] = readerCfg{periodic: true, delta: r.Bool()}
		if !variantA && i > 0 && r.Chance(1, 3) {
			cfgs[i].periodic = false
		}
	}
	nInst := r.Range(1, 2)
	sets, keyIdx := genSets(r, r.Range(1, 3))
	wd, err := build(w, r, desc, cfgs, nInst, time.Hour, keyIdx, 0, true, false)
	if err != nil {
		w.Violation("setup failed: "+err.Error(), desc)
		return
	}
	gate := make(chan struct{})
	wd.exps[0].gate = gate
	ctx := context.Background()
	totals := make([]map[uint64]int64, nInst)
	for i := range totals {
		totals[i] = map[uint64]int64{}
	}
	addSome := func() {
		for j, m := 0, r.Range(3, 25); j < m; j++ {
			i := r.Intn(nInst)
			s := sets[r.Intn(len(sets))]
			v := genValue(r, wd.insts[i])
			wd.insts[i].add(ctx, v, s, j, j/2)
			totals[i][keyIdx[canon(s)]] += v
		}
	}
	addSome()
	timeout := time.Duration(r.Range(50, 100)) * time.Millisecond
	dels := make([][]delivery, n)
	finished := make(chan struct{})
	var callErr error
	go func() {
		defer close(finished)
		cctx, cancel := context.WithTimeout(ctx, timeout)
		defer cancel()
		if variantA {
			callErr = wd.mp.Shutdown(cctx)
			for rd := 1; rd < n; rd++ { // what the other readers have exported by the time the call returned
				dels[rd] = wd.exps[rd].since(0)
			}
			close(gate)
			return
		}
		// ForceFlush with a context that is already cancelled, on the readers that are not stalled: it may
		// or may not flush (the select in ForceFlush is a coin toss), but it must never consume anything
		// it does not export - judged after the final Shutdown below
		for rd := 1; rd < n; rd++ {
			if cfgs[rd].periodic {
				dead, cancelDead := context.WithCancel(ctx)
				cancelDead()
				_ = wd.period[rd].ForceFlush(dead)
				w.Tally("ctx-expiry: ForceFlush with a cancelled context")
				addSome()
			}
		}
		callErr = wd.mp.ForceFlush(cctx)
		addSome()
		close(gate)
		for rd, c := range cfgs {
			if !c.periodic {
				var rm metricdata.ResourceMetrics
				if e := wd.manual[rd].Collect(ctx, &rm); e != nil {
					wd.bad(fmt.Sprintf("final Collect returned %v", e))
				}
				dels[rd] = append(dels[rd], wd.extractor(wd.wantT[rd])(&rm))
			}
		}
		if e := wd.mp.Shutdown(ctx); e != nil {
			wd.bad(fmt.Sprintf("MeterProvider.Shutdown with a live context after the stall was released returned %v", e))
		}
		for rd, c := range cfgs {
			if c.periodic {
				dels[rd] = wd.exps[rd].since(0)
			}
		}
	}()
	select {
	case <-finished:
	case <-time.After(120 * time.Second):
		w.Violation("MeterProvider.Shutdown/ForceFlush with an expiring context did not return within 120 s", desc)
		close(gate)
		return
	}
	if callErr == nil {
		w.Violation("MeterProvider.Shutdown/ForceFlush returned nil although its context expired while a reader was stalled", desc)
	}
	first := 0
	if variantA {
		first = 1
	}
	var cfgT, cfgD []string
	for _, c := range cfgs[first:] {
		cfgT = append(cfgT, c.coq(false))
		cfgD = append(cfgD, fmt.Sprintf("periodic=%v delta=%v", c.periodic, c.delta))
	}
	var addT []string
	streamInst := make([]int, len(wd.streams))
	for i, in := range wd.insts {
		for _, si := range in.streams {
			streamInst[si] = i
		}
	}
	for _, i := range streamInst {
		ks := make([]uint64, 0, len(totals[i]))
		for k := range totals[i] {
			ks = append(ks, k)
		}
		sort.Slice(ks, func(a, b int) bool { return ks[a] < ks[b] })
		var ts []string
		for _, k := range ks {
			ts = append(ts, vgen.App("T", vgen.N(k), zig(totals[i][k])))
		}
		addT = append(addT, vgen.List(ts))
	}
	sub := &world{cfgs: cfgs[first:], streams: wd.streams}
	kind := "ctx-expiry-forceflush"
	if variantA {
		kind = "ctx-expiry-shutdown"
	}
	w.Tally(kind)
	term := vgen.App("CConc", vgen.List(cfgT), "false", vgen.List(addT), obsTerm(sub, dels[first:]))
	w.Add(term, map[string]any{"history": desc, "judged_readers": cfgD, "stalled_reader": "reader 0 (periodic)", "timeout": timeout.String(), "views": wd.viewsD, "call_error": fmt.Sprint(callErr)}, kind, true)
}

func main() {
	o := vgen.ParseFlags()
	otel.SetLogger(logr.Discard())
	otel.SetErrorHandler(otel.ErrorHandlerFunc(func(error) {}))
	r := vgen.NewRand(o.Seed)
	w := vgen.NewWriter(o.Out, "Lib.MetricsModel C02.Spec C02.Model C02.Corr", "case", 64)
	w.Rule = "sequential histories (Add / Collect / ForceFlush / Shutdown / callback-fails toggle) over 1-3 instruments (counter, up-down counter; int64 and float64 with multiples of 2^-10) and 1-3 readers (manual, periodic with a recording exporter; delta, cumulative) compared with the model and judged by the spec; " +
		"completed concurrent histories (2-8 adding goroutines, one collector/flusher per reader, periodic interval 1-4 ms, final collection after all adders returned) judged by the spec; a case is non-trivial when at least two deliveries were observed"
	guard := func(desc string, f func()) {
		defer func() {
			if e := recover(); e != nil {
				w.Violation(fmt.Sprintf("panic: %v", e), desc)
			}
		}()
		f()
	}
	// corpus: the histories of F-C02-1 (fixed by b162dd7 / e0f719a): periodic reader, callback error during a flush / the final collection
	corpus := []struct {
		cfgs []readerCfg
		ops  []seqOp
	}{
		{[]readerCfg{{true, true}}, []seqOp{{typ: "add", v: 5}, {typ: "err", b: true}, {typ: "flush"}, {typ: "err", b: false}, {typ: "add", v: 7}, {typ: "flush"}}},
		{[]readerCfg{{true, true}, {false, true}}, []seqOp{{typ: "add", v: 5}, {typ: "err", b: true}, {typ: "shutdown"}, {typ: "collect", r: 1}}},
		{[]readerCfg{{true, false}}, []seqOp{{typ: "add", v: 5}, {typ: "err", b: true}, {typ: "flush"}, {typ: "err", b: false}, {typ: "add", v: 7}, {typ: "flush"}}},
	}
	for n, c := range corpus {
		desc := fmt.Sprintf("corpus %d (history of F-C02-1, fixed)", n)
		guard(desc, func() { runSequential(w, r.Fork(), desc, c.cfgs, 1, 1, c.ops, false, 0, "seq-corpus") })
	}
	for n := 0; n < 4; n++ { // fixed programs, run on every run
		desc := fmt.Sprintf("corpus piled-up ForceFlush %d", n)
		guard(desc, func() { runPiledFlush(w, r.Fork(), desc, n%2 == 0) })
	}
	for n := 0; n < 6; n++ {
		desc := fmt.Sprintf("corpus ForceFlush caller gives up %d", n)
		guard(desc, func() { runFlushCallerGivesUp(w, r.Fork(), desc, n%2 == 1) })
	}
	for n := 0; n < o.Count(1, 6); n++ {
		desc := fmt.Sprintf("concurrent creation %d", n)
		guard(desc, func() { concurrentCreation(w, r.Fork(), desc) })
		desc2 := fmt.Sprintf("old periodic reader %d", n)
		guard(desc2, func() { oldReaderFlush(w, r.Fork(), desc2) })
	}
	nSeq := o.Count(400, 8000)
	for n := 0; n < nSeq; n++ {
		desc := fmt.Sprintf("seed=%d sequential=%d", o.Seed, n)
		kind := "seq"
		if n%8 == 7 {
			kind = "seq-fault"
		}
		guard(desc, func() {
			runSequential(w, r, desc, genCfgs(r), r.Range(1, 3), r.Range(1, 5), nil, true, r.Range(3, 70), kind)
		})
	}
	nCtx := o.Count(14, 200)
	for n := 0; n < nCtx; n++ {
		desc := fmt.Sprintf("seed=%d ctx-expiry=%d", o.Seed, n)
		guard(desc, func() { runCtxExpiry(w, r, desc, n%2 == 0) })
	}
	nDone := o.Count(10, 120)
	for n := 0; n < nDone; n++ {
		desc := fmt.Sprintf("seed=%d export-after-done=%d", o.Seed, n)
		guard(desc, func() { runExportAfterDone(w, r, desc, n%2 == 1) })
	}
	nConc := o.Count(40, 600)
	for n := 0; n < nConc; n++ {
		desc := fmt.Sprintf("seed=%d concurrent=%d", o.Seed, n)
		guard(desc, func() { runConcurrent(w, r, desc) })
	}
	if err := w.Flush(); err != nil {
		fmt.Fprintln(os.Stderr, err)
		os.Exit(2)
	}
}
