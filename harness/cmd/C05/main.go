// C05 harness: attribute.Set construction, identity, filtering, lookup, merging
// and encoding of the real implementation vs the Coq model and specification.
package main

import (
	"encoding/json"
	"fmt"
	"math"
	"os"
	"sort"
	"strings"
	"unicode/utf8"

	"go.opentelemetry.io/otel/attribute"

	"verif/harness/vgen"
)

// ---- harness-side representation of a typed value (bit patterns for numbers) ----

type val struct {
	t  int // attribute.Type numbering, 0 = INVALID
	b  bool
	n  uint64 // int64 pattern or float64 bits
	s  string
	bs []bool
	ns []uint64 // int64 patterns or float64 bits
	ss []string
}

type kvt struct {
	k string
	v val
}

func (v val) attr(altCtor bool) attribute.Value {
	switch v.t {
	case 1:
		return attribute.BoolValue(v.b)
	case 2:
		if altCtor {
			return attribute.IntValue(int(int64(v.n)))
		}
		return attribute.Int64Value(int64(v.n))
	case 3:
		return attribute.Float64Value(math.Float64frombits(v.n))
	case 4:
		return attribute.StringValue(v.s)
	case 5:
		return attribute.BoolSliceValue(append([]bool(nil), v.bs...))
	case 6:
		if altCtor {
			x := make([]int, len(v.ns))
			for i, n := range v.ns {
				x[i] = int(int64(n))
			}
			return attribute.IntSliceValue(x)
		}
		x := make([]int64, len(v.ns))
		for i, n := range v.ns {
			x[i] = int64(n)
		}
		return attribute.Int64SliceValue(x)
	case 7:
		x := make([]float64, len(v.ns))
		for i, n := range v.ns {
			x[i] = math.Float64frombits(n)
		}
		return attribute.Float64SliceValue(x)
	case 8:
		return attribute.StringSliceValue(append([]string(nil), v.ss...))
	}
	return attribute.Value{}
}

func fromAttr(a attribute.Value) val {
	switch a.Type() {
	case attribute.BOOL:
		return val{t: 1, b: a.AsBool()}
	case attribute.INT64:
		return val{t: 2, n: uint64(a.AsInt64())}
	case attribute.FLOAT64:
		return val{t: 3, n: math.Float64bits(a.AsFloat64())}
	case attribute.STRING:
		return val{t: 4, s: a.AsString()}
	case attribute.BOOLSLICE:
		return val{t: 5, bs: a.AsBoolSlice()}
	case attribute.INT64SLICE:
		x := a.AsInt64Slice()
		ns := make([]uint64, len(x))
		for i, n := range x {
			ns[i] = uint64(n)
		}
		return val{t: 6, ns: ns}
	case attribute.FLOAT64SLICE:
		x := a.AsFloat64Slice()
		ns := make([]uint64, len(x))
		for i, n := range x {
			ns[i] = math.Float64bits(n)
		}
		return val{t: 7, ns: ns}
	case attribute.STRINGSLICE:
		return val{t: 8, ss: a.AsStringSlice()}
	}
	return val{}
}

// coqList renders a list of element terms; long lists (the > 1024 element slice values) are run-length
// encoded as (repeat x (N.to_nat k) ++ ...) so that the case literal stays small.
func coqList(items []string) string {
	if len(items) <= 64 {
		return vgen.List(items)
	}
	var parts []string
	for i := 0; i < len(items); {
		j := i
		for j < len(items) && items[j] == items[i] {
			j++
		}
		if j-i >= 4 {
			parts = append(parts, fmt.Sprintf("repeat %s (N.to_nat %d)", items[i], j-i))
		} else {
			parts = append(parts, vgen.List(items[i:j]))
		}
		i = j
	}
	return "(" + strings.Join(parts, " ++ ") + ")"
}

func nlist(ns []uint64) string {
	items := make([]string, len(ns))
	for i, n := range ns {
		items[i] = vgen.N(n)
	}
	return coqList(items)
}

func (v val) coq() string {
	switch v.t {
	case 1:
		return vgen.App("VBool", vgen.Bool(v.b))
	case 2:
		return vgen.App("VInt", vgen.N(v.n))
	case 3:
		return vgen.App("VFloat", vgen.N(v.n))
	case 4:
		return vgen.App("VStr", vgen.HxS(v.s))
	case 5:
		items := make([]string, len(v.bs))
		for i, b := range v.bs {
			items[i] = vgen.Bool(b)
		}
		return vgen.App("VBools", coqList(items))
	case 6:
		return vgen.App("VInts", nlist(v.ns))
	case 7:
		return vgen.App("VFloats", nlist(v.ns))
	case 8:
		items := make([]string, len(v.ss))
		for i, s := range v.ss {
			items[i] = vgen.HxS(s)
		}
		return vgen.App("VStrs", coqList(items))
	}
	return "VInvalid"
}

func (v val) String() string {
	switch v.t {
	case 1:
		return fmt.Sprintf("bool(%v)", v.b)
	case 2:
		return fmt.Sprintf("int64(%d)", int64(v.n))
	case 3:
		return fmt.Sprintf("float64bits(%#x)", v.n)
	case 4:
		return fmt.Sprintf("string(%q)", v.s)
	case 5:
		return fmt.Sprintf("[]bool%v", v.bs)
	case 6:
		x := make([]int64, len(v.ns))
		for i, n := range v.ns {
			x[i] = int64(n)
		}
		return fmt.Sprintf("[]int64%v", x)
	case 7:
		x := make([]string, len(v.ns))
		for i, n := range v.ns {
			x[i] = fmt.Sprintf("%#x", n)
		}
		return "[]float64bits[" + strings.Join(x, " ") + "]"
	case 8:
		return fmt.Sprintf("[]string%q", v.ss)
	}
	return "invalid"
}

func kvCoq(x kvt) string { return vgen.Pair(vgen.HxS(x.k), x.v.coq()) }

func kvsCoq(l []kvt) string {
	items := make([]string, len(l))
	for i, x := range l {
		items[i] = kvCoq(x)
	}
	return vgen.List(items)
}

func kvsDesc(l []kvt) []string {
	out := make([]string, len(l))
	for i, x := range l {
		d := x.v.String()
		if n := len(x.v.bs) + len(x.v.ns) + len(x.v.ss); n > 64 {
			d = fmt.Sprintf("%s... (%d elements)", d[:40], n)
		}
		out[i] = fmt.Sprintf("%q=%s", x.k, d)
	}
	if len(out) > 40 {
		out = append(out[:40], fmt.Sprintf("... %d more", len(l)-40))
	}
	return out
}

// viaHelper builds the key-value through the package-level helpers (attribute.Bool, attribute.Int64Slice, ...)
// or through the Key methods (Key.Bool, ...) instead of a struct literal.
func viaHelper(x kvt, keyMethod, altInt bool) attribute.KeyValue {
	k := attribute.Key(x.k)
	v := x.v
	ints := func() []int64 {
		o := make([]int64, len(v.ns))
		for i, n := range v.ns {
			o[i] = int64(n)
		}
		return o
	}
	switch v.t {
	case 1:
		if keyMethod {
			return k.Bool(v.b)
		}
		return attribute.Bool(x.k, v.b)
	case 2:
		switch {
		case keyMethod && altInt:
			return k.Int(int(int64(v.n)))
		case keyMethod:
			return k.Int64(int64(v.n))
		case altInt:
			return attribute.Int(x.k, int(int64(v.n)))
		}
		return attribute.Int64(x.k, int64(v.n))
	case 3:
		if keyMethod {
			return k.Float64(math.Float64frombits(v.n))
		}
		return attribute.Float64(x.k, math.Float64frombits(v.n))
	case 4:
		switch {
		case keyMethod:
			return k.String(v.s)
		case altInt:
			return attribute.Stringer(x.k, stringer(v.s))
		}
		return attribute.String(x.k, v.s)
	case 5:
		if keyMethod {
			return k.BoolSlice(append([]bool(nil), v.bs...))
		}
		return attribute.BoolSlice(x.k, append([]bool(nil), v.bs...))
	case 6:
		if altInt {
			is := make([]int, len(v.ns))
			for i, n := range v.ns {
				is[i] = int(int64(n))
			}
			if keyMethod {
				return k.IntSlice(is)
			}
			return attribute.IntSlice(x.k, is)
		}
		if keyMethod {
			return k.Int64Slice(ints())
		}
		return attribute.Int64Slice(x.k, ints())
	case 7:
		fs := make([]float64, len(v.ns))
		for i, n := range v.ns {
			fs[i] = math.Float64frombits(n)
		}
		if keyMethod {
			return k.Float64Slice(fs)
		}
		return attribute.Float64Slice(x.k, fs)
	case 8:
		if keyMethod {
			return k.StringSlice(append([]string(nil), v.ss...))
		}
		return attribute.StringSlice(x.k, append([]string(nil), v.ss...))
	}
	return attribute.KeyValue{Key: k}
}

type stringer string

func (s stringer) String() string { return string(s) }

func toAttrs(l []kvt, r *vgen.Rand) []attribute.KeyValue {
	out := make([]attribute.KeyValue, len(l))
	for i, x := range l {
		switch {
		case r != nil && r.Chance(1, 3):
			out[i] = viaHelper(x, r.Bool(), r.Bool())
		default:
			out[i] = attribute.KeyValue{Key: attribute.Key(x.k), Value: x.v.attr(r != nil && r.Chance(1, 3))}
		}
	}
	return out
}

func fromAttrs(l []attribute.KeyValue) []kvt {
	out := make([]kvt, len(l))
	for i, x := range l {
		out[i] = kvt{k: string(x.Key), v: fromAttr(x.Value)}
	}
	return out
}

// ---- generators ----

const (
	nanQ    = 0x7FF8000000000001
	nanQ0   = 0x7FF8000000000000
	nanNeg  = 0xFFF8000000000000
	nanS    = 0x7FF0000000000001
	negZero = 0x8000000000000000
	posInf  = 0x7FF0000000000000
	negInf  = 0xFFF0000000000000
	one     = 0x3FF0000000000000
)

var floatPool = []uint64{0, negZero, one, 0xBFF0000000000000, posInf, negInf, nanQ, nanQ0, nanNeg, nanS, 1, 0x7FEFFFFFFFFFFFFF, 0x400921FB54442D18}
var floatPoolReg = []uint64{0, one, 0xBFF0000000000000, posInf, negInf, 1, 0x7FEFFFFFFFFFFFFF, 0x400921FB54442D18}
var intPool = []uint64{0, 1, 2, ^uint64(0), 1 << 63, 1<<63 - 1, 42, 10, 9, 100, ^uint64(0) - 8}
var strPool = []string{"", "x", "y", "a=b", "a,b", "\\", "é", "\xff", "a\x00", "true", "1", "日本", "a\\,b="}
var strPoolUTF = []string{"", "x", "y", "a=b", "a,b", "\\", "é", "true", "1", "日本", "a\\,b=", "=", ",", "\\\\"}
var keyPool = []string{"", "a", "b", "c", "aa", "ab", "a\x00", "k1", "k2", "z", "\xff", "é", "a=", "a,", "B", "service.name", "host.name", "b\x00a"}
var keyPoolUTF = []string{"", "a", "b", "c", "aa", "ab", "k1", "k2", "z", "é", "a=", "a,", "B", "service.name", "a\\", "=,\\"}

type genCfg struct {
	utf8only bool // keys and strings valid UTF-8 (encoder cases)
	regular  bool // no NaN / -0 inside float slices
	types    []int
}

var allTypes = []int{0, 1, 2, 3, 4, 5, 6, 7, 8}

func genFloat(r *vgen.Rand, regular bool) uint64 {
	if regular {
		if r.Chance(1, 4) {
			x := r.U64()
			f := math.Float64frombits(x)
			if f != f || x == negZero {
				return one
			}
			return x
		}
		return vgen.Pick(r, floatPoolReg)
	}
	if r.Chance(1, 5) {
		return r.U64()
	}
	return vgen.Pick(r, floatPool)
}

func genInt(r *vgen.Rand) uint64 {
	if r.Chance(1, 5) {
		return r.U64()
	}
	return vgen.Pick(r, intPool)
}

// asciiStrs: set by the encoder cases that want string-slice elements inside the modelled JSON escaping
// (ASCII incl. control characters, quotes, backslash, <, >, &); about half of them are JSON-plain.
var asciiStrs = false
var strPoolASCII = []string{"", "x", "y", "p,q", "r s", "1", "true", "[", "]", "a.b-c_d", "~!@#$%^*()", "x,y,z", "{}", ":;'",
	"a=b", "a\"b", "a\\b", "<&>", "\n", "\t\x01", "\x7f", "\b\f\r", "\x00", "\\", "\"", "\x1f"}

func genStr(r *vgen.Rand, utf bool) string {
	if utf && asciiStrs {
		if r.Bool() {
			return strPoolASCII[r.Intn(14)] // JSON-plain
		}
		return vgen.Pick(r, strPoolASCII)
	}
	if utf {
		return vgen.Pick(r, strPoolUTF)
	}
	if r.Chance(1, 8) {
		b := make([]byte, r.Intn(6))
		for i := range b {
			b[i] = byte(r.Intn(256))
		}
		return string(b)
	}
	return vgen.Pick(r, strPool)
}

func genSliceLen(r *vgen.Rand) int {
	switch r.Intn(10) {
	case 0:
		return 0
	case 1:
		return 12
	default:
		return r.Intn(3) + 1
	}
}

func genVal(r *vgen.Rand, c genCfg) val {
	ts := c.types
	if ts == nil {
		ts = allTypes
	}
	t := vgen.Pick(r, ts)
	if t == 0 && !r.Chance(1, 3) {
		t = vgen.Pick(r, ts) // INVALID is rarer
	}
	switch t {
	case 1:
		return val{t: 1, b: r.Bool()}
	case 2:
		return val{t: 2, n: genInt(r)}
	case 3:
		return val{t: 3, n: genFloat(r, false)} // scalars need no guard
	case 4:
		return val{t: 4, s: genStr(r, c.utf8only)}
	case 5:
		v := val{t: 5, bs: make([]bool, genSliceLen(r))}
		for i := range v.bs {
			v.bs[i] = r.Bool()
		}
		return v
	case 6:
		v := val{t: 6, ns: make([]uint64, genSliceLen(r))}
		for i := range v.ns {
			v.ns[i] = genInt(r)
		}
		return v
	case 7:
		v := val{t: 7, ns: make([]uint64, genSliceLen(r))}
		for i := range v.ns {
			v.ns[i] = genFloat(r, c.regular)
		}
		return v
	case 8:
		v := val{t: 8, ss: make([]string, genSliceLen(r))}
		for i := range v.ss {
			v.ss[i] = genStr(r, c.utf8only)
		}
		return v
	}
	return val{}
}

func genKey(r *vgen.Rand, c genCfg, npool int) string {
	pool := keyPool
	if c.utf8only {
		pool = keyPoolUTF
	}
	if npool > 0 && npool < len(pool) {
		pool = pool[:npool]
	}
	if r.Chance(1, 12) {
		if c.utf8only {
			return fmt.Sprintf("k%d", r.Intn(50))
		}
		b := make([]byte, r.Intn(4))
		for i := range b {
			b[i] = byte(r.Intn(256))
		}
		return string(b)
	}
	return vgen.Pick(r, pool)
}

var sizes = []int{0, 1, 1, 2, 2, 3, 3, 4, 5, 6, 8, 9, 10, 10, 11, 11, 12, 13, 15, 18, 20, 25}

// genInput: n key-values; dupRate in percent steers how often a key repeats.
func genInput(r *vgen.Rand, c genCfg, n int) []kvt {
	out := make([]kvt, 0, n)
	npool := 0
	if n <= 6 && r.Bool() {
		npool = 4 // few keys: many duplicates
	}
	distinct := r.Chance(1, 3) // force mostly distinct keys so that sets reach 10/11 elements
	for i := 0; i < n; i++ {
		k := genKey(r, c, npool)
		if distinct {
			k = fmt.Sprintf("%s%c", k, 'A'+i%26)
			if c.utf8only || r.Bool() {
				k = fmt.Sprintf("k%02d", (i*7)%n)
			}
		}
		out = append(out, kvt{k: k, v: genVal(r, c)})
	}
	return out
}

// genMonotone: keys already in non-increasing (desc) or non-decreasing order, each key m times in a row,
// every occurrence with its own value, so the first and the last value of a key differ (pre-sorted inputs
// must still give the LAST value).
func genMonotone(r *vgen.Rand, desc bool) []kvt {
	k := r.Range(1, 9)
	if r.Chance(1, 6) {
		k = r.Range(10, 20)
	}
	var out []kvt
	n := 0
	for i := 0; i < k; i++ {
		key := fmt.Sprintf("k%02d", i)
		if desc {
			key = fmt.Sprintf("k%02d", k-1-i)
		}
		m := vgen.Pick(r, []int{1, 1, 2, 2, 3, 4})
		for j := 0; j < m; j++ {
			v := val{t: 2, n: uint64(n)}
			if r.Chance(1, 4) {
				v = val{t: 4, s: fmt.Sprintf("v%d", n)}
			}
			out = append(out, kvt{k: key, v: v})
			n++
		}
	}
	return out
}

// finalMapping: last binding per key, in order of the last occurrences.
func finalMapping(l []kvt) []kvt {
	seen := map[string]bool{}
	var out []kvt
	for i := len(l) - 1; i >= 0; i-- {
		if !seen[l[i].k] {
			seen[l[i].k] = true
			out = append(out, l[i])
		}
	}
	for i, j := 0, len(out)-1; i < j; i, j = i+1, j-1 {
		out[i], out[j] = out[j], out[i]
	}
	return out
}

func shuffle(r *vgen.Rand, l []kvt) []kvt {
	out := append([]kvt(nil), l...)
	for i := len(out) - 1; i > 0; i-- {
		j := r.Intn(i + 1)
		out[i], out[j] = out[j], out[i]
	}
	return out
}

// sameMappingVariant: a differently ordered / duplicated input denoting the same mapping.
func sameMappingVariant(r *vgen.Rand, c genCfg, l []kvt) []kvt {
	f := shuffle(r, finalMapping(l))
	ndup := r.Intn(4)
	for d := 0; d < ndup && len(f) > 0; d++ {
		// a superseded binding of an existing key, somewhere before that key's final binding
		j := r.Intn(len(f))
		last := -1
		for i, x := range f {
			if x.k == f[j].k {
				last = i
			}
		}
		pos := r.Intn(last + 1)
		dup := kvt{k: f[j].k, v: genVal(r, c)}
		f = append(f[:pos], append([]kvt{dup}, f[pos:]...)...)
	}
	return f
}

// mutateMapping: change the denoted mapping in one small way (or in a way Go's == does not see).
func mutateMapping(r *vgen.Rand, c genCfg, l []kvt) ([]kvt, string) {
	out := append([]kvt(nil), l...)
	if len(out) == 0 {
		return append(out, kvt{k: genKey(r, c, 0), v: genVal(r, c)}), "add"
	}
	i := r.Intn(len(out))
	// make sure position i holds the final binding of its key
	for j := i + 1; j < len(out); j++ {
		if out[j].k == out[i].k {
			i = j
		}
	}
	v := out[i].v
	switch r.Intn(9) {
	case 0:
		out = append(out[:i], out[i+1:]...)
		return out, "drop"
	case 1:
		return append(out, kvt{k: out[i].k + "\x00", v: v}), "add-key"
	case 2:
		out[i].k = out[i].k + "x"
		return out, "rename"
	case 3: // same payload, other type
		switch v.t {
		case 2:
			out[i].v = val{t: 3, n: v.n}
		case 3:
			out[i].v = val{t: 2, n: v.n}
		case 1:
			n := uint64(0)
			if v.b {
				n = 1
			}
			out[i].v = val{t: 2, n: n}
		case 4:
			out[i].v = val{t: 8, ss: []string{v.s}}
		case 6:
			out[i].v = val{t: 7, ns: append([]uint64(nil), v.ns...)}
		case 7:
			out[i].v = val{t: 6, ns: append([]uint64(nil), v.ns...)}
		case 5:
			out[i].v = val{t: 0}
		default:
			out[i].v = val{t: 4, s: ""}
		}
		return out, "retype"
	case 4: // flip the sign bit of one float
		if v.t == 7 && len(v.ns) > 0 {
			ns := append([]uint64(nil), v.ns...)
			j := r.Intn(len(ns))
			ns[j] ^= 1 << 63
			out[i].v = val{t: 7, ns: ns}
			return out, "float-slice-sign"
		}
		if v.t == 3 {
			out[i].v = val{t: 3, n: v.n ^ 1<<63}
			return out, "float-sign"
		}
		out[i].v = val{t: 7, ns: []uint64{negZero}}
		out = append(out, kvt{k: out[i].k, v: val{t: 7, ns: []uint64{0}}})
		return out, "zero-sign"
	case 5: // slice length
		switch v.t {
		case 5:
			out[i].v = val{t: 5, bs: append(append([]bool(nil), v.bs...), false)}
		case 6, 7:
			out[i].v = val{t: v.t, ns: append(append([]uint64(nil), v.ns...), 0)}
		case 8:
			out[i].v = val{t: 8, ss: append(append([]string(nil), v.ss...), "")}
		default:
			out[i].v = genVal(r, c)
		}
		return out, "slice-len"
	case 6: // low bit
		switch v.t {
		case 2, 3:
			out[i].v = val{t: v.t, n: v.n ^ 1}
		case 6, 7:
			if len(v.ns) > 0 {
				ns := append([]uint64(nil), v.ns...)
				ns[len(ns)-1] ^= 1
				out[i].v = val{t: v.t, ns: ns}
			} else {
				out[i].v = val{t: v.t, ns: []uint64{1}}
			}
		case 1:
			out[i].v = val{t: 1, b: !v.b}
		case 4:
			out[i].v = val{t: 4, s: v.s + "\x00"}
		default:
			out[i].v = genVal(r, c)
		}
		return out, "bit"
	default:
		out[i].v = genVal(r, c)
		return out, "revalue"
	}
}

// ---- filters ----

type fspec struct {
	kind int // 0 nil, 1 allow, 2 deny, 3 types
	keys []string
	mask uint64
}

func (f fspec) goFilter() attribute.Filter {
	switch f.kind {
	case 1, 2:
		ks := make([]attribute.Key, len(f.keys))
		for i, k := range f.keys {
			ks[i] = attribute.Key(k)
		}
		if f.kind == 1 {
			return attribute.NewAllowKeysFilter(ks...)
		}
		return attribute.NewDenyKeysFilter(ks...)
	case 3:
		m := f.mask
		return func(kv attribute.KeyValue) bool { return m>>uint(kv.Value.Type())&1 == 1 }
	}
	return nil
}

func (f fspec) coq() string {
	switch f.kind {
	case 1, 2:
		items := make([]string, len(f.keys))
		for i, k := range f.keys {
			items[i] = vgen.HxS(k)
		}
		if f.kind == 1 {
			return vgen.App("FAllow", vgen.List(items))
		}
		return vgen.App("FDeny", vgen.List(items))
	case 3:
		return vgen.App("FTypes", vgen.N(f.mask))
	}
	return "FNil"
}

func (f fspec) String() string {
	switch f.kind {
	case 1:
		return fmt.Sprintf("allow%q", f.keys)
	case 2:
		return fmt.Sprintf("deny%q", f.keys)
	case 3:
		return fmt.Sprintf("types(mask=%#b)", f.mask)
	}
	return "nil"
}

func genFilter(r *vgen.Rand, c genCfg, input []kvt, allowNil bool) fspec {
	k := r.Intn(8)
	if k == 0 && !allowNil {
		k = 1
	}
	switch {
	case k == 0:
		return fspec{}
	case k <= 5:
		f := fspec{kind: 1 + k%2}
		n := vgen.Pick(r, []int{0, 1, 1, 2, 3, 5, 30})
		for i := 0; i < n; i++ {
			if len(input) > 0 && r.Chance(2, 3) {
				f.keys = append(f.keys, input[r.Intn(len(input))].k)
			} else {
				f.keys = append(f.keys, genKey(r, c, 0))
			}
		}
		return f
	default:
		m := r.U64() & 0x1ff
		switch r.Intn(6) {
		case 0:
			m = 0
		case 1:
			m = 0x1ff
		}
		return fspec{kind: 3, mask: m}
	}
}

// ---- retain and re-verify: values the API handed out must not change when other sets are built / encoded later ----

type retainedVal struct {
	what string
	desc any
	same func() bool
}

var retained []retainedVal

func retain(what string, desc any, same func() bool) {
	if len(retained) < 6000 {
		retained = append(retained, retainedVal{what, desc, same})
	}
}

// retainKVs keeps a slice the API returned together with a rendering made now.
func retainKVs(what string, desc any, l []attribute.KeyValue) {
	snap := kvsCoq(fromAttrs(l))
	retain(what, desc, func() bool { return kvsCoq(fromAttrs(l)) == snap })
}

// retainSet keeps a Set value: its contents, identity and encoding must be the same when asked again later.
func retainSet(what string, desc any, set attribute.Set) {
	snap := kvsCoq(fromAttrs(set.ToSlice()))
	key := set.Equivalent()
	eq0 := key == set.Equivalent()
	enc := set.Encoded(attribute.DefaultEncoder())
	encCopy := strings.Clone(enc)
	retain(what, desc, func() bool {
		return kvsCoq(fromAttrs(set.ToSlice())) == snap && (key == set.Equivalent()) == eq0 && enc == encCopy &&
			set.Encoded(attribute.DefaultEncoder()) == encCopy
	})
}

// ---- API entry points judged directly (no model needed: each is defined by ToSlice) ----

type recEncoder struct {
	id  attribute.EncoderID
	got []attribute.KeyValue
}

func (e *recEncoder) Encode(it attribute.Iterator) string {
	for it.Next() {
		e.got = append(e.got, it.Attribute())
	}
	return fmt.Sprintf("rec%d", len(e.got))
}
func (e *recEncoder) ID() attribute.EncoderID { return e.id }

var customEncoderID = attribute.NewEncoderID()

func sameKVs(a, b []attribute.KeyValue) bool { return kvsCoq(fromAttrs(a)) == kvsCoq(fromAttrs(b)) }

func apiChecks(w *vgen.Writer, desc any, set *attribute.Set) {
	ts := set.ToSlice()
	if !set.Equivalent().Valid() {
		w.Violation("Equivalent() of a constructed set is not Valid", desc)
	}
	// MarshalLog: key -> Emit
	if m, ok := set.MarshalLog().(map[string]string); !ok || len(m) != len(ts) {
		w.Violation("MarshalLog is not a map with one entry per attribute", desc)
	} else {
		for _, a := range ts {
			if m[string(a.Key)] != a.Value.Emit() {
				w.Violation("MarshalLog entry differs from Value.Emit", desc)
				break
			}
		}
	}
	// MarshalJSON: one {Key, Value{Type, Value}} per attribute, in order; fails only for non-finite floats
	finite := true
	for _, a := range ts {
		fs := a.Value.AsFloat64Slice()
		if a.Value.Type() == attribute.FLOAT64 {
			fs = []float64{a.Value.AsFloat64()}
		}
		for _, f := range fs {
			if math.IsNaN(f) || math.IsInf(f, 0) {
				finite = false
			}
		}
	}
	b, err := set.MarshalJSON()
	if err == nil {
		jsonCopy := string(b)
		retain("Set.MarshalJSON bytes", desc, func() bool { return string(b) == jsonCopy })
	}
	retainKVs("Set.ToSlice result", desc, ts)
	retainSet("Set (ToSlice / Equivalent / Encoded asked again)", desc, *set)
	if (err == nil) != finite {
		w.Violation(fmt.Sprintf("MarshalJSON error=%v for a set with finite=%v floats", err, finite), desc)
	} else if err == nil {
		var out []struct {
			Key   string
			Value struct {
				Type  string
				Value any
			}
		}
		if e := json.Unmarshal(b, &out); e != nil || len(out) != len(ts) {
			w.Violation("MarshalJSON is not an array with one element per attribute", desc)
		} else {
			for i, a := range ts {
				if out[i].Value.Type != a.Value.Type().String() || (utf8.ValidString(string(a.Key)) && out[i].Key != string(a.Key)) {
					w.Violation("MarshalJSON element differs from the attribute at its position", desc)
					break
				}
			}
		}
	}
	// a user-supplied Encoder is handed an iterator over exactly the contents
	enc := &recEncoder{id: customEncoderID}
	retainKVs("key-values an Encoder received from the iterator", desc, enc.got)
	if got := set.Encoded(enc); got != fmt.Sprintf("rec%d", len(ts)) || !sameKVs(enc.got, ts) {
		w.Violation("Encoded(custom encoder) did not pass the set's contents to the encoder", desc)
	}
	// accessors of the wrong type give nil; AsInterface has the matching dynamic type
	for _, a := range ts {
		v := a.Value
		t := v.Type()
		if (t != attribute.BOOLSLICE && v.AsBoolSlice() != nil) || (t != attribute.INT64SLICE && v.AsInt64Slice() != nil) ||
			(t != attribute.FLOAT64SLICE && v.AsFloat64Slice() != nil) || (t != attribute.STRINGSLICE && v.AsStringSlice() != nil) {
			w.Violation("a slice accessor of the wrong type returned a non-nil slice", desc)
			break
		}
		ok := true
		switch x := v.AsInterface().(type) {
		case bool:
			ok = t == attribute.BOOL && x == v.AsBool()
		case int64:
			ok = t == attribute.INT64 && x == v.AsInt64()
		case float64:
			ok = t == attribute.FLOAT64 && math.Float64bits(x) == math.Float64bits(v.AsFloat64())
		case string:
			ok = t == attribute.STRING && x == v.AsString()
		case []bool:
			ok = t == attribute.BOOLSLICE && len(x) == len(v.AsBoolSlice())
		case []int64:
			ok = t == attribute.INT64SLICE && len(x) == len(v.AsInt64Slice())
		case []float64:
			ok = t == attribute.FLOAT64SLICE && len(x) == len(v.AsFloat64Slice())
		case []string:
			ok = t == attribute.STRINGSLICE && len(x) == len(v.AsStringSlice())
		default:
			ok = t == attribute.INVALID
		}
		if !ok {
			w.Violation("AsInterface disagrees with Type()/As*()", desc)
			break
		}
	}
	// the deprecated Sortable still orders by key
	srt := make(attribute.Sortable, len(ts))
	for i, a := range ts {
		srt[len(ts)-1-i] = a
	}
	sort.Sort(&srt)
	if !sameKVs([]attribute.KeyValue(srt), ts) {
		w.Violation("sort.Sort(Sortable) of the reversed contents is not the set's order", desc)
	}
}

// ---- permutations ----

func permutations(n int) [][]int {
	if n == 0 {
		return [][]int{{}}
	}
	var out [][]int
	for _, p := range permutations(n - 1) {
		for pos := 0; pos <= len(p); pos++ {
			q := make([]int, 0, n)
			q = append(q, p[:pos]...)
			q = append(q, n-1)
			q = append(q, p[pos:]...)
			out = append(out, q)
		}
	}
	return out
}

func validUTF(l []kvt) bool {
	for _, x := range l {
		if !utf8.ValidString(x.k) {
			return false
		}
		if x.v.t == 4 && !utf8.ValidString(x.v.s) {
			return false
		}
	}
	return true
}

func main() {
	o := vgen.ParseFlags()
	r := vgen.NewRand(o.Seed)
	w := vgen.NewWriter(o.Out, "C05.Types C05.Spec C05.Model C05.Corr", "case", 120)
	w.Rule = "key-value slices of 0-25 elements (sizes around the 10/11 fixed/reflect switch over-represented, a few long ones) over all eight value types plus the zero Value, " +
		"keys from a small colliding pool (empty key, NUL, non-UTF-8), NaN payload variants, signed zeros, empty strings/slices; filters: nil, allow/deny key lists, type masks; " +
		"all permutations of inputs of up to 5 elements, shuffled/duplicated same-mapping variants and single mutations of the mapping; " +
		"non-trivial = the input has at least two elements or a filter removed something or the pair differs; distinct = distinct Coq case terms"

	guard := func(desc any, f func()) {
		defer func() {
			if e := recover(); e != nil {
				w.Violation(fmt.Sprintf("panic: %v", e), desc)
			}
		}()
		f()
	}

	mapHit := func(a, b *attribute.Set) bool {
		m := map[attribute.Distinct]int{a.Equivalent(): 1}
		_, ok := m[b.Equivalent()]
		return ok
	}

	optKV := func(x attribute.KeyValue, ok bool) string {
		if !ok {
			return vgen.None
		}
		return vgen.Some(kvCoq(fromAttrs([]attribute.KeyValue{x})[0]))
	}

	// --- CNew ---
	addNew := func(input []kvt, f fspec, kind string) {
		desc := map[string]any{"op": "NewSetWithFiltered", "input": kvsDesc(input), "filter": f.String()}
		guard(desc, func() {
			kvs := toAttrs(input, r)
			var set attribute.Set
			var removed []attribute.KeyValue
			var tmp attribute.Sortable
			entry := r.Intn(4)
			switch {
			case entry == 1:
				set, removed = attribute.NewSetWithSortableFiltered(kvs, &tmp, f.goFilter())
			case entry == 2 && f.kind == 0:
				set = attribute.NewSetWithSortable(kvs, &tmp)
			case entry == 3 && f.kind == 0:
				set = attribute.NewSet(kvs...)
			default:
				entry = 0
				set, removed = attribute.NewSetWithFiltered(kvs, f.goFilter())
			}
			w.Tally("new:entry=" + []string{"NewSetWithFiltered", "NewSetWithSortableFiltered", "NewSetWithSortable", "NewSet"}[entry])
			apiChecks(w, desc, &set)
			after := fromAttrs(kvs)
			ts := set.ToSlice()
			// iteration must show what ToSlice shows
			it := set.Iter()
			n := 0
			for it.Next() {
				i, a := it.IndexedAttribute()
				if i != n || n >= len(ts) || a.Key != ts[n].Key || fmt.Sprint(fromAttr(a.Value)) != fmt.Sprint(fromAttr(ts[n].Value)) {
					w.Violation("Iter disagrees with ToSlice", desc)
					break
				}
				n++
			}
			if n != len(ts) || it.Len() != len(ts) {
				w.Violation("Iter length disagrees with ToSlice", desc)
			}
			if _, ok := set.Get(-1); ok {
				w.Violation("Get(-1) returned ok", desc)
			}
			var gets []string
			for i := 0; i <= set.Len(); i++ {
				gets = append(gets, optKV(set.Get(i)))
			}
			selfEq := set.Equals(&set)
			cp := set
			if set.Equals(&cp) != selfEq {
				w.Violation("Equals(copy) differs from Equals(self)", desc)
			}
			retainKVs("NewSetWithFiltered removed list", desc, removed)
			term := vgen.App("CNew", kvsCoq(input), f.coq(), kvsCoq(after), kvsCoq(fromAttrs(ts)), kvsCoq(fromAttrs(removed)),
				vgen.N(uint64(set.Len())), vgen.Bool(selfEq), vgen.Bool(mapHit(&set, &set)), vgen.Bool(set.Equals(attribute.EmptySet())),
				vgen.List(gets))
			desc["set"] = kvsDesc(fromAttrs(ts))
			desc["removed"] = kvsDesc(fromAttrs(removed))
			desc["equals_self"] = selfEq
			w.Tally(fmt.Sprintf("new:setlen=%s", lenBucket(set.Len())))
			w.Tally("new:filter=" + []string{"nil", "allow", "deny", "types"}[f.kind])
			if len(ts) < len(finalMapping(input)) {
				w.Tally("new:filter-removed-some")
			}
			if len(finalMapping(input)) < len(input) {
				w.Tally("new:has-duplicates")
			}
			w.Add(term, desc, kind, len(input) >= 2 || len(removed) > 0)
		})
	}

	// --- CPair ---
	addPair := func(i1, i2 []kvt, kind string) {
		desc := map[string]any{"op": "Equals", "input1": kvsDesc(i1), "input2": kvsDesc(i2), "how": kind}
		guard(desc, func() {
			s1 := attribute.NewSet(toAttrs(i1, r)...)
			s2 := attribute.NewSet(toAttrs(i2, r)...)
			e12, e21, k12 := s1.Equals(&s2), s2.Equals(&s1), mapHit(&s1, &s2)
			desc["equals"] = e12
			desc["map_key_hit"] = k12
			w.Tally(fmt.Sprintf("pair:%s:equal=%v", strings.SplitN(kind, ":", 2)[0], e12))
			w.Add(vgen.App("CPair", kvsCoq(i1), kvsCoq(i2), vgen.Bool(e12), vgen.Bool(e21), vgen.Bool(k12)), desc, "pair", len(i1)+len(i2) >= 2)
		})
	}

	// ---- fixed corpus (run first, every run) ----
	nanSlice := []kvt{{"k", val{t: 7, ns: []uint64{nanQ}}}}
	addNew(nanSlice, fspec{}, "corpus")                                           // F-C05-1: not equal to itself
	addPair(nanSlice, nanSlice, "corpus:nan-slice")                               // F-C05-1
	addPair([]kvt{{"k", val{t: 7, ns: []uint64{0}}}}, []kvt{{"k", val{t: 7, ns: []uint64{negZero}}}}, "corpus:zero-sign") // F-C05-1b
	addPair([]kvt{{"a", val{t: 1, b: true}}, {"k", val{t: 7, ns: []uint64{one, negZero, 0}}}}, []kvt{{"k", val{t: 7, ns: []uint64{one, 0, negZero}}}, {"a", val{t: 1, b: true}}}, "corpus:zero-sign")
	addPair([]kvt{{"k", val{t: 3, n: nanQ}}}, []kvt{{"k", val{t: 3, n: nanQ}}}, "corpus:nan-scalar")         // equal by bits
	addPair([]kvt{{"k", val{t: 3, n: nanQ}}}, []kvt{{"k", val{t: 3, n: nanQ0}}}, "corpus:nan-payload")       // different bits
	addPair([]kvt{{"k", val{t: 3, n: 0}}}, []kvt{{"k", val{t: 3, n: negZero}}}, "corpus:scalar-zero-sign")   // different bits
	addPair([]kvt{{"k", val{t: 7, ns: []uint64{nanQ}}}}, []kvt{{"k", val{t: 7, ns: []uint64{nanQ, 0}}}}, "corpus:nan-len")
	addPair(nil, nil, "corpus:empty")
	addPair(nil, []kvt{{"", val{}}}, "corpus:empty-vs-invalid")
	addPair([]kvt{{"k", val{t: 5}}}, []kvt{{"k", val{t: 6}}}, "corpus:empty-slices-of-different-type")
	addPair([]kvt{{"k", val{t: 2, n: 1}}}, []kvt{{"k", val{t: 1, b: true}}}, "corpus:int-vs-bool")
	addNew(nil, fspec{}, "corpus")
	addNew(nil, fspec{kind: 1}, "corpus")
	addNew([]kvt{{"", val{}}, {"", val{t: 4}}, {"", val{}}}, fspec{}, "corpus")
	// keys already in non-increasing order with a duplicated key whose first and last values differ
	mono := []kvt{{"c", val{t: 2, n: 1}}, {"b", val{t: 2, n: 1}}, {"a", val{t: 2, n: 1}}, {"a", val{t: 2, n: 2}}}
	addNew(mono, fspec{}, "corpus")
	addNew([]kvt{{"b", val{t: 2, n: 1}}, {"b", val{t: 2, n: 2}}, {"a", val{t: 2, n: 3}}, {"a", val{t: 2, n: 4}}}, fspec{}, "corpus")
	addNew([]kvt{{"a", val{t: 2, n: 1}}, {"a", val{t: 2, n: 2}}}, fspec{}, "corpus")
	addPair(mono, []kvt{{"a", val{t: 2, n: 2}}, {"b", val{t: 2, n: 1}}, {"c", val{t: 2, n: 1}}}, "corpus:non-increasing")
	for _, n := range []int{9, 10, 11, 12} { // fixed-array / reflect switch, with one duplicate pushing over the edge
		var l []kvt
		for i := 0; i < n; i++ {
			l = append(l, kvt{fmt.Sprintf("k%02d", (i*5)%n), val{t: 2, n: uint64(i)}})
		}
		addNew(l, fspec{}, "corpus")
		addNew(append(append([]kvt(nil), l...), l[0]), fspec{kind: 2, keys: []string{l[1].k}}, "corpus")
		addPair(l, shuffle(r, l), "corpus:boundary")
	}
	guard("zero Set / nil *Set", func() {
		var z attribute.Set
		var np *attribute.Set
		if !z.Equals(attribute.EmptySet()) || !np.Equals(&z) || z.Len() != 0 || np.Len() != 0 || len(z.ToSlice()) != 0 || np.HasValue("a") {
			w.Violation("zero Set / nil *Set does not behave as the empty set", "zero Set")
		}
		if _, ok := z.Value("a"); ok {
			w.Violation("zero Set has a value", "zero Set")
		}
		if np.Encoded(attribute.DefaultEncoder()) != "" || z.Encoded(nil) != "" {
			w.Violation("Encoded of nil set / nil encoder is not empty", "zero Set")
		}
		if _, ok := np.Get(0); ok || len(np.ToSlice()) != 0 || !np.Equals(nil) || !z.Equals(nil) || !np.Equivalent().Valid() || (attribute.Distinct{}).Valid() {
			w.Violation("nil *Set: Get / ToSlice / Equals(nil) / Equivalent / zero Distinct misbehave", "nil Set")
		}
		it := np.Iter()
		if it.Next() || it.Len() != 0 || len(it.ToSlice()) != 0 {
			w.Violation("iterator of a nil *Set is not empty", "nil Set")
		}
		if k, d := z.Filter(func(attribute.KeyValue) bool { return false }); k.Len() != 0 || len(d) != 0 || !k.Equals(attribute.EmptySet()) {
			w.Violation("Filter of the zero Set is not empty", "zero Set")
		}
		one := attribute.NewSet(attribute.String("k", "v"))
		for _, pair := range [][2]*attribute.Set{{np, &one}, {&one, np}, {&z, &one}, {&one, &z}, {np, np}} {
			mi := attribute.NewMergeIterator(pair[0], pair[1])
			n := 0
			for mi.Next() {
				n++
				if n > 2 || mi.Attribute() != attribute.String("k", "v") {
					w.Violation("MergeIterator with a nil / zero operand yields something else than the other operand", "nil Set")
					break
				}
			}
			if want := pair[0].Len() + pair[1].Len(); n != want {
				w.Violation("MergeIterator with a nil / zero operand has the wrong length", "nil Set")
			}
		}
		if id := attribute.NewEncoderID(); !id.Valid() || id == attribute.NewEncoderID() || id == attribute.DefaultEncoder().ID() || (attribute.EncoderID{}).Valid() || !attribute.DefaultEncoder().ID().Valid() {
			w.Violation("EncoderID: not valid / not unique", "EncoderID")
		}
		apiChecks(w, "zero Set", &z)
	})

	// very long slice VALUES (around and far above 1024 elements), every slice type: identity must work as for short ones
	longVal := func(t, n int, lastDiff bool) val {
		v := val{t: t}
		for i := 0; i < n; i++ {
			d := lastDiff && i == n-1
			switch t {
			case 5:
				v.bs = append(v.bs, d)
			case 6:
				x := uint64(7)
				if d {
					x = 8
				}
				v.ns = append(v.ns, x)
			case 7:
				x := uint64(one)
				if d {
					x = posInf
				}
				v.ns = append(v.ns, x)
			case 8:
				x := "x"
				if d {
					x = "y"
				}
				v.ss = append(v.ss, x)
			}
		}
		return v
	}
	for _, t := range []int{5, 6, 7, 8} {
		for _, n := range []int{1024, 1025, 2048, 5000} {
			a := []kvt{{"a", val{t: 2, n: 1}}, {"long", longVal(t, n, false)}}
			addNew(a, fspec{}, "new-long-value")
			addPair(a, []kvt{{"long", longVal(t, n, false)}, {"a", val{t: 2, n: 1}}}, "long-value:same")
			addPair(a, []kvt{{"a", val{t: 2, n: 1}}, {"long", longVal(t, n, true)}}, "long-value:last-differs")
			addPair(a, []kvt{{"a", val{t: 2, n: 1}}, {"long", longVal(t, n-1, false)}}, "long-value:one-shorter")
		}
	}

	// ---- generated ----
	anyCfg := genCfg{}
	nNew := o.Count(520, 12000)
	for i := 0; i < nNew; i++ {
		n := vgen.Pick(r, sizes)
		input := genInput(r, anyCfg, n)
		addNew(input, genFilter(r, anyCfg, input, true), "new")
	}
	for _, n := range []int{o.Count(150, 600), o.Count(300, 2000)} { // long slices
		cfg := genCfg{types: []int{1, 2, 4}}
		var input []kvt
		for i := 0; i < n; i++ {
			input = append(input, kvt{k: fmt.Sprintf("k%d", r.Intn(n*2/3+1)), v: genVal(r, cfg)})
		}
		addNew(input, fspec{kind: 3, mask: 0b10110}, "new-long")
	}

	for _, n := range []int{2, 11, 13, 40} { // all keys equal: one survivor, the last
		var in []kvt
		for i := 0; i < n; i++ {
			in = append(in, kvt{k: "same", v: val{t: 2, n: uint64(i)}})
		}
		addNew(in, fspec{}, "new-all-equal")
		addNew(in, fspec{kind: 2, keys: []string{"same"}}, "new-all-equal")
	}
	nMono := o.Count(90, 1500)
	for i := 0; i < nMono; i++ {
		in := genMonotone(r, i%3 != 0)
		if i%2 == 0 {
			addNew(in, genFilter(r, anyCfg, in, true), "new-monotone")
		} else {
			addPair(in, sameMappingVariant(r, anyCfg, in), "monotone:same-mapping")
		}
	}

	// exhaustive permutations of small inputs (n <= 5), regular and irregular values
	nBases := o.Count(2, 12)
	for b := 0; b < nBases; b++ {
		for n := 0; n <= 5; n++ {
			cfg := genCfg{regular: b%2 == 0}
			var base []kvt
			for i := 0; i < n; i++ { // distinct keys; the tie-break between equal keys is covered by the variants below
				base = append(base, kvt{k: vgen.Pick(r, []string{"", "a", "b", "a\x00", "\xff"}) + string(rune('a'+i)), v: genVal(r, cfg)})
			}
			if n >= 3 && b%3 == 1 {
				base[n-1].k = base[0].k // one duplicated key: permutations now change the mapping sometimes
			}
			for _, p := range permutations(n) {
				perm := make([]kvt, n)
				for i, j := range p {
					perm[i] = base[j]
				}
				addPair(base, perm, fmt.Sprintf("perm%d", n))
			}
		}
	}
	nPair := o.Count(340, 8000)
	for i := 0; i < nPair; i++ {
		cfg := genCfg{regular: r.Chance(2, 3)}
		base := genInput(r, cfg, vgen.Pick(r, sizes))
		other := sameMappingVariant(r, cfg, base)
		kind := "variant:same-mapping"
		if r.Bool() {
			var how string
			other, how = mutateMapping(r, cfg, other)
			kind = "mutated:" + how
		}
		if r.Bool() {
			base, other = other, base
		}
		addPair(base, other, kind)
	}

	// --- CIter / CMIter: iterator call sequences, also after a partial walk ---
	genOps := func(merge bool) []int { // 0 Next, 1 Attribute, 2 IndexedAttribute, 3 Len, 4 ToSlice
		n := r.Intn(14)
		ops := make([]int, n)
		for j := range ops {
			x := r.Intn(20)
			switch {
			case x < 9:
				ops[j] = 0
			case x < 13 || merge:
				ops[j] = 1
			case x < 15:
				ops[j] = 2
			case x < 17:
				ops[j] = 3
			default:
				ops[j] = 4
			}
			if merge && x >= 13 && x%2 == 1 {
				ops[j] = 0
			}
		}
		return ops
	}
	opNames := []string{"INext", "IAttr", "IIndexed", "ILen", "IToSlice"}
	oneKV := func(a attribute.KeyValue) string { return kvCoq(fromAttrs([]attribute.KeyValue{a})[0]) }
	nIter := o.Count(260, 4000)
	for i := 0; i < nIter; i++ {
		input := genInput(r, anyCfg, vgen.Pick(r, sizes))
		f := genFilter(r, anyCfg, input, false)
		viaFilter := i%3 == 0
		ops := genOps(false)
		desc := map[string]any{"op": "Iterator", "input": kvsDesc(input), "via_filter": viaFilter, "filter": f.String()}
		guard(desc, func() {
			set := attribute.NewSet(toAttrs(input, r)...)
			fc := vgen.None
			if viaFilter {
				set, _ = set.Filter(f.goFilter())
				fc = vgen.Some(f.coq())
			}
			contents := fromAttrs(set.ToSlice())
			it := set.Iter()
			var seen []attribute.KeyValue
			var opc, obs, names []string
			for _, op := range ops {
				opc = append(opc, opNames[op])
				names = append(names, opNames[op][1:])
				switch op {
				case 0:
					obs = append(obs, vgen.App("ONext", vgen.Bool(it.Next())))
				case 1:
					a := it.Attribute()
					if r.Bool() {
						a = it.Label()
					}
					obs = append(obs, vgen.App("OAttr", oneKV(a)))
				case 2:
					idx, a := it.IndexedAttribute()
					if r.Bool() {
						idx, a = it.IndexedLabel()
					}
					obs = append(obs, vgen.App("OIndexed", vgen.Z(int64(idx)), oneKV(a)))
				case 3:
					obs = append(obs, vgen.App("OLen", vgen.N(uint64(it.Len()))))
				case 4:
					sl := it.ToSlice()
					retainKVs("Iterator.ToSlice result", desc, sl)
					obs = append(obs, vgen.App("OSlice", kvsCoq(fromAttrs(sl))))
				}
				if op == 1 || op == 2 {
					seen = append(seen, it.Attribute())
				}
			}
			retainKVs("key-values returned by Iterator.Attribute", desc, seen)
			desc["calls"] = strings.Join(names, " ")
			w.Tally(fmt.Sprintf("iter:setlen=%s", lenBucket(len(contents))))
			w.Add(vgen.App("CIter", kvsCoq(input), fc, kvsCoq(contents), vgen.List(opc), vgen.List(obs)), desc, "iter", len(ops) > 1 && len(contents) > 0)
		})
	}
	nMIter := o.Count(120, 2000)
	for i := 0; i < nMIter; i++ {
		i1 := genInput(r, anyCfg, vgen.Pick(r, sizes[:16]))
		i2 := genInput(r, anyCfg, vgen.Pick(r, sizes[:16]))
		ops := genOps(true)
		desc := map[string]any{"op": "MergeIterator calls", "input1": kvsDesc(i1), "input2": kvsDesc(i2)}
		guard(desc, func() {
			s1 := attribute.NewSet(toAttrs(i1, r)...)
			s2 := attribute.NewSet(toAttrs(i2, r)...)
			full := attribute.NewMergeIterator(&s1, &s2)
			var merged []attribute.KeyValue
			for full.Next() && len(merged) <= s1.Len()+s2.Len() {
				merged = append(merged, full.Attribute())
			}
			mi := attribute.NewMergeIterator(&s1, &s2)
			var opc, obs, names []string
			for _, op := range ops {
				opc = append(opc, opNames[op])
				names = append(names, opNames[op][1:])
				if op == 0 {
					obs = append(obs, vgen.App("ONext", vgen.Bool(mi.Next())))
				} else {
					a := mi.Attribute()
					if r.Bool() {
						a = mi.Label()
					}
					obs = append(obs, vgen.App("OAttr", oneKV(a)))
				}
			}
			desc["calls"] = strings.Join(names, " ")
			w.Tally(fmt.Sprintf("miter:merged=%s", lenBucket(len(merged))))
			w.Add(vgen.App("CMIter", kvsCoq(i1), kvsCoq(i2), kvsCoq(fromAttrs(s1.ToSlice())), kvsCoq(fromAttrs(s2.ToSlice())), kvsCoq(fromAttrs(merged)),
				vgen.List(opc), vgen.List(obs)), desc, "miter", len(ops) > 1 && len(merged) > 0)
		})
	}

	// --- CLookup ---
	nLook := o.Count(150, 3000)
	for i := 0; i < nLook; i++ {
		input := genInput(r, anyCfg, vgen.Pick(r, sizes))
		desc := map[string]any{"op": "Value/HasValue", "input": kvsDesc(input)}
		guard(desc, func() {
			s := attribute.NewSet(toAttrs(input, r)...)
			var keys []string
			for _, x := range input {
				keys = append(keys, x.k, x.k+"\x00", x.k+"a")
				if len(x.k) > 0 {
					keys = append(keys, x.k[:len(x.k)-1])
				}
			}
			keys = append(keys, "", "\xff\xff", genKey(r, anyCfg, 0), genKey(r, anyCfg, 0))
			sort.Strings(keys)
			var probes []string
			prev := "\x00none"
			hits := 0
			for _, k := range keys {
				if k == prev {
					continue
				}
				prev = k
				v, ok := s.Value(attribute.Key(k))
				found := vgen.None
				if ok {
					found = vgen.Some(fromAttr(v).coq())
					hits++
				} else if v != (attribute.Value{}) {
					w.Violation("Value returned a non-zero Value with ok=false", desc)
				}
				probes = append(probes, vgen.Pair(vgen.Pair(vgen.HxS(k), found), vgen.Bool(s.HasValue(attribute.Key(k)))))
			}
			w.Tally(fmt.Sprintf("lookup:setlen=%s", lenBucket(s.Len())))
			w.Add(vgen.App("CLookup", kvsCoq(input), kvsCoq(fromAttrs(s.ToSlice())), vgen.List(probes)), desc, "lookup", hits > 0)
		})
	}

	// --- CFilter ---
	nFilt := o.Count(240, 5000)
	for i := 0; i < nFilt; i++ {
		input := genInput(r, anyCfg, vgen.Pick(r, sizes))
		f := genFilter(r, anyCfg, input, true)
		desc := map[string]any{"op": "Set.Filter", "input": kvsDesc(input), "filter": f.String()}
		guard(desc, func() {
			s := attribute.NewSet(toAttrs(input, r)...)
			orig := fromAttrs(s.ToSlice())
			keep := s
			kept, dropped := s.Filter(f.goFilter())
			retainSet("Set.Filter kept set", desc, kept)
			retainKVs("Set.Filter dropped list", desc, dropped)
			retainSet("Set.Filter receiver", desc, s)
			after := fromAttrs(s.ToSlice())
			if s.Equals(&keep) != keep.Equals(&keep) {
				w.Violation("Filter changed the identity of its receiver", desc)
			}
			desc["kept"] = kvsDesc(fromAttrs(kept.ToSlice()))
			desc["dropped"] = kvsDesc(fromAttrs(dropped))
			w.Tally(fmt.Sprintf("filter:dropped=%s", lenBucket(len(dropped))))
			w.Add(vgen.App("CFilter", kvsCoq(input), f.coq(), kvsCoq(orig), kvsCoq(fromAttrs(kept.ToSlice())), kvsCoq(fromAttrs(dropped)), kvsCoq(after)),
				desc, "filter", len(dropped) > 0)
		})
	}

	// --- CMerge ---
	nMerge := o.Count(160, 3000)
	for i := 0; i < nMerge; i++ {
		i1 := genInput(r, anyCfg, vgen.Pick(r, sizes))
		i2 := genInput(r, anyCfg, vgen.Pick(r, sizes))
		if r.Chance(1, 4) && len(i1) > 0 { // heavy overlap
			i2 = append(shuffle(r, i1)[:r.Intn(len(i1))+1], i2...)
			for j := range i2 {
				if r.Bool() {
					i2[j].v = genVal(r, anyCfg)
				}
			}
		}
		desc := map[string]any{"op": "MergeIterator", "input1": kvsDesc(i1), "input2": kvsDesc(i2)}
		guard(desc, func() {
			s1 := attribute.NewSet(toAttrs(i1, r)...)
			s2 := attribute.NewSet(toAttrs(i2, r)...)
			mi := attribute.NewMergeIterator(&s1, &s2)
			var merged []attribute.KeyValue
			for mi.Next() {
				merged = append(merged, mi.Attribute())
				if len(merged) > s1.Len()+s2.Len() {
					w.Violation("MergeIterator yields more elements than both sets hold", desc)
					break
				}
			}
			shared := s1.Len() + s2.Len() - len(merged)
			w.Tally(fmt.Sprintf("merge:shared=%s", lenBucket(shared)))
			w.Add(vgen.App("CMerge", kvsCoq(i1), kvsCoq(i2), kvsCoq(fromAttrs(s1.ToSlice())), kvsCoq(fromAttrs(s2.ToSlice())), kvsCoq(fromAttrs(merged))),
				desc, "merge", shared > 0)
		})
	}

	// --- CEnc ---
	nEnc := o.Count(220, 3500)
	utfCfg := genCfg{utf8only: true}
	for i := 0; i < nEnc; i++ {
		cfg := utfCfg
		asciiStrs = false
		switch i % 4 {
		case 0:
			cfg.types = []int{4} // only strings: the encoding must decode back to exactly the bindings
		case 1, 2:
			cfg.types = []int{0, 1, 2, 4, 5, 6, 8, 8} // every type whose text is modelled; string slices over ASCII
			asciiStrs = true
		}
		input := genInput(r, cfg, vgen.Pick(r, sizes[:14]))
		if !validUTF(input) {
			continue
		}
		desc := map[string]any{"op": "Encoded", "input": kvsDesc(input)}
		guard(desc, func() {
			s := attribute.NewSet(toAttrs(input, r)...)
			enc := s.Encoded(attribute.DefaultEncoder())
			encCopy := strings.Clone(enc)
			retain("Set.Encoded string", desc, func() bool { return enc == encCopy })
			ts := s.ToSlice()
			emits := make([]string, len(ts))
			for j, x := range ts {
				emits[j] = vgen.HxS(x.Value.Emit())
			}
			desc["encoded"] = enc
			w.Tally(fmt.Sprintf("encode:setlen=%s", lenBucket(len(ts))))
			w.Add(vgen.App("CEnc", kvsCoq(input), kvsCoq(fromAttrs(ts)), vgen.List(emits), vgen.HxS(enc)), desc, "encode", len(ts) > 0)
		})
	}

	// --- CEncPair: distinct sets, same encoding? (F-C05-2 type confusion, F-C05-2b string-slice collisions) ---
	encInfo := func(in []kvt) (attribute.Set, string, string, string) {
		s := attribute.NewSet(toAttrs(in, r)...)
		ts := s.ToSlice()
		emits := make([]string, len(ts))
		for j, x := range ts {
			emits[j] = vgen.HxS(x.Value.Emit())
		}
		return s, kvsCoq(fromAttrs(ts)), vgen.List(emits), s.Encoded(attribute.DefaultEncoder())
	}
	addEncPair := func(i1, i2 []kvt, kind string) {
		if !validUTF(i1) || !validUTF(i2) {
			return
		}
		desc := map[string]any{"op": "Encoded of two sets", "input1": kvsDesc(i1), "input2": kvsDesc(i2), "how": kind}
		guard(desc, func() {
			s1, c1, em1, e1 := encInfo(i1)
			s2, c2, em2, e2 := encInfo(i2)
			desc["encoded1"], desc["encoded2"], desc["equals"] = e1, e2, s1.Equals(&s2)
			w.Tally(fmt.Sprintf("encpair:%s:same-encoding=%v", kind, e1 == e2))
			w.Add(vgen.App("CEncPair", kvsCoq(i1), kvsCoq(i2), c1, c2, em1, em2, vgen.HxS(e1), vgen.HxS(e2)), desc, "encpair", true)
		})
	}
	// corpus: the witnesses of c05_encode_injective_refuted / _refuted_unguarded, replayed on the code
	addEncPair([]kvt{{"k", val{t: 2, n: 1}}}, []kvt{{"k", val{t: 4, s: "1"}}}, "corpus-int-vs-string")
	addEncPair([]kvt{{"k", val{t: 3, n: one}}}, []kvt{{"k", val{t: 2, n: 1}}}, "corpus-float-vs-int")
	addEncPair([]kvt{{"k", val{t: 1, b: true}}, {"n", val{t: 3, n: nanQ}}}, []kvt{{"k", val{t: 4, s: "true"}}, {"n", val{t: 4, s: "NaN"}}}, "corpus-bool-nan-vs-strings")
	addEncPair([]kvt{{"k", val{t: 7, ns: []uint64{nanQ}}}}, []kvt{{"k", val{t: 7, ns: []uint64{nanQ0}}}}, "corpus-nan-payloads")
	addEncPair([]kvt{{"a", val{t: 8, ss: []string{"x,b=y"}}}}, []kvt{{"a", val{t: 4, s: "[\"x"}}, {"b", val{t: 4, s: "y\"]"}}}, "corpus-strslice-eq")
	addEncPair([]kvt{{"k", val{t: 8, ss: []string{"a\\b"}}}}, []kvt{{"k", val{t: 4, s: "[\"a\\b\"]"}}}, "corpus-strslice-backslash")
	addEncPair([]kvt{{"k", val{t: 5}}}, []kvt{{"k", val{t: 6}}}, "corpus-empty-slices")
	addEncPair([]kvt{{"k", val{t: 4, s: "a,b=c\\"}}}, []kvt{{"k", val{t: 4, s: "a"}}, {"b", val{t: 4, s: "c\\"}}}, "corpus-escapes-keep-apart")
	// every value type with the awkward values, against itself with one value changed
	awkward := []kvt{{"b", val{t: 1}}, {"e0", val{t: 5}}, {"e1", val{t: 6}}, {"e2", val{t: 7}}, {"e3", val{t: 8}}, {"f1", val{t: 3, n: nanQ}},
		{"f2", val{t: 3, n: posInf}}, {"f3", val{t: 3, n: negInf}}, {"f4", val{t: 3, n: negZero}}, {"f5", val{t: 3, n: 0}},
		{"fs", val{t: 7, ns: []uint64{nanQ, posInf, negInf, negZero, 0, one}}}, {"i", val{t: 2, n: 1 << 63}}, {"is", val{t: 6, ns: []uint64{^uint64(0), 0}}},
		{"s", val{t: 4, s: "=,\\ \"x\""}}, {"ss", val{t: 8, ss: []string{"", "p,q", "r s"}}}, {"=,\\", val{t: 4, s: ""}}, {"z", val{}}}
	for i := range awkward {
		other := append([]kvt(nil), awkward...)
		other[i].v = val{t: 4, s: "changed"}
		addEncPair(awkward, other, "corpus-awkward")
	}
	nEncPair := o.Count(120, 2000)
	for i := 0; i < nEncPair; i++ {
		cfg := genCfg{utf8only: true}
		asciiStrs = i%2 == 0
		in := genInput(r, cfg, vgen.Pick(r, sizes[:12]))
		fin := finalMapping(in)
		other := append([]kvt(nil), fin...)
		kind := "mutated"
		if len(fin) > 0 && i%3 == 0 { // type confusion: one non-string value replaced by the string of its text
			j := r.Intn(len(fin))
			if fin[j].v.t != 4 {
				other[j].v = val{t: 4, s: fin[j].v.attr(false).Emit()}
				kind = "retyped-as-string"
			}
		} else {
			other, _ = mutateMapping(r, cfg, other)
		}
		addEncPair(fin, other, kind)
	}
	asciiStrs = false

	// re-verify everything retained, now that hundreds of other sets were built, filtered and encoded
	changed := 0
	for _, rv := range retained {
		ok := false
		guard(rv.desc, func() { ok = rv.same() })
		if !ok {
			if changed < 20 {
				w.Violation("a value returned earlier changed after later calls: "+rv.what, rv.desc)
			}
			changed++
		}
	}
	w.Extra["retained_values_reverified"] = len(retained)
	if err := w.Flush(); err != nil {
		fmt.Fprintln(os.Stderr, err)
		os.Exit(2)
	}
}

func lenBucket(n int) string {
	switch {
	case n == 0:
		return "0"
	case n == 1:
		return "1"
	case n <= 5:
		return "2-5"
	case n <= 9:
		return "6-9"
	case n == 10:
		return "10"
	case n == 11:
		return "11"
	case n <= 25:
		return "12-25"
	default:
		return ">25"
	}
}
