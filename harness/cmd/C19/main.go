// C19 harness: sdk/resource Merge / NewWithAttributes / Equal / environment /
// detector folding of the real implementation vs the Coq model and specification.
// Environment scenarios run in re-exec'd child processes (-child): a few with the
// variables passed in the child's process environment, the rest in batch children
// that os.Setenv each scenario before calling the implementation.
package main

import (
	"bufio"
	"context"
	"encoding/hex"
	"encoding/json"
	"errors"
	"flag"
	"fmt"
	"math"
	"os"
	"os/exec"
	"strings"
	"sync"
	"time"

	"go.opentelemetry.io/otel"
	"go.opentelemetry.io/otel/attribute"
	"go.opentelemetry.io/otel/sdk/resource"

	"verif/harness/vgen"
)

// ---- typed values (bit patterns), same encoding as the C05 harness ----

type val struct {
	t  int
	b  bool
	n  uint64
	s  string
	bs []bool
	ns []uint64
	ss []string
}

type kvt struct {
	k string
	v val
}

func (v val) attr() attribute.Value {
	switch v.t {
	case 1:
		return attribute.BoolValue(v.b)
	case 2:
		return attribute.Int64Value(int64(v.n))
	case 3:
		return attribute.Float64Value(math.Float64frombits(v.n))
	case 4:
		return attribute.StringValue(v.s)
	case 5:
		return attribute.BoolSliceValue(append([]bool(nil), v.bs...))
	case 6:
		x := make([]int64, len(v.ns))
		for i, n := range v.ns {
			x[i] = int64(n)
		}
		return attribute.Int64SliceValue(x)
	case 7:
		x := make([]float64, len(v.ns))
		for i, n := range v.ns {
			x[i] = math.Float64frombits(n)
		}
		return attribute.Float64SliceValue(x)
	case 8:
		return attribute.StringSliceValue(append([]string(nil), v.ss...))
	}
	return attribute.Value{}
}

func fromAttr(a attribute.Value) val {
	switch a.Type() {
	case attribute.BOOL:
		return val{t: 1, b: a.AsBool()}
	case attribute.INT64:
		return val{t: 2, n: uint64(a.AsInt64())}
	case attribute.FLOAT64:
		return val{t: 3, n: math.Float64bits(a.AsFloat64())}
	case attribute.STRING:
		return val{t: 4, s: a.AsString()}
	case attribute.BOOLSLICE:
		return val{t: 5, bs: a.AsBoolSlice()}
	case attribute.INT64SLICE:
		x := a.AsInt64Slice()
		ns := make([]uint64, len(x))
		for i, n := range x {
			ns[i] = uint64(n)
		}
		return val{t: 6, ns: ns}
	case attribute.FLOAT64SLICE:
		x := a.AsFloat64Slice()
		ns := make([]uint64, len(x))
		for i, n := range x {
			ns[i] = math.Float64bits(n)
		}
		return val{t: 7, ns: ns}
	case attribute.STRINGSLICE:
		return val{t: 8, ss: a.AsStringSlice()}
	}
	return val{}
}

func nlist(ns []uint64) string {
	items := make([]string, len(ns))
	for i, n := range ns {
		items[i] = vgen.N(n)
	}
	return vgen.List(items)
}

func (v val) coq() string {
	switch v.t {
	case 1:
		return vgen.App("VBool", vgen.Bool(v.b))
	case 2:
		return vgen.App("VInt", vgen.N(v.n))
	case 3:
		return vgen.App("VFloat", vgen.N(v.n))
	case 4:
		return vgen.App("VStr", vgen.HxS(v.s))
	case 5:
		items := make([]string, len(v.bs))
		for i, b := range v.bs {
			items[i] = vgen.Bool(b)
		}
		return vgen.App("VBools", vgen.List(items))
	case 6:
		return vgen.App("VInts", nlist(v.ns))
	case 7:
		return vgen.App("VFloats", nlist(v.ns))
	case 8:
		items := make([]string, len(v.ss))
		for i, s := range v.ss {
			items[i] = vgen.HxS(s)
		}
		return vgen.App("VStrs", vgen.List(items))
	}
	return "VInvalid"
}

func (v val) String() string {
	switch v.t {
	case 1:
		return fmt.Sprintf("bool(%v)", v.b)
	case 2:
		return fmt.Sprintf("int64(%d)", int64(v.n))
	case 3:
		return fmt.Sprintf("float64bits(%#x)", v.n)
	case 4:
		return fmt.Sprintf("string(%q)", v.s)
	case 5:
		return fmt.Sprintf("[]bool%v", v.bs)
	case 6:
		return fmt.Sprintf("[]int64bits%v", v.ns)
	case 7:
		return fmt.Sprintf("[]float64bits%x", v.ns)
	case 8:
		return fmt.Sprintf("[]string%q", v.ss)
	}
	return "invalid"
}

func kvsCoq(l []kvt) string {
	items := make([]string, len(l))
	for i, x := range l {
		items[i] = vgen.Pair(vgen.HxS(x.k), x.v.coq())
	}
	return vgen.List(items)
}

func kvsDesc(l []kvt) []string {
	out := make([]string, len(l))
	for i, x := range l {
		out[i] = fmt.Sprintf("%q=%s", x.k, x.v)
	}
	return out
}

func toAttrs(l []kvt) []attribute.KeyValue {
	out := make([]attribute.KeyValue, len(l))
	for i, x := range l {
		out[i] = attribute.KeyValue{Key: attribute.Key(x.k), Value: x.v.attr()}
	}
	return out
}

func fromAttrs(l []attribute.KeyValue) []kvt {
	out := make([]kvt, len(l))
	for i, x := range l {
		out[i] = kvt{k: string(x.Key), v: fromAttr(x.Value)}
	}
	return out
}

// ---- resources ----

type rdesc struct {
	kind   int // 0 nil, 1 Empty(), 2 NewWithAttributes / NewSchemaless
	schema string
	input  []kvt
}

func (d rdesc) build() *resource.Resource {
	switch d.kind {
	case 0:
		return nil
	case 1:
		return resource.Empty()
	}
	if d.schema == "" {
		return resource.NewSchemaless(toAttrs(d.input)...)
	}
	return resource.NewWithAttributes(d.schema, toAttrs(d.input)...)
}

func (d rdesc) coq() string {
	switch d.kind {
	case 0:
		return "RNil"
	case 1:
		return "REmpty"
	}
	return vgen.App("RNew", vgen.HxS(d.schema), kvsCoq(d.input))
}

func (d rdesc) desc() any {
	switch d.kind {
	case 0:
		return "nil"
	case 1:
		return "Empty()"
	}
	return map[string]any{"schema": d.schema, "attrs": kvsDesc(d.input)}
}

type robs struct {
	attrs  []kvt
	schema string
}

func observe(r *resource.Resource) robs {
	return robs{attrs: fromAttrs(r.Attributes()), schema: r.SchemaURL()}
}

func (o robs) coq() string { return vgen.Pair(kvsCoq(o.attrs), vgen.HxS(o.schema)) }
func (o robs) desc() any {
	return map[string]any{"attrs": kvsDesc(o.attrs), "schema": o.schema}
}
func (o robs) same(p robs) bool { return o.coq() == p.coq() }

var keyPool = []string{"a", "b", "c", "d", "service.name", "host.name", "k1", "k2", "aa", "a\x00", "é", "z", "", "telemetry.sdk.name"}
var strPool = []string{"", "x", "y", "1", "svc", "a,b", "a=b", "%41", "é", " padded ", "\xff"}
var schemaPool = []string{"", "", "https://a", "https://a", "https://b", "https://opentelemetry.io/schemas/1.26.0"}

// nearEqual: URLs that differ from a pool URL only by letter case, a trailing slash, percent-encoding,
// Unicode case folding / normalisation, surrounding space -- all of them DIFFERENT schema URLs.
var nearEqual = map[string][]string{
	"https://a": {"https://A", "HTTPS://a", "https://a/", "https://%61", "https://a ", " https://a", "https://\uff41", "https://a\x00", "https://a#"},
	"https://b": {"https://B", "https://b/", "https://%62"},
	"https://opentelemetry.io/schemas/1.26.0": {"https://opentelemetry.io/Schemas/1.26.0", "https://OpenTelemetry.io/schemas/1.26.0",
		"https://opentelemetry.io/schemas/1.26.0/", "https://opentelemetry.io/schemas/1%2E26.0", "https://opentelemetry.\u0131o/schemas/1.26.0",
		"https://opentelemetry.io/schemas/1.26.00", "http://opentelemetry.io/schemas/1.26.0"},
}

// genSchema: a pool URL, one time in four replaced by a near-equal variant of it.
func genSchema(r *vgen.Rand) string {
	u := vgen.Pick(r, schemaPool)
	if vs := nearEqual[u]; len(vs) > 0 && r.Chance(1, 4) {
		return vgen.Pick(r, vs)
	}
	return u
}

const (
	nanQ    = 0x7FF8000000000001
	negZero = 0x8000000000000000
)

func genVal(r *vgen.Rand) val {
	switch r.Intn(20) {
	case 0:
		return val{} // INVALID: must be filtered out
	case 1:
		return val{t: 1, b: r.Bool()}
	case 2, 3:
		return val{t: 2, n: vgen.Pick(r, []uint64{0, 1, ^uint64(0), 42, 1 << 63})}
	case 4:
		return val{t: 3, n: vgen.Pick(r, []uint64{0, negZero, nanQ, 0x3FF0000000000000})}
	case 5:
		return val{t: 8, ss: []string{vgen.Pick(r, strPool), vgen.Pick(r, strPool)}[:r.Intn(3)]}
	case 6:
		return val{t: 7, ns: []uint64{vgen.Pick(r, []uint64{0, negZero, nanQ, 0x3FF0000000000000})}}
	case 7:
		return val{t: 6, ns: []uint64{1, 2}[:r.Intn(3)]}
	case 8:
		return val{t: 5, bs: []bool{true, false}[:r.Intn(3)]}
	default:
		return val{t: 4, s: vgen.Pick(r, strPool)}
	}
}

func genAttrs(r *vgen.Rand, n int) []kvt {
	out := make([]kvt, 0, n)
	npool := len(keyPool)
	if r.Bool() {
		npool = 6
	}
	for i := 0; i < n; i++ {
		k := keyPool[r.Intn(npool)]
		if r.Chance(1, 10) {
			k = fmt.Sprintf("k%d", r.Intn(30))
		}
		out = append(out, kvt{k: k, v: genVal(r)})
	}
	return out
}

// dupKeys: k keys, each m times (13-60 entries in all), randomly interleaved; the caller gives every
// occurrence its own value, so the surviving (last) occurrence of a key is distinguishable from the others.
func dupKeys(r *vgen.Rand, pool []string) []string {
	k := r.Range(2, 8)
	m := r.Range(2, 7)
	for k*m < 13 {
		m++
	}
	for k*m > 60 {
		m--
	}
	start := r.Intn(len(pool))
	var keys []string
	for i := 0; i < k; i++ {
		key := pool[(start+i)%len(pool)]
		if i >= len(pool) {
			key = fmt.Sprintf("%s.%d", key, i)
		}
		for j := 0; j < m; j++ {
			keys = append(keys, key)
		}
	}
	for i := len(keys) - 1; i > 0; i-- {
		j := r.Intn(i + 1)
		keys[i], keys[j] = keys[j], keys[i]
	}
	return keys
}

// genDupAttrs: a long attribute list with heavily duplicated keys; occurrence i carries the value "v<i>"
// (now and then another type or an invalid value, so that the validity filter meets the last-wins rule).
func genDupAttrs(r *vgen.Rand) []kvt {
	keys := dupKeys(r, keyPool)
	out := make([]kvt, len(keys))
	for i, k := range keys {
		v := val{t: 4, s: fmt.Sprintf("v%d", i)}
		switch r.Intn(12) {
		case 0:
			v = val{t: 2, n: uint64(i)}
		case 1:
			v = val{}
		}
		out[i] = kvt{k: k, v: v}
	}
	return out
}

func genRes(r *vgen.Rand) rdesc {
	switch r.Intn(12) {
	case 0:
		return rdesc{kind: 0}
	case 1:
		return rdesc{kind: 1}
	case 2, 3:
		return rdesc{kind: 2, schema: genSchema(r), input: genDupAttrs(r)}
	}
	n := vgen.Pick(r, []int{0, 1, 1, 2, 3, 3, 4, 5, 6, 8, 10, 11, 12})
	return rdesc{kind: 2, schema: genSchema(r), input: genAttrs(r, n)}
}

func mergeErr(err error) uint64 {
	switch {
	case err == nil:
		return 0
	case errors.Is(err, resource.ErrSchemaURLConflict):
		return 1
	}
	return 2
}

// ---- retain and re-verify: what a Resource handed out must not change after later Merge / New calls ----

type retainedVal struct {
	what string
	desc any
	same func() bool
}

var retained []retainedVal

func retainRes(what string, desc any, res *resource.Resource) {
	if res == nil || len(retained) > 6000 {
		return
	}
	attrs := res.Attributes()
	snap := observe(res).coq()
	enc := res.Encoded(attribute.DefaultEncoder())
	str := res.String()
	encCopy, strCopy := strings.Clone(enc), strings.Clone(str)
	key := res.Equivalent()
	eq0 := key == res.Equivalent()
	retained = append(retained, retainedVal{what, desc, func() bool {
		return kvsCoq(fromAttrs(attrs)) == kvsCoq(observe(res).attrs) && observe(res).coq() == snap &&
			enc == encCopy && str == strCopy && res.Encoded(attribute.DefaultEncoder()) == encCopy && res.String() == strCopy &&
			(key == res.Equivalent()) == eq0
	}})
}

// ---- scripted detectors ----

type ddesc struct {
	absent bool
	res    rdesc
	err    int // 0 nil, 1 partial, 2 other
	viaOpt bool
	// custom: the detector is not a scripted one (a built-in option, resource.StringDetector); res / err describe what it returns
	custom     func(sentinel error) (resource.Option, resource.Detector)
	name       string
	invalidKey bool // StringDetector with an empty key: fails with its own (sentinel-free) error
	same       int  // > 0: this entry is THE SAME detector value / option as entry same-1 (listed again)
}

// builtinOpt: an option of config.go whose detector reads the machine; what it yields is observed once by running it alone.
type builtinOpt struct {
	name string
	opt  func() resource.Option
	res  rdesc
}

func probeBuiltins() []builtinOpt {
	cands := []builtinOpt{
		{name: "WithTelemetrySDK", opt: resource.WithTelemetrySDK}, {name: "WithHost", opt: resource.WithHost}, {name: "WithHostID", opt: resource.WithHostID},
		{name: "WithOS", opt: resource.WithOS}, {name: "WithOSType", opt: resource.WithOSType}, {name: "WithOSDescription", opt: resource.WithOSDescription},
		{name: "WithProcess", opt: resource.WithProcess}, {name: "WithProcessPID", opt: resource.WithProcessPID},
		{name: "WithProcessExecutableName", opt: resource.WithProcessExecutableName}, {name: "WithProcessExecutablePath", opt: resource.WithProcessExecutablePath},
		{name: "WithProcessCommandArgs", opt: resource.WithProcessCommandArgs}, {name: "WithProcessOwner", opt: resource.WithProcessOwner},
		{name: "WithProcessRuntimeName", opt: resource.WithProcessRuntimeName}, {name: "WithProcessRuntimeVersion", opt: resource.WithProcessRuntimeVersion},
		{name: "WithProcessRuntimeDescription", opt: resource.WithProcessRuntimeDescription},
		{name: "WithContainer", opt: resource.WithContainer}, {name: "WithContainerID", opt: resource.WithContainerID},
	}
	var out []builtinOpt
	for _, c := range cands {
		func() {
			defer func() { recover() }()
			r1, e1 := resource.New(context.Background(), c.opt())
			r2, e2 := resource.New(context.Background(), c.opt())
			if e1 != nil || e2 != nil || r1 == nil || !observe(r1).same(observe(r2)) {
				return // fails or is not stable on this machine: cannot serve as a known operand
			}
			o := observe(r1)
			c.res = rdesc{kind: 2, schema: o.schema, input: o.attrs}
			out = append(out, c)
		}()
	}
	return out
}

type scripted struct {
	res *resource.Resource
	err error
}

func (s scripted) Detect(context.Context) (*resource.Resource, error) { return s.res, s.err }

func (d ddesc) coq() string {
	if d.absent {
		return "DAbsent"
	}
	return vgen.App("DRet", d.res.coq(), vgen.N(uint64(d.err)))
}

// ---- environment scenarios (child side) ----

type envScenario struct {
	Attrs      string `json:"attrs"` // hex
	Svc        string `json:"svc"`   // hex
	UnsetAttrs bool   `json:"unset_attrs"`
	UnsetSvc   bool   `json:"unset_svc"`
}

type envKV struct {
	K string `json:"k"`
	T int    `json:"t"`
	V string `json:"v"`
}

type envResult struct {
	Attrs    []envKV `json:"attrs"`
	Schema   string  `json:"schema"`
	Err      int     `json:"err"`
	EnvSame  bool    `json:"env_same"`
	Repeat   string  `json:"repeat,omitempty"`  // why New(WithFromEnv(), WithAttributes(overrides), WithFromEnv()) is wrong, empty = fine
	Default  string  `json:"default,omitempty"` // why resource.Default() is wrong, empty = fine / not checked
	ErrText  string  `json:"err_text"`
	Panicked string  `json:"panicked,omitempty"`
}

// checkDefaultResource: Default() = default service name, then the environment, then the telemetry SDK, later ones winning.
func checkDefaultResource(env *resource.Resource) string {
	d := resource.Default()
	if d != resource.Default() {
		return "Default() is not the same resource on the second call"
	}
	sdk, _ := resource.New(context.Background(), resource.WithTelemetrySDK())
	ds := d.Set()
	for _, a := range sdk.Attributes() {
		if v, ok := ds.Value(a.Key); !ok || v != a.Value {
			return "telemetry SDK attribute " + string(a.Key) + " missing or overridden"
		}
	}
	sdkKeys := sdk.Set()
	for _, a := range env.Attributes() {
		if sdkKeys.HasValue(a.Key) {
			continue
		}
		if v, ok := ds.Value(a.Key); !ok || v != a.Value {
			return "environment attribute " + string(a.Key) + " missing or overridden in Default()"
		}
	}
	if v, ok := ds.Value("service.name"); !ok || v.AsString() == "" {
		return "Default() has no service.name"
	} else if _, fromEnv := env.Set().Value("service.name"); !fromEnv && !strings.HasPrefix(v.AsString(), "unknown_service") {
		return "default service.name is " + v.AsString()
	}
	if d.Len() > env.Len()+sdk.Len()+1 || d.SchemaURL() != sdk.SchemaURL() {
		return "Default() has extra attributes or another schema URL"
	}
	return ""
}

func runEnvOnce(checkDefault bool) (res envResult) {
	defer func() {
		if e := recover(); e != nil {
			res.Panicked = fmt.Sprint(e)
		}
	}()
	r, err := resource.New(context.Background(), resource.WithFromEnv())
	for _, a := range r.Attributes() {
		v := fromAttr(a.Value)
		res.Attrs = append(res.Attrs, envKV{K: hex.EncodeToString([]byte(a.Key)), T: v.t, V: hex.EncodeToString([]byte(v.s))})
	}
	res.Schema = hex.EncodeToString([]byte(r.SchemaURL()))
	switch {
	case err == nil:
		res.Err = 0
	case errors.Is(err, resource.ErrPartialResource):
		res.Err = 1
		res.ErrText = err.Error()
	default:
		res.Err = 2
		res.ErrText = err.Error()
	}
	e2 := resource.Environment()
	res.EnvSame = e2.Equal(r) && e2.SchemaURL() == r.SchemaURL() && len(e2.Attributes()) == len(r.Attributes())
	// the same option listed again after another detector overrode its keys: the later occurrence wins again
	var over []attribute.KeyValue
	for _, a := range r.Attributes() {
		over = append(over, attribute.String(string(a.Key), "overridden-in-between"))
	}
	over = append(over, attribute.Bool("between", true))
	if r3, _ := resource.New(context.Background(), resource.WithFromEnv(), resource.WithAttributes(over...), resource.WithFromEnv()); r3 == nil {
		res.Repeat = "nil resource"
	} else {
		want, _ := resource.Merge(resource.NewSchemaless(over...), r)
		if !r3.Equal(want) || r3.Len() != want.Len() {
			res.Repeat = "attributes of the second WithFromEnv() did not win over the detector in between: " + r3.String()
		}
	}
	if checkDefault {
		res.Default = checkDefaultResource(r)
	}
	return res
}

func childMain(batch bool) {
	otel.SetErrorHandler(otel.ErrorHandlerFunc(func(error) {})) // constructOTResources reports unescape errors to the global handler
	out := json.NewEncoder(os.Stdout)
	if !batch {
		out.Encode(runEnvOnce(true))
		return
	}
	sc := bufio.NewScanner(os.Stdin)
	sc.Buffer(make([]byte, 1<<20), 1<<24)
	for sc.Scan() {
		var s envScenario
		if err := json.Unmarshal(sc.Bytes(), &s); err != nil {
			fmt.Fprintln(os.Stderr, "bad scenario:", err)
			os.Exit(3)
		}
		a, _ := hex.DecodeString(s.Attrs)
		v, _ := hex.DecodeString(s.Svc)
		os.Unsetenv("OTEL_RESOURCE_ATTRIBUTES")
		os.Unsetenv("OTEL_SERVICE_NAME")
		if !s.UnsetAttrs {
			if err := os.Setenv("OTEL_RESOURCE_ATTRIBUTES", string(a)); err != nil {
				fmt.Fprintln(os.Stderr, "setenv:", err)
				os.Exit(3)
			}
		}
		if !s.UnsetSvc {
			if err := os.Setenv("OTEL_SERVICE_NAME", string(v)); err != nil {
				fmt.Fprintln(os.Stderr, "setenv:", err)
				os.Exit(3)
			}
		}
		out.Encode(runEnvOnce(false))
	}
}

// ---- environment scenarios (parent side) ----

type envCase struct {
	attrs, svc           string
	unsetAttrs, unsetSvc bool
	intent               bool
	pairs                [][2]string
	svcClean             string
	kind                 string
}

func baseEnv() []string {
	var env []string
	for _, e := range os.Environ() {
		if strings.HasPrefix(e, "OTEL_") {
			continue
		}
		env = append(env, e)
	}
	return env
}

func runChildSingle(c envCase) (envResult, error) {
	cmd := exec.Command(os.Args[0], "-child")
	env := baseEnv()
	if !c.unsetAttrs {
		env = append(env, "OTEL_RESOURCE_ATTRIBUTES="+c.attrs)
	}
	if !c.unsetSvc {
		env = append(env, "OTEL_SERVICE_NAME="+c.svc)
	}
	cmd.Env = env
	out, err := cmd.Output()
	var res envResult
	if err != nil {
		return res, fmt.Errorf("child failed: %v", err)
	}
	if err := json.Unmarshal(out, &res); err != nil {
		return res, fmt.Errorf("child output: %v", err)
	}
	return res, nil
}

func runChildBatch(cs []envCase) ([]envResult, error) {
	cmd := exec.Command(os.Args[0], "-child-batch")
	cmd.Env = baseEnv()
	var in strings.Builder
	for _, c := range cs {
		b, _ := json.Marshal(envScenario{Attrs: hex.EncodeToString([]byte(c.attrs)), Svc: hex.EncodeToString([]byte(c.svc)), UnsetAttrs: c.unsetAttrs, UnsetSvc: c.unsetSvc})
		in.Write(b)
		in.WriteByte('\n')
	}
	cmd.Stdin = strings.NewReader(in.String())
	done := make(chan struct{})
	var out []byte
	var err error
	go func() { out, err = cmd.Output(); close(done) }()
	select {
	case <-done:
	case <-time.After(120 * time.Second):
		if cmd.Process != nil {
			cmd.Process.Kill()
		}
		<-done
		return nil, fmt.Errorf("child hung")
	}
	if err != nil {
		return nil, fmt.Errorf("child failed: %v", err)
	}
	var res []envResult
	dec := json.NewDecoder(strings.NewReader(string(out)))
	for dec.More() {
		var r envResult
		if e := dec.Decode(&r); e != nil {
			return nil, e
		}
		res = append(res, r)
	}
	if len(res) != len(cs) {
		return res, fmt.Errorf("child answered %d of %d scenarios", len(res), len(cs))
	}
	return res, nil
}

var ws = []string{" ", "  ", "\t", "\n", "\r", "\v", "\f", "\xc2\xa0", "\xc2\x85", "\xe3\x80\x80", "\xe2\x80\x83", " \t "}

func pad(r *vgen.Rand) string {
	if r.Chance(3, 5) {
		return ""
	}
	return vgen.Pick(r, ws)
}

const hexU = "0123456789ABCDEF"
const hexL = "0123456789abcdef"

// encodeValue percent-encodes what must be (control, space, non-ASCII, '%', ','), and other bytes at random.
func encodeValue(r *vgen.Rand, v string) string {
	var sb strings.Builder
	for i := 0; i < len(v); i++ {
		c := v[i]
		if c < 0x21 || c > 0x7e || c == '%' || c == ',' || r.Chance(1, 5) {
			h := hexU
			if r.Bool() {
				h = hexL
			}
			sb.WriteByte('%')
			sb.WriteByte(h[c>>4])
			sb.WriteByte(h[c&15])
		} else {
			sb.WriteByte(c)
		}
	}
	return sb.String()
}

var envKeys = []string{"a", "b", "c", "service.name", "host.name", "k.1", "a b", "K", "deployment.environment", "x/y", "é", "",
	"\"q\"", "'q", "q'", "`q`", "[q]", "\\q", "(q)", "{q}", "q\"", "\"", "'"}

func genValueBytes(r *vgen.Rand) string {
	switch r.Intn(8) {
	case 0:
		return ""
	case 1:
		b := make([]byte, r.Intn(8)+1)
		for i := range b {
			b[i] = byte(r.Intn(256))
		}
		return string(b)
	case 2:
		return vgen.Pick(r, []string{"a,b", "a=b", "100%", "%41", "%", "%%", " lead", "trail ", "\x00", "a\x00b", "\xc2\xa0x\xc2\xa0", "日本", "+", "a+b", "%2", "%zz"})
	case 3: // quotes and other punctuation at the very start / end of a value
		return vgen.Pick(r, []string{"\"v\"", "'v'", "v'", "'v", "v\"", "\"v", "`v`", "[v]", "(v)", "{v}", "v\\", "\\v", "\"", "'", "\"\"", "''", "'\"v\"'", "<v>"})
	default:
		const cs = "abcxyz019._-/:"
		b := make([]byte, r.Intn(6)+1)
		for i := range b {
			b[i] = cs[r.Intn(len(cs))]
		}
		return string(b)
	}
}

func genEnvCase(r *vgen.Rand) envCase {
	var c envCase
	n := vgen.Pick(r, []int{0, 1, 1, 2, 3, 4, 6})
	var longKeys []string
	if r.Chance(1, 5) { // 13-60 pairs, few keys repeated many times: the LAST occurrence must win
		longKeys = dupKeys(r, envKeys)
		n = len(longKeys)
	}
	var items []string
	for i := 0; i < n; i++ {
		k := vgen.Pick(r, envKeys)
		v := genValueBytes(r)
		if longKeys != nil {
			k = longKeys[i]
			v = fmt.Sprintf("v%d", i)
			if r.Chance(1, 10) {
				v = genValueBytes(r)
			}
		}
		c.pairs = append(c.pairs, [2]string{k, v})
		items = append(items, pad(r)+k+pad(r)+"="+pad(r)+encodeValue(r, v)+pad(r))
	}
	c.attrs = pad(r) + strings.Join(items, ",") + pad(r)
	c.intent = true
	c.kind = "env-structured"
	switch r.Intn(3) {
	case 0:
		c.unsetSvc = true
	case 1:
		c.svc = pad(r)
	default:
		c.svcClean = vgen.Pick(r, []string{"svc", "my service", "a,b", "x=y", "%41", "é", "\"svc\"", "'svc'", "svc'", "\"svc", "`svc`", "[svc]", "svc\\", "\"", "'"})
		c.svc = pad(r) + c.svcClean + pad(r)
	}
	if n == 0 && r.Bool() {
		c.unsetAttrs = true
		c.attrs = ""
	}
	if longKeys != nil {
		c.kind = "env-structured-long"
	}
	if r.Chance(2, 5) && (longKeys == nil || r.Chance(1, 4)) { // break the structure: the intent no longer applies, only model and invariants judge it
		c.intent = false
		c.kind = "env-mutated"
		b := []byte(c.attrs)
		for m := r.Intn(3) + 1; m > 0; m-- {
			switch r.Intn(6) {
			case 0:
				if len(b) > 0 {
					b[r.Intn(len(b))] = vgen.Pick(r, []byte(",=% \t%,=+"))
				}
			case 1:
				j := r.Intn(len(b) + 1)
				b = append(b[:j], append([]byte(vgen.Pick(r, []string{",", "=", "%", "%4", "%zz", ",,", "novalue", " ", "=,", "\xc2\xa0", "\xa0", "\xe3\x80"})), b[j:]...)...)
			case 2:
				if len(b) > 0 {
					j := r.Intn(len(b))
					b = append(b[:j], b[j+1:]...)
				}
			case 3:
				if len(b) > 0 {
					b[r.Intn(len(b))] = byte(1 + r.Intn(255))
				}
			case 4:
				b = append(b, []byte(vgen.Pick(r, []string{",", ",novalue", ",=", ",k=%", "%", ", ,"}))...)
			case 5:
				b = append([]byte(vgen.Pick(r, []string{",", "=", "novalue,", "=v,", " , "})), b...)
			}
		}
		for i := range b {
			if b[i] == 0 {
				b[i] = '0'
			}
		}
		c.attrs = string(b)
		c.unsetAttrs = false
	}
	return c
}

func main() {
	child := flag.Bool("child", false, "environment scenario child: variables come from the process environment")
	childBatch := flag.Bool("child-batch", false, "environment scenario child: scenarios on stdin, applied with os.Setenv")
	if len(os.Args) > 1 && (os.Args[1] == "-child" || os.Args[1] == "-child-batch") {
		flag.Parse()
		childMain(*childBatch)
		return
	}
	_ = child
	o := vgen.ParseFlags()
	r := vgen.NewRand(o.Seed)
	w := vgen.NewWriter(o.Out, "C05.Types C05.Spec C05.Model C19.Spec C19.Model C19.Corr", "case", 120)
	w.Rule = "pairs and triples of resources (nil, Empty(), 0-12 attributes from a small colliding key pool, and one in six with 13-60 entries = 2-8 keys each repeated 2-7 times in random interleaving with a distinct value per occurrence incl. empty keys and invalid values, schema URLs from {\"\", a, b, semconv}), " +
		"equality probes, OTEL_RESOURCE_ATTRIBUTES / OTEL_SERVICE_NAME strings rendered from key/value pairs (0-6, one in five 13-60 with heavily repeated keys) with random whitespace (ASCII and Unicode) and random percent-escapes plus byte-level mutations (run in re-exec'd children), " +
		"scripted detector lists (absent, nil resource, partial and other errors, WithAttributes options, initial schema URL); " +
		"non-trivial = operands share a key / schema URLs differ / the env string has a pair / a detector errs; distinct = distinct Coq case terms"

	guard := func(desc any, f func()) {
		defer func() {
			if e := recover(); e != nil {
				w.Violation(fmt.Sprintf("panic: %v", e), desc)
			}
		}()
		f()
	}
	mapHit := func(a, b *resource.Resource) bool {
		m := map[attribute.Distinct]int{a.Equivalent(): 1}
		_, ok := m[b.Equivalent()]
		return ok
	}
	shares := func(a, b robs) bool {
		for _, x := range a.attrs {
			for _, y := range b.attrs {
				if x.k == y.k {
					return true
				}
			}
		}
		return false
	}

	// --- CBuild ---
	addBuild := func(d rdesc) {
		desc := map[string]any{"op": "build", "resource": d.desc()}
		guard(desc, func() {
			res := d.build()
			o := observe(res)
			if res.Len() != len(o.attrs) {
				w.Violation("Len() disagrees with Attributes()", desc)
			}
			enc := res.Encoded(attribute.DefaultEncoder())
			if res.String() != enc || res.Set().Encoded(attribute.DefaultEncoder()) != enc {
				w.Violation("String() / Encoded(DefaultEncoder()) / Set().Encoded disagree", desc)
			}
			if !observe(res).same(robs{attrs: fromAttrs(res.Set().ToSlice()), schema: res.SchemaURL()}) || (res.Equal(res) && res.Set().Equivalent() != res.Equivalent()) {
				w.Violation("Set() disagrees with Attributes() / Equivalent()", desc)
			}
			var walked []attribute.KeyValue
			for wi := res.Iter(); wi.Next() && len(walked) <= len(o.attrs); {
				walked = append(walked, wi.Attribute())
			}
			if !observe(res).same(robs{attrs: fromAttrs(walked), schema: res.SchemaURL()}) {
				w.Violation("Iter() walk disagrees with Attributes()", desc)
			}
			if j1, e1 := res.MarshalJSON(); e1 == nil {
				j2, _ := res.Set().MarshalJSON()
				if string(j1) != string(j2) {
					w.Violation("Resource.MarshalJSON differs from its Set's", desc)
				}
			}
			if res != nil && res.MarshalLog() == nil { // (nil *Resource).MarshalLog() dereferences nil: outside the property, see notes
				w.Violation("MarshalLog returned nil", desc)
			}
			it := res.Iter()
			if it.Len() != len(o.attrs) {
				w.Violation("Iter().Len() disagrees with Attributes()", desc)
			}
			desc["observed"] = o.desc()
			retainRes("built Resource (Attributes / Encoded / String / Equivalent)", desc, res)
			w.Tally(fmt.Sprintf("build:kind=%d", d.kind))
			if len(d.input) > 12 {
				w.Tally("build:input>12-entries")
			}
			w.Add(vgen.App("CBuild", d.coq(), o.coq()), desc, "build", len(d.input) > len(o.attrs))
		})
	}
	addMerge2 := func(da, db rdesc, kind string) {
		desc := map[string]any{"op": "Merge", "a": da.desc(), "b": db.desc()}
		guard(desc, func() {
			a, b := da.build(), db.build()
			oa, ob := observe(a), observe(b)
			m, err := resource.Merge(a, b)
			if m == nil {
				w.Violation("Merge returned a nil resource", desc)
				return
			}
			if !observe(a).same(oa) || !observe(b).same(ob) {
				w.Violation("Merge altered an operand", desc)
			}
			om := observe(m)
			retainRes("Merge result", desc, m)
			retainRes("Merge operand a", desc, a)
			retainRes("Merge operand b", desc, b)
			desc["merged"] = om.desc()
			desc["err"] = fmt.Sprint(err)
			w.Tally(fmt.Sprintf("merge2:%s:err=%d", kind, mergeErr(err)))
			if len(da.input) > 12 || len(db.input) > 12 {
				w.Tally("merge2:operand>12-entries")
			}
			w.Add(vgen.App("CMerge2", da.coq(), db.coq(), oa.coq(), ob.coq(), om.coq(), vgen.N(mergeErr(err))), desc, "merge2",
				shares(oa, ob) || oa.schema != ob.schema)
		})
	}
	maxU := func(a, b uint64) uint64 {
		if a > b {
			return a
		}
		return b
	}
	addMerge3 := func(da, db, dc rdesc) {
		desc := map[string]any{"op": "Merge3", "a": da.desc(), "b": db.desc(), "c": dc.desc()}
		guard(desc, func() {
			a, b, c := da.build(), db.build(), dc.build()
			ab, e1 := resource.Merge(a, b)
			abc, e2 := resource.Merge(ab, c)
			bc, e3 := resource.Merge(b, c)
			abc2, e4 := resource.Merge(a, bc)
			l, rr := observe(abc), observe(abc2)
			desc["left"] = l.desc()
			desc["right"] = rr.desc()
			w.Tally(fmt.Sprintf("merge3:conflict-left=%v", mergeErr(e1) == 1 || mergeErr(e2) == 1))
			w.Add(vgen.App("CMerge3", da.coq(), db.coq(), dc.coq(), observe(a).coq(), observe(b).coq(), observe(c).coq(), l.coq(), rr.coq(),
				vgen.N(maxU(mergeErr(e1), mergeErr(e2))), vgen.N(maxU(mergeErr(e3), mergeErr(e4)))), desc, "merge3", true)
		})
	}
	addEqual := func(da, db rdesc, kind string) {
		desc := map[string]any{"op": "Equal", "a": da.desc(), "b": db.desc(), "how": kind}
		guard(desc, func() {
			a, b := da.build(), db.build()
			e12, e21, k12 := a.Equal(b), b.Equal(a), mapHit(a, b)
			desc["equal"] = e12
			w.Tally(fmt.Sprintf("equal:%s=%v", kind, e12))
			w.Add(vgen.App("CEqual", da.coq(), db.coq(), observe(a).coq(), observe(b).coq(), vgen.Bool(e12), vgen.Bool(e21), vgen.Bool(k12)), desc, "equal", true)
		})
	}

	// ---- fixed corpus ----
	A := rdesc{kind: 2, schema: "https://a", input: []kvt{{"k", val{t: 4, s: "1"}}, {"only.a", val{t: 2, n: 1}}}}
	B := rdesc{kind: 2, schema: "https://b", input: []kvt{{"k", val{t: 4, s: "2"}}, {"only.b", val{t: 1, b: true}}}}
	E := rdesc{kind: 1}
	NIL := rdesc{kind: 0}
	S := rdesc{kind: 2, schema: "", input: []kvt{{"k", val{t: 4, s: "3"}}, {"", val{t: 4, s: "nokey"}}, {"bad", val{}}}}
	U := rdesc{kind: 2, schema: "https://a", input: nil} // schema URL only
	for _, p := range [][2]rdesc{{A, B}, {B, A}, {A, A}, {A, E}, {E, A}, {A, NIL}, {NIL, A}, {NIL, NIL}, {E, E}, {NIL, E}, {A, S}, {S, A}, {S, S}, {U, B}, {B, U}, {U, S}, {U, U}, {U, E}, {E, U}} {
		addMerge2(p[0], p[1], "corpus")
	}
	for _, v := range nearEqual["https://a"] { // differ only by case / slash / escaping: still a conflict, attributes kept
		Av := A
		Av.schema = v
		addMerge2(A, Av, "corpus-near-equal-url")
		addMerge2(Av, A, "corpus-near-equal-url")
	}
	{
		Av, Bv := A, B
		Av.schema, Bv.schema = "https://opentelemetry.io/schemas/1.26.0", "https://opentelemetry.io/Schemas/1.26.0"
		addMerge2(Av, Bv, "corpus-near-equal-url")
		addMerge3(Av, Bv, S)
		addMerge3(S, Av, Bv)
	}
	allBad := []kvt{{"", val{t: 4, s: "nokey"}}, {"bad", val{}}, {"", val{}}}
	V0 := rdesc{kind: 2, schema: "", input: allBad}          // every key-value invalid: the empty resource
	V1 := rdesc{kind: 2, schema: "https://a", input: allBad} // ... with a schema URL: only the URL remains
	V2 := rdesc{kind: 2, schema: "", input: []kvt{{"k", val{t: 4, s: "ok"}}, {"k", val{}}}} // valid then invalid: the key goes
	for _, d := range []rdesc{V0, V1, V2} {
		addBuild(d)
		addMerge2(A, d, "corpus-invalid")
		addMerge2(d, B, "corpus-invalid")
		addEqual(d, E, "corpus-invalid-vs-empty")
	}
	guard("nil *Resource", func() {
		var np *resource.Resource
		if np.String() != "" || np.Encoded(attribute.DefaultEncoder()) != "" || np.Len() != 0 || np.SchemaURL() != "" || len(np.Attributes()) != 0 ||
			np.Set() == nil || np.Set().Len() != 0 || !np.Equal(resource.Empty()) || !resource.Empty().Equal(np) || np.Equivalent() != resource.Empty().Equivalent() {
			w.Violation("nil *Resource does not behave as the empty resource", "nil Resource")
		}
		it := np.Iter()
		if it.Next() {
			w.Violation("nil *Resource iterates", "nil Resource")
		}
		if b, err := np.MarshalJSON(); err != nil || string(b) != "[]" && string(b) != "null" {
			w.Violation(fmt.Sprintf("nil *Resource MarshalJSON = %q, %v", b, err), "nil Resource")
		}
	})
	for _, d := range []rdesc{A, B, E, NIL, S, U} {
		addBuild(d)
	}
	addMerge3(A, B, S)
	addMerge3(A, B, rdesc{kind: 2, schema: "https://c", input: []kvt{{"k", val{t: 4, s: "9"}}}})
	addMerge3(NIL, A, NIL)
	addEqual(A, rdesc{kind: 2, schema: "https://other", input: []kvt{{"only.a", val{t: 2, n: 1}}, {"k", val{t: 4, s: "0"}}, {"k", val{t: 4, s: "1"}}}}, "corpus-same-attrs-other-schema")
	addEqual(NIL, E, "corpus-nil-empty")
	addEqual(A, B, "corpus-different")

	// ---- generated ----
	nBuild := o.Count(150, 3000)
	for i := 0; i < nBuild; i++ {
		addBuild(genRes(r))
	}
	nM2 := o.Count(450, 9000)
	for i := 0; i < nM2; i++ {
		a, b := genRes(r), genRes(r)
		kind := "random"
		switch r.Intn(8) {
		case 0:
			b = a
			kind = "same"
		case 1:
			b = rdesc{kind: r.Intn(2)}
			kind = "unit-right"
		case 2:
			a = rdesc{kind: r.Intn(2)}
			kind = "unit-left"
		case 3: // heavy overlap
			if a.kind == 2 && len(a.input) > 0 {
				b = rdesc{kind: 2, schema: genSchema(r), input: append(genAttrs(r, 2), a.input[:r.Intn(len(a.input))+1]...)}
				for j := range b.input {
					if r.Bool() {
						b.input[j].v = genVal(r)
					}
				}
				kind = "overlap"
			}
		}
		addMerge2(a, b, kind)
	}
	nM3 := o.Count(300, 6000)
	for i := 0; i < nM3; i++ {
		addMerge3(genRes(r), genRes(r), genRes(r))
	}
	nEq := o.Count(200, 4000)
	for i := 0; i < nEq; i++ {
		a := genRes(r)
		b := genRes(r)
		kind := "random"
		if r.Chance(2, 3) && a.kind == 2 {
			// same attributes in another order, other schema URL; sometimes one value changed
			in := append([]kvt(nil), a.input...)
			seen := map[string]bool{}
			var fin []kvt
			for j := len(in) - 1; j >= 0; j-- {
				if !seen[in[j].k] {
					seen[in[j].k] = true
					fin = append(fin, in[j])
				}
			}
			kind = "reordered"
			if r.Chance(1, 3) && len(fin) > 0 {
				j := r.Intn(len(fin))
				fin[j].v = genVal(r)
				kind = "revalued"
			}
			b = rdesc{kind: 2, schema: genSchema(r), input: fin}
		}
		addEqual(a, b, kind)
	}

	// --- CDetect ---
	builtins := probeBuiltins()
	{
		var names []string
		for _, b := range builtins {
			names = append(names, b.name)
		}
		w.Extra["builtin_options_usable"] = names
	}
	nDet := o.Count(300, 6000)
	for i := 0; i < nDet; i++ {
		n := vgen.Pick(r, []int{0, 1, 2, 2, 3, 3, 4, 5, 6})
		s0 := vgen.Pick(r, []string{"", "", "https://a", "https://b", "https://A", "https://a/"})
		var ds []ddesc
		for j := 0; j < n; j++ {
			d := ddesc{res: genRes(r)}
			switch r.Intn(10) {
			case 0:
				d.absent = true
			case 1, 2:
				d.err = 1
			case 3, 4:
				d.err = 2
			}
			if r.Chance(1, 2) && d.res.kind == 2 { // most detectors agree on the schema URL, so that not every run ends in a conflict
				d.res.schema = vgen.Pick(r, []string{"", "https://a", "https://a", "https://a", "https://A", "https://a/", "https://%61"})
			}
			if !d.absent && d.err == 0 && d.res.kind == 2 && d.res.schema == "" && r.Bool() {
				d.viaOpt = true
			}
			switch x := r.Intn(14); {
			case x < 2 && len(builtins) > 0: // an option of config.go with a built-in detector
				b := vgen.Pick(r, builtins)
				d = ddesc{res: b.res, name: b.name, custom: func(error) (resource.Option, resource.Detector) { return b.opt(), nil }}
			case x < 4: // resource.StringDetector: value, failing function, or empty key
				schema, key, v := vgen.Pick(r, []string{"", "https://a", "https://a", "https://A"}), vgen.Pick(r, keyPool), vgen.Pick(r, strPool)
				fail := r.Chance(1, 4)
				d = ddesc{name: fmt.Sprintf("StringDetector(%q,%q,%q,fail=%v)", schema, key, v, fail)}
				switch {
				case fail:
					d.res, d.err = rdesc{kind: 0}, 2
				case key == "":
					d.res, d.err, d.invalidKey = rdesc{kind: 0}, 2, true
				default:
					d.res = rdesc{kind: 2, schema: schema, input: []kvt{{key, val{t: 4, s: v}}}}
				}
				d.custom = func(sentinel error) (resource.Option, resource.Detector) {
					det := resource.StringDetector(schema, attribute.Key(key), func() (string, error) {
						if fail {
							return v, sentinel
						}
						return v, nil
					})
					return resource.WithDetectors(det), det
				}
			}
			ds = append(ds, d)
		}
		if n >= 1 && r.Chance(1, 3) { // X, Y, X: the same (comparable) detector value / option listed again after another one overrode its keys
			i := r.Intn(n)
			x := ds[i]
			if !x.absent {
				x.viaOpt = false // a scripted struct value (pointer + error) is comparable; WithAttributes' detector is not
				ds[i] = x
				over := observe(x.res.build()).attrs
				if len(over) > 2 {
					over = over[:2]
				}
				y := ddesc{res: rdesc{kind: 2, schema: x.res.schema}}
				for _, a := range over {
					y.res.input = append(y.res.input, kvt{k: a.k, v: val{t: 4, s: "overridden-in-between"}})
				}
				y.res.input = append(y.res.input, kvt{k: "between", v: val{t: 1, b: true}})
				y.viaOpt = y.res.schema == "" && r.Bool()
				again := x
				again.same = i + 1
				nds := append([]ddesc(nil), ds[:i+1]...)
				nds = append(nds, y, again)
				if r.Bool() && i+1 < len(ds) {
					nds = append(nds, ds[i+1:]...)
				}
				ds = nds
				n = len(ds)
				w.Tally("detect:same-detector-listed-again")
			}
		}
		desc := map[string]any{"op": "detect", "schema": s0}
		guard(desc, func() {
			var opts []resource.Option
			var dets []resource.Detector
			detOK := true
			sentinels := make([]error, len(ds))
			var dobs, dcoq, ddescs []string
			type builtDet struct {
				opt resource.Option
				det resource.Detector
				ok  bool // det usable with resource.Detect
			}
			built := make([]builtDet, len(ds))
			for j, d := range ds {
				sentinels[j] = fmt.Errorf("detector %d failed", j)
				dcoq = append(dcoq, d.coq())
				if d.same > 0 && !d.absent { // the very same value again
					o := d.same - 1
					sentinels[j] = sentinels[o]
					dobs = append(dobs, dobs[o])
					ddescs = append(ddescs, "same as #"+fmt.Sprint(o))
					built[j] = built[o]
					opts = append(opts, built[o].opt)
					if built[o].ok {
						dets = append(dets, built[o].det)
					}
					continue
				}
				if d.absent {
					opts = append(opts, resource.WithDetectors(resource.Detector(nil)))
					dets = append(dets, nil)
					dobs = append(dobs, vgen.Pair("[]", "[]"))
					ddescs = append(ddescs, "absent")
					continue
				}
				res := d.res.build()
				dobs = append(dobs, observe(res).coq())
				ddescs = append(ddescs, fmt.Sprintf("%v err=%d", d.res.desc(), d.err))
				var e error
				switch d.err {
				case 1:
					e = fmt.Errorf("%w: %w", resource.ErrPartialResource, sentinels[j])
				case 2:
					e = sentinels[j]
				}
				if d.custom != nil {
					ddescs[len(ddescs)-1] = d.name
					w.Tally("detect:kind=" + strings.SplitN(d.name, "(", 2)[0])
					opt, det := d.custom(sentinels[j])
					opts = append(opts, opt)
					built[j] = builtDet{opt, det, det != nil}
					if det != nil {
						dets = append(dets, det)
					} else {
						detOK = false
					}
				} else if d.viaOpt {
					opt := resource.WithAttributes(toAttrs(d.res.input)...)
					opts = append(opts, opt)
					built[j] = builtDet{opt, nil, false}
					detOK = false
				} else {
					sd := scripted{res, e}
					opts = append(opts, resource.WithDetectors(sd))
					dets = append(dets, sd)
					built[j] = builtDet{resource.WithDetectors(sd), sd, true}
				}
			}
			desc["detectors"] = ddescs
			var res *resource.Resource
			var err error
			useDetect := s0 == "" && detOK && len(dets) == len(ds) && r.Bool()
			if useDetect {
				res, err = resource.Detect(context.Background(), dets...)
			} else {
				res, err = resource.New(context.Background(), append([]resource.Option{resource.WithSchemaURL(s0)}, opts...)...)
			}
			if res == nil {
				w.Violation("detect returned a nil resource", desc)
				return
			}
			ob := observe(res)
			retainRes("New / Detect result", desc, res)
			errs := make([]string, len(ds))
			anyErr := false
			for j := range ds {
				hit := err != nil && errors.Is(err, sentinels[j])
				if ds[j].invalidKey {
					hit = err != nil && strings.Contains(err.Error(), "invalid attribute")
				}
				errs[j] = vgen.Bool(hit)
				anyErr = anyErr || hit
			}
			conflict := err != nil && errors.Is(err, resource.ErrSchemaURLConflict)
			partial := err != nil && errors.Is(err, resource.ErrPartialResource)
			if (err != nil) != (anyErr || conflict) {
				w.Violation("detect returned an error that names neither a detector error nor a schema conflict (or dropped one)", desc)
			}
			desc["observed"] = ob.desc()
			desc["err"] = fmt.Sprint(err)
			w.Tally(fmt.Sprintf("detect:n=%d", n))
			for _, d := range ds {
				if !d.absent && len(d.res.input) > 12 {
					w.Tally("detect:detector-output>12-entries")
					break
				}
			}
			w.Tally(fmt.Sprintf("detect:conflict=%v", conflict))
			w.Tally(fmt.Sprintf("detect:via=%s", map[bool]string{true: "Detect", false: "New"}[useDetect]))
			w.Add(vgen.App("CDetect", vgen.HxS(s0), vgen.List(dcoq), vgen.List(dobs), ob.coq(), vgen.Bool(conflict), vgen.Bool(partial), vgen.List(errs)),
				desc, "detect", anyErr || conflict)
		})
	}

	// --- CEnv (children) ---
	envCorpus := []envCase{
		{attrs: "a=1,b=2", unsetSvc: true, intent: true, pairs: [][2]string{{"a", "1"}, {"b", "2"}}, kind: "env-corpus"},
		{attrs: "service.name=fromattrs,a=1", svc: " svc ", intent: true, pairs: [][2]string{{"service.name", "fromattrs"}, {"a", "1"}}, svcClean: "svc", kind: "env-corpus"},
		{attrs: "a=1%2C2, b = x%ZZ,novalue,  =v", svc: "", kind: "env-corpus"},
		{attrs: "a=%", unsetSvc: true, kind: "env-corpus"},
		{attrs: "a=%4", unsetSvc: true, kind: "env-corpus"},
		{attrs: "a=%41%", unsetSvc: true, kind: "env-corpus"},
		{attrs: "a=b=c", unsetSvc: true, intent: true, pairs: [][2]string{{"a", "b=c"}}, kind: "env-corpus"},
		{attrs: "a=1,a=2", unsetSvc: true, intent: true, pairs: [][2]string{{"a", "1"}, {"a", "2"}}, kind: "env-corpus"},
		{attrs: ",", unsetSvc: true, kind: "env-corpus"},
		{attrs: "  ", svc: "  ", intent: true, kind: "env-corpus"},
		{unsetAttrs: true, unsetSvc: true, intent: true, kind: "env-corpus"},
		{unsetAttrs: true, svc: "only-name", intent: true, svcClean: "only-name", kind: "env-corpus"},
		{attrs: "a=\"v\"", unsetSvc: true, intent: true, pairs: [][2]string{{"a", "\"v\""}}, kind: "env-corpus"},
		{attrs: "\"a\"=v'", svc: "'name'", intent: true, pairs: [][2]string{{"\"a\"", "v'"}}, svcClean: "'name'", kind: "env-corpus"},
		{attrs: "'a=1,b=2'", svc: "\"n", intent: true, pairs: [][2]string{{"'a", "1"}, {"b", "2'"}}, svcClean: "\"n", kind: "env-corpus"},
		{attrs: "`a`=[v],(b)={w}\\", unsetSvc: true, intent: true, pairs: [][2]string{{"`a`", "[v]"}, {"(b)", "{w}\\"}}, kind: "env-corpus"},
		{attrs: "a=+%2B", unsetSvc: true, intent: true, pairs: [][2]string{{"a", "++"}}, kind: "env-corpus"},
		{attrs: "\xc2\xa0a\xe3\x80\x80=\xc2\x85v\xe2\x80\x83", unsetSvc: true, intent: true, pairs: [][2]string{{"a", "v"}}, kind: "env-corpus"},
		{attrs: "a=\xa0v\xa0", unsetSvc: true, intent: true, pairs: [][2]string{{"a", "\xa0v\xa0"}}, kind: "env-corpus"},
		{attrs: "a=%C2%A0", unsetSvc: true, intent: true, pairs: [][2]string{{"a", "\xc2\xa0"}}, kind: "env-corpus"},
	}
	cases := append([]envCase(nil), envCorpus...)
	nEnv := o.Count(500, 8000)
	for i := 0; i < nEnv; i++ {
		cases = append(cases, genEnvCase(r))
	}
	results := make([]envResult, len(cases))
	errsC := make([]error, len(cases))
	nSingle := len(envCorpus) + 8 // these get their variables through the real process environment
	if nSingle > len(cases) {
		nSingle = len(cases)
	}
	var wg sync.WaitGroup
	sem := make(chan struct{}, 12)
	for i := 0; i < nSingle; i++ {
		wg.Add(1)
		sem <- struct{}{}
		go func(i int) {
			defer wg.Done()
			defer func() { <-sem }()
			results[i], errsC[i] = runChildSingle(cases[i])
		}(i)
	}
	const batch = 50
	for lo := nSingle; lo < len(cases); lo += batch {
		hi := lo + batch
		if hi > len(cases) {
			hi = len(cases)
		}
		wg.Add(1)
		sem <- struct{}{}
		go func(lo, hi int) {
			defer wg.Done()
			defer func() { <-sem }()
			rs, err := runChildBatch(cases[lo:hi])
			for i := lo; i < hi; i++ {
				if i-lo < len(rs) {
					results[i] = rs[i-lo]
				} else {
					errsC[i] = fmt.Errorf("no answer (%v)", err)
				}
			}
		}(lo, hi)
	}
	wg.Wait()
	for i, c := range cases {
		desc := map[string]any{"op": "env", "OTEL_RESOURCE_ATTRIBUTES": c.attrs, "OTEL_SERVICE_NAME": c.svc, "unset_attrs": c.unsetAttrs, "unset_svc": c.unsetSvc, "how": c.kind}
		if errsC[i] != nil {
			w.Violation("environment child crashed or hung: "+errsC[i].Error(), desc)
			continue
		}
		res := results[i]
		if res.Panicked != "" {
			w.Violation("panic: "+res.Panicked, desc)
			continue
		}
		if !res.EnvSame {
			w.Violation("resource.Environment() differs from New(WithFromEnv())", desc)
		}
		if res.Repeat != "" {
			w.Violation("New(WithFromEnv(), WithAttributes(...), WithFromEnv()): "+res.Repeat, desc)
		}
		if res.Default != "" {
			w.Violation("resource.Default(): "+res.Default, desc)
		}
		var attrs []kvt
		for _, a := range res.Attrs {
			k, _ := hex.DecodeString(a.K)
			v, _ := hex.DecodeString(a.V)
			if a.T == 4 {
				attrs = append(attrs, kvt{k: string(k), v: val{t: 4, s: string(v)}})
			} else {
				attrs = append(attrs, kvt{k: string(k), v: val{t: a.T}}) // not a string: reported by the spec check
			}
		}
		schema, _ := hex.DecodeString(res.Schema)
		ob := robs{attrs: attrs, schema: string(schema)}
		intent := vgen.None
		if c.intent {
			var ps []string
			for _, p := range c.pairs {
				ps = append(ps, vgen.Pair(vgen.HxS(p[0]), vgen.HxS(p[1])))
			}
			intent = vgen.Some(vgen.Pair(vgen.List(ps), vgen.HxS(c.svcClean)))
			desc["pairs"] = c.pairs
		}
		desc["observed"] = ob.desc()
		desc["err"] = res.ErrText
		w.Tally(fmt.Sprintf("env:%s:err=%d", c.kind, res.Err))
		w.Tally(fmt.Sprintf("env:attrs=%d", len(attrs)))
		w.Add(vgen.App("CEnv", vgen.HxS(c.attrs), vgen.HxS(c.svc), intent, ob.coq(), vgen.N(uint64(res.Err))), desc, c.kind, len(c.pairs) > 0 || !c.intent)
	}
	w.Extra["env_children"] = map[string]int{"own_process_environment": nSingle, "batched_setenv": len(cases) - nSingle}

	changed := 0
	for _, rv := range retained {
		ok := false
		guard(rv.desc, func() { ok = rv.same() })
		if !ok {
			if changed < 20 {
				w.Violation("a value returned earlier changed after later calls: "+rv.what, rv.desc)
			}
			changed++
		}
	}
	w.Extra["retained_values_reverified"] = len(retained)
	if err := w.Flush(); err != nil {
		fmt.Fprintln(os.Stderr, err)
		os.Exit(2)
	}
}
