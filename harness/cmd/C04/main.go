// C04 harness: sdk/trace recording span (attributes, events, links, status,
// name, End, truncation) vs the Coq model and specification.
package main

import (
	"context"
	"errors"
	"fmt"
	"math"
	"os"
	"strings"
	"time"

	"go.opentelemetry.io/otel/attribute"
	"go.opentelemetry.io/otel/codes"
	sdktrace "go.opentelemetry.io/otel/sdk/trace"
	"go.opentelemetry.io/otel/sdk/trace/tracetest"
	"go.opentelemetry.io/otel/trace"

	"verif/harness/vgen"
)

// ---------------------------------------------------------------- inputs

type limits struct{ Len, Attrs, Events, Links, EvAttrs, LkAttrs int }

func (l limits) coq() string {
	return vgen.App("L", vgen.Z(int64(l.Len)), vgen.Z(int64(l.Attrs)), vgen.Z(int64(l.Events)),
		vgen.Z(int64(l.Links)), vgen.Z(int64(l.EvAttrs)), vgen.Z(int64(l.LkAttrs)))
}

func (l limits) sdk() sdktrace.SpanLimits {
	return sdktrace.SpanLimits{AttributeValueLengthLimit: l.Len, AttributeCountLimit: l.Attrs, EventCountLimit: l.Events,
		LinkCountLimit: l.Links, AttributePerEventCountLimit: l.EvAttrs, AttributePerLinkCountLimit: l.LkAttrs}
}

type hErr struct{ msg string }

func (e hErr) Error() string { return e.msg }

type opKind int

const (
	kSetAttrs opKind = iota
	kAddEvent
	kRecordError
	kAddLink
	kSetStatus
	kSetName
	kEnd
	kRead      // read the live span through its ReadOnlySpan accessors
	kEndPanic  // End() as a deferred call while panicking with Name (Custom: an error value)
	kRecordNil // RecordError(nil): no effect
)

type op struct {
	Kind   opKind
	Attrs  []attribute.KeyValue
	Attrs2 []attribute.KeyValue // a second WithAttributes option (events)
	Name   string               // event name / span name / status description / error message
	TS     int64
	Custom bool // RecordError: custom error type
	Wrap   bool // RecordError: fmt.Errorf("%w") wrapper type
	Stack  bool // RecordError / End while panicking: WithStackTrace(true)
	Ctx    int  // link span-context tag (0 = invalid)
	HasTS  bool
	Code   codes.Code
}

func coqValue(v attribute.Value) string {
	switch v.Type() {
	case attribute.BOOL:
		return vgen.App("VBool", vgen.Bool(v.AsBool()))
	case attribute.INT64:
		return vgen.App("VInt", vgen.Z(v.AsInt64()))
	case attribute.FLOAT64:
		return vgen.App("VFloat", vgen.N(math.Float64bits(v.AsFloat64())))
	case attribute.STRING:
		return vgen.App("VStr", vgen.HxS(v.AsString()))
	case attribute.STRINGSLICE:
		var it []string
		for _, s := range v.AsStringSlice() {
			it = append(it, vgen.HxS(s))
		}
		return vgen.App("VStrs", vgen.List(it))
	case attribute.INVALID:
		return "VInvalid"
	default:
		return vgen.App("VOther", vgen.N(uint64(v.Type())), vgen.HxS(v.Emit()))
	}
}

func coqKVs(kvs []attribute.KeyValue) string {
	it := make([]string, 0, len(kvs))
	for _, a := range kvs {
		it = append(it, vgen.Pair(vgen.HxS(string(a.Key)), coqValue(a.Value)))
	}
	return vgen.List(it)
}

const (
	errStringType   = "*errors.errorString"
	errCustomType   = "main.hErr"
	errWrapType     = "*fmt.wrapError"
	panicStringType = ".string" // typeStr of a string panic value: PkgPath "" + "." + Name "string"
)

func (o op) errType() string {
	switch {
	case o.Kind == kEndPanic && !o.Custom:
		return panicStringType
	case o.Custom:
		return errCustomType
	case o.Wrap:
		return errWrapType
	}
	return errStringType
}

// coqOps: the model-level calls this harness op stands for (RecordError(nil) stands for none).
func (o op) coqOps() []string {
	switch o.Kind {
	case kRecordNil:
		return nil
	case kRead:
		return []string{"ORead"}
	case kEndPanic:
		return []string{vgen.App("OEndPanic", vgen.HxS(o.errType()), vgen.HxS(o.Name), vgen.Bool(o.Stack), vgen.N(uint64(o.TS)))}
	}
	return []string{o.coq()}
}

func (o op) coq() string {
	switch o.Kind {
	case kSetAttrs:
		return vgen.App("OSetAttrs", coqKVs(o.Attrs))
	case kAddEvent:
		return vgen.App("OAddEvent", vgen.HxS(o.Name), vgen.N(uint64(o.TS)), coqKVs(append(append([]attribute.KeyValue{}, o.Attrs...), o.Attrs2...)))
	case kRecordError:
		return vgen.App("ORecordError", vgen.HxS(o.errType()), vgen.HxS(o.Name), vgen.N(uint64(o.TS)), coqKVs(o.Attrs), vgen.Bool(o.Stack))
	case kAddLink:
		return vgen.App("OAddLink", vgen.N(uint64(o.Ctx)), vgen.Bool(o.HasTS), coqKVs(o.Attrs))
	case kSetStatus:
		return vgen.App("OSetStatus", vgen.N(uint64(o.Code)), vgen.HxS(o.Name))
	case kSetName:
		return vgen.App("OSetName", vgen.HxS(o.Name))
	}
	return vgen.App("OEnd", vgen.N(uint64(o.TS)))
}

func (o op) String() string {
	switch o.Kind {
	case kSetAttrs:
		return fmt.Sprintf("SetAttributes(%s)", descKVs(o.Attrs))
	case kAddEvent:
		return fmt.Sprintf("AddEvent(%q, ts=%d, %s, %s)", o.Name, o.TS, descKVs(o.Attrs), descKVs(o.Attrs2))
	case kRecordError:
		return fmt.Sprintf("RecordError(%q type=%s stacktrace=%v, ts=%d, %s)", o.Name, o.errType(), o.Stack, o.TS, descKVs(o.Attrs))
	case kRead:
		return "read live span: Attributes() Events() Links() Status() Name()"
	case kEndPanic:
		return fmt.Sprintf("defer End(ts=%d stacktrace=%v) while panicking with %q (type %s)", o.TS, o.Stack, o.Name, o.errType())
	case kRecordNil:
		return "RecordError(nil)"
	case kAddLink:
		return fmt.Sprintf("AddLink(ctx=%d tracestate=%v %s)", o.Ctx, o.HasTS, descKVs(o.Attrs))
	case kSetStatus:
		return fmt.Sprintf("SetStatus(%d, %q)", o.Code, o.Name)
	case kSetName:
		return fmt.Sprintf("SetName(%q)", o.Name)
	}
	if o.TS != 0 {
		return fmt.Sprintf("End(WithTimestamp(%d))", o.TS)
	}
	return "End()"
}

func descKVs(kvs []attribute.KeyValue) string {
	var sb strings.Builder
	sb.WriteByte('[')
	for i, a := range kvs {
		if i > 0 {
			sb.WriteByte(' ')
		}
		if i >= 12 {
			fmt.Fprintf(&sb, "…+%d", len(kvs)-i)
			break
		}
		if a.Value.Type() == attribute.INVALID {
			fmt.Fprintf(&sb, "%q=INVALID", string(a.Key))
		} else {
			fmt.Fprintf(&sb, "%q=%q", string(a.Key), a.Value.Emit())
		}
	}
	sb.WriteByte(']')
	return sb.String()
}

func linkCtx(tag int, ts bool) trace.SpanContext {
	cfg := trace.SpanContextConfig{}
	if tag != 0 {
		cfg.TraceID[15] = byte(tag)
		cfg.TraceID[0] = 0xAA
		cfg.SpanID[7] = byte(tag)
	}
	if ts {
		st, _ := trace.ParseTraceState("k=v")
		cfg.TraceState = st
	}
	return trace.NewSpanContext(cfg)
}

// startOpts are the Tracer.Start options that seed the span.
type startOpts struct {
	SAttrs        []attribute.KeyValue // attributes returned by the sampler
	Attrs, Attrs2 []attribute.KeyValue // one or two WithAttributes options
	Links         []op                 // kAddLink entries, passed through WithLinks
	TS            int64                // WithTimestamp (0: not given)
	Kind          int                  // WithSpanKind value (-1: option not given)
}

func (so startOpts) coq() string {
	var lks []string
	for _, l := range so.Links {
		lks = append(lks, "("+vgen.N(uint64(l.Ctx))+", "+vgen.Bool(l.HasTS)+", "+coqKVs(l.Attrs)+")")
	}
	kind := so.Kind
	if kind < 0 {
		kind = 0 // no option: SpanKindUnspecified
	}
	return vgen.App("S", coqKVs(so.SAttrs), coqKVs(append(append([]attribute.KeyValue{}, so.Attrs...), so.Attrs2...)), vgen.List(lks), vgen.N(uint64(so.TS)), vgen.N(uint64(kind)))
}

func (so startOpts) String() string {
	var lk []string
	for _, l := range so.Links {
		lk = append(lk, l.String())
	}
	return fmt.Sprintf("Start(sampler attributes %s; WithAttributes%s WithAttributes%s WithLinks[%s] WithTimestamp(%d) WithSpanKind(%d))",
		descKVs(so.SAttrs), descKVs(so.Attrs), descKVs(so.Attrs2), strings.Join(lk, " "), so.TS, so.Kind)
}

func (so startOpts) options() []trace.SpanStartOption {
	var out []trace.SpanStartOption
	if so.Attrs != nil {
		out = append(out, trace.WithAttributes(cloneKVs(so.Attrs)...))
	}
	if len(so.Links) > 0 {
		var ls []trace.Link
		for _, l := range so.Links {
			ls = append(ls, trace.Link{SpanContext: linkCtx(l.Ctx, l.HasTS), Attributes: cloneKVs(l.Attrs)})
		}
		out = append(out, trace.WithLinks(ls...))
	}
	if so.Attrs2 != nil {
		out = append(out, trace.WithAttributes(cloneKVs(so.Attrs2)...))
	}
	if so.TS != 0 {
		out = append(out, trace.WithTimestamp(time.Unix(0, so.TS)))
	}
	if so.Kind >= 0 {
		out = append(out, trace.WithSpanKind(trace.SpanKind(so.Kind)))
	}
	return out
}

// instant canonicalises a time: instants the harness supplied are within the
// first millisecond after the epoch and are compared; wall-clock values are not (0).
func instant(t time.Time) uint64 {
	n := t.UnixNano()
	if n > 0 && n < 1_000_000 {
		return uint64(n)
	}
	return 0
}

// ---------------------------------------------------------------- driving the SDK

type export struct {
	Name      string
	Code      codes.Code
	Desc      string
	Attrs     []attribute.KeyValue
	Dropped   int
	Events    []sdktrace.Event
	EvDropped int
	Links     []sdktrace.Link
	LkDropped int
	Kind      trace.SpanKind
	Start     time.Time
	End       time.Time
}

func (x export) coq() string {
	var evs, lks []string
	for _, e := range x.Events {
		attrs := append([]attribute.KeyValue{}, e.Attributes...)
		for i, a := range attrs { // the stack text is not compared, only its presence and position
			if a.Key == "exception.stacktrace" && a.Value.Type() == attribute.STRING && a.Value.AsString() != "" {
				attrs[i] = attribute.String("exception.stacktrace", "STACK")
			}
		}
		evs = append(evs, vgen.App("E", vgen.HxS(e.Name), vgen.N(instant(e.Time)), coqKVs(attrs), vgen.Nat(e.DroppedAttributeCount)))
	}
	for _, l := range x.Links {
		tid, sid := l.SpanContext.TraceID(), l.SpanContext.SpanID()
		tag := uint64(tid[15])
		if sid[7] != tid[15] || (tag != 0 && tid[0] != 0xAA) {
			tag = 999 // not a context the harness made
		}
		lks = append(lks, vgen.App("K", vgen.N(tag), vgen.Bool(l.SpanContext.TraceState().Len() > 0), coqKVs(l.Attributes), vgen.Nat(l.DroppedAttributeCount)))
	}
	return vgen.App("X", vgen.HxS(x.Name), vgen.Pair(vgen.N(uint64(x.Code)), vgen.HxS(x.Desc)), coqKVs(x.Attrs), vgen.Nat(x.Dropped),
		vgen.List(evs), vgen.Nat(x.EvDropped), vgen.List(lks), vgen.Nat(x.LkDropped),
		vgen.N(uint64(x.Kind)), vgen.N(instant(x.Start)), vgen.N(instant(x.End)))
}

func fromRO(ro sdktrace.ReadOnlySpan) export {
	st := ro.Status()
	return export{Name: ro.Name(), Code: st.Code, Desc: st.Description, Attrs: ro.Attributes(), Dropped: ro.DroppedAttributes(),
		Events: ro.Events(), EvDropped: ro.DroppedEvents(), Links: ro.Links(), LkDropped: ro.DroppedLinks(),
		Kind: ro.SpanKind(), Start: ro.StartTime(), End: ro.EndTime()}
}

func fromStub(s tracetest.SpanStub) export {
	return export{Name: s.Name, Code: s.Status.Code, Desc: s.Status.Description, Attrs: s.Attributes, Dropped: s.DroppedAttributes,
		Events: s.Events, EvDropped: s.DroppedEvents, Links: s.Links, LkDropped: s.DroppedLinks,
		Kind: s.SpanKind, Start: s.StartTime, End: s.EndTime}
}

func cloneKVs(kvs []attribute.KeyValue) []attribute.KeyValue {
	out := make([]attribute.KeyValue, len(kvs))
	for i, a := range kvs {
		if a.Value.Type() == attribute.STRINGSLICE {
			a = attribute.StringSlice(string(a.Key), append([]string{}, a.Value.AsStringSlice()...))
		}
		out[i] = a
	}
	return out
}

// attrSampler samples everything and returns attributes (applied by newRecordingSpan before the start attributes).
type attrSampler struct{ attrs []attribute.KeyValue }

func (a attrSampler) ShouldSample(p sdktrace.SamplingParameters) sdktrace.SamplingResult {
	return sdktrace.SamplingResult{Decision: sdktrace.RecordAndSample, Attributes: cloneKVs(a.attrs),
		Tracestate: trace.SpanContextFromContext(p.ParentContext).TraceState()}
}
func (attrSampler) Description() string { return "attrSampler" }

// onStartProc applies the first ops of a program from inside OnStart (the
// ReadWriteSpan entry point) instead of on the span returned by Start.
type onStartProc struct {
	ops []op
	err error
}

func (p *onStartProc) OnStart(_ context.Context, s sdktrace.ReadWriteSpan) {
	for _, o := range p.ops {
		if e := applyOp(s, o); e != nil && p.err == nil {
			p.err = e
		}
	}
}
func (p *onStartProc) OnEnd(sdktrace.ReadOnlySpan)      {}
func (p *onStartProc) Shutdown(context.Context) error   { return nil }
func (p *onStartProc) ForceFlush(context.Context) error { return nil }

func applyOp(sp trace.Span, o op) error {
	switch o.Kind {
	case kSetAttrs:
		sp.SetAttributes(cloneKVs(o.Attrs)...)
	case kAddEvent:
		var eo []trace.EventOption
		if o.TS != 0 {
			eo = append(eo, trace.WithTimestamp(time.Unix(0, o.TS)))
		}
		if o.Attrs != nil {
			eo = append(eo, trace.WithAttributes(cloneKVs(o.Attrs)...))
		}
		if o.Attrs2 != nil {
			eo = append(eo, trace.WithAttributes(cloneKVs(o.Attrs2)...))
		}
		sp.AddEvent(o.Name, eo...)
	case kRecordError:
		var e error = errors.New(o.Name)
		if o.Custom {
			e = hErr{o.Name}
		} else if o.Wrap {
			e = fmt.Errorf("%s%w", o.Name, errors.New(""))
		}
		var eo []trace.EventOption
		if o.TS != 0 {
			eo = append(eo, trace.WithTimestamp(time.Unix(0, o.TS)))
		}
		if o.Attrs != nil {
			eo = append(eo, trace.WithAttributes(cloneKVs(o.Attrs)...))
		}
		if o.Stack {
			eo = append(eo, trace.WithStackTrace(true))
		}
		sp.RecordError(e, eo...)
	case kRecordNil:
		sp.RecordError(nil, trace.WithAttributes(attribute.Int("never", 1)))
	case kAddLink:
		sp.AddLink(trace.Link{SpanContext: linkCtx(o.Ctx, o.HasTS), Attributes: cloneKVs(o.Attrs)})
	case kSetStatus:
		sp.SetStatus(o.Code, o.Name)
	case kSetName:
		sp.SetName(o.Name)
	case kRead:
		ro, ok := sp.(sdktrace.ReadOnlySpan)
		if !ok {
			return fmt.Errorf("span is not a ReadOnlySpan")
		}
		_, _, _, _, _ = ro.Attributes(), ro.Events(), ro.Links(), ro.Status(), ro.Name()
		_, _, _ = ro.DroppedAttributes(), ro.DroppedEvents(), ro.DroppedLinks()
	case kEnd:
		if o.TS != 0 {
			sp.End(trace.WithTimestamp(time.Unix(0, o.TS)))
		} else {
			sp.End()
		}
	case kEndPanic:
		var eo []trace.SpanEndOption
		if o.TS != 0 {
			eo = append(eo, trace.WithTimestamp(time.Unix(0, o.TS)))
		}
		if o.Stack {
			eo = append(eo, trace.WithStackTrace(true))
		}
		var val any = o.Name
		if o.Custom {
			val = hErr{o.Name}
		}
		repanicked := false
		func() {
			defer func() { repanicked = recover() != nil }()
			defer sp.End(eo...)
			panic(val)
		}()
		if !repanicked {
			return fmt.Errorf("End swallowed the panic")
		}
	}
	return nil
}

// limit plumbing: how the limits reach the provider.
const (
	howRaw        = iota // WithRawSpanLimits
	howSanitised         // WithSpanLimits (deprecated): fields <= 0 are replaced by the defaults
	howEnvSpan           // the six OTEL_SPAN_* / OTEL_EVENT_* / OTEL_LINK_* variables
	howEnvGeneral        // OTEL_ATTRIBUTE_VALUE_LENGTH_LIMIT / OTEL_ATTRIBUTE_COUNT_LIMIT only
	howDefaults          // nothing given
)

var defaultLimits = limits{Len: -1, Attrs: 128, Events: 128, Links: 128, EvAttrs: 128, LkAttrs: 128}

// effective: the limits the documentation promises for each way of giving them.
func effective(how int, l limits) limits {
	switch how {
	case howSanitised:
		d := defaultLimits
		f := func(v, def int) int {
			if v <= 0 {
				return def
			}
			return v
		}
		return limits{f(l.Len, d.Len), f(l.Attrs, d.Attrs), f(l.Events, d.Events), f(l.Links, d.Links), f(l.EvAttrs, d.EvAttrs), f(l.LkAttrs, d.LkAttrs)}
	case howEnvGeneral:
		d := defaultLimits
		d.Len, d.Attrs = l.Len, l.Attrs
		return d
	case howDefaults:
		return defaultLimits
	}
	return l
}

var spanEnvKeys = []string{"OTEL_SPAN_ATTRIBUTE_VALUE_LENGTH_LIMIT", "OTEL_SPAN_ATTRIBUTE_COUNT_LIMIT", "OTEL_SPAN_EVENT_COUNT_LIMIT",
	"OTEL_SPAN_LINK_COUNT_LIMIT", "OTEL_EVENT_ATTRIBUTE_COUNT_LIMIT", "OTEL_LINK_ATTRIBUTE_COUNT_LIMIT",
	"OTEL_ATTRIBUTE_VALUE_LENGTH_LIMIT", "OTEL_ATTRIBUTE_COUNT_LIMIT"}

func clearEnv() {
	for _, k := range spanEnvKeys {
		os.Unsetenv(k)
	}
}

// runSpan starts a span with the given options and applies the program to it
// (the first viaOnStart ops from inside a SpanProcessor's OnStart).
func runSpan(how int, lim limits, so startOpts, name0 string, viaOnStart int, ops []op) (exported []export, readback export, err error) {
	exp := tracetest.NewInMemoryExporter()
	popts := []sdktrace.TracerProviderOption{sdktrace.WithSyncer(exp)}
	if so.SAttrs != nil {
		popts = append(popts, sdktrace.WithSampler(attrSampler{so.SAttrs}))
	} else {
		popts = append(popts, sdktrace.WithSampler(sdktrace.AlwaysSample()))
	}
	clearEnv()
	switch how {
	case howRaw:
		popts = append(popts, sdktrace.WithRawSpanLimits(lim.sdk()))
	case howSanitised:
		popts = append(popts, sdktrace.WithSpanLimits(lim.sdk()))
	case howEnvSpan:
		for i, v := range []int{lim.Len, lim.Attrs, lim.Events, lim.Links, lim.EvAttrs, lim.LkAttrs} {
			os.Setenv(spanEnvKeys[i], fmt.Sprint(v))
		}
	case howEnvGeneral:
		os.Setenv("OTEL_ATTRIBUTE_VALUE_LENGTH_LIMIT", fmt.Sprint(lim.Len))
		os.Setenv("OTEL_ATTRIBUTE_COUNT_LIMIT", fmt.Sprint(lim.Attrs))
	}
	osp := &onStartProc{ops: ops[:viaOnStart]}
	popts = append(popts, sdktrace.WithSpanProcessor(osp))
	tp := sdktrace.NewTracerProvider(popts...)
	clearEnv()
	defer tp.Shutdown(context.Background())
	_, sp := tp.Tracer("c04").Start(context.Background(), name0, so.options()...)
	if osp.err != nil {
		return exported, readback, osp.err
	}
	wasRecording := sp.IsRecording()
	ended := false
	for _, o := range ops[:viaOnStart] {
		ended = ended || o.Kind == kEnd || o.Kind == kEndPanic
	}
	if wasRecording == ended {
		return exported, readback, fmt.Errorf("IsRecording() = %v after Start although ended = %v", wasRecording, ended)
	}
	for _, o := range ops[viaOnStart:] {
		if e := applyOp(sp, o); e != nil {
			return exported, readback, e
		}
	}
	sp.End() // the harness always ends the span (a no-op when the program already did)
	for _, st := range exp.GetSpans() { // every delivery to the exporter (exactly one is expected; judged by the spec)
		exported = append(exported, fromStub(st))
	}
	ro, ok := sp.(sdktrace.ReadOnlySpan)
	if !ok {
		return exported, readback, fmt.Errorf("span is not a ReadOnlySpan")
	}
	if sp.IsRecording() {
		return exported, readback, fmt.Errorf("span still recording after End")
	}
	return exported, fromRO(ro), nil
}

// ---------------------------------------------------------------- generators

var limitChoices = []int{-1, 0, 1, 2, 3, 5, 128}

// string pieces: ASCII, 2/3/4-byte characters, U+FFFD, stray continuation
// bytes, truncated sequences, overlong / surrogate / out-of-range forms.
var pieces = []string{
	"a", "b", "z", "0", " ", "\u00e9", "\u00df", "\u20ac", "\u4e2d", "\U0001F600", "\U0010FFFF", "\ufffd", "\u07ff", "\u0800", "\ud7ff", "\ue000",
	"\x80", "\xBF", "\xC3", "\xE2\x82", "\xF0\x9F\x98", "\xC0\xAF", "\xC1\xBF", "\xE0\x9F\xBF", "\xED\xA0\x80", "\xF4\x90\x80\x80",
	"\xF5\x80\x80\x80", "\xFF", "\xFE", "\xF0\x80\x80\x80", "\xEF\xBF",
}

func genString(r *vgen.Rand) string {
	n := 0
	switch r.Intn(10) {
	case 0:
		n = 0
	case 1, 2, 3:
		n = r.Range(1, 3)
	case 4, 5, 6, 7:
		n = r.Range(2, 8)
	case 8:
		n = r.Range(6, 14)
	default:
		if r.Chance(1, 4) {
			n = r.Range(100, 140) // around the 128 limit
		} else {
			n = r.Range(4, 10)
		}
	}
	var sb strings.Builder
	validOnly := r.Chance(1, 3)
	for i := 0; i < n; i++ {
		if validOnly {
			sb.WriteString(pieces[r.Intn(16)])
		} else if r.Chance(2, 3) {
			sb.WriteString(pieces[r.Intn(12)])
		} else {
			sb.WriteString(pieces[r.Intn(len(pieces))])
		}
	}
	return sb.String()
}

var keyPool = []string{"a", "b", "c", "d", "e", "k1"}

func genKey(r *vgen.Rand, fresh *int) string {
	switch r.Intn(20) {
	case 0:
		return "" // invalid attribute
	case 1:
		*fresh++
		return fmt.Sprintf("f%d", *fresh)
	case 2:
		return "é" + vgen.Pick(r, keyPool)
	}
	return vgen.Pick(r, keyPool)
}

func genValue(r *vgen.Rand) attribute.Value {
	switch r.Intn(16) {
	case 0:
		return attribute.Value{} // INVALID
	case 1:
		return attribute.BoolValue(r.Bool())
	case 2:
		return attribute.Int64Value(int64(r.Intn(2001)) - 1000)
	case 3:
		return attribute.Float64Value(vgen.Pick(r, []float64{0, 1.5, -2.25, 1e300, math.Inf(1)}))
	case 4, 5:
		n := r.Intn(4)
		ss := make([]string, n)
		for i := range ss {
			ss[i] = genString(r)
		}
		return attribute.StringSliceValue(ss)
	case 6:
		switch r.Intn(3) {
		case 0:
			return attribute.BoolSliceValue([]bool{true, false}[:r.Intn(3)])
		case 1:
			return attribute.Int64SliceValue([]int64{1, -2, 3}[:r.Intn(4)])
		}
		return attribute.Float64SliceValue([]float64{0.5, 2}[:r.Intn(3)])
	}
	return attribute.StringValue(genString(r))
}

func genKVs(r *vgen.Rand, max int, fresh *int) []attribute.KeyValue {
	n := 0
	switch r.Intn(8) {
	case 0:
		n = 0
	case 1, 2, 3:
		n = 1
	case 4, 5:
		n = r.Range(2, 3)
	default:
		n = r.Range(1, max)
	}
	kvs := make([]attribute.KeyValue, 0, n)
	for i := 0; i < n; i++ {
		kvs = append(kvs, attribute.KeyValue{Key: attribute.Key(genKey(r, fresh)), Value: genValue(r)})
	}
	if n == 0 && r.Bool() {
		return nil
	}
	return kvs
}

func genOp(r *vgen.Rand, fresh *int) op {
	switch r.Intn(20) {
	case 0, 1, 2, 3, 4, 5, 6, 7:
		return op{Kind: kSetAttrs, Attrs: genKVs(r, 7, fresh)}
	case 8, 9, 10:
		o := op{Kind: kAddEvent, Name: vgen.Pick(r, []string{"e1", "e2", "", "évt"}), TS: int64(r.Range(0, 999)), Attrs: genKVs(r, 5, fresh)}
		if r.Chance(1, 4) {
			o.TS = 0 // no WithTimestamp: wall clock, not compared
		}
		if r.Chance(1, 3) {
			o.Attrs2 = genKVs(r, 3, fresh)
		}
		return o
	case 11, 12:
		o := op{Kind: kRecordError, Name: vgen.Pick(r, []string{"boom", "", "x\xffy", "längerer Fehlertext"}), TS: int64(r.Range(0, 999)), Attrs: genKVs(r, 3, fresh), Stack: r.Chance(1, 3)}
		switch r.Intn(3) {
		case 0:
			o.Custom = true
		case 1:
			o.Wrap = true
		}
		if r.Chance(1, 12) {
			return op{Kind: kRecordNil}
		}
		return o
	case 13, 14, 15:
		o := op{Kind: kAddLink, Ctx: r.Intn(6), HasTS: r.Chance(1, 5), Attrs: genKVs(r, 5, fresh)}
		if r.Chance(1, 4) { // the ignored-link shape and its neighbours
			o.Ctx = 0
			if r.Bool() {
				o.Attrs = nil
			}
		}
		return o
	case 16, 17:
		return op{Kind: kSetStatus, Code: vgen.Pick(r, []codes.Code{codes.Unset, codes.Error, codes.Error, codes.Ok}), Name: vgen.Pick(r, []string{"", "d1", "d2", "why"})}
	case 18:
		if r.Bool() {
			return op{Kind: kRead}
		}
		return op{Kind: kSetName, Name: vgen.Pick(r, []string{"n1", "n2", ""})}
	}
	o := op{Kind: kEnd}
	if r.Bool() {
		o.TS = int64(r.Range(1, 999))
	}
	if r.Chance(1, 4) {
		o.Kind, o.Name, o.Custom, o.Stack = kEndPanic, vgen.Pick(r, []string{"boom", "", "pänic"}), r.Bool(), r.Chance(1, 3)
	}
	return o
}

func genLimits(r *vgen.Rand) limits {
	p := func() int { return vgen.Pick(r, limitChoices) }
	l := limits{Len: p(), Attrs: p(), Events: p(), Links: p(), EvAttrs: p(), LkAttrs: p()}
	if r.Chance(1, 3) { // small attribute capacity so duplicates straddle the boundary
		l.Attrs = r.Range(1, 5)
	}
	if r.Chance(1, 4) {
		l.Len = r.Range(0, 6)
	}
	return l
}

type program struct {
	How        int
	Lim        limits // as given; the model receives effective(How, Lim)
	Start      startOpts
	Name0      string
	ViaOnStart int
	Ops        []op
}

// genStart: start attributes from the same key pool as later SetAttributes
// calls (so they collide across the capacity boundary), more start links than
// small link limits hold, the ignored-empty-link shape, timestamps, all span kinds.
func genStart(r *vgen.Rand, fresh *int) startOpts {
	so := startOpts{Kind: -1}
	if r.Chance(1, 2) {
		return so
	}
	if r.Chance(1, 4) {
		so.SAttrs = genKVs(r, 4, fresh)
		if so.SAttrs == nil {
			so.SAttrs = []attribute.KeyValue{}
		}
	}
	if r.Chance(2, 3) {
		so.Attrs = genKVs(r, 7, fresh)
		if r.Chance(1, 3) {
			so.Attrs2 = genKVs(r, 4, fresh)
		}
	}
	if r.Chance(1, 2) {
		for i := r.Range(1, 6); i > 0; i-- {
			l := op{Kind: kAddLink, Ctx: r.Intn(6), HasTS: r.Chance(1, 6), Attrs: genKVs(r, 4, fresh)}
			if r.Chance(1, 5) {
				l.Ctx, l.Attrs = 0, nil
			}
			so.Links = append(so.Links, l)
		}
	}
	if r.Chance(1, 2) {
		so.TS = int64(r.Range(1, 999))
	}
	if r.Chance(2, 3) {
		so.Kind = r.Intn(9) // 0 unspecified, 1..5 valid, 6..8 unknown
	}
	return so
}

func genProgram(r *vgen.Rand, maxOps int) program {
	p := program{Lim: genLimits(r), Name0: vgen.Pick(r, []string{"span", "", "s"})}
	fresh := 0
	p.Start = genStart(r, &fresh)
	n := 0
	switch r.Intn(10) {
	case 0, 1, 2:
		n = r.Range(1, 4)
	case 3, 4, 5, 6:
		n = r.Range(3, 12)
	case 7, 8:
		n = r.Range(8, 25)
	default:
		n = r.Range(20, maxOps)
	}
	for i := 0; i < n; i++ {
		p.Ops = append(p.Ops, genOp(r, &fresh))
	}
	if r.Chance(1, 5) { // the first calls come from a SpanProcessor's OnStart
		p.ViaOnStart = r.Range(1, min(4, len(p.Ops)))
	}
	switch r.Intn(12) { // how the limits reach the provider
	case 0:
		p.How = howSanitised
		for _, f := range []*int{&p.Lim.Len, &p.Lim.Attrs, &p.Lim.Events, &p.Lim.Links, &p.Lim.EvAttrs, &p.Lim.LkAttrs} {
			if r.Chance(1, 3) {
				*f = vgen.Pick(r, []int{0, -1, 0, -5}) // replaced by the defaults
			}
		}
	case 1:
		p.How = howEnvSpan
	case 2:
		p.How = howEnvGeneral
	case 3:
		if r.Chance(1, 3) {
			p.How = howDefaults
		}
	}
	return p
}

// bigProgram: enough distinct keys / events / links to cross the default 128 limits.
func bigProgram(r *vgen.Rand) program {
	p := program{Lim: limits{Len: vgen.Pick(r, []int{-1, 128}), Attrs: 128, Events: 128, Links: 128, EvAttrs: 128, LkAttrs: 128}, Name0: "big", Start: startOpts{Kind: -1}}
	fresh := 0
	mk := func(n, off int) []attribute.KeyValue {
		kvs := make([]attribute.KeyValue, n)
		for i := range kvs {
			kvs[i] = attribute.Int(fmt.Sprintf("k%d", (off+i)%140), i)
		}
		return kvs
	}
	switch r.Intn(3) {
	case 0:
		p.Ops = append(p.Ops, op{Kind: kSetAttrs, Attrs: mk(r.Range(120, 127), 0)}, op{Kind: kSetAttrs, Attrs: mk(r.Range(1, 12), r.Range(100, 126))},
			op{Kind: kSetAttrs, Attrs: mk(5, 0)}, op{Kind: kSetAttrs, Attrs: genKVs(r, 6, &fresh)})
	case 1:
		for i := r.Range(126, 133); i > 0; i-- {
			p.Ops = append(p.Ops, op{Kind: kAddEvent, Name: "e", TS: int64(i)})
		}
		p.Ops = append(p.Ops, op{Kind: kAddEvent, Name: "wide", TS: 7, Attrs: mk(r.Range(127, 130), 0)})
	default:
		for i := r.Range(126, 133); i > 0; i-- {
			p.Ops = append(p.Ops, op{Kind: kAddLink, Ctx: 1 + i%200})
		}
		p.Ops = append(p.Ops, op{Kind: kAddLink, Ctx: 3, Attrs: mk(r.Range(127, 130), 0)})
	}
	return p
}

// ---------------------------------------------------------------- main

func main() {
	o := vgen.ParseFlags()
	r := vgen.NewRand(o.Seed).Fork() // Fork: NewRand(s+1) is NewRand(s) advanced by one draw (splitmix increment = seed multiplier); the fork decorrelates seeds
	w := vgen.NewWriter(o.Out, "Lib.Utf8 C04.Spec C04.Model C04.Corr", "case", 200)
	w.Rule = "programs of span API calls (Start options WithAttributes/WithLinks/WithTimestamp/WithSpanKind seeding the span, SetAttributes, AddEvent, RecordError, AddLink, SetStatus, SetName, End) over a 6-key pool with " +
		"invalid/duplicate/fresh keys under limits from {-1,0,1,2,3,5,128}, observed at the in-memory exporter and through the ended span's accessors; " +
		"string attribute values from a UTF-8 piece alphabet (valid 1-4 byte characters, U+FFFD, stray/truncated/overlong/surrogate bytes) under value-length limits; " +
		"a span case is non-trivial when some limit dropped, de-duplicated or truncated something or a call came after End; a truncate case when the value exceeded the limit; distinct = distinct Coq case terms"

	guard := func(desc any, f func()) {
		defer func() {
			if e := recover(); e != nil {
				w.Violation(fmt.Sprintf("panic: %v", e), desc)
			}
		}()
		f()
	}

	addProgram := func(p program, kind string) {
		var od []string
		for i, x := range p.Ops {
			_ = i
			od = append(od, x.String())
		}
		howName := []string{"WithRawSpanLimits", "WithSpanLimits", "OTEL_SPAN_* environment", "OTEL_ATTRIBUTE_* environment", "defaults"}[p.How]
		eff := effective(p.How, p.Lim)
		desc := map[string]any{"limits_given": p.Lim, "limits_given_through": howName, "limits_effective": eff, "start": p.Start.String(), "name": p.Name0,
			"first_ops_applied_in_OnStart": p.ViaOnStart, "ops": od}
		guard(desc, func() {
			exs, rb, err := runSpan(p.How, p.Lim, p.Start, p.Name0, p.ViaOnStart, p.Ops)
			if err != nil {
				w.Violation(err.Error(), desc)
				return
			}
			desc["times_exported"] = len(exs)
			ex := rb // description / tallies use the first delivery when there is one
			if len(exs) > 0 {
				ex = exs[0]
			}
			var exTerms []string
			for _, e := range exs {
				exTerms = append(exTerms, e.coq())
			}
			var ops []string
			offered, evs, lks, afterEnd, ended := len(p.Start.Attrs)+len(p.Start.Attrs2), 0, len(p.Start.Links), false, false
			for _, x := range p.Ops {
				ops = append(ops, x.coqOps()...)
				if ended {
					afterEnd = true
				}
				switch x.Kind {
				case kSetAttrs:
					offered += len(x.Attrs)
				case kAddEvent, kRecordError:
					evs++
				case kAddLink:
					lks++
				case kEnd, kEndPanic:
					ended = true
				}
			}
			nontrivial := ex.Dropped > 0 || rb.EvDropped > 0 || rb.LkDropped > 0 || afterEnd || len(ex.Attrs) < offered
			desc["exported"] = map[string]any{"attrs": descKVs(ex.Attrs), "dropped": ex.Dropped, "events": len(ex.Events), "dropped_events": ex.EvDropped,
				"links": len(ex.Links), "dropped_links": ex.LkDropped, "status": fmt.Sprintf("%d %q", ex.Code, ex.Desc), "name": ex.Name,
				"kind": int(ex.Kind), "start": instant(ex.Start), "end": instant(ex.End)}
			w.Tally(fmt.Sprintf("span:ops<=%d", (len(p.Ops)/10+1)*10))
			if ex.Dropped > 0 {
				w.Tally("span:attrs-dropped")
			}
			if rb.EvDropped > 0 {
				w.Tally("span:events-dropped")
			}
			if rb.LkDropped > 0 {
				w.Tally("span:links-dropped")
			}
			if afterEnd {
				w.Tally("span:calls-after-End")
			}
			w.Tally(fmt.Sprintf("span:attr-limit=%d", eff.Attrs))
			if len(p.Start.Attrs)+len(p.Start.Attrs2) > 0 {
				w.Tally("start:attributes")
			}
			if len(p.Start.Links) > 0 {
				w.Tally("start:links")
				if p.Lim.Links >= 0 && len(p.Start.Links) > p.Lim.Links {
					w.Tally("start:links>limit")
				}
			}
			if p.Start.TS != 0 {
				w.Tally("start:timestamp")
			}
			w.Tally(fmt.Sprintf("start:kind=%d", p.Start.Kind))
			w.Tally("limits-through:" + howName)
			if p.ViaOnStart > 0 {
				w.Tally("ops-in-OnStart")
			}
			term := vgen.App("CSpan", eff.coq(), p.Start.coq(), vgen.HxS(p.Name0), vgen.List(append(ops, "(OEnd 0)")), vgen.List(exTerms), rb.coq())
			w.Add(term, desc, kind, nontrivial)
		})
	}

	// truncate cases: one span per limit, one attribute per string
	type tcase struct {
		lim  int
		s    string
		kind string
	}
	var tcs []tcase
	flushTrunc := func() {
		byLim := map[int][]tcase{}
		var order []int
		for _, t := range tcs {
			if _, ok := byLim[t.lim]; !ok {
				order = append(order, t.lim)
			}
			byLim[t.lim] = append(byLim[t.lim], t)
		}
		for _, lim := range order {
			group := byLim[lim]
			for start := 0; start < len(group); start += 100 {
				chunk := group[start:min(start+100, len(group))]
				desc := map[string]any{"op": "truncate-batch", "limit": lim}
				guard(desc, func() {
					exp := tracetest.NewInMemoryExporter()
					tp := sdktrace.NewTracerProvider(sdktrace.WithSyncer(exp), sdktrace.WithRawSpanLimits(sdktrace.SpanLimits{
						AttributeValueLengthLimit: lim, AttributeCountLimit: -1, EventCountLimit: -1, LinkCountLimit: -1, AttributePerEventCountLimit: -1, AttributePerLinkCountLimit: -1}))
					defer tp.Shutdown(context.Background())
					_, sp := tp.Tracer("c04").Start(context.Background(), "t")
					for i, t := range chunk {
						sp.SetAttributes(attribute.String(fmt.Sprintf("s%d", i), t.s))
					}
					sp.End()
					got := map[string]string{}
					for _, a := range exp.GetSpans()[0].Attributes {
						got[string(a.Key)] = a.Value.AsString()
					}
					for i, t := range chunk {
						out, ok := got[fmt.Sprintf("s%d", i)]
						d := map[string]any{"op": "truncate", "limit": t.lim, "s": fmt.Sprintf("%q", t.s), "out": fmt.Sprintf("%q", out)}
						if !ok {
							w.Violation("string attribute lost", d)
							continue
						}
						if len(t.s) > t.lim && t.lim >= 0 {
							w.Tally("truncate:over-limit")
						} else {
							w.Tally("truncate:within-limit")
						}
						w.Add(vgen.App("CTrunc", vgen.Z(int64(t.lim)), vgen.HxS(t.s), vgen.HxS(out)), d, t.kind, len(t.s) > t.lim && t.lim >= 0)
					}
				})
			}
		}
		tcs = nil
	}

	// ---- fixed corpus (runs first on every run) ----
	fffd := "\ufffd"
	tcs = append(tcs,
		tcase{3, strings.Repeat(fffd, 10), "corpus"}, // F-C04-1
		tcase{3, "ab" + fffd + "cdef", "corpus"},     // F-C04-1
		tcase{0, "\xff", "corpus"},                   // F-C04-1 (builder capacity used as the invalid flag)
		tcase{0, "", "corpus"}, tcase{1, "\xffa\xffb", "corpus"}, tcase{2, "\xe2\x82a\xe2\x82\xacb", "corpus"},
		tcase{1, "😀😀", "corpus"}, tcase{4, "😀", "corpus"}, tcase{3, "😀", "corpus"}, tcase{-1, "\xff\xfe", "corpus"},
		tcase{2, "\xed\xa0\x80ab", "corpus"}, tcase{2, "\xf4\x90\x80\x80ab", "corpus"}, tcase{2, "\xc0\xafab", "corpus"},
	)
	flushTrunc()
	i1 := attribute.Int("a", 1)
	corpus := []program{
		// F-C04-2 / F-C04-3 (fixed by 543ed08): limit 0 => the exported dropped counters must be exact
		{Lim: limits{-1, -1, 0, 0, -1, -1}, Name0: "s", Ops: []op{{Kind: kAddEvent, Name: "e", TS: 1}, {Kind: kAddEvent, Name: "e", TS: 2}, {Kind: kAddLink, Ctx: 1}}},
		{Lim: limits{-1, -1, 0, -1, -1, -1}, Name0: "s", Ops: []op{{Kind: kRecordError, Name: "boom", TS: 1}}},
		{Lim: limits{-1, -1, -1, 0, -1, -1}, Name0: "s", Start: startOpts{Kind: -1, Links: []op{{Kind: kAddLink, Ctx: 2, Attrs: []attribute.KeyValue{i1}}}}},
		// start attributes colliding with later SetAttributes across the capacity boundary; more start links than the limit;
		// unknown span kind; start / end instants; second End ignored
		{Lim: limits{-1, 2, -1, 1, -1, 1}, Name0: "s",
			Start: startOpts{Kind: 7, TS: 5, Attrs: []attribute.KeyValue{attribute.Int("a", 1), attribute.Int("b", 2)}, Attrs2: []attribute.KeyValue{attribute.Int("c", 3), attribute.Int("a", 4)},
				Links: []op{{Kind: kAddLink, Ctx: 1}, {Kind: kAddLink, Ctx: 0}, {Kind: kAddLink, Ctx: 2, Attrs: []attribute.KeyValue{i1, i1}}}},
			Ops: []op{{Kind: kSetAttrs, Attrs: []attribute.KeyValue{attribute.Int("b", 5), attribute.Int("d", 6)}}, {Kind: kEnd, TS: 9}, {Kind: kEnd, TS: 12}}},
		// duplicates straddling the capacity boundary, update when full, invalid in both paths
		{Lim: limits{-1, 2, -1, -1, -1, -1}, Name0: "s", Ops: []op{
			{Kind: kSetAttrs, Attrs: []attribute.KeyValue{attribute.Int("a", 1), attribute.Int("a", 2)}},
			{Kind: kSetAttrs, Attrs: []attribute.KeyValue{attribute.Int("b", 3), attribute.Int("c", 4), attribute.Int("a", 5), {Key: "z"}, attribute.Int("", 1)}},
			{Kind: kSetAttrs, Attrs: []attribute.KeyValue{attribute.Int("c", 6)}}, {Kind: kSetAttrs, Attrs: []attribute.KeyValue{attribute.Int("b", 7)}}}},
		{Lim: limits{2, 3, 1, 1, 1, 1}, Name0: "s", Ops: []op{
			{Kind: kSetStatus, Code: codes.Error, Name: "d1"}, {Kind: kSetStatus, Code: codes.Unset, Name: "x"}, {Kind: kSetStatus, Code: codes.Error, Name: "d2"},
			{Kind: kSetAttrs, Attrs: []attribute.KeyValue{attribute.String("a", "héllo"), attribute.StringSlice("b", []string{"\xffabc", "x"})}},
			{Kind: kAddEvent, Name: "e1", TS: 5, Attrs: []attribute.KeyValue{attribute.String("k", "untruncated"), i1}},
			{Kind: kAddEvent, Name: "e2", TS: 6}, {Kind: kAddLink, Ctx: 1}, {Kind: kAddLink, Ctx: 0}, {Kind: kAddLink, Ctx: 0, HasTS: true},
			{Kind: kSetStatus, Code: codes.Ok, Name: "ignored"}, {Kind: kSetStatus, Code: codes.Error, Name: "late"}, {Kind: kSetName, Name: "n2"}, {Kind: kEnd},
			{Kind: kSetName, Name: "after"}, {Kind: kSetAttrs, Attrs: []attribute.KeyValue{i1}}, {Kind: kAddEvent, Name: "after", TS: 9}, {Kind: kSetStatus, Code: codes.Ok}}},
	}
	for _, p := range corpus {
		addProgram(p, "span-corpus")
	}

	// ---- generated programs ----
	nProg := o.Count(1700, 30000)
	for i := 0; i < nProg; i++ {
		addProgram(genProgram(r, 60), "span")
	}
	for i := o.Count(6, 120); i > 0; i-- {
		addProgram(bigProgram(r), "span-128")
	}

	// ---- truncate: random strings under random limits ----
	nT := o.Count(1000, 20000)
	for i := 0; i < nT; i++ {
		s := genString(r)
		lim := vgen.Pick(r, []int{-1, 0, 1, 2, 3, 5, 128})
		if r.Bool() { // near the string's own length / character count
			lim = max(0, len([]rune(s))+r.Range(-2, 1))
		}
		tcs = append(tcs, tcase{lim, s, "truncate"})
	}
	// decoder boundary sweep: every byte >= 0x80 as a lead byte followed by boundary second bytes
	seconds := []byte{0x7F, 0x80, 0x8F, 0x90, 0x9F, 0xA0, 0xBF, 0xC0}
	step := 1
	if o.Tier == "quick" {
		step = 2 // half of the lead bytes per run, alternating with the seed
	}
	for b1 := 0x80 + int(o.Seed%uint64(step)); b1 <= 0xFF; b1 += step {
		for _, b2 := range seconds {
			tcs = append(tcs, tcase{2, string([]byte{byte(b1), b2, 0x80, 0x80, 'z', 'y'}), "truncate-decoder"})
		}
	}
	if o.Tier == "thorough" { // all two-byte prefixes
		for b1 := 0x80; b1 <= 0xFF; b1++ {
			for b2 := 0; b2 <= 0xFF; b2++ {
				tcs = append(tcs, tcase{2, string([]byte{byte(b1), byte(b2), 0xBF, 0x80, 'z', 'y'}), "truncate-decoder"})
			}
		}
	}
	flushTrunc()

	if err := w.Flush(); err != nil {
		fmt.Fprintln(os.Stderr, err)
		os.Exit(2)
	}
}
