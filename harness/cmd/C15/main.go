// C15 harness: lifecycle operation sequences over the trace / metric / log SDK
// providers with every stock processor, reader and exporter (including nil
// exporters). Every sequence runs in a re-exec'd child process; a crashed or hung
// child is an observation. The observations are compared with the Coq model and
// judged by the Coq specification.
package main

import (
	"bytes"
	"context"
	"encoding/json"
	"errors"
	"flag"
	"fmt"
	"os"
	"os/exec"
	"runtime"
	"sort"
	"strings"
	"sync"
	"sync/atomic"
	"time"

	"go.opentelemetry.io/otel/exporters/stdout/stdoutlog"
	"go.opentelemetry.io/otel/exporters/stdout/stdoutmetric"
	"go.opentelemetry.io/otel/exporters/stdout/stdouttrace"
	otellog "go.opentelemetry.io/otel/log"
	lognoop "go.opentelemetry.io/otel/log/noop"
	"go.opentelemetry.io/otel/metric"
	metricnoop "go.opentelemetry.io/otel/metric/noop"
	sdklog "go.opentelemetry.io/otel/sdk/log"
	sdkmetric "go.opentelemetry.io/otel/sdk/metric"
	"go.opentelemetry.io/otel/sdk/metric/metricdata"
	sdktrace "go.opentelemetry.io/otel/sdk/trace"
	"go.opentelemetry.io/otel/sdk/trace/tracetest"
	"go.opentelemetry.io/otel/trace"

	"verif/harness/vgen"
)

// ---- scenario and observation (JSON between parent and child) ----

type opJ struct {
	K string `json:"k"` // reg unreg start end flush shutdown | add collect | emit
	P int    `json:"p,omitempty"`
	B bool   `json:"b,omitempty"` // fresh / live
	S bool   `json:"s,omitempty"` // fresh handle requested for the SAME scope as the one obtained before Shutdown
	D int    `json:"d,omitempty"` // metric flush with B=false: the context is not cancelled yet but expires after D ms
}

type scenario struct {
	Kind    string   `json:"kind"` // trace metric log storm
	Kinds   []string `json:"kinds"`
	Members []int    `json:"members,omitempty"`
	Ops     []opJ    `json:"ops,omitempty"`
	N       int      `json:"n,omitempty"`
	Extra   int      `json:"extra,omitempty"`
	G       int      `json:"g,omitempty"`
	Seed    uint64   `json:"seed,omitempty"`
	Fails   []int    `json:"fails,omitempty"` // fail: processors whose ForceFlush / Shutdown report an error
	Reg     int      `json:"reg,omitempty"`   // reader / rstorm: providers the reader was handed to
	Nest    []nestJ  `json:"nest,omitempty"` // reent: which provider methods the re-entrant component calls from which callback
	Slow    int      `json:"slow,omitempty"`  // metric: every Export of a periodic reader's exporter takes this many ms
	BudgetMs int     `json:"budget_ms,omitempty"` // lstorm / mstorm: stop after this long (at least 20 rounds)
}

type nestJ struct {
	CB   string `json:"cb"`   // shutdown onend flush (the callback of the re-entrant processor / exporter)
	Call string `json:"call"` // unreg0 unreg1 reg2 flush shutdown handle (the provider method called from it)
}

type callJ struct {
	ID int    `json:"id"`
	K  string `json:"k"`
}

type obsJ struct {
	Err    string  `json:"err"`
	Flag   bool    `json:"flag"`
	Calls  []callJ `json:"calls"`
	XCalls []callJ `json:"xcalls"`
	Wrote  bool    `json:"wrote"`
}

type roundJ struct {
	PShut        []int    `json:"pshut"`
	XShut        []int    `json:"xshut"`
	ShutErrs     []string `json:"shut_errs"`
	FlushErrs    []string `json:"flush_errs"`
	CollectAfter []string `json:"collect_after,omitempty"`
	Count        int      `json:"count"`
}

type resultJ struct {
	Rounds    []roundJ `json:"rounds,omitempty"`
	RoundsDone int     `json:"rounds_done,omitempty"`
	Obs       []obsJ `json:"obs"`
	Panic     string `json:"panic,omitempty"`
	Shutdowns []int  `json:"shutdowns,omitempty"`
	Late      int    `json:"late"` // OnStart/OnEnd calls that reached a processor after Shutdown had returned
	XShutdowns []int `json:"xshutdowns,omitempty"`
	StormKinds []string `json:"storm_kinds,omitempty"`
	FreshRec  bool   `json:"fresh_rec,omitempty"`
	FlushErr  string `json:"flush_err,omitempty"`
	ShutErr   string `json:"shut_err,omitempty"`
}

// sdkTimeout: every timeout a stock component can be given (export / flush / collect). Far longer than the
// child watchdog, so that under starvation the watchdog (inconclusive, re-run) fires and never an SDK
// timeout that would surface as a context error on a live-context call.
const sdkTimeout = 30 * time.Minute

// ---- child side ----

type recorder struct {
	mu     sync.Mutex
	calls  []callJ
	xcalls []callJ
}

func (r *recorder) call(id int, k string) {
	r.mu.Lock()
	r.calls = append(r.calls, callJ{id, k})
	r.mu.Unlock()
}
func (r *recorder) xcall(id int, k string) {
	r.mu.Lock()
	r.xcalls = append(r.xcalls, callJ{id, k})
	r.mu.Unlock()
}
func (r *recorder) take() (c, x []callJ) {
	r.mu.Lock()
	c, x = r.calls, r.xcalls
	r.calls, r.xcalls = nil, nil
	r.mu.Unlock()
	sort.SliceStable(x, func(i, j int) bool {
		if x[i].ID != x[j].ID {
			return x[i].ID < x[j].ID
		}
		return x[i].K < x[j].K
	})
	return
}

type syncBuf struct {
	mu sync.Mutex
	b  bytes.Buffer
}

func (s *syncBuf) Write(p []byte) (int, error) {
	s.mu.Lock()
	defer s.mu.Unlock()
	return s.b.Write(p)
}
func (s *syncBuf) Len() int {
	s.mu.Lock()
	defer s.mu.Unlock()
	return s.b.Len()
}

func errClass(err error) string {
	switch {
	case err == nil:
		return "ENil"
	case errors.Is(err, sdkmetric.ErrReaderShutdown):
		return "EShut"
	case errors.Is(err, context.Canceled), errors.Is(err, context.DeadlineExceeded):
		return "ECtx"
	}
	return "EOther"
}

func ctxFor(live bool) context.Context {
	if live {
		return context.Background()
	}
	ctx, cancel := context.WithCancel(context.Background())
	cancel()
	return ctx
}

// trace wrappers
type countProc struct {
	id    int
	inner sdktrace.SpanProcessor
	rec   *recorder
	slow  time.Duration // Shutdown dawdles this long (keeps TracerProvider.mu held by the Shutdown caller)
}

func (p *countProc) OnStart(ctx context.Context, s sdktrace.ReadWriteSpan) {
	p.rec.call(p.id, "KOnStart")
	if p.inner != nil {
		p.inner.OnStart(ctx, s)
	}
}
func (p *countProc) OnEnd(s sdktrace.ReadOnlySpan) {
	p.rec.call(p.id, "KOnEnd")
	if p.inner != nil {
		p.inner.OnEnd(s)
	}
}
func (p *countProc) Shutdown(ctx context.Context) error {
	p.rec.call(p.id, "KShutdown")
	if p.slow > 0 {
		time.Sleep(p.slow)
	}
	if p.inner != nil {
		return p.inner.Shutdown(ctx)
	}
	return nil
}
func (p *countProc) ForceFlush(ctx context.Context) error {
	p.rec.call(p.id, "KFlush")
	if p.inner != nil {
		return p.inner.ForceFlush(ctx)
	}
	return nil
}

type countSpanExp struct {
	id    int
	inner sdktrace.SpanExporter
	rec   *recorder
}

func (e *countSpanExp) ExportSpans(ctx context.Context, s []sdktrace.ReadOnlySpan) error {
	e.rec.xcall(e.id, "KExport")
	return e.inner.ExportSpans(ctx, s)
}
func (e *countSpanExp) Shutdown(ctx context.Context) error {
	e.rec.xcall(e.id, "KXShutdown")
	return e.inner.Shutdown(ctx)
}

func mkSpanProc(id int, kind string, rec *recorder, out *syncBuf) *countProc {
	var exp sdktrace.SpanExporter
	switch {
	case strings.HasSuffix(kind, "XStd"):
		e, _ := stdouttrace.New(stdouttrace.WithWriter(out))
		exp = &countSpanExp{id, e, rec}
	case strings.HasSuffix(kind, "XMem"):
		exp = &countSpanExp{id, tracetest.NewInMemoryExporter(), rec}
	}
	var inner sdktrace.SpanProcessor
	switch {
	case strings.HasPrefix(kind, "PSimple"):
		inner = sdktrace.NewSimpleSpanProcessor(exp)
	case strings.HasPrefix(kind, "PBatch"):
		inner = sdktrace.NewBatchSpanProcessor(exp, sdktrace.WithBatchTimeout(time.Hour), sdktrace.WithExportTimeout(sdkTimeout))
	}
	return &countProc{id: id, inner: inner, rec: rec}
}

func childTrace(sc scenario) resultJ {
	rec := &recorder{}
	out := &syncBuf{}
	procs := make([]*countProc, len(sc.Kinds))
	for i, k := range sc.Kinds {
		procs[i] = mkSpanProc(i, k, rec, out)
	}
	opts := []sdktrace.TracerProviderOption{sdktrace.WithSampler(sdktrace.AlwaysSample())}
	for _, m := range sc.Members {
		opts = append(opts, sdktrace.WithSpanProcessor(procs[m]))
	}
	tp := sdktrace.NewTracerProvider(opts...)
	rv := len(sc.Ops) % 8 // the retained handle's options (every TracerOption, in rotating combinations)
	retained := tp.Tracer("retained", tracerOpts(rv)...)
	var spans []trace.Span
	var res resultJ
	rec.take()
	for i, o := range sc.Ops {
		before := out.Len()
		ob := obsJ{Err: "ENil"}
		switch o.K {
		case "reg":
			tp.RegisterSpanProcessor(procs[o.P])
		case "unreg":
			tp.UnregisterSpanProcessor(procs[o.P])
		case "start":
			tr := retained
			if o.B {
				name, v := fmt.Sprintf("fresh%d", i), i%8
				if i%5 == 0 {
					name = "" // the default tracer name
				}
				if o.S {
					name, v = "retained", rv // the scope whose tracer was created (and cached) before
				}
				tr = tp.Tracer(name, tracerOpts(v)...)
			}
			_, sp := tr.Start(context.Background(), "s")
			ob.Flag = sp.IsRecording()
			spans = append(spans, sp)
		case "end":
			if o.P < len(spans) {
				spans[o.P].End()
			}
		case "flush":
			ob.Err = errClass(tp.ForceFlush(ctxFor(o.B)))
		case "shutdown":
			ob.Err = errClass(tp.Shutdown(ctxFor(o.B)))
		}
		ob.Calls, ob.XCalls = rec.take()
		ob.Wrote = out.Len() > before
		res.Obs = append(res.Obs, ob)
	}
	return res
}

// metric wrappers
type countMetricExp struct {
	id    int
	inner sdkmetric.Exporter
	rec   *recorder
	slow  time.Duration // every Export takes this long
}

func (e *countMetricExp) Temporality(k sdkmetric.InstrumentKind) metricdata.Temporality {
	return e.inner.Temporality(k)
}
func (e *countMetricExp) Aggregation(k sdkmetric.InstrumentKind) sdkmetric.Aggregation {
	return e.inner.Aggregation(k)
}
func (e *countMetricExp) Export(ctx context.Context, rm *metricdata.ResourceMetrics) error {
	e.rec.xcall(e.id, "KExport")
	if e.slow > 0 {
		time.Sleep(e.slow)
	}
	return e.inner.Export(ctx, rm)
}
func (e *countMetricExp) ForceFlush(ctx context.Context) error {
	e.rec.xcall(e.id, "KXFlush")
	return e.inner.ForceFlush(ctx)
}
func (e *countMetricExp) Shutdown(ctx context.Context) error {
	e.rec.xcall(e.id, "KXShutdown")
	return e.inner.Shutdown(ctx)
}

func childMetric(sc scenario) resultJ {
	rec := &recorder{}
	out := &syncBuf{}
	var readers []sdkmetric.Reader
	var opts []sdkmetric.Option
	for i, k := range sc.Kinds {
		var r sdkmetric.Reader
		switch k {
		case "RManual":
			r = sdkmetric.NewManualReader()
		case "RPeriodic XStd":
			e, _ := stdoutmetric.New(stdoutmetric.WithWriter(out))
			r = sdkmetric.NewPeriodicReader(&countMetricExp{id: i, inner: e, rec: rec, slow: time.Duration(sc.Slow) * time.Millisecond}, sdkmetric.WithInterval(time.Hour), sdkmetric.WithTimeout(sdkTimeout))
		default: // RPeriodic XNil
			r = sdkmetric.NewPeriodicReader(nil, sdkmetric.WithInterval(time.Hour), sdkmetric.WithTimeout(sdkTimeout))
		}
		readers = append(readers, r)
		opts = append(opts, sdkmetric.WithReader(r))
	}
	mp := sdkmetric.NewMeterProvider(opts...)
	rv := len(sc.Ops) % 8
	retained, _ := mp.Meter("retained", meterOpts(rv)...).Int64Counter("c")
	var res resultJ
	rec.take()
	for i, o := range sc.Ops {
		before := out.Len()
		ob := obsJ{Err: "ENil"}
		switch o.K {
		case "add":
			var c metric.Int64Counter = retained
			if o.B {
				name, v := fmt.Sprintf("fresh%d", i), i%8
				if i%5 == 0 {
					name = ""
				}
				if o.S {
					name, v = "retained", rv
				}
				c, _ = mp.Meter(name, meterOpts(v)...).Int64Counter("c")
			}
			_, isNoop := c.(metricnoop.Int64Counter)
			ob.Flag = !isNoop
			c.Add(context.Background(), 1)
		case "collect":
			var rm metricdata.ResourceMetrics
			ob.Err = errClass(readers[o.P%len(readers)].Collect(context.Background(), &rm))
		case "flush":
			if !o.B && o.D > 0 { // the caller's deadline expires while the (slow) export is in flight
				ctx, cancel := context.WithTimeout(context.Background(), time.Duration(o.D)*time.Millisecond)
				ob.Err = errClass(mp.ForceFlush(ctx))
				cancel()
			} else {
				ob.Err = errClass(mp.ForceFlush(ctxFor(o.B)))
			}
		case "shutdown":
			ob.Err = errClass(mp.Shutdown(ctxFor(o.B)))
		}
		ob.Calls, ob.XCalls = rec.take()
		ob.Wrote = out.Len() > before
		res.Obs = append(res.Obs, ob)
	}
	return res
}

// log wrappers
type countLogProc struct {
	id    int
	inner sdklog.Processor
	rec   *recorder
}

func (p *countLogProc) OnEmit(ctx context.Context, r *sdklog.Record) error {
	p.rec.call(p.id, "KOnEnd")
	return p.inner.OnEmit(ctx, r)
}
func (p *countLogProc) Shutdown(ctx context.Context) error {
	p.rec.call(p.id, "KShutdown")
	return p.inner.Shutdown(ctx)
}
func (p *countLogProc) ForceFlush(ctx context.Context) error {
	p.rec.call(p.id, "KFlush")
	return p.inner.ForceFlush(ctx)
}

type countLogExp struct {
	id    int
	inner sdklog.Exporter
	rec   *recorder
}

func (e *countLogExp) Export(ctx context.Context, r []sdklog.Record) error {
	e.rec.xcall(e.id, "KExport")
	return e.inner.Export(ctx, r)
}
func (e *countLogExp) ForceFlush(ctx context.Context) error {
	e.rec.xcall(e.id, "KXFlush")
	return e.inner.ForceFlush(ctx)
}
func (e *countLogExp) Shutdown(ctx context.Context) error {
	e.rec.xcall(e.id, "KXShutdown")
	return e.inner.Shutdown(ctx)
}

func childLog(sc scenario) resultJ {
	rec := &recorder{}
	out := &syncBuf{}
	var opts []sdklog.LoggerProviderOption
	for i, k := range sc.Kinds {
		var exp sdklog.Exporter
		if strings.HasSuffix(k, "XStd") {
			e, _ := stdoutlog.New(stdoutlog.WithWriter(out))
			exp = &countLogExp{i, e, rec}
		}
		var inner sdklog.Processor
		if strings.HasPrefix(k, "LSimple") {
			inner = sdklog.NewSimpleProcessor(exp)
		} else {
			inner = sdklog.NewBatchProcessor(exp, sdklog.WithExportInterval(time.Hour), sdklog.WithExportTimeout(sdkTimeout))
		}
		opts = append(opts, sdklog.WithProcessor(&countLogProc{i, inner, rec}))
	}
	lp := sdklog.NewLoggerProvider(opts...)
	rv := len(sc.Ops) % 8
	retained := lp.Logger("retained", loggerOpts(rv)...)
	var res resultJ
	rec.take()
	for i, o := range sc.Ops {
		before := out.Len()
		ob := obsJ{Err: "ENil"}
		switch o.K {
		case "emit":
			l := retained
			if o.B {
				name, v := fmt.Sprintf("fresh%d", i), i%8
				if i%5 == 0 {
					name = ""
				}
				if o.S {
					name, v = "retained", rv
				}
				l = lp.Logger(name, loggerOpts(v)...)
			}
			_, isNoop := l.(lognoop.Logger)
			ob.Flag = !isNoop
			var r otellog.Record
			r.SetBody(otellog.StringValue("hello"))
			l.Emit(context.Background(), r)
		case "flush":
			ob.Err = errClass(lp.ForceFlush(ctxFor(o.B)))
		case "shutdown":
			ob.Err = errClass(lp.Shutdown(ctxFor(o.B)))
		}
		ob.Calls, ob.XCalls = rec.take()
		ob.Wrote = out.Len() > before
		res.Obs = append(res.Obs, ob)
	}
	return res
}

// storm: concurrent Shutdown / Unregister / Register / End callers.
func childStorm(sc scenario) resultJ {
	rec := &recorder{}
	out := &syncBuf{}
	r := vgen.NewRand(sc.Seed)
	total := sc.N + sc.Extra
	procs := make([]*countProc, total)
	kinds := []string{"PCount", "PSimple XStd", "PBatch XStd", "PSimple XNil", "PBatch XNil", "PBatch XMem"}
	chosen := make([]string, total)
	for i := range procs {
		chosen[i] = kinds[r.Intn(len(kinds))]
		procs[i] = mkSpanProc(i, chosen[i], rec, out)
		if i < sc.N && r.Chance(1, 2) {
			procs[i].slow = time.Duration(r.Range(50, 800)) * time.Microsecond
		}
	}
	var opts []sdktrace.TracerProviderOption
	for i := 0; i < sc.N; i++ {
		opts = append(opts, sdktrace.WithSpanProcessor(procs[i]))
	}
	tp := sdktrace.NewTracerProvider(opts...)
	tr := tp.Tracer("storm")
	_, preSpan := tr.Start(context.Background(), "started-before-the-storm")
	type act struct{ k, p int }
	plans := make([][]act, sc.G)
	extra := sc.N
	hasShutdown := false
	for g := range plans {
		n := r.Range(1, 4)
		for j := 0; j < n; j++ {
			a := act{k: r.Intn(5)}
			switch a.k {
			case 0:
				hasShutdown = true
			case 1, 2:
				a.k = 1
				a.p = r.Intn(sc.N)
			case 3:
				if extra < total {
					a.p = extra
					extra++
				} else {
					a.k = 4
				}
			}
			plans[g] = append(plans[g], a)
		}
	}
	if !hasShutdown {
		plans[0] = append(plans[0], act{k: 0})
	}
	var wg sync.WaitGroup
	start := make(chan struct{})
	for g := range plans {
		wg.Add(1)
		go func(plan []act) {
			defer wg.Done()
			<-start
			for _, a := range plan {
				switch a.k {
				case 0:
					tp.Shutdown(context.Background())
				case 1:
					tp.UnregisterSpanProcessor(procs[a.p])
				case 3:
					tp.RegisterSpanProcessor(procs[a.p])
				default:
					_, sp := tr.Start(context.Background(), "s")
					sp.End()
				}
			}
		}(plans[g])
	}
	close(start)
	wg.Wait()
	var res resultJ
	res.StormKinds = chosen
	res.Shutdowns = make([]int, total)
	res.XShutdowns = make([]int, total)
	calls, xcalls := rec.take()
	for _, c := range calls {
		if c.K == "KShutdown" {
			res.Shutdowns[c.ID]++
		}
	}
	for _, c := range xcalls {
		if c.K == "KXShutdown" {
			res.XShutdowns[c.ID]++
		}
	}
	// Shutdown has returned: spans from a tracer obtained before it, and the span started before the
	// storm, must not reach any processor any more (in particular not one registered behind Shutdown's back)
	_, late := tr.Start(context.Background(), "from-a-pre-shutdown-tracer")
	late.End()
	preSpan.End()
	calls, xcalls = rec.take()
	for _, c := range calls {
		if c.K == "KOnStart" || c.K == "KOnEnd" {
			res.Late++
		}
		if c.K == "KShutdown" {
			res.Shutdowns[c.ID]++
		}
	}
	for _, c := range xcalls {
		if c.K == "KXShutdown" {
			res.XShutdowns[c.ID]++
		}
	}
	_, sp := tp.Tracer("after").Start(context.Background(), "s")
	res.FreshRec = sp.IsRecording()
	sp.End()
	res.FlushErr = errClass(tp.ForceFlush(context.Background()))
	res.ShutErr = errClass(tp.Shutdown(context.Background()))
	calls, xcalls = rec.take()
	for _, c := range calls { // a second Shutdown must not reach any processor (or exporter) again
		if c.K == "KShutdown" {
			res.Shutdowns[c.ID]++
		}
	}
	for _, c := range xcalls {
		if c.K == "KXShutdown" {
			res.XShutdowns[c.ID]++
		}
	}
	return res
}

func buildLog(kinds []string, rec *recorder, out *syncBuf) *sdklog.LoggerProvider {
	var opts []sdklog.LoggerProviderOption
	for i, k := range kinds {
		var exp sdklog.Exporter
		if strings.HasSuffix(k, "XStd") {
			e, _ := stdoutlog.New(stdoutlog.WithWriter(out))
			exp = &countLogExp{i, e, rec}
		}
		var inner sdklog.Processor
		if strings.HasPrefix(k, "LSimple") {
			inner = sdklog.NewSimpleProcessor(exp)
		} else {
			inner = sdklog.NewBatchProcessor(exp, sdklog.WithExportInterval(time.Hour), sdklog.WithExportTimeout(sdkTimeout))
		}
		opts = append(opts, sdklog.WithProcessor(&countLogProc{i, inner, rec}))
	}
	return sdklog.NewLoggerProvider(opts...)
}

func buildMetric(kinds []string, rec *recorder, out *syncBuf) (*sdkmetric.MeterProvider, []sdkmetric.Reader) {
	var readers []sdkmetric.Reader
	var opts []sdkmetric.Option
	for i, k := range kinds {
		var r sdkmetric.Reader
		switch k {
		case "RManual":
			r = sdkmetric.NewManualReader()
		case "RPeriodic XStd":
			e, _ := stdoutmetric.New(stdoutmetric.WithWriter(out))
			r = sdkmetric.NewPeriodicReader(&countMetricExp{id: i, inner: e, rec: rec}, sdkmetric.WithInterval(time.Hour), sdkmetric.WithTimeout(sdkTimeout))
		default: // RPeriodic XNil
			r = sdkmetric.NewPeriodicReader(nil, sdkmetric.WithInterval(time.Hour), sdkmetric.WithTimeout(sdkTimeout))
		}
		readers = append(readers, r)
		opts = append(opts, sdkmetric.WithReader(r))
	}
	return sdkmetric.NewMeterProvider(opts...), readers
}

// spinBarrier releases all callers at (nearly) the same instant; it yields now and then so
// that an oversubscribed machine only makes it slower.
func spinWait(start *atomic.Bool) {
	for n := 0; !start.Load(); n++ {
		if n&255 == 255 {
			runtime.Gosched()
		}
	}
}

// childLMStorm: rounds of 2..G callers of Shutdown / ForceFlush released at once on a fresh
// LoggerProvider (log = true) or MeterProvider. The callers are persistent goroutines spinning on a
// round counter (yielding now and then), so that a release reaches all of them within a cache miss;
// identical round outcomes are merged.
func childLMStorm(sc scenario, log bool) resultJ {
	r := vgen.NewRand(sc.Seed)
	merged := map[string]*roundJ{}
	var order []string
	type job struct {
		lp         *sdklog.LoggerProvider
		mp         *sdkmetric.MeterProvider
		isShutdown []bool
		errs       []string
	}
	var cur atomic.Pointer[job]
	var round, done atomic.Int64
	var stop atomic.Bool
	var wg sync.WaitGroup
	for g := 0; g < sc.G; g++ {
		wg.Add(1)
		go func(g int) {
			defer wg.Done()
			last := int64(0)
			for n := 0; ; n++ {
				now := round.Load()
				if now == last {
					if stop.Load() {
						return
					}
					if n&1023 == 1023 {
						runtime.Gosched()
					}
					continue
				}
				last = now
				j := cur.Load()
				if g < len(j.isShutdown) {
					var err error
					switch {
					case j.lp != nil && j.isShutdown[g]:
						err = j.lp.Shutdown(context.Background())
					case j.lp != nil:
						err = j.lp.ForceFlush(context.Background())
					case j.isShutdown[g]:
						err = j.mp.Shutdown(context.Background())
					default:
						err = j.mp.ForceFlush(context.Background())
					}
					j.errs[g] = errClass(err)
				}
				done.Add(1)
			}
		}(g)
	}
	// The spinning callers crawl on an oversubscribed machine: after the first 20 rounds the child stops when
	// its time budget is used up and reports how many rounds it ran.
	deadline := time.Now().Add(time.Duration(sc.BudgetMs) * time.Millisecond)
	roundsDone := 0
	for rn := 0; rn < sc.N && (rn < 20 || sc.BudgetMs == 0 || time.Now().Before(deadline)); rn++ {
		roundsDone++
		rec := &recorder{}
		out := &syncBuf{}
		G := r.Range(2, sc.G)
		j := &job{isShutdown: make([]bool, G), errs: make([]string, G)}
		for g := range j.isShutdown {
			j.isShutdown[g] = g < 2 || r.Chance(3, 4)
		}
		var readers []sdkmetric.Reader
		if log {
			j.lp = buildLog(sc.Kinds, rec, out)
			l := j.lp.Logger("storm")
			var lr otellog.Record
			lr.SetBody(otellog.StringValue("x"))
			for i := 0; i < r.Intn(3); i++ {
				l.Emit(context.Background(), lr)
			}
		} else {
			j.mp, readers = buildMetric(sc.Kinds, rec, out)
			c, _ := j.mp.Meter("storm").Int64Counter("c")
			c.Add(context.Background(), 1)
		}
		rec.take()
		cur.Store(j)
		done.Store(0)
		round.Add(1)
		for n := 0; done.Load() != int64(sc.G); n++ {
			if n&1023 == 1023 {
				runtime.Gosched()
			}
		}
		rd := roundJ{PShut: make([]int, len(sc.Kinds)), XShut: make([]int, len(sc.Kinds)), Count: 1}
		calls, xcalls := rec.take()
		for _, c := range calls {
			if c.K == "KShutdown" {
				rd.PShut[c.ID]++
			}
		}
		for _, c := range xcalls {
			if c.K == "KXShutdown" {
				rd.XShut[c.ID]++
			}
		}
		for g := 0; g < G; g++ {
			if j.isShutdown[g] {
				rd.ShutErrs = append(rd.ShutErrs, j.errs[g])
			} else {
				rd.FlushErrs = append(rd.FlushErrs, j.errs[g])
			}
		}
		sort.Strings(rd.ShutErrs)
		sort.Strings(rd.FlushErrs)
		if !log {
			for _, rdr := range readers {
				var rm metricdata.ResourceMetrics
				rd.CollectAfter = append(rd.CollectAfter, errClass(rdr.Collect(context.Background(), &rm)))
			}
		}
		key, _ := json.Marshal(rd)
		if m, ok := merged[string(key)]; ok {
			m.Count++
		} else {
			merged[string(key)] = &rd
			order = append(order, string(key))
		}
	}
	stop.Store(true)
	wg.Wait()
	var res resultJ
	res.RoundsDone = roundsDone
	for _, k := range order {
		res.Rounds = append(res.Rounds, *merged[k])
	}
	return res
}

func childMain() {
	var sc scenario
	if err := json.NewDecoder(os.Stdin).Decode(&sc); err != nil {
		fmt.Fprintln(os.Stderr, "child: bad scenario:", err)
		os.Exit(3)
	}
	var res resultJ
	func() {
		defer func() {
			if e := recover(); e != nil {
				res.Panic = fmt.Sprint(e)
			}
		}()
		switch sc.Kind {
		case "trace":
			res = childTrace(sc)
		case "metric":
			res = childMetric(sc)
		case "log":
			res = childLog(sc)
		case "storm":
			res = childStorm(sc)
		case "lstorm":
			res = childLMStorm(sc, true)
		case "mstorm":
			res = childLMStorm(sc, false)
		case "direct":
			res = childDirect(sc, false)
		case "directlog":
			res = childDirect(sc, true)
		case "dstorm":
			res = childDStorm(sc)
		case "reader":
			res = childReader(sc)
		case "rstorm":
			res = childRStorm(sc)
		case "fail":
			res = childFail(sc)
		case "topt":
			res = childTraceOpt(sc)
		case "reent":
			res = childReent(sc)
		case "dslow":
			res = childDSlow(sc)
		case "dcancel":
			res = childDCancel(sc)
		case "bspflush":
			res = childBSPFlush(sc)
		case "mgate":
			res = childMGate(sc)
		}
	}()
	b, _ := json.Marshal(res)
	os.Stdout.Write(b)
}

// ---- parent side ----

type outcome struct {
	res     resultJ
	crashed bool
	hung    bool
	skipped bool // not run: three scenarios of its kind had already exceeded their watchdog
	log     string
}

var (
	kindTimeMu sync.Mutex
	kindTime   = map[string]time.Duration{}
	hungByKind = map[string]int{}
)

// childWatchdog: a sequence takes milliseconds, a storm child a few seconds (its own time budget).
func childWatchdog(sc scenario) time.Duration {
	if strings.HasSuffix(sc.Kind, "storm") {
		return 90 * time.Second
	}
	return 20 * time.Second
}

func runChild(sc scenario) outcome { return runChildT(sc, childWatchdog(sc)) }

// refScenario: a trivial sequence known to terminate, run over and over next to a re-run (see below).
var refScenario = scenario{Kind: "metric", Kinds: []string{"RPeriodic XStd"}, Ops: []opJ{{K: "add"}, {K: "flush", B: true}, {K: "shutdown", B: true}}}

// rerunAlone runs sc once more, alone, while reference children are run one after the other; it returns the
// outcome and how many reference children completed (correctly) in the meantime.
func rerunAlone(sc scenario, d time.Duration) (outcome, int) {
	stop := make(chan struct{})
	refs := make(chan int, 1)
	go func() {
		n := 0
		for {
			select {
			case <-stop:
				refs <- n
				return
			default:
			}
			if o := runChildT(refScenario, d); !o.hung && !o.crashed && len(o.res.Obs) == len(refScenario.Ops) {
				n++
			}
		}
	}()
	o := runChildT(sc, d)
	close(stop)
	return o, <-refs
}

func runChildT(sc scenario, d time.Duration) outcome {
	in, _ := json.Marshal(sc)
	ctx, cancel := context.WithTimeout(context.Background(), d)
	defer cancel()
	cmd := exec.CommandContext(ctx, os.Args[0], "-child", "-out", "unused")
	cmd.Stdin = bytes.NewReader(in)
	var so, se bytes.Buffer
	cmd.Stdout, cmd.Stderr = &so, &se
	err := cmd.Run()
	var o outcome
	o.log = tailStr(se.String(), 3000)
	if ctx.Err() != nil {
		o.hung = true
		return o
	}
	if err != nil {
		o.crashed = true
		return o
	}
	if json.Unmarshal(so.Bytes(), &o.res) != nil {
		o.crashed = true
		return o
	}
	if o.res.Panic != "" {
		o.crashed = true
		o.log = "panic: " + o.res.Panic + "\n" + o.log
	}
	return o
}

// liveCtx: does the operation pass a live (not cancelled) context? Start/End/Reg/Unreg/Add/Emit/Collect always do.
func liveCtx(kind string, o opJ) bool {
	switch o.K {
	case "flush", "shutdown":
		return o.B
	}
	return true
}

func tailStr(s string, n int) string {
	if len(s) > n {
		return s[len(s)-n:]
	}
	return s
}

func callsCoq(cs []callJ) string {
	var s []string
	for _, c := range cs {
		s = append(s, fmt.Sprintf("(%d,%s)", c.ID, c.K))
	}
	return "[" + strings.Join(s, ";") + "]"
}

func obsCoq(os_ []obsJ) string {
	var s []string
	for _, o := range os_ {
		s = append(s, fmt.Sprintf("OB %s %v %s %s %v", o.Err, o.Flag, callsCoq(o.Calls), callsCoq(o.XCalls), o.Wrote))
	}
	return "[" + strings.Join(s, "; ") + "]"
}

func opCoq(kind string, o opJ) string {
	switch o.K {
	case "reg":
		return fmt.Sprintf("Reg %d", o.P)
	case "unreg":
		return fmt.Sprintf("Unreg %d", o.P)
	case "start":
		return fmt.Sprintf("TStart %v", o.B)
	case "end":
		return fmt.Sprintf("End_ %d", o.P)
	case "add":
		return fmt.Sprintf("MAdd %v", o.B)
	case "collect":
		return fmt.Sprintf("Collect %d", o.P)
	case "emit":
		return fmt.Sprintf("LEmit %v", o.B)
	case "flush":
		return map[string]string{"trace": "TFlush", "metric": "MFlush", "log": "LFlush"}[kind] + fmt.Sprintf(" %v", o.B)
	}
	return map[string]string{"trace": "TShutdown", "metric": "MShutdown", "log": "LShutdown"}[kind] + fmt.Sprintf(" %v", o.B)
}

func intsCoq(xs []int) string {
	var s []string
	for _, x := range xs {
		s = append(s, fmt.Sprint(x))
	}
	return "[" + strings.Join(s, ";") + "]"
}

func stormCoq(sc scenario, rd roundJ) string {
	kinds := make([]string, len(sc.Kinds))
	for i, k := range sc.Kinds {
		kinds[i] = k
		if strings.Contains(k, " ") {
			kinds[i] = "(" + k + ")"
		}
	}
	kl := "[" + strings.Join(kinds, "; ") + "]"
	errs := func(e []string) string { return "[" + strings.Join(e, ";") + "]" }
	if sc.Kind == "lstorm" {
		return fmt.Sprintf("CStormL %s %s %s %s %s", kl, intsCoq(rd.PShut), intsCoq(rd.XShut), errs(rd.ShutErrs), errs(rd.FlushErrs))
	}
	return fmt.Sprintf("CStormM %s %s %s %s %s", kl, intsCoq(rd.XShut), errs(rd.ShutErrs), errs(rd.FlushErrs), errs(rd.CollectAfter))
}

func scenarioCoq(sc scenario, res *resultJ) string {
	var ops []string
	for _, o := range sc.Ops {
		ops = append(ops, opCoq(sc.Kind, o))
	}
	kinds := make([]string, len(sc.Kinds))
	for i, k := range sc.Kinds {
		kinds[i] = k
		if strings.Contains(k, " ") {
			kinds[i] = "(" + k + ")"
		}
	}
	opl := "[" + strings.Join(ops, "; ") + "]"
	kl := "[" + strings.Join(kinds, "; ") + "]"
	switch sc.Kind {
	case "trace":
		var ms []string
		for _, m := range sc.Members {
			ms = append(ms, fmt.Sprint(m))
		}
		return fmt.Sprintf("CT %s [%s] %s %s", kl, strings.Join(ms, ";"), opl, obsCoq(res.Obs))
	case "metric":
		if res == nil {
			return fmt.Sprintf("CM %s %s None", kl, opl)
		}
		return fmt.Sprintf("CM %s %s (Some %s)", kl, opl, obsCoq(res.Obs))
	case "log":
		if res == nil {
			return fmt.Sprintf("CL %s %s None", kl, opl)
		}
		return fmt.Sprintf("CL %s %s (Some %s)", kl, opl, obsCoq(res.Obs))
	}
	var sh []string
	for _, c := range res.Shutdowns {
		sh = append(sh, fmt.Sprint(c))
	}
	sk := make([]string, len(res.StormKinds))
	for i, k := range res.StormKinds {
		sk[i] = k
		if strings.Contains(k, " ") {
			sk[i] = "(" + k + ")"
		}
	}
	return fmt.Sprintf("CStorm [%s] %d %d [%s] %s %d %v %s %s", strings.Join(sk, "; "), sc.N, sc.Extra, strings.Join(sh, ";"), intsCoq(res.XShutdowns), res.Late, res.FreshRec, res.FlushErr, res.ShutErr)
}

// ---- generators ----

var traceKinds = []string{"PCount", "PSimple XStd", "PSimple XNil", "PSimple XMem", "PBatch XStd", "PBatch XNil", "PBatch XMem"}

func genTrace(r *vgen.Rand) scenario {
	n := r.Range(1, 5)
	sc := scenario{Kind: "trace"}
	for i := 0; i < n; i++ {
		sc.Kinds = append(sc.Kinds, vgen.Pick(r, traceKinds))
	}
	for i := 0; i < n; i++ {
		if r.Chance(1, 2) {
			sc.Members = append(sc.Members, i)
		}
	}
	nops := r.Range(3, 24)
	started := 0
	shutAt := -1
	if r.Chance(3, 4) {
		shutAt = r.Intn(nops)
	}
	for i := 0; i < nops; i++ {
		var o opJ
		x := r.Intn(20)
		switch {
		case i == shutAt:
			o = opJ{K: "shutdown", B: !r.Chance(1, 6)}
		case x < 4:
			o = opJ{K: "reg", P: r.Intn(n)}
		case x < 8:
			o = opJ{K: "unreg", P: r.Intn(n)}
		case x < 12:
			o = opJ{K: "start", B: r.Bool(), S: r.Bool()}
			started++
		case x < 16 && started > 0:
			o = opJ{K: "end", P: r.Intn(started)}
		case x < 18:
			o = opJ{K: "flush", B: !r.Chance(1, 4)}
		case x < 19:
			o = opJ{K: "shutdown", B: !r.Chance(1, 6)}
		default:
			o = opJ{K: "start", B: r.Bool(), S: r.Bool()}
			started++
		}
		sc.Ops = append(sc.Ops, o)
	}
	return sc
}

func genMetric(r *vgen.Rand) scenario {
	sc := scenario{Kind: "metric"}
	n := r.Range(0, 3) // 0: a provider without readers
	for i := 0; i < n; i++ {
		k := vgen.Pick(r, []string{"RManual", "RPeriodic XStd", "RPeriodic XStd"})
		sc.Kinds = append(sc.Kinds, k)
	}
	nops := r.Range(2, 14)
	periodic := false
	for _, k := range sc.Kinds {
		periodic = periodic || k == "RPeriodic XStd"
	}
	if periodic && r.Chance(1, 4) {
		// slow exporter, ForceFlush whose caller gives up while the export is in flight, then (mostly) Shutdown
		sc.Slow = r.Range(100, 300)
		nops = r.Range(2, 5)
	}
	shutAt := r.Intn(nops + 2)
	for i := 0; i < nops; i++ {
		var o opJ
		x := r.Intn(10)
		switch {
		case sc.Slow > 0 && i == 0:
			o = opJ{K: "flush", D: r.Range(10, 50)}
		case sc.Slow > 0 && i == 1 && r.Chance(3, 4):
			o = opJ{K: "shutdown", B: true}
		case i == shutAt:
			o = opJ{K: "shutdown", B: !r.Chance(1, 5)}
		case x < 4:
			o = opJ{K: "add", B: r.Bool(), S: r.Bool()}
		case x < 6 && n > 0:
			o = opJ{K: "collect", P: r.Intn(n)}
		case x < 9:
			o = opJ{K: "flush", B: !r.Chance(1, 5)}
		default:
			o = opJ{K: "shutdown", B: !r.Chance(1, 5)}
		}
		sc.Ops = append(sc.Ops, o)
	}
	return sc
}

func genLog(r *vgen.Rand) scenario {
	sc := scenario{Kind: "log"}
	n := r.Range(0, 3) // 0: a provider without processors
	for i := 0; i < n; i++ {
		sc.Kinds = append(sc.Kinds, vgen.Pick(r, []string{"LSimple XStd", "LSimple XNil", "LBatch XStd", "LBatch XNil"}))
	}
	nops := r.Range(2, 14)
	shutAt := r.Intn(nops + 2)
	for i := 0; i < nops; i++ {
		var o opJ
		x := r.Intn(10)
		switch {
		case i == shutAt:
			o = opJ{K: "shutdown", B: !r.Chance(1, 5)}
		case x < 5:
			o = opJ{K: "emit", B: r.Bool(), S: r.Bool()}
		case x < 8:
			o = opJ{K: "flush", B: !r.Chance(1, 5)}
		default:
			o = opJ{K: "shutdown", B: !r.Chance(1, 5)}
		}
		sc.Ops = append(sc.Ops, o)
	}
	return sc
}

func main() {
	child := flag.Bool("child", false, "run one scenario read from stdin")
	o := vgen.ParseFlags()
	if *child {
		childMain()
		return
	}
	r := vgen.NewRand(o.Seed)
	w := vgen.NewWriter(o.Out, "C15.Spec C15.Model C15.Corr", "case", 96)
	w.Rule = "operation sequences over the trace provider (Register/Unregister/Start/End/ForceFlush/Shutdown, counting wrappers around every stock processor incl. nil exporters), " +
		"the metric provider (manual and periodic readers, stdoutmetric) and the log provider (simple and batch processors, stdoutlog, nil exporters), each in its own child process, " +
		"plus concurrent Shutdown/Unregister/Register/End storms; non-trivial = the sequence contains a Shutdown or an Unregister; distinct = distinct Coq case terms"

	var scs []scenario
	// fixed corpus (runs first)
	scs = append(scs,
		// F-C15-1: unregistering a never-registered processor must not remove the first one
		scenario{Kind: "trace", Kinds: []string{"PCount", "PCount", "PCount"}, Members: []int{0, 1},
			Ops: []opJ{{K: "unreg", P: 2}, {K: "start"}, {K: "end", P: 0}, {K: "shutdown", B: true}}},
		// F-C15-2: simple span processor around a nil exporter
		scenario{Kind: "trace", Kinds: []string{"PSimple XNil"}, Members: []int{0},
			Ops: []opJ{{K: "start"}, {K: "end", P: 0}, {K: "shutdown", B: true}, {K: "shutdown", B: true}}},
		scenario{Kind: "trace", Kinds: []string{"PSimple XNil", "PBatch XNil"}, Members: []int{0, 1},
			Ops: []opJ{{K: "unreg", P: 0}, {K: "unreg", P: 1}, {K: "flush", B: true}, {K: "shutdown", B: true}}},
		// F-C15-3: Shutdown with an already cancelled context
		scenario{Kind: "trace", Kinds: []string{"PCount", "PSimple XStd"}, Members: []int{0, 1},
			Ops: []opJ{{K: "start"}, {K: "shutdown", B: false}, {K: "end", P: 0}, {K: "shutdown", B: true}, {K: "start", B: true}}},
		// same processor registered twice, unregistered once
		scenario{Kind: "trace", Kinds: []string{"PCount", "PBatch XStd"}, Members: []int{0, 1, 0},
			Ops: []opJ{{K: "start"}, {K: "unreg", P: 0}, {K: "end", P: 0}, {K: "flush", B: true}, {K: "shutdown", B: true}, {K: "flush", B: true}}},
		// F-C15-4: periodic reader around a nil exporter
		scenario{Kind: "metric", Kinds: []string{"RPeriodic XNil"}, Ops: []opJ{{K: "add", B: true}, {K: "flush", B: true}, {K: "shutdown", B: true}}},
		scenario{Kind: "metric", Kinds: []string{"RManual", "RPeriodic XStd"},
			Ops: []opJ{{K: "add"}, {K: "flush", B: true}, {K: "shutdown", B: true}, {K: "add", B: true}, {K: "flush", B: true}, {K: "collect", P: 0}, {K: "shutdown", B: true}}},
		scenario{Kind: "log", Kinds: []string{"LSimple XStd", "LBatch XNil", "LSimple XNil", "LBatch XStd"},
			Ops: []opJ{{K: "emit"}, {K: "flush", B: true}, {K: "shutdown", B: true}, {K: "emit"}, {K: "emit", B: true}, {K: "flush", B: true}, {K: "shutdown", B: true}}},
	)
	scs = append(scs,
		// a handle for the SAME scope requested again after Shutdown must be a no-op one
		scenario{Kind: "trace", Kinds: []string{"PCount", "PSimple XStd"}, Members: []int{0, 1},
			Ops: []opJ{{K: "start"}, {K: "shutdown", B: true}, {K: "start", B: true, S: true}, {K: "end", P: 1}, {K: "end", P: 0}}},
		scenario{Kind: "metric", Kinds: []string{"RManual", "RPeriodic XStd"},
			Ops: []opJ{{K: "add"}, {K: "shutdown", B: true}, {K: "add", B: true, S: true}, {K: "flush", B: true}}},
		// slow exporter; the ForceFlush caller's context expires while the export is in flight; Shutdown must still return
		scenario{Kind: "metric", Kinds: []string{"RPeriodic XStd"}, Slow: 200,
			Ops: []opJ{{K: "add"}, {K: "flush", D: 20}, {K: "shutdown", B: true}, {K: "collect", P: 0}}},
		scenario{Kind: "metric", Kinds: []string{"RPeriodic XStd", "RManual"}, Slow: 120,
			Ops: []opJ{{K: "flush", D: 40}, {K: "flush", B: true}, {K: "add"}, {K: "shutdown", B: true}, {K: "shutdown", B: true}}},
		scenario{Kind: "log", Kinds: []string{"LSimple XStd", "LBatch XStd"},
			Ops: []opJ{{K: "emit"}, {K: "shutdown", B: true}, {K: "emit", B: true, S: true}, {K: "flush", B: true}}},
	)
	nCorpus := len(scs)
	for i := 0; i < o.Count(450, 6000); i++ {
		scs = append(scs, genTrace(r))
	}
	for i := 0; i < o.Count(150, 2000); i++ {
		scs = append(scs, genMetric(r))
	}
	for i := 0; i < o.Count(150, 2000); i++ {
		scs = append(scs, genLog(r))
	}
	for i := 0; i < o.Count(150, 2500); i++ {
		scs = append(scs, scenario{Kind: "storm", N: r.Range(1, 5), Extra: r.Range(0, 3), G: r.Range(2, 12), Seed: r.U64()})
	}

	logKinds := []string{"LSimple XStd", "LSimple XNil", "LBatch XStd", "LBatch XNil"}
	for i := 0; i < o.Count(10, 60); i++ {
		sc := scenario{Kind: "lstorm", N: o.Count(400, 2000), G: r.Range(3, 8), Seed: r.U64(), BudgetMs: o.Count(4000, 20000)}
		for j := 0; j < r.Range(1, 3); j++ {
			sc.Kinds = append(sc.Kinds, vgen.Pick(r, logKinds))
		}
		scs = append(scs, sc)
	}
	for i := 0; i < o.Count(10, 60); i++ {
		sc := scenario{Kind: "mstorm", N: o.Count(400, 2000), G: r.Range(3, 8), Seed: r.U64(), BudgetMs: o.Count(4000, 20000)}
		for j := 0; j < r.Range(1, 3); j++ {
			sc.Kinds = append(sc.Kinds, vgen.Pick(r, []string{"RManual", "RPeriodic XStd", "RPeriodic XStd", "RPeriodic XNil"}))
		}
		scs = append(scs, sc)
	}

	// coverage-audit additions: components used directly, readers on 0/1/2 providers, failing processors,
	// provider option spellings, concurrent direct callers
	scs = append(scs,
		scenario{Kind: "direct", Kinds: []string{"PBatch XStd"}, Ops: []opJ{{K: "onend"}, {K: "flush"}, {K: "onend"}, {K: "shutdown"}, {K: "shutdown"}, {K: "onend"}, {K: "flush"}}},
		scenario{Kind: "direct", Kinds: []string{"PSimple XStd"}, Ops: []opJ{{K: "onend"}, {K: "shutdown"}, {K: "shutdown"}, {K: "onend"}, {K: "flush"}}},
		scenario{Kind: "directlog", Kinds: []string{"LBatch XStd"}, Ops: []opJ{{K: "onend"}, {K: "flush"}, {K: "onend"}, {K: "shutdown"}, {K: "shutdown"}, {K: "onend"}, {K: "flush"}}},
		scenario{Kind: "reader", Kinds: []string{"RPeriodic XStd"}, Reg: 2, Ops: []opJ{{K: "rcollect"}, {K: "pshutdown", B: true}, {K: "pshutdown"}, {K: "rshutdown"}, {K: "rcollect"}, {K: "rflush"}}},
		scenario{Kind: "reader", Kinds: []string{"RManual"}, Reg: 1, Ops: []opJ{{K: "rshutdown"}, {K: "pshutdown"}, {K: "pshutdown"}, {K: "rcollect"}}},
		scenario{Kind: "reader", Kinds: []string{"RPeriodic XStd"}, Reg: 0, Ops: []opJ{{K: "rcollect"}, {K: "rflush"}, {K: "rshutdown"}, {K: "rshutdown"}, {K: "rcollect"}}},
		scenario{Kind: "fail", Kinds: []string{"PCount", "PCount", "PCount"}, Fails: []int{1}, Members: []int{0, 1, 2}, Ops: []opJ{{K: "flush"}, {K: "shutdown"}, {K: "shutdown"}}},
		scenario{Kind: "fail", Kinds: []string{"PCount", "PCount", "PCount"}, Fails: []int{0, 2}, Members: []int{0, 1, 2}, Ops: []opJ{{K: "unreg", P: 0}, {K: "flush"}, {K: "shutdown"}}},
	)
	for i := 0; i < o.Count(70, 900); i++ {
		scs = append(scs, genDirect(r, false))
	}
	for i := 0; i < o.Count(50, 700); i++ {
		scs = append(scs, genDirect(r, true))
	}
	for i := 0; i < o.Count(90, 1200); i++ {
		scs = append(scs, genReader(r))
	}
	for i := 0; i < o.Count(50, 700); i++ {
		scs = append(scs, genFail(r))
	}
	for i := 0; i < o.Count(70, 900); i++ {
		scs = append(scs, genTraceOpt(r))
	}
	scs = append(scs,
		// the processor's Shutdown unregisters itself / registers another / flushes / shuts down, re-entrantly
		scenario{Kind: "reent", Kinds: []string{"trace"}, Nest: []nestJ{{"shutdown", "unreg0"}, {"shutdown", "reg2"}, {"shutdown", "flush"}, {"shutdown", "shutdown"}, {"shutdown", "handle"}},
			Ops: []opJ{{K: "start"}, {K: "end"}, {K: "flush"}}},
		scenario{Kind: "reent", Kinds: []string{"trace"}, Nest: []nestJ{{"onend", "shutdown"}, {"flush", "unreg0"}, {"onend", "reg2"}},
			Ops: []opJ{{K: "start"}, {K: "flush"}, {K: "end"}, {K: "start"}}},
		scenario{Kind: "reent", Kinds: []string{"log"}, Nest: []nestJ{{"shutdown", "shutdown"}, {"shutdown", "flush"}, {"onend", "handle"}}, Ops: []opJ{{K: "start"}, {K: "flush"}}},
		scenario{Kind: "reent", Kinds: []string{"metric"}, Nest: []nestJ{{"shutdown", "flush"}, {"shutdown", "handle"}}, Ops: []opJ{{K: "start"}, {K: "flush"}}},
		// instrumented exporter: its Shutdown ends a span on the same provider; processor Shutdown / Unregister / provider Shutdown, no deadline
		scenario{Kind: "reent", Kinds: []string{"xsimple"}, Extra: 0, Nest: []nestJ{{"xshutdown", "span"}}, Ops: []opJ{{K: "start"}, {K: "end"}}},
		scenario{Kind: "reent", Kinds: []string{"xsimple"}, Extra: 1, Nest: []nestJ{{"xshutdown", "span"}}, Ops: []opJ{{K: "start"}, {K: "end"}}},
		scenario{Kind: "reent", Kinds: []string{"xsimple"}, Extra: 2, Nest: []nestJ{{"xshutdown", "span"}}, Ops: []opJ{{K: "start"}, {K: "end"}}},
		scenario{Kind: "reent", Kinds: []string{"xbatch"}, Extra: 1, Nest: []nestJ{{"xshutdown", "span"}, {"xexport", "span"}}, Ops: []opJ{{K: "start"}, {K: "end"}, {K: "flush"}}},
	)
	for i := 0; i < o.Count(60, 800); i++ {
		scs = append(scs, genReent(r))
	}
	for i := 0; i < o.Count(12, 60); i++ {
		k := vgen.Pick(r, append(append([]string{}, traceKinds[1:]...), logKinds...))
		scs = append(scs, scenario{Kind: "dstorm", Kinds: []string{k}, N: o.Count(150, 1000), G: r.Range(2, 6), Seed: r.U64()})
	}
	// ForceFlush queued behind an export in flight while Shutdown closes the stop channel (12 tries per child, 50 % each
	// would hang a broken processor); periodic reader shut down with a cancelled context while its export is in flight
	for i := 0; i < o.Count(3, 12); i++ {
		scs = append(scs, scenario{Kind: "bspflush", N: 12}, scenario{Kind: "mgate", N: 6})
	}
	for i := 0; i < o.Count(48, 480); i++ { // first Shutdown with an already-cancelled context, then used and shut down again
		scs = append(scs, genDCancel(r, i))
	}
	for i := 0; i < o.Count(6, 40); i++ { // OnEnd callers racing ONE Shutdown of a simple span processor, exporter 1-5 ms per export
		scs = append(scs, scenario{Kind: "dslow", Kinds: []string{"PSimple XMem"}, N: o.Count(25, 100), G: r.Range(3, 8), Slow: r.Range(1, 5), Seed: r.U64()})
	}
	for i := 0; i < o.Count(6, 40); i++ { // the provider's Shutdown overlapping a direct one, slow exporter (50-200 ms per export)
		scs = append(scs, scenario{Kind: "dslow", Kinds: []string{[]string{"PBatch XMem", "PSimple XMem", "PBatch XMem"}[i%3]}, N: o.Count(4, 12), G: r.Range(2, 5), Slow: r.Range(50, 200), Seed: r.U64()})
	}
	for i := 0; i < o.Count(8, 40); i++ {
		k := vgen.Pick(r, []string{"RManual", "RPeriodic XStd", "RPeriodic XStd", "RPeriodic XNil"})
		scs = append(scs, scenario{Kind: "rstorm", Kinds: []string{k}, Reg: r.Range(1, 2), N: o.Count(150, 1000), G: r.Range(3, 6), Seed: r.U64()})
	}

	// run the children, a few at a time
	outs := make([]outcome, len(scs))
	var wg sync.WaitGroup
	pool := func(width int, pick func(scenario) bool) {
		sem := make(chan struct{}, width)
		for i := range scs {
			if !pick(scs[i]) {
				continue
			}
			wg.Add(1)
			sem <- struct{}{}
			go func(i int) {
				defer wg.Done()
				defer func() { <-sem }()
				kindTimeMu.Lock()
				skip := hungByKind[scs[i].Kind] >= 3
				kindTimeMu.Unlock()
				if skip {
					outs[i].skipped = true
					return
				}
				t0 := time.Now()
				outs[i] = runChild(scs[i])
				kindTimeMu.Lock()
				kindTime[scs[i].Kind] += time.Since(t0)
				if outs[i].hung {
					hungByKind[scs[i].Kind]++
				}
				kindTimeMu.Unlock()
			}(i)
		}
		wg.Wait()
	}
	spinning := func(sc scenario) bool { return sc.Kind == "lstorm" || sc.Kind == "mstorm" }
	pool(6, func(sc scenario) bool { return !spinning(sc) })
	pool(2, spinning) // these children spin on 3-8 cores each: two at a time

	// A child that exceeded its watchdog, or a call made with a live context that came back with a context
	// error (only an SDK-internal timeout under starvation can do that), is re-run ONCE, alone, while trivial
	// reference children are run one after the other. Exceeds its watchdog again although at least 5
	// reference children completed in the meantime: the machine served this harness, the sequence hangs:
	// "Stuck", a VIOLATION (further hanging scenarios are then not re-run). Otherwise (starved machine, or a
	// context error again) the scenario is dropped from the verdict and counted.
	inconclusive := func(i int) string {
		if outs[i].skipped {
			return "skipped"
		}
		if outs[i].hung {
			return "watchdog"
		}
		if outs[i].crashed {
			return ""
		}
		for j, ob := range outs[i].res.Obs {
			if j < len(scs[i].Ops) && ob.Err == "ECtx" && liveCtx(scs[i].Kind, scs[i].Ops[j]) {
				return "context error on a live-context call"
			}
		}
		return ""
	}
	dropped := map[int]string{}
	retried := 0
	stuckRefs := map[int]int{}
	established := false
	retryBudget := time.Duration(o.Count(90, 900)) * time.Second // total time spent on re-runs
	retryStart := time.Now()
	for i := range scs {
		why := inconclusive(i)
		if why == "" {
			continue
		}
		if why == "skipped" {
			dropped[i] = "not run: three scenarios of this kind had already exceeded their watchdog"
			continue
		}
		if established && why == "watchdog" {
			dropped[i] = "exceeded its watchdog; not re-run: a hang is already established"
			continue
		}
		if time.Since(retryStart) < retryBudget {
			retried++
			var refs int
			outs[i], refs = rerunAlone(scs[i], max(childWatchdog(scs[i]), 30*time.Second))
			why = inconclusive(i)
			if why == "watchdog" && refs >= 5 {
				stuckRefs[i] = refs
				established = true
				continue // a genuine hang: reported below as a direct violation
			}
		}
		if why != "" {
			dropped[i] = why
		}
	}
	kt := map[string]string{}
	for k, d := range kindTime {
		kt[k] = d.Round(time.Millisecond).String()
	}
	w.Extra["child_time_by_kind"] = kt
	w.Extra["inconclusive"] = len(dropped)
	w.Extra["retried_runs"] = retried

	stormRounds, stormPlanned := 0, 0
	for i, sc := range scs {
		oc := outs[i]
		kind := sc.Kind
		if i < nCorpus {
			kind += "-corpus"
		}
		desc := map[string]any{"scenario": sc}
		nontriv := sc.Kind == "storm"
		for _, op := range sc.Ops {
			if op.K == "shutdown" || op.K == "unreg" {
				nontriv = true
			}
		}
		w.Tally(fmt.Sprintf("%s:ops=%d", sc.Kind, len(sc.Ops)/8*8))
		if why, ok := dropped[i]; ok {
			w.Tally("inconclusive:" + why)
			continue
		}
		if oc.hung {
			w.Violation(fmt.Sprintf("Stuck: child process running the sequence hung (no result within its watchdog, twice, the second time alone while %d reference child processes ran to completion)", stuckRefs[i]), desc)
			continue
		}
		if oc.crashed {
			desc["child_log"] = oc.log
			w.Violation("child process running the sequence crashed or panicked", desc)
			continue
		}
		if sc.Kind == "dstorm" || sc.Kind == "rstorm" || sc.Kind == "dslow" {
			total := 0
			for _, rd := range oc.res.Rounds {
				total += rd.Count
				d := map[string]any{"scenario": sc, "round_outcome": rd, "rounds_with_this_outcome": rd.Count}
				w.Add(dstormCoq(sc, rd), d, kind, true)
			}
			if total != sc.N {
				w.Violation("storm child returned an incomplete set of rounds", desc)
			}
			continue
		}
		if sc.Kind == "lstorm" || sc.Kind == "mstorm" {
			total := 0
			for _, rd := range oc.res.Rounds {
				total += rd.Count
				d := map[string]any{"scenario": sc, "round_outcome": rd, "rounds_with_this_outcome": rd.Count}
				w.Add(stormCoq(sc, rd), d, kind, true)
			}
			if total != oc.res.RoundsDone || total < min(20, sc.N) {
				w.Violation("storm child returned an incomplete set of rounds", desc)
			}
			stormRounds += total
			stormPlanned += sc.N
			w.Tally(fmt.Sprintf("%s:rounds", sc.Kind))
			continue
		}
		if sc.Kind == "reent" {
			desc["observed"] = oc.res
			w.Add(reentCoq(sc, &oc.res), desc, kind, true)
			continue
		}
		if sc.Kind == "bspflush" {
			desc["observed"] = oc.res
			w.Add(fmt.Sprintf("CDStorm true %d [%s]", oc.res.XShutdowns[0]-sc.N+1, oc.res.ShutErr), desc, kind, true)
			continue
		}
		if sc.Kind == "mgate" {
			desc["observed"] = oc.res
			w.Add(fmt.Sprintf("CDStorm2 true %s %d []", intsCoq(oc.res.XShutdowns), oc.res.Late), desc, kind, true)
			continue
		}
		if sc.Kind == "dcancel" {
			desc["observed"] = oc.res
			w.Add(dcancelCoq(sc, &oc.res), desc, kind, true)
			continue
		}
		if sc.Kind != "storm" && len(oc.res.Obs) != len(sc.Ops) {
			w.Violation("child returned an incomplete observation list", desc)
			continue
		}
		desc["observed"] = oc.res
		switch sc.Kind {
		case "direct", "directlog", "reader", "fail", "topt":
			for _, op := range sc.Ops {
				if strings.HasSuffix(op.K, "shutdown") {
					nontriv = true
				}
			}
			w.Add(directCoq(sc, &oc.res), desc, kind, nontriv)
			continue
		}
		w.Add(scenarioCoq(sc, &oc.res), desc, kind, nontriv)
	}
	w.Extra["log_metric_storm_rounds"] = fmt.Sprintf("%d of %d planned (a child stops at its time budget on a loaded machine)", stormRounds, stormPlanned)
	if err := w.Flush(); err != nil {
		fmt.Fprintln(os.Stderr, err)
		os.Exit(2)
	}
}
