// Components used directly, option spellings, failing processors (coverage audit additions).
package main

import (
	"context"
	"errors"
	"fmt"
	"os"
	"sort"
	"strings"
	"sync"
	"sync/atomic"
	"time"

	"go.opentelemetry.io/otel/attribute"
	"go.opentelemetry.io/otel/exporters/stdout/stdoutlog"
	"go.opentelemetry.io/otel/exporters/stdout/stdoutmetric"
	"go.opentelemetry.io/otel/exporters/stdout/stdouttrace"
	otellog "go.opentelemetry.io/otel/log"
	"go.opentelemetry.io/otel/metric"
	sdklog "go.opentelemetry.io/otel/sdk/log"
	sdkmetric "go.opentelemetry.io/otel/sdk/metric"
	"go.opentelemetry.io/otel/sdk/metric/metricdata"
	sdktrace "go.opentelemetry.io/otel/sdk/trace"
	"go.opentelemetry.io/otel/sdk/trace/tracetest"
	"go.opentelemetry.io/otel/trace"

	"verif/harness/vgen"
)

// ---- stock components in every spelling ----

// batchSpanOpts: the options of NewBatchSpanProcessor / WithBatcher, in the spellings that do not change
// when an export happens (timer off, sizes far above what a scenario produces).
func batchSpanOpts(variant int) []sdktrace.BatchSpanProcessorOption {
	o := []sdktrace.BatchSpanProcessorOption{sdktrace.WithBatchTimeout(time.Hour), sdktrace.WithExportTimeout(sdkTimeout)}
	switch variant % 5 {
	case 1:
		o = append(o, sdktrace.WithBlocking())
	case 2:
		o = append(o, sdktrace.WithMaxQueueSize(4096), sdktrace.WithMaxExportBatchSize(1024))
	case 3:
		o = append(o, sdktrace.WithMaxQueueSize(sdktrace.DefaultMaxQueueSize), sdktrace.WithMaxExportBatchSize(sdktrace.DefaultMaxExportBatchSize))
	case 4:
		o = append(o, sdktrace.WithBlocking(), sdktrace.WithMaxQueueSize(64), sdktrace.WithMaxExportBatchSize(64))
	}
	return o
}

func spanExporter(id int, kind string, rec *recorder, out *syncBuf) sdktrace.SpanExporter {
	switch {
	case strings.HasSuffix(kind, "XStd"):
		e, _ := stdouttrace.New(stdouttrace.WithWriter(out))
		return &countSpanExp{id, e, rec}
	case strings.HasSuffix(kind, "XMem"):
		return &countSpanExp{id, tracetest.NewInMemoryExporter(), rec}
	}
	return nil
}

func stockSpanProc(id int, kind string, variant int, rec *recorder, out *syncBuf) sdktrace.SpanProcessor {
	exp := spanExporter(id, kind, rec, out)
	if strings.HasPrefix(kind, "PSimple") {
		return sdktrace.NewSimpleSpanProcessor(exp)
	}
	return sdktrace.NewBatchSpanProcessor(exp, batchSpanOpts(variant)...)
}

func stockLogProc(id int, kind string, variant int, rec *recorder, out *syncBuf) sdklog.Processor {
	var exp sdklog.Exporter
	if strings.HasSuffix(kind, "XStd") {
		e, _ := stdoutlog.New(stdoutlog.WithWriter(out))
		exp = &countLogExp{id, e, rec}
	}
	if strings.HasPrefix(kind, "LSimple") {
		return sdklog.NewSimpleProcessor(exp)
	}
	o := []sdklog.BatchProcessorOption{sdklog.WithExportInterval(time.Hour), sdklog.WithExportTimeout(sdkTimeout)}
	switch variant % 4 {
	case 1:
		o = append(o, sdklog.WithMaxQueueSize(4096), sdklog.WithExportMaxBatchSize(1024))
	case 2:
		o = append(o, sdklog.WithExportBufferSize(4))
	case 3:
		o = append(o, sdklog.WithMaxQueueSize(64), sdklog.WithExportMaxBatchSize(64), sdklog.WithExportBufferSize(1))
	}
	return sdklog.NewBatchProcessor(exp, o...)
}

type nopProducer struct{}

func (nopProducer) Produce(context.Context) ([]metricdata.ScopeMetrics, error) { return nil, nil }

func stockReader(kind string, variant int, rec *recorder, out *syncBuf) sdkmetric.Reader {
	switch kind {
	case "RManual":
		switch variant % 3 {
		case 1:
			return sdkmetric.NewManualReader(sdkmetric.WithTemporalitySelector(sdkmetric.DefaultTemporalitySelector), sdkmetric.WithAggregationSelector(sdkmetric.DefaultAggregationSelector))
		case 2:
			return sdkmetric.NewManualReader(sdkmetric.WithProducer(nopProducer{}))
		}
		return sdkmetric.NewManualReader()
	case "RPeriodic XStd":
		e, _ := stdoutmetric.New(stdoutmetric.WithWriter(out))
		o := []sdkmetric.PeriodicReaderOption{sdkmetric.WithInterval(time.Hour), sdkmetric.WithTimeout(sdkTimeout)}
		if variant%2 == 1 {
			o = append(o, sdkmetric.WithProducer(nopProducer{}))
		}
		return sdkmetric.NewPeriodicReader(&countMetricExp{id: 0, inner: e, rec: rec}, o...)
	}
	return sdkmetric.NewPeriodicReader(nil, sdkmetric.WithInterval(time.Hour), sdkmetric.WithTimeout(sdkTimeout))
}

var sampledSC = trace.NewSpanContext(trace.SpanContextConfig{TraceID: trace.TraceID{1}, SpanID: trace.SpanID{2}, TraceFlags: trace.FlagsSampled})

func endedSpan() sdktrace.ReadOnlySpan {
	return tracetest.SpanStub{Name: "s", SpanContext: sampledSC, StartTime: time.Unix(1, 0), EndTime: time.Unix(2, 0)}.Snapshot()
}

// ---- children ----

// childDirect: one stock span processor (log = false) or log processor driven directly.
func childDirect(sc scenario, log bool) resultJ {
	rec := &recorder{}
	out := &syncBuf{}
	var sp sdktrace.SpanProcessor
	var lp sdklog.Processor
	if log {
		lp = stockLogProc(0, sc.Kinds[0], sc.Extra, rec, out)
	} else {
		sp = stockSpanProc(0, sc.Kinds[0], sc.Extra, rec, out)
	}
	var res resultJ
	rec.take()
	ctx := context.Background()
	for _, o := range sc.Ops {
		before := out.Len()
		var err error
		switch {
		case o.K == "onenddrop": // an ended span that is not sampled
			sp.OnEnd(tracetest.SpanStub{Name: "u", SpanContext: sampledSC.WithTraceFlags(0)}.Snapshot())
		case o.K == "flushdead":
			err = sp.ForceFlush(ctxFor(false))
		case o.K == "onend" && log:
			var r sdklog.Record
			err = lp.OnEmit(ctx, &r)
		case o.K == "onend":
			sp.OnEnd(endedSpan())
		case o.K == "flush" && log:
			err = lp.ForceFlush(ctx)
		case o.K == "flush":
			err = sp.ForceFlush(ctx)
		case log:
			err = lp.Shutdown(ctx)
		default:
			err = sp.Shutdown(ctx)
		}
		ob := obsJ{Err: errClass(err)}
		ob.Calls, ob.XCalls = rec.take()
		ob.Wrote = out.Len() > before
		res.Obs = append(res.Obs, ob)
	}
	return res
}

// childDStorm: sc.N rounds; in each, sc.G goroutines released together call Shutdown / ForceFlush / OnEnd
// directly on ONE fresh stock processor; for a span processor one of them may instead shut down a provider the
// processor is registered with. Outcomes (exporter shutdowns seen, error classes) are merged.
func childDStorm(sc scenario) resultJ {
	r := vgen.NewRand(sc.Seed)
	log := strings.HasPrefix(sc.Kinds[0], "L")
	simpleLog := strings.HasPrefix(sc.Kinds[0], "LSimple")
	merged := map[string]*roundJ{}
	var order []string
	ctx := context.Background()
	for n := 0; n < sc.N; n++ {
		rec := &recorder{}
		out := &syncBuf{}
		var sp sdktrace.SpanProcessor
		var lp sdklog.Processor
		var tp *sdktrace.TracerProvider
		if log {
			lp = stockLogProc(0, sc.Kinds[0], n, rec, out)
		} else {
			sp = stockSpanProc(0, sc.Kinds[0], n, rec, out)
			if r.Bool() {
				tp = sdktrace.NewTracerProvider(sdktrace.WithSpanProcessor(sp))
			}
		}
		what := make([]int, sc.G) // 0 shutdown, 1 flush, 2 onend, 3 provider shutdown
		for g := range what {
			what[g] = r.Intn(3)
			if g == 0 {
				what[g] = 0
			} else if simpleLog && what[g] == 0 {
				what[g] = 1 // the log SimpleProcessor has no once-guard of its own: one Shutdown caller
			}
			if g == 1 && tp != nil {
				what[g] = 3
			}
		}
		errs := make([]string, sc.G)
		var start, wg sync.WaitGroup
		start.Add(1)
		for g := 0; g < sc.G; g++ {
			wg.Add(1)
			go func(g int) {
				defer wg.Done()
				start.Wait()
				var err error
				switch {
				case what[g] == 3:
					err = tp.Shutdown(ctx)
				case what[g] == 0 && log:
					err = lp.Shutdown(ctx)
				case what[g] == 0:
					err = sp.Shutdown(ctx)
				case what[g] == 1 && log:
					err = lp.ForceFlush(ctx)
				case what[g] == 1:
					err = sp.ForceFlush(ctx)
				case log:
					var rc sdklog.Record
					err = lp.OnEmit(ctx, &rc)
				default:
					sp.OnEnd(endedSpan())
				}
				errs[g] = errClass(err)
			}(g)
		}
		start.Done()
		wg.Wait()
		_, xs := rec.take()
		x := 0
		for _, c := range xs {
			if c.K == "KXShutdown" {
				x++
			}
		}
		sort.Strings(errs)
		var distinct []string
		for i, e := range errs {
			if i == 0 || e != errs[i-1] {
				distinct = append(distinct, e)
			}
		}
		rd := roundJ{XShut: []int{x}, ShutErrs: distinct}
		key := fmt.Sprint(rd.XShut, rd.ShutErrs)
		if m, ok := merged[key]; ok {
			m.Count++
		} else {
			rd.Count = 1
			merged[key] = &rd
			order = append(order, key)
		}
	}
	var res resultJ
	for _, k := range order {
		res.Rounds = append(res.Rounds, *merged[k])
	}
	return res
}

// childReader: one metric reader used directly and through sc.Reg providers.
func childReader(sc scenario) resultJ {
	rec := &recorder{}
	out := &syncBuf{}
	rd := stockReader(sc.Kinds[0], sc.Extra, rec, out)
	var mps [2]*sdkmetric.MeterProvider
	for i := 0; i < sc.Reg; i++ {
		mps[i] = sdkmetric.NewMeterProvider(sdkmetric.WithReader(nil), sdkmetric.WithReader(rd)) // a nil reader is ignored
		c, _ := mps[i].Meter("m").Int64Counter("c")
		c.Add(context.Background(), 1)
	}
	var res resultJ
	rec.take()
	ctx := context.Background()
	for _, o := range sc.Ops {
		before := out.Len()
		var err error
		idx := 0
		if o.B {
			idx = 1
		}
		switch o.K {
		case "rcollect":
			var rm metricdata.ResourceMetrics
			err = rd.Collect(ctx, &rm)
		case "rcollectnil":
			err = rd.Collect(ctx, nil)
		case "rflush":
			if pr, ok := rd.(*sdkmetric.PeriodicReader); ok {
				err = pr.ForceFlush(ctx)
			}
		case "rshutdown":
			err = rd.Shutdown(ctx)
		case "pshutdown":
			if mps[idx] != nil {
				err = mps[idx].Shutdown(ctx)
			}
		case "pflush":
			if mps[idx] != nil {
				err = mps[idx].ForceFlush(ctx)
			}
		}
		ob := obsJ{Err: errClass(err)}
		ob.Calls, ob.XCalls = rec.take()
		ob.Wrote = out.Len() > before
		res.Obs = append(res.Obs, ob)
	}
	return res
}

// childRStorm: rounds of concurrent Shutdown callers (the reader's own, the providers') plus Collect / ForceFlush.
func childRStorm(sc scenario) resultJ {
	r := vgen.NewRand(sc.Seed)
	merged := map[string]*roundJ{}
	var order []string
	ctx := context.Background()
	for n := 0; n < sc.N; n++ {
		rec := &recorder{}
		out := &syncBuf{}
		rd := stockReader(sc.Kinds[0], n, rec, out)
		var mps []*sdkmetric.MeterProvider
		for i := 0; i < sc.Reg; i++ {
			mps = append(mps, sdkmetric.NewMeterProvider(sdkmetric.WithReader(rd)))
		}
		what := make([]int, sc.G) // 0 reader shutdown, 1/2 provider shutdown, 3 collect, 4 flush
		for g := range what {
			what[g] = r.Intn(5)
			if g <= len(mps) {
				what[g] = g
			}
			if (what[g] == 1 || what[g] == 2) && what[g] > len(mps) {
				what[g] = 0
			}
		}
		errs := make([]string, sc.G)
		var start, wg sync.WaitGroup
		start.Add(1)
		for g := 0; g < sc.G; g++ {
			wg.Add(1)
			go func(g int) {
				defer wg.Done()
				start.Wait()
				var err error
				switch what[g] {
				case 0:
					err = rd.Shutdown(ctx)
				case 1, 2:
					err = mps[what[g]-1].Shutdown(ctx)
				case 3:
					var rm metricdata.ResourceMetrics
					err = rd.Collect(ctx, &rm)
				default:
					if pr, ok := rd.(*sdkmetric.PeriodicReader); ok {
						err = pr.ForceFlush(ctx)
					}
				}
				errs[g] = errClass(err)
			}(g)
		}
		start.Done()
		wg.Wait()
		_, xs := rec.take()
		x := 0
		for _, c := range xs {
			if c.K == "KXShutdown" {
				x++
			}
		}
		out1 := roundJ{XShut: []int{x}}
		for g, e := range errs {
			if what[g] <= 2 {
				out1.ShutErrs = append(out1.ShutErrs, e)
			} else {
				out1.FlushErrs = append(out1.FlushErrs, e)
			}
		}
		sort.Strings(out1.ShutErrs)
		sort.Strings(out1.FlushErrs)
		var rm metricdata.ResourceMetrics
		out1.CollectAfter = []string{errClass(rd.Collect(ctx, &rm))}
		key := fmt.Sprint(out1.XShut, out1.ShutErrs, out1.FlushErrs, out1.CollectAfter)
		if m, ok := merged[key]; ok {
			m.Count++
		} else {
			out1.Count = 1
			merged[key] = &out1
			order = append(order, key)
		}
	}
	var res resultJ
	for _, k := range order {
		res.Rounds = append(res.Rounds, *merged[k])
	}
	return res
}

// failProc: a counting processor whose ForceFlush and Shutdown report an error.
type failProc struct{ countProc }

var errBoom = errors.New("processor failed")

func (p *failProc) Shutdown(ctx context.Context) error {
	_ = p.countProc.Shutdown(ctx)
	return errBoom
}
func (p *failProc) ForceFlush(ctx context.Context) error {
	_ = p.countProc.ForceFlush(ctx)
	return errBoom
}

func childFail(sc scenario) resultJ {
	rec := &recorder{}
	procs := make([]sdktrace.SpanProcessor, len(sc.Kinds))
	for i := range sc.Kinds {
		cp := countProc{id: i, rec: rec}
		procs[i] = &cp
		for _, f := range sc.Fails {
			if f == i {
				procs[i] = &failProc{cp}
			}
		}
	}
	var opts []sdktrace.TracerProviderOption
	for _, m := range sc.Members {
		opts = append(opts, sdktrace.WithSpanProcessor(procs[m]))
	}
	tp := sdktrace.NewTracerProvider(opts...)
	var res resultJ
	rec.take()
	ctx := context.Background()
	for _, o := range sc.Ops {
		ob := obsJ{Err: "ENil"}
		switch o.K {
		case "reg":
			tp.RegisterSpanProcessor(procs[o.P])
		case "unreg":
			tp.UnregisterSpanProcessor(procs[o.P])
		case "flush":
			ob.Err = errClass(tp.ForceFlush(ctx))
		case "shutdown":
			ob.Err = errClass(tp.Shutdown(ctx))
		}
		ob.Calls, ob.XCalls = rec.take()
		res.Obs = append(res.Obs, ob)
	}
	return res
}

// childTraceOpt: a trace provider whose first sc.N processors are built by WithSyncer / WithBatcher (only their
// exporters can be wrapped); the remaining kinds are wrapped processors that can be (un)registered.
func childTraceOpt(sc scenario) resultJ {
	rec := &recorder{}
	out := &syncBuf{}
	procs := make([]*countProc, len(sc.Kinds))
	opts := []sdktrace.TracerProviderOption{sdktrace.WithSampler(sdktrace.AlwaysSample())}
	for i, k := range sc.Kinds {
		if i >= sc.N {
			procs[i] = mkSpanProc(i, k, rec, out)
			continue
		}
		exp := spanExporter(i, k, rec, out)
		if strings.HasPrefix(k, "PSimple") {
			opts = append(opts, sdktrace.WithSyncer(exp))
		} else {
			opts = append(opts, sdktrace.WithBatcher(exp, batchSpanOpts(sc.Extra+i)...))
		}
	}
	tp := sdktrace.NewTracerProvider(opts...)
	topts := tracerOpts(sc.Extra)
	retained := tp.Tracer("retained", topts...)
	var spans []trace.Span
	var res resultJ
	rec.take()
	for i, o := range sc.Ops {
		before := out.Len()
		ob := obsJ{Err: "ENil"}
		switch o.K {
		case "reg":
			tp.RegisterSpanProcessor(procs[o.P])
		case "unreg":
			tp.UnregisterSpanProcessor(procs[o.P])
		case "start":
			tr := retained
			if o.B {
				if o.S {
					tr = tp.Tracer("retained", topts...)
				} else {
					tr = tp.Tracer(vgen.Pick(vgen.NewRand(uint64(i)), []string{"", "fresh", "retained"}), tracerOpts(sc.Extra+1+i)...)
				}
			}
			_, sp := tr.Start(context.Background(), "s")
			ob.Flag = sp.IsRecording()
			spans = append(spans, sp)
		case "end":
			if o.P < len(spans) {
				spans[o.P].End()
			}
		case "flush":
			ob.Err = errClass(tp.ForceFlush(ctxFor(o.B)))
		case "shutdown":
			ob.Err = errClass(tp.Shutdown(ctxFor(o.B)))
		}
		ob.Calls, ob.XCalls = rec.take()
		ob.Wrote = out.Len() > before
		res.Obs = append(res.Obs, ob)
	}
	return res
}

// tracerOpts: every TracerOption, in rotating combinations (variant 0 = none).
func tracerOpts(variant int) []trace.TracerOption {
	var o []trace.TracerOption
	if variant&1 != 0 {
		o = append(o, trace.WithInstrumentationVersion("v1.2.3"))
	}
	if variant&2 != 0 {
		o = append(o, trace.WithSchemaURL("https://example.com/schema/1"))
	}
	if variant&4 != 0 {
		o = append(o, trace.WithInstrumentationAttributes(attribute.String("k", "v")))
	}
	return o
}

func meterOpts(variant int) []metric.MeterOption {
	var o []metric.MeterOption
	if variant&1 != 0 {
		o = append(o, metric.WithInstrumentationVersion("v1.2.3"))
	}
	if variant&2 != 0 {
		o = append(o, metric.WithSchemaURL("https://example.com/schema/1"))
	}
	if variant&4 != 0 {
		o = append(o, metric.WithInstrumentationAttributes(attribute.String("k", "v")))
	}
	return o
}

func loggerOpts(variant int) []otellog.LoggerOption {
	var o []otellog.LoggerOption
	if variant&1 != 0 {
		o = append(o, otellog.WithInstrumentationVersion("v1.2.3"))
	}
	if variant&2 != 0 {
		o = append(o, otellog.WithSchemaURL("https://example.com/schema/1"))
	}
	if variant&4 != 0 {
		o = append(o, otellog.WithInstrumentationAttributes(attribute.String("k", "v")))
	}
	return o
}

// ---- rendering ----

func dopsCoq(ops []opJ) string {
	var s []string
	for _, o := range ops {
		s = append(s, map[string]string{"onend": "DOnEnd", "flush": "DFlush", "shutdown": "DShutdown", "onenddrop": "DOnEndDrop", "flushdead": "DFlushDead"}[o.K])
	}
	return "[" + strings.Join(s, "; ") + "]"
}

func ropsCoq(ops []opJ) string {
	var s []string
	for _, o := range ops {
		switch o.K {
		case "rcollect":
			s = append(s, "ROCollect")
		case "rcollectnil":
			s = append(s, "ROCollectNil")
		case "rflush":
			s = append(s, "ROFlush")
		case "rshutdown":
			s = append(s, "ROShutdown")
		case "pshutdown":
			s = append(s, fmt.Sprintf("ROPShutdown %v", o.B))
		default:
			s = append(s, fmt.Sprintf("ROPFlush %v", o.B))
		}
	}
	return "[" + strings.Join(s, "; ") + "]"
}

func fopsCoq(ops []opJ) string {
	var s []string
	for _, o := range ops {
		switch o.K {
		case "reg":
			s = append(s, fmt.Sprintf("FReg_ %d", o.P))
		case "unreg":
			s = append(s, fmt.Sprintf("FUnreg_ %d", o.P))
		case "flush":
			s = append(s, "FFlush")
		default:
			s = append(s, "FShutdown")
		}
	}
	return "[" + strings.Join(s, "; ") + "]"
}

func kindCoq(k string) string {
	if strings.Contains(k, " ") {
		return "(" + k + ")"
	}
	return k
}

func hasExporter(kind string) bool { return strings.HasSuffix(kind, "XStd") || strings.HasSuffix(kind, "XMem") }

// ---- generators ----

func genDirect(r *vgen.Rand, log bool) scenario {
	sc := scenario{Kind: "direct", Extra: r.Intn(20)}
	if log {
		sc.Kind = "directlog"
		sc.Kinds = []string{vgen.Pick(r, []string{"LSimple XStd", "LSimple XNil", "LBatch XStd", "LBatch XNil"})}
	} else {
		sc.Kinds = []string{vgen.Pick(r, traceKinds[1:])}
	}
	simpleLog := strings.HasPrefix(sc.Kinds[0], "LSimple")
	n := r.Range(2, 12)
	for i := 0; i < n; i++ {
		k := vgen.Pick(r, []string{"onend", "onend", "flush", "shutdown"})
		if !log && r.Chance(1, 5) {
			k = vgen.Pick(r, []string{"onenddrop", "flushdead"})
		}
		sc.Ops = append(sc.Ops, opJ{K: k})
		if simpleLog && k == "shutdown" {
			break // see props: that processor relies on the provider's once-guard
		}
	}
	return sc
}

func genReader(r *vgen.Rand) scenario {
	sc := scenario{Kind: "reader", Extra: r.Intn(12), Reg: vgen.Pick(r, []int{0, 1, 1, 2, 2})}
	sc.Kinds = []string{vgen.Pick(r, []string{"RManual", "RPeriodic XStd", "RPeriodic XStd", "RPeriodic XNil"})}
	n := r.Range(2, 10)
	for i := 0; i < n; i++ {
		k := vgen.Pick(r, []string{"rcollect", "rflush", "rshutdown", "pshutdown", "pshutdown", "pflush", "rcollect", "rcollectnil"})
		if k == "rflush" && sc.Kinds[0] == "RManual" {
			k = "rcollect"
		}
		o := opJ{K: k}
		if (k == "pshutdown" || k == "pflush") && sc.Reg == 2 {
			o.B = r.Bool()
		}
		if (k == "pshutdown" || k == "pflush") && sc.Reg == 0 {
			o.K = "rshutdown"
		}
		sc.Ops = append(sc.Ops, o)
	}
	return sc
}

func genFail(r *vgen.Rand) scenario {
	n := r.Range(1, 5)
	sc := scenario{Kind: "fail"}
	for i := 0; i < n; i++ {
		sc.Kinds = append(sc.Kinds, "PCount")
		if r.Chance(1, 3) {
			sc.Fails = append(sc.Fails, i)
		}
		if r.Chance(2, 3) {
			sc.Members = append(sc.Members, i)
		}
	}
	if len(sc.Fails) == 0 {
		sc.Fails = []int{r.Intn(n)}
	}
	nops := r.Range(2, 10)
	for i := 0; i < nops; i++ {
		k := vgen.Pick(r, []string{"reg", "unreg", "flush", "flush", "shutdown"})
		sc.Ops = append(sc.Ops, opJ{K: k, P: r.Intn(n)})
	}
	sc.Ops = append(sc.Ops, opJ{K: "shutdown"})
	return sc
}

// genTraceOpt: like genTrace, the first N processors built by the provider options.
func genTraceOpt(r *vgen.Rand) scenario {
	sc := genTrace(r)
	sc.Kind = "topt"
	sc.Extra = r.Intn(16)
	sc.N = r.Range(1, len(sc.Kinds))
	sc.Members = nil
	for i := 0; i < sc.N; i++ {
		if sc.Kinds[i] == "PCount" {
			sc.Kinds[i] = vgen.Pick(r, traceKinds[1:])
		}
		sc.Members = append(sc.Members, i)
	}
	for i := range sc.Ops { // the option-built processors have no handle to (un)register
		if (sc.Ops[i].K == "reg" || sc.Ops[i].K == "unreg") && sc.Ops[i].P < sc.N {
			if sc.N < len(sc.Kinds) {
				sc.Ops[i].P = r.Range(sc.N, len(sc.Kinds)-1)
			} else {
				sc.Ops[i] = opJ{K: "flush", B: true}
			}
		}
	}
	return sc
}

func directCoq(sc scenario, res *resultJ) string {
	switch sc.Kind {
	case "direct":
		return fmt.Sprintf("CD %s %s %s", kindCoq(sc.Kinds[0]), dopsCoq(sc.Ops), obsCoq(res.Obs))
	case "directlog":
		return fmt.Sprintf("CDL %s %s %s", kindCoq(sc.Kinds[0]), dopsCoq(sc.Ops), obsCoq(res.Obs))
	case "reader":
		return fmt.Sprintf("CR %s %d %s %s", kindCoq(sc.Kinds[0]), sc.Reg, ropsCoq(sc.Ops), obsCoq(res.Obs))
	case "fail":
		return fmt.Sprintf("CF %s %s %s %s", intsCoq(sc.Fails), intsCoq(sc.Members), fopsCoq(sc.Ops), obsCoq(res.Obs))
	}
	// topt
	var ops []string
	for _, o := range sc.Ops {
		ops = append(ops, opCoq("trace", o))
	}
	kinds := make([]string, len(sc.Kinds))
	for i, k := range sc.Kinds {
		kinds[i] = kindCoq(k)
	}
	return fmt.Sprintf("CTO [%s] %s [%s] %s", strings.Join(kinds, "; "), intsCoq(sc.Members), strings.Join(ops, "; "), obsCoq(res.Obs))
}

func dstormCoq(sc scenario, rd roundJ) string {
	errs := func(e []string) string { return "[" + strings.Join(e, ";") + "]" }
	if sc.Kind == "dslow" {
		return fmt.Sprintf("CDStorm2 true %s %d %s", intsCoq(rd.XShut), rd.PShut[0], errs(rd.ShutErrs))
	}
	if sc.Kind == "rstorm" {
		return fmt.Sprintf("CStormM [%s] %s %s %s %s", kindCoq(sc.Kinds[0]), intsCoq(rd.XShut), errs(rd.ShutErrs), errs(rd.FlushErrs), errs(rd.CollectAfter))
	}
	return fmt.Sprintf("CDStorm %v %d %s", hasExporter(sc.Kinds[0]), rd.XShut[0], errs(rd.ShutErrs))
}

// ---- re-entrant components: a callback that calls back into its own provider ----

type reentState struct {
	depth int // nested provider calls are made from the outermost callback only
	nest  []nestJ
	do    func(call string)
}

func (r *reentState) enter(cb string) {
	if r.depth > 0 {
		return
	}
	r.depth++
	for _, n := range r.nest {
		if n.CB == cb {
			r.do(n.Call)
		}
	}
	r.depth--
}

type reentSpanProc struct {
	countProc
	st *reentState
}

func (p *reentSpanProc) OnEnd(s sdktrace.ReadOnlySpan) { p.countProc.OnEnd(s); p.st.enter("onend") }
func (p *reentSpanProc) ForceFlush(ctx context.Context) error {
	_ = p.countProc.ForceFlush(ctx)
	p.st.enter("flush")
	return nil
}
func (p *reentSpanProc) Shutdown(ctx context.Context) error {
	_ = p.countProc.Shutdown(ctx)
	p.st.enter("shutdown")
	return nil
}

type reentLogProc struct {
	countLogProc
	st *reentState
}

func (p *reentLogProc) OnEmit(ctx context.Context, r *sdklog.Record) error {
	_ = p.countLogProc.OnEmit(ctx, r)
	p.st.enter("onend")
	return nil
}
func (p *reentLogProc) ForceFlush(ctx context.Context) error {
	_ = p.countLogProc.ForceFlush(ctx)
	p.st.enter("flush")
	return nil
}
func (p *reentLogProc) Shutdown(ctx context.Context) error {
	_ = p.countLogProc.Shutdown(ctx)
	p.st.enter("shutdown")
	return nil
}

type reentMetricExp struct {
	countMetricExp
	st *reentState
}

func (e *reentMetricExp) Shutdown(ctx context.Context) error {
	err := e.countMetricExp.Shutdown(ctx)
	e.st.enter("shutdown")
	return err
}

// childReent: ops (start/end | emit | add, flush, shutdown; live contexts) on a provider one of whose components
// calls provider methods from its callbacks, then a final Shutdown. Reported like a storm: Shutdown calls per
// component afterwards, whether a fresh handle still records, the error classes of the explicit calls.
func childReent(sc scenario) resultJ {
	rec := &recorder{}
	out := &syncBuf{}
	ctx := context.Background()
	st := &reentState{nest: sc.Nest}
	var res resultJ
	errs := map[string]bool{}
	switch sc.Kinds[0] {
	case "trace":
		p0 := &reentSpanProc{countProc{id: 0, rec: rec}, st}
		p1 := &countProc{id: 1, rec: rec}
		p2 := &countProc{id: 2, rec: rec}
		tp := sdktrace.NewTracerProvider(sdktrace.WithSpanProcessor(p0), sdktrace.WithSpanProcessor(p1))
		reg2done := false
		st.do = func(call string) {
			switch call {
			case "unreg0":
				tp.UnregisterSpanProcessor(p0)
			case "unreg1":
				tp.UnregisterSpanProcessor(p1)
			case "reg2":
				if !reg2done { // one registration: each registration is shut down once
					reg2done = true
					tp.RegisterSpanProcessor(p2)
				}
			case "flush":
				_ = tp.ForceFlush(ctx)
			case "shutdown":
				_ = tp.Shutdown(ctx)
			default:
				_, sp := tp.Tracer("nested").Start(ctx, "n")
				sp.End()
			}
		}
		tr := tp.Tracer("t")
		var spans []trace.Span
		for _, o := range append(append([]opJ{}, sc.Ops...), opJ{K: "shutdown"}) {
			switch o.K {
			case "start":
				_, sp := tr.Start(ctx, "s")
				spans = append(spans, sp)
			case "end":
				if o.P < len(spans) {
					spans[o.P].End()
				}
			case "flush":
				errs[errClass(tp.ForceFlush(ctx))] = true
			case "shutdown":
				errs[errClass(tp.Shutdown(ctx))] = true
			}
		}
		_, sp := tp.Tracer("after").Start(ctx, "x")
		res.FreshRec = sp.IsRecording()
		res.StormKinds = []string{"PCount", "PCount", "PCount"}
	case "log":
		p0 := &reentLogProc{countLogProc{0, sdklog.NewSimpleProcessor(nil), rec}, st}
		p1 := &countLogProc{1, sdklog.NewSimpleProcessor(nil), rec}
		lp := sdklog.NewLoggerProvider(sdklog.WithProcessor(p0), sdklog.WithProcessor(p1))
		var r otellog.Record
		st.do = func(call string) {
			switch call {
			case "flush":
				_ = lp.ForceFlush(ctx)
			case "shutdown":
				_ = lp.Shutdown(ctx)
			default:
				lp.Logger("nested").Emit(ctx, r)
			}
		}
		l := lp.Logger("l")
		for _, o := range append(append([]opJ{}, sc.Ops...), opJ{K: "shutdown"}) {
			switch o.K {
			case "start", "end":
				l.Emit(ctx, r)
			case "flush":
				errs[errClass(lp.ForceFlush(ctx))] = true
			case "shutdown":
				errs[errClass(lp.Shutdown(ctx))] = true
			}
		}
		res.StormKinds = []string{"LSimple XNil", "LSimple XNil"}
	case "xsimple", "xbatch":
		// an instrumented span exporter: its Shutdown (and, under a batch processor, its ExportSpans) starts and ends
		// a sampled span through a tracer of the SAME provider, obtained beforehand
		var tr trace.Tracer
		exp := &instrSpanExp{inner: tracetest.NewInMemoryExporter(), st: st}
		var sp sdktrace.SpanProcessor
		if sc.Kinds[0] == "xsimple" {
			sp = sdktrace.NewSimpleSpanProcessor(exp)
		} else {
			sp = sdktrace.NewBatchSpanProcessor(exp, batchSpanOpts(sc.Extra)...)
		}
		tp := sdktrace.NewTracerProvider(sdktrace.WithSpanProcessor(sp))
		tr = tp.Tracer("instrumented-exporter")
		st.do = func(string) {
			_, nsp := tr.Start(ctx, "exporter-internal")
			nsp.End()
		}
		user := tp.Tracer("t")
		var spans []trace.Span
		for _, o := range sc.Ops {
			switch o.K {
			case "start":
				_, s1 := user.Start(ctx, "s")
				spans = append(spans, s1)
			case "end":
				if o.P < len(spans) {
					spans[o.P].End()
				}
			case "flush":
				errs[errClass(tp.ForceFlush(ctx))] = true
			}
		}
		switch sc.Extra % 3 { // no deadline anywhere
		case 0:
			errs[errClass(sp.Shutdown(ctx))] = true
		case 1:
			tp.UnregisterSpanProcessor(sp)
		}
		errs[errClass(tp.Shutdown(ctx))] = true
		res.XShutdowns = []int{int(exp.xshut.Load())}
		for e := range errs {
			if e != "ENil" {
				res.ShutErr = e
			}
		}
		if res.ShutErr == "" {
			res.ShutErr = "ENil"
		}
		return res
	default: // metric: the periodic reader's exporter calls MeterProvider methods from its Shutdown
		e, _ := stdoutmetric.New(stdoutmetric.WithWriter(out))
		exp := &reentMetricExp{countMetricExp{id: 0, inner: e, rec: rec}, st}
		rd := sdkmetric.NewPeriodicReader(exp, sdkmetric.WithInterval(time.Hour), sdkmetric.WithTimeout(sdkTimeout))
		mp := sdkmetric.NewMeterProvider(sdkmetric.WithReader(rd))
		st.do = func(call string) {
			switch call {
			case "flush":
				_ = mp.ForceFlush(ctx)
			default:
				c, _ := mp.Meter("nested").Int64Counter("n")
				c.Add(ctx, 1)
			}
		}
		c, _ := mp.Meter("m").Int64Counter("c")
		first := true
		for _, o := range append(append([]opJ{}, sc.Ops...), opJ{K: "shutdown"}) {
			switch o.K {
			case "start", "end":
				c.Add(ctx, 1)
			case "flush":
				if first {
					errs[errClass(mp.ForceFlush(ctx))] = true
				}
			case "shutdown":
				if first {
					errs[errClass(mp.Shutdown(ctx))] = true // later Shutdown calls report ErrReaderShutdown (documented)
					first = false
				}
			}
		}
		var rm metricdata.ResourceMetrics
		res.FlushErr = errClass(rd.Collect(ctx, &rm))
		res.StormKinds = []string{"RPeriodic XStd"}
	}
	calls, xcalls := rec.take()
	res.Shutdowns = make([]int, 3)
	for _, c := range calls {
		if c.K == "KShutdown" && c.ID < 3 {
			res.Shutdowns[c.ID]++
		}
	}
	x := 0
	for _, c := range xcalls {
		if c.K == "KXShutdown" {
			x++
		}
	}
	res.XShutdowns = []int{x}
	for e := range errs {
		if e != "ENil" {
			res.ShutErr = e
		}
	}
	if res.ShutErr == "" {
		res.ShutErr = "ENil"
	}
	return res
}

type instrSpanExp struct {
	inner sdktrace.SpanExporter
	st    *reentState
	xshut atomic.Int64
}

func (e *instrSpanExp) ExportSpans(ctx context.Context, s []sdktrace.ReadOnlySpan) error {
	e.st.enter("xexport")
	return e.inner.ExportSpans(ctx, s)
}
func (e *instrSpanExp) Shutdown(ctx context.Context) error {
	e.st.enter("xshutdown")
	e.xshut.Add(1)
	return e.inner.Shutdown(ctx)
}

// reentCoq: trace -> CStorm (processors 0 and 1 registered up front: exactly one Shutdown each; processor 2 may be
// registered by a nested call: at most one), log -> CStormL, metric -> CStormM.
func reentCoq(sc scenario, res *resultJ) string {
	switch sc.Kinds[0] {
	case "xsimple", "xbatch": // returned at all (watchdog otherwise), exporter shut down exactly once, nil errors
		return fmt.Sprintf("CDStorm true %d [%s]", res.XShutdowns[0], res.ShutErr)
	case "trace":
		return fmt.Sprintf("CStorm [PCount; PCount; PCount] 2 1 %s [0;0;0] 0 %v %s %s", intsCoq(res.Shutdowns), res.FreshRec, res.ShutErr, res.ShutErr)
	case "log":
		return fmt.Sprintf("CStormL [LSimple XNil; LSimple XNil] %s [0;0] [%s] []", intsCoq(res.Shutdowns[:2]), res.ShutErr)
	}
	return fmt.Sprintf("CStormM [RPeriodic XStd] %s [%s] [] [%s]", intsCoq(res.XShutdowns), res.ShutErr, res.FlushErr)
}

func genReent(r *vgen.Rand) scenario {
	prov := vgen.Pick(r, []string{"trace", "trace", "trace", "log", "metric", "xsimple", "xsimple", "xbatch"})
	sc := scenario{Kind: "reent", Kinds: []string{prov}, Extra: r.Intn(30)}
	var cbs, calls []string
	switch prov {
	case "trace":
		cbs = []string{"shutdown", "shutdown", "onend", "flush"}
		calls = []string{"unreg0", "unreg1", "reg2", "flush", "shutdown", "handle"}
	case "log":
		cbs = []string{"shutdown", "onend", "flush"}
		calls = []string{"flush", "shutdown", "handle"}
	case "xsimple": // nesting from ExportSpans would re-enter the simple processor's own (non-reentrant) exporter lock
		cbs, calls = []string{"xshutdown"}, []string{"span"}
	case "xbatch":
		cbs, calls = []string{"xshutdown", "xexport"}, []string{"span"}
	default:
		cbs = []string{"shutdown"}
		calls = []string{"flush", "handle"}
	}
	if prov == "xsimple" || prov == "xbatch" {
		sc.Nest = append(sc.Nest, nestJ{CB: "xshutdown", Call: "span"})
	}
	for i := 0; i < r.Range(1, 4); i++ {
		sc.Nest = append(sc.Nest, nestJ{CB: vgen.Pick(r, cbs), Call: vgen.Pick(r, calls)})
	}
	started := 0
	for i := 0; i < r.Range(1, 7); i++ {
		k := vgen.Pick(r, []string{"start", "end", "flush", "flush", "shutdown"})
		o := opJ{K: k}
		if k == "start" {
			started++
		}
		if k == "end" {
			if started == 0 {
				o.K = "start"
				started++
			} else {
				o.P = r.Intn(started)
			}
		}
		sc.Ops = append(sc.Ops, o)
	}
	return sc
}

// ---- overlapping Shutdown callers with a slow exporter ----

type slowSpanExp struct {
	inner    sdktrace.SpanExporter
	delay    time.Duration
	xshut    atomic.Int64
	late     atomic.Int64 // exports begun after, or still running when, a Shutdown call returned
	inflight atomic.Int64
	returned *atomic.Bool
}

func (e *slowSpanExp) ExportSpans(ctx context.Context, s []sdktrace.ReadOnlySpan) error {
	if e.returned.Load() {
		e.late.Add(1)
	}
	e.inflight.Add(1)
	defer e.inflight.Add(-1)
	time.Sleep(e.delay)
	return e.inner.ExportSpans(ctx, s)
}
func (e *slowSpanExp) Shutdown(ctx context.Context) error {
	time.Sleep(e.delay) // the exporter's own Shutdown is slow too, and counts when it is complete
	err := e.inner.Shutdown(ctx)
	e.xshut.Add(1)
	return err
}

// childDSlow: sc.N rounds. A stock span processor whose exporter takes sc.Slow ms per export is registered with
// a provider and has spans queued (batch) or being exported (simple, from OnEnd callers). Released together:
// the provider's Shutdown, a direct Shutdown of the processor (and further ones), OnEnd callers. Every Shutdown
// caller notes, the moment its call returned, how many exporter shutdowns have happened.
func childDSlow(sc scenario) resultJ {
	r := vgen.NewRand(sc.Seed)
	merged := map[string]*roundJ{}
	var order []string
	ctx := context.Background()
	yrace := sc.Slow < 10 // OnEnd callers racing one Shutdown, exporter 1-5 ms per export
	for n := 0; n < sc.N; n++ {
		var returned atomic.Bool
		exp := &slowSpanExp{inner: tracetest.NewInMemoryExporter(), delay: time.Duration(sc.Slow) * time.Millisecond, returned: &returned}
		var sp sdktrace.SpanProcessor
		if strings.HasPrefix(sc.Kinds[0], "PSimple") {
			sp = sdktrace.NewSimpleSpanProcessor(exp)
		} else {
			sp = sdktrace.NewBatchSpanProcessor(exp, batchSpanOpts(n)...)
			for i := 0; i < r.Range(1, 3); i++ {
				sp.OnEnd(endedSpan())
			}
		}
		tp := sdktrace.NewTracerProvider(sdktrace.WithSpanProcessor(sp))
		what := make([]int, sc.G) // 0 direct shutdown, 1 provider shutdown, 2 onend
		for g := range what {
			// ONE provider Shutdown (a second concurrent TracerProvider.Shutdown returns nil at once by design:
			// its unlocked isShutdown check), any number of direct ones
			what[g] = vgen.Pick(r, []int{0, 0, 2})
			if g < 2 {
				what[g] = g
			}
			if yrace { // ONE Shutdown (direct or through the provider), everybody else keeps ending spans
				what[g] = 2
				if g == 0 {
					what[g] = n & 1
				}
			}
		}
		atRet := make([]int, sc.G)
		errs := make([]string, sc.G)
		var start, wg sync.WaitGroup
		start.Add(1)
		for g := 0; g < sc.G; g++ {
			wg.Add(1)
			go func(g int) {
				defer wg.Done()
				start.Wait()
				if g&1 == 1 && !yrace {
					time.Sleep(time.Duration(sc.Slow) * time.Millisecond / 3) // arrive while the first caller is exporting
				}
				if yrace && what[g] != 2 {
					time.Sleep(time.Duration(sc.Slow) * time.Millisecond * time.Duration(2+n%5)) // exports are under way
				}
				var err error
				switch what[g] {
				case 0:
					err = sp.Shutdown(ctx)
				case 1:
					err = tp.Shutdown(ctx)
				default:
					for k := 0; k < 1 || (yrace && k < 40 && !returned.Load()); k++ {
						sp.OnEnd(endedSpan())
					}
					if yrace {
						for k := 0; k < 3; k++ {
							sp.OnEnd(endedSpan()) // and a few more after the Shutdown has (probably) returned
						}
					}
					atRet[g] = -1
					errs[g] = "ENil"
					return
				}
				if exp.inflight.Load() > 0 {
					exp.late.Add(1) // an export is still running although Shutdown has returned
				}
				atRet[g] = int(exp.xshut.Load())
				returned.Store(true)
				errs[g] = errClass(err)
			}(g)
		}
		start.Done()
		wg.Wait()
		rd := roundJ{}
		for g := range atRet {
			if atRet[g] >= 0 {
				rd.XShut = append(rd.XShut, atRet[g])
			}
		}
		sort.Ints(rd.XShut)
		sort.Strings(errs)
		for i, e := range errs {
			if i == 0 || e != errs[i-1] {
				rd.ShutErrs = append(rd.ShutErrs, e)
			}
		}
		rd.PShut = []int{int(exp.late.Load())}
		key := fmt.Sprint(rd.XShut, rd.ShutErrs, rd.PShut)
		if m, ok := merged[key]; ok {
			m.Count++
		} else {
			rd.Count = 1
			merged[key] = &rd
			order = append(order, key)
		}
	}
	var res resultJ
	for _, k := range order {
		res.Rounds = append(res.Rounds, *merged[k])
	}
	return res
}

// ---- first Shutdown with an already-cancelled context, then used and shut down again ----

func childDCancel(sc scenario) resultJ {
	rec := &recorder{}
	out := &syncBuf{}
	kind := sc.Kinds[0]
	log := strings.HasPrefix(kind, "L")
	simple := strings.Contains(kind, "Simple")
	var sp sdktrace.SpanProcessor
	var lp sdklog.Processor
	if log {
		lp = stockLogProc(0, kind, sc.Extra, rec, out)
	} else {
		sp = stockSpanProc(0, kind, sc.Extra, rec, out)
	}
	ctx := context.Background()
	feed := func() {
		if log {
			var r sdklog.Record
			_ = lp.OnEmit(ctx, &r)
		} else {
			sp.OnEnd(endedSpan())
		}
	}
	shutdown := func(c context.Context) error {
		if log {
			return lp.Shutdown(c)
		}
		return sp.Shutdown(c)
	}
	var res resultJ
	xshut, late := 0, 0
	afterFirst := false
	account := func(before int) {
		_, xs := rec.take()
		for _, c := range xs {
			if c.K == "KXShutdown" {
				xshut++
			}
			if c.K == "KExport" && afterFirst && simple && !log {
				late++
			}
		}
		if afterFirst && simple && out.Len() > before {
			late++ // output grew after the first Shutdown had returned
		}
	}
	var later []string
	for _, o := range sc.Ops {
		before := out.Len()
		switch o.K {
		case "onend":
			feed()
		case "flush":
			if log {
				later = append(later, errClass(lp.ForceFlush(ctx)))
			} else {
				later = append(later, errClass(sp.ForceFlush(ctx)))
			}
		case "shutdowndead":
			res.ShutErr = errClass(shutdown(ctxFor(false)))
			account(before)
			afterFirst = true
			continue
		case "shutdown":
			later = append(later, errClass(shutdown(ctx)))
		}
		account(before)
	}
	// a processor that honoured the cancelled context finishes in the background: wait for the exporter's Shutdown
	for i := 0; i < 400 && xshut == 0 && hasExporter(kind); i++ {
		time.Sleep(5 * time.Millisecond)
		account(out.Len())
	}
	res.XShutdowns = []int{xshut}
	res.Late = late
	res.StormKinds = later
	return res
}

func genDCancel(r *vgen.Rand, i int) scenario {
	kinds := []string{"PSimple XStd", "PSimple XMem", "PBatch XStd", "PBatch XMem", "LSimple XStd", "LBatch XStd", "PSimple XNil", "LBatch XNil"}
	sc := scenario{Kind: "dcancel", Kinds: []string{kinds[i%len(kinds)]}, Extra: r.Intn(20)}
	for k := 0; k < r.Intn(3); k++ {
		sc.Ops = append(sc.Ops, opJ{K: "onend"})
	}
	sc.Ops = append(sc.Ops, opJ{K: "shutdowndead"}, opJ{K: "onend"})
	logSimple := strings.HasPrefix(sc.Kinds[0], "LSimple")
	for k := 0; k < r.Range(1, 4); k++ {
		o := vgen.Pick(r, []string{"onend", "flush", "shutdown"})
		if logSimple && o != "onend" {
			o = "onend" // the log SimpleProcessor has no guard of its own: a second Shutdown / a flush reach the exporter again
		}
		sc.Ops = append(sc.Ops, opJ{K: o})
	}
	if !logSimple {
		sc.Ops = append(sc.Ops, opJ{K: "shutdown"}, opJ{K: "onend"})
	}
	return sc
}

func dcancelCoq(sc scenario, res *resultJ) string {
	return fmt.Sprintf("CDCancel %v %d %d %s [%s]", hasExporter(sc.Kinds[0]), res.XShutdowns[0], res.Late, res.ShutErr, strings.Join(res.StormKinds, ";"))
}

// ---- gated exporters: a call overlapping an export that is in flight ----

type gate struct {
	entered chan struct{} // one token per export that has begun
	release chan struct{} // closed to let exports through
}

func newGate() *gate { return &gate{entered: make(chan struct{}, 64), release: make(chan struct{})} }

type gatedSpanExp struct {
	g     *gate
	xshut atomic.Int64
}

func (e *gatedSpanExp) ExportSpans(context.Context, []sdktrace.ReadOnlySpan) error {
	select {
	case e.g.entered <- struct{}{}:
	default:
	}
	<-e.g.release
	return nil
}
func (e *gatedSpanExp) Shutdown(context.Context) error { e.xshut.Add(1); return nil }

// childBSPFlush (seeded C15-14 shape), sc.N times on fresh batch processors: the worker is inside an export (gated),
// ForceFlush(Background) queues its flush request behind it, Shutdown(Background) closes the stop channel, then the
// export is let through. Both calls must return; the exporter is shut down exactly once.
func childBSPFlush(sc scenario) resultJ {
	ctx := context.Background()
	var res resultJ
	x := 0
	errs := map[string]bool{}
	for n := 0; n < sc.N; n++ {
		g := newGate()
		exp := &gatedSpanExp{g: g}
		sp := sdktrace.NewBatchSpanProcessor(exp, sdktrace.WithBatchTimeout(time.Hour), sdktrace.WithExportTimeout(sdkTimeout), sdktrace.WithMaxExportBatchSize(1))
		sp.OnEnd(endedSpan()) // batch size 1: the worker exports it at once and blocks in the gate
		select {
		case <-g.entered:
		case <-time.After(10 * time.Second):
			close(g.release) // precondition not met (starved): an ordinary flush + shutdown
		}
		var wg sync.WaitGroup
		var fe, se error
		wg.Add(2)
		go func() { defer wg.Done(); fe = sp.ForceFlush(ctx) }()
		time.Sleep(time.Duration(2+n%4) * time.Millisecond) // the flush request is queued behind the export
		go func() { defer wg.Done(); se = sp.Shutdown(ctx) }()
		time.Sleep(time.Duration(2+n%3) * time.Millisecond) // the stop channel is closed
		select {
		case <-g.release:
		default:
			close(g.release)
		}
		wg.Wait()
		errs[errClass(fe)] = true
		errs[errClass(se)] = true
		x += int(exp.xshut.Load())
	}
	res.XShutdowns = []int{x}
	res.ShutErr = "ENil"
	for e := range errs {
		if e != "ENil" {
			res.ShutErr = e
		}
	}
	return res
}

type gatedMetricExp struct {
	inner    sdkmetric.Exporter
	g        *gate
	inflight atomic.Int64
	bad      atomic.Int64 // exporter.Shutdown overlapping an Export, or an Export begun after exporter.Shutdown
	xshut    atomic.Int64
	first    atomic.Bool
}

func (e *gatedMetricExp) Temporality(k sdkmetric.InstrumentKind) metricdata.Temporality {
	return e.inner.Temporality(k)
}
func (e *gatedMetricExp) Aggregation(k sdkmetric.InstrumentKind) sdkmetric.Aggregation {
	return e.inner.Aggregation(k)
}
func (e *gatedMetricExp) Export(ctx context.Context, rm *metricdata.ResourceMetrics) error {
	if e.xshut.Load() > 0 {
		e.bad.Add(1)
	}
	e.inflight.Add(1)
	defer e.inflight.Add(-1)
	if e.first.CompareAndSwap(false, true) { // the first export is the slow backend write (it does not look at ctx)
		select {
		case e.g.entered <- struct{}{}:
		default:
		}
		<-e.g.release
	}
	return nil
}
func (e *gatedMetricExp) ForceFlush(context.Context) error { return nil }
func (e *gatedMetricExp) Shutdown(context.Context) error {
	if e.inflight.Load() > 0 {
		e.bad.Add(1)
	}
	e.xshut.Add(1)
	return nil
}

// childMGate (seeded C15-19 shape), sc.N times: a flush export of a periodic reader is in flight (gated) when
// Shutdown is called with an already-cancelled context (on the reader, or on the provider); the export is let
// through 20-40 ms later. When Shutdown returns no Export may be running, the exporter's Shutdown must not have
// overlapped an Export, and none may begin afterwards.
func childMGate(sc scenario) resultJ {
	var res resultJ
	var atRet []int
	late := 0
	for n := 0; n < sc.N; n++ {
		g := newGate()
		e0, _ := stdoutmetric.New(stdoutmetric.WithWriter(&syncBuf{}))
		exp := &gatedMetricExp{inner: e0, g: g}
		rd := sdkmetric.NewPeriodicReader(exp, sdkmetric.WithInterval(time.Hour), sdkmetric.WithTimeout(sdkTimeout))
		mp := sdkmetric.NewMeterProvider(sdkmetric.WithReader(rd))
		c, _ := mp.Meter("m").Int64Counter("c")
		c.Add(context.Background(), 1)
		flushed := make(chan struct{})
		go func() { _ = mp.ForceFlush(context.Background()); close(flushed) }()
		select {
		case <-g.entered:
		case <-time.After(10 * time.Second):
		}
		go func() { time.Sleep(time.Duration(20+n%3*10) * time.Millisecond); close(g.release) }()
		if n&1 == 0 {
			_ = rd.Shutdown(ctxFor(false))
		} else {
			_ = mp.Shutdown(ctxFor(false))
		}
		if os.Getenv("MGATE_DEBUG") != "" {
			fmt.Fprintln(os.Stderr, "mgate: at return inflight", exp.inflight.Load(), "xshut", exp.xshut.Load(), "bad", exp.bad.Load())
		}
		if exp.inflight.Load() > 0 {
			late++ // an Export is still running although Shutdown has returned
		}
		atRet = append(atRet, int(exp.xshut.Load()))
		<-flushed
		time.Sleep(time.Millisecond)
		late += int(exp.bad.Load())
	}
	res.XShutdowns = atRet
	res.Late = late
	return res
}
