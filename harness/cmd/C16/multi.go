package main

import (
	"context"
	"fmt"
	"sort"
	"sync"

	sdkmetric "go.opentelemetry.io/otel/sdk/metric"
	"go.opentelemetry.io/otel/sdk/metric/metricdata"
)

// cbValues: per instrument name and callback id, the value the collection shows for the
// callback's own attribute cb=<id>.
func cbValues(rm *metricdata.ResourceMetrics) map[string]map[int]float64 {
	out := map[string]map[int]float64{}
	put := func(name string, id int64, v float64) {
		if out[name] == nil {
			out[name] = map[int]float64{}
		}
		out[name][int(id)] += v
	}
	for _, sm := range rm.ScopeMetrics {
		for _, m := range sm.Metrics {
			switch d := m.Data.(type) {
			case metricdata.Sum[int64]:
				for _, p := range d.DataPoints {
					if v, ok := p.Attributes.Value("cb"); ok {
						put(ikey(m.Name, m.Description, m.Unit), v.AsInt64(), float64(p.Value))
					}
				}
			case metricdata.Sum[float64]:
				for _, p := range d.DataPoints {
					if v, ok := p.Attributes.Value("cb"); ok {
						put(ikey(m.Name, m.Description, m.Unit), v.AsInt64(), p.Value)
					}
				}
			case metricdata.Gauge[int64]:
				for _, p := range d.DataPoints {
					if v, ok := p.Attributes.Value("cb"); ok {
						put(ikey(m.Name, m.Description, m.Unit), v.AsInt64(), float64(p.Value))
					}
				}
			case metricdata.Gauge[float64]:
				for _, p := range d.DataPoints {
					if v, ok := p.Attributes.Value("cb"); ok {
						put(ikey(m.Name, m.Description, m.Unit), v.AsInt64(), p.Value)
					}
				}
			}
		}
	}
	return out
}

func isObsGauge(kind int) bool { return kind == 10 || kind == 13 }

// collectAll collects every reader of the installed SDK - one after the other, or (concurrent mode)
// all released together for three rounds while the callbacks yield inside - and records, per round
// and per reader, for every registration: how often its callback ran for that reader and on how many
// of its instruments that reader's collection shows exactly this cycle's observation (value 7 per run
// for sums, 7 for gauges).  Observations routed into another reader's pipeline show up as a missing
// point here and a doubled one there.
func (w *world) collectAll(res *result) (byN map[string]map[int]int, sdkCreation [][3]int) {
	readers := append([]*sdkmetric.ManualReader{w.reader}, w.sameSDKReaders...)
	R := len(readers)
	rounds := 1
	if w.concurrentCollect {
		rounds = 3
	}
	var ids []int
	for r := range w.regs {
		ids = append(ids, r)
	}
	sort.Ints(ids)
	for round := 0; round < rounds; round++ {
		rms := make([]metricdata.ResourceMetrics, R)
		ranBy := make([]map[int]int, R)
		snap := func() map[int]int64 {
			m := map[int]int64{}
			for r, h := range w.regs {
				m[r] = h.ran.Load()
			}
			return m
		}
		if w.concurrentCollect && R > 1 {
			before := snap()
			start := make(chan struct{})
			var wg sync.WaitGroup
			for i := range readers {
				i := i
				wg.Add(1)
				go func() {
					defer wg.Done()
					<-start
					if err := readers[i].Collect(context.Background(), &rms[i]); err != nil {
						w.note("BAD: Collect: %v", err)
					}
				}()
			}
			close(start)
			wg.Wait()
			after := snap()
			for i := range readers {
				ranBy[i] = map[int]int{}
				for r := range w.regs {
					tot := int(after[r] - before[r])
					if tot%R != 0 {
						w.note("BAD: callback %d ran %d times in one concurrent round over %d readers", r, tot, R)
					}
					ranBy[i][r] = tot / R
				}
			}
		} else {
			for i := range readers {
				before := snap()
				if err := readers[i].Collect(context.Background(), &rms[i]); err != nil {
					w.note("BAD: Collect: %v", err)
				}
				after := snap()
				ranBy[i] = map[int]int{}
				for r := range w.regs {
					ranBy[i][r] = int(after[r] - before[r])
				}
			}
		}
		for i := range readers {
			vals := cbValues(&rms[i])
			for _, r := range ids {
				h := w.regs[r]
				ran := ranBy[i][r]
				found := 0
				for _, x := range h.obs {
					v, ok := vals[x.key()][r]
					mult := 0 // handles of one identity are one SDK instrument: their observations add up
					for _, y := range h.obs {
						if y.key() == x.key() {
							mult++
						}
					}
					want := float64(obsValue * ran * mult)
					if isObsGauge(x.kind) && ran > 0 {
						want = obsValue
					}
					if ok && (ran == 0 || v == want) {
						found++
					}
				}
				res.Live = append(res.Live, [4]int{r, ran, found, len(h.obs)})
				if h.creation && !h.dup && ran == 0 && round == 0 && i == 0 {
					x := h.obs[0]
					w.note("creation-time callback %d (instrument %q description %q unit %q, %s, meter %d) did not run", r, x.name, x.desc, x.unit, kindNames[x.kind], x.meter)
				}
				if h.creation && round == 0 && i == 0 {
					for k := 0; k < ran; k++ {
						sdkCreation = append(sdkCreation, [3]int{evSdkReg, r, 0})
					}
				}
			}
		}
		if round == 0 {
			var bad []string
			byN, _, bad = arrivals(&rms[0])
			res.Bad = append(res.Bad, bad...)
			w.checkIdentities(&rms[0], res)
			for i := 1; i < R; i++ { // every reader of the SDK sees every synchronous measurement
				ni, _, _ := arrivals(&rms[i])
				if fmt.Sprint(ni) != fmt.Sprint(byN) {
					res.Bad = append(res.Bad, fmt.Sprintf("reader %d of the installed SDK does not show the same measurements as reader 0", i))
				}
			}
		}
	}
	return
}
