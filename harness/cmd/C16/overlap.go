package main

import (
	"sync"
	"time"

	"go.opentelemetry.io/otel"
	"go.opentelemetry.io/otel/metric"
	sdkmetric "go.opentelemetry.io/otel/sdk/metric"
	sdktrace "go.opentelemetry.io/otel/sdk/trace"
	"go.opentelemetry.io/otel/sdk/trace/tracetest"
	"go.opentelemetry.io/otel/trace"

	"verif/harness/vgen"
)

// Overlap: 2-3 goroutines call SetTracerProvider (resp. SetMeterProvider) concurrently -
// the same provider value or different ones - while the SDK's Tracer() / Meter() is slow and
// many handles were obtained before.  "Forwarding as soon as installation returns" must hold
// for EVERY call that returns, also the ones that lose the sync.Once: immediately after each
// call's return, pre-install handles are used, and everything must arrive (at whichever SDK
// won the Once).
type Overlap struct {
	Seed       uint64 `json:"seed"`
	Side       string `json:"side"` // trace | meter
	Handles    int    `json:"handles"`
	Installers int    `json:"installers"`
	Same       bool   `json:"same_provider"`
	SlowUs     int    `json:"slow_us"` // per Tracer()/Meter() call of the SDK
	Probes     int    `json:"probes"`  // handles used right after each call's return
	StaggerUs  int    `json:"stagger_us"`
	WatchdogS  int    `json:"watchdog_s"`
}

func runOverlap(w *world, c *Overlap, res *result) {
	root := vgen.NewRand(c.Seed)
	id := func() int { return int(w.nextID.Add(1)) }
	slow := time.Duration(c.SlowUs) * time.Microsecond
	var trs []int
	var ins []*inst
	for i := 0; i < c.Handles; i++ {
		if c.Side == "trace" {
			t := id()
			w.opTracer(t, 0, 0, i%2 == 0, 0)
			trs = append(trs, t)
		} else {
			k := id()
			w.opMeter(k, -1, -1, i%2 == 0, 0)
			if x := w.opInst(id(), k, root.Intn(8), nil, false, 0, nil, 0); x != nil {
				ins = append(ins, x)
			}
		}
	}
	// the providers the callers pass
	tps := make([]trace.TracerProvider, c.Installers)
	mps := make([]metric.MeterProvider, c.Installers)
	for g := 0; g < c.Installers; g++ {
		if g == 0 || c.Same {
			tps[g] = &slowTP{TracerProvider: w.tsdk, slow: slow}
			if g > 0 {
				tps[g] = tps[0]
			}
			w.wrapped.slow = slow
			mps[g] = w.wrapped
			continue
		}
		rec := tracetest.NewSpanRecorder()
		w.moreRecs = append(w.moreRecs, rec)
		tps[g] = &slowTP{TracerProvider: sdktrace.NewTracerProvider(sdktrace.WithSpanProcessor(rec)), slow: slow}
		rd := sdkmetric.NewManualReader()
		w.moreReaders = append(w.moreReaders, rd)
		mps[g] = &recProvider{MeterProvider: sdkmetric.NewMeterProvider(sdkmetric.WithReader(rd)), log: w.log, slow: slow, fwd: w.fwd}
	}
	start := make(chan struct{})
	var wg sync.WaitGroup
	for g := 0; g < c.Installers; g++ {
		g := g
		r := root.Fork()
		wg.Add(1)
		go func() {
			defer wg.Done()
			defer func() {
				if e := recover(); e != nil {
					w.mu.Lock()
					res.Panic = "panic in an installer goroutine"
					w.mu.Unlock()
				}
			}()
			<-start
			if g > 0 {
				time.Sleep(time.Duration(r.Intn(c.StaggerUs+1)) * time.Microsecond)
			}
			if c.Side == "trace" {
				w.log.add(evTInstallCall, 0, 0)
				otel.SetTracerProvider(tps[g])
				w.tinst.Store(true)
				w.log.add(evTInstallRet, 0, 0)
				for i := 0; i < c.Probes; i++ { // right after THIS call returned
					w.opSpan(id(), trs[r.Intn(len(trs))])
				}
			} else {
				w.log.add(evInstallCall, 0, 0)
				otel.SetMeterProvider(mps[g])
				w.installed.Store(true)
				w.log.add(evInstallRet, 0, 0)
				for i := 0; i < c.Probes; i++ {
					w.opRecord(id(), ins[r.Intn(len(ins))])
				}
			}
		}()
	}
	close(start)
	wg.Wait() // under the watchdog of childMain
	// and once more when all calls have returned (a sample: the floods and storms use every handle)
	for i := 0; i < 40; i++ {
		if c.Side == "trace" {
			w.opSpan(id(), trs[root.Intn(len(trs))])
		} else {
			w.opRecord(id(), ins[root.Intn(len(ins))])
		}
	}
	res.Stats = map[string]int{"handles": c.Handles, "installers": c.Installers}
}
