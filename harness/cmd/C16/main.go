// C16 harness: the global (delegating) tracer / meter providers of
// go.opentelemetry.io/otel vs the Coq model and specification.
//
// Installation happens once per process, so every scenario runs in a re-exec'd
// child (this binary with -child; scenario on stdin, JSON result on stdout).
package main

import (
	"bytes"
	"context"
	"encoding/json"
	"flag"
	"fmt"
	"os"
	"os/exec"
	"path/filepath"
	"strings"
	"sync"
	"time"

	"verif/harness/vgen"
)

type outcome struct {
	sc     Scenario
	label  string
	res    *result
	err    string // child crashed / was killed / produced no result
	stderr string
	race   bool
	start  time.Time
	dur    time.Duration
}

func runChild(bin string, sc Scenario, limit time.Duration) (*result, string, string) {
	in, _ := json.Marshal(sc)
	ctx, cancel := context.WithTimeout(context.Background(), limit)
	defer cancel()
	cmd := exec.CommandContext(ctx, bin, "-child")
	cmd.Stdin = bytes.NewReader(in)
	var out, errb bytes.Buffer
	cmd.Stdout, cmd.Stderr = &out, &errb
	err := cmd.Run()
	var res result
	if jerr := json.Unmarshal(out.Bytes(), &res); jerr != nil {
		what := "child produced no result"
		if ctx.Err() != nil {
			what = "child killed after " + limit.String() + " (its own watchdog did not fire)"
		} else if err != nil {
			what = "child crashed: " + err.Error()
		}
		return nil, what, tail(errb.String(), 6000)
	}
	return &res, "", tail(errb.String(), 6000)
}

func tail(s string, n int) string {
	if len(s) > n {
		return s[len(s)-n:]
	}
	return s
}

func trip(e [3]int) string {
	return fmt.Sprintf("(%d,%d,%d)", e[0], e[1], e[2])
}

func coqHist(evs [][3]int) string {
	items := make([]string, len(evs))
	for i, e := range evs {
		items[i] = trip(e)
	}
	return vgen.List(items)
}

func coqLive(l [][4]int) string {
	items := make([]string, len(l))
	for i, e := range l {
		items[i] = fmt.Sprintf("(%d,%d,%d,%d)", e[0], e[1], e[2], e[3])
	}
	return vgen.List(items)
}

func coqSteps(steps []Step) string {
	items := make([]string, len(steps))
	for i, s := range steps {
		tag, arg := s.Op, s.Arg
		if tag == opProp || tag == opSelf || tag == opErrH {
			tag, arg = 0, 0
		}
		if tag == opTracer || tag == opInstall || tag == opInstallT {
			arg = 0
		}
		if tag == opInst && s.Same > 0 {
			tag, arg = 11, s.Arg*1024+s.Same
		}
		items[i] = fmt.Sprintf("(%d,%d)", tag, arg)
	}
	return vgen.List(items)
}

var opNames = []string{"none", "Meter", "Inst", "Record", "Register", "Unregister", "SetMeterProvider", "Tracer", "Span", "SetTracerProvider", "SetTextMapPropagator", "Set*(current global value): 0 tracer 1 meter 2 propagator", "SetErrorHandler"}

func descSteps(steps []Step) []string {
	out := make([]string, len(steps))
	for j, s := range steps {
		switch s.Op {
		case opInst:
			out[j] = fmt.Sprintf("%d: %s on meter %d -> instrument %d", j, kindNames[s.Kind], s.Arg, j)
			if s.Same > 0 {
				out[j] += fmt.Sprintf(" (the identity of instrument %d requested again)", s.Same)
			}
			if s.CB {
				out[j] += fmt.Sprintf(" with creation-time callback %d", j)
			}
			if s.Near > 0 {
				out[j] += fmt.Sprintf(" (name and kind of instrument %d, different %s)", s.Near, []string{"", "description", "unit", "description and unit"}[s.Mode])
			}
			if s.Bad > 0 {
				out[j] += fmt.Sprintf(" name class %d (1 leading digit, 2 empty, 3 256 chars, 4 bad character, 5 255 chars)", s.Bad)
			}
		case opRegister:
			out[j] = fmt.Sprintf("%d: RegisterCallback on meter %d instruments %v -> registration %d", j, s.Arg, s.Obs, j)
			if len(s.Extra) > 0 {
				out[j] += fmt.Sprintf(" (the callback also observes %v)", s.Extra)
			}
		case opRecord:
			out[j] = fmt.Sprintf("%d: record measurement %d on instrument %d", j, j, s.Arg)
		default:
			out[j] = fmt.Sprintf("%d: %s %d", j, opNames[s.Op], s.Arg)
			if s.Same > 0 {
				out[j] += fmt.Sprintf(" (identity of %d again)", s.Same-(map[bool]int{true: 1, false: 0})[s.Op == opMeter])
			}
			if s.Alt > 0 {
				out[j] += fmt.Sprintf(" (identity of %d but different instrumentation attributes)", s.Alt-(map[bool]int{true: 1, false: 0})[s.Op == opMeter])
			}
			if s.Opt {
				out[j] += " +version/schema/attributes"
			}
			if s.Via == 1 {
				out[j] += " via otel.Meter/otel.Tracer"
			}
			if s.Prov == 1 {
				out[j] += " (provider value of a non-comparable type)"
			}
		}
	}
	return out
}

func main() {
	child := flag.Bool("child", false, "run one scenario read from stdin (internal)")
	norace := flag.Bool("norace", false, "thorough tier: do not build/run the -race child binary")
	if len(os.Args) > 1 && os.Args[1] == "-child" {
		childMain()
		return
	}
	o := vgen.ParseFlags()
	_ = child
	r := vgen.NewRand(o.Seed)
	w := vgen.NewWriter(o.Out, "C16.Spec C16.Model C16.Corr", "case", 150)
	w.Rule = "a scenario counts as non-trivial when an SDK was installed in it and at least one measurement, span or callback registration reached the SDK through an object handed out by the global API"

	var scs []Scenario
	var labels []string
	mr := r.Fork() // SDK shape: a third of the scenarios install an SDK with 2-3 readers
	add := func(label string, sc Scenario) {
		for _, st := range sc.Steps {
			if st.Op == opProp && st.Arg == 1 {
				sc.WatchdogS = 25 // a re-entrant propagator: a self-deadlock shows as Stuck (microseconds of work)
			}
		}
		if sc.Kind == "seq" || sc.Kind == "storm" {
			if mr.Chance(1, 3) {
				sc.Readers = mr.Range(2, 3)
				sc.Concurrent = mr.Bool()
			}
			if sc.Kind == "storm" && sc.Storm != nil && (sc.Storm.Sweep || sc.Storm.Unregs > 0) && mr.Chance(1, 2) {
				sc.SlowRegUs = vgen.Pick(mr, []int{30, 100, 300}) // Unregister races a slow hand-over
			}
		}
		scs = append(scs, sc)
		labels = append(labels, label)
	}
	// ---- fixed corpus (runs first) ----
	for i, d := range []int{0, 50, 150, 400, 1000, 2500} {
		// F-C16-1 (repaired by 79987fb): Unregister racing SetMeterProvider over many registrations
		add("corpus-F-C16-1", Scenario{Kind: "storm", Storm: &Storm{Seed: uint64(1000 + i), Meters: 1 + i%2, PreInsts: 2, PreRegs: []int{200, 60}[i%2], PreUnreg: 3,
			Unregs: 6, Sweep: true, Installers: 1, Delay: d, Iter: 1, WatchdogS: 60}})
	}
	for _, c := range seqCorpus() {
		add("corpus-seq", Scenario{Kind: "seq", Steps: c})
	}
	// ---- systematic orders, every instrument kind ----
	for kind := 0; kind < nKinds; kind++ {
		for _, c := range systematic(kind) {
			add("seq-orders", Scenario{Kind: "seq", Steps: c})
		}
	}
	// ---- random sequential programs ----
	nSeq := o.Count(800, 8000)
	for i := 0; i < nSeq; i++ {
		add("seq-random", Scenario{Kind: "seq", Steps: randomProgram(r.Fork())})
	}
	// ---- concurrent storms ----
	nStorm := o.Count(200, 1500)
	for i := 0; i < nStorm; i++ {
		add("storm", Scenario{Kind: "storm", Storm: randomStorm(r.Fork())})
	}

	// ---- high-volume creation floods (tracers / meters+instruments) across an installation ----
	nFlood := o.Count(32, 300)
	for i := 0; i < nFlood; i++ {
		fr := r.Fork()
		side := "trace"
		if i%2 == 1 {
			side = "meter"
		}
		add("flood-"+side, Scenario{Kind: "flood", Flood: &Flood{Seed: fr.U64(), Side: side, Goroutines: fr.Range(4, 8),
			PerG: vgen.Pick(fr, []int{2000, 4000, 6000}), DelayUs: vgen.Pick(fr, []int{300, 1000, 3000, 8000, 20000}),
			TailUs: vgen.Pick(fr, []int{200, 2000, 10000}), WatchdogS: 60}})
	}

	// ---- overlapping installation calls against a slow SDK ----
	nOver := o.Count(24, 240)
	for i := 0; i < nOver; i++ {
		fr := r.Fork()
		side := "trace"
		if i%2 == 1 {
			side = "meter"
		}
		add("overlap-"+side, Scenario{Kind: "overlap", Overlap: &Overlap{Seed: fr.U64(), Side: side, Handles: fr.Range(60, 200),
			Installers: fr.Range(2, 3), Same: fr.Bool(), SlowUs: vgen.Pick(fr, []int{50, 150, 300}), Probes: 25,
			StaggerUs: vgen.Pick(fr, []int{0, 100, 1000, 5000}), WatchdogS: 60}})
	}

	// ---- RegisterCallback / Unregister in tight loops while SetMeterProvider runs (no logging in between) ----
	regRace := func(fr *vgen.Rand, race bool) Scenario {
		c := &RegRace{Seed: fr.U64(), Meters: fr.Range(1, 3), Registerers: fr.Range(3, 6), MinIter: 60, MaxIter: 160,
			DelayUs: vgen.Pick(fr, []int{100, 300, 1000, 3000}), SlowUs: vgen.Pick(fr, []int{0, 100, 400}),
			UnregEvery: vgen.Pick(fr, []int{0, 3, 7}), WatchdogS: 60}
		if race { // the race detector slows everything down by an order of magnitude
			c.MinIter, c.MaxIter, c.DelayUs = 40, 120, c.DelayUs*3
		}
		return Scenario{Kind: "regrace", RegRace: c}
	}
	for i := 0; i < o.Count(12, 120); i++ {
		add("regrace", regRace(r.Fork(), false))
	}

	bin, _ := os.Executable()
	outs := runAll(bin, scs, labels, false)

	// ---- race detector: thorough re-runs the storms under a -race build of the child; quick runs a reduced
	// fragment (storms in which all four globals - tracer provider, meter provider, propagator, error handler -
	// are installed while their placeholders are in use).  A race build that fails or times out, and a -race
	// child that is killed or hits its watchdog, are "not run / inconclusive" in the evidence, never a violation.
	raceNote := "not run (-norace)"
	if !*norace {
		buildLimit := 20 * time.Minute
		if o.Tier != "thorough" {
			buildLimit = 4 * time.Minute
		}
		t0 := time.Now()
		rb, err := buildRace(o.Out, buildLimit)
		if err != nil {
			raceNote = "not run (inconclusive): race build failed or timed out: " + err.Error()
		} else {
			var rs []Scenario
			var rl []string
			if o.Tier == "thorough" {
				for i, sc := range scs {
					if sc.Kind == "storm" && len(rs) < 400 {
						rs = append(rs, sc)
						rl = append(rl, labels[i]+"-race")
					}
				}
			}
			rr := r.Fork()
			for i := 0; i < o.Count(14, 60); i++ {
				rs = append(rs, Scenario{Kind: "storm", Storm: raceStorm(rr.Fork(), i)})
				rl = append(rl, "storm-race")
			}
			for i := 0; i < o.Count(10, 60); i++ {
				rs = append(rs, regRace(rr.Fork(), true))
				rl = append(rl, "regrace-race")
			}
			ro := runAll(rb, rs, rl, true)
			outs = append(outs, ro...)
			raceNote = fmt.Sprintf("%d storms run under a -race build of the child (build %.0fs, run %.0fs)", len(rs),
				ro0(t0, ro), time.Since(t0).Seconds()-ro0(t0, ro))
		}
	}
	w.Extra["race"] = raceNote

	for _, oc := range outs {
		judge(w, oc)
	}
	if err := w.Flush(); err != nil {
		fmt.Fprintln(os.Stderr, err)
		os.Exit(2)
	}
}

func runAll(bin string, scs []Scenario, labels []string, race bool) []outcome {
	outs := make([]outcome, len(scs))
	sem := make(chan struct{}, 16)
	var wg sync.WaitGroup
	for i := range scs {
		wg.Add(1)
		sem <- struct{}{}
		go func(i int) {
			defer wg.Done()
			defer func() { <-sem }()
			limit := 150 * time.Second
			if race {
				limit = 400 * time.Second
			}
			t0 := time.Now()
			res, errs, stderr := runChild(bin, scs[i], limit)
			outs[i] = outcome{sc: scs[i], label: labels[i], res: res, err: errs, stderr: stderr, race: race, dur: time.Since(t0), start: t0}
		}(i)
	}
	wg.Wait()
	return outs
}

// ro0: seconds from t0 until the first race child started (= the build time).
func ro0(t0 time.Time, ro []outcome) float64 {
	first := time.Now()
	for _, o := range ro {
		if st := o.start; !st.IsZero() && st.Before(first) {
			first = st
		}
	}
	return first.Sub(t0).Seconds()
}

func buildRace(out string, limit time.Duration) (string, error) {
	root := os.Getenv("VERIF_ROOT")
	if root == "" {
		return "", fmt.Errorf("VERIF_ROOT not set")
	}
	binp := filepath.Join(out, "harness-race")
	args := []string{"build", "-race", "-tags", "verif", "-o", binp}
	if _, err := os.Stat(filepath.Join(out, "alt.mod")); err == nil {
		args = append(args, "-modfile="+filepath.Join(out, "alt.mod"))
	}
	args = append(args, "./cmd/C16")
	ctx, cancel := context.WithTimeout(context.Background(), limit)
	defer cancel()
	cmd := exec.CommandContext(ctx, "go", args...)
	cmd.Dir = filepath.Join(root, "harness")
	cmd.Env = append(os.Environ(), "CGO_ENABLED=1")
	if b, err := cmd.CombinedOutput(); err != nil {
		return "", fmt.Errorf("%v: %s", err, tail(string(b), 500))
	}
	return binp, nil
}

func judge(w *vgen.Writer, oc outcome) {
	desc := map[string]any{"kind": oc.label}
	switch oc.sc.Kind {
	case "seq":
		desc["steps"] = descSteps(oc.sc.Steps)
	case "flood":
		desc["flood"] = oc.sc.Flood
	case "overlap":
		desc["overlap"] = oc.sc.Overlap
	case "regrace":
		desc["regrace"] = oc.sc.RegRace
	default:
		desc["storm"] = oc.sc.Storm
	}
	if oc.sc.Readers > 1 {
		desc["sdk_readers"] = oc.sc.Readers
		desc["concurrent_collect"] = oc.sc.Concurrent
		w.Tally(fmt.Sprintf("sdk-readers:%d concurrent:%v", oc.sc.Readers, oc.sc.Concurrent))
	}
	if oc.sc.SlowRegUs > 0 {
		desc["slow_register_us"] = oc.sc.SlowRegUs
	}
	if oc.race && strings.Contains(oc.stderr, "DATA RACE") {
		desc["stderr"] = oc.stderr
		w.Violation("data race reported by the race detector in a storm over the global providers", desc)
		return
	}
	if oc.race && (oc.res == nil || oc.res.Stuck) {
		// slow under the race detector on a busy machine: the same scenario shapes run without -race decide this
		w.Tally("race:inconclusive (child killed or watchdog under -race)")
		return
	}
	if oc.res == nil {
		desc["stderr"] = oc.stderr
		w.Violation("Crashed: "+oc.err, desc)
		return
	}
	res := oc.res
	if res.Stuck {
		desc["goroutines"] = tail(res.Dump, 20000)
		w.Violation("Stuck: goroutines still blocked when the watchdog fired (deadlock between calls on the global providers)", desc)
		return
	}
	if res.Panic != "" {
		desc["panic"] = res.Panic
		w.Violation("panic: "+strings.SplitN(res.Panic, "\n", 2)[0], desc)
		return
	}
	for _, b := range res.Bad {
		w.Violation(b, desc)
	}
	if len(res.Notes) > 0 {
		desc["notes"] = res.Notes
	}
	nontrivial := false
	for _, e := range res.Events {
		if e[0] == evSdkRec || e[0] == evSdkReg || e[0] == evSdkSpan {
			nontrivial = true
		}
	}
	w.Tally(oc.label)
	w.Tally(fmt.Sprintf("%s:events<%d", oc.sc.Kind, (len(res.Events)/50+1)*50))
	if oc.sc.Kind == "seq" {
		for _, s := range oc.sc.Steps {
			if s.Op == opInst {
				w.Tally("kind:" + kindNames[s.Kind])
			}
		}
		var cbs []string
		for j, s := range oc.sc.Steps {
			if s.Op == opInst && s.CB {
				cbs = append(cbs, fmt.Sprint(j))
			}
		}
		br, bc := badLists(oc.sc.Steps)
		ints := func(l []int) string {
			out := make([]string, len(l))
			for i, v := range l {
				out[i] = fmt.Sprint(v)
			}
			return vgen.List(out)
		}
		if len(br)+len(bc) > 0 {
			w.Tally("seq:with-SDK-rejected-instrument-name")
		}
		term := vgen.App("CSeq", coqSteps(oc.sc.Steps), vgen.List(cbs), ints(br), ints(bc), coqHist(res.Events), coqLive(res.Live))
		w.Add(term, desc, oc.label, nontrivial)
	} else {
		desc["stats"] = res.Stats
		for k, v := range res.Stats {
			if oc.sc.Kind == "flood" {
				w.Extra["flood:"+k] = toInt(w.Extra["flood:"+k]) + v
			}
		}
		term := vgen.App("CHist", coqHist(res.Events), coqLive(res.Live))
		w.Add(term, desc, oc.label, nontrivial)
	}
}

func toInt(v any) int {
	if i, ok := v.(int); ok {
		return i
	}
	return 0
}
