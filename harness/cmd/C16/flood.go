package main

import (
	"context"
	"fmt"
	"sync"
	"sync/atomic"
	"time"

	"go.opentelemetry.io/otel/metric"
	"go.opentelemetry.io/otel/sdk/metric/metricdata"
	"go.opentelemetry.io/otel/trace"

	"verif/harness/vgen"
)

// Flood: high-volume creation of distinct handles (tracers, or meters with one
// instrument each) by several goroutines in a tight loop, running before, while and
// after SetTracerProvider / SetMeterProvider is called from another goroutine.  After
// installation returned and the creators stopped, EVERY handle is used once and must
// reach the SDK.  The window between the provider's walk and its unlock is a few hundred
// nanoseconds: only volume hits it.
type Flood struct {
	Seed       uint64 `json:"seed"`
	Side       string `json:"side"` // trace | meter
	Goroutines int    `json:"goroutines"`
	PerG       int    `json:"per_goroutine"` // cap on handles per goroutine
	DelayUs    int    `json:"delay_us"`      // installation is called after this long
	TailUs     int    `json:"tail_us"`       // creators keep going this long after it returned
	WatchdogS  int    `json:"watchdog_s"`
}

type fhandle struct {
	id    int
	phase int32 // 0 returned before installation was called, 1 while it ran, 2 after it returned
	tr    trace.Tracer
	ctr   metric.Int64Counter
}

// The recorded history is the projection of the real one onto the installation events and
// a bounded set of handles: every handle that did NOT reach the SDK, every handle created
// while installation was running, and a sample of the others.  (Each clause of the
// specification is about one identifier, so projecting preserves its truth.)
const (
	floodKeepBad    = 60
	floodKeepDuring = 120
	floodKeepOther  = 40
)

func runFlood(w *world, c *Flood, res *result) {
	root := vgen.NewRand(c.Seed)
	var phase atomic.Int32
	var stop atomic.Bool
	var next atomic.Int64
	per := make([][]*fhandle, c.Goroutines)
	var wg sync.WaitGroup
	start := make(chan struct{})
	for g := 0; g < c.Goroutines; g++ {
		g := g
		wg.Add(1)
		go func() {
			defer wg.Done()
			defer func() {
				if e := recover(); e != nil {
					w.mu.Lock()
					res.Panic = fmt.Sprint(e)
					w.mu.Unlock()
				}
			}()
			<-start
			hs := make([]*fhandle, 0, c.PerG)
			for i := 0; i < c.PerG && !stop.Load(); i++ {
				id := int(next.Add(1))
				h := &fhandle{id: id}
				if c.Side == "trace" {
					h.tr = w.tp0.Tracer(fmt.Sprintf("t%d", id))
				} else {
					m := w.mp0.Meter(fmt.Sprintf("m%d", id))
					ctr, err := m.Int64Counter(fmt.Sprintf("i%d", id))
					if err != nil {
						continue
					}
					h.ctr = ctr
				}
				h.phase = phase.Load() // read after the constructor returned
				hs = append(hs, h)
			}
			per[g] = hs
		}()
	}
	close(start)
	time.Sleep(time.Duration(c.DelayUs+root.Intn(c.DelayUs/4+1)) * time.Microsecond)
	if c.Side == "trace" {
		w.log.add(evTInstallCall, 0, 0)
		phase.Store(1)
		w.opInstallTRaw()
		phase.Store(2)
		w.log.add(evTInstallRet, 0, 0)
	} else {
		w.log.add(evInstallCall, 0, 0)
		phase.Store(1)
		w.opInstallRaw()
		phase.Store(2)
		w.log.add(evInstallRet, 0, 0)
	}
	time.Sleep(time.Duration(c.TailUs) * time.Microsecond)
	stop.Store(true)
	wg.Wait() // under the watchdog of childMain

	// ---- installation has returned and the creators have stopped: use every handle ----
	var all []*fhandle
	for _, hs := range per {
		all = append(all, hs...)
	}
	ctx := context.Background()
	arrived := map[int]int{}
	if c.Side == "trace" {
		for _, h := range all {
			_, sp := h.tr.Start(ctx, fmt.Sprintf("s%d", h.id))
			sp.End()
		}
		for _, s := range w.rec.Ended() {
			var id int
			if _, err := fmt.Sscanf(s.Name(), "s%d", &id); err == nil {
				arrived[id]++
			}
		}
	} else {
		for _, h := range all {
			h.ctr.Add(ctx, recValue)
		}
		var rm metricdata.ResourceMetrics
		if err := w.reader.Collect(ctx, &rm); err != nil {
			res.Bad = append(res.Bad, "Collect: "+err.Error())
		}
		for _, sm := range rm.ScopeMetrics {
			for _, m := range sm.Metrics {
				var id int
				if _, err := fmt.Sscanf(m.Name, "i%d", &id); err != nil {
					continue
				}
				if d, ok := m.Data.(metricdata.Sum[int64]); ok {
					for _, p := range d.DataPoints {
						arrived[id] += int(p.Value / recValue)
					}
				}
			}
		}
	}
	// ---- projected history ----
	var bad, during, other []*fhandle
	cnt := [3]int{}
	for _, h := range all {
		cnt[h.phase]++
		switch {
		case arrived[h.id] != 1:
			bad = append(bad, h)
		case h.phase == 1:
			during = append(during, h)
		default:
			other = append(other, h)
		}
	}
	keep := func(l []*fhandle, n int) []*fhandle {
		if len(l) <= n {
			return l
		}
		out := make([]*fhandle, 0, n)
		for i := 0; i < n; i++ {
			out = append(out, l[i*len(l)/n])
		}
		return out
	}
	sel := append(append(keep(bad, floodKeepBad), keep(during, floodKeepDuring)...), keep(other, floodKeepOther)...)
	retTag, callTag, retTag2, sdkTag, icall, iret := evInstRet, evRecCall, evRecRet, evSdkRec, evInstallCall, evInstallRet
	if c.Side == "trace" {
		retTag, callTag, retTag2, sdkTag, icall, iret = evTracerRet, evSpanCall, evSpanRet, evSdkSpan, evTInstallCall, evTInstallRet
	}
	emitRet := func(ph int32) {
		for _, h := range sel {
			if h.phase == ph {
				res.Events = append(res.Events, [3]int{retTag, h.id, 0})
			}
		}
	}
	emitRet(0)
	res.Events = append(res.Events, [3]int{icall, 0, 0})
	emitRet(1)
	res.Events = append(res.Events, [3]int{iret, 0, 0})
	emitRet(2)
	for _, h := range sel {
		res.Events = append(res.Events, [3]int{callTag, h.id, h.id})
		for i := 0; i < arrived[h.id]; i++ {
			res.Events = append(res.Events, [3]int{sdkTag, h.id, 0})
		}
		res.Events = append(res.Events, [3]int{retTag2, h.id, 0})
	}
	res.Stats = map[string]int{"handles": len(all), "before": cnt[0], "during": cnt[1], "after": cnt[2],
		"not_arrived_or_duplicated": len(bad)}
}
