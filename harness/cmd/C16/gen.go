package main

import (
	"sort"

	"verif/harness/vgen"
)

// builder appends a step only when the sequential program so far makes it
// meaningful (the handles it needs exist), so that the model's "no such handle:
// no-op thread" rule and the harness never have to agree on skipped calls.
type builder struct {
	steps       []Step
	installed   int
	tinstalled  int
	globalMeter map[int]bool
	kindOf      map[int]int
	meterOf     map[int]int
	syncs       []int
	obs         map[int][]int
	regs        []int
	tracers     []int
	direct      map[int]bool // registration made after installation: the SDK's own Registration is handed out
	unregCalled map[int]bool
	origin      map[int]int  // repeated request -> first request of the identity
	anyMeter    map[int]bool // key in use (global or not)
	badInst     map[int]bool // placeholder whose name the SDK rejects (F-C16-2)
	BadRec      []int        // measurements through such placeholders
	BadCB       []int        // creation-time callbacks attached to them
}

func newBuilder() *builder {
	return &builder{globalMeter: map[int]bool{}, kindOf: map[int]int{}, meterOf: map[int]int{}, obs: map[int][]int{},
		direct: map[int]bool{}, unregCalled: map[int]bool{}, origin: map[int]int{}, anyMeter: map[int]bool{}, badInst: map[int]bool{}}
}

func (b *builder) add(s Step) bool {
	id := len(b.steps)
	switch s.Op {
	case opMeter:
		if s.Same > 0 { // the identity of meter key Same-1 again, kept under the fresh key Arg
			if !b.anyMeter[s.Same-1] || b.anyMeter[s.Arg] {
				return false
			}
		}
		if s.Alt > 0 { // the identity of meter key Alt-1 with different attributes: a distinct meter under the fresh key Arg
			if !b.anyMeter[s.Alt-1] || b.anyMeter[s.Arg] || s.Same > 0 {
				return false
			}
		}
		b.anyMeter[s.Arg] = true
		if b.installed == 0 {
			b.globalMeter[s.Arg] = true
		}
	case opInst:
		if s.Same > 0 {
			// the identity of an earlier request, on its meter, with its kind (normalised to the first request)
			k, ok := b.kindOf[s.Same]
			if !ok {
				return false
			}
			if o, ok := b.origin[s.Same]; ok {
				s.Same = o
			}
			s.Kind, s.Arg = k, b.meterOf[s.Same]
			b.origin[id] = s.Same
		}
		if s.Near > 0 { // the name and kind of an earlier request under another description / unit
			k, ok := b.kindOf[s.Near]
			if !ok || s.Same > 0 || s.Mode < 1 || s.Mode > 3 {
				return false
			}
			s.Kind, s.Arg, s.Bad = k, b.meterOf[s.Near], 0
			if b.badInst[s.Near] && b.installed == 0 {
				b.badInst[id] = true
			}
		}
		if !b.globalMeter[s.Arg] {
			return false
		}
		if !isObservable(s.Kind) {
			s.CB = false
		}
		if s.Same > 0 {
			s.Bad = 0
			if b.badInst[s.Same] && b.installed == 0 {
				b.badInst[id] = true // the same (never connected) placeholder again
			}
		} else if s.Bad >= 1 && s.Bad <= 4 && b.installed == 0 {
			b.badInst[id] = true
		}
		if b.badInst[id] && s.CB {
			b.BadCB = append(b.BadCB, id)
		}
		b.kindOf[id], b.meterOf[id] = s.Kind, s.Arg
		if isObservable(s.Kind) {
			b.obs[s.Arg] = append(b.obs[s.Arg], id)
		} else {
			b.syncs = append(b.syncs, id)
		}
	case opRecord:
		k, ok := b.kindOf[s.Arg]
		if !ok || isObservable(k) {
			return false
		}
		if b.badInst[s.Arg] {
			b.BadRec = append(b.BadRec, id)
		}
	case opRegister:
		if !b.globalMeter[s.Arg] || len(s.Obs) == 0 {
			return false
		}
		for _, i := range s.Obs {
			k, ok := b.kindOf[i]
			if !ok || !isObservable(k) || b.meterOf[i] != s.Arg || b.badInst[i] {
				return false
			}
		}
		for _, i := range s.Extra {
			if k, ok := b.kindOf[i]; !ok || !isObservable(k) {
				return false
			}
		}
		b.regs = append(b.regs, id)
		b.direct[id] = b.installed > 0
	case opUnregister:
		ok := false
		for _, r := range b.regs {
			ok = ok || r == s.Arg
		}
		if !ok {
			return false
		}
		if b.direct[s.Arg] && b.unregCalled[s.Arg] {
			return false // a second Unregister on the SDK's own Registration exercises only the SDK
		}
		b.unregCalled[s.Arg] = true
	case opInstall:
		if b.installed >= 2 {
			return false
		}
		b.installed++
	case opTracer:
		if s.Same > 0 {
			ok := false
			for _, t := range b.tracers {
				ok = ok || t == s.Same
			}
			if !ok {
				return false
			}
		}
		if s.Alt > 0 {
			ok := false
			for _, t := range b.tracers {
				ok = ok || t == s.Alt
			}
			if !ok || s.Same > 0 {
				return false
			}
		}
		b.tracers = append(b.tracers, id)
	case opSpan:
		ok := false
		for _, t := range b.tracers {
			ok = ok || t == s.Arg
		}
		if !ok {
			return false
		}
	case opInstallT:
		if b.tinstalled >= 2 {
			return false
		}
		b.tinstalled++
	}
	b.steps = append(b.steps, s)
	return true
}

// finish: after everything, one marked measurement on every instrument and one
// span on every tracer handed out (they must arrive when an SDK was installed).
func (b *builder) finish() []Step {
	for _, i := range b.syncs {
		// four consecutive measurement ids: every value class of recVal (5, 0, negative) occurs on every instrument
		for j := 0; j < 4; j++ {
			b.add(Step{Op: opRecord, Arg: i})
		}
	}
	for _, t := range b.tracers {
		b.add(Step{Op: opSpan, Arg: t})
	}
	return b.steps
}

func permutations(xs []int) [][]int {
	if len(xs) <= 1 {
		return [][]int{append([]int(nil), xs...)}
	}
	var out [][]int
	seen := map[int]bool{}
	for i, x := range xs {
		if seen[x] {
			continue
		}
		seen[x] = true
		rest := append(append([]int(nil), xs[:i]...), xs[i+1:]...)
		for _, p := range permutations(rest) {
			out = append(out, append([]int{x}, p...))
		}
	}
	return out
}

// systematic: every order of create / record (or register / unregister) / install
// for one instrument kind on one meter.
func systematic(kind int) [][]Step {
	const (
		tC = iota // create the instrument
		tR        // record / register
		tU        // unregister (observable kinds), second record (synchronous kinds)
		tI        // install
	)
	var out [][]Step
	emit := func(tokens []int) {
		b := newBuilder()
		b.add(Step{Op: opMeter, Arg: 0})
		inst, reg := -1, -1
		for _, t := range tokens {
			switch t {
			case tC:
				inst = len(b.steps)
				b.add(Step{Op: opInst, Arg: 0, Kind: kind})
			case tR:
				if isObservable(kind) {
					if inst >= 0 {
						reg = len(b.steps)
						b.add(Step{Op: opRegister, Arg: 0, Obs: []int{inst}})
					}
				} else {
					b.add(Step{Op: opRecord, Arg: inst})
				}
			case tU:
				if isObservable(kind) {
					b.add(Step{Op: opUnregister, Arg: reg})
				} else {
					b.add(Step{Op: opRecord, Arg: inst})
				}
			case tI:
				b.add(Step{Op: opInstall})
			}
		}
		out = append(out, b.finish())
	}
	for _, p := range permutations([]int{tC, tR, tU, tI}) {
		emit(p)
	}
	// names the SDK rejects (F-C16-2) and the longest valid name, before and after installation; options,
	// the otel.Meter entry point, a non-comparable provider value, a refused self-installation first
	for bad := 1; bad <= 5; bad++ {
		for _, pre := range []bool{true, false} {
			b := newBuilder()
			b.add(Step{Op: opSelf, Arg: 1})
			b.add(Step{Op: opMeter, Arg: 0, Opt: bad%2 == 0, Via: bad % 2})
			if !pre {
				b.add(Step{Op: opInstall, Prov: bad % 2})
			}
			b.add(Step{Op: opInst, Arg: 0, Kind: kind, Bad: bad, CB: true})
			if !isObservable(kind) {
				b.add(Step{Op: opRecord, Arg: len(b.steps) - 1})
			}
			if pre {
				b.add(Step{Op: opInstall, Prov: bad % 2})
			}
			b.add(Step{Op: opInstall, Prov: 1})
			out = append(out, b.finish())
		}
	}
	// near-identities: same name and kind, another description (1) / unit (2) / both (3) - distinct streams
	for mode := 1; mode <= 3; mode++ {
		for v := 0; v < 3; v++ {
			b := newBuilder()
			b.add(Step{Op: opMeter, Arg: 0})
			b.add(Step{Op: opInst, Arg: 0, Kind: kind, CB: true}) // 1
			if v == 2 {
				b.add(Step{Op: opInstall})
			}
			b.add(Step{Op: opInst, Near: 1, Mode: mode, CB: true})
			n2 := len(b.steps) - 1
			b.add(Step{Op: opInst, Near: 1, Mode: 3, CB: v == 0})
			if isObservable(kind) {
				b.add(Step{Op: opRegister, Arg: 0, Obs: []int{1, n2}})
				b.add(Step{Op: opRegister, Arg: 0, Obs: []int{n2}})
			} else {
				b.add(Step{Op: opRecord, Arg: 1})
				b.add(Step{Op: opRecord, Arg: n2})
			}
			if v == 1 {
				b.add(Step{Op: opInst, Same: n2}) // and that near-identity once more
			}
			b.add(Step{Op: opInstall})
			out = append(out, b.finish())
		}
	}
	// a callback registered for valid observables that ALSO observes a never-connected placeholder (SDK-rejected
	// name) and an observable of another meter: no panic in Collect, the valid observations arrive
	if isObservable(kind) {
		for bad := 1; bad <= 4; bad++ {
			for v := 0; v < 2; v++ {
				b := newBuilder()
				b.add(Step{Op: opMeter, Arg: 0})
				b.add(Step{Op: opMeter, Arg: 1})
				b.add(Step{Op: opInst, Arg: 0, Kind: kind})                     // 2 valid
				b.add(Step{Op: opInst, Arg: 0, Kind: kind, Bad: bad})           // 3 never connected
				b.add(Step{Op: opInst, Arg: 1, Kind: 8 + (kind+1)%6})           // 4 another meter
				b.add(Step{Op: opInst, Arg: 0, Kind: 8 + (kind+3)%6, Bad: bad}) // 5 never connected, other number type possible
				if v == 1 {
					b.add(Step{Op: opInstall})
				}
				b.add(Step{Op: opRegister, Arg: 0, Obs: []int{2}, Extra: []int{3, 4, 5}})
				b.add(Step{Op: opRegister, Arg: 0, Obs: []int{2}, Extra: []int{5, 3}})
				b.add(Step{Op: opInstall})
				out = append(out, b.finish())
			}
		}
	}
	// the same identity requested 2-3 times before (and after) installation: every handle must work
	dup := func(seq []Step) {
		b := newBuilder()
		b.add(Step{Op: opMeter, Arg: 0})
		for _, st := range seq {
			b.add(st)
		}
		out = append(out, b.finish())
	}
	c1 := func(cb bool) Step { return Step{Op: opInst, Arg: 0, Kind: kind, CB: cb} }
	d1 := func(cb bool) Step { return Step{Op: opInst, Arg: 0, Kind: kind, Same: 1, CB: cb} }
	inst := Step{Op: opInstall}
	if !isObservable(kind) {
		rec := func(i int) Step { return Step{Op: opRecord, Arg: i} }
		dup([]Step{c1(false), d1(false), inst})
		dup([]Step{c1(false), d1(false), d1(false), inst})
		dup([]Step{c1(false), d1(false), rec(1), rec(2), inst})
		dup([]Step{c1(false), inst, d1(false)})
		dup([]Step{c1(false), d1(false), inst, d1(false)})
	} else {
		reg := func(i int) Step { return Step{Op: opRegister, Arg: 0, Obs: []int{i}} }
		for _, cb := range [][2]bool{{true, false}, {false, true}, {true, true}, {false, false}} {
			dup([]Step{c1(cb[0]), d1(cb[1]), inst})
			dup([]Step{c1(cb[0]), d1(cb[1]), reg(1), reg(2), inst})
			dup([]Step{c1(cb[0]), d1(cb[1]), reg(2), inst, reg(1)})
		}
		dup([]Step{c1(true), d1(true), d1(true), reg(3), inst})
		dup([]Step{c1(true), inst, d1(true), reg(3)})
		dup([]Step{inst, c1(true), {Op: opInst, Arg: 0, Kind: kind, Same: 2, CB: true}, reg(2), reg(3)})
	}
	if isObservable(kind) {
		for _, p := range permutations([]int{tC, tR, tI}) {
			emit(p)
		}
		emit([]int{tC, tR, tU, tU, tI}) // Unregister twice, then install
		emit([]int{tC, tR, tI, tU, tU}) // install, then Unregister twice
		emit([]int{tC, tR, tR, tI, tU}) // two registrations of which the later is unregistered after
	}
	return out
}

func seqCorpus() [][]Step {
	var out [][]Step
	// tracer orders
	for _, p := range permutations([]int{0, 1, 2, 1}) { // 0 tracer, 1 span, 2 install
		b := newBuilder()
		tr := -1
		for _, t := range p {
			switch t {
			case 0:
				tr = len(b.steps)
				b.add(Step{Op: opTracer})
			case 1:
				b.add(Step{Op: opSpan, Arg: tr})
			case 2:
				b.add(Step{Op: opInstallT})
			}
		}
		out = append(out, b.finish())
	}
	// tracer identities, options, entry points, self-installation, provider values, error handler
	for v := 0; v < 8; v++ {
		b := newBuilder()
		b.add(Step{Op: opSelf, Arg: 0})
		b.add(Step{Op: opSelf, Arg: 2})
		b.add(Step{Op: opTracer, Opt: v&1 == 1, Via: v >> 1 & 1}) // 2
		b.add(Step{Op: opTracer, Same: 2})                        // 3: the same tracer again
		b.add(Step{Op: opTracer, Opt: v&1 == 0})                  // 4
		b.add(Step{Op: opTracer, Alt: 2})                         // 5: tracer 2 with different attributes only
		b.add(Step{Op: opTracer, Alt: 4, Via: v >> 1 & 1})        // 6
		b.add(Step{Op: opSpan, Arg: 2})
		if v&4 != 0 {
			b.add(Step{Op: opErrH})
		}
		b.add(Step{Op: opInstallT, Prov: v & 1})
		b.add(Step{Op: opSpan, Arg: 3})
		b.add(Step{Op: opTracer, Same: 2, Via: 1}) // after installation
		b.add(Step{Op: opInstallT, Prov: 1})
		b.add(Step{Op: opSelf, Arg: 0})
		b.add(Step{Op: opProp, Arg: v & 1}) // odd variants: a propagator / carrier that consults the placeholder again
		b.add(Step{Op: opProp, Arg: 1 - v&1})
		out = append(out, b.finish())
	}
	// a meter identity requested twice: instruments through both handles
	for v := 0; v < 4; v++ {
		b := newBuilder()
		b.add(Step{Op: opMeter, Arg: 0, Opt: v&1 == 1, Via: v >> 1})
		b.add(Step{Op: opMeter, Arg: 5, Same: 1}) // meter 0 again, kept as key 5
		b.add(Step{Op: opMeter, Arg: 7, Alt: 1})  // meter 0 with different attributes only: a distinct meter
		b.add(Step{Op: opInst, Arg: 7, Kind: v})
		b.add(Step{Op: opInst, Arg: 7, Kind: 10 + v%4, CB: true})
		b.add(Step{Op: opInst, Arg: 0, Kind: 2 + v})
		b.add(Step{Op: opInst, Arg: 5, Kind: 4 + v})
		b.add(Step{Op: opInst, Arg: 5, Kind: 8 + v, CB: true})
		b.add(Step{Op: opRegister, Arg: 5, Obs: []int{len(b.steps) - 1}})
		b.add(Step{Op: opInstall, Prov: v & 1})
		b.add(Step{Op: opMeter, Arg: 6, Same: 1, Via: 1})
		out = append(out, b.finish())
	}
	// two meters, registrations on both, one unregistered before and one after installation
	b := newBuilder()
	b.add(Step{Op: opMeter, Arg: 0})
	b.add(Step{Op: opMeter, Arg: 1})
	b.add(Step{Op: opInst, Arg: 0, Kind: 8})  // 2
	b.add(Step{Op: opInst, Arg: 1, Kind: 13}) // 3
	b.add(Step{Op: opInst, Arg: 0, Kind: 0})  // 4
	b.add(Step{Op: opRegister, Arg: 0, Obs: []int{2}})
	b.add(Step{Op: opRegister, Arg: 1, Obs: []int{3}})
	b.add(Step{Op: opRegister, Arg: 0, Obs: []int{2}})
	b.add(Step{Op: opUnregister, Arg: 5})
	b.add(Step{Op: opProp})
	b.add(Step{Op: opInstall})
	b.add(Step{Op: opUnregister, Arg: 6})
	b.add(Step{Op: opUnregister, Arg: 6})
	b.add(Step{Op: opInst, Arg: 1, Kind: 2})
	b.add(Step{Op: opRegister, Arg: 1, Obs: []int{3}})
	b.add(Step{Op: opInstall})
	out = append(out, b.finish())
	// nothing installed at all
	b = newBuilder()
	b.add(Step{Op: opMeter, Arg: 0})
	b.add(Step{Op: opInst, Arg: 0, Kind: 9})
	b.add(Step{Op: opInst, Arg: 0, Kind: 5})
	b.add(Step{Op: opRegister, Arg: 0, Obs: []int{1}})
	b.add(Step{Op: opRecord, Arg: 2})
	b.add(Step{Op: opUnregister, Arg: 3})
	out = append(out, b.finish())
	return out
}

func randomProgram(r *vgen.Rand) []Step {
	b := newBuilder()
	n := r.Range(5, 18)
	installAt := r.Intn(n + 2) // bias: an installation somewhere, sometimes never
	b.add(Step{Op: opMeter, Arg: r.Intn(2)})
	for tries := 0; len(b.steps) < n && tries < 200; tries++ {
		if len(b.steps) == installAt {
			b.add(Step{Op: opInstall})
			installAt = -1
			continue
		}
		switch r.Intn(20) {
		case 0, 1:
			if r.Chance(1, 6) {
				b.add(Step{Op: opMeter, Arg: 3 + r.Intn(4), Alt: 1 + r.Intn(3), Via: r.Intn(2)})
			} else if r.Chance(1, 4) {
				b.add(Step{Op: opMeter, Arg: 3 + r.Intn(4), Same: 1 + r.Intn(3), Via: r.Intn(2)})
			} else {
				b.add(Step{Op: opMeter, Arg: r.Intn(3), Opt: r.Bool(), Via: r.Intn(2)})
			}
		case 2, 3, 4, 5:
			bad := 0
			if r.Chance(1, 6) {
				bad = 1 + r.Intn(5)
			}
			b.add(Step{Op: opInst, Arg: r.Intn(3), Kind: r.Intn(nKinds), Bad: bad, CB: bad > 0})
		case 6:
			if all := append(append([]int(nil), b.syncs...), flatten(b.obs)...); len(all) > 0 && r.Bool() {
				if r.Bool() {
					b.add(Step{Op: opInst, Same: vgen.Pick(r, all), CB: r.Bool()}) // an existing identity again
				} else {
					b.add(Step{Op: opInst, Near: vgen.Pick(r, all), Mode: 1 + r.Intn(3), CB: r.Bool()})
				}
			} else {
				b.add(Step{Op: opInst, Arg: r.Intn(3), Kind: 8 + r.Intn(6), CB: r.Bool()})
			}
		case 7, 8, 9:
			if len(b.syncs) > 0 {
				b.add(Step{Op: opRecord, Arg: vgen.Pick(r, b.syncs)})
			}
		case 10, 11, 12:
			k := r.Intn(3)
			if l := b.obs[k]; len(l) > 0 {
				obs := []int{vgen.Pick(r, l)}
				if y := vgen.Pick(r, l); y != obs[0] && r.Bool() {
					obs = append(obs, y)
				}
				var extra []int
				if r.Chance(1, 3) { // also observe an observable of ANOTHER meter (never one it is registered for)
					var other []int
					for m, l := range b.obs {
						if m != k {
							other = append(other, l...)
						}
					}
					sort.Ints(other)
					if len(other) > 0 {
						extra = append(extra, vgen.Pick(r, other))
					}
				}
				b.add(Step{Op: opRegister, Arg: k, Obs: obs, Extra: extra})
			}
		case 13, 14:
			if len(b.regs) > 0 {
				b.add(Step{Op: opUnregister, Arg: vgen.Pick(r, b.regs)})
			}
		case 15:
			switch r.Intn(4) {
			case 0:
				b.add(Step{Op: opInstall, Prov: r.Intn(2)})
			case 1:
				b.add(Step{Op: opSelf, Arg: r.Intn(3)})
			case 2:
				if r.Chance(1, 3) {
					b.add(Step{Op: opErrH})
				}
			}
		case 16:
			if len(b.tracers) > 0 && r.Chance(1, 5) {
				b.add(Step{Op: opTracer, Alt: vgen.Pick(r, b.tracers), Via: r.Intn(2)})
			} else if len(b.tracers) > 0 && r.Chance(1, 3) {
				b.add(Step{Op: opTracer, Same: vgen.Pick(r, b.tracers), Via: r.Intn(2)})
			} else {
				b.add(Step{Op: opTracer, Opt: r.Bool(), Via: r.Intn(2)})
			}
		case 17:
			if len(b.tracers) > 0 {
				b.add(Step{Op: opSpan, Arg: vgen.Pick(r, b.tracers)})
			}
		case 18:
			if r.Chance(1, 2) {
				b.add(Step{Op: opInstallT, Prov: r.Intn(2)})
			}
		case 19:
			if r.Chance(1, 3) {
				arg := 0
				if r.Chance(1, 4) {
					arg = 1
				}
				b.add(Step{Op: opProp, Arg: arg})
			}
		}
	}
	return b.finish()
}

func randomStorm(r *vgen.Rand) *Storm {
	s := &Storm{Seed: r.U64(), Meters: r.Range(1, 3), PreInsts: r.Intn(5), PreRegs: r.Intn(12), Creators: r.Intn(4),
		Recorders: r.Intn(4), Regs: r.Intn(4), Unregs: r.Intn(5), Tracers: r.Intn(3), Iter: r.Range(5, 30),
		Installers: 1, Delay: vgen.Pick(r, []int{0, 20, 100, 300, 1000, 3000}), WatchdogS: 60}
	if s.PreRegs > 0 {
		s.PreUnreg = r.Intn(3)
	}
	switch r.Intn(10) {
	case 0:
		s.Installers = 0
	case 1, 2:
		s.Installers = 2
	}
	if r.Chance(1, 4) {
		s.Sweep = true
		s.PreRegs = r.Range(20, 80)
		if s.Unregs == 0 {
			s.Unregs = 3
		}
	}
	return s
}

func flatten(m map[int][]int) []int {
	var out []int
	for k := 0; k < 8; k++ {
		out = append(out, m[k]...)
	}
	return out
}

// badLists: measurements through, and creation-time callbacks attached to, placeholders whose name the
// SDK rejects (requested before installation with Bad 1-4, or a repeated request of such an identity).
func badLists(steps []Step) (rec, cb []int) {
	installed := false
	bad := map[int]bool{}
	for j, s := range steps {
		switch s.Op {
		case opInstall:
			installed = true
		case opInst:
			if !installed && ((s.Same == 0 && s.Near == 0 && s.Bad >= 1 && s.Bad <= 4) || (s.Same > 0 && bad[s.Same]) || (s.Near > 0 && bad[s.Near])) {
				bad[j] = true // (a creation-time callback on it is registered by the SDK constructor all the same)
			}
		case opRecord:
			if bad[s.Arg] {
				rec = append(rec, j)
			}
		}
	}
	return
}

// raceStorm: a storm in which every global is installed while its placeholder is in use - tracers and spans,
// meters / instruments / measurements / registrations, Inject / Extract / Fields on the placeholder propagator,
// Handle on the placeholder error handler - sized for the race detector.
func raceStorm(r *vgen.Rand, i int) *Storm {
	return &Storm{Seed: r.U64(), Meters: r.Range(1, 2), PreInsts: r.Range(1, 3), PreRegs: r.Range(1, 4), PreUnreg: r.Intn(2),
		Creators: 1 + i%2, Recorders: 1 + i%2, Regs: 1, Unregs: 1, Tracers: r.Range(1, 2), Iter: r.Range(8, 16),
		Installers: 1 + i%2, Delay: vgen.Pick(r, []int{0, 50, 300, 1500}), ErrH: true, WatchdogS: 60}
}
