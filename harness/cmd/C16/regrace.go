package main

import (
	"context"
	"fmt"
	"sync"
	"sync/atomic"
	"time"

	"go.opentelemetry.io/otel"
	"go.opentelemetry.io/otel/attribute"
	"go.opentelemetry.io/otel/metric"
	"go.opentelemetry.io/otel/sdk/metric/metricdata"
)

// RegRace: several goroutines call RegisterCallback (and Unregister) on placeholder meters in a tight
// loop while SetMeterProvider runs.  Nothing in the harness synchronises the registering goroutines with
// the installing one while this is going on (no event log, no recording wrapper around the SDK): the race
// detector must see the accesses of internal/global exactly as an application would produce them.  After
// installation returned and everybody stopped, every registration that was not unregistered must run
// exactly once per collection, every unregistered one never.
type RegRace struct {
	Seed        uint64 `json:"seed"`
	Meters      int    `json:"meters"`
	Registerers int    `json:"registerers"`
	MinIter     int    `json:"min_iter"`    // registrations per goroutine at least
	MaxIter     int    `json:"max_iter"`    // and at most (they stop once installation has returned)
	DelayUs     int    `json:"delay_us"`    // installation is called after this long
	SlowUs      int    `json:"slow_us"`     // the SDK's Meter() is this slow (the walk over the meters lasts longer)
	UnregEvery  int    `json:"unreg_every"` // every n-th iteration a goroutine unregisters one of its own older registrations
	WatchdogS   int    `json:"watchdog_s"`
}

type slowMP struct {
	metric.MeterProvider
	slow time.Duration
}

func (p slowMP) Meter(name string, opts ...metric.MeterOption) metric.Meter {
	time.Sleep(p.slow)
	return p.MeterProvider.Meter(name, opts...)
}

type rrReg struct {
	id    int
	reg   metric.Registration
	ran   atomic.Int64
	unreg bool
}

func runRegRace(w *world, c *RegRace, res *result) {
	meters := make([]metric.Meter, c.Meters)
	obs := make([]metric.Int64ObservableGauge, c.Meters)
	for k := range meters {
		meters[k] = w.mp0.Meter(fmt.Sprintf("m%d", k))
		g, err := meters[k].Int64ObservableGauge(fmt.Sprintf("g%d", k))
		if err != nil {
			res.Bad = append(res.Bad, "observable gauge: "+err.Error())
			return
		}
		obs[k] = g
	}
	var installed atomic.Bool
	per := make([][]*rrReg, c.Registerers)
	start := make(chan struct{})
	var wg sync.WaitGroup
	for g := 0; g < c.Registerers; g++ {
		g := g
		wg.Add(1)
		go func() {
			defer wg.Done()
			<-start
			var mine []*rrReg
			for i := 0; i < c.MaxIter; i++ {
				if i >= c.MinIter && installed.Load() {
					break
				}
				k := (g + i) % c.Meters
				h := &rrReg{id: g*100000 + i + 1}
				a := metric.WithAttributes(attribute.Int("cb", h.id))
				o := obs[k]
				reg, err := meters[k].RegisterCallback(func(_ context.Context, ob metric.Observer) error {
					h.ran.Add(1)
					ob.ObserveInt64(o, obsValue, a)
					return nil
				}, o)
				if err != nil || reg == nil {
					continue
				}
				h.reg = reg
				mine = append(mine, h)
				if c.UnregEvery > 0 && i%c.UnregEvery == c.UnregEvery-1 {
					old := mine[len(mine)/2]
					if !old.unreg {
						old.unreg = true
						_ = old.reg.Unregister()
					}
				}
			}
			per[g] = mine
		}()
	}
	var sdk metric.MeterProvider = w.sdk // the plain SDK: no recording wrapper, no logging
	if c.SlowUs > 0 {
		sdk = slowMP{MeterProvider: w.sdk, slow: time.Duration(c.SlowUs) * time.Microsecond}
	}
	close(start)
	time.Sleep(time.Duration(c.DelayUs) * time.Microsecond)
	otel.SetMeterProvider(sdk)
	installed.Store(true)
	wg.Wait() // under the watchdog of childMain

	var rm metricdata.ResourceMetrics
	if err := w.reader.Collect(context.Background(), &rm); err != nil {
		res.Bad = append(res.Bad, "Collect: "+err.Error())
	}
	vals := cbValues(&rm)
	seen := map[int]bool{}
	for _, m := range vals {
		for id, v := range m {
			if v == obsValue {
				seen[id] = true
			}
		}
	}
	// the history, reconstructed: every RegisterCallback returned; the Unregisters returned; installation
	// returned; what the SDK runs in a collection is what is registered with it
	var all []*rrReg
	for _, l := range per {
		all = append(all, l...)
	}
	for _, h := range all {
		res.Events = append(res.Events, [3]int{evRegCall, h.id, 0}, [3]int{evRegRet, h.id, 0})
		if h.unreg {
			res.Events = append(res.Events, [3]int{evUnregCall, h.id, 0}, [3]int{evUnregRet, h.id, 0})
		}
	}
	res.Events = append(res.Events, [3]int{evInstallCall, 0, 0}, [3]int{evInstallRet, 0, 0})
	live, lost, leaked := 0, 0, 0
	for _, h := range all {
		ran := int(h.ran.Load())
		for i := 0; i < ran; i++ {
			res.Events = append(res.Events, [3]int{evSdkReg, h.id, 0})
		}
		found := 0
		if seen[h.id] {
			found = 1
		}
		res.Live = append(res.Live, [4]int{h.id, ran, found, 1})
		switch {
		case !h.unreg && ran == 0:
			lost++
		case h.unreg && ran > 0:
			leaked++
		case !h.unreg:
			live++
		}
	}
	res.Stats = map[string]int{"registrations": len(all), "live": live, "lost": lost, "leaked": leaked}
}
