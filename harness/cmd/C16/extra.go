package main

import (
	"context"
	"errors"
	"fmt"

	"go.opentelemetry.io/otel"
	"go.opentelemetry.io/otel/attribute"
	"go.opentelemetry.io/otel/codes"
	"go.opentelemetry.io/otel/metric"
	"go.opentelemetry.io/otel/sdk/metric/metricdata"
	"go.opentelemetry.io/otel/trace"
)

// ---- provider values of a non-comparable dynamic type (a struct with a slice field, passed by
// value): Set*Provider must never compare them with ==.
type ncMP struct {
	metric.MeterProvider
	pad []int
}
type ncTP struct {
	trace.TracerProvider
	pad []int
}

func tenantOf(set attribute.Set) string {
	if v, ok := set.Value("tenant"); ok {
		return v.AsString()
	}
	return ""
}

// checkIdentities: what arrived at the SDK carries the identity it was requested with
// (meter name / version / schema URL / instrumentation attributes; instrument description and unit).
func (w *world) checkIdentities(rm *metricdata.ResourceMetrics, res *result) {
	type meta struct {
		sc         scopeID
		desc, unit string
	}
	got := map[string]meta{}
	for _, sm := range rm.ScopeMetrics {
		for _, m := range sm.Metrics {
			got[ikey(m.Name, m.Description, m.Unit)] = meta{scopeID{sm.Scope.Name, sm.Scope.Version, sm.Scope.SchemaURL, tenantOf(sm.Scope.Attributes)}, m.Description, m.Unit}
		}
	}
	descs := map[string]map[string]bool{}
	for _, x := range w.insts {
		if descs[x.name] == nil {
			descs[x.name] = map[string]bool{}
		}
		descs[x.name][x.desc+"|"+x.scope.name] = true
	}
	for _, x := range w.insts {
		g, ok := got[x.key()]
		if !ok || x.scope.name == "" || len(descs[x.name]) > 1 {
			continue // (a name shared by different identities, e.g. the empty name, is not attributable)
		}
		if g.sc != x.scope || g.desc != x.desc || g.unit != x.unit {
			res.Bad = append(res.Bad, fmt.Sprintf("instrument %d (%s) was requested as scope %v description %q unit %q but reached the SDK as scope %v description %q unit %q",
				x.id, kindNames[x.kind], x.scope, x.desc, x.unit, g.sc, g.desc, g.unit))
			return
		}
	}
}

func (w *world) checkSpanScopes(evs []evt, res *result) {
	tracerOf := map[string]int{}
	for _, e := range evs {
		if e.tag == evSpanCall {
			tracerOf[fmt.Sprintf("s%d", e.b)] = e.a
		}
	}
	check := func(name string, sc scopeID) bool {
		t, ok := tracerOf[name]
		if !ok {
			return true
		}
		want := w.tscope[t]
		if want.name != "" && want != sc {
			res.Bad = append(res.Bad, fmt.Sprintf("span %s through tracer %d requested as scope %v reached the SDK under scope %v", name, t, want, sc))
			return false
		}
		return true
	}
	for _, s := range w.rec.Ended() {
		is := s.InstrumentationScope()
		if !check(s.Name(), scopeID{is.Name, is.Version, is.SchemaURL, tenantOf(is.Attributes)}) {
			return
		}
	}
}

// opSelf: installing the value the global currently returns is refused (no delegate is configured, the
// Once is not consumed, nothing deadlocks); a real installation afterwards must still work.
func (w *world) opSelf(which int) {
	switch which {
	case 0:
		otel.SetTracerProvider(otel.GetTracerProvider())
	case 1:
		otel.SetMeterProvider(otel.GetMeterProvider())
	default:
		otel.SetTextMapPropagator(otel.GetTextMapPropagator())
	}
}

// opErrH: an ErrorHandler obtained before SetErrorHandler forwards to the one set (state.go / handler.go;
// outside the property's statement, observed directly).
func (w *world) opErrH() bool {
	if w.errhDone {
		return true // only handlers obtained before the FIRST SetErrorHandler are delegators
	}
	w.errhDone = true
	pre := otel.GetErrorHandler()
	otel.SetErrorHandler(pre) // setting the current delegator to itself is refused
	got := 0
	h := otel.ErrorHandlerFunc(func(error) { got++ })
	otel.SetErrorHandler(h)
	pre.Handle(errors.New("probe"))
	otel.Handle(errors.New("probe"))
	return got == 2
}

// fullSpan: every method of the span a not-yet-delegated tracer hands out is callable.
func fullSpan(tr trace.Tracer, name string) {
	ctx, sp := tr.Start(context.Background(), name, trace.WithAttributes(attribute.Int("a", 1)))
	sp.SetAttributes(attribute.String("k", "v"))
	sp.AddEvent("e")
	sp.AddLink(trace.Link{})
	sp.RecordError(errors.New("x"))
	sp.SetStatus(codes.Error, "x")
	sp.SetName(name)
	_ = sp.IsRecording()
	_ = sp.SpanContext()
	_ = sp.TracerProvider()
	_ = trace.SpanFromContext(ctx)
	sp.End()
	sp.End()
}
