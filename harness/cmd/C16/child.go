package main

import (
	"encoding/json"
	"errors"
	"fmt"
	"io"
	"os"
	"runtime"
	"sync"
	"time"

	"go.opentelemetry.io/otel"

	"verif/harness/vgen"
)

// Step tags: must match coq/C16/Corr.v dec_op / dec_top (10 has no model op).
const (
	opNone = iota
	opMeter
	opInst
	opRecord
	opRegister
	opUnregister
	opInstall
	opTracer
	opSpan
	opInstallT
	opProp
	opSelf // Arg 0 tracer / 1 meter / 2 propagator: install the value the global currently returns
	opErrH
)

type Step struct {
	Op    int   `json:"op"`
	Arg   int   `json:"arg"`            // meter key / instrument id / registration id / tracer id
	Kind  int   `json:"kind,omitempty"` // instrument kind for opInst
	Obs   []int `json:"obs,omitempty"`  // observable instruments for opRegister
	Same  int   `json:"same,omitempty"` // opInst: request again the identity first requested at this step (0: a new one)
	CB    bool  `json:"cb,omitempty"`   // opInst: pass a creation-time callback (observable kinds)
	Via   int   `json:"via,omitempty"`  // opMeter / opTracer: 1 = through otel.Meter / otel.Tracer
	Opt   bool  `json:"opt,omitempty"`  // opMeter / opTracer: with version, schema URL and attribute options
	Bad   int   `json:"bad,omitempty"`  // opInst: 1-4 a name the SDK rejects, 5 the longest valid name
	Prov  int   `json:"prov,omitempty"` // installs: 1 = a provider value of a non-comparable type
	Near  int   `json:"near,omitempty"` // opInst: name and kind of this earlier request, different description (Mode 1) / unit (2) / both (3)
	Mode  int   `json:"mode,omitempty"`
	Extra []int `json:"extra,omitempty"` // opRegister: observables the callback also observes without being registered for them
	Alt   int   `json:"alt,omitempty"`   // opMeter (key+1) / opTracer (id): that identity with DIFFERENT instrumentation attributes
}

type Storm struct {
	Seed       uint64 `json:"seed"`
	Meters     int    `json:"meters"`
	PreInsts   int    `json:"pre_insts"` // per meter, before the storm
	PreRegs    int    `json:"pre_regs"`  // per meter
	PreUnreg   int    `json:"pre_unreg"` // per meter, unregistered before the storm
	Creators   int    `json:"creators"`
	Recorders  int    `json:"recorders"`
	Regs       int    `json:"registerers"`
	Unregs     int    `json:"unregisterers"`
	Sweep      bool   `json:"sweep"` // unregisterers sweep every pre-registered callback (the F-C16-1 scenario)
	Tracers    int    `json:"tracers"`
	Iter       int    `json:"iter"`
	Installers int    `json:"installers"`              // concurrent SetMeterProvider callers
	Delay      int    `json:"delay_us"`                // installers start after up to this many microseconds
	ErrH       bool   `json:"error_handler,omitempty"` // SetErrorHandler racing Handle through the placeholder
	WatchdogS  int    `json:"watchdog_s"`
}

type Scenario struct {
	Kind       string   `json:"kind"` // seq | storm
	Steps      []Step   `json:"steps,omitempty"`
	Storm      *Storm   `json:"storm,omitempty"`
	Flood      *Flood   `json:"flood,omitempty"`
	Overlap    *Overlap `json:"overlap,omitempty"`
	RegRace    *RegRace `json:"regrace,omitempty"`
	WatchdogS  int      `json:"watchdog_s,omitempty"`         // sequential scenarios: override of the 60 s default
	Readers    int      `json:"readers,omitempty"`            // readers of the SDK MeterProvider that gets installed (default 1)
	Concurrent bool     `json:"concurrent_collect,omitempty"` // final collections of all readers released together, 3 rounds
	SlowRegUs  int      `json:"slow_register_us,omitempty"`   // the SDK's RegisterCallback is this slow (widens the hand-over)
}

func childMain() {
	in, _ := io.ReadAll(os.Stdin)
	var sc Scenario
	if err := json.Unmarshal(in, &sc); err != nil {
		fmt.Fprintln(os.Stderr, "bad scenario:", err)
		os.Exit(2)
	}
	res := &result{}
	var once sync.Once
	emit := func(code int) {
		once.Do(func() {
			b, _ := json.Marshal(res)
			os.Stdout.Write(b)
			os.Exit(code)
		})
		select {} // another goroutine is already writing the result and exiting
	}
	wd := 60
	if sc.Storm != nil && sc.Storm.WatchdogS > 0 {
		wd = sc.Storm.WatchdogS
	}
	if sc.WatchdogS > 0 {
		wd = sc.WatchdogS
	}
	if sc.RegRace != nil && sc.RegRace.WatchdogS > 0 {
		wd = sc.RegRace.WatchdogS
	}
	if sc.Overlap != nil && sc.Overlap.WatchdogS > 0 {
		wd = sc.Overlap.WatchdogS
	}
	if sc.Flood != nil && sc.Flood.WatchdogS > 0 {
		wd = sc.Flood.WatchdogS
	}
	go func() {
		time.Sleep(time.Duration(wd) * time.Second)
		buf := make([]byte, 1<<20)
		n := runtime.Stack(buf, true)
		res2 := &result{Stuck: true, Dump: string(buf[:n])}
		once.Do(func() {
			b, _ := json.Marshal(res2)
			os.Stdout.Write(b)
			os.Exit(3)
		})
	}()
	w := newWorld(max(1, sc.Readers), sc.Concurrent, time.Duration(sc.SlowRegUs)*time.Microsecond)
	func() {
		defer func() {
			if e := recover(); e != nil {
				buf := make([]byte, 1<<16)
				n := runtime.Stack(buf, false)
				res.Panic = fmt.Sprintf("%v\n%s", e, buf[:n])
			}
		}()
		switch sc.Kind {
		case "seq":
			runSeq(w, sc.Steps, res)
		case "storm":
			runStorm(w, sc.Storm, res)
		case "regrace":
			runRegRace(w, sc.RegRace, res)
			return // builds its history itself (nothing is logged while it runs)
		case "overlap":
			runOverlap(w, sc.Overlap, res)
		case "flood":
			runFlood(w, sc.Flood, res)
			return // runFlood builds the (projected) history itself
		}
		w.finish(res)
	}()
	emit(0)
}

func runSeq(w *world, steps []Step, res *result) {
	for j, s := range steps {
		switch s.Op {
		case opMeter:
			same := -1
			if s.Same > 0 {
				same = s.Same - 1 // meter keys start at 0
			}
			w.opMeter(s.Arg, same, s.Alt-1, s.Opt, s.Via)
		case opInst:
			var same *inst
			if s.Same > 0 {
				same = w.insts[s.Same]
			}
			w.opInst(j, s.Arg, s.Kind, same, s.CB, s.Bad, w.insts[s.Near], s.Mode)
		case opRecord:
			w.opRecord(j, w.insts[s.Arg])
		case opRegister:
			var obs []*inst
			for _, i := range s.Obs {
				if x := w.insts[i]; x != nil {
					obs = append(obs, x)
				}
			}
			var extra []*inst
			for _, i := range s.Extra {
				if x := w.insts[i]; x != nil {
					extra = append(extra, x)
				}
			}
			if w.opRegister(j, s.Arg, obs, extra...) == nil {
				res.Bad = append(res.Bad, fmt.Sprintf("step %d: RegisterCallback failed", j))
			}
		case opUnregister:
			w.opUnregister(w.regs[s.Arg])
		case opInstall:
			w.opInstallV(s.Prov)
		case opTracer:
			w.opTracer(j, s.Same, s.Alt, s.Opt, s.Via)
		case opSpan:
			w.opSpan(j, s.Arg)
		case opInstallT:
			w.opInstallTV(s.Prov)
		case opSelf:
			w.opSelf(s.Arg)
		case opErrH:
			if !w.opErrH() {
				res.Bad = append(res.Bad, "an ErrorHandler obtained before SetErrorHandler does not forward to the handler that was set")
			}
		case opProp:
			if !w.opPropV(s.Arg) {
				res.Bad = append(res.Bad, "a TextMapPropagator obtained before SetTextMapPropagator does not forward to the installed one")
			}
		}
	}
}

var errProbe = errors.New("probe")

// pools shared by the storm goroutines
type pools struct {
	mu     sync.Mutex
	meters []int
	sync   []*inst
	obs    map[int][]*inst // per meter
	regs   []*regH
	trs    []int
}

func runStorm(w *world, c *Storm, res *result) {
	root := vgen.NewRand(c.Seed)
	p := &pools{obs: map[int][]*inst{}}
	id := func() int { return int(w.nextID.Add(1)) }
	addInst := func(x *inst) {
		if x == nil {
			return
		}
		p.mu.Lock()
		if isObservable(x.kind) {
			p.obs[x.meter] = append(p.obs[x.meter], x)
		} else {
			p.sync = append(p.sync, x)
		}
		p.mu.Unlock()
	}
	// ---- before the storm: everything through the not-yet-delegated global API ----
	var preRegs []*regH
	for k := 0; k < c.Meters; k++ {
		w.opMeter(k, -1, -1, root.Bool(), root.Intn(2))
		p.meters = append(p.meters, k)
		var mine []*inst
		mk := func(kind int, same *inst) {
			x := w.opInst(id(), k, kind, same, root.Chance(1, 2), 0, nil, 0)
			addInst(x)
			if x != nil {
				mine = append(mine, x)
			}
		}
		mk(8+root.Intn(6), nil) // at least one observable per meter
		for i := 0; i < c.PreInsts; i++ {
			mk(root.Intn(nKinds), nil)
		}
		// the same identity requested again (1-2 times) before installation: every handle must work
		for i := 0; i < c.PreInsts/2+1; i++ {
			o := mine[root.Intn(len(mine))]
			for n := root.Range(1, 2); n > 0; n-- {
				if root.Bool() {
					mk(o.kind, o)
				} else { // same name and kind, another description / unit: its own stream
					x := w.opInst(id(), k, o.kind, nil, root.Bool(), 0, o, 1+root.Intn(3))
					addInst(x)
				}
			}
		}
		for i := 0; i < c.PreRegs; i++ {
			obs := p.obs[k]
			h := w.opRegister(id(), k, []*inst{obs[root.Intn(len(obs))]})
			if h == nil {
				res.Bad = append(res.Bad, "RegisterCallback before installation failed")
				continue
			}
			p.regs = append(p.regs, h)
			if i < c.PreUnreg {
				w.opUnregister(h)
			} else {
				preRegs = append(preRegs, h)
			}
		}
	}
	if c.Meters > 0 {
		ka := c.Meters + 20 // meter 0's identity with different instrumentation attributes
		w.opMeter(ka, -1, 0, false, 0)
		p.meters = append(p.meters, ka)
		addInst(w.opInst(id(), ka, root.Intn(8), nil, false, 0, nil, 0))
		addInst(w.opInst(id(), ka, 8+root.Intn(6), nil, false, 0, nil, 0))
	}
	for i := 0; i < 2; i++ {
		t := id()
		w.opTracer(t, 0, 0, root.Bool(), root.Intn(2))
		p.trs = append(p.trs, t)
		t2 := id() // the same tracer except for its instrumentation attributes
		w.opTracer(t2, 0, t, false, 0)
		p.trs = append(p.trs, t2)
	}
	// ---- the storm ----
	start := make(chan struct{})
	var wg sync.WaitGroup
	spawn := func(f func(r *vgen.Rand)) {
		r := root.Fork()
		wg.Add(1)
		go func() {
			defer wg.Done()
			defer func() {
				if e := recover(); e != nil {
					buf := make([]byte, 1<<16)
					n := runtime.Stack(buf, false)
					w.mu.Lock()
					res.Panic = fmt.Sprintf("%v\n%s", e, buf[:n])
					w.mu.Unlock()
				}
			}()
			<-start
			f(r)
		}()
	}
	jitter := func(r *vgen.Rand) {
		switch r.Intn(6) {
		case 0:
			runtime.Gosched()
		case 1:
			time.Sleep(time.Duration(r.Intn(30)) * time.Microsecond)
		}
	}
	for g := 0; g < c.Installers; g++ {
		spawn(func(r *vgen.Rand) {
			time.Sleep(time.Duration(r.Intn(c.Delay+1)) * time.Microsecond)
			w.opInstall()
		})
	}
	if c.Tracers > 0 {
		spawn(func(r *vgen.Rand) {
			time.Sleep(time.Duration(r.Intn(c.Delay+1)) * time.Microsecond)
			w.opInstallT()
		})
		spawn(func(r *vgen.Rand) {
			time.Sleep(time.Duration(r.Intn(c.Delay+1)) * time.Microsecond)
			if !w.opProp() {
				w.mu.Lock()
				res.Bad = append(res.Bad, "propagator handle does not forward after SetTextMapPropagator returned")
				w.mu.Unlock()
			}
		})
	}
	if c.ErrH {
		pre := otel.GetErrorHandler()
		spawn(func(r *vgen.Rand) {
			time.Sleep(time.Duration(r.Intn(c.Delay+1)) * time.Microsecond)
			otel.SetErrorHandler(otel.ErrorHandlerFunc(func(error) {}))
		})
		for g := 0; g < 2; g++ {
			spawn(func(r *vgen.Rand) {
				for i := 0; i < c.Iter; i++ {
					jitter(r)
					pre.Handle(errProbe)
					otel.Handle(errProbe)
				}
			})
		}
	}
	if c.Tracers > 0 {
		// Inject / Extract / Fields through the placeholder propagator while SetTextMapPropagator runs
		// (a pure data race if the delegate is read unsynchronised: visible to the -race children only)
		for g := 0; g < 2; g++ {
			spawn(func(r *vgen.Rand) {
				for i := 0; i < 4*c.Iter; i++ {
					if i%4 == 0 {
						jitter(r)
					}
					w.propUse()
				}
			})
		}
	}
	for g := 0; g < c.Creators; g++ {
		spawn(func(r *vgen.Rand) {
			for i := 0; i < c.Iter; i++ {
				jitter(r)
				p.mu.Lock()
				k := p.meters[r.Intn(len(p.meters))]
				p.mu.Unlock()
				if r.Chance(1, 8) {
					k = c.Meters + r.Intn(4) // a meter first asked for during the storm
					w.opMeter(k, -1, -1, k%2 == 0, r.Intn(2))
					p.mu.Lock()
					p.meters = append(p.meters, k)
					p.mu.Unlock()
				}
				var same *inst
				if r.Chance(1, 5) { // request an existing identity of this meter again
					p.mu.Lock()
					var cand []*inst
					for _, x := range p.sync {
						if x.meter == k {
							cand = append(cand, x)
						}
					}
					cand = append(cand, p.obs[k]...)
					if len(cand) > 0 {
						same = cand[r.Intn(len(cand))]
					}
					p.mu.Unlock()
				}
				var near *inst
				mode := 0
				if same != nil && r.Bool() { // the same name and kind under another description / unit: a distinct stream
					near, same, mode = same, nil, 1+r.Intn(3)
				}
				addInst(w.opInst(id(), k, r.Intn(nKinds), same, r.Chance(1, 3), 0, near, mode))
			}
		})
	}
	for g := 0; g < c.Recorders; g++ {
		spawn(func(r *vgen.Rand) {
			for i := 0; i < c.Iter; i++ {
				jitter(r)
				p.mu.Lock()
				var x *inst
				if len(p.sync) > 0 {
					x = p.sync[r.Intn(len(p.sync))]
				}
				p.mu.Unlock()
				w.opRecord(id(), x)
			}
		})
	}
	for g := 0; g < c.Regs; g++ {
		spawn(func(r *vgen.Rand) {
			for i := 0; i < c.Iter; i++ {
				jitter(r)
				p.mu.Lock()
				k := p.meters[r.Intn(len(p.meters))]
				var obs []*inst
				if l := p.obs[k]; len(l) > 0 {
					obs = append(obs, l[r.Intn(len(l))])
					if r.Chance(1, 3) {
						if y := l[r.Intn(len(l))]; y != obs[0] {
							obs = append(obs, y)
						}
					}
				}
				p.mu.Unlock()
				if len(obs) == 0 {
					continue
				}
				if h := w.opRegister(id(), k, obs); h != nil {
					p.mu.Lock()
					p.regs = append(p.regs, h)
					p.mu.Unlock()
				} else {
					w.mu.Lock()
					res.Bad = append(res.Bad, "RegisterCallback failed during the storm")
					w.mu.Unlock()
				}
			}
		})
	}
	for g := 0; g < c.Unregs; g++ {
		g := g
		spawn(func(r *vgen.Rand) {
			if c.Sweep {
				// every unregisterer walks all pre-registered callbacks, in its own order
				n := len(preRegs)
				off := 0
				if n > 0 {
					off = (g * n) / (c.Unregs + 1)
				}
				// paced so that the sweep (a few ms) overlaps the installation whenever it starts
				for i := 0; i < n; i++ {
					w.opUnregister(preRegs[(i+off)%n])
					switch r.Intn(8) {
					case 0:
						time.Sleep(time.Duration(1+r.Intn(20)) * time.Microsecond)
					case 1, 2:
						runtime.Gosched()
					}
				}
				return
			}
			for i := 0; i < c.Iter; i++ {
				jitter(r)
				p.mu.Lock()
				var h *regH
				if len(p.regs) > 0 && r.Chance(2, 3) {
					h = p.regs[r.Intn(len(p.regs))]
				}
				p.mu.Unlock()
				w.opUnregister(h)
			}
		})
	}
	for g := 0; g < c.Tracers; g++ {
		spawn(func(r *vgen.Rand) {
			for i := 0; i < c.Iter; i++ {
				jitter(r)
				if r.Chance(1, 3) {
					t := id()
					same := 0
					if r.Chance(1, 4) { // the same tracer identity requested again: both handles must work
						p.mu.Lock()
						same = p.trs[r.Intn(len(p.trs))]
						p.mu.Unlock()
					}
					alt := 0
					if same == 0 && r.Chance(1, 4) {
						p.mu.Lock()
						alt = p.trs[r.Intn(len(p.trs))]
						p.mu.Unlock()
					}
					w.opTracer(t, same, alt, r.Bool(), r.Intn(2))
					p.mu.Lock()
					p.trs = append(p.trs, t)
					p.mu.Unlock()
				} else {
					p.mu.Lock()
					t := p.trs[r.Intn(len(p.trs))]
					p.mu.Unlock()
					w.opSpan(id(), t)
				}
			}
		})
	}
	close(start)
	wg.Wait() // under the watchdog of childMain
	// ---- after the storm, and after installation returned ----
	if c.Installers > 0 {
		for _, x := range p.sync {
			w.opRecord(id(), x) // one marked measurement on every instrument handed out
		}
	}
	if c.Tracers > 0 {
		for _, t := range p.trs {
			w.opSpan(id(), t)
		}
	}
	res.Stats = map[string]int{"instruments": len(w.insts), "registrations": len(w.regs), "tracers": len(w.tracers), "meters": len(w.meters)}
}
