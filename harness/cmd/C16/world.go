package main

import (
	"context"
	"fmt"
	"math"
	"runtime"
	"sort"
	"strings"
	"sync"
	"sync/atomic"
	"time"

	"go.opentelemetry.io/otel"
	"go.opentelemetry.io/otel/attribute"
	"go.opentelemetry.io/otel/metric"
	"go.opentelemetry.io/otel/propagation"
	sdkmetric "go.opentelemetry.io/otel/sdk/metric"
	"go.opentelemetry.io/otel/sdk/metric/metricdata"
	sdktrace "go.opentelemetry.io/otel/sdk/trace"
	"go.opentelemetry.io/otel/sdk/trace/tracetest"
	"go.opentelemetry.io/otel/trace"
)

// Event tags: must match coq/C16/Corr.v dec_ev.
const (
	evInstallCall = iota
	evInstallRet
	evInstRet
	evRecCall
	evRecRet
	evRegCall
	evRegRet
	evUnregCall
	evUnregRet
	evSdkRec
	evSdkReg
	evSdkUnreg
	evTInstallCall
	evTInstallRet
	evTracerRet
	evSpanCall
	evSpanRet
	evSdkSpan
)

type evt struct {
	seq     int64
	tag     int
	a, b    int
	aborted bool
}

// evlog orders events by a global sequence number taken at the moment the event
// is logged: "call" events are logged before the call is issued and "return" events
// after it returned, so "A returned before B was called" in a recorded history is
// sound with respect to real time.
type evlog struct {
	seq atomic.Int64
	mu  sync.Mutex
	evs []evt
}

func (l *evlog) add(tag, a, b int) {
	s := l.seq.Add(1)
	l.mu.Lock()
	l.evs = append(l.evs, evt{seq: s, tag: tag, a: a, b: b})
	l.mu.Unlock()
}

func (l *evlog) sorted() []evt {
	l.mu.Lock()
	out := append([]evt(nil), l.evs...)
	l.mu.Unlock()
	sort.Slice(out, func(i, j int) bool { return out[i].seq < out[j].seq })
	return out
}

// ---- recording wrapper around the real SDK MeterProvider ----
// Only RegisterCallback / Unregister are intercepted (to log when the global
// package registers a callback with the SDK); everything else is the real SDK.

type probeKey struct{}

type recProvider struct {
	metric.MeterProvider
	log     *evlog
	slow    time.Duration // every Meter() call of the SDK takes this much longer (widens the installation walk)
	slowReg time.Duration // every RegisterCallback of the SDK takes this much longer (widens the hand-over)
	fwd     *fwdLog       // forwarded float64 calls, bit for bit
}

func (p *recProvider) Meter(name string, opts ...metric.MeterOption) metric.Meter {
	if p.slow > 0 {
		time.Sleep(p.slow)
	}
	return &recMeter{Meter: p.MeterProvider.Meter(name, opts...), log: p.log, slowReg: p.slowReg, fwd: p.fwd}
}

type recMeter struct {
	metric.Meter
	log     *evlog
	slowReg time.Duration
	fwd     *fwdLog
}

func (m *recMeter) RegisterCallback(f metric.Callback, insts ...metric.Observable) (metric.Registration, error) {
	id := -1
	_ = f(context.WithValue(context.Background(), probeKey{}, &id), nil) // the harness callbacks answer a probe with their id
	if m.slowReg > 0 {
		time.Sleep(m.slowReg)
	}
	reg, err := m.Meter.RegisterCallback(f, insts...)
	if err != nil {
		return reg, err
	}
	m.log.add(evSdkReg, id, 0)
	return &recReg{Registration: reg, id: id, log: m.log}, nil
}

type recReg struct {
	metric.Registration
	id  int
	log *evlog
}

func (r *recReg) Unregister() error {
	r.log.add(evSdkUnreg, r.id, 0)
	return r.Registration.Unregister()
}

// slowTP: the SDK TracerProvider with a slow Tracer() (widens the installation walk).
type slowTP struct {
	trace.TracerProvider
	slow time.Duration
}

func (p *slowTP) Tracer(name string, opts ...trace.TracerOption) trace.Tracer {
	time.Sleep(p.slow)
	return p.TracerProvider.Tracer(name, opts...)
}

// ---- instruments ----

const nKinds = 14

var kindNames = []string{"Int64Counter", "Int64UpDownCounter", "Int64Histogram", "Int64Gauge",
	"Float64Counter", "Float64UpDownCounter", "Float64Histogram", "Float64Gauge",
	"Int64ObservableCounter", "Int64ObservableUpDownCounter", "Int64ObservableGauge",
	"Float64ObservableCounter", "Float64ObservableUpDownCounter", "Float64ObservableGauge"}

func isObservable(kind int) bool { return kind >= 8 }

type scopeID struct{ name, version, schema, attr string } // attr: value of the instrumentation attribute "tenant"

type inst struct {
	id, kind, meter int
	name            string
	h               any
	desc, unit      string
	scope           scopeID
	bad             bool // a name the SDK rejects (F-C16-2)
}

func newInst(m metric.Meter, id, kind, k int, name, desc, unit string, icb metric.Int64Callback, fcb metric.Float64Callback) (*inst, error) {
	var h any
	var err error
	d, u := metric.WithDescription(desc), metric.WithUnit(unit)
	switch kind {
	case 0:
		h, err = m.Int64Counter(name, d, u)
	case 1:
		h, err = m.Int64UpDownCounter(name, d, u)
	case 2:
		h, err = m.Int64Histogram(name, d, u)
	case 3:
		h, err = m.Int64Gauge(name, d, u)
	case 4:
		h, err = m.Float64Counter(name, d, u)
	case 5:
		h, err = m.Float64UpDownCounter(name, d, u)
	case 6:
		h, err = m.Float64Histogram(name, d, u)
	case 7:
		h, err = m.Float64Gauge(name, d, u)
	case 8:
		if icb != nil {
			h, err = m.Int64ObservableCounter(name, d, u, metric.WithInt64Callback(icb))
		} else {
			h, err = m.Int64ObservableCounter(name, d, u)
		}
	case 9:
		if icb != nil {
			h, err = m.Int64ObservableUpDownCounter(name, d, u, metric.WithInt64Callback(icb))
		} else {
			h, err = m.Int64ObservableUpDownCounter(name, d, u)
		}
	case 10:
		if icb != nil {
			h, err = m.Int64ObservableGauge(name, d, u, metric.WithInt64Callback(icb))
		} else {
			h, err = m.Int64ObservableGauge(name, d, u)
		}
	case 11:
		if fcb != nil {
			h, err = m.Float64ObservableCounter(name, d, u, metric.WithFloat64Callback(fcb))
		} else {
			h, err = m.Float64ObservableCounter(name, d, u)
		}
	case 12:
		if fcb != nil {
			h, err = m.Float64ObservableUpDownCounter(name, d, u, metric.WithFloat64Callback(fcb))
		} else {
			h, err = m.Float64ObservableUpDownCounter(name, d, u)
		}
	case 13:
		if fcb != nil {
			h, err = m.Float64ObservableGauge(name, d, u, metric.WithFloat64Callback(fcb))
		} else {
			h, err = m.Float64ObservableGauge(name, d, u)
		}
	default:
		err = fmt.Errorf("bad kind %d", kind)
	}
	return &inst{id: id, kind: kind, meter: k, name: name, h: h, desc: desc, unit: unit}, err
}

const recValue = 5 // every measurement records 5 under its own attribute n=<measurement id>
const obsValue = 7 // every callback observes 7 under its own attribute cb=<registration id>

// Instrument classes for the value a measurement carries.
const (
	clsCounter = iota
	clsUpDown
	clsHist
	clsGauge
)

func classOf(kind int) int { return kind % 4 } // kinds 0-3 / 4-7: counter, up-down counter, histogram, gauge

// recVal: the value of measurement n on an instrument of the given class.  Besides the ordinary 5, a quarter
// of the measurements are ZERO (a zero increment / zero sample is a measurement like any other: the SDK exports a
// 0-valued point for an attribute set that received nothing else) and, on up-down counters and gauges, a quarter
// are negative.  Every measurement has its own attribute set n=<id>.
func recVal(class, n int) int {
	switch {
	case n%4 == 1:
		return 0
	case n%4 == 3 && (class == clsUpDown || class == clsGauge):
		return -3
	}
	return recValue
}

func (x *inst) record(ctx context.Context, n int) {
	a := metric.WithAttributes(attribute.Int("n", n))
	v := recVal(classOf(x.kind), n)
	if bits, ok := specialBits(x.kind, n); ok {
		f := math.Float64frombits(bits)
		switch h := x.h.(type) {
		case metric.Float64Counter:
			h.Add(ctx, f, a)
		case metric.Float64UpDownCounter:
			h.Add(ctx, f, a)
		case metric.Float64Histogram:
			h.Record(ctx, f, a)
		case metric.Float64Gauge:
			h.Record(ctx, f, a)
		}
		return
	}
	switch h := x.h.(type) {
	case metric.Int64Counter:
		h.Add(ctx, int64(v), a)
	case metric.Int64UpDownCounter:
		h.Add(ctx, int64(v), a)
	case metric.Int64Histogram:
		h.Record(ctx, int64(v), a)
	case metric.Int64Gauge:
		h.Record(ctx, int64(v), a)
	case metric.Float64Counter:
		h.Add(ctx, float64(v), a)
	case metric.Float64UpDownCounter:
		h.Add(ctx, float64(v), a)
	case metric.Float64Histogram:
		h.Record(ctx, float64(v), a)
	case metric.Float64Gauge:
		h.Record(ctx, float64(v), a)
	}
}

// ikey: a stream at the SDK is identified by name, description and unit (instruments that differ in
// description or unit only are distinct streams, with or without the global indirection).
func ikey(name, desc, unit string) string { return name + "\x00" + desc + "\x00" + unit }
func (x *inst) key() string               { return ikey(x.name, x.desc, x.unit) }

func (x *inst) observe(o metric.Observer, r int) {
	a := metric.WithAttributes(attribute.Int("cb", r))
	switch h := x.h.(type) {
	case metric.Int64Observable:
		o.ObserveInt64(h, obsValue, a)
	case metric.Float64Observable:
		o.ObserveFloat64(h, obsValue, a)
	}
}

type regH struct {
	id     int
	meter  int
	reg    metric.Registration
	obs    []*inst
	ran    atomic.Int64
	direct bool // the SDK's own registration was handed to the user (RegisterCallback after delegation)
	// creation: a callback passed to an observable-instrument constructor (no Registration, cannot be
	// unregistered); dup: passed on a repeated request of an existing identity (ignored, like the SDK does)
	creation, dup bool
	called        atomic.Int64
}

// ---- the world of one child process ----

type world struct {
	mp0   metric.MeterProvider
	tp0   trace.TracerProvider
	prop0 propagation.TextMapPropagator
	log   *evlog

	reader    *sdkmetric.ManualReader
	sdk       *sdkmetric.MeterProvider
	wrapped   *recProvider
	installed atomic.Bool
	rec       *tracetest.SpanRecorder
	tsdk      *sdktrace.TracerProvider
	tinst     atomic.Bool

	mu       sync.Mutex
	meters   map[int]metric.Meter
	insts    map[int]*inst
	regs     map[int]*regH
	tracers  map[int]trace.Tracer
	mscope   map[int]scopeID
	fwd      *fwdLog
	errhDone bool
	tscope   map[int]scopeID
	notes    []string
	nextID   atomic.Int64

	// further SDKs installed by overlapping installation calls with different provider values
	moreReaders []*sdkmetric.ManualReader
	// further readers of the SAME installed SDK, and how they are collected at the end
	sameSDKReaders    []*sdkmetric.ManualReader
	concurrentCollect bool
	moreRecs          []*tracetest.SpanRecorder
}

func newWorld(readers int, concurrent bool, slowReg time.Duration) *world {
	w := &world{log: &evlog{}, meters: map[int]metric.Meter{}, insts: map[int]*inst{}, regs: map[int]*regH{}, tracers: map[int]trace.Tracer{},
		mscope: map[int]scopeID{}, tscope: map[int]scopeID{}}
	// handles obtained from the global API before anything is installed
	w.mp0 = otel.GetMeterProvider()
	w.tp0 = otel.GetTracerProvider()
	w.prop0 = otel.GetTextMapPropagator()
	w.reader = sdkmetric.NewManualReader()
	opts := []sdkmetric.Option{sdkmetric.WithReader(w.reader)}
	for i := 1; i < readers; i++ { // an SDK with several readers: every callback runs once per reader
		rd := sdkmetric.NewManualReader()
		w.sameSDKReaders = append(w.sameSDKReaders, rd)
		opts = append(opts, sdkmetric.WithReader(rd))
	}
	w.concurrentCollect = concurrent
	w.sdk = sdkmetric.NewMeterProvider(opts...)
	w.fwd = &fwdLog{}
	w.wrapped = &recProvider{MeterProvider: w.sdk, log: w.log, slowReg: slowReg, fwd: w.fwd}
	w.rec = tracetest.NewSpanRecorder()
	w.tsdk = sdktrace.NewTracerProvider(sdktrace.WithSpanProcessor(w.rec))
	return w
}

func (w *world) note(f string, a ...any) {
	w.mu.Lock()
	w.notes = append(w.notes, fmt.Sprintf(f, a...))
	w.mu.Unlock()
}

// scopeFor: the identity (name, version, schema URL) of the meter / tracer first requested under key k.
func scopeFor(prefix string, k int, opt bool) scopeID {
	if !opt {
		return scopeID{name: fmt.Sprintf("%s%d", prefix, k)}
	}
	return scopeID{name: fmt.Sprintf("%s%d", prefix, k), version: fmt.Sprintf("v%d", k), schema: fmt.Sprintf("https://example.invalid/s%d", k),
		attr: fmt.Sprintf("a%d", k)}
}

// opMeter: key k; same >= 0: request the identity of key `same` again (the handle is kept under k);
// opt: with version / schema URL / attribute options; via 1: through otel.Meter instead of the provider handle.
// alt >= 0: the identity of key `alt` except for the instrumentation ATTRIBUTES (a different tenant): a
// distinct meter that must stay distinct.
func (w *world) opMeter(k, same, alt int, opt bool, via int) {
	w.mu.Lock()
	sc, have := w.mscope[same]
	asc, ahave := w.mscope[alt]
	w.mu.Unlock()
	if same < 0 || !have {
		sc = scopeFor("m", k, opt)
	}
	if alt >= 0 && ahave {
		sc = asc
		sc.attr = fmt.Sprintf("alt%d", k)
	}
	var opts []metric.MeterOption
	if sc.version != "" {
		opts = append(opts, metric.WithInstrumentationVersion(sc.version), metric.WithSchemaURL(sc.schema))
	}
	if sc.attr != "" {
		opts = append(opts, metric.WithInstrumentationAttributes(attribute.String("tenant", sc.attr)))
	}
	var m metric.Meter
	if via == 1 {
		m = otel.Meter(sc.name, opts...)
	} else {
		m = w.mp0.Meter(sc.name, opts...)
	}
	w.mu.Lock()
	if _, ok := w.meters[k]; !ok {
		w.meters[k] = m
		w.mscope[k] = sc
	}
	w.mu.Unlock()
}

func (w *world) meter(k int) metric.Meter {
	w.mu.Lock()
	defer w.mu.Unlock()
	return w.meters[k]
}

// opInst requests an instrument.  same != nil: the identity (name, kind) of an earlier request on the
// same meter is requested again.  cb: pass a creation-time callback (observable kinds); its id is the
// request's id.
// badName: names the SDK's validateInstrumentName rejects (1-4) and the longest valid one (5).
func badName(id, bad int) string {
	base := fmt.Sprintf("i%d", id)
	switch bad {
	case 1:
		return "1" + base // must start with a letter
	case 2:
		return "" // empty
	case 3:
		return base + strings.Repeat("a", 256-len(base)) // 256 characters: one too long
	case 4:
		return base + " x" // character outside [A-Za-z0-9_.-/]
	case 5:
		return base + strings.Repeat("a", 255-len(base)) // 255 characters: the longest valid name
	}
	return base
}

// near != nil: the name and kind of an earlier request with a different description (mode 1), unit (2) or both (3):
// a distinct identity, exactly as it is for the SDK.
func (w *world) opInst(id, k, kind int, same *inst, cb bool, bad int, near *inst, mode int) *inst {
	m := w.meter(k)
	if m == nil {
		return nil
	}
	name := badName(id, bad)
	if same != nil {
		name, kind = same.name, same.kind
	} else if near != nil {
		name, kind = near.name, near.kind
	}
	var icb metric.Int64Callback
	var fcb metric.Float64Callback
	var h *regH
	x := &inst{}
	if cb && isObservable(kind) {
		h = &regH{id: id, meter: k, creation: true, dup: same != nil, obs: []*inst{x}}
		a := metric.WithAttributes(attribute.Int("cb", id))
		icb = func(_ context.Context, o metric.Int64Observer) error {
			h.ran.Add(1)
			o.Observe(obsValue, a)
			return nil
		}
		fcb = func(_ context.Context, o metric.Float64Observer) error {
			h.ran.Add(1)
			o.Observe(obsValue, a)
			return nil
		}
		if !h.dup {
			w.log.add(evRegCall, id, 0)
		}
	}
	desc, unit := fmt.Sprintf("d%d", id), "By"
	if same != nil {
		desc, unit = same.desc, same.unit
	}
	if near != nil && same == nil {
		name, kind, desc, unit = near.name, near.kind, near.desc, near.unit
		if mode&1 != 0 {
			desc = fmt.Sprintf("d%d", id)
		}
		if mode&2 != 0 {
			unit = fmt.Sprintf("u%d", id)
		}
	}
	y, err := newInst(m, id, kind, k, name, desc, unit, icb, fcb)
	if y.h == nil || (err != nil && bad == 0 && same == nil && near == nil) {
		w.note("instrument %d kind %d: %v", id, kind, err)
		return nil
	}
	*x = *y
	x.bad = bad >= 1 && bad <= 4
	if same != nil {
		x.bad, x.desc = same.bad, same.desc
	}
	if near != nil && same == nil {
		x.bad = near.bad
	}
	w.mu.Lock()
	x.scope = w.mscope[k]
	w.mu.Unlock()
	if h != nil && !h.dup {
		w.log.add(evRegRet, id, 0)
	}
	w.log.add(evInstRet, id, 0)
	w.mu.Lock()
	w.insts[id] = x
	if h != nil {
		w.regs[id] = h
	}
	w.mu.Unlock()
	return x
}

func (w *world) opRecord(n int, x *inst) {
	if x == nil || isObservable(x.kind) {
		return
	}
	w.log.add(evRecCall, x.id, n)
	x.record(context.Background(), n)
	w.log.add(evRecRet, n, 0)
}

func (w *world) opRegister(r, k int, obs []*inst, extra ...*inst) *regH {
	m := w.meter(k)
	if m == nil || len(obs) == 0 {
		return nil
	}
	h := &regH{id: r, meter: k, obs: obs}
	cb := func(ctx context.Context, o metric.Observer) error {
		if p, ok := ctx.Value(probeKey{}).(*int); ok {
			*p = r
			return nil
		}
		h.ran.Add(1)
		for _, x := range obs {
			if w.concurrentCollect {
				runtime.Gosched()
				time.Sleep(20 * time.Microsecond)
			}
			x.observe(o, r)
		}
		for _, x := range extra { // observables the callback was NOT registered for (unconnected, other meter)
			x.observe(o, r)
		}
		return nil
	}
	hs := make([]metric.Observable, len(obs))
	for i, x := range obs {
		hs[i] = x.h.(metric.Observable)
	}
	w.log.add(evRegCall, r, 0)
	reg, err := m.RegisterCallback(cb, hs...)
	if err != nil || reg == nil {
		w.note("RegisterCallback %d: %v", r, err)
		return nil
	}
	h.reg = reg
	_, h.direct = reg.(*recReg)
	w.log.add(evRegRet, r, 0)
	w.mu.Lock()
	w.regs[r] = h
	w.mu.Unlock()
	return h
}

func (w *world) opUnregister(h *regH) {
	if h == nil || h.creation {
		return
	}
	if h.called.Add(1) > 1 && h.direct {
		return // the SDK's own registration: calling it again only exercises the SDK
	}
	w.log.add(evUnregCall, h.id, 0)
	if err := h.reg.Unregister(); err != nil {
		w.note("Unregister %d: %v", h.id, err)
	}
	w.log.add(evUnregRet, h.id, 0)
}

func (w *world) opInstall() { w.opInstallV(0) }

// opInstallV: variant 1 passes a provider VALUE of a non-comparable type (around the same SDK); afterwards
// the global must return exactly the value passed last.
func (w *world) opInstallV(variant int) {
	w.log.add(evInstallCall, 0, 0)
	if variant == 1 {
		otel.SetMeterProvider(ncMP{MeterProvider: w.wrapped, pad: []int{1}})
		if _, ok := otel.GetMeterProvider().(ncMP); !ok {
			w.note("BAD: GetMeterProvider does not return the provider installed last")
		}
	} else {
		otel.SetMeterProvider(w.wrapped)
		if otel.GetMeterProvider() != metric.MeterProvider(w.wrapped) {
			w.note("BAD: GetMeterProvider does not return the provider installed last")
		}
	}
	w.installed.Store(true)
	w.log.add(evInstallRet, 0, 0)
}

func (w *world) opInstallRaw() {
	otel.SetMeterProvider(w.wrapped)
	w.installed.Store(true)
}

func (w *world) opInstallTRaw() {
	otel.SetTracerProvider(w.tsdk)
	w.tinst.Store(true)
}

func (w *world) opTracer(t, same, alt int, opt bool, via int) {
	w.mu.Lock()
	sc, have := w.tscope[same]
	asc, ahave := w.tscope[alt]
	w.mu.Unlock()
	if same <= 0 || !have {
		sc = scopeFor("t", t, opt)
	}
	if alt > 0 && ahave { // same name / version / schema URL as tracer `alt`, different attributes
		sc = asc
		sc.attr = fmt.Sprintf("alt%d", t)
	}
	var opts []trace.TracerOption
	if sc.version != "" {
		opts = append(opts, trace.WithInstrumentationVersion(sc.version), trace.WithSchemaURL(sc.schema))
	}
	if sc.attr != "" {
		opts = append(opts, trace.WithInstrumentationAttributes(attribute.String("tenant", sc.attr)))
	}
	var tr trace.Tracer
	if via == 1 {
		tr = otel.Tracer(sc.name, opts...)
	} else {
		tr = w.tp0.Tracer(sc.name, opts...)
	}
	w.log.add(evTracerRet, t, 0)
	w.mu.Lock()
	w.tracers[t] = tr
	w.tscope[t] = sc
	w.mu.Unlock()
}

func (w *world) opSpan(n, t int) {
	w.mu.Lock()
	tr := w.tracers[t]
	w.mu.Unlock()
	if tr == nil {
		return
	}
	w.log.add(evSpanCall, t, n)
	if n%3 == 0 {
		fullSpan(tr, fmt.Sprintf("s%d", n))
	} else {
		_, sp := tr.Start(context.Background(), fmt.Sprintf("s%d", n))
		sp.End()
	}
	w.log.add(evSpanRet, n, 0)
}

func (w *world) opInstallT() { w.opInstallTV(0) }

func (w *world) opInstallTV(variant int) {
	if variant == 1 {
		w.log.add(evTInstallCall, 0, 0)
		otel.SetTracerProvider(ncTP{TracerProvider: w.tsdk, pad: []int{1}})
		if _, ok := otel.GetTracerProvider().(ncTP); !ok {
			w.note("BAD: GetTracerProvider does not return the provider installed last")
		}
		w.tinst.Store(true)
		w.log.add(evTInstallRet, 0, 0)
		return
	}
	w.log.add(evTInstallCall, 0, 0)
	otel.SetTracerProvider(w.tsdk)
	w.tinst.Store(true)
	w.log.add(evTInstallRet, 0, 0)
}

// opProp installs a propagator and checks, through the handle obtained before, that the
// placeholder injects / extracts / lists exactly what the installed one does (no model:
// observed directly).
func (w *world) opProp() bool { return w.opPropV(0) }

// variant 1: the installed propagator (and the carrier it writes to) consults the placeholder again
func (w *world) opPropV(variant int) bool {
	var installed propagation.TextMapPropagator = propagation.NewCompositeTextMapPropagator(propagation.TraceContext{}, propagation.Baggage{})
	if variant == 1 {
		installed = reentrantProp{inner: installed, pre: w.prop0, depth: new(atomic.Int32)}
	}
	otel.SetTextMapPropagator(installed)
	return propSame(w.prop0, installed)
}

func propSame(a, b propagation.TextMapPropagator) bool {
	sc := trace.NewSpanContext(trace.SpanContextConfig{TraceID: trace.TraceID{1, 2}, SpanID: trace.SpanID{3}, TraceFlags: 1})
	ctx := trace.ContextWithSpanContext(context.Background(), sc)
	ca, cb := propagation.MapCarrier{}, propagation.MapCarrier{}
	a.Inject(ctx, ca)
	b.Inject(ctx, cb)
	if len(ca) == 0 || fmt.Sprint(ca) != fmt.Sprint(cb) {
		return false
	}
	ea := trace.SpanContextFromContext(a.Extract(context.Background(), cb))
	eb := trace.SpanContextFromContext(b.Extract(context.Background(), cb))
	if !ea.IsValid() || !ea.Equal(eb) {
		return false
	}
	fa, fb := append([]string(nil), a.Fields()...), append([]string(nil), b.Fields()...)
	sort.Strings(fa)
	sort.Strings(fb)
	return fmt.Sprint(fa) == fmt.Sprint(fb)
}

// propUse: one Inject / Extract / Fields through the placeholder obtained before installation.
func (w *world) propUse() {
	sc := trace.NewSpanContext(trace.SpanContextConfig{TraceID: trace.TraceID{9}, SpanID: trace.SpanID{9}, TraceFlags: 1})
	c := propagation.MapCarrier{}
	w.prop0.Inject(trace.ContextWithSpanContext(context.Background(), sc), c)
	_ = w.prop0.Extract(context.Background(), propagation.MapCarrier{"traceparent": "00-09000000000000000000000000000000-0900000000000000-01"})
	_ = w.prop0.Fields()
}

// ---- final observation ----

type result struct {
	Events [][3]int       `json:"events"`
	Live   [][4]int       `json:"live"` // registration, times its callback ran in the final Collect, its observations found, its instruments
	Panic  string         `json:"panic,omitempty"`
	Stuck  bool           `json:"stuck,omitempty"`
	Dump   string         `json:"dump,omitempty"`
	Bad    []string       `json:"bad,omitempty"` // direct observations without a model
	Notes  []string       `json:"notes,omitempty"`
	Stats  map[string]int `json:"stats,omitempty"`
}

// arrivals parses one collection: per instrument name and attribute (n or cb) how
// many measurements the data point accounts for.
func arrivals(rm *metricdata.ResourceMetrics) (byN map[string]map[int]int, byCB map[string]map[int]bool, bad []string) {
	byN, byCB = map[string]map[int]int{}, map[string]map[int]bool{}
	isFloatData := false
	// a data point with attribute n=<id> accounts for k measurements: for sums k = sum / value (the point must
	// exist and be exactly 0 for a zero-valued measurement), for gauges the point must show the value, for
	// histograms k = count with sum = count * value
	put := func(name string, set attribute.Set, class int, sum float64, cnt int) {
		if a, ok := set.Value("n"); ok && !(isFloatData && isSpecial(class, int(a.AsInt64()))) {
			n := int(a.AsInt64())
			if byN[name] == nil {
				byN[name] = map[int]int{}
			}
			v := float64(recVal(class, n))
			k := 0
			switch class {
			case clsCounter, clsUpDown:
				if v == 0 {
					k = 1
					if sum != 0 {
						bad = append(bad, fmt.Sprintf("instrument %s measurement %d: value %v instead of 0", name, n, sum))
					}
				} else {
					q := sum / v
					k = int(q)
					if float64(k) != q || k < 0 {
						bad = append(bad, fmt.Sprintf("instrument %s measurement %d: value %v is not a multiple of %v", name, n, sum, v))
					}
				}
			case clsGauge:
				k = 1
				if sum != v {
					bad = append(bad, fmt.Sprintf("gauge %s measurement %d: value %v instead of %v", name, n, sum, v))
				}
			case clsHist:
				k = cnt
				if sum != float64(cnt)*v {
					bad = append(bad, fmt.Sprintf("histogram %s measurement %d: sum %v count %d for samples of %v", name, n, sum, cnt, v))
				}
			}
			byN[name][n] += k
		}
		if v, ok := set.Value("cb"); ok {
			if byCB[name] == nil {
				byCB[name] = map[int]bool{}
			}
			byCB[name][int(v.AsInt64())] = true
		}
	}
	sumClass := func(monotonic bool) int {
		if monotonic {
			return clsCounter
		}
		return clsUpDown
	}
	for _, sm := range rm.ScopeMetrics {
		for _, m := range sm.Metrics {
			key := ikey(m.Name, m.Description, m.Unit)
			switch m.Data.(type) {
			case metricdata.Sum[float64], metricdata.Gauge[float64], metricdata.Histogram[float64]:
				isFloatData = true
			default:
				isFloatData = false
			}
			switch d := m.Data.(type) {
			case metricdata.Sum[int64]:
				for _, p := range d.DataPoints {
					put(key, p.Attributes, sumClass(d.IsMonotonic), float64(p.Value), 0)
				}
			case metricdata.Sum[float64]:
				for _, p := range d.DataPoints {
					put(key, p.Attributes, sumClass(d.IsMonotonic), p.Value, 0)
				}
			case metricdata.Gauge[int64]:
				for _, p := range d.DataPoints {
					put(key, p.Attributes, clsGauge, float64(p.Value), 1)
				}
			case metricdata.Gauge[float64]:
				for _, p := range d.DataPoints {
					put(key, p.Attributes, clsGauge, p.Value, 1)
				}
			case metricdata.Histogram[int64]:
				for _, p := range d.DataPoints {
					put(key, p.Attributes, clsHist, float64(p.Sum), int(p.Count))
				}
			case metricdata.Histogram[float64]:
				for _, p := range d.DataPoints {
					put(key, p.Attributes, clsHist, p.Sum, int(p.Count))
				}
			}
		}
	}
	return
}

func (w *world) finish(res *result) {
	evs := w.log.sorted()
	var sdkCreation [][3]int
	byN := map[string]map[int]int{}
	if w.installed.Load() {
		byN, sdkCreation = w.collectAll(res)
		if byN == nil {
			byN = map[string]map[int]int{}
		}
		for _, rd := range w.moreReaders { // whichever SDK won the Once received the measurements
			var rm2 metricdata.ResourceMetrics
			if err := rd.Collect(context.Background(), &rm2); err != nil {
				res.Bad = append(res.Bad, "Collect: "+err.Error())
			}
			n2, _, bad2 := arrivals(&rm2)
			res.Bad = append(res.Bad, bad2...)
			for name, m := range n2 {
				if byN[name] == nil {
					byN[name] = map[int]int{}
				}
				for k, v := range m {
					byN[name][k] += v
				}
			}
		}
	}
	spans := map[string]int{}
	if w.tinst.Load() {
		for _, s := range w.rec.Ended() {
			spans[s.Name()]++
		}
		for _, rc := range w.moreRecs {
			for _, s := range rc.Ended() {
				spans[s.Name()]++
			}
		}
		w.checkSpanScopes(evs, res)
	}
	for _, e := range evs {
		res.Events = append(res.Events, [3]int{e.tag, e.a, e.b})
		switch e.tag {
		case evRecCall:
			if x := w.insts[e.a]; x != nil {
				k := byN[x.key()][e.b]
				if bits, ok := specialBits(x.kind, e.b); ok {
					// NaN / Inf: the forwarded call itself, compared by bit pattern
					k = 0
					w.fwd.mu.Lock()
					for _, b := range w.fwd.m[e.b] {
						if b == bits {
							k++
						} else {
							res.Bad = append(res.Bad, fmt.Sprintf("measurement %d was forwarded with bits %#x instead of %#x", e.b, b, bits))
						}
					}
					w.fwd.mu.Unlock()
				}
				for i := 0; i < k; i++ {
					res.Events = append(res.Events, [3]int{evSdkRec, e.b, 0})
				}
			}
		case evSpanCall:
			for i := 0; i < spans[fmt.Sprintf("s%d", e.b)]; i++ {
				res.Events = append(res.Events, [3]int{evSdkSpan, e.b, 0})
			}
		}
	}
	// creation-time callbacks are registered inside the SDK's instrument constructor, out of sight of the
	// recording wrapper: one SdkReg event per run in the final Collect
	res.Events = append(res.Events, sdkCreation...)
	for _, n := range w.notes {
		if strings.HasPrefix(n, "BAD: ") {
			res.Bad = append(res.Bad, n[5:])
		} else {
			res.Notes = append(res.Notes, n)
		}
	}
}
