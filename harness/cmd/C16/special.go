package main

import (
	"context"
	"math"
	"sync"
	"sync/atomic"

	"go.opentelemetry.io/otel/metric"
	"go.opentelemetry.io/otel/propagation"
)

// ---- special float values: judged on the recording SDK's log of forwarded calls, bit for bit ----

// specialBits: measurement n on a float64 instrument carries NaN / +Inf / -Inf for these ids (0 = ordinary).
func specialBits(kind, n int) (uint64, bool) {
	if kind < 4 || kind > 7 {
		return 0, false
	}
	switch n % 16 {
	case 9:
		return math.Float64bits(math.NaN()), true
	case 13:
		return math.Float64bits(math.Inf(1)), true
	case 15:
		if c := classOf(kind); c == clsUpDown || c == clsGauge {
			return math.Float64bits(math.Inf(-1)), true
		}
	}
	return 0, false
}

// isSpecial: the same decision from the class of a float64 data stream.
func isSpecial(class, n int) bool {
	switch n % 16 {
	case 9, 13:
		return true
	case 15:
		return class == clsUpDown || class == clsGauge
	}
	return false
}

// fwdLog: what the installed SDK was actually called with (measurement id -> bit patterns of the values).
type fwdLog struct {
	mu sync.Mutex
	m  map[int][]uint64
}

func (l *fwdLog) add(set metricAttr, v float64) {
	if l == nil {
		return
	}
	if n, ok := set.n(); ok {
		l.mu.Lock()
		if l.m == nil {
			l.m = map[int][]uint64{}
		}
		l.m[n] = append(l.m[n], math.Float64bits(v))
		l.mu.Unlock()
	}
}

type metricAttr struct {
	add []metric.AddOption
	rec []metric.RecordOption
}

func (a metricAttr) n() (int, bool) {
	if a.add != nil {
		s := metric.NewAddConfig(a.add).Attributes()
		if v, ok := s.Value("n"); ok {
			return int(v.AsInt64()), true
		}
		return 0, false
	}
	s := metric.NewRecordConfig(a.rec).Attributes()
	if v, ok := s.Value("n"); ok {
		return int(v.AsInt64()), true
	}
	return 0, false
}

type recF64Counter struct {
	metric.Float64Counter
	l *fwdLog
}

func (c recF64Counter) Add(ctx context.Context, v float64, o ...metric.AddOption) {
	c.l.add(metricAttr{add: append([]metric.AddOption{}, o...)}, v)
	c.Float64Counter.Add(ctx, v, o...)
}

type recF64UpDown struct {
	metric.Float64UpDownCounter
	l *fwdLog
}

func (c recF64UpDown) Add(ctx context.Context, v float64, o ...metric.AddOption) {
	c.l.add(metricAttr{add: append([]metric.AddOption{}, o...)}, v)
	c.Float64UpDownCounter.Add(ctx, v, o...)
}

type recF64Hist struct {
	metric.Float64Histogram
	l *fwdLog
}

func (c recF64Hist) Record(ctx context.Context, v float64, o ...metric.RecordOption) {
	c.l.add(metricAttr{rec: append([]metric.RecordOption{}, o...)}, v)
	c.Float64Histogram.Record(ctx, v, o...)
}

type recF64Gauge struct {
	metric.Float64Gauge
	l *fwdLog
}

func (c recF64Gauge) Record(ctx context.Context, v float64, o ...metric.RecordOption) {
	c.l.add(metricAttr{rec: append([]metric.RecordOption{}, o...)}, v)
	c.Float64Gauge.Record(ctx, v, o...)
}

func (m *recMeter) Float64Counter(name string, o ...metric.Float64CounterOption) (metric.Float64Counter, error) {
	i, err := m.Meter.Float64Counter(name, o...)
	if i == nil {
		return i, err
	}
	return recF64Counter{i, m.fwd}, err
}
func (m *recMeter) Float64UpDownCounter(name string, o ...metric.Float64UpDownCounterOption) (metric.Float64UpDownCounter, error) {
	i, err := m.Meter.Float64UpDownCounter(name, o...)
	if i == nil {
		return i, err
	}
	return recF64UpDown{i, m.fwd}, err
}
func (m *recMeter) Float64Histogram(name string, o ...metric.Float64HistogramOption) (metric.Float64Histogram, error) {
	i, err := m.Meter.Float64Histogram(name, o...)
	if i == nil {
		return i, err
	}
	return recF64Hist{i, m.fwd}, err
}
func (m *recMeter) Float64Gauge(name string, o ...metric.Float64GaugeOption) (metric.Float64Gauge, error) {
	i, err := m.Meter.Float64Gauge(name, o...)
	if i == nil {
		return i, err
	}
	return recF64Gauge{i, m.fwd}, err
}

// ---- a re-entrant propagator / carrier: while it injects, extracts or lists fields it consults the global
// placeholder propagator that was obtained before installation (as a composite propagator built from
// otel.GetTextMapPropagator() would).  The outermost call re-enters; nested calls do not (no infinite recursion).
type reentrantProp struct {
	inner propagation.TextMapPropagator
	pre   propagation.TextMapPropagator
	depth *atomic.Int32
}

func (p reentrantProp) outer() bool {
	if p.depth.Add(1) == 1 {
		return true
	}
	return false
}

func (p reentrantProp) Inject(ctx context.Context, c propagation.TextMapCarrier) {
	if p.outer() {
		_ = p.pre.Fields()
	}
	p.depth.Add(-1)
	p.inner.Inject(ctx, reentrantCarrier{c, p})
}

func (p reentrantProp) Extract(ctx context.Context, c propagation.TextMapCarrier) context.Context {
	if p.outer() {
		_ = p.pre.Fields()
	}
	p.depth.Add(-1)
	return p.inner.Extract(ctx, reentrantCarrier{c, p})
}

func (p reentrantProp) Fields() []string {
	if p.outer() {
		_ = p.pre.Extract(context.Background(), propagation.MapCarrier{})
	}
	p.depth.Add(-1)
	return p.inner.Fields()
}

type reentrantCarrier struct {
	propagation.TextMapCarrier
	p reentrantProp
}

func (c reentrantCarrier) Set(k, v string) {
	if c.p.outer() {
		_ = c.p.pre.Fields()
	}
	c.p.depth.Add(-1)
	c.TextMapCarrier.Set(k, v)
}

func (c reentrantCarrier) Get(k string) string {
	if c.p.outer() {
		_ = c.p.pre.Fields()
	}
	c.p.depth.Add(-1)
	return c.TextMapCarrier.Get(k)
}
