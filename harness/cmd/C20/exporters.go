// C20 harness, child side: in-process collectors and the six OTLP exporters.
package main

import (
	"context"
	"fmt"
	"net"
	"net/http"
	"sort"
	"strings"
	"sync"
	"time"

	collogpb "go.opentelemetry.io/proto/otlp/collector/logs/v1"
	colmetricpb "go.opentelemetry.io/proto/otlp/collector/metrics/v1"
	coltracepb "go.opentelemetry.io/proto/otlp/collector/trace/v1"
	"google.golang.org/grpc"
	"google.golang.org/grpc/credentials/insecure"
	_ "google.golang.org/grpc/encoding/gzip"
	"google.golang.org/grpc/metadata"
	"google.golang.org/grpc/stats"

	"go.opentelemetry.io/otel/exporters/otlp/otlplog/otlploggrpc"
	"go.opentelemetry.io/otel/exporters/otlp/otlplog/otlploghttp"
	"go.opentelemetry.io/otel/exporters/otlp/otlpmetric/otlpmetricgrpc"
	"go.opentelemetry.io/otel/exporters/otlp/otlpmetric/otlpmetrichttp"
	"go.opentelemetry.io/otel/exporters/otlp/otlptrace/otlptracegrpc"
	"go.opentelemetry.io/otel/exporters/otlp/otlptrace/otlptracehttp"
	sdklog "go.opentelemetry.io/otel/sdk/log"
	"go.opentelemetry.io/otel/sdk/metric/metricdata"
	"go.opentelemetry.io/otel/sdk/resource"
	"go.opentelemetry.io/otel/sdk/trace/tracetest"
)

// Opt is one programmatic option of an exporter (the Coq type `opt`).
type Opt struct {
	K string            `json:"k"` // endpoint endpointurl urlpath headers compression compressor timeout insecure
	S string            `json:"s,omitempty"`
	M map[string]string `json:"m,omitempty"`
	B bool              `json:"b,omitempty"`
	D int64             `json:"d,omitempty"` // nanoseconds
}

// Received is what one collector saw of one request.
type Received struct {
	Who      string            `json:"who"`
	Path     string            `json:"path"`
	Hdrs     map[string]string `json:"hdrs"`
	Gzip     bool              `json:"gzip"`
	Deadline bool              `json:"deadline"`
	RemainMs int64             `json:"remain_ms"`
}

type sink struct {
	mu   sync.Mutex
	reqs []Received
}

func (s *sink) add(r Received) {
	s.mu.Lock()
	s.reqs = append(s.reqs, r)
	s.mu.Unlock()
}

const hdrPrefix = "x-c20-"

func pickHeaders(get func(func(k string, v []string))) map[string]string {
	out := map[string]string{}
	get(func(k string, v []string) {
		lk := strings.ToLower(k)
		if strings.HasPrefix(lk, hdrPrefix) && len(v) > 0 {
			out[lk] = v[0]
		}
	})
	return out
}

func listenLocal() (net.Listener, error) {
	var err error
	for i := 0; i < 3; i++ {
		var l net.Listener
		if l, err = net.Listen("tcp", "127.0.0.1:0"); err == nil {
			return l, nil
		}
		time.Sleep(50 * time.Millisecond)
	}
	return nil, err
}

// startHTTP starts a collector; the handler answers after delay.
func startHTTP(name string, s *sink, delay time.Duration) (string, error) {
	l, err := listenLocal()
	if err != nil {
		return "", err
	}
	srv := &http.Server{Handler: http.HandlerFunc(func(w http.ResponseWriter, r *http.Request) {
		s.add(Received{Who: name, Path: r.URL.Path,
			Hdrs: pickHeaders(func(f func(string, []string)) {
				for k, v := range r.Header {
					f(k, v)
				}
			}),
			Gzip: strings.EqualFold(r.Header.Get("Content-Encoding"), "gzip")})
		if delay > 0 {
			time.Sleep(delay)
		}
		w.WriteHeader(http.StatusOK)
	})}
	go srv.Serve(l)
	return l.Addr().String(), nil
}

type grpcCollector struct {
	name string
	s    *sink
}

type compKey struct{}

type compHandler struct{}

func (compHandler) TagRPC(ctx context.Context, _ *stats.RPCTagInfo) context.Context {
	return context.WithValue(ctx, compKey{}, new(string))
}
func (compHandler) HandleRPC(ctx context.Context, st stats.RPCStats) {
	if h, ok := st.(*stats.InHeader); ok {
		if p, ok := ctx.Value(compKey{}).(*string); ok {
			*p = h.Compression
		}
	}
}
func (compHandler) TagConn(ctx context.Context, _ *stats.ConnTagInfo) context.Context { return ctx }
func (compHandler) HandleConn(context.Context, stats.ConnStats)                       {}

func (g *grpcCollector) record(ctx context.Context) {
	r := Received{Who: g.name, Hdrs: map[string]string{}}
	if md, ok := metadata.FromIncomingContext(ctx); ok {
		r.Hdrs = pickHeaders(func(f func(string, []string)) {
			for k, v := range md {
				f(k, v)
			}
		})
	}
	if p, ok := ctx.Value(compKey{}).(*string); ok {
		r.Gzip = *p == "gzip"
	}
	if d, ok := ctx.Deadline(); ok {
		r.Deadline = true
		r.RemainMs = time.Until(d).Milliseconds()
	}
	g.s.add(r)
}

type traceSrv struct {
	coltracepb.UnimplementedTraceServiceServer
	c *grpcCollector
}

func (g *traceSrv) Export(ctx context.Context, _ *coltracepb.ExportTraceServiceRequest) (*coltracepb.ExportTraceServiceResponse, error) {
	g.c.record(ctx)
	return &coltracepb.ExportTraceServiceResponse{}, nil
}

type metricsSrv struct {
	colmetricpb.UnimplementedMetricsServiceServer
	c *grpcCollector
}

func (g *metricsSrv) Export(ctx context.Context, _ *colmetricpb.ExportMetricsServiceRequest) (*colmetricpb.ExportMetricsServiceResponse, error) {
	g.c.record(ctx)
	return &colmetricpb.ExportMetricsServiceResponse{}, nil
}

type logsSrv struct {
	collogpb.UnimplementedLogsServiceServer
	c *grpcCollector
}

func (g *logsSrv) Export(ctx context.Context, _ *collogpb.ExportLogsServiceRequest) (*collogpb.ExportLogsServiceResponse, error) {
	g.c.record(ctx)
	return &collogpb.ExportLogsServiceResponse{}, nil
}

func startGRPC(name string, s *sink) (string, error) {
	l, err := listenLocal()
	if err != nil {
		return "", err
	}
	srv := grpc.NewServer(grpc.StatsHandler(compHandler{}))
	c := &grpcCollector{name: name, s: s}
	coltracepb.RegisterTraceServiceServer(srv, &traceSrv{c: c})
	colmetricpb.RegisterMetricsServiceServer(srv, &metricsSrv{c: c})
	collogpb.RegisterLogsServiceServer(srv, &logsSrv{c: c})
	go srv.Serve(l)
	return l.Addr().String(), nil
}

// ---- exporters ----

var ctxBg = context.Background()

func oneMetric() *metricdata.ResourceMetrics {
	return &metricdata.ResourceMetrics{Resource: resource.Empty(), ScopeMetrics: []metricdata.ScopeMetrics{{Metrics: []metricdata.Metrics{{
		Name: "m", Data: metricdata.Gauge[int64]{DataPoints: []metricdata.DataPoint[int64]{{Value: 1}}}}}}}}
}

func oneRecord() []sdklog.Record {
	var r sdklog.Record
	r.SetSeverityText("x")
	return []sdklog.Record{r}
}

// exportOnce builds the exporter of (fam, proto) with opts under the process
// environment, exports one item, shuts it down. rawComp >= 0 passes an
// out-of-range Compression enum value (HTTP exporters).
func exportOnce(fam, proto string, opts []Opt, rawComp int, retry bool) (newErr, expErr error) {
	ctx, cancel := context.WithTimeout(ctxBg, 40*time.Second)
	defer cancel()
	switch fam + "/" + proto {
	case "trace/http":
		os := []otlptracehttp.Option{}
		if !retry {
			os = append(os, otlptracehttp.WithRetry(otlptracehttp.RetryConfig{Enabled: false}))
		}
		for _, o := range opts {
			switch o.K {
			case "endpoint":
				os = append(os, otlptracehttp.WithEndpoint(o.S))
			case "endpointurl":
				os = append(os, otlptracehttp.WithEndpointURL(o.S))
			case "urlpath":
				os = append(os, otlptracehttp.WithURLPath(o.S))
			case "headers":
				os = append(os, otlptracehttp.WithHeaders(o.M))
			case "compression":
				c := otlptracehttp.NoCompression
				if o.B {
					c = otlptracehttp.GzipCompression
				}
				os = append(os, otlptracehttp.WithCompression(c))
			case "timeout":
				os = append(os, otlptracehttp.WithTimeout(time.Duration(o.D)))
			case "insecure":
				os = append(os, otlptracehttp.WithInsecure())
			}
		}
		if rawComp >= 0 {
			os = append(os, otlptracehttp.WithCompression(otlptracehttp.Compression(rawComp)))
		}
		e, err := otlptracehttp.New(ctx, os...)
		if err != nil {
			return err, nil
		}
		expErr = e.ExportSpans(ctx, tracetest.SpanStubs{{Name: "x"}}.Snapshots())
		e.Shutdown(ctx)
	case "trace/grpc":
		os := []otlptracegrpc.Option{}
		if !retry {
			os = append(os, otlptracegrpc.WithRetry(otlptracegrpc.RetryConfig{Enabled: false}))
		}
		for _, o := range opts {
			switch o.K {
			case "endpoint":
				os = append(os, otlptracegrpc.WithEndpoint(o.S))
			case "endpointurl":
				os = append(os, otlptracegrpc.WithEndpointURL(o.S))
			case "headers":
				os = append(os, otlptracegrpc.WithHeaders(o.M))
			case "compressor":
				os = append(os, otlptracegrpc.WithCompressor(o.S))
			case "timeout":
				os = append(os, otlptracegrpc.WithTimeout(time.Duration(o.D)))
			case "insecure":
				os = append(os, otlptracegrpc.WithInsecure())
			case "grpcconn":
				conn, err := grpc.NewClient(o.S, grpc.WithTransportCredentials(insecure.NewCredentials()))
				if err != nil {
					return err, nil
				}
				defer conn.Close()
				os = append(os, otlptracegrpc.WithGRPCConn(conn))
			}
		}
		e, err := otlptracegrpc.New(ctx, os...)
		if err != nil {
			return err, nil
		}
		expErr = e.ExportSpans(ctx, tracetest.SpanStubs{{Name: "x"}}.Snapshots())
		e.Shutdown(ctx)
	case "metric/http":
		os := []otlpmetrichttp.Option{}
		if !retry {
			os = append(os, otlpmetrichttp.WithRetry(otlpmetrichttp.RetryConfig{Enabled: false}))
		}
		for _, o := range opts {
			switch o.K {
			case "endpoint":
				os = append(os, otlpmetrichttp.WithEndpoint(o.S))
			case "endpointurl":
				os = append(os, otlpmetrichttp.WithEndpointURL(o.S))
			case "urlpath":
				os = append(os, otlpmetrichttp.WithURLPath(o.S))
			case "headers":
				os = append(os, otlpmetrichttp.WithHeaders(o.M))
			case "compression":
				c := otlpmetrichttp.NoCompression
				if o.B {
					c = otlpmetrichttp.GzipCompression
				}
				os = append(os, otlpmetrichttp.WithCompression(c))
			case "timeout":
				os = append(os, otlpmetrichttp.WithTimeout(time.Duration(o.D)))
			case "insecure":
				os = append(os, otlpmetrichttp.WithInsecure())
			}
		}
		if rawComp >= 0 {
			os = append(os, otlpmetrichttp.WithCompression(otlpmetrichttp.Compression(rawComp)))
		}
		e, err := otlpmetrichttp.New(ctx, os...)
		if err != nil {
			return err, nil
		}
		expErr = e.Export(ctx, oneMetric())
		e.Shutdown(ctx)
	case "metric/grpc":
		os := []otlpmetricgrpc.Option{}
		if !retry {
			os = append(os, otlpmetricgrpc.WithRetry(otlpmetricgrpc.RetryConfig{Enabled: false}))
		}
		for _, o := range opts {
			switch o.K {
			case "endpoint":
				os = append(os, otlpmetricgrpc.WithEndpoint(o.S))
			case "endpointurl":
				os = append(os, otlpmetricgrpc.WithEndpointURL(o.S))
			case "headers":
				os = append(os, otlpmetricgrpc.WithHeaders(o.M))
			case "compressor":
				os = append(os, otlpmetricgrpc.WithCompressor(o.S))
			case "timeout":
				os = append(os, otlpmetricgrpc.WithTimeout(time.Duration(o.D)))
			case "insecure":
				os = append(os, otlpmetricgrpc.WithInsecure())
			case "grpcconn":
				conn, err := grpc.NewClient(o.S, grpc.WithTransportCredentials(insecure.NewCredentials()))
				if err != nil {
					return err, nil
				}
				defer conn.Close()
				os = append(os, otlpmetricgrpc.WithGRPCConn(conn))
			}
		}
		e, err := otlpmetricgrpc.New(ctx, os...)
		if err != nil {
			return err, nil
		}
		expErr = e.Export(ctx, oneMetric())
		e.Shutdown(ctx)
	case "log/http":
		os := []otlploghttp.Option{}
		if !retry {
			os = append(os, otlploghttp.WithRetry(otlploghttp.RetryConfig{Enabled: false}))
		}
		for _, o := range opts {
			switch o.K {
			case "endpoint":
				os = append(os, otlploghttp.WithEndpoint(o.S))
			case "endpointurl":
				os = append(os, otlploghttp.WithEndpointURL(o.S))
			case "urlpath":
				os = append(os, otlploghttp.WithURLPath(o.S))
			case "headers":
				os = append(os, otlploghttp.WithHeaders(o.M))
			case "compression":
				c := otlploghttp.NoCompression
				if o.B {
					c = otlploghttp.GzipCompression
				}
				os = append(os, otlploghttp.WithCompression(c))
			case "timeout":
				os = append(os, otlploghttp.WithTimeout(time.Duration(o.D)))
			case "insecure":
				os = append(os, otlploghttp.WithInsecure())
			}
		}
		if rawComp >= 0 {
			os = append(os, otlploghttp.WithCompression(otlploghttp.Compression(rawComp)))
		}
		e, err := otlploghttp.New(ctx, os...)
		if err != nil {
			return err, nil
		}
		expErr = e.Export(ctx, oneRecord())
		e.Shutdown(ctx)
	case "log/grpc":
		os := []otlploggrpc.Option{}
		if !retry {
			os = append(os, otlploggrpc.WithRetry(otlploggrpc.RetryConfig{Enabled: false}))
		}
		for _, o := range opts {
			switch o.K {
			case "endpoint":
				os = append(os, otlploggrpc.WithEndpoint(o.S))
			case "endpointurl":
				os = append(os, otlploggrpc.WithEndpointURL(o.S))
			case "headers":
				os = append(os, otlploggrpc.WithHeaders(o.M))
			case "compressor":
				os = append(os, otlploggrpc.WithCompressor(o.S))
			case "timeout":
				os = append(os, otlploggrpc.WithTimeout(time.Duration(o.D)))
			case "insecure":
				os = append(os, otlploggrpc.WithInsecure())
			case "grpcconn":
				conn, err := grpc.NewClient(o.S, grpc.WithTransportCredentials(insecure.NewCredentials()))
				if err != nil {
					return err, nil
				}
				defer conn.Close()
				os = append(os, otlploggrpc.WithGRPCConn(conn))
			}
		}
		e, err := otlploggrpc.New(ctx, os...)
		if err != nil {
			return err, nil
		}
		expErr = e.Export(ctx, oneRecord())
		e.Shutdown(ctx)
	default:
		return fmt.Errorf("unknown exporter %s/%s", fam, proto), nil
	}
	return nil, expErr
}

func sortedKeys(m map[string]string) []string {
	ks := make([]string, 0, len(m))
	for k := range m {
		ks = append(ks, k)
	}
	sort.Strings(ks)
	return ks
}
