// C20 harness: configuration precedence of the six OTLP exporters and of the SDK
// batching / limit / sampler settings vs the Coq model and spec.
//
// Every scenario runs in a re-exec'd child process (this binary with -child) that has its own
// environment; children run 16 at a time.
package main

import (
	"bytes"
	"encoding/json"
	"flag"
	"fmt"
	"os"
	"os/exec"
	"sort"
	"strconv"
	"strings"
	"sync"
	"time"

	"verif/harness/vgen"
)

// ---- running children ----

type job struct {
	sc   Scenario
	res  *Result
	secs float64
	fail string // machinery failure
	viol string // crash / hang observed by the parent
	log  string
}

func cleanEnv() []string {
	var out []string
	for _, kv := range os.Environ() {
		if strings.HasPrefix(kv, "OTEL_") || strings.HasPrefix(strings.ToUpper(kv), "HTTP_PROXY=") ||
			strings.HasPrefix(strings.ToUpper(kv), "HTTPS_PROXY=") || strings.HasPrefix(strings.ToUpper(kv), "ALL_PROXY=") {
			continue
		}
		out = append(out, kv)
	}
	return append(out, "NO_PROXY=*")
}

func runChildOnce(j *job, env []string) (retry bool) {
	in, _ := json.Marshal(j.sc)
	cmd := exec.Command(os.Args[0], "-child")
	cmd.Env = env
	cmd.Stdin = bytes.NewReader(in)
	var stdout, stderr bytes.Buffer
	cmd.Stdout, cmd.Stderr = &stdout, &stderr
	if err := cmd.Start(); err != nil {
		j.fail = "cannot start child: " + err.Error()
		return true
	}
	done := make(chan error, 1)
	go func() { done <- cmd.Wait() }()
	var err error
	select {
	case err = <-done:
	case <-time.After(120 * time.Second):
		cmd.Process.Kill()
		<-done
		j.viol = "hang: child process still running after 120s (killed)"
		j.log = tail(stderr.String(), 3000)
		return false
	}
	j.log = tail(stderr.String(), 3000)
	for _, line := range strings.Split(stdout.String(), "\n") {
		if strings.HasPrefix(line, "RESULT ") {
			var r Result
			if e := json.Unmarshal([]byte(line[7:]), &r); e == nil {
				if r.Infra != "" {
					j.fail = "child infrastructure failure: " + r.Infra
					return true
				}
				j.res = &r
				j.fail = ""
				return false
			}
		}
	}
	if err != nil {
		se := stderr.String()
		if strings.Contains(se, "panic:") || strings.Contains(se, "fatal error:") || strings.Contains(se, "SIGSEGV") {
			j.viol = "crash: child process died: " + firstLine(se, "panic:", "fatal error:")
			return false
		}
		j.fail = fmt.Sprintf("child exited abnormally (%v) without a Go panic: %s", err, tail(se, 400))
		return true
	}
	j.fail = "child printed no result"
	return true
}

func tail(s string, n int) string {
	if len(s) > n {
		return s[len(s)-n:]
	}
	return s
}

func firstLine(s string, keys ...string) string {
	for _, l := range strings.Split(s, "\n") {
		for _, k := range keys {
			if strings.Contains(l, k) {
				return l
			}
		}
	}
	return tail(s, 200)
}

func runAll(jobs []*job) {
	env := cleanEnv()
	workers := 16
	if v, err := strconv.Atoi(os.Getenv("VERIF_JOBS")); err == nil && v > 0 {
		workers = v
	}
	ch := make(chan *job)
	var wg sync.WaitGroup
	for i := 0; i < workers; i++ {
		wg.Add(1)
		go func() {
			defer wg.Done()
			for j := range ch {
				t0 := time.Now()
				if runChildOnce(j, env) {
					time.Sleep(200 * time.Millisecond)
					runChildOnce(j, env) // one retry on an infrastructure failure
				}
				j.secs = time.Since(t0).Seconds()
			}
		}()
	}
	for _, j := range jobs {
		ch <- j
	}
	close(ch)
	wg.Wait()
}

// ---- exporter cases ----

var fams = []string{"trace", "metric", "log"}
var protos = []string{"http", "grpc"}
var famCoq = map[string]string{"trace": "FTrace", "metric": "FMetric", "log": "FLog"}
var protoCoq = map[string]string{"http": "PHttp", "grpc": "PGrpc"}
var sigName = map[string]string{"trace": "TRACES", "metric": "METRICS", "log": "LOGS"}
var fake = map[string]string{"A": "127.0.0.1:4001", "B": "127.0.0.2:4002", "C": "127.0.0.3:4003"}

// env value indices (the Coq record `env`)
const (
	genEp = iota
	specEp
	genHdr
	specHdr
	genComp
	specComp
	genTmo
	specTmo
	genInsec
	specInsec
)

var envSuffix = [10]string{"ENDPOINT", "ENDPOINT", "HEADERS", "HEADERS", "COMPRESSION", "COMPRESSION", "TIMEOUT", "TIMEOUT", "INSECURE", "INSECURE"}

func envName(fam string, i int) string {
	if i%2 == 0 {
		return "OTEL_EXPORTER_OTLP_" + envSuffix[i]
	}
	return "OTEL_EXPORTER_OTLP_" + sigName[fam] + "_" + envSuffix[i]
}

type expCase struct {
	Fam, Proto string
	Opts       []Opt
	Env        [10]string
	Empty      [10]bool // variable set to the empty string (provides nothing, like an unset one)
	Slow       bool
	Retry      bool
	Note       string
}

func (c *expCase) scenario(kind string) Scenario {
	sc := Scenario{Kind: kind, Fam: c.Fam, Proto: c.Proto, Opts: c.Opts, Env: map[string]string{}, Slow: c.Slow, Retry: c.Retry}
	for i, v := range c.Env {
		if v != "" || c.Empty[i] {
			sc.Env[envName(c.Fam, i)] = v
		}
	}
	return sc
}

func fakeSubst(s string) string {
	for k, v := range fake {
		s = strings.ReplaceAll(s, "{"+k+"}", v)
	}
	return s
}

func hmapCoq(m map[string]string) string {
	var items []string
	for _, k := range sortedKeys(m) {
		items = append(items, vgen.Pair(vgen.HxS(k), vgen.HxS(m[k])))
	}
	return vgen.List(items)
}

func optCoq(o Opt) string {
	switch o.K {
	case "endpoint":
		return vgen.App("OEndpoint", vgen.HxS(fakeSubst(o.S)))
	case "endpointurl":
		return vgen.App("OEndpointURL", vgen.HxS(fakeSubst(o.S)))
	case "urlpath":
		return vgen.App("OURLPath", vgen.HxS(o.S))
	case "headers":
		return vgen.App("OHeaders", hmapCoq(o.M))
	case "compression":
		return vgen.App("OCompression", vgen.Bool(o.B))
	case "compressor":
		return vgen.App("OCompressor", vgen.HxS(o.S))
	case "timeout":
		return vgen.App("OTimeout", vgen.Z(o.D))
	case "grpcconn":
		return vgen.App("OGRPCConn", vgen.HxS(fakeSubst(o.S)))
	}
	return "OInsecure"
}

var grpcCandidates = []int64{3000, 5000, 7000, 10000, 15000}

func (c *expCase) term(res *Result) (string, map[string]any) {
	var opts []string
	for _, o := range c.Opts {
		opts = append(opts, optCoq(o))
	}
	var ev []string
	for _, v := range c.Env {
		ev = append(ev, vgen.HxS(fakeSubst(v)))
	}
	obs := "(EObs [] [] [] false TNone)"
	od := map[string]any{"who": ""}
	if len(res.Reqs) > 0 {
		r := res.Reqs[0]
		t := "TNone"
		switch {
		case c.Proto == "http" && c.Slow:
			t = vgen.App("THttp", vgen.Bool(!res.ExportOK))
			od["timed_out"] = !res.ExportOK
		case c.Proto == "grpc":
			if !r.Deadline || r.RemainMs > 30000 { // beyond 30 s: only the harness's own 40 s guard on the call
				t = "(TGrpc None)"
				od["deadline_ms"] = nil
			} else {
				b := int64(-1)
				for _, cand := range grpcCandidates {
					if r.RemainMs > cand-1500 && r.RemainMs <= cand+100 {
						b = cand
					}
				}
				t = vgen.App("TGrpc", vgen.Some(vgen.Z(b)))
				od["deadline_ms"] = b
				od["remain_ms"] = r.RemainMs
			}
		}
		obs = vgen.App("EObs", vgen.HxS(fake[r.Who]), vgen.HxS(r.Path), hmapCoq(r.Hdrs), vgen.Bool(r.Gzip), t)
		for k, v := range map[string]any{"who": r.Who, "path": r.Path, "headers": r.Hdrs, "gzip": r.Gzip, "timeout": t, "requests": len(res.Reqs)} {
			od[k] = v
		}
	}
	if res.ExpErr != "" {
		od["export_err"] = tail(res.ExpErr, 160)
	}
	if res.NewErr != "" {
		od["new_err"] = tail(res.NewErr, 160)
	}
	term := vgen.App("CExp", famCoq[c.Fam], protoCoq[c.Proto], vgen.List(opts), vgen.App("Build_env", ev...), obs)
	env := map[string]string{}
	for i, v := range c.Env {
		if v != "" || c.Empty[i] {
			env[envName(c.Fam, i)] = v
		}
	}
	desc := map[string]any{"exporter": c.Fam + "/" + c.Proto, "options": c.Opts, "env": env, "slow_collector": c.Slow, "default_retry": c.Retry, "note": c.Note, "observed": od}
	return term, desc
}

// source states
const (
	stAbsent = iota
	stValid
	stInvalid
)

var stName = [3]string{"absent", "valid", "invalid"}

var badURLs = []string{"http://a b/", "://bad", "{X}", "http://[::1", "http://{X}:abc/", "%zz", "http://{X}/%zz"}
var specPathsTidy = []string{"", "/", "/custom", "/a/b", "/v1/traces", "/q?x=1", "/a%20b", "/v1/logs"}
var specPathsUntidy = []string{"/custom/", "/a//b", "/a/./b", "/a/../b", "/x/"}
var genPaths = []string{"", "", "/", "/pre", "/pre/", "/a/b", "/a/b/"}
var specHdrValid = []string{"x-c20-s=spec,x-c20-k=s", "x-c20-s=a%20b", "x-c20-s = v1 , x-c20-k=s", "x-c20-s=a%3Db,x-c20-k=%41",
	"x-c20-s=1,x-c20-s=2", "x-c20-s=,x-c20-k=s", "x-c20-s=a%2Cb=c"}
var hdrInvalid = []string{"garbage", "x-c20-Z=v,garbage", "=v", "x-c20-Z=%zz", "bad key=v,x-c20-Z=ok", ",", "x-c20-Z=v,"}
var compInvalid = []string{"zstd", "GZIP", "deflate", "gzip,none", "1"}
var tmoInvalid = []string{"abc", "1.5", "10s", "99999999999999999999", "0x10", "1e3"}

func pickBadURL(r *vgen.Rand, who, site string) string {
	v := vgen.Pick(r, badURLs)
	if site != "" {
		v = cycle(site, badURLs)
	}
	return strings.ReplaceAll(v, "{X}", "{"+who+"}")
}

func randState(r *vgen.Rand) int {
	switch x := r.Intn(20); {
	case x < 14:
		return stAbsent
	case x < 19:
		return stValid
	default:
		return stInvalid
	}
}

// buildCase: the focus setting takes the given (option, specific, generic) states, the other
// settings a random mostly-absent baseline (the endpoint always resolvable).
// cycle walks through a pool deterministically (one counter per use site), so that every shape
// of an invalid value is exercised in every position.
var cycleCount = map[string]int{}

func cycle(site string, pool []string) string {
	i := cycleCount[site]
	cycleCount[site] = i + 1
	return pool[i%len(pool)]
}

func buildCase(r *vgen.Rand, fam, proto, focus string, combo [3]int, short int, rep int) *expCase {
	c := &expCase{Fam: fam, Proto: proto, Note: fmt.Sprintf("focus=%s option=%s specific=%s generic=%s", focus, stName[combo[0]], stName[combo[1]], stName[combo[2]])}
	st := func(setting string) [3]int {
		if setting == focus {
			return combo
		}
		s := [3]int{randState(r), randState(r), randState(r)}
		if setting == "endpoint" {
			s[r.Intn(3)] = stValid
		}
		return s
	}
	site := func(setting, pos string) string { // cycling only for the setting in focus
		if setting == focus {
			return fam + "/" + proto + "/" + setting + "/" + pos
		}
		return ""
	}
	inv := func(setting, pos string, pool []string) string {
		if st := site(setting, pos); st != "" {
			return cycle(st, pool)
		}
		return vgen.Pick(r, pool)
	}
	http := proto == "http"
	pad := func(v string) string { // rarely: white space around (or instead of) an environment value
		if r.Chance(1, 60) {
			return vgen.Pick(r, []string{" ", "\t "})
		}
		if r.Chance(1, 25) {
			return vgen.Pick(r, []string{" ", "\t"}) + v + vgen.Pick(r, []string{"", " "})
		}
		return v
	}

	// endpoint (+ URL path)
	s := st("endpoint")
	switch s[0] {
	case stValid:
		if http {
			switch r.Intn(3) {
			case 0:
				c.Opts = append(c.Opts, Opt{K: "endpoint", S: "{A}"})
			case 1:
				c.Opts = append(c.Opts, Opt{K: "endpoint", S: "{A}"}, Opt{K: "urlpath", S: vgen.Pick(r, []string{"/opt/p", "/o"})})
			default:
				c.Opts = append(c.Opts, Opt{K: "endpointurl", S: "http://{A}" + vgen.Pick(r, []string{"/o/url", "/u"})})
			}
			if r.Chance(1, 8) { // outside the uniform statements (judged against the model only): untidy,
				// relative, blank or empty option paths, a URL option without a path
				if r.Bool() {
					c.Opts = append(c.Opts, Opt{K: "urlpath", S: vgen.Pick(r, []string{"custom/", "rel/p", "", " ", " /sp ", "/a/../b", "//x"})})
				} else {
					c.Opts[len(c.Opts)-1] = Opt{K: "endpointurl", S: "http://{A}"}
				}
			}
		} else {
			switch r.Intn(5) {
			case 0, 1:
				c.Opts = append(c.Opts, Opt{K: "endpoint", S: "{A}"})
			case 2, 3:
				c.Opts = append(c.Opts, Opt{K: "endpointurl", S: "http://{A}"})
			default: // a connection the user dialled: wins over every endpoint source
				c.Opts = append(c.Opts, Opt{K: "grpcconn", S: "{A}"})
			}
		}
		if focus == "endpoint" && r.Chance(1, 10) { // TLS towards a plain-text collector: nobody gets it
			for i, o := range c.Opts {
				if o.K == "endpointurl" {
					c.Opts[i].S = strings.Replace(o.S, "http://", "https://", 1)
				}
			}
		}
	case stInvalid:
		c.Opts = append(c.Opts, Opt{K: "endpointurl", S: pickBadURL(r, "A", site("endpoint", "opt"))})
	case stAbsent:
		if http && r.Chance(1, 6) {
			c.Opts = append(c.Opts, Opt{K: "urlpath", S: "/only/path"})
		}
	}
	switch s[1] {
	case stValid:
		p := ""
		if http {
			p = vgen.Pick(r, specPathsTidy)
			if r.Chance(1, 4) {
				p = vgen.Pick(r, specPathsUntidy)
			}
		} else if r.Chance(1, 4) {
			p = vgen.Pick(r, []string{"/", "/", "/x", "/v1/traces"}) // a path in a gRPC endpoint URL: F-C20-8
		}
		sch := "http://"
		if focus == "endpoint" && r.Chance(1, 8) {
			sch = vgen.Pick(r, []string{"https://", "HTTPS://"})
		}
		c.Env[specEp] = pad(sch + "{B}" + p)
	case stInvalid:
		c.Env[specEp] = pickBadURL(r, "B", site("endpoint", "spec"))
	}
	switch s[2] {
	case stValid:
		p := ""
		if http {
			p = vgen.Pick(r, genPaths)
			if r.Chance(1, 6) { // a base path that already ends in a signal path: the signal path is appended all the same
				p = vgen.Pick(r, []string{"", "/tenant", "/v1"}) + vgen.Pick(r, []string{"/v1/" + map[string]string{"trace": "traces", "metric": "metrics", "log": "logs"}[fam], "/v1/logs", "/v1/traces", "/v1/metrics"}) + vgen.Pick(r, []string{"", "", "/"})
			}
		} else if r.Chance(1, 4) {
			p = vgen.Pick(r, []string{"/", "/", "/x", "/a/b"})
		}
		sch := "http://"
		if focus == "endpoint" && r.Chance(1, 8) {
			sch = "https://"
		}
		c.Env[genEp] = pad(sch + "{C}" + p)
	case stInvalid:
		c.Env[genEp] = pickBadURL(r, "C", site("endpoint", "gen"))
	}

	// headers
	s = st("headers")
	switch s[0] {
	case stValid:
		c.Opts = append(c.Opts, Opt{K: "headers", M: map[string]string{"x-c20-o": "opt", "x-c20-k": "o"}})
	case stInvalid: // the explicit empty map
		c.Opts = append(c.Opts, Opt{K: "headers", M: map[string]string{}})
	}
	switch s[1] {
	case stValid:
		c.Env[specHdr] = pad(vgen.Pick(r, specHdrValid))
	case stInvalid:
		c.Env[specHdr] = strings.ReplaceAll(inv("headers", "spec", hdrInvalid), "Z", "s")
	}
	switch s[2] {
	case stValid:
		c.Env[genHdr] = pad(strings.ReplaceAll(strings.ReplaceAll(vgen.Pick(r, specHdrValid), "c20-s", "c20-g"), "spec", "gen"))
	case stInvalid:
		c.Env[genHdr] = strings.ReplaceAll(inv("headers", "gen", hdrInvalid), "Z", "g")
	}

	// compression: in focus, the valid sources alternate gzip / none down the precedence chain
	// (starting with gzip in even repetitions), so that the winner is always identifiable
	s = st("compression")
	cur := rep%2 == 0
	next := func() bool { v := cur; cur = !cur; return v }
	switch s[0] {
	case stValid:
		g := true
		if focus == "compression" {
			g = next()
		}
		if http {
			c.Opts = append(c.Opts, Opt{K: "compression", B: g})
		} else if g {
			c.Opts = append(c.Opts, Opt{K: "compressor", S: "gzip"})
		} else {
			c.Opts = append(c.Opts, Opt{K: "compressor", S: "none"})
		}
	case stInvalid: // explicit "no compression" / an unknown compressor name
		if http {
			c.Opts = append(c.Opts, Opt{K: "compression", B: false})
		} else {
			c.Opts = append(c.Opts, Opt{K: "compressor", S: vgen.Pick(r, []string{"zstd", "none", "snappy"})})
		}
	}
	compValid := func() string {
		if focus == "compression" {
			if next() {
				return "gzip"
			}
			return "none"
		}
		if r.Intn(5) < 3 {
			return "gzip"
		}
		return "none"
	}
	switch s[1] {
	case stValid:
		c.Env[specComp] = pad(compValid())
	case stInvalid:
		c.Env[specComp] = inv("compression", "spec", compInvalid)
	}
	switch s[2] {
	case stValid:
		c.Env[genComp] = pad(compValid())
	case stInvalid:
		c.Env[genComp] = inv("compression", "gen", compInvalid)
	}

	// timeout
	s = st("timeout")
	ms := [3]int64{7000, 5000, 3000}
	if http && focus == "timeout" {
		// one-bit observation (the collector answers after 600 ms): exactly one valid source
		// carries the short timeout, the caller iterates over which one
		c.Slow = true
		if short >= 0 {
			ms[short] = 150
		}
	}
	switch s[0] {
	case stValid:
		c.Opts = append(c.Opts, Opt{K: "timeout", D: ms[0] * 1e6})
	case stInvalid: // zero / negative: no timeout
		c.Opts = append(c.Opts, Opt{K: "timeout", D: vgen.Pick(r, []int64{0, -5e9})})
	}
	tmoValid := func(v int64) string {
		if v == 150 {
			return "150"
		}
		switch r.Intn(12) {
		case 0:
			return vgen.Pick(r, []string{"0", "-5"}) // documented by the code: no timeout
		case 1:
			return "+" + strconv.FormatInt(v, 10)
		}
		return strconv.FormatInt(v, 10)
	}
	switch s[1] {
	case stValid:
		c.Env[specTmo] = pad(tmoValid(ms[1]))
	case stInvalid:
		c.Env[specTmo] = inv("timeout", "spec", tmoInvalid)
	}
	switch s[2] {
	case stValid:
		c.Env[genTmo] = pad(tmoValid(ms[2]))
	case stInvalid:
		c.Env[genTmo] = inv("timeout", "gen", tmoInvalid)
	}
	// sometimes: an earlier option of the same kind that the later one must override, and the
	// user's options in a random order (whatever comes last of a kind wins)
	if r.Chance(1, 5) {
		var decoys []Opt
		for _, o := range c.Opts {
			switch o.K {
			case "timeout":
				decoys = append(decoys, Opt{K: "timeout", D: 15e9})
			case "headers":
				decoys = append(decoys, Opt{K: "headers", M: map[string]string{"x-c20-d": "decoy"}})
			case "compression":
				decoys = append(decoys, Opt{K: "compression", B: !o.B})
			case "compressor":
				decoys = append(decoys, Opt{K: "compressor", S: map[bool]string{true: "none", false: "gzip"}[o.S == "gzip"]})
			case "endpoint":
				decoys = append(decoys, Opt{K: "endpoint", S: "{C}"})
			case "endpointurl":
				decoys = append(decoys, Opt{K: "endpointurl", S: "http://{C}/decoy"})
			case "urlpath":
				decoys = append(decoys, Opt{K: "urlpath", S: "/decoy/path"})
			}
		}
		c.Opts = append(decoys, c.Opts...)
		c.Note += " +overridden-options"
	}
	// transport security: WithInsecure is needed only when no source names an http:// scheme;
	// otherwise it is passed half of the time (the scheme of the deciding endpoint source must
	// then do the job).  Rarely the ..._INSECURE variables are set (judged against the model only).
	plainEnv := strings.HasPrefix(strings.TrimSpace(c.Env[specEp]), "http://") || strings.HasPrefix(strings.TrimSpace(c.Env[genEp]), "http://")
	if !plainEnv || r.Bool() {
		c.Opts = append([]Opt{{K: "insecure"}}, c.Opts...)
	} else {
		c.Note += " +no-WithInsecure"
	}
	if r.Chance(1, 15) {
		c.Env[genInsec] = vgen.Pick(r, []string{"true", "false", "TRUE", "1", "abc"})
		if r.Bool() {
			c.Env[specInsec] = vgen.Pick(r, []string{"true", "false", "False", "yes"})
		}
		c.Note += " +INSECURE-variables"
	}
	if r.Chance(1, 8) { // variables that are SET TO THE EMPTY STRING: they provide nothing
		n := 0
		for i := 0; i < 8; i++ {
			if c.Env[i] == "" && r.Bool() {
				c.Empty[i] = true
				n++
			}
		}
		if n > 0 {
			c.Note += " +set-but-empty-variables"
		}
	}
	if !c.Slow && focus != "endpoint" && r.Chance(1, 4) {
		c.Retry = true // the exporter's default retry policy stays on
	}
	if r.Chance(1, 6) {
		rest := c.Opts
		for i := len(rest) - 1; i > 0; i-- {
			j := r.Intn(i + 1)
			rest[i], rest[j] = rest[j], rest[i]
		}
		c.Note += " +shuffled-options"
	}
	return c
}

func corpusExp() []*expCase {
	ins := Opt{K: "insecure"}
	var out []*expCase
	n := 0
	add := func(fam, proto, note string, env map[int]string, opts ...Opt) {
		c := &expCase{Fam: fam, Proto: proto, Note: "corpus: " + note, Opts: append([]Opt{ins}, opts...)}
		for i, v := range env {
			c.Env[i] = v
		}
		// every other entry whose environment names an http:// endpoint runs without WithInsecure:
		// the scheme of the deciding variable must switch TLS off
		if strings.HasPrefix(c.Env[specEp], "http://") || strings.HasPrefix(c.Env[genEp], "http://") {
			if n++; n%2 == 0 {
				c.Opts = c.Opts[1:]
				c.Note += " (no WithInsecure)"
			}
		}
		out = append(out, c)
	}
	for _, fam := range fams {
		// F-C20-2 shapes and their uniform counterparts
		add(fam, "http", "generic endpoint with trailing slash", map[int]string{genEp: "http://{C}/"})
		add(fam, "http", "generic endpoint /pre/", map[int]string{genEp: "http://{C}/pre/"})
		add(fam, "http", "generic endpoint /pre", map[int]string{genEp: "http://{C}/pre"})
		for _, sp := range []string{"/v1/logs", "/v1/traces", "/v1/metrics"} {
			add(fam, "http", "generic endpoint whose path already is "+sp, map[int]string{genEp: "http://{C}" + sp})
			add(fam, "http", "generic endpoint whose path already is "+sp+"/", map[int]string{genEp: "http://{C}" + sp + "/"})
			add(fam, "http", "generic endpoint /tenant"+sp, map[int]string{genEp: "http://{C}/tenant" + sp})
		}
		// F-C20-3 shapes
		add(fam, "http", "specific endpoint /custom/", map[int]string{specEp: "http://{B}/custom/"})
		add(fam, "http", "specific endpoint /a//b/../c", map[int]string{specEp: "http://{B}/a//b/../c"})
		add(fam, "http", "specific endpoint without path", map[int]string{specEp: "http://{B}", genEp: "http://{C}/pre"})
		add(fam, "http", "path option equal to the default over a specific endpoint path", map[int]string{specEp: "http://{B}/custom"}, Opt{K: "urlpath", S: map[string]string{"trace": "/v1/traces", "metric": "/v1/metrics", "log": "/v1/logs"}[fam]})
		add(fam, "http", "specific endpoint path equal to the default path over a generic endpoint with a path", map[int]string{specEp: "http://{B}" + map[string]string{"trace": "/v1/traces", "metric": "/v1/metrics", "log": "/v1/logs"}[fam], genEp: "http://{C}/pre"})
		for _, proto := range protos {
			// F-C20-4 / F-C20-5 shapes
			add(fam, proto, "unknown specific compression over generic gzip", map[int]string{genEp: "http://{C}", specComp: "zstd", genComp: "gzip"})
			add(fam, proto, "malformed specific headers over generic headers", map[int]string{genEp: "http://{C}", specHdr: "garbage", genHdr: "x-c20-g=gen"})
			add(fam, proto, "partly malformed specific headers", map[int]string{genEp: "http://{C}", specHdr: "x-c20-s=spec,garbage", genHdr: "x-c20-g=gen"})
			add(fam, proto, "partly malformed generic headers only", map[int]string{genEp: "http://{C}", genHdr: "x-c20-g=gen,garbage"})
			// nothing configured at all: the default endpoint (nobody listens there)
			add(fam, proto, "all defaults", nil)
			add(fam, proto, "all three endpoint sources", map[int]string{specEp: "http://{B}", genEp: "http://{C}"}, Opt{K: "endpoint", S: "{A}"})
			add(fam, proto, "invalid specific endpoint falls back to generic", map[int]string{specEp: "http://a b/", genEp: "http://{C}"})
			add(fam, proto, "option timeout over both variables", map[int]string{genEp: "http://{C}", specTmo: "5000", genTmo: "3000"}, Opt{K: "timeout", D: 7e9})
			add(fam, proto, "invalid specific timeout, generic valid", map[int]string{genEp: "http://{C}", specTmo: "abc", genTmo: "3000"})
			add(fam, proto, "timeout whose nanoseconds overflow int64", map[int]string{genEp: "http://{C}", genTmo: "9223372036854775807"})
			add(fam, proto, "specific timeout overflowing over a valid generic one", map[int]string{genEp: "http://{C}", specTmo: "9223372036854775", genTmo: "3000"})
			add(fam, proto, "specific timeout equal to the default over a generic one", map[int]string{genEp: "http://{C}", specTmo: "10000", genTmo: "3000"})
			dh := "localhost:4318"
			if proto == "grpc" {
				dh = "localhost:4317"
			}
			add(fam, proto, "specific endpoint equal to the default over a generic one", map[int]string{specEp: "http://" + dh, genEp: "http://{C}"})
			add(fam, proto, "endpoint option equal to the default over both variables", map[int]string{specEp: "http://{B}", genEp: "http://{C}"}, Opt{K: "endpoint", S: dh})
			add(fam, proto, "timeout option equal to the default over the variables", map[int]string{genEp: "http://{C}", specTmo: "5000", genTmo: "3000"}, Opt{K: "timeout", D: 10e9})
			add(fam, proto, "padded generic timeout over nothing", map[int]string{genEp: "http://{C}", genTmo: " 3000 "})
			add(fam, proto, "padded specific compression over generic none", map[int]string{genEp: "http://{C}", specComp: " gzip", genComp: "none"})
			add(fam, proto, "padded specific endpoint over a generic one", map[int]string{specEp: "\thttp://{B}", genEp: "http://{C}"})
			for _, ec := range []struct {
				note  string
				env   map[int]string
				empty []int
			}{
				{"empty specific endpoint over a valid generic one", map[int]string{genEp: "http://{C}"}, []int{specEp}},
				{"empty generic endpoint under a valid specific one", map[int]string{specEp: "http://{B}"}, []int{genEp}},
				{"empty specific compression over generic gzip", map[int]string{genEp: "http://{C}", genComp: "gzip"}, []int{specComp}},
				{"empty generic compression under specific gzip", map[int]string{genEp: "http://{C}", specComp: "gzip"}, []int{genComp}},
				{"empty specific headers over generic headers", map[int]string{genEp: "http://{C}", genHdr: "x-c20-g=gen"}, []int{specHdr}},
				{"empty specific timeout over a generic one", map[int]string{genEp: "http://{C}", genTmo: "3000"}, []int{specTmo}},
				{"every variable set to the empty string", map[int]string{}, []int{genEp, specEp, genHdr, specHdr, genComp, specComp, genTmo, specTmo}},
				{"every specific variable empty, every generic one valid", map[int]string{genEp: "http://{C}", genHdr: "x-c20-g=gen", genComp: "gzip", genTmo: "3000"}, []int{specEp, specHdr, specComp, specTmo}},
			} {
				add(fam, proto, ec.note, ec.env)
				for _, i := range ec.empty {
					out[len(out)-1].Empty[i] = true
				}
			}
			add(fam, proto, "upper-case scheme", map[int]string{specEp: "HTTP://{B}", genEp: "http://{C}"})
			// transport security follows the deciding endpoint source (plain-text collectors: TLS reaches nobody)
			out = append(out,
				&expCase{Fam: fam, Proto: proto, Note: "corpus: https specific endpoint over http generic, no WithInsecure: TLS, nobody", Env: [10]string{genEp: "http://{C}", specEp: "https://{B}"}},
				&expCase{Fam: fam, Proto: proto, Note: "corpus: http specific endpoint over https generic, no WithInsecure", Env: [10]string{genEp: "https://{C}", specEp: "http://{B}"}},
				&expCase{Fam: fam, Proto: proto, Note: "corpus: https generic endpoint with WithInsecure: the option wins", Env: [10]string{genEp: "https://{C}"}, Opts: []Opt{ins}},
				&expCase{Fam: fam, Proto: proto, Note: "corpus: WithEndpoint without WithInsecure over an http generic endpoint", Env: [10]string{genEp: "http://{C}"}, Opts: []Opt{{K: "endpoint", S: "{A}"}}},
				&expCase{Fam: fam, Proto: proto, Note: "corpus: WithEndpoint alone: TLS by default, nobody", Opts: []Opt{{K: "endpoint", S: "{A}"}}},
				&expCase{Fam: fam, Proto: proto, Note: "corpus: WithEndpointURL(https) after WithInsecure: TLS, nobody", Opts: []Opt{ins, {K: "endpointurl", S: "https://{A}/u"}}},
				&expCase{Fam: fam, Proto: proto, Note: "corpus: WithInsecure after WithEndpointURL(https)", Opts: []Opt{{K: "endpointurl", S: "https://{A}/u"}, ins}},
				&expCase{Fam: fam, Proto: proto, Note: "corpus: WithEndpointURL(http) alone over an https specific endpoint", Env: [10]string{specEp: "https://{B}"}, Opts: []Opt{{K: "endpointurl", S: "http://{A}/u"}}},
				&expCase{Fam: fam, Proto: proto, Note: "corpus: INSECURE=true with an https endpoint (model only)", Env: [10]string{genEp: "https://{C}", genInsec: "true"}},
				&expCase{Fam: fam, Proto: proto, Note: "corpus: <SIGNAL>_INSECURE=false with an http endpoint (model only)", Env: [10]string{genEp: "http://{C}", specInsec: "false"}},
			)
			if proto == "grpc" {
				out = append(out,
					&expCase{Fam: fam, Proto: proto, Note: "corpus: generic endpoint URL with a path over gRPC", Env: [10]string{genEp: "http://{C}/x"}, Opts: []Opt{ins}},
					&expCase{Fam: fam, Proto: proto, Note: "corpus: specific endpoint URL with a path over gRPC, generic plain", Env: [10]string{specEp: "http://{B}/v1/traces", genEp: "http://{C}"}},
					&expCase{Fam: fam, Proto: proto, Note: "corpus: WithEndpoint over a generic endpoint URL with a path", Env: [10]string{genEp: "http://{C}/x"}, Opts: []Opt{{K: "endpoint", S: "{A}"}}},
					&expCase{Fam: fam, Proto: proto, Note: "corpus: WithGRPCConn over both endpoint variables, gzip configured", Env: [10]string{genEp: "http://{C}", specEp: "http://{B}", genComp: "gzip", genHdr: "x-c20-g=gen", genTmo: "3000"}, Opts: []Opt{{K: "grpcconn", S: "{A}"}}},
					&expCase{Fam: fam, Proto: proto, Note: "corpus: WithGRPCConn and WithEndpoint, WithCompressor(gzip)", Opts: []Opt{{K: "grpcconn", S: "{A}"}, {K: "endpoint", S: "{B}"}, {K: "compressor", S: "gzip"}, ins}},
				)
			}
			add(fam, proto, "specific 'none' over generic gzip", map[int]string{genEp: "http://{C}", specComp: "none", genComp: "gzip"})
			add(fam, proto, "specific gzip over generic 'none'", map[int]string{genEp: "http://{C}", specComp: "gzip", genComp: "none"})
		}
	}
	return out
}

// shapeCases: every shape of an invalid value, once in the signal-specific variable over a valid
// generic one and once alone in the generic variable (no option), for every setting.
func shapeCases(fam, proto string) []*expCase {
	var out []*expCase
	http := proto == "http"
	add := func(note string, slow bool, env map[int]string) {
		c := &expCase{Fam: fam, Proto: proto, Note: "invalid shape: " + note, Opts: []Opt{{K: "insecure"}}, Slow: slow}
		for i, v := range env {
			c.Env[i] = v
		}
		out = append(out, c)
	}
	for _, u := range badURLs {
		add("specific endpoint "+u, false, map[int]string{specEp: strings.ReplaceAll(u, "{X}", "{B}"), genEp: "http://{C}"})
	}
	for _, h := range hdrInvalid {
		add("specific headers "+h, false, map[int]string{genEp: "http://{C}", specHdr: strings.ReplaceAll(h, "Z", "s"), genHdr: "x-c20-g=gen,x-c20-k=g"})
		add("generic headers "+h, false, map[int]string{genEp: "http://{C}", genHdr: strings.ReplaceAll(h, "Z", "g")})
	}
	for _, v := range compInvalid {
		add("specific compression "+v, false, map[int]string{genEp: "http://{C}", specComp: v, genComp: "gzip"})
		add("generic compression "+v, false, map[int]string{genEp: "http://{C}", genComp: v})
	}
	for _, v := range tmoInvalid {
		short := "3000"
		if http {
			short = "150"
		}
		add("specific timeout "+v, http, map[int]string{genEp: "http://{C}", specTmo: v, genTmo: short})
		add("generic timeout "+v, http, map[int]string{genEp: "http://{C}", genTmo: v})
	}
	return out
}

// ---- SDK cases ----

func optZ(m map[string]int64, k string) string {
	if v, ok := m[k]; ok {
		return vgen.Some(vgen.Z(v))
	}
	return vgen.None
}

func optS(m map[string]string, k string) string {
	if v, ok := m[k]; ok {
		return vgen.Some(vgen.HxS(v))
	}
	return vgen.None
}

var envInts = []string{"", "", "-1", "0", "1", "5", "16", "64", "512", "2048", "abc", "99999999999999999999", "-9223372036854775808", "+7", "007", " 5", "3.5", "4096"}
var optInts = []int64{-1, 0, 1, 5, 16, 64, 512, 2048, 3000, -9223372036854775808}

func setIf(m map[string]string, k, v string) {
	if v != "" {
		m[k] = v
	}
}

func genBSP(r *vgen.Rand) (sc Scenario) {
	sc = Scenario{Kind: "bsp", N: 40, Env: map[string]string{}, IntOpts: map[string]int64{}}
	defer func() {
		switch r.Intn(8) {
		case 0, 1: // through TracerProvider + WithBatcher, real spans
			sc.Via = "provider"
		case 2: // dropping (non-blocking) enqueue: only when the queue certainly holds all spans
			q, hasOpt := sc.IntOpts["queue"]
			eq := sc.Env["OTEL_BSP_MAX_QUEUE_SIZE"]
			if (!hasOpt || q >= 64) && (eq == "" || eq == "64" || eq == "512" || eq == "2048" || eq == "4096") {
				if _, d := sc.Env["OTEL_BSP_SCHEDULE_DELAY"]; !d {
					sc.Via = "nonblocking"
				}
			}
		case 3:
			sc.Via = "nilexporter"
		}
	}()
	setIf(sc.Env, "OTEL_BSP_MAX_QUEUE_SIZE", vgen.Pick(r, envInts))
	setIf(sc.Env, "OTEL_BSP_MAX_EXPORT_BATCH_SIZE", vgen.Pick(r, envInts))
	if r.Chance(1, 8) { // the boundary of the clamp
		sc.Env["OTEL_BSP_MAX_EXPORT_BATCH_SIZE"] = sc.Env["OTEL_BSP_MAX_QUEUE_SIZE"]
		if sc.Env["OTEL_BSP_MAX_EXPORT_BATCH_SIZE"] == "" {
			delete(sc.Env, "OTEL_BSP_MAX_EXPORT_BATCH_SIZE")
		}
	}
	if r.Chance(2, 5) {
		sc.IntOpts["queue"] = vgen.Pick(r, optInts)
	}
	if r.Chance(2, 5) {
		sc.IntOpts["batch"] = vgen.Pick(r, optInts)
	}
	if r.Chance(1, 3) { // the export timeout on its own (does not disturb how batches are cut)
		if r.Bool() {
			setIf(sc.Env, "OTEL_BSP_EXPORT_TIMEOUT", vgen.Pick(r, bspExportVals))
		}
		if r.Bool() {
			sc.IntOpts["export"] = vgen.Pick(r, exportOptVals)
		}
	}
	if r.Chance(1, 6) {
		setIf(sc.Env, "OTEL_BSP_SCHEDULE_DELAY", vgen.Pick(r, bspDelayVals))
		setIf(sc.Env, "OTEL_BSP_EXPORT_TIMEOUT", vgen.Pick(r, bspExportVals))
		if r.Chance(1, 3) {
			sc.IntOpts["delay"] = vgen.Pick(r, []int64{-1e9, 0, 1e6, 3600e9})
		}
		if r.Chance(1, 3) {
			sc.IntOpts["export"] = vgen.Pick(r, exportOptVals)
		}
	}
	return sc
}

// deadlineTerm: (Some None) no deadline, (Some (Some ms)) milliseconds remaining at the first
// non-empty export, None when no such export was seen.
func deadlineTerm(res *Result) string {
	if res.Deadline == nil {
		return vgen.None
	}
	if !res.Deadline.Set {
		return "(Some None)"
	}
	return vgen.Some(vgen.Some(vgen.Z(res.Deadline.RemainMs)))
}

func bspTerm(sc *Scenario, res *Result) (string, bool) {
	in := vgen.App("Build_bsp_in", vgen.HxS(sc.Env["OTEL_BSP_MAX_QUEUE_SIZE"]), vgen.HxS(sc.Env["OTEL_BSP_MAX_EXPORT_BATCH_SIZE"]),
		vgen.HxS(sc.Env["OTEL_BSP_SCHEDULE_DELAY"]), vgen.HxS(sc.Env["OTEL_BSP_EXPORT_TIMEOUT"]),
		optZ(sc.IntOpts, "queue"), optZ(sc.IntOpts, "batch"), optZ(sc.IntOpts, "delay"), optZ(sc.IntOpts, "export"))
	cfg := vgen.None
	if res.BSP != nil {
		cfg = vgen.Some("(" + strings.Join([]string{vgen.Z(res.BSP.Queue), vgen.Z(res.BSP.Batch), vgen.Z(res.BSP.DelayNs), vgen.Z(res.BSP.ExportNs)}, ", ") + ")")
	}
	_, d1 := sc.Env["OTEL_BSP_SCHEDULE_DELAY"]
	_, d2 := sc.IntOpts["delay"]
	beh := vgen.None
	if !d1 && !d2 && sc.Via != "nilexporter" { // the batch timer stays at its 5 s default: batches are cut by size only
		beh = vgen.Some(vgen.Pair(vgen.Z(int64(res.MaxBatch)), vgen.Z(int64(res.Total))))
	}
	exported, dl := vgen.None, vgen.None
	if sc.Via != "nilexporter" {
		exported = vgen.Some(vgen.Z(int64(res.Total)))
		dl = deadlineTerm(res)
	}
	return vgen.App("CBsp", in, cfg, vgen.Z(int64(sc.N)), beh, exported, dl), res.BSP != nil && (res.BSP.Queue != 2048 || res.BSP.Batch != 512)
}

// durations from the environment: out-of-range, the defaults themselves, and values whose
// millisecond -> nanosecond conversion overflows int64
var bspDelayVals = []string{"-1", "0", "abc", "1", "5000", "100000", "99999999999999999999", "9223372036854775807", "9223372036854775"}
var bspExportVals = []string{"", "-1", "0", "abc", "4000", "30000", "-30000", "99999999999999999999", "9223372036854775807", "9223372036854775"}
var blrpDelayVals = []string{"-1", "0", "abc", "1", "1000", "99999999999999999999", "9223372036854775807", "9223372036854775"}
var blrpExportVals = []string{"", "-1", "0", "abc", "4000", "30000", "-30000", "99999999999999999999", "9223372036854775807", "9223372036854775"}

// WithExportTimeout values: negative, zero, the smallest negative, ordinary, the default, an hour
var exportOptVals = []int64{-1e9, 0, -1, -9223372036854775808, 7e9, 30e9, 3600e9}

var blrpEnvInts = []string{"", "", "-1", "0", "1", "5", "16", "30", "64", "512", "2048", "007", "abc", "99999999999999999999", "+7", " 5", "10000"}
var blrpOptInts = []int64{-1, 0, 1, 5, 16, 30, 64, 512, 2048, 4096, -9223372036854775808}

func genBLRP(r *vgen.Rand) (Scenario, bool) {
	sc := Scenario{Kind: "blrp", N: 40, Env: map[string]string{}, IntOpts: map[string]int64{}}
	setIf(sc.Env, "OTEL_BLRP_MAX_QUEUE_SIZE", vgen.Pick(r, blrpEnvInts))
	setIf(sc.Env, "OTEL_BLRP_MAX_EXPORT_BATCH_SIZE", vgen.Pick(r, blrpEnvInts))
	if r.Chance(2, 5) {
		sc.IntOpts["queue"] = vgen.Pick(r, blrpOptInts)
	}
	if r.Chance(2, 5) {
		sc.IntOpts["batch"] = vgen.Pick(r, blrpOptInts)
	}
	observed := true
	if r.Chance(1, 3) { // the export timeout on its own
		if r.Bool() {
			setIf(sc.Env, "OTEL_BLRP_EXPORT_TIMEOUT", vgen.Pick(r, blrpExportVals))
		}
		if r.Bool() {
			sc.IntOpts["export"] = vgen.Pick(r, exportOptVals)
		}
	}
	if r.Chance(1, 6) { // out-of-range interval / buffer settings: exports may also be cut by the timer
		observed = false
		setIf(sc.Env, "OTEL_BLRP_SCHEDULE_DELAY", vgen.Pick(r, blrpDelayVals))
		setIf(sc.Env, "OTEL_BLRP_EXPORT_TIMEOUT", vgen.Pick(r, blrpExportVals))
		if r.Chance(1, 2) {
			sc.IntOpts["interval"] = vgen.Pick(r, []int64{-1e9, 0, 1, 1e6})
		}
		if r.Chance(1, 2) {
			sc.IntOpts["export"] = vgen.Pick(r, exportOptVals)
		}
		if r.Chance(1, 2) {
			sc.IntOpts["buffer"] = vgen.Pick(r, []int64{-1, 0, 3})
		}
	} else {
		switch r.Intn(6) {
		case 0:
			sc.Via = "provider"
		}
		sc.IntOpts["interval"] = 3600e9
		_, o := sc.IntOpts["batch"]
		sc.Probe = o || sc.Env["OTEL_BLRP_MAX_EXPORT_BATCH_SIZE"] != ""
	}
	return sc, observed
}

func blrpTerm(sc *Scenario, res *Result, odd bool) string {
	in := vgen.App("Build_blrp_in", vgen.HxS(sc.Env["OTEL_BLRP_MAX_QUEUE_SIZE"]), vgen.HxS(sc.Env["OTEL_BLRP_MAX_EXPORT_BATCH_SIZE"]),
		optZ(sc.IntOpts, "queue"), optZ(sc.IntOpts, "batch"), vgen.HxS(sc.Env["OTEL_BLRP_EXPORT_TIMEOUT"]), optZ(sc.IntOpts, "export"))
	trig := vgen.None
	if sc.Probe {
		trig = vgen.Some(vgen.Bool(res.Triggered))
	}
	return vgen.App("CBlrp", in, vgen.Z(int64(sc.N)), vgen.Z(int64(res.MaxBatch)), vgen.Z(int64(res.Total)), trig, vgen.Bool(odd), deadlineTerm(res))
}

var limitEnvNames = []string{"OTEL_SPAN_ATTRIBUTE_VALUE_LENGTH_LIMIT", "OTEL_ATTRIBUTE_VALUE_LENGTH_LIMIT", "OTEL_SPAN_ATTRIBUTE_COUNT_LIMIT", "OTEL_ATTRIBUTE_COUNT_LIMIT",
	"OTEL_SPAN_EVENT_COUNT_LIMIT", "OTEL_SPAN_LINK_COUNT_LIMIT", "OTEL_EVENT_ATTRIBUTE_COUNT_LIMIT", "OTEL_LINK_ATTRIBUTE_COUNT_LIMIT"}
var limitEnvVals = []string{"", "", "", "-1", "0", "3", "50", "128", "200", "abc", "99999999999999999999", "+7", " 5", "-7"}
var limitOptVals = []int64{-1, 0, 3, 50, 200, -7, 128}

func genLimits(r *vgen.Rand) Scenario {
	sc := Scenario{Kind: "limits", Env: map[string]string{}}
	for _, n := range limitEnvNames {
		setIf(sc.Env, n, vgen.Pick(r, limitEnvVals))
	}
	for k := r.Intn(4); k > 1; k-- { // 0, 0, 1 or 2 options
		lo := LimitsOpt{Kind: vgen.Pick(r, []string{"raw", "legacy"})}
		for i := 0; i < 6; i++ {
			lo.L = append(lo.L, vgen.Pick(r, limitOptVals))
		}
		sc.LimitsOpts = append(sc.LimitsOpts, lo)
	}
	return sc
}

func zs(l []int64) []string {
	var out []string
	for _, v := range l {
		out = append(out, vgen.Z(v))
	}
	return out
}

func limitsTerm(sc *Scenario, res *Result) string {
	var opts []string
	for _, lo := range sc.LimitsOpts {
		k := "LRaw"
		if lo.Kind == "legacy" {
			k = "LLegacy"
		}
		opts = append(opts, vgen.App(k, vgen.App("Build_limits", zs(lo.L)...)))
	}
	var ev []string
	for _, n := range limitEnvNames {
		ev = append(ev, vgen.HxS(sc.Env[n]))
	}
	return vgen.App("CLimits", vgen.List(opts), vgen.App("Build_limits_env", ev...), vgen.List(zs(res.Limits)))
}

func genLogLimits(r *vgen.Rand) Scenario {
	sc := Scenario{Kind: "loglimits", Env: map[string]string{}, IntOpts: map[string]int64{}}
	// a count limit of 0 is left out: its meaning is the subject of a C17 finding
	setIf(sc.Env, "OTEL_LOGRECORD_ATTRIBUTE_COUNT_LIMIT", vgen.Pick(r, []string{"", "", "-1", "3", "50", "128", "200", "abc", "99999999999999999999", "+7", " 5"}))
	setIf(sc.Env, "OTEL_LOGRECORD_ATTRIBUTE_VALUE_LENGTH_LIMIT", vgen.Pick(r, limitEnvVals))
	if r.Chance(2, 5) {
		sc.IntOpts["count"] = vgen.Pick(r, []int64{-1, 3, 50, 128, 200, -7})
	}
	if r.Chance(2, 5) {
		sc.IntOpts["length"] = vgen.Pick(r, limitOptVals)
	}
	return sc
}

func logLimitsTerm(sc *Scenario, res *Result) string {
	return vgen.App("CLogLimits", optZ(sc.IntOpts, "count"), optZ(sc.IntOpts, "length"),
		vgen.HxS(sc.Env["OTEL_LOGRECORD_ATTRIBUTE_COUNT_LIMIT"]), vgen.HxS(sc.Env["OTEL_LOGRECORD_ATTRIBUTE_VALUE_LENGTH_LIMIT"]), vgen.List(zs(res.Limits)))
}

var ratioNames = []string{"traceidratio", "parentbased_traceidratio", " traceidratio ", "ParentBased_TraceIDRatio"}
var otherNames = []string{"always_on", "always_off", "parentbased_always_on", "parentbased_always_off", "ALWAYS_OFF", "always_on ", "", "foo", "jaeger_remote", "\tparentbased_always_off"}
var ratioArgs = []string{"0.25", "0.5", "0.75", "1", "0", "1.0", "0.1", ".5", "+0.5", " 0.25 ", "0.0625", "0.9", "5.", "1.5", "-0.1", "abc", "", "2", "-1", "-0", ".", "0,5"}

func samplerScenarios(r *vgen.Rand) []Scenario {
	var out []Scenario
	mk := func(name, arg *string, opt string) {
		sc := Scenario{Kind: "sampler", Env: map[string]string{}, SamplerOpt: opt}
		if name != nil {
			sc.Env["OTEL_TRACES_SAMPLER"] = *name
		}
		if arg != nil {
			sc.Env["OTEL_TRACES_SAMPLER_ARG"] = *arg
		}
		out = append(out, sc)
	}
	for _, n := range ratioNames {
		n := n
		mk(&n, nil, "")
		for _, a := range ratioArgs {
			a := a
			mk(&n, &a, "")
		}
	}
	for _, n := range otherNames {
		n := n
		mk(&n, nil, "")
		for _, a := range []string{"0.5", "abc"} {
			a := a
			mk(&n, &a, "")
		}
	}
	half := "0.5"
	mk(nil, nil, "")
	mk(nil, &half, "")
	for _, o := range []string{"never", "always", "ratio25", "nil"} {
		n := vgen.Pick(r, append(append([]string{}, ratioNames...), otherNames...))
		a := vgen.Pick(r, ratioArgs)
		mk(&n, &a, o)
		mk(nil, nil, o)
	}
	return out
}

func samplerTerm(sc *Scenario, res *Result) string {
	o := vgen.None
	switch sc.SamplerOpt {
	case "never":
		o = "(Some OptNever)"
	case "always":
		o = "(Some OptAlways)"
	case "ratio25":
		o = "(Some (OptRatio 1%Z 4%Z))"
	}
	var d []string
	for _, b := range res.Decisions {
		d = append(d, vgen.Bool(b))
	}
	return vgen.App("CSampler", o, optS(sc.Env, "OTEL_TRACES_SAMPLER"), optS(sc.Env, "OTEL_TRACES_SAMPLER_ARG"), vgen.List(d))
}

// ---- main ----

func main() {
	child := flag.Bool("child", false, "run one scenario read from stdin (internal)")
	only := flag.String("only", "", "comma separated scenario kinds to run (exp,sdk); default all")
	if len(os.Args) > 1 && os.Args[1] == "-child" {
		childMain()
		return
	}
	o := vgen.ParseFlags()
	_ = child
	r := vgen.NewRand(o.Seed)
	w := vgen.NewWriter(o.Out, "C20.Vocab C20.Model C20.Spec C20.Corr", "case", 96)
	w.Rule = "exporters: for each of the six OTLP exporters and each setting (endpoint+path, headers, compression, timeout) the full {absent,valid,invalid}^3 " +
		"cross product of (option, signal-specific variable, generic variable), the other settings on a random mostly-absent baseline, one child process per case exporting one item " +
		"to three in-process collectors; SDK: random and boundary values (negative, zero, huge, non-numeric) for OTEL_BSP_*, OTEL_BLRP_*, span/log-record limits, the sampler table; " +
		"a case is non-trivial when at least one source of some setting is present (anything but the all-defaults configuration); distinct = distinct Coq case terms"

	type pending struct {
		j    *job
		emit func(res *Result) // adds the Coq case
		desc any
	}
	var ps []*pending
	want := func(k string) bool { return *only == "" || strings.Contains(","+*only+",", ","+k+",") }

	if want("exp") {
		addExp := func(c *expCase, kind string) {
			p := &pending{j: &job{sc: c.scenario("exp")}}
			p.desc = map[string]any{"exporter": c.Fam + "/" + c.Proto, "options": c.Opts, "env": p.j.sc.Env, "note": c.Note}
			p.emit = func(res *Result) {
				term, desc := c.term(res)
				nontriv := false
				for _, o := range c.Opts {
					nontriv = nontriv || o.K != "insecure"
				}
				for _, v := range c.Env {
					nontriv = nontriv || v != ""
				}
				w.Add(term, desc, kind, nontriv)
				who := "nobody"
				if len(res.Reqs) > 0 {
					who = "collector-" + res.Reqs[0].Who
				}
				w.Tally("exp:" + c.Fam + "/" + c.Proto + ":received-by-" + who)
				if len(res.Reqs) > 0 {
					switch {
					case c.Proto == "http" && c.Slow:
						w.Tally(fmt.Sprintf("exp:http-timeout-probe:timed-out=%v", !res.ExportOK))
					case c.Proto == "grpc" && !res.Reqs[0].Deadline:
						w.Tally("exp:grpc-deadline:none")
					case c.Proto == "grpc":
						w.Tally(fmt.Sprintf("exp:grpc-deadline:~%ds", (res.Reqs[0].RemainMs+999)/1000))
					}
					if res.Reqs[0].Gzip {
						w.Tally("exp:gzip")
					}
					w.Tally(fmt.Sprintf("exp:x-c20-headers=%d", len(res.Reqs[0].Hdrs)))
				}
				if len(res.Reqs) > 1 {
					w.Tally("exp:more-than-one-request")
				}
			}
			ps = append(ps, p)
		}
		// fixed corpus first
		for _, c := range corpusExp() {
			addExp(c, "exp-corpus")
		}
		// F-C20-6 corpus (repaired by 7ecbc76): an out-of-range Compression enum value must be sent
		// uncompressed, without a panic; judged as the option "no compression"
		for _, fam := range []string{"trace", "metric", "log"} {
			c := &expCase{Fam: fam, Proto: "http", Note: "corpus: WithCompression(Compression(7)) over generic gzip (judged as OCompression false)",
				Opts: []Opt{{K: "insecure"}, {K: "endpoint", S: "{A}"}, {K: "compression", B: false}}}
			c.Env[genComp] = "gzip"
			p := &pending{j: &job{sc: c.scenario("comp7")}}
			p.j.sc.Opts = []Opt{{K: "insecure"}, {K: "endpoint", S: "{A}"}} // the child adds the raw enum value 7
			p.desc = map[string]any{"exporter": fam + "/http", "options": "WithEndpoint, WithInsecure, WithCompression(Compression(7))", "env": p.j.sc.Env}
			p.emit = func(res *Result) {
				term, desc := c.term(res)
				w.Add(term, desc, "exp-compression-enum", true)
			}
			ps = append(ps, p)
		}
		for _, fam := range fams {
			for _, proto := range protos {
				for _, c := range shapeCases(fam, proto) {
					addExp(c, "exp-invalid-shapes")
				}
			}
		}
		reps := map[string]int{"endpoint": o.Count(2, 8), "headers": o.Count(2, 6), "compression": o.Count(2, 6), "timeout": o.Count(1, 3)}
		for _, fam := range fams {
			for _, proto := range protos {
				for _, focus := range []string{"endpoint", "headers", "compression", "timeout"} {
					for rep := 0; rep < reps[focus]; rep++ {
						for combo := 0; combo < 27; combo++ {
							cb := [3]int{combo / 9, combo / 3 % 3, combo % 3}
							if focus == "timeout" && proto == "http" {
								n := 0
								for i := 0; i < 3; i++ {
									if cb[i] == stValid {
										addExp(buildCase(r.Fork(), fam, proto, focus, cb, i, rep), "exp-"+focus)
										n++
									}
								}
								if n > 0 {
									continue
								}
							}
							addExp(buildCase(r.Fork(), fam, proto, focus, cb, -1, rep), "exp-"+focus)
						}
					}
				}
			}
		}
	}

	if want("sdk") {
		addSDK := func(sc Scenario, kind string, emit func(sc *Scenario, res *Result)) {
			p := &pending{j: &job{sc: sc}}
			p.desc = map[string]any{"component": sc.Kind, "env": sc.Env, "options": sc.IntOpts, "limits_options": sc.LimitsOpts, "sampler_option": sc.SamplerOpt}
			p.emit = func(res *Result) { emit(&p.j.sc, res) }
			ps = append(ps, p)
		}
		bspEmit := func(sc *Scenario, res *Result) {
			term, nontriv := bspTerm(sc, res)
			w.Add(term, map[string]any{"component": "bsp", "via": sc.Via, "env": sc.Env, "options": sc.IntOpts, "spans": sc.N, "config": res.BSP, "max_batch": res.MaxBatch, "exported": res.Total, "export_context_deadline": res.Deadline, "exports_refused_context_done": res.Refused}, "sdk-bsp", nontriv)
			w.Tally("bsp:via=" + sc.Via)
			if res.BSP == nil {
				w.Tally("bsp:no-MarshalLog")
			} else {
				w.Tally(fmt.Sprintf("bsp:queue=%s,batch=%s", sizeClass(res.BSP.Queue, 2048), sizeClass(res.BSP.Batch, 512)))
			}
		}
		// F-C20-1 corpus (repaired by 0f47d06): must neither panic nor hang
		for _, c := range []struct {
			env  map[string]string
			opts map[string]int64
		}{
			{map[string]string{"OTEL_BSP_MAX_QUEUE_SIZE": "-1"}, nil},
			{map[string]string{"OTEL_BSP_MAX_EXPORT_BATCH_SIZE": "-1"}, nil},
			{map[string]string{"OTEL_BSP_MAX_QUEUE_SIZE": "-1", "OTEL_BSP_MAX_EXPORT_BATCH_SIZE": "-1"}, nil},
			{nil, map[string]int64{"queue": -1}},
			{nil, map[string]int64{"batch": -1}},
			{nil, map[string]int64{"queue": -1, "batch": -1}},
			{map[string]string{"OTEL_BSP_MAX_QUEUE_SIZE": "10", "OTEL_BSP_MAX_EXPORT_BATCH_SIZE": "-1"}, nil},
			{map[string]string{"OTEL_BSP_MAX_QUEUE_SIZE": "-5", "OTEL_BSP_MAX_EXPORT_BATCH_SIZE": "100"}, nil},
			{map[string]string{"OTEL_BSP_MAX_QUEUE_SIZE": "0", "OTEL_BSP_MAX_EXPORT_BATCH_SIZE": "0"}, nil},
			{map[string]string{"OTEL_BSP_MAX_QUEUE_SIZE": "10"}, map[string]int64{"batch": -1}},
			{map[string]string{"OTEL_BSP_MAX_QUEUE_SIZE": "4"}, map[string]int64{"batch": 16}},
			// boundaries of the batch <= queue clamp
			{map[string]string{"OTEL_BSP_MAX_QUEUE_SIZE": "2048", "OTEL_BSP_MAX_EXPORT_BATCH_SIZE": "2048"}, nil},
			{map[string]string{"OTEL_BSP_MAX_QUEUE_SIZE": "4096", "OTEL_BSP_MAX_EXPORT_BATCH_SIZE": "4096"}, nil},
			{map[string]string{"OTEL_BSP_MAX_QUEUE_SIZE": "4096", "OTEL_BSP_MAX_EXPORT_BATCH_SIZE": "4097"}, nil},
			{map[string]string{"OTEL_BSP_MAX_QUEUE_SIZE": "64", "OTEL_BSP_MAX_EXPORT_BATCH_SIZE": "64"}, nil},
			{map[string]string{"OTEL_BSP_MAX_QUEUE_SIZE": "64", "OTEL_BSP_MAX_EXPORT_BATCH_SIZE": "65"}, nil},
			{map[string]string{"OTEL_BSP_MAX_QUEUE_SIZE": "65", "OTEL_BSP_MAX_EXPORT_BATCH_SIZE": "64"}, nil},
			{map[string]string{"OTEL_BSP_MAX_QUEUE_SIZE": "512"}, nil},
			{map[string]string{"OTEL_BSP_MAX_QUEUE_SIZE": "511"}, nil},
			{map[string]string{"OTEL_BSP_MAX_QUEUE_SIZE": "513"}, nil},
			{map[string]string{"OTEL_BSP_MAX_EXPORT_BATCH_SIZE": "2048"}, nil},
			{map[string]string{"OTEL_BSP_MAX_EXPORT_BATCH_SIZE": "2049"}, nil},
			{nil, nil},
		} {
			sc := Scenario{Kind: "bsp", N: 40, Env: map[string]string{}, IntOpts: map[string]int64{}}
			for k, v := range c.env {
				sc.Env[k] = v
			}
			for k, v := range c.opts {
				sc.IntOpts[k] = v
			}
			addSDK(sc, "sdk-bsp", bspEmit)
		}
		for _, v := range bspDelayVals {
			addSDK(Scenario{Kind: "bsp", N: 40, Env: map[string]string{"OTEL_BSP_SCHEDULE_DELAY": v}, IntOpts: map[string]int64{}}, "sdk-bsp", bspEmit)
		}
		for _, v := range bspExportVals[1:] {
			addSDK(Scenario{Kind: "bsp", N: 40, Env: map[string]string{"OTEL_BSP_EXPORT_TIMEOUT": v}, IntOpts: map[string]int64{}}, "sdk-bsp", bspEmit)
		}
		for i, n := 0, o.Count(130, 1500); i < n; i++ {
			addSDK(genBSP(r.Fork()), "sdk-bsp", bspEmit)
		}
		// batch log record processor: every out-of-range timing value once (liveness)
		blrpEmit := func(odd bool) func(sc *Scenario, res *Result) {
			return func(sc *Scenario, res *Result) {
				if sc.Via == "nilexporter" {
					w.Tally("blrp:liveness-only")
					return
				}
				if odd {
					w.Tally("blrp:odd-interval(records-kept+deadline-only)")
				}
				w.Add(blrpTerm(sc, res, odd), map[string]any{"component": "blrp", "via": sc.Via, "env": sc.Env, "options": sc.IntOpts, "records": sc.N, "max_chunk": res.MaxBatch, "exported": res.Total,
					"probe": sc.Probe, "triggered": res.Triggered, "export_context_deadline": res.Deadline, "exports_refused_context_done": res.Refused}, "sdk-blrp",
					len(sc.Env) > 0 || len(sc.IntOpts) > 1)
			}
		}
		for _, v := range blrpDelayVals {
			addSDK(Scenario{Kind: "blrp", N: 40, Env: map[string]string{"OTEL_BLRP_SCHEDULE_DELAY": v}, IntOpts: map[string]int64{}}, "sdk-blrp", blrpEmit(true))
			addSDK(Scenario{Kind: "blrp", N: 40, Via: "nilexporter", Env: map[string]string{"OTEL_BLRP_SCHEDULE_DELAY": v}, IntOpts: map[string]int64{}}, "sdk-blrp", blrpEmit(true))
		}
		// every export-timeout value from the environment and from the option, once each
		for _, v := range blrpExportVals[1:] {
			addSDK(Scenario{Kind: "blrp", N: 40, Env: map[string]string{"OTEL_BLRP_EXPORT_TIMEOUT": v}, IntOpts: map[string]int64{"interval": 3600e9}}, "sdk-blrp", blrpEmit(false))
		}
		for _, v := range exportOptVals {
			addSDK(Scenario{Kind: "blrp", N: 40, Env: map[string]string{"OTEL_BLRP_EXPORT_TIMEOUT": "4000"}, IntOpts: map[string]int64{"interval": 3600e9, "export": v}}, "sdk-blrp", blrpEmit(false))
			addSDK(Scenario{Kind: "bsp", N: 40, Env: map[string]string{"OTEL_BSP_EXPORT_TIMEOUT": "4000"}, IntOpts: map[string]int64{"export": v}}, "sdk-bsp", bspEmit)
			addSDK(Scenario{Kind: "bsp", N: 40, Via: "provider", Env: map[string]string{}, IntOpts: map[string]int64{"export": v}}, "sdk-bsp", bspEmit)
		}
		for i, n := 0, o.Count(110, 1200); i < n; i++ {
			sc, observed := genBLRP(r.Fork())
			if i < 10 { // corpus: negative / zero sizes, clamp boundaries
				sc = Scenario{Kind: "blrp", N: 40, Env: map[string]string{}, IntOpts: map[string]int64{"interval": 3600e9}}
				observed = true
				switch i {
				case 0:
					sc.Env["OTEL_BLRP_MAX_QUEUE_SIZE"] = "-1"
				case 1:
					sc.Env["OTEL_BLRP_MAX_EXPORT_BATCH_SIZE"] = "-1"
				case 2:
					sc.IntOpts["queue"] = -1
					sc.IntOpts["batch"] = 0
				case 3:
					sc.Env["OTEL_BLRP_MAX_QUEUE_SIZE"] = "10"
				case 4:
					sc.Env["OTEL_BLRP_MAX_QUEUE_SIZE"] = "10"
					sc.Env["OTEL_BLRP_MAX_EXPORT_BATCH_SIZE"] = "30"
					sc.Probe = true
				case 5:
					sc.IntOpts["queue"] = 16
					sc.IntOpts["batch"] = 64
					sc.Probe = true
				case 6:
					sc.Env["OTEL_BLRP_MAX_QUEUE_SIZE"] = "30"
					sc.Env["OTEL_BLRP_MAX_EXPORT_BATCH_SIZE"] = "30"
					sc.Probe = true
				case 7:
					sc.Env["OTEL_BLRP_MAX_QUEUE_SIZE"] = "30"
					sc.Env["OTEL_BLRP_MAX_EXPORT_BATCH_SIZE"] = "31"
					sc.Probe = true
				case 8:
					sc.Env["OTEL_BLRP_MAX_QUEUE_SIZE"] = "1"
					sc.IntOpts["batch"] = 1
					sc.Probe = true
				case 9:
					sc.IntOpts["queue"] = 1
					sc.Env["OTEL_BLRP_MAX_EXPORT_BATCH_SIZE"] = "0"
				}
			}
			addSDK(sc, "sdk-blrp", blrpEmit(!observed))
		}
		limitsEmit := func(sc *Scenario, res *Result) {
			if len(res.EnvLimits) == 6 {
				var ev []string
				for _, n := range limitEnvNames {
					ev = append(ev, vgen.HxS(sc.Env[n]))
				}
				w.Add(vgen.App("CEnvLimits", vgen.App("Build_limits_env", ev...), vgen.List(zs(res.EnvLimits))),
					map[string]any{"component": "NewSpanLimits()", "env": sc.Env, "observed": res.EnvLimits}, "sdk-span-limits-env", len(sc.Env) > 0)
			}
			w.Add(limitsTerm(sc, res), map[string]any{"component": "span limits", "env": sc.Env, "options": sc.LimitsOpts, "observed": res.Limits}, "sdk-span-limits", len(sc.Env) > 0 || len(sc.LimitsOpts) > 0)
		}
		// corpus: the span-specific variable over the general one, incl. values equal to the defaults
		for _, c := range []map[string]string{
			{"OTEL_SPAN_ATTRIBUTE_COUNT_LIMIT": "128", "OTEL_ATTRIBUTE_COUNT_LIMIT": "4"},
			{"OTEL_SPAN_ATTRIBUTE_VALUE_LENGTH_LIMIT": "-1", "OTEL_ATTRIBUTE_VALUE_LENGTH_LIMIT": "5"},
			{"OTEL_SPAN_ATTRIBUTE_COUNT_LIMIT": "7", "OTEL_ATTRIBUTE_COUNT_LIMIT": "4"},
			{"OTEL_SPAN_ATTRIBUTE_VALUE_LENGTH_LIMIT": "9", "OTEL_ATTRIBUTE_VALUE_LENGTH_LIMIT": "5"},
			{"OTEL_SPAN_ATTRIBUTE_COUNT_LIMIT": "abc", "OTEL_ATTRIBUTE_COUNT_LIMIT": "4"},
			{"OTEL_SPAN_ATTRIBUTE_VALUE_LENGTH_LIMIT": "abc", "OTEL_ATTRIBUTE_VALUE_LENGTH_LIMIT": "5"},
			{"OTEL_ATTRIBUTE_COUNT_LIMIT": "4"},
			{"OTEL_ATTRIBUTE_VALUE_LENGTH_LIMIT": "5"},
			{"OTEL_ATTRIBUTE_COUNT_LIMIT": "128", "OTEL_ATTRIBUTE_VALUE_LENGTH_LIMIT": "-1"},
			{"OTEL_SPAN_EVENT_COUNT_LIMIT": "128", "OTEL_SPAN_LINK_COUNT_LIMIT": "128", "OTEL_EVENT_ATTRIBUTE_COUNT_LIMIT": "128", "OTEL_LINK_ATTRIBUTE_COUNT_LIMIT": "128"},
			{"OTEL_SPAN_EVENT_COUNT_LIMIT": "0", "OTEL_SPAN_LINK_COUNT_LIMIT": "-1", "OTEL_EVENT_ATTRIBUTE_COUNT_LIMIT": "1", "OTEL_LINK_ATTRIBUTE_COUNT_LIMIT": "0"},
			{},
		} {
			addSDK(Scenario{Kind: "limits", Env: c}, "sdk-limits", limitsEmit)
		}
		// corpus: WithRawSpanLimits with the all-zero value (documented: disables attributes, events,
		// links), with single zero fields, and WithSpanLimits with zeros (rewritten to defaults) --
		// without and with the OTEL_SPAN_* / OTEL_ATTRIBUTE_* variables set
		zeroish := [][]int64{{0, 0, 0, 0, 0, 0}, {-1, 0, 128, 128, 128, 128}, {-1, 128, 0, 128, 128, 128}, {-1, 128, 128, 0, 128, 128},
			{-1, 128, 128, 128, 0, 128}, {-1, 128, 128, 128, 128, 0}, {0, 128, 128, 128, 128, 128}, {0, 0, 0, 0, 0, 7}, {-1, 128, 128, 128, 128, 128}}
		limEnvs := []map[string]string{{}, {"OTEL_SPAN_ATTRIBUTE_COUNT_LIMIT": "5", "OTEL_SPAN_EVENT_COUNT_LIMIT": "6", "OTEL_SPAN_LINK_COUNT_LIMIT": "7",
			"OTEL_EVENT_ATTRIBUTE_COUNT_LIMIT": "8", "OTEL_LINK_ATTRIBUTE_COUNT_LIMIT": "9", "OTEL_SPAN_ATTRIBUTE_VALUE_LENGTH_LIMIT": "10"},
			{"OTEL_ATTRIBUTE_COUNT_LIMIT": "4", "OTEL_ATTRIBUTE_VALUE_LENGTH_LIMIT": "3"}}
		for _, l := range zeroish {
			for _, ev := range limEnvs {
				for _, kind := range []string{"raw", "legacy"} {
					env := map[string]string{}
					for k, v := range ev {
						env[k] = v
					}
					addSDK(Scenario{Kind: "limits", Env: env, LimitsOpts: []LimitsOpt{{Kind: kind, L: l}}}, "sdk-limits", limitsEmit)
				}
			}
		}
		// log record limits: zero options over set variables (a count limit of 0 may mean "none" as
		// documented or "unlimited" as the code has it, F-C17-2: both are accepted, the variable's value is not)
		for _, ev := range []map[string]string{{}, {"OTEL_LOGRECORD_ATTRIBUTE_COUNT_LIMIT": "3", "OTEL_LOGRECORD_ATTRIBUTE_VALUE_LENGTH_LIMIT": "5"}} {
			for _, io := range []map[string]int64{{"count": 0}, {"length": 0}, {"count": 0, "length": 0}, {"count": 128, "length": -1}} {
				env, opts := map[string]string{}, map[string]int64{}
				for k, v := range ev {
					env[k] = v
				}
				for k, v := range io {
					opts[k] = v
				}
				addSDK(Scenario{Kind: "loglimits", Env: env, IntOpts: opts}, "sdk-loglimits", func(sc *Scenario, res *Result) {
					w.Add(logLimitsTerm(sc, res), map[string]any{"component": "log record limits", "env": sc.Env, "options": sc.IntOpts, "observed": res.Limits}, "sdk-log-limits", true)
				})
			}
		}
		for i, n := 0, o.Count(80, 800); i < n; i++ {
			addSDK(genLimits(r.Fork()), "sdk-limits", limitsEmit)
		}
		for i, n := 0, o.Count(60, 600); i < n; i++ {
			addSDK(genLogLimits(r.Fork()), "sdk-loglimits", func(sc *Scenario, res *Result) {
				w.Add(logLimitsTerm(sc, res), map[string]any{"component": "log record limits", "env": sc.Env, "options": sc.IntOpts, "observed": res.Limits}, "sdk-log-limits", len(sc.Env) > 0 || len(sc.IntOpts) > 0)
			})
		}
		for _, sc := range samplerScenarios(r.Fork()) {
			addSDK(sc, "sdk-sampler", func(sc *Scenario, res *Result) {
				w.Add(samplerTerm(sc, res), map[string]any{"component": "sampler", "env": sc.Env, "option": sc.SamplerOpt, "decisions": res.Decisions}, "sdk-sampler", len(sc.Env) > 0 || sc.SamplerOpt != "")
			})
		}
	}

	jobs := make([]*job, len(ps))
	for i, p := range ps {
		jobs[i] = p.j
	}
	t0 := time.Now()
	runAll(jobs)
	w.Extra["children"] = len(jobs)
	w.Extra["children_wall_s"] = time.Since(t0).Seconds()
	var slow []any
	for _, p := range ps {
		if p.j.secs > 3 {
			slow = append(slow, map[string]any{"seconds": p.j.secs, "scenario": p.desc})
		}
	}
	w.Extra["children_slower_than_3s"] = slow

	for _, p := range ps {
		j := p.j
		switch {
		case j.viol != "":
			w.Violation(j.viol, map[string]any{"scenario": p.desc, "stderr": tail(j.log, 1500)})
		case j.res == nil:
			fmt.Fprintf(os.Stderr, "C20 harness: machinery failure (not a verdict): %s\nscenario: %s\n", j.fail, mustJSON(p.desc))
			os.Exit(2)
		case j.res.Hang:
			w.Violation("hang: scenario still running after 45s", map[string]any{"scenario": p.desc, "stderr": tail(j.log, 1500)})
		case j.res.Panic != "":
			w.Violation("panic: "+j.res.Panic, map[string]any{"scenario": p.desc, "stderr": tail(j.log, 1500)})
		default:
			p.emit(j.res)
		}
	}
	if err := w.Flush(); err != nil {
		fmt.Fprintln(os.Stderr, err)
		os.Exit(2)
	}
}

func sizeClass(v, dflt int64) string {
	switch {
	case v == dflt:
		return "default"
	case v == 0:
		return "0"
	case v < 0:
		return "negative"
	case v <= 64:
		return "small"
	}
	return "large"
}

func mustJSON(v any) string {
	b, _ := json.Marshal(v)
	return string(b)
}

var _ = sort.Strings
