// C20 harness, child side: one scenario per process, with its own environment.
package main

import (
	"encoding/json"
	"fmt"
	"io"
	"os"
	"runtime"
	"strings"
	"time"
)

// LimitsOpt is WithRawSpanLimits / WithSpanLimits with the six limits in the
// order: value length, attribute count, event count, link count, attributes
// per event, attributes per link.
type LimitsOpt struct {
	Kind string  `json:"kind"` // raw | legacy
	L    []int64 `json:"l"`
}

// Scenario is what one child process does.
type Scenario struct {
	Kind  string            `json:"kind"` // exp comp7 bsp blrp limits loglimits sampler
	Fam   string            `json:"fam,omitempty"`
	Proto string            `json:"proto,omitempty"`
	Opts  []Opt             `json:"opts,omitempty"`
	Env   map[string]string `json:"env,omitempty"` // {A} {B} {C}: addresses of the collectors
	Slow  bool              `json:"slow,omitempty"`
	Retry bool              `json:"retry,omitempty"` // leave the exporter's default retry policy on

	IntOpts    map[string]int64 `json:"int_opts,omitempty"`
	N          int              `json:"n,omitempty"`
	LimitsOpts []LimitsOpt      `json:"limits_opts,omitempty"`
	SamplerOpt string           `json:"sampler_opt,omitempty"`
	Via        string           `json:"via,omitempty"`   // bsp/blrp: "" (processor driven directly), provider, nonblocking, nilexporter
	Probe      bool             `json:"probe,omitempty"` // blrp: wait for an export triggered by the queue length
}

// DeadlineObs: the deadline a probe exporter was handed.
type DeadlineObs struct {
	Set      bool  `json:"set"`
	RemainMs int64 `json:"remain_ms"`
}

// Result is what the child observed.
type Result struct {
	Infra    string     `json:"infra,omitempty"` // infrastructure failure (e.g. port bind): not a verdict
	Panic    string     `json:"panic,omitempty"`
	Hang     bool       `json:"hang,omitempty"`
	NewErr   string     `json:"new_err,omitempty"`
	ExpErr   string     `json:"exp_err,omitempty"`
	ExportOK bool       `json:"export_ok,omitempty"`
	Reqs     []Received `json:"reqs,omitempty"`

	BSP       *BSPCfg      `json:"bsp,omitempty"`
	MaxBatch  int          `json:"max_batch,omitempty"`
	Total     int          `json:"total,omitempty"`
	Limits    []int64      `json:"limits,omitempty"`
	EnvLimits []int64      `json:"env_limits,omitempty"`
	Decisions []bool       `json:"decisions,omitempty"`
	Triggered bool         `json:"triggered,omitempty"`
	Deadline  *DeadlineObs `json:"deadline,omitempty"` // context of the first non-empty export
	Refused   int          `json:"refused,omitempty"`  // exports that found their context already done
}

const slowDelay = 600 * time.Millisecond

func subst(s string, addr map[string]string) string {
	for k, v := range addr {
		s = strings.ReplaceAll(s, "{"+k+"}", v)
	}
	return s
}

func runExporter(sc *Scenario, res *Result) {
	s := &sink{}
	addr := map[string]string{}
	for _, name := range []string{"A", "B", "C"} {
		var a string
		var err error
		if sc.Proto == "grpc" {
			a, err = startGRPC(name, s)
		} else {
			d := time.Duration(0)
			if sc.Slow {
				d = slowDelay
			}
			a, err = startHTTP(name, s, d)
		}
		if err != nil {
			res.Infra = "listen: " + err.Error()
			return
		}
		addr[name] = a
	}
	for k, v := range sc.Env {
		os.Setenv(k, subst(v, addr))
	}
	opts := make([]Opt, len(sc.Opts))
	for i, o := range sc.Opts {
		o.S = subst(o.S, addr)
		opts[i] = o
	}
	raw := -1
	if sc.Kind == "comp7" {
		raw = 7
	}
	newErr, expErr := exportOnce(sc.Fam, sc.Proto, opts, raw, sc.Retry)
	if newErr != nil {
		res.NewErr = newErr.Error()
	}
	if expErr != nil {
		res.ExpErr = expErr.Error()
	}
	res.ExportOK = newErr == nil && expErr == nil
	s.mu.Lock()
	res.Reqs = append([]Received(nil), s.reqs...)
	s.mu.Unlock()
}

func childMain() {
	in, err := io.ReadAll(os.Stdin)
	var sc Scenario
	if err == nil {
		err = json.Unmarshal(in, &sc)
	}
	if err != nil {
		fmt.Fprintln(os.Stderr, "child: bad scenario:", err)
		os.Exit(3)
	}
	if sc.Kind != "exp" && sc.Kind != "comp7" {
		for k, v := range sc.Env {
			os.Setenv(k, v)
		}
	}
	res := &Result{}
	done := make(chan struct{})
	go func() {
		defer close(done)
		defer func() {
			if e := recover(); e != nil {
				buf := make([]byte, 4096)
				buf = buf[:runtime.Stack(buf, false)]
				res.Panic = fmt.Sprintf("%v", e)
				fmt.Fprintf(os.Stderr, "recovered: %v\n%s\n", e, buf)
			}
		}()
		switch sc.Kind {
		case "exp", "comp7":
			runExporter(&sc, res)
		case "bsp":
			runBSP(&sc, res)
		case "blrp":
			runBLRP(&sc, res)
		case "limits":
			runLimits(&sc, res)
		case "loglimits":
			runLogLimits(&sc, res)
		case "sampler":
			runSampler(&sc, res)
		default:
			res.Infra = "unknown scenario kind " + sc.Kind
		}
	}()
	select {
	case <-done:
	case <-time.After(45 * time.Second):
		buf := make([]byte, 1<<16)
		buf = buf[:runtime.Stack(buf, true)]
		fmt.Fprintf(os.Stderr, "watchdog: scenario still running after 45s\n%s\n", buf)
		res = &Result{Hang: true}
	}
	out, _ := json.Marshal(res)
	fmt.Printf("RESULT %s\n", out)
	os.Exit(0)
}
