// C20 harness, child side: SDK batching / limit / sampler settings.
package main

import (
	"context"
	"encoding/binary"
	"fmt"
	"reflect"
	"strings"
	"sync"
	"time"

	"go.opentelemetry.io/otel/attribute"
	otellog "go.opentelemetry.io/otel/log"
	sdklog "go.opentelemetry.io/otel/sdk/log"
	sdktrace "go.opentelemetry.io/otel/sdk/trace"
	"go.opentelemetry.io/otel/sdk/trace/tracetest"
	"go.opentelemetry.io/otel/trace"
)

// ---- batch span processor ----

// ctxProbe: what a well-behaved exporter does with its context -- give up when it is already
// done -- and the deadline it was handed at the first non-empty export.
type ctxProbe struct {
	seen     bool
	deadline bool
	remainMs int64
	refused  int // exports refused because the context was already done
}

func (p *ctxProbe) enter(ctx context.Context, n int) error {
	if err := ctx.Err(); err != nil {
		p.refused++
		return err
	}
	if n > 0 && !p.seen {
		p.seen = true
		if d, ok := ctx.Deadline(); ok {
			p.deadline, p.remainMs = true, time.Until(d).Milliseconds()
		}
	}
	return nil
}

func (p *ctxProbe) result(res *Result) {
	if p.seen {
		res.Deadline = &DeadlineObs{Set: p.deadline, RemainMs: p.remainMs}
	}
	res.Refused = p.refused
}

type countSpanExporter struct {
	mu      sync.Mutex
	batches []int
	probe   ctxProbe
}

func (e *countSpanExporter) ExportSpans(ctx context.Context, s []sdktrace.ReadOnlySpan) error {
	e.mu.Lock()
	defer e.mu.Unlock()
	if err := e.probe.enter(ctx, len(s)); err != nil {
		return err
	}
	e.batches = append(e.batches, len(s))
	return nil
}
func (e *countSpanExporter) Shutdown(context.Context) error { return nil }

func batchStats(b []int) (max, total int) {
	for _, n := range b {
		total += n
		if n > max {
			max = n
		}
	}
	return
}

// BSPCfg is the resolved configuration as reported by the processor's MarshalLog.
type BSPCfg struct {
	Queue, Batch      int64
	DelayNs, ExportNs int64
}

func bspConfigOf(p any) *BSPCfg {
	ml, ok := p.(interface{ MarshalLog() interface{} })
	if !ok {
		return nil
	}
	v := reflect.ValueOf(ml.MarshalLog())
	if v.Kind() != reflect.Struct {
		return nil
	}
	c := v.FieldByName("Config")
	if !c.IsValid() {
		return nil
	}
	o, ok := c.Interface().(sdktrace.BatchSpanProcessorOptions)
	if !ok {
		return nil
	}
	return &BSPCfg{Queue: int64(o.MaxQueueSize), Batch: int64(o.MaxExportBatchSize), DelayNs: int64(o.BatchTimeout), ExportNs: int64(o.ExportTimeout)}
}

func sampledStub(i int) sdktrace.ReadOnlySpan {
	var tid trace.TraceID
	var sid trace.SpanID
	binary.BigEndian.PutUint64(tid[8:], uint64(i+1))
	binary.BigEndian.PutUint64(sid[:], uint64(i+1))
	return tracetest.SpanStub{Name: "s", SpanContext: trace.NewSpanContext(trace.SpanContextConfig{TraceID: tid, SpanID: sid, TraceFlags: trace.FlagsSampled})}.Snapshot()
}

func runBSP(sc *Scenario, res *Result) {
	exp := &countSpanExporter{}
	var opts []sdktrace.BatchSpanProcessorOption
	if v, ok := sc.IntOpts["queue"]; ok {
		opts = append(opts, sdktrace.WithMaxQueueSize(int(v)))
	}
	if v, ok := sc.IntOpts["batch"]; ok {
		opts = append(opts, sdktrace.WithMaxExportBatchSize(int(v)))
	}
	if v, ok := sc.IntOpts["delay"]; ok {
		opts = append(opts, sdktrace.WithBatchTimeout(time.Duration(v)))
	}
	if v, ok := sc.IntOpts["export"]; ok {
		opts = append(opts, sdktrace.WithExportTimeout(time.Duration(v)))
	}
	if sc.Via != "nonblocking" {
		opts = append(opts, sdktrace.WithBlocking())
	}
	ctx := ctxBg // no deadline of our own: the exporter must see only what the processor sets
	defer func() {
		exp.mu.Lock()
		exp.probe.result(res)
		exp.mu.Unlock()
	}()
	if sc.Via == "provider" {
		// the same constructor reached through the provider option WithBatcher, driven by real spans
		tp := sdktrace.NewTracerProvider(sdktrace.WithBatcher(exp, opts...), sdktrace.WithSampler(sdktrace.AlwaysSample()))
		tr := tp.Tracer("c20")
		for i := 0; i < sc.N; i++ {
			_, sp := tr.Start(ctxBg, "s")
			sp.End()
		}
		if err := tp.ForceFlush(ctx); err != nil {
			res.ExpErr = "forceflush: " + err.Error()
		}
		exp.mu.Lock()
		res.MaxBatch, res.Total = batchStats(exp.batches)
		exp.mu.Unlock()
		if err := tp.Shutdown(ctx); err != nil {
			res.ExpErr += " shutdown: " + err.Error()
		}
		tp.Shutdown(ctx) // a second Shutdown must stay harmless
		return
	}
	var e sdktrace.SpanExporter = exp
	if sc.Via == "nilexporter" {
		e = nil
	}
	p := sdktrace.NewBatchSpanProcessor(e, opts...)
	res.BSP = bspConfigOf(p)
	for i := 0; i < sc.N; i++ {
		p.OnEnd(sampledStub(i))
	}
	if err := p.ForceFlush(ctx); err != nil {
		res.ExpErr = "forceflush: " + err.Error()
	}
	exp.mu.Lock()
	res.MaxBatch, res.Total = batchStats(exp.batches)
	exp.mu.Unlock()
	if err := p.Shutdown(ctx); err != nil {
		res.ExpErr += " shutdown: " + err.Error()
	}
	// after shutdown: further use must stay harmless
	p.OnEnd(sampledStub(0))
	p.ForceFlush(ctx)
	p.Shutdown(ctx)
}

// ---- batch log record processor ----

type countLogExporter struct {
	mu      sync.Mutex
	batches []int
	probe   ctxProbe
}

func (e *countLogExporter) Export(ctx context.Context, r []sdklog.Record) error {
	e.mu.Lock()
	defer e.mu.Unlock()
	if err := e.probe.enter(ctx, len(r)); err != nil {
		return err
	}
	e.batches = append(e.batches, len(r))
	return nil
}
func (e *countLogExporter) Shutdown(context.Context) error   { return nil }
func (e *countLogExporter) ForceFlush(context.Context) error { return nil }

func runBLRP(sc *Scenario, res *Result) {
	exp := &countLogExporter{}
	var opts []sdklog.BatchProcessorOption
	if v, ok := sc.IntOpts["queue"]; ok {
		opts = append(opts, sdklog.WithMaxQueueSize(int(v)))
	}
	if v, ok := sc.IntOpts["batch"]; ok {
		opts = append(opts, sdklog.WithExportMaxBatchSize(int(v)))
	}
	if v, ok := sc.IntOpts["interval"]; ok {
		opts = append(opts, sdklog.WithExportInterval(time.Duration(v)))
	}
	if v, ok := sc.IntOpts["export"]; ok {
		opts = append(opts, sdklog.WithExportTimeout(time.Duration(v)))
	}
	if v, ok := sc.IntOpts["buffer"]; ok {
		opts = append(opts, sdklog.WithExportBufferSize(int(v)))
	}
	var e sdklog.Exporter = exp
	if sc.Via == "nilexporter" {
		e = nil
	}
	p := sdklog.NewBatchProcessor(e, opts...)
	ctx := ctxBg // no deadline of our own: the exporter must see only what the processor sets
	defer func() {
		exp.mu.Lock()
		exp.probe.result(res)
		exp.mu.Unlock()
	}()
	if sc.Via == "provider" {
		// records emitted through a LoggerProvider / Logger instead of OnEmit
		lg := sdklog.NewLoggerProvider(sdklog.WithProcessor(p)).Logger("c20")
		for i := 0; i < sc.N; i++ {
			var r otellog.Record
			r.SetBody(otellog.IntValue(i))
			lg.Emit(ctx, r)
		}
	} else {
		for i := 0; i < sc.N; i++ {
			var r sdklog.Record
			r.SetBody(otellog.IntValue(i))
			p.OnEmit(ctx, &r)
		}
	}
	if sc.Probe {
		// was an export triggered by the queue length alone? (it is asynchronous: wait a while)
		for dl := time.Now().Add(1500 * time.Millisecond); time.Now().Before(dl); time.Sleep(5 * time.Millisecond) {
			exp.mu.Lock()
			n := len(exp.batches)
			exp.mu.Unlock()
			if n > 0 {
				res.Triggered = true
				break
			}
		}
	}
	if err := p.ForceFlush(ctx); err != nil {
		res.ExpErr = "forceflush: " + err.Error()
	}
	exp.mu.Lock()
	res.MaxBatch, res.Total = batchStats(exp.batches)
	exp.mu.Unlock()
	if err := p.Shutdown(ctx); err != nil {
		res.ExpErr += " shutdown: " + err.Error()
	}
	var r sdklog.Record
	p.OnEmit(ctx, &r)
	p.ForceFlush(ctx)
	p.Shutdown(ctx)
}

// ---- span limits ----

type spanRecorder struct {
	mu    sync.Mutex
	spans []sdktrace.ReadOnlySpan
}

func (r *spanRecorder) OnStart(context.Context, sdktrace.ReadWriteSpan) {}
func (r *spanRecorder) OnEnd(s sdktrace.ReadOnlySpan) {
	r.mu.Lock()
	r.spans = append(r.spans, s)
	r.mu.Unlock()
}
func (r *spanRecorder) Shutdown(context.Context) error   { return nil }
func (r *spanRecorder) ForceFlush(context.Context) error { return nil }

const (
	limN   = 140 // attributes, events, links offered
	limSub = 135 // attributes per event / link offered
	limLen = 60  // length of every string value offered
)

func manyAttrs(prefix string, n int) []attribute.KeyValue {
	out := make([]attribute.KeyValue, n)
	val := strings.Repeat("v", limLen)
	for i := range out {
		out[i] = attribute.String(fmt.Sprintf("%s%03d", prefix, i), val)
	}
	return out
}

func toLimits(l []int64) sdktrace.SpanLimits {
	return sdktrace.SpanLimits{AttributeValueLengthLimit: int(l[0]), AttributeCountLimit: int(l[1]), EventCountLimit: int(l[2]),
		LinkCountLimit: int(l[3]), AttributePerEventCountLimit: int(l[4]), AttributePerLinkCountLimit: int(l[5])}
}

func runLimits(sc *Scenario, res *Result) {
	el := sdktrace.NewSpanLimits()
	res.EnvLimits = []int64{int64(el.AttributeValueLengthLimit), int64(el.AttributeCountLimit), int64(el.EventCountLimit),
		int64(el.LinkCountLimit), int64(el.AttributePerEventCountLimit), int64(el.AttributePerLinkCountLimit)}
	rec := &spanRecorder{}
	opts := []sdktrace.TracerProviderOption{sdktrace.WithSpanProcessor(rec), sdktrace.WithSampler(sdktrace.AlwaysSample())}
	for _, lo := range sc.LimitsOpts {
		switch lo.Kind {
		case "raw":
			opts = append(opts, sdktrace.WithRawSpanLimits(toLimits(lo.L)))
		case "legacy":
			opts = append(opts, sdktrace.WithSpanLimits(toLimits(lo.L)))
		}
	}
	tp := sdktrace.NewTracerProvider(opts...)
	sub := manyAttrs("k", limSub)
	links := make([]trace.Link, limN)
	for i := range links {
		var tid trace.TraceID
		var sid trace.SpanID
		binary.BigEndian.PutUint64(tid[8:], uint64(i+1))
		binary.BigEndian.PutUint64(sid[:], uint64(i+1))
		links[i] = trace.Link{SpanContext: trace.NewSpanContext(trace.SpanContextConfig{TraceID: tid, SpanID: sid}), Attributes: sub}
	}
	_, span := tp.Tracer("c20").Start(ctxBg, "s", trace.WithLinks(links...))
	span.SetAttributes(manyAttrs("a", limN)...)
	for i := 0; i < limN; i++ {
		span.AddEvent("e", trace.WithAttributes(sub...))
	}
	span.End()
	ctx, cancel := context.WithTimeout(ctxBg, 20*time.Second)
	defer cancel()
	tp.Shutdown(ctx)
	rec.mu.Lock()
	defer rec.mu.Unlock()
	if len(rec.spans) != 1 {
		res.ExpErr = fmt.Sprintf("recorded %d spans", len(rec.spans))
		return
	}
	ro := rec.spans[0]
	o := []int64{-1, int64(len(ro.Attributes())), int64(len(ro.Events())), int64(len(ro.Links())), -1, -1}
	if a := ro.Attributes(); len(a) > 0 {
		o[0] = int64(len(a[0].Value.AsString()))
	}
	if e := ro.Events(); len(e) > 0 {
		o[4] = int64(len(e[0].Attributes))
	}
	if l := ro.Links(); len(l) > 0 {
		o[5] = int64(len(l[0].Attributes))
	}
	res.Limits = o
}

// ---- log record limits ----

type recProcessor struct {
	mu   sync.Mutex
	recs []sdklog.Record
}

func (p *recProcessor) OnEmit(_ context.Context, r *sdklog.Record) error {
	p.mu.Lock()
	p.recs = append(p.recs, r.Clone())
	p.mu.Unlock()
	return nil
}
func (p *recProcessor) Shutdown(context.Context) error   { return nil }
func (p *recProcessor) ForceFlush(context.Context) error { return nil }

func runLogLimits(sc *Scenario, res *Result) {
	rec := &recProcessor{}
	opts := []sdklog.LoggerProviderOption{sdklog.WithProcessor(rec)}
	if v, ok := sc.IntOpts["count"]; ok {
		opts = append(opts, sdklog.WithAttributeCountLimit(int(v)))
	}
	if v, ok := sc.IntOpts["length"]; ok {
		opts = append(opts, sdklog.WithAttributeValueLengthLimit(int(v)))
	}
	lp := sdklog.NewLoggerProvider(opts...)
	var r otellog.Record
	r.SetBody(otellog.StringValue("b"))
	val := strings.Repeat("v", limLen)
	kvs := make([]otellog.KeyValue, limN)
	for i := range kvs {
		kvs[i] = otellog.String(fmt.Sprintf("a%03d", i), val)
	}
	r.AddAttributes(kvs...)
	lp.Logger("c20").Emit(ctxBg, r)
	ctx, cancel := context.WithTimeout(ctxBg, 20*time.Second)
	defer cancel()
	lp.Shutdown(ctx)
	rec.mu.Lock()
	defer rec.mu.Unlock()
	if len(rec.recs) != 1 {
		res.ExpErr = fmt.Sprintf("recorded %d records", len(rec.recs))
		return
	}
	got := rec.recs[0]
	o := []int64{int64(got.AttributesLen()), -1}
	got.WalkAttributes(func(kv otellog.KeyValue) bool {
		o[1] = int64(len(kv.Value.AsString()))
		return false
	})
	res.Limits = o
}

// ---- sampler ----

type fixedIDs struct {
	mu   sync.Mutex
	next uint64
	n    uint64
}

func (g *fixedIDs) NewIDs(context.Context) (trace.TraceID, trace.SpanID) {
	g.mu.Lock()
	defer g.mu.Unlock()
	var tid trace.TraceID
	tid[0] = 1
	binary.BigEndian.PutUint64(tid[8:], g.next)
	g.n++
	var sid trace.SpanID
	binary.BigEndian.PutUint64(sid[:], g.n)
	return tid, sid
}
func (g *fixedIDs) NewSpanID(context.Context, trace.TraceID) trace.SpanID {
	g.mu.Lock()
	defer g.mu.Unlock()
	g.n++
	var sid trace.SpanID
	binary.BigEndian.PutUint64(sid[:], g.n)
	return sid
}

const samplerProbes = 16

// probeX is the k-th probe position, (2k+1)/32 of the 63-bit range.
func probeX(k int) uint64 { return uint64(2*k+1) << 58 }

func runSampler(sc *Scenario, res *Result) {
	ids := &fixedIDs{}
	opts := []sdktrace.TracerProviderOption{sdktrace.WithIDGenerator(ids)}
	switch sc.SamplerOpt {
	case "never":
		opts = append(opts, sdktrace.WithSampler(sdktrace.NeverSample()))
	case "always":
		opts = append(opts, sdktrace.WithSampler(sdktrace.AlwaysSample()))
	case "ratio25":
		opts = append(opts, sdktrace.WithSampler(sdktrace.TraceIDRatioBased(0.25)))
	case "nil":
		opts = append(opts, sdktrace.WithSampler(nil))
	}
	tp := sdktrace.NewTracerProvider(opts...)
	tr := tp.Tracer("c20")
	for parent := 0; parent < 5; parent++ { // none, remote sampled, remote unsampled, local sampled, local unsampled
		for k := 0; k < samplerProbes; k++ {
			x := probeX(k)
			ctx := ctxBg
			if parent == 0 {
				ids.mu.Lock()
				ids.next = x << 1
				ids.mu.Unlock()
			} else {
				var tid trace.TraceID
				tid[0] = 1
				binary.BigEndian.PutUint64(tid[8:], x<<1)
				cfg := trace.SpanContextConfig{TraceID: tid, SpanID: trace.SpanID{1}, Remote: parent <= 2}
				if parent == 1 || parent == 3 {
					cfg.TraceFlags = trace.FlagsSampled
				}
				ctx = trace.ContextWithSpanContext(ctxBg, trace.NewSpanContext(cfg))
			}
			_, sp := tr.Start(ctx, "s")
			res.Decisions = append(res.Decisions, sp.SpanContext().IsSampled())
			sp.End()
		}
	}
	ctx, cancel := context.WithTimeout(ctxBg, 20*time.Second)
	defer cancel()
	tp.Shutdown(ctx)
}
