package main

import (
	"context"
	"fmt"
	"strconv"
	"strings"
	"sync/atomic"
	"time"

	"verif/harness/vgen"
)

// Deterministic fragment.  One driver goroutine, export interval of an hour (no tick),
// a gate exporter.  The generator keeps a predictor of the processor's state (counts
// only) for two purposes: to emit only programs whose outcome does not depend on when
// the poll goroutine runs, and to know what to wait for after each op (number of
// Export entries / returns / Shutdown calls at the gate; the Done() call of a scripted
// context at which a call is stuck).  The predictor is NOT what the observation is
// judged by: that is the Coq model run on the same program (C06/Corr.v drun).
//
// Why the outcome is schedule independent:
//  * gate ok/err: after an Emit that fills a batch the driver waits until the gate has
//    seen that batch, so the queue is below the batch size whenever the driver acts;
//  * gate blocked, export buffer not full: the queue is kept below the batch size
//    (a scripted ForceFlush hands over before it is reached), so the poll goroutine is
//    never triggered; with batch size 1 every Emit is followed by a scripted ForceFlush,
//    and poll and ForceFlush would hand over the same single record;
//  * gate blocked, export buffer full: neither poll (Ready() is false) nor ForceFlush
//    (refused, rolled back) can take anything, so the ring overwrites deterministically.

const (
	dEmit = iota
	dMutate
	dFlush
	dProbe
	dShutdown
	dShutdownX
	dMode
	dRelease
	dFlushLive
)

type dop struct{ kind, arg int }

func (o dop) coq() string {
	m := [...]string{"MOk", "MErr", "MBlock"}
	switch o.kind {
	case dEmit:
		return "DEmit"
	case dMutate:
		return "DMutate " + strconv.Itoa(o.arg)
	case dFlush:
		return "DFlush"
	case dProbe:
		return "DProbe"
	case dShutdown:
		return "DShutdown"
	case dShutdownX:
		return "DShutdownX"
	case dMode:
		return "DMode " + m[o.arg]
	}
	if o.kind == dFlushLive {
		return "DFlushLive " + m[o.arg]
	}
	return "DRelease " + m[o.arg]
}

type item struct {
	sync bool
	n    int
}

const (
	xIdle = iota
	xNext
	xOpen
	xDone
)

type sim struct {
	c                                             cfg
	ring                                          int
	input                                         []item
	ex, rest                                      int
	mode                                          int
	stopped, bstopped, closed, pollkill, polldead bool
	trigger                                       bool
	begins, ends, shuts                           int
	overflowed, blockedOnce                       bool
	dirty                                         bool // a trigger token may be pending at an unknown time
}

func (s *sim) room() bool { return len(s.input) < s.c.bufsz }

func (s *sim) handover(n int) bool {
	rs := min(n, s.ring)
	if rs == 0 {
		return true
	}
	if s.bstopped {
		s.ring -= rs
		return true
	}
	if s.room() {
		s.input = append(s.input, item{n: rs})
		s.ring -= rs
		return true
	}
	return false
}

func (s *sim) settle() {
	for {
		if !s.polldead {
			if s.pollkill {
				s.polldead = true
				continue
			}
			if s.trigger && s.room() {
				s.trigger = false
				s.handover(s.c.maxb)
				s.trigger = s.ring >= s.c.maxb
				continue
			}
		}
		switch s.ex {
		case xIdle:
			if len(s.input) > 0 {
				it := s.input[0]
				s.input = s.input[1:]
				if !it.sync {
					s.ex, s.rest = xNext, it.n
				}
				continue
			}
			if s.closed {
				s.ex = xDone
				continue
			}
		case xNext:
			cur := min(s.c.maxb, s.rest)
			s.rest -= cur
			s.ex = xOpen
			s.begins++
			continue
		case xOpen:
			if s.mode != modeBlock {
				s.end(s.mode == modeOK)
				continue
			}
		}
		return
	}
}

func (s *sim) end(ok bool) {
	s.ends++
	if ok && s.rest > 0 {
		s.ex = xNext
	} else {
		s.ex, s.rest = xIdle, 0
	}
}

func (s *sim) emit() {
	if s.stopped {
		return
	}
	if s.ring < s.c.qcap {
		s.ring++
	} else {
		s.overflowed = true
	}
	if s.ring >= s.c.maxb {
		s.trigger = true
		if s.blocked() && s.c.maxb > 1 {
			s.dirty = true
		}
	}
	s.settle()
}

// flush with a background context (only generated where it cannot block)
func (s *sim) flush() {
	if s.stopped {
		return
	}
	s.handover(s.ring)
	s.settle()
	s.input = append(s.input, item{sync: true})
	s.settle()
}

// probe returns the number of Done() calls at which the scripted ForceFlush is stuck
// (0: it returns by itself).
func (s *sim) probe() int {
	if s.stopped {
		return 0
	}
	ok := s.handover(s.ring)
	s.settle()
	if !ok {
		return 0 // Err() was consulted: the context expires by itself
	}
	if !s.room() {
		return 1
	}
	s.input = append(s.input, item{sync: true})
	s.settle()
	for _, it := range s.input {
		if it.sync {
			return 2
		}
	}
	return 0
}

func (s *sim) shutdownBG() {
	if s.stopped {
		return
	}
	s.stopped, s.pollkill = true, true
	s.settle()
	held := s.ring
	s.ring = 0
	if held > 0 {
		s.input = append(s.input, item{n: held})
		s.settle()
	}
	s.bstopped, s.closed = true, true
	s.settle()
	s.shuts++
}

// shutdownX returns the Done() call count at which the scripted Shutdown is stuck.
func (s *sim) shutdownX() int {
	if s.stopped {
		return 0
	}
	s.stopped, s.pollkill = true, true
	s.settle()
	held := s.ring
	s.ring = 0
	k := 0
	if held > 0 {
		if s.room() {
			s.input = append(s.input, item{n: held})
			s.settle()
			k = 3
		} else {
			k = 2
		}
	}
	s.bstopped, s.closed = true, true
	s.settle()
	if k == 0 {
		k = 2
	}
	s.shuts++
	return k
}

func (s *sim) release(m int) {
	s.mode = m
	s.end(true)
	s.settle()
}

// flushLive: ForceFlush with a live context while the exporter is blocked; returns the
// Done() count at which the call waits (there the harness releases the gate into mode m).
// Only generated where the hand-over succeeds (queue empty or room in the buffer).
func (s *sim) flushLive(m int) int {
	if s.stopped {
		return 0
	}
	s.handover(s.ring)
	s.settle()
	k := 1
	if s.room() {
		s.input = append(s.input, item{sync: true})
		s.settle()
		k = 2
	}
	s.release(m)
	if k == 1 {
		s.input = append(s.input, item{sync: true})
		s.settle()
	}
	return k
}

func (s *sim) blocked() bool { return s.mode == modeBlock && s.ex == xOpen }

// apply runs op on the predictor; the result is the Done() count of a scripted call.
func (s *sim) apply(o dop) int {
	switch o.kind {
	case dEmit:
		s.emit()
	case dFlush:
		s.flush()
	case dProbe:
		return s.probe()
	case dShutdown:
		s.shutdownBG()
	case dShutdownX:
		return s.shutdownX()
	case dMode:
		s.mode = o.arg
		s.settle()
	case dRelease:
		s.release(o.arg)
	case dFlushLive:
		return s.flushLive(o.arg)
	}
	if s.blocked() {
		s.blockedOnce = true
	}
	return 0
}

// next draws the next op(s) allowed in the predictor's state.
func next(s *sim, r *vgen.Rand) []dop {
	if s.blocked() {
		canEmit := s.stopped || !s.room() || s.ring+1 < s.c.maxb
		pair := !canEmit && s.c.maxb == 1
		x := r.Intn(100)
		switch {
		case x < 45 && (canEmit || pair):
			if pair {
				return []dop{{kind: dEmit}, {kind: dProbe}}
			}
			return []dop{{kind: dEmit}}
		case x < 64:
			return []dop{{kind: dProbe}}
		case x < 70:
			if !s.stopped && !s.dirty && (s.ring == 0 || s.room()) {
				return []dop{{dFlushLive, r.Intn(2)}}
			}
			return []dop{{kind: dProbe}}
		case x < 74:
			return []dop{{dMutate, r.Range(0, nMut)}}
		case x < 80 && !s.stopped:
			return []dop{{kind: dShutdownX}}
		case x < 86 && s.stopped:
			return []dop{{kind: []int{dFlush, dShutdown}[r.Intn(2)]}}
		case x < 93:
			if s.dirty {
				return []dop{{dRelease, r.Intn(2)}, {kind: dFlush}}
			}
			return []dop{{dRelease, r.Intn(2)}}
		}
		return []dop{{kind: dProbe}}
	}
	if s.dirty {
		// a stale trigger may wake the poll goroutine at any time: keep the queue empty
		// whenever the driver is not inside a call (a stale wake then finds nothing, or
		// exactly the record the following ForceFlush hands over)
		x := r.Intn(100)
		switch {
		case x < 60 && s.mode != modeBlock:
			return []dop{{kind: dEmit}, {kind: dFlush}}
		case x < 70:
			return []dop{{dMutate, r.Range(0, nMut)}}
		case x < 80 && s.mode != modeBlock:
			return []dop{{kind: dShutdown}}
		case x < 90:
			return []dop{{dMode, r.Intn(2)}}
		}
		return []dop{{dMutate, 0}}
	}
	x := r.Intn(100)
	switch {
	case x < 50:
		return []dop{{kind: dEmit}}
	case x < 56:
		return []dop{{dMutate, r.Range(0, nMut)}}
	case x < 66:
		if s.mode != modeBlock || s.stopped {
			return []dop{{kind: dFlush}}
		}
		return []dop{{kind: dProbe}}
	case x < 70:
		return []dop{{kind: dProbe}}
	case x < 73:
		if s.mode != modeBlock || s.stopped {
			return []dop{{kind: dShutdown}}
		}
	case x < 90:
		return []dop{{dMode, r.Intn(3)}}
	}
	return []dop{{kind: dEmit}}
}

type detResult struct {
	c     cfg
	prog  []dop
	evs   []event
	stuck string // a call did not return / runaway: observed directly
	how   string // spelling of the options, entry points used
	unmet string // the gate did not see what the predictor expected: the recorded history is judged by Coq
	sim   *sim
}

// expectWD is how long the driver waits for the exporter events the predictor expects.
// After a first unmet expectation (already a reported disagreement) later waits are short.
var expectWD = watchdog
var unmetScenarios atomic.Int32
var firstDet atomic.Bool

// parseProg reads "q,b,s: e m2 f p s x MO ME MB RO RE" (replay of a deterministic case).
func parseProg(txt string) (cfg, []dop) {
	var c cfg
	head, body, _ := strings.Cut(txt, ":")
	fmt.Sscanf(head, "%d,%d,%d", &c.qcap, &c.maxb, &c.bufsz)
	var p []dop
	for _, w := range strings.Fields(body) {
		switch w[0] {
		case 'e':
			p = append(p, dop{kind: dEmit})
		case 'm':
			k, _ := strconv.Atoi(w[1:])
			p = append(p, dop{dMutate, k})
		case 'f':
			p = append(p, dop{kind: dFlush})
		case 'p':
			p = append(p, dop{kind: dProbe})
		case 's':
			p = append(p, dop{kind: dShutdown})
		case 'x':
			p = append(p, dop{kind: dShutdownX})
		case 'M', 'R', 'L':
			k := dMode
			if w[0] == 'R' {
				k = dRelease
			}
			if w[0] == 'L' {
				k = dFlushLive
			}
			p = append(p, dop{k, strings.IndexByte("OEB", w[1])})
		}
	}
	return c, p
}

func genAndRun(r *vgen.Rand) (res detResult) {
	defer func() {
		if p := recover(); p != nil {
			res.stuck = fmt.Sprint("panic: ", p)
		}
	}()
	return runProg(r, nil, cfg{})
}

func runProg(r *vgen.Rand, fixed []dop, fc cfg) detResult {
	c := cfg{qcap: r.Range(1, 8), bufsz: r.Range(1, 3)}
	c.maxb = min(r.Range(1, 8), c.qcap) // the processor clamps the batch size to the queue size
	switch r.Intn(6) {
	case 0:
		c.qcap = r.Range(1, 3)
		c.maxb = min(c.maxb, c.qcap)
	case 1:
		c.maxb = 1 // every Emit triggers; chunking cuts every record apart
	case 2:
		c.maxb = c.qcap // poll triggers only on a full queue; no payload is ever chunked
	}
	bigDefault := fixed == nil && firstDet.CompareAndSwap(false, true) // once per run
	if bigDefault {
		c = cfg{dfltQ, dfltB, dfltS} // all defaults: exercised with one full default batch
	}
	if fixed != nil {
		c = fc
	}
	spec := spell(r, c, time.Hour, time.Hour)
	if ec := spec.effective(); ec != c {
		panic(fmt.Sprintf("harness: spelling %v of %v is %v", spec, c, ec))
	}
	rg := newRigSpec(spec)
	rg.viaProvider = r.Bool()
	rg.direct = r.Intn(3)
	s := &sim{c: c}
	res := detResult{c: c, sim: s, how: fmt.Sprintf("%v provider=%v direct=%d", spec, rg.viaProvider, rg.direct)}
	seq := 0
	nops := r.Range(6, 40)
	exec := func(o dop) bool {
		if res.unmet != "" {
			// the predictor is out of step with the implementation (already a reported
			// disagreement): go on with plain Emits only, nothing is waited for; the
			// history is still judged by the specification
			if o.kind == dEmit {
				rg.emitShape(0, 0, seq, 7)
				seq++
			}
			return true
		}
		res.prog = append(res.prog, o)
		k := s.apply(o)
		switch o.kind {
		case dEmit:
			rg.emitShape(0, 0, seq, shapes[r.Intn(len(shapes))])
			seq++
		case dMutate:
			rg.mut.how.Store(int32(o.arg))
		case dFlush:
			if !callWD(func() { rg.flush(0, context.Background()) }) {
				res.stuck = "ForceFlush(background) did not return"
				return false
			}
		case dShutdown:
			if !callWD(func() { rg.shutdown(0, context.Background()) }) {
				res.stuck = "Shutdown(background) did not return"
				return false
			}
		case dProbe, dShutdownX:
			ctx := newSctx()
			done := make(chan struct{})
			go func() {
				if o.kind == dProbe {
					rg.flush(0, ctx)
				} else {
					rg.shutdown(0, ctx)
				}
				close(done)
				ctx.wake()
			}()
			if k > 0 {
				if !waitDone(ctx, k, done) {
					res.stuck = fmt.Sprintf("scripted call did not reach its wait point %d", k)
					return false
				}
				ctx.cancel()
			}
			select {
			case <-done:
			case <-time.After(expectWD):
				// predicted to return by itself (or after the cancel): it waits somewhere
				// else, i.e. the implementation is not in the state the predictor assumes
				expectWD = 2 * time.Second
				res.unmet = "scripted call did not return where the predictor expected (" + o.coq() + ")"
				ctx.cancel()
				select {
				case <-done:
				case <-time.After(watchdog):
					res.stuck = "scripted call did not return after its context was cancelled"
					return false
				}
			}
		case dFlushLive:
			ctx := newSctx()
			ctx.live = true
			done := make(chan struct{})
			go func() { rg.flush(0, ctx); close(done); ctx.wake() }()
			if k > 0 && !waitDone(ctx, k, done) {
				res.stuck = fmt.Sprintf("ForceFlush(live context) did not reach its wait point %d", k)
				return false
			}
			rg.g.unblock(o.arg) // a call that returned early is judged on the history
			select {
			case <-done:
			case <-time.After(watchdog):
				res.stuck = "ForceFlush(live context) did not return after the exporter was released"
				return false
			}
		case dMode:
			rg.g.setMode(o.arg)
		case dRelease:
			rg.g.unblock(o.arg)
		}
		if rg.rec.isRunaway() {
			res.stuck = "runaway: the exporter was called without end"
			return false
		}
		if !rg.g.waitFor(func() bool { return rg.g.begins >= s.begins && rg.g.ends >= s.ends && rg.g.shuts >= s.shuts }, expectWD) {
			expectWD = 2 * time.Second
			res.unmet = fmt.Sprintf("gate saw %d/%d/%d export entries/returns/shutdowns, expected %d/%d/%d after %s",
				rg.g.begins, rg.g.ends, rg.g.shuts, s.begins, s.ends, s.shuts, o.coq())
			return true
		}
		return true
	}
	ok := true
	if bigDefault {
		for i, n := 0, dfltB+r.Range(0, 9); i < n && ok; i++ {
			ok = exec(dop{kind: dEmit})
		}
	}
	if fixed != nil {
		nops = 0
		for _, o := range fixed {
			if ok = exec(o); !ok {
				break
			}
		}
	}
	for i := 0; i < nops && ok; i++ {
		for _, o := range next(s, r) {
			if ok = exec(o); !ok {
				break
			}
		}
	}
	if ok && res.unmet == "" && s.blocked() {
		ok = exec(dop{dRelease, modeOK})
		if ok && s.dirty {
			ok = exec(dop{kind: dFlush})
		}
	}
	if ok && res.unmet == "" && !s.stopped {
		if s.mode == modeBlock {
			ok = exec(dop{dMode, modeOK})
		}
		if ok {
			ok = exec(dop{kind: dShutdown})
		}
	}
	if res.unmet != "" {
		rg.g.unblock(modeOK)
		callWD(func() { rg.flush(0, context.Background()) })
		callWD(func() { rg.shutdown(0, context.Background()) })
	}
	if !ok {
		rg.g.unblock(modeOK) // let the goroutines go
	}
	res.evs = rg.rec.take()
	return res
}

func callWD(f func()) bool {
	done := make(chan struct{})
	go func() { f(); close(done) }()
	select {
	case <-done:
		return true
	case <-time.After(watchdog):
		return false
	}
}

// waitDone waits until the scripted context has been asked Done() k times (or the call
// returned).
func waitDone(c *sctx, k int, done chan struct{}) bool {
	stop := time.AfterFunc(watchdog, func() { c.mu.Lock(); c.cond.Broadcast(); c.mu.Unlock() })
	defer stop.Stop()
	deadline := time.Now().Add(watchdog)
	c.mu.Lock()
	defer c.mu.Unlock()
	for c.doneCalls < k {
		select {
		case <-done:
			return true
		default:
		}
		if time.Now().After(deadline) {
			return false
		}
		c.cond.Wait()
	}
	return true
}

// corpus: run first on every run.  "ForceFlush behind a blocked export": the exporter is
// inside Export, one batch sits in the export buffer, the queue is (exactly) drained, a
// ForceFlush with a live context must not return before that batch was handed over.
var corpus = []string{
	"4,2,1: MB e e e p LO s", "4,2,2: MB e e e p LO s", "4,2,3: MB e e e p LO s",
	"3,1,1: MB e e p LO s", "3,1,2: MB e e p LO s", "3,1,3: MB e e p e p LO s",
	"8,4,2: MB e e e e e e e p LO e f s", "8,4,3: MB e e e e e e p e e p LO s",
	"6,3,2: MB e e e e e p LO e e e f s", "4,2,3: MB e e e p e LO s", "5,5,3: MB e e e e e e e p LO s",
	"4,2,2: MB e e e x s f RO", // F-C06-1
}

func runDet(w *vgen.Writer, r *vgen.Rand, n int) {
	for _, txt := range corpus {
		c, p := parseProg(txt)
		res := runProg(r.Fork(), p, c)
		res.how += " corpus"
		addDet(w, res)
	}
	for i := 0; i < n && stuckScenarios.Load() < 2 && unmetScenarios.Load() < 8; i++ {
		addDet(w, genAndRun(r.Fork()))
	}
}

func addDet(w *vgen.Writer, res detResult) {
	ps := make([]string, len(res.prog))
	for j, o := range res.prog {
		ps[j] = o.coq()
	}
	desc := map[string]any{"cfg": coqCfg(res.c), "how": res.how, "prog": ps, "history": descHistory(res.evs)}
	if len(res.evs) > 300 {
		desc["history"] = descHistory(res.evs[len(res.evs)-300:])
		desc["prog"] = ps[max(0, len(ps)-60):]
	}
	if res.stuck != "" {
		stuckScenarios.Add(1)
		if len(res.evs) > 400 {
			desc["history"] = descHistory(res.evs[:400])
		}
		w.Violation(strings.TrimPrefix("Stuck: "+res.stuck, "Stuck: panic: "), desc)
		return
	}
	if res.unmet != "" {
		unmetScenarios.Add(1)
		desc["unmet_expectation"] = res.unmet
		w.Tally("det.unmet_expectation")
	}
	term := "CDet " + coqCfg(res.c) + " [" + strings.Join(ps, "; ") + "] " + coqHistory(res.evs)
	s := res.sim
	w.Add(term, desc, "det", s.begins > 0 && (s.blockedOnce || s.overflowed))
	w.Tally(fmt.Sprintf("det.qcap=%d", res.c.qcap))
	w.Tally(fmt.Sprintf("det.maxb=%d", res.c.maxb))
	if s.overflowed {
		w.Tally("det.overflow")
	}
	if s.blockedOnce {
		w.Tally("det.blocked")
	}
	if res.c.maxb == res.c.qcap {
		w.Tally("det.batch=queue")
	}
	if res.c.qcap == dfltQ {
		w.Tally("det.all_defaults")
	}
	w.Tally("det." + res.how[strings.Index(res.how, "provider="):])
}
