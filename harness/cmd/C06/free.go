package main

import (
	"context"
	"fmt"
	"runtime"
	"sync"
	"sync/atomic"
	"time"

	"verif/harness/vgen"
)

// Free-running fragment: emitters, flushers and shutdown callers run concurrently
// against a gate exporter with random latency and failures.  The recorded history
// (Call before the call is issued, Ret after it returned, Begin/End inside the
// exporter, one global order) is judged by C06/Spec.v spec_ok.  Nothing here depends
// on timing for its verdict: the history is a prefix of what really happened, and the
// specification is checked position by position.

type freeResult struct {
	c        cfg
	evs      []event
	reported int
	stuck    string
	nilRet   bool
	desc     map[string]any
}

func freeOne(r *vgen.Rand) freeResult {
	G := r.Range(2, 16)
	per := make([]int, G)
	total := 0
	for i := range per {
		per[i] = r.Range(3, 30)
		total += per[i]
	}
	c := cfg{bufsz: r.Range(1, 3)}
	if r.Bool() {
		c.qcap = r.Range(1, 8)
	} else {
		c.qcap = total + r.Range(0, 64) // overflow impossible: every missing record is a loss
	}
	c.maxb = min(r.Range(1, 8), c.qcap)
	interval := []time.Duration{time.Millisecond, 5 * time.Millisecond, time.Hour}[r.Intn(3)]
	timeout := []time.Duration{time.Hour, time.Hour, 2 * time.Millisecond}[r.Intn(3)]
	rg := newRig(c, interval, timeout)
	rg.mut.how.Store(int32(r.Range(0, 4)))

	// exporter behaviour
	failDen := []int{0, 0, 10, 4}[r.Intn(4)]
	lat := r.Intn(3) // 0 none, 1 yield, 2 sleep
	honour := r.Bool()
	gr := r.Fork()
	var gmu sync.Mutex
	rg.g.behave = func(ctx context.Context, n int) error {
		gmu.Lock()
		fail := failDen > 0 && gr.Chance(1, failDen)
		d := time.Duration(gr.Range(20, 400)) * time.Microsecond
		gmu.Unlock()
		switch lat {
		case 1:
			runtime.Gosched()
		case 2:
			if honour {
				select {
				case <-time.After(d):
				case <-ctx.Done():
					return ctx.Err()
				}
			} else {
				time.Sleep(d)
			}
		}
		if fail {
			return errGate
		}
		return nil
	}

	before := sink.total.Load()
	var emitted atomic.Int64
	var wg sync.WaitGroup
	res := freeResult{c: c}
	var nilRet atomic.Bool

	for g := 0; g < G; g++ {
		wg.Add(1)
		pr := r.Fork()
		go func(g, n int) {
			defer wg.Done()
			for k := 0; k < n; k++ {
				rg.emit(g+1, g+1, k)
				emitted.Add(1)
				if pr.Chance(1, 4) {
					runtime.Gosched()
				}
			}
		}(g, per[g])
	}
	nFl := r.Range(0, 3)
	for f := 0; f < nFl; f++ {
		wg.Add(1)
		pr := r.Fork()
		go func(f int) {
			defer wg.Done()
			for j, n := 0, pr.Range(1, 4); j < n; j++ {
				for w := pr.Range(0, 20); w > 0; w-- {
					runtime.Gosched()
				}
				ctx, cancel := context.Background(), context.CancelFunc(func() {})
				if pr.Chance(1, 4) {
					ctx, cancel = context.WithTimeout(ctx, time.Duration(pr.Range(100, 2000))*time.Microsecond)
				}
				if rg.flush(100+f, ctx) == rNil {
					nilRet.Store(true)
				}
				cancel()
			}
		}(f)
	}
	nSd := []int{0, 1, 1, 2}[r.Intn(4)]
	for j := 0; j < nSd; j++ {
		wg.Add(1)
		pr := r.Fork()
		after := int64(pr.Range(0, total))
		go func(j int) {
			defer wg.Done()
			for emitted.Load() < after {
				runtime.Gosched()
			}
			ctx, cancel := context.Background(), context.CancelFunc(func() {})
			if pr.Chance(1, 4) {
				ctx, cancel = context.WithTimeout(ctx, time.Duration(pr.Range(100, 2000))*time.Microsecond)
			}
			rg.shutdown(200+j, ctx)
			cancel()
		}(j)
	}
	done := make(chan struct{})
	go func() { wg.Wait(); close(done) }()
	select {
	case <-done:
	case <-time.After(watchdog):
		res.stuck = "goroutines of a free-running scenario did not finish"
		res.evs = rg.rec.take()
		return res
	}
	if !callWD(func() { rg.shutdown(300, context.Background()) }) {
		res.stuck = "final Shutdown(background) did not return"
	}
	if rg.rec.isRunaway() {
		res.stuck = "runaway: the exporter was called without end"
	}
	// grace: let a drain that outlived an expired Shutdown finish (not needed for soundness)
	rg.g.waitFor(func() bool { return rg.g.inside == 0 }, 200*time.Millisecond)
	res.evs = rg.rec.take()
	res.nilRet = nilRet.Load()
	res.reported = int(sink.total.Load() - before)
	res.desc = map[string]any{"cfg": coqCfg(c), "emitters": G, "records": total, "flushers": nFl, "shutdowns": nSd,
		"interval": interval.String(), "timeout": timeout.String(), "fail_1_in": failDen, "latency": lat, "mutation": rg.mut.how.Load()}
	return res
}

func runFree(w *vgen.Writer, r *vgen.Rand, n int) {
	for i := 0; i < n && stuckScenarios.Load() < 2; i++ {
		res := freeOne(r.Fork())
		if res.stuck != "" {
			stuckScenarios.Add(1)
			if len(res.evs) > 400 {
				res.evs = res.evs[:400]
			}
			w.Violation("Stuck: "+res.stuck, map[string]any{"cfg": coqCfg(res.c), "history": descHistory(res.evs)})
			continue
		}
		nb := 0
		for _, e := range res.evs {
			if e.kind == evBegin {
				nb++
			}
		}
		term := "CFree " + coqCfg(res.c) + " " + coqHistory(res.evs) + " " + fmt.Sprint(res.reported)
		w.Add(term, res.desc, "free", nb > 0 && res.nilRet)
		if res.c.qcap <= 8 {
			w.Tally("free.small_queue")
		} else {
			w.Tally("free.no_overflow_possible")
		}
		if res.reported > 0 {
			w.Tally("free.drops_logged")
		}
	}
}

// hazard tries to reproduce the three-party schedule of DESIGN appendix A.2 (a record
// whose OnEmit straddles Shutdown's stopped.Swap is handed over by a ForceFlush that
// also straddles it, before Shutdown pushes the final batch).
func hazard(r *vgen.Rand, n int, w *vgen.Writer) {
	bad := 0
	for i := 0; i < n; i++ {
		rg := newRig(cfg{64, 8, 3}, time.Hour, time.Hour)
		var stop atomic.Bool
		var wg sync.WaitGroup
		for g := 1; g <= 2; g++ {
			wg.Add(1)
			go func(g int) {
				defer wg.Done()
				for k := 0; !stop.Load() && k < 5000; k++ {
					rg.emit(g, g, k)
				}
			}(g)
		}
		for f := 0; f < 3; f++ {
			wg.Add(1)
			go func(f int) {
				defer wg.Done()
				for !stop.Load() {
					rg.flush(100+f, context.Background())
				}
			}(f)
		}
		for w := r.Range(0, 2000); w > 0; w-- {
			runtime.Gosched()
		}
		rg.shutdown(200, context.Background())
		stop.Store(true)
		wg.Wait()
		evs := rg.rec.take()
		last := map[int]int{}
		was := bad
		defer func() {}()
		sdCall, sdRet := -1, -1
		for j, e := range evs {
			if e.op == opShutdown && e.kind == evCall {
				sdCall = j
			}
			if e.op == opShutdown && e.kind == evRet {
				sdRet = j
			}
		}
		for j, e := range evs {
			if e.kind == evBegin {
				for _, x := range e.batch {
					if l, ok := last[x.g]; ok && x.k <= l {
						bad++
						fmt.Printf("ORDER VIOLATION trial %d: goroutine %d record %d after %d; Begin at %d, Shutdown call at %d ret at %d, events %d\n", i, x.g, x.k, l, j, sdCall, sdRet, len(evs))
					}
					last[x.g] = x.k
				}
			}
		}
		if bad > was {
			w.Add("CFree "+coqCfg(cfg{64, 8, 3})+" "+coqHistory(evs)+" 0", map[string]any{"trial": i}, "hazard", true)
		}
	}
	fmt.Printf("hazard: %d order violations in %d trials\n", bad, n)
	w.Flush()
}
