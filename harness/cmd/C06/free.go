package main

import (
	"context"
	"fmt"
	"os"
	"os/exec"
	"runtime"
	"strings"
	"sync"
	"sync/atomic"
	"time"

	sdklog "go.opentelemetry.io/otel/sdk/log"

	"verif/harness/vgen"
)

// Free-running fragment: emitters, flushers and shutdown callers run concurrently
// against a gate exporter with random latency and failures.  The recorded history
// (Call before the call is issued, Ret after it returned, Begin/End inside the
// exporter, one global order) is judged by C06/Spec.v spec_ok.  Nothing here depends
// on timing for its verdict: the history is a prefix of what really happened, and the
// specification is checked position by position.

type freeResult struct {
	c          cfg
	evs        []event
	reported   int
	sinkBefore int64
	records    int
	stuck      string
	nilRet     bool
	desc       map[string]any
}

func freeOne(r *vgen.Rand) freeResult {
	G := r.Range(2, 16)
	per := make([]int, G)
	total := 0
	for i := range per {
		per[i] = r.Range(3, 30)
		total += per[i]
	}
	c := cfg{bufsz: r.Range(1, 3)}
	switch r.Intn(8) {
	case 0, 1, 2:
		c.qcap = r.Range(1, 8)
	case 3:
		c.qcap = dfltQ // defaults by omission / zero / negative values
	case 4:
		c.qcap = 1 << 15 // huge
		if r.Bool() {
			c.bufsz = 1 << 12
		}
	default:
		c.qcap = total + r.Range(0, 64) // overflow impossible: every missing record is a loss
	}
	c.maxb = min(r.Range(1, 8), c.qcap)
	switch r.Intn(6) {
	case 0:
		c.maxb = 1
	case 1:
		c.maxb = c.qcap
	case 2:
		if c.qcap >= dfltB {
			c.maxb = dfltB
		}
	}
	if c.qcap == dfltQ && r.Bool() {
		c.bufsz = dfltS
	}
	interval := []time.Duration{time.Millisecond, 5 * time.Millisecond, time.Hour, time.Second}[r.Intn(4)]
	timeout := []time.Duration{time.Hour, 30 * time.Second, 2 * time.Millisecond, 2 * time.Millisecond}[r.Intn(4)]
	spec := spell(r, c, interval, timeout)
	if ec := spec.effective(); ec != c {
		panic(fmt.Sprintf("harness: spelling %v of %v is %v", spec, c, ec))
	}
	rg := newRigSpec(spec)
	rg.mut.how.Store(int32(r.Range(0, nMut)))
	rg.viaProvider = r.Bool()
	rg.direct = r.Intn(3)
	shapeOf := make([]int, G)
	for i := range shapeOf {
		shapeOf[i] = shapes[r.Intn(len(shapes))]
	}

	// exporter behaviour: latency (none / yield / short sleep / sleep beyond the export
	// timeout on some calls), honouring its context or not, failing at random or every n-th call
	failDen := []int{0, 0, 10, 4}[r.Intn(4)]
	failNth := []int{0, 0, 0, 2, 3, 5}[r.Intn(6)]
	lat := r.Intn(4) // 0 none, 1 yield, 2 sleep, 3 sleep beyond the timeout on every 4th call
	if lat == 3 && timeout != 2*time.Millisecond {
		lat = 2
	}
	honour := r.Bool()
	gr := r.Fork()
	var gmu sync.Mutex
	calls := 0
	rg.g.behave = func(ctx context.Context, n int) error {
		gmu.Lock()
		calls++
		fail := (failDen > 0 && gr.Chance(1, failDen)) || (failNth > 0 && calls%failNth == 0)
		d := time.Duration(gr.Range(20, 400)) * time.Microsecond
		if lat == 3 && calls%4 == 0 {
			d = time.Duration(gr.Range(3000, 6000)) * time.Microsecond
		}
		gmu.Unlock()
		switch lat {
		case 1:
			runtime.Gosched()
		case 2, 3:
			if honour {
				select {
				case <-time.After(d):
				case <-ctx.Done():
					return ctx.Err()
				}
			} else {
				time.Sleep(d)
			}
		}
		if fail {
			return errGate
		}
		return nil
	}

	before := sink.total.Load()
	var emitted atomic.Int64
	var wg sync.WaitGroup
	var panicked atomic.Value
	guard := func() {
		if p := recover(); p != nil {
			panicked.Store(fmt.Sprint("panic: ", p))
		}
	}
	res := freeResult{c: c, records: total}
	var nilRet atomic.Bool

	for g := 0; g < G; g++ {
		wg.Add(1)
		pr := r.Fork()
		go func(g, n int) {
			defer wg.Done()
			defer guard()
			for k := 0; k < n; k++ {
				rg.emitShape(g+1, g+1, k, shapeOf[g])
				emitted.Add(1)
				if pr.Chance(1, 4) {
					runtime.Gosched()
				}
			}
		}(g, per[g])
	}
	nFl := r.Range(0, 3)
	for f := 0; f < nFl; f++ {
		wg.Add(1)
		pr := r.Fork()
		go func(f int) {
			defer wg.Done()
			defer guard()
			for j, n := 0, pr.Range(1, 4); j < n; j++ {
				for w := pr.Range(0, 20); w > 0; w-- {
					runtime.Gosched()
				}
				ctx, cancel := someCtx(pr)
				if rg.flush(100+f, ctx) == rNil {
					nilRet.Store(true)
				}
				cancel()
			}
		}(f)
	}
	nSd := []int{0, 1, 1, 2}[r.Intn(4)]
	for j := 0; j < nSd; j++ {
		wg.Add(1)
		pr := r.Fork()
		after := int64(pr.Range(0, total))
		go func(j int) {
			defer wg.Done()
			defer guard()
			for emitted.Load() < after {
				runtime.Gosched()
			}
			ctx, cancel := someCtx(pr)
			rg.shutdown(200+j, ctx)
			cancel()
		}(j)
	}
	done := make(chan struct{})
	go func() { wg.Wait(); close(done) }()
	select {
	case <-done:
	case <-time.After(watchdog):
		res.stuck = "goroutines of a free-running scenario did not finish"
		res.evs = rg.rec.take()
		return res
	}
	if !callWD(func() { rg.shutdown(300, context.Background()) }) {
		res.stuck = "final Shutdown(background) did not return"
	}
	if rg.rec.isRunaway() {
		res.stuck = "runaway: the exporter was called without end"
	}
	if p := panicked.Load(); p != nil {
		res.stuck = p.(string)
	}
	// grace: let a drain that outlived an expired Shutdown finish (not needed for soundness)
	rg.g.waitFor(func() bool { return rg.g.inside == 0 }, 200*time.Millisecond)
	res.evs = rg.rec.take()
	res.nilRet = nilRet.Load()
	res.sinkBefore = before
	res.desc = map[string]any{"cfg": coqCfg(c), "options": spec.String(), "provider": rg.viaProvider, "direct": rg.direct, "fail_every": failNth, "emitters": G, "records": total, "flushers": nFl, "shutdowns": nSd,
		"interval": interval.String(), "timeout": timeout.String(), "fail_1_in": failDen, "latency": lat, "mutation": rg.mut.how.Load()}
	return res
}

// someCtx: background (mostly), expiring soon, or already cancelled.
func someCtx(pr *vgen.Rand) (context.Context, context.CancelFunc) {
	switch pr.Intn(8) {
	case 0, 1:
		return context.WithTimeout(context.Background(), time.Duration(pr.Range(100, 2000))*time.Microsecond)
	case 2:
		ctx, cancel := context.WithCancel(context.Background())
		cancel()
		return ctx, cancel
	}
	return context.Background(), func() {}
}

func runFree(w *vgen.Writer, r *vgen.Rand, n int) {
	quiesce(2 * time.Second)
	baseline := runtime.NumGoroutine()
	for i := 0; i < n && stuckScenarios.Load() < 2; i++ {
		// The drop counter comes through otel's process-global logger.  A poll goroutine of
		// the previous scenario may still be running (a Shutdown that gave up on its context
		// does not wait for it): its lines are attributed to a scenario only when all
		// goroutines of the neighbouring scenarios are known to be gone; otherwise the
		// count is not used (0).  Timing decides whether the auxiliary check applies, never
		// its verdict.
		cleanBefore := quiesceTo(baseline, 300*time.Millisecond)
		res := freeOne(r.Fork())
		if !cleanBefore || !quiesceTo(baseline, 300*time.Millisecond) {
			res.reported = 0
			w.Tally("free.drop_count_not_attributable")
		} else {
			res.reported = int(sink.total.Load() - res.sinkBefore)
		}
		if res.stuck != "" {
			stuckScenarios.Add(1)
			if len(res.evs) > 400 {
				res.evs = res.evs[:400]
			}
			w.Violation("Stuck: "+res.stuck, map[string]any{"cfg": coqCfg(res.c), "history": descHistory(res.evs)})
			continue
		}
		nb := 0
		for _, e := range res.evs {
			if e.kind == evBegin {
				nb++
			}
		}
		// the queue size only enters the judgement through "more than qcap records were
		// pending"; any value above the number of records emitted gives the same verdict
		// (large unary numbers are slow in Coq), the buffer size is not judged at all
		cc := res.c
		cc.qcap = min(cc.qcap, res.records+64)
		cc.bufsz = min(cc.bufsz, 8)
		term := "CFree " + coqCfg(cc) + " " + coqHistory(res.evs) + " " + fmt.Sprint(res.reported)
		w.Add(term, res.desc, "free", nb > 0 && res.nilRet)
		if res.c.qcap <= 8 {
			w.Tally("free.small_queue")
		} else {
			w.Tally("free.no_overflow_possible")
		}
		if res.c.qcap == dfltQ {
			w.Tally("free.default_queue")
		}
		if res.c.maxb == 1 {
			w.Tally("free.batch=1")
		}
		if res.c.maxb == res.c.qcap {
			w.Tally("free.batch=queue")
		}
		if res.reported > 0 {
			w.Tally("free.drops_logged")
		}
	}
}

// hazard tries to reproduce the three-party schedule of DESIGN appendix A.2 (a record
// whose OnEmit straddles Shutdown's stopped.Swap is handed over by a ForceFlush that
// also straddles it, before Shutdown pushes the final batch).
func hazard(r *vgen.Rand, n int, w *vgen.Writer) {
	bad := 0
	for i := 0; i < n; i++ {
		rg := newRig(cfg{64, 8, 3}, time.Hour, time.Hour)
		var stop atomic.Bool
		var wg sync.WaitGroup
		for g := 1; g <= 2; g++ {
			wg.Add(1)
			go func(g int) {
				defer wg.Done()
				for k := 0; !stop.Load() && k < 5000; k++ {
					rg.emit(g, g, k)
				}
			}(g)
		}
		for f := 0; f < 3; f++ {
			wg.Add(1)
			go func(f int) {
				defer wg.Done()
				for !stop.Load() {
					rg.flush(100+f, context.Background())
				}
			}(f)
		}
		for w := r.Range(0, 2000); w > 0; w-- {
			runtime.Gosched()
		}
		rg.shutdown(200, context.Background())
		stop.Store(true)
		wg.Wait()
		evs := rg.rec.take()
		last := map[int]int{}
		was := bad
		defer func() {}()
		sdCall, sdRet := -1, -1
		for j, e := range evs {
			if e.op == opShutdown && e.kind == evCall {
				sdCall = j
			}
			if e.op == opShutdown && e.kind == evRet {
				sdRet = j
			}
		}
		for j, e := range evs {
			if e.kind == evBegin {
				for _, x := range e.batch {
					if l, ok := last[x.g]; ok && x.k <= l {
						bad++
						fmt.Printf("ORDER VIOLATION trial %d: goroutine %d record %d after %d; Begin at %d, Shutdown call at %d ret at %d, events %d\n", i, x.g, x.k, l, j, sdCall, sdRet, len(evs))
					}
					last[x.g] = x.k
				}
			}
		}
		if bad > was {
			w.Add("CFree "+coqCfg(cfg{64, 8, 3})+" "+coqHistory(evs)+" 0", map[string]any{"trial": i}, "hazard", true)
		}
	}
	fmt.Printf("hazard: %d order violations in %d trials\n", bad, n)
	w.Flush()
}

// runMisc drives the entry points that have no exporter-side observation: a processor
// built around a nil exporter and the zero-value processor.  Only a panic or a hang is
// reported (the property says nothing else about them).
// child: scenarios that can kill the process.  "clamp": a batch size of 2^30 with a
// queue of 4 must behave as batch size 4 (a processor that allocated by the unclamped
// value would die).  Prints the exported batch sizes.
func child(kind string) {
	rec := &recorder{}
	g := newGate(rec)
	bp := sdklog.NewBatchProcessor(g, sdklog.WithMaxQueueSize(4), sdklog.WithExportMaxBatchSize(1<<30), sdklog.WithExportInterval(time.Hour))
	lg := sdklog.NewLoggerProvider(sdklog.WithProcessor(bp)).Logger("c06")
	for k := 0; k < 4; k++ {
		lg.Emit(context.Background(), mkRecord(0, k, 7))
	}
	ok := g.waitFor(func() bool { return g.ends >= 1 }, watchdog) // the full queue is one batch: poll exports it
	lg.Emit(context.Background(), mkRecord(0, 4, 7))
	_ = bp.ForceFlush(context.Background())
	_ = bp.Shutdown(context.Background())
	sizes := []int{}
	for _, e := range rec.take() {
		if e.kind == evBegin {
			sizes = append(sizes, len(e.batch))
		}
	}
	fmt.Println("CHILD", kind, ok, sizes)
}

func runMisc(w *vgen.Writer, out string) {
	{
		cmd := exec.Command(os.Args[0], "-c06-child", "clamp", "-out", out)
		cmd.WaitDelay = time.Second
		res := make(chan string, 1)
		go func() {
			b, err := cmd.CombinedOutput()
			txt := string(b)
			if len(txt) > 600 {
				txt = txt[:600]
			}
			if err != nil {
				res <- "Crashed: " + err.Error() + ": " + txt
			} else if !strings.Contains(txt, "CHILD clamp true [4 1]") {
				res <- "unexpected: " + txt
			} else {
				res <- ""
			}
		}()
		select {
		case r := <-res:
			if r != "" {
				w.Violation("batch size 2^30 with queue size 4 (child process): "+r, map[string]any{})
			}
		case <-time.After(4 * watchdog):
			if cmd.Process != nil {
				cmd.Process.Kill()
			}
			w.Violation("Stuck: batch size 2^30 with queue size 4 (child process)", map[string]any{})
		}
		w.Tally("misc.child clamp 2^30")
	}
	try := func(what string, f func()) {
		done := make(chan any, 1)
		go func() {
			defer func() { done <- recover() }()
			f()
		}()
		select {
		case p := <-done:
			if p != nil {
				w.Violation("panic: "+what, map[string]any{"panic": fmt.Sprint(p)})
			}
		case <-time.After(watchdog):
			w.Violation("Stuck: "+what, map[string]any{})
		}
		w.Tally("misc." + what)
	}
	try("nil exporter", func() {
		bp := sdklog.NewBatchProcessor(nil, sdklog.WithMaxQueueSize(2), sdklog.WithExportMaxBatchSize(2))
		lg := sdklog.NewLoggerProvider(sdklog.WithProcessor(bp)).Logger("c06")
		for k := 0; k < 5; k++ {
			lg.Emit(context.Background(), mkRecord(0, k, 7))
		}
		_ = bp.ForceFlush(context.Background())
		_ = bp.Shutdown(context.Background())
		_ = bp.Shutdown(context.Background())
	})
	try("zero-value processor", func() {
		bp := new(sdklog.BatchProcessor)
		var r sdklog.Record
		_ = bp.OnEmit(context.Background(), &r)
		_ = bp.ForceFlush(context.Background())
		_ = bp.Shutdown(context.Background())
	})
}

// quiesceTo waits (bounded) until the number of goroutines is back to base.
func quiesceTo(base int, d time.Duration) bool {
	deadline := time.Now().Add(d)
	for runtime.NumGoroutine() > base {
		if time.Now().After(deadline) {
			return false
		}
		time.Sleep(200 * time.Microsecond)
	}
	return true
}

// quiesce waits until the number of goroutines stops falling (start of the fragment).
func quiesce(d time.Duration) {
	deadline := time.Now().Add(d)
	last, same := runtime.NumGoroutine(), 0
	for same < 20 && time.Now().Before(deadline) {
		time.Sleep(500 * time.Microsecond)
		if n := runtime.NumGoroutine(); n == last {
			same++
		} else {
			last, same = n, 0
		}
	}
}

// runDeadlines: the export timeout is PER CHUNK (chunkExporter wraps timeoutExporter).
// The exporter notes the deadline of every Export call's context and takes >= 1 ms per
// call, so with a fresh timeout per call all deadlines differ; a deadline shared by the
// chunks of one payload (decorators swapped) shows as two consecutive calls with the SAME
// deadline, a missing timeoutExporter as a call without deadline.  No real-time bound is
// judged: slow scheduling only moves fresh deadlines further apart.  A large ForceFlush
// payload is produced by filling the queue while the exporter is blocked and the export
// buffer is full; if the poll goroutine wins every race for it the run is inconclusive.
func runDeadlines(w *vgen.Writer, r *vgen.Rand, rounds int) {
	for round := 0; round < rounds && stuckScenarios.Load() < 2; round++ {
		c := cfg{qcap: 24, maxb: r.Range(2, 3), bufsz: 1}
		n := r.Range(10, 20)
		rg := newRigSpec(optSpec{q: ip(c.qcap), b: ip(c.maxb), s: ip(c.bufsz), interval: dp(time.Hour), timeout: dp(time.Minute)})
		rg.viaProvider, rg.direct = r.Bool(), r.Intn(3)
		release := make(chan struct{})
		var mu sync.Mutex
		var dls []time.Time
		noDeadline := 0
		calls := 0
		rg.g.behave = func(ctx context.Context, _ int) error {
			mu.Lock()
			calls++
			first := calls == 1
			if dl, ok := ctx.Deadline(); ok {
				dls = append(dls, dl)
			} else {
				noDeadline++
				dls = append(dls, time.Time{})
			}
			mu.Unlock()
			if first {
				<-release
			}
			time.Sleep(time.Millisecond)
			return nil
		}
		stuck := ""
		seq := 0
		emit := func(k int) {
			for i := 0; i < k; i++ {
				rg.emitShape(0, 0, seq, shapes[r.Intn(len(shapes))])
				seq++
			}
		}
		emit(c.maxb) // poll hands the first batch over; Export blocks
		if !rg.g.waitFor(func() bool { return rg.g.begins >= 1 }, watchdog) {
			stuck = "first batch never reached the exporter"
		}
		if stuck == "" { // fill the one-slot export buffer with a flush marker
			ctx := newSctx()
			done := make(chan struct{})
			go func() { rg.flush(0, ctx); close(done); ctx.wake() }()
			waitDone(ctx, 2, done)
			ctx.cancel()
			<-done
			emit(n) // nobody can take these: buffer full, exporter blocked
			ctx2 := newSctx()
			ctx2.live = true
			done2 := make(chan struct{})
			go func() { rg.flush(0, ctx2); close(done2) }()
			close(release)
			select {
			case <-done2:
			case <-time.After(watchdog):
				stuck = "ForceFlush(live context) did not return after the exporter was released"
				ctx2.cancel()
			}
		}
		if stuck == "" && !callWD(func() { rg.shutdown(0, context.Background()) }) {
			stuck = "Shutdown(background) did not return"
		}
		evs := rg.rec.take()
		if stuck != "" {
			stuckScenarios.Add(1)
			close(release)
			w.Violation("Stuck: per-chunk timeout scenario: "+stuck, map[string]any{"cfg": coqCfg(c)})
			continue
		}
		mu.Lock()
		shared := -1
		for i := 1; i < len(dls); i++ {
			if !dls[i].IsZero() && dls[i].Equal(dls[i-1]) {
				shared = i
			}
		}
		nd, nc := noDeadline, calls
		mu.Unlock()
		desc := map[string]any{"cfg": coqCfg(c), "records": c.maxb + n, "export_calls": nc}
		if nd > 0 {
			w.Violation(fmt.Sprintf("export timeout: %d of %d Export calls got a context without deadline although WithExportTimeout(1m) is set", nd, nc), desc)
		}
		if shared >= 0 {
			w.Violation(fmt.Sprintf("export timeout is not per chunk: Export calls %d and %d of %d (batch size %d, %d records flushed at once) share one deadline", shared, shared+1, nc, c.maxb, n), desc)
		}
		w.Add("CFree "+coqCfg(c)+" "+coqHistory(evs)+" 0", desc, "deadlines", true)
		w.Tally("misc.per-chunk deadline")
	}
}
