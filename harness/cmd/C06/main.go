// C06 harness: the real sdk/log BatchProcessor driven through its public API against a
// gate exporter; observations are written as Coq cases for C06/Corr.v.
//
// main.go  recorder, gate exporter, scripted context, rig, Coq emitter, main
// det.go   deterministic fragment (single driver goroutine, op lists, predictor)
// free.go  free-running fragment (many goroutines, recorded histories)
package main

import (
	"context"
	"errors"
	"flag"
	"fmt"
	"os"
	"strconv"
	"strings"
	"sync"
	"sync/atomic"
	"time"

	"github.com/go-logr/logr"

	"go.opentelemetry.io/otel"
	"go.opentelemetry.io/otel/log"
	sdklog "go.opentelemetry.io/otel/sdk/log"

	"verif/harness/vgen"
)

const (
	opEmit = iota
	opFlush
	opShutdown
)
const (
	rNil = iota
	rCtx
	rOther
)
const (
	evCall = iota
	evRet
	evBegin
	evEnd
	evExpShutdown
)

type recID struct{ g, k, body int }

type event struct {
	kind  int
	t     int
	op    int
	r     recID
	ret   int
	batch []recID
	ok    bool
}

// recorder stores events under one lock: the stored order is the global sequence.
// Call events are recorded before the call is issued, Ret events after it returned.
type recorder struct {
	mu      sync.Mutex
	evs     []event
	closed  bool
	runaway bool // more events than any scenario can produce: something exports without end
}

const maxEvents = 40000

var stuckScenarios atomic.Int32 // after a few stuck scenarios the harness stops generating

func (r *recorder) add(e event) {
	r.mu.Lock()
	if !r.closed {
		if len(r.evs) >= maxEvents {
			r.runaway = true
			r.closed = true
		} else {
			r.evs = append(r.evs, e)
		}
	}
	r.mu.Unlock()
}

func (r *recorder) isRunaway() bool { r.mu.Lock(); defer r.mu.Unlock(); return r.runaway }

// take closes the history: what was recorded so far is a prefix of the real history
// (the specification is checked position by position, so judging a prefix is sound).
func (r *recorder) take() []event {
	r.mu.Lock()
	defer r.mu.Unlock()
	r.closed = true
	return append([]event(nil), r.evs...)
}

func classify(err error) int {
	switch {
	case err == nil:
		return rNil
	case errors.Is(err, context.Canceled) || errors.Is(err, context.DeadlineExceeded):
		return rCtx
	default:
		return rOther
	}
}

// ---- drop counter: the poll goroutine logs "dropped log records" with the count ----

type dropSink struct{ total atomic.Int64 }

var sink = &dropSink{}

func (s *dropSink) Init(logr.RuntimeInfo)                  {}
func (s *dropSink) Enabled(int) bool                       { return true }
func (s *dropSink) Error(error, string, ...interface{})    {}
func (s *dropSink) WithValues(...interface{}) logr.LogSink { return s }
func (s *dropSink) WithName(string) logr.LogSink           { return s }
func (s *dropSink) Info(_ int, msg string, kv ...interface{}) {
	if msg != "dropped log records" {
		return
	}
	for i := 0; i+1 < len(kv); i += 2 {
		if k, ok := kv[i].(string); ok && k == "dropped" {
			switch x := kv[i+1].(type) {
			case uint64:
				s.total.Add(int64(x))
			case int:
				s.total.Add(int64(x))
			case int64:
				s.total.Add(x)
			case uint32:
				s.total.Add(int64(x))
			}
		}
	}
}

// ---- records: body "g:k"; the attribute shape (how many attributes, which of them
// nested) is carried in the severity text so that the exporter side can rebuild what
// was emitted.  Shapes: 0, 3, 5 (all inline), 7, 9 (the rest in the backing slice that
// Clone must copy); shapes >= 100 are the same counts with nested slice / map values.

var shapes = []int{7, 7, 0, 3, 5, 9, 107, 103, 109}

func attrVal(id string, shape, i int) log.Value {
	if shape >= 100 {
		switch i % 3 {
		case 1:
			return log.SliceValue(log.StringValue(id), log.Int64Value(int64(i)))
		case 2:
			return log.MapValue(log.String("id", id), log.Slice("s", log.StringValue(id), log.BoolValue(true)))
		}
	}
	return log.StringValue(id)
}

func attrs(id string, shape int) []log.KeyValue {
	n := shape % 100
	kvs := make([]log.KeyValue, n)
	for i := range kvs {
		kvs[i] = log.KeyValue{Key: "a" + strconv.Itoa(i), Value: attrVal(id, shape, i)}
	}
	return kvs
}

func recID_(g, k int) string { return strconv.Itoa(g) + ":" + strconv.Itoa(k) }

func mkRecord(g, k, shape int) log.Record {
	var r log.Record
	id := recID_(g, k)
	r.SetBody(log.StringValue(id))
	r.SetSeverity(log.SeverityInfo)
	r.SetSeverityText(strconv.Itoa(shape))
	r.AddAttributes(attrs(id, shape)...)
	return r
}

// fillRecord prepares a caller-owned sdk record (a clone of a template obtained from a
// LoggerProvider) for a direct OnEmit call.
func fillRecord(r *sdklog.Record, g, k, shape int) {
	id := recID_(g, k)
	r.SetBody(log.StringValue(id))
	r.SetSeverity(log.SeverityInfo)
	r.SetSeverityText(strconv.Itoa(shape))
	r.SetAttributes(attrs(id, shape)...)
}

func parseID(id string) (int, int, bool) {
	if i := strings.IndexByte(id, ':'); i > 0 {
		a, e1 := strconv.Atoi(id[:i])
		b, e2 := strconv.Atoi(id[i+1:])
		if e1 == nil && e2 == nil {
			return a, b, true
		}
	}
	return 999, 999, false
}

// identify reads an exported record back: goroutine, sequence number, and 0 if the
// content is exactly what was emitted (1 otherwise).
func identify(r *sdklog.Record) recID {
	id := ""
	if r.Body().Kind() == log.KindString {
		id = r.Body().AsString()
	}
	g, k, ok := parseID(id)
	body := 0
	shape, err := strconv.Atoi(r.SeverityText())
	if !ok || err != nil || r.EventName() != "" || r.Severity() != log.SeverityInfo {
		body = 1
	} else {
		want := attrs(id, shape)
		if r.AttributesLen() != len(want) || r.DroppedAttributes() != 0 {
			body = 1
		}
		i := 0
		r.WalkAttributes(func(kv log.KeyValue) bool {
			if i >= len(want) || kv.Key != want[i].Key || !kv.Value.Equal(want[i].Value) {
				body = 1
			}
			i++
			return true
		})
	}
	if !ok {
		// a changed body: recover the identity from an attribute if one survived
		r.WalkAttributes(func(kv log.KeyValue) bool {
			if kv.Value.Kind() == log.KindString && !ok {
				g, k, ok = parseID(kv.Value.AsString())
			}
			return true
		})
	}
	return recID{g, k, body}
}

// mutate edits a record after the batch processor was handed it.
func mutate(how int, r *sdklog.Record) {
	switch how {
	case 1:
		r.SetBody(log.StringValue("MUT"))
	case 2:
		r.AddAttributes(log.String("a6", "MUT"), log.String("a5", "MUT")) // overwrites in place when present
	case 3:
		r.SetAttributes(log.String("z", "MUT"))
	case 4:
		r.SetBody(log.StringValue("MUT"))
		r.AddAttributes(log.String("a5", "MUT"), log.String("new", "MUT"))
		r.AddAttributes(log.String("a0", "MUT"))
	case 5:
		r.SetSeverityText("MUT")
		r.SetEventName("MUT")
		r.AddAttributes(log.Slice("a7", log.StringValue("MUT")), log.Map("a8", log.String("id", "MUT")))
	case 6:
		r.AddAttributes(log.Slice("a1", log.StringValue("MUT")), log.Map("a2", log.String("id", "MUT")), log.String("a6", "MUT"))
		r.SetSeverity(log.SeverityError)
	}
}

const nMut = 6

// mutator is registered AFTER the batch processor: it edits the record the batch
// processor was handed (what "later changes to the caller's record" means for Emit).
type mutator struct{ how atomic.Int32 }

func (m *mutator) OnEmit(_ context.Context, r *sdklog.Record) error {
	mutate(int(m.how.Load()), r)
	return nil
}
func (m *mutator) Shutdown(context.Context) error   { return nil }
func (m *mutator) ForceFlush(context.Context) error { return nil }

// failer is registered BEFORE the batch processor and reports an error for every
// third record (without touching it): the batch processor must still get every record.
type failer struct{ n atomic.Int64 }

var errFailer = errors.New("failer: record rejected")

func (f *failer) OnEmit(context.Context, *sdklog.Record) error {
	if f.n.Add(1)%3 == 0 {
		return errFailer
	}
	return nil
}
func (f *failer) Shutdown(context.Context) error   { return nil }
func (f *failer) ForceFlush(context.Context) error { return nil }

// cloneEditor edits a CLONE of the record (which must not show anywhere else).
type cloneEditor struct{}

func (cloneEditor) OnEmit(_ context.Context, r *sdklog.Record) error {
	c := r.Clone()
	mutate(4, &c)
	mutate(6, &c)
	return nil
}
func (cloneEditor) Shutdown(context.Context) error   { return nil }
func (cloneEditor) ForceFlush(context.Context) error { return nil }

// capture keeps a clone of the record it sees: the template for direct OnEmit calls.
type capture struct{ rec sdklog.Record }

func (c *capture) OnEmit(_ context.Context, r *sdklog.Record) error { c.rec = r.Clone(); return nil }
func (c *capture) Shutdown(context.Context) error                   { return nil }
func (c *capture) ForceFlush(context.Context) error                 { return nil }

var replayProg = flag.String("c06-prog", "", "replay one deterministic program \"q,b,s: ops\" -c06-n times and print the histories")
var replayN = flag.Int("c06-n", 1, "repetitions for -c06-prog")
var childKind = flag.String("c06-child", "", "internal: run one scenario that may kill the process")
var extraSeed = flag.Int("c06-probe", 0, "run the order-hazard reproduction attempt this many times and exit")

// ---- gate exporter ----

const (
	modeOK = iota
	modeErr
	modeBlock
)

var errGate = errors.New("gate: export failed")

type gate struct {
	rec *recorder

	mu      sync.Mutex
	cond    *sync.Cond
	mode    int
	release chan struct{}
	begins  int
	ends    int
	shuts   int
	inside  int
	behave  func(ctx context.Context, n int) error // free-running: latency / failure
}

func newGate(rec *recorder) *gate {
	g := &gate{rec: rec, release: make(chan struct{})}
	g.cond = sync.NewCond(&g.mu)
	return g
}

func (g *gate) Export(ctx context.Context, rs []sdklog.Record) error {
	b := make([]recID, len(rs))
	for i := range rs {
		b[i] = identify(&rs[i])
	}
	g.mu.Lock()
	g.begins++
	g.inside++
	mode, rel := g.mode, g.release
	g.rec.add(event{kind: evBegin, batch: b})
	g.cond.Broadcast()
	g.mu.Unlock()

	var err error
	switch {
	case g.behave != nil:
		err = g.behave(ctx, len(rs))
	case mode == modeErr:
		err = errGate
	case mode == modeBlock:
		<-rel // ignores ctx on purpose: only the harness releases it
	}

	g.mu.Lock()
	g.inside--
	g.ends++
	g.rec.add(event{kind: evEnd, ok: err == nil})
	g.cond.Broadcast()
	g.mu.Unlock()
	return err
}

func (g *gate) Shutdown(context.Context) error {
	g.mu.Lock()
	g.shuts++
	g.rec.add(event{kind: evExpShutdown})
	g.cond.Broadcast()
	g.mu.Unlock()
	return nil
}
func (g *gate) ForceFlush(context.Context) error { return nil }

func (g *gate) setMode(m int) { g.mu.Lock(); g.mode = m; g.mu.Unlock() }

// unblock releases the blocked export (it returns nil); later exports follow mode m.
func (g *gate) unblock(m int) {
	g.mu.Lock()
	g.mode = m
	close(g.release)
	g.release = make(chan struct{})
	g.mu.Unlock()
}

// waitFor waits until pred (evaluated under the gate lock) holds; false on timeout.
func (g *gate) waitFor(pred func() bool, d time.Duration) bool {
	deadline := time.Now().Add(d)
	stop := time.AfterFunc(d+10*time.Millisecond, func() { g.mu.Lock(); g.cond.Broadcast(); g.mu.Unlock() })
	defer stop.Stop()
	g.mu.Lock()
	defer g.mu.Unlock()
	for !pred() {
		if time.Now().After(deadline) {
			return false
		}
		g.cond.Wait()
	}
	return true
}

// ---- scripted context: counts Done() calls, expires when Err() is consulted (the
// hand-over loop asks only after a refusal) or when the harness cancels it ----

type sctx struct {
	mu        sync.Mutex
	cond      *sync.Cond
	done      chan struct{}
	closed    bool
	doneCalls int
	live      bool // never expires by itself: Err() answers nil until cancelled
}

func newSctx() *sctx {
	c := &sctx{done: make(chan struct{})}
	c.cond = sync.NewCond(&c.mu)
	return c
}
func (c *sctx) Deadline() (time.Time, bool) { return time.Time{}, false }
func (c *sctx) Value(any) any               { return nil }
func (c *sctx) Done() <-chan struct{} {
	c.mu.Lock()
	c.doneCalls++
	c.cond.Broadcast()
	c.mu.Unlock()
	return c.done
}
func (c *sctx) cancelLocked() {
	if !c.closed {
		c.closed = true
		close(c.done)
	}
}
func (c *sctx) Err() error {
	c.mu.Lock()
	defer c.mu.Unlock()
	if c.live && !c.closed {
		return nil
	}
	c.cancelLocked()
	return context.Canceled
}

// wake makes a waiter re-check (the call returned).
func (c *sctx) wake() { c.mu.Lock(); c.cond.Broadcast(); c.mu.Unlock() }

func (c *sctx) cancel() { c.mu.Lock(); c.cancelLocked(); c.cond.Broadcast(); c.mu.Unlock() }

// ---- rig ----

// cfg is the EFFECTIVE configuration (what the documentation says the processor uses):
// values below one fall back to the defaults, the batch size is clamped to the queue size.
type cfg struct{ qcap, maxb, bufsz int }

const (
	dfltQ = 2048
	dfltB = 512
	dfltS = 1
)

// optSpec is how the configuration is SPELLED: nil = option not given.
type optSpec struct {
	q, b, s           *int
	interval, timeout *time.Duration
	chain             int // processors registered before the batch processor: 0 none, 1 a failing one, 2 failing + clone-editing
}

func ip(v int) *int                     { return &v }
func dp(v time.Duration) *time.Duration { return &v }

func (o optSpec) effective() cfg {
	c := cfg{dfltQ, dfltB, dfltS}
	if o.q != nil && *o.q >= 1 {
		c.qcap = *o.q
	}
	if o.b != nil && *o.b >= 1 {
		c.maxb = *o.b
	}
	c.maxb = min(c.maxb, c.qcap)
	if o.s != nil && *o.s >= 1 {
		c.bufsz = *o.s
	}
	return c
}

func (o optSpec) String() string {
	f := func(p *int) string {
		if p == nil {
			return "-"
		}
		return strconv.Itoa(*p)
	}
	g := func(p *time.Duration) string {
		if p == nil {
			return "-"
		}
		return p.String()
	}
	return "chain=" + strconv.Itoa(o.chain) + " q=" + f(o.q) + " b=" + f(o.b) + " s=" + f(o.s) + " interval=" + g(o.interval) + " timeout=" + g(o.timeout)
}

// spell chooses a spelling of the effective configuration c (plain; batch size left to
// the processor's clamp; defaults by omission or by zero / negative values).
func spell(r *vgen.Rand, c cfg, interval, timeout time.Duration) optSpec {
	o := optSpec{q: ip(c.qcap), b: ip(c.maxb), s: ip(c.bufsz), interval: dp(interval), timeout: dp(timeout)}
	bad := []int{0, -1, -1 << 31}
	if c.maxb == c.qcap && r.Chance(1, 2) {
		o.b = ip(c.qcap + []int{1, 7, 3*c.qcap + 3}[r.Intn(3)]) // clamped by the processor (2^30: child process, runMisc)
	}
	if c.maxb == dfltB && c.qcap >= dfltB {
		o.b = []*int{nil, ip(0), ip(-5)}[r.Intn(3)]
	}
	if c.qcap == dfltQ {
		o.q = []*int{nil, ip(0), ip(-1)}[r.Intn(3)]
	}
	if c.bufsz == dfltS && r.Chance(1, 3) {
		o.s = []*int{nil, ip(bad[r.Intn(3)])}[r.Intn(2)]
	}
	if timeout == 30*time.Second {
		o.timeout = []*time.Duration{nil, dp(0), dp(-time.Second)}[r.Intn(3)]
	}
	o.chain = r.Intn(3)
	if interval == time.Second {
		o.interval = []*time.Duration{nil, dp(0), dp(-time.Hour)}[r.Intn(3)]
	}
	return o
}

type rig struct {
	rec    *recorder
	g      *gate
	bp     *sdklog.BatchProcessor
	lp     *sdklog.LoggerProvider
	mut    *mutator
	logger log.Logger
	tmpl   sdklog.Record
	// how calls are issued
	viaProvider bool // ForceFlush / Shutdown through the LoggerProvider
	direct      int  // 0: Logger.Emit, 1: processor.OnEmit with a caller-owned record, 2: alternate
	nEmit       int
}

func newRig(c cfg, interval, timeout time.Duration) *rig {
	return newRigSpec(optSpec{q: ip(c.qcap), b: ip(c.maxb), s: ip(c.bufsz), interval: dp(interval), timeout: dp(timeout)})
}

func newRigSpec(o optSpec) *rig {
	rec := &recorder{}
	g := newGate(rec)
	var opts []sdklog.BatchProcessorOption
	if o.q != nil {
		opts = append(opts, sdklog.WithMaxQueueSize(*o.q))
	}
	if o.b != nil {
		opts = append(opts, sdklog.WithExportMaxBatchSize(*o.b))
	}
	if o.s != nil {
		opts = append(opts, sdklog.WithExportBufferSize(*o.s))
	}
	if o.interval != nil {
		opts = append(opts, sdklog.WithExportInterval(*o.interval))
	}
	if o.timeout != nil {
		opts = append(opts, sdklog.WithExportTimeout(*o.timeout))
	}
	bp := sdklog.NewBatchProcessor(g, opts...)
	mut := &mutator{}
	var popts []sdklog.LoggerProviderOption
	if o.chain >= 1 {
		popts = append(popts, sdklog.WithProcessor(&failer{}))
	}
	if o.chain >= 2 {
		popts = append(popts, sdklog.WithProcessor(cloneEditor{}))
	}
	popts = append(popts, sdklog.WithProcessor(bp), sdklog.WithProcessor(mut))
	lp := sdklog.NewLoggerProvider(popts...)
	capt := &capture{}
	sdklog.NewLoggerProvider(sdklog.WithProcessor(capt)).Logger("c06").Emit(context.Background(), log.Record{})
	return &rig{rec: rec, g: g, bp: bp, lp: lp, mut: mut, logger: lp.Logger("c06"), tmpl: capt.rec}
}

func (r *rig) emit(t, g, k int) { r.emitShape(t, g, k, 7) }

// emitCtx: the context an Emit is issued with.  The processor ignores it (a record emitted
// with a cancelled or expired context is a record emitted): mostly background, some
// already cancelled, some past their deadline.
func emitCtx(g, k int) context.Context {
	switch (g*7 + k) % 6 {
	case 1:
		ctx, cancel := context.WithCancel(context.Background())
		cancel()
		return ctx
	case 4:
		ctx, cancel := context.WithDeadline(context.Background(), time.Now().Add(-time.Second))
		_ = cancel
		return ctx
	}
	return context.Background()
}

func (r *rig) emitShape(t, g, k, shape int) {
	id := recID{g, k, 0}
	ectx := emitCtx(g, k)
	direct := r.direct == 1 || (r.direct == 2 && (g+k)%2 == 1)
	if !direct {
		lr := mkRecord(g, k, shape)
		r.rec.add(event{kind: evCall, t: t, op: opEmit, r: id})
		// what a bridge does: ask first (a batch processor never filters)
		if !r.logger.Enabled(context.Background(), log.EnabledParameters{Severity: log.SeverityInfo}) {
			r.rec.add(event{kind: evBegin, batch: []recID{{998, 998, 1}}}) // makes the history fail
		}
		r.logger.Emit(ectx, lr)
		r.rec.add(event{kind: evRet, t: t, op: opEmit, r: id, ret: rNil})
		return
	}
	sr := r.tmpl.Clone()
	fillRecord(&sr, g, k, shape)
	r.rec.add(event{kind: evCall, t: t, op: opEmit, r: id})
	err := r.bp.OnEmit(ectx, &sr)
	r.rec.add(event{kind: evRet, t: t, op: opEmit, r: id, ret: classify(err)})
	mutate(int(r.mut.how.Load()), &sr) // the caller goes on using ITS record
}

func (r *rig) flush(t int, ctx context.Context) int {
	r.rec.add(event{kind: evCall, t: t, op: opFlush})
	var err error
	if r.viaProvider {
		err = r.lp.ForceFlush(ctx)
	} else {
		err = r.bp.ForceFlush(ctx)
	}
	rv := classify(err)
	r.rec.add(event{kind: evRet, t: t, op: opFlush, ret: rv})
	return rv
}

func (r *rig) shutdown(t int, ctx context.Context) int {
	r.rec.add(event{kind: evCall, t: t, op: opShutdown})
	var err error
	if r.viaProvider {
		err = r.lp.Shutdown(ctx)
	} else {
		err = r.bp.Shutdown(ctx)
	}
	rv := classify(err)
	r.rec.add(event{kind: evRet, t: t, op: opShutdown, ret: rv})
	return rv
}

// ---- history -> Coq ----

func coqRet(r int) string { return [...]string{"RNil", "RCtx", "ROther"}[r] }
func coqRec(r recID) string {
	return "(rc " + strconv.Itoa(r.g) + " " + strconv.Itoa(r.k) + " " + strconv.Itoa(r.body) + ")"
}
func coqOp(e event) string {
	switch e.op {
	case opEmit:
		return "(oE " + strconv.Itoa(e.r.g) + " " + strconv.Itoa(e.r.k) + " " + strconv.Itoa(e.r.body) + ")"
	case opFlush:
		return "OpFlush"
	}
	return "OpShutdown"
}
func coqEvent(e event) string {
	switch e.kind {
	case evCall:
		return "eC " + strconv.Itoa(e.t) + " " + coqOp(e)
	case evRet:
		return "eR " + strconv.Itoa(e.t) + " " + coqOp(e) + " " + coqRet(e.ret)
	case evBegin:
		s := make([]string, len(e.batch))
		for i, x := range e.batch {
			s[i] = coqRec(x)
		}
		return "eB [" + strings.Join(s, ";") + "]"
	case evEnd:
		return "eE " + vgen.Bool(e.ok)
	}
	return "eS"
}
func coqHistory(evs []event) string {
	s := make([]string, len(evs))
	for i, e := range evs {
		s[i] = coqEvent(e)
	}
	return "[" + strings.Join(s, "; ") + "]"
}
func coqCfg(c cfg) string {
	return "(mkcfg " + strconv.Itoa(c.qcap) + " " + strconv.Itoa(c.maxb) + " " + strconv.Itoa(c.bufsz) + ")"
}
func descHistory(evs []event) []string {
	out := make([]string, len(evs))
	for i, e := range evs {
		out[i] = coqEvent(e)
	}
	return out
}

const watchdog = 30 * time.Second

func main() {
	o := vgen.ParseFlags()
	otel.SetLogger(logr.New(sink))
	otel.SetErrorHandler(otel.ErrorHandlerFunc(func(error) {}))
	if *childKind != "" {
		child(*childKind)
		return
	}
	if *replayProg != "" {
		c, p := parseProg(*replayProg)
		seen := map[string]int{}
		for i := 0; i < *replayN; i++ {
			res := runProg(vgen.NewRand(o.Seed), p, c)
			seen[res.stuck+" "+strings.Join(descHistory(res.evs), "; ")]++
		}
		for h, n := range seen {
			fmt.Printf("%d x %s\n", n, h)
		}
		return
	}
	if *extraSeed > 0 {
		hazard(vgen.NewRand(o.Seed), *extraSeed, vgen.NewWriter(o.Out, "C06.Spec C06.Model C06.Corr", "case", 96))
		return
	}
	r := vgen.NewRand(o.Seed)
	w := vgen.NewWriter(o.Out, "C06.Spec C06.Model C06.Corr", "case", 96)
	w.Rule = "deterministic fragment: op lists (Emit, Mutate, ForceFlush/Shutdown with background and scripted contexts, gate exporter ok/err/block/release) over queue 1..8, batch 1..8, buffer 1..3, " +
		"options spelled plainly / left to the clamp / omitted / zero / negative (defaults), Emit through Logger.Emit or processor.OnEmit with a caller-owned record, ForceFlush/Shutdown on the processor or through the LoggerProvider, records with 0-9 attributes incl. nested values, one all-defaults program with a full 512 batch per ~60; run on the real processor by one driver goroutine and compared with the model under the eager schedule (exporter's view: batches, outcomes, Shutdown call; returns of every call); " +
		"free-running fragment: 2-16 emitters (records mutated right after Emit) x flushers x shutdown with random latency/failures/timeouts, recorded history judged by spec_ok; " +
		"non-trivial = (deterministic) the program exports something and contains a block, an overflow or a shutdown, (free-running) at least one export and one ForceFlush/Shutdown returned nil"
	nDet := o.Count(260, 5000)
	nFree := o.Count(48, 1500)
	t0 := time.Now()
	runDet(w, r.Fork(), nDet)
	t1 := time.Now()
	runFree(w, r.Fork(), nFree)
	runMisc(w, o.Out)
	runDeadlines(w, r.Fork(), o.Count(3, 20))
	t2 := time.Now()
	w.Extra["det_s"] = t1.Sub(t0).Seconds()
	w.Extra["free_s"] = t2.Sub(t1).Seconds()
	w.Extra["drop_log_total"] = sink.total.Load()
	if err := w.Flush(); err != nil {
		fmt.Fprintln(os.Stderr, err)
		os.Exit(2)
	}
}
